#!/bin/sh
# MANIFEST.setup_cmd: full .vo build of the Coq development, offline, from files on disk.
set -e
cd "$(dirname "$0")"
mkdir -p build evidence replays coq/gen
PYTHONPATH=/repo PYTHONHASHSEED=0 /venv/bin/python harness/translate.py coq/gen
cd coq
coq_makefile -f _CoqProject -o Makefile >/dev/null 2>&1
timeout 3000 make -j16 2>&1 | grep -v "WARNING conda" | tail -5
echo "setup: build finished"
