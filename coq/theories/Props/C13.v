(* C13 — the vector-space operations obey the axioms, for every nesting of
   tuples / lists / dicts, every shape (including () and size 0) and both leaf
   kinds, over any commutative ring of scalars (positive definiteness over Z).
   Values are required to be well formed (leaf data has prod(shape) entries)
   and, for binary statements, to lie in the same space.  mut_add computes the
   same value as add (the aliasing half - "accumulating into nothing returns a
   fresh value" - is decided on the implementation by the correspondence run).
   dtype rounding of reduced precision floats is outside the model. *)
From Coq Require Import List Arith ZArith Ring.
Import ListNotations.
From AG Require Import VSpace VSpaceProof Run13.

Section VectorSpaceLaws.
  Variable K : Type.
  Variables (k0 k1 : K) (kadd kmul ksub : K -> K -> K) (kopp : K -> K).
  Hypothesis Kring : ring_theory k0 k1 kadd kmul ksub kopp eq.
  Notation tadd := (tadd K kadd).
  Notation smul := (smul K kmul).
  Notation zeros := (zeros K k0).
  Notation inner := (inner K k0 kadd kmul).
  Notation wf := (wf K).
  Notation vspace := (vspace K).

  Theorem C13_zeros_identity x : wf x -> tadd (zeros (vspace x)) x = x /\ tadd x (zeros (vspace x)) = x.
  Proof. intros H. split; [exact (add_zeros_l K k0 k1 kadd kmul ksub kopp Kring x H)
                          |exact (add_zeros_r K k0 k1 kadd kmul ksub kopp Kring x H)]. Qed.

  Theorem C13_add_commutative x y : wf x -> wf y -> vspace x = vspace y -> tadd x y = tadd y x.
  Proof. exact (add_comm K k0 k1 kadd kmul ksub kopp Kring x y). Qed.

  Theorem C13_add_associative x y z :
    wf x -> wf y -> wf z -> vspace x = vspace y -> vspace y = vspace z ->
    tadd x (tadd y z) = tadd (tadd x y) z.
  Proof. exact (add_assoc K k0 k1 kadd kmul ksub kopp Kring x y z). Qed.

  Theorem C13_add_stays_in_space x y :
    wf x -> wf y -> vspace x = vspace y -> vspace (tadd x y) = vspace x /\ wf (tadd x y).
  Proof.
    intros Hx Hy Hs.
    destruct (tadd_spec K kadd x y Hx Hy Hs) as (A & B & _). now split.
  Qed.

  Theorem C13_scalar_mul_distributes x y a b :
    wf x -> wf y -> vspace x = vspace y ->
    smul (tadd x y) a = tadd (smul x a) (smul y a)
    /\ smul x (kadd a b) = tadd (smul x a) (smul x b)
    /\ smul (smul x a) b = smul x (kmul a b)
    /\ smul x k1 = x.
  Proof.
    intros Hx Hy Hs. repeat split.
    - exact (smul_add_distr K k0 k1 kadd kmul ksub kopp Kring x y a Hx Hy Hs).
    - exact (smul_plus_distr K k0 k1 kadd kmul ksub kopp Kring x a b Hx).
    - exact (smul_smul K k0 k1 kadd kmul ksub kopp Kring x a b Hx).
    - exact (smul_one K k0 k1 kadd kmul ksub kopp Kring x Hx).
  Qed.

  Theorem C13_inner_symmetric_bilinear x y z a :
    wf x -> wf y -> wf z -> vspace x = vspace y -> vspace y = vspace z ->
    inner x y = inner y x
    /\ inner (tadd x y) z = kadd (inner x z) (inner y z)
    /\ inner (smul x a) y = kmul a (inner x y).
  Proof.
    intros Hx Hy Hz Hxy Hyz. repeat split.
    - exact (inner_sym K k0 k1 kadd kmul ksub kopp Kring x y Hx Hy Hxy).
    - exact (inner_add_l K k0 k1 kadd kmul ksub kopp Kring x y z Hx Hy Hz Hxy Hyz).
    - exact (inner_smul_l K k0 k1 kadd kmul ksub kopp Kring x y a Hx Hy Hxy).
  Qed.

  Theorem C13_covector_involution x : covector K kopp (covector K kopp x) = x.
  Proof. exact (covector_involutive K k0 k1 kadd kmul ksub kopp Kring x). Qed.

  Theorem C13_basis_size_and_orthonormal v i j :
    length (standard_basis K k0 k1 v) = size v
    /\ (i < size v -> j < size v ->
        inner (unflat K v (unit_vec K k0 k1 (size v) i)) (unflat K v (unit_vec K k0 k1 (size v) j))
        = if Nat.eqb i j then k1 else k0).
  Proof.
    split; [exact (basis_length K k0 k1 v)
           |exact (basis_orthonormal K k0 k1 kadd kmul ksub kopp Kring v i j)].
  Qed.

  (* completeness: the coordinates of x are its inner products with the basis
     vectors, and a value is determined by its coordinates *)
  Theorem C13_basis_complete x y i :
    wf x -> wf y -> vspace x = vspace y ->
    (i < size (vspace x) ->
     inner x (unflat K (vspace x) (unit_vec K k0 k1 (size (vspace x)) i)) = nth i (flat K x) k0)
    /\ (flat K x = flat K y -> x = y).
  Proof.
    intros Hx Hy Hs. split.
    - exact (basis_coordinates K k0 k1 kadd kmul ksub kopp Kring x i Hx).
    - exact (flat_injective K x y Hx Hy Hs).
  Qed.
End VectorSpaceLaws.

Theorem C13_inner_positive_definite (x : ztree) :
  wf Z x -> (0 <= zinner x x)%Z /\ (zinner x x = 0%Z -> x = zzeros (zvspace x)).
Proof. exact (inner_pos_def x). Qed.

Print Assumptions C13_zeros_identity.
Print Assumptions C13_add_commutative.
Print Assumptions C13_add_associative.
Print Assumptions C13_scalar_mul_distributes.
Print Assumptions C13_inner_symmetric_bilinear.
Print Assumptions C13_covector_involution.
Print Assumptions C13_basis_size_and_orthonormal.
Print Assumptions C13_basis_complete.
Print Assumptions C13_inner_positive_definite.

(* non-vacuity: a dict holding a complex 2-vector and a tuple of a 0-d real
   and an empty list *)
Example C13_example :
  let x : ztree := Dct [(1%nat, CLeaf 5 [2%nat] [(1, 2); (3, -1)]%Z);
                        (4%nat, Seq true [RLeaf 2 [] [5%Z]; Seq false []])] in
  wf Z x /\ size (zvspace x) = 5%nat /\ length (zbasis (zvspace x)) = 5%nat
  /\ zinner x x = 40%Z /\ zflat x = [1; 2; 3; -1; 5]%Z.
Proof. vm_compute. repeat split; reflexivity. Qed.

(* the leaf operations of the model are the ones read off core.VSpace and numpy_vspaces on this run (coq/gen/GenVSpace.v) *)
From AG Require Import VSpaceTie.
From AGGen Require Import GenVSpace.
Theorem C13_leaf_spaces_follow_source :
  forall (K : Type) (k0 k1 : K) (kadd kmul ksub : K -> K -> K) (kopp : K -> K),
    ring_theory k0 k1 kadd kmul ksub kopp eq ->
    (forall dt sh, size (VR dt sh) = gen_real_size (VSpace.prod sh) /\ size (VC dt sh) = gen_complex_size (VSpace.prod sh))
    /\ (forall dt sh a b dt' sh' (c e : list (K * K)),
          inner K k0 kadd kmul (RLeaf dt sh a) (RLeaf dt' sh' b) = ksum K k0 kadd (map2 (gen_real_inner_term K kmul) a b)
          /\ inner K k0 kadd kmul (CLeaf dt sh c) (CLeaf dt' sh' e)
             = ksum K k0 kadd (map2 (gen_complex_inner_term K kadd kmul ksub kopp) c e))
    /\ (forall dt sh (d : list K) (c : list (K * K)),
          covector K kopp (RLeaf dt sh d) = RLeaf dt sh (map (gen_covector K) d)
          /\ covector K kopp (CLeaf dt sh c) = CLeaf dt sh (map (gen_complex_covector K kopp) c))
    /\ (forall dt, standard_basis K k0 k1 (VR dt nil) = map (fun u => RLeaf dt nil (cons u nil)) (gen_real_units K k1)
                   /\ standard_basis K k0 k1 (VC dt nil) = map (fun u => CLeaf dt nil (cons u nil)) (gen_complex_units K k0 k1)).
Proof.
  intros K k0 k1 kadd kmul ksub kopp HR.
  split; [exact sizes_follow_source|].
  split; [exact (inner_follows_source K k0 k1 kadd kmul ksub kopp HR)|].
  split; [exact (covector_follows_source K kopp)|].
  exact (basis_units_follow_source K k0 k1).
Qed.
Print Assumptions C13_leaf_spaces_follow_source.
