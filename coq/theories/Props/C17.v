(* C17 - user-defined primitives obey the extension contract.
   PROVED (routing tables, every arity, every list of differentiated
   positions): the three code paths of defvjp agree; the k-th returned
   cotangent comes from the entry registered for the k-th differentiated
   position - the rule, or zeros for None - and the call raises exactly when a
   position has no entry; with the default argnums the k-th maker serves
   position k; the same for defjvp ('same'/None/callable).  That the rule
   receives the primitive's output and the argument values unboxed at this
   level only is the definition of the wrapper model (Tagged.apply_prim:
   n_args = map (unbox_at t) args), shared with C08.
   NOT A THEOREM: checkpoint transparency (checked on the implementation by
   exact comparison with the unwrapped function at reverse orders 1-3). *)
From Coq Require Import List Arith.
Import ListNotations.
From AG Require Import Extend Run17.

Theorem C17_defvjp_paths_agree :
  forall d argnums,
    defvjp_route d argnums = mapM (fun a => option_map (mk a) (dget a d)) argnums.
Proof. exact defvjp_route_generic. Qed.
Print Assumptions C17_defvjp_paths_agree.

Theorem C17_defvjp_routing :
  forall d argnums,
    (forall outs k a, defvjp_route d argnums = Some outs -> nth_error argnums k = Some a ->
                      exists e, dget a d = Some e /\ nth_error outs k = Some (mk a e))
    /\ (defvjp_route d argnums = None <-> exists a, In a argnums /\ dget a d = None).
Proof. exact defvjp_routing. Qed.
Print Assumptions C17_defvjp_routing.

Theorem C17_defjvp_routing :
  forall d argnums,
    (forall outs k a, defjvp_route d argnums = Some outs -> nth_error argnums k = Some a ->
                      exists e, jget a d = Some e /\ nth_error outs k = Some (jmk a e))
    /\ (defjvp_route d argnums = None <-> exists a, In a argnums /\ jget a d = None).
Proof. exact defjvp_routing. Qed.
Print Assumptions C17_defjvp_routing.

Theorem C17_default_positions :
  forall makers k e, nth_error makers k = Some e -> dget k (make_dict None makers) = Some e.
Proof. exact make_dict_default. Qed.
Print Assumptions C17_default_positions.

Example C17_example :
  defvjp_route (make_dict None [ERule 0; ENone; ERule 2]) [0; 1; 2]%nat
  = Some [ORule 0 0; OZero 1; ORule 2 2]
  /\ defvjp_route (make_dict (Some [2; 0]%nat) [ERule 5; ERule 6]) [0; 1]%nat = None
  /\ defvjp_route (make_dict (Some [2; 0]%nat) [ERule 5; ERule 6]) [0; 2]%nat
     = Some [ORule 6 0; ORule 5 2].
Proof. vm_compute. repeat split; reflexivity. Qed.

(* the registration model is what the translator reads off core.defvjp on this run (coq/gen/GenExtend.v) *)
From AG Require Import ExtendTie.
From AGGen Require Import GenExtend.
Theorem C17_defvjp_model_follows_source :
  (forall argnums makers, make_dict argnums makers = gen_make_dict argnums makers)
  /\ (forall d argnums, defvjp_route d argnums = gen_defvjp_route d argnums).
Proof. exact (conj make_dict_follows_source defvjp_route_follows_source). Qed.
Print Assumptions C17_defvjp_model_follows_source.

(* ... and off core.defjvp / defjvp_argnum / def_linear / translate_vjp / translate_jvp: the forward-mode tables, and that a
   None entry is the zero of the ARGUMENT's space in reverse mode and of the OUTPUT's space in forward mode *)
Theorem C17_forward_model_and_none_entries_follow_source :
  (forall argnums makers, jmake_dict argnums makers = gen_jmake_dict argnums makers)
  /\ (forall d argnums, defjvp_route d argnums = gen_defjvp_route d argnums)
  /\ (forall rid argnums, defjvp_argnum_route rid argnums = gen_defjvp_argnum_route rid argnums)
  /\ (forall argnums, def_linear_route argnums = gen_def_linear_route argnums)
  /\ none_vjp_zero = gen_none_vjp_zero /\ none_jvp_zero = gen_none_jvp_zero.
Proof. exact forward_tables_follow_source. Qed.
Print Assumptions C17_forward_model_and_none_entries_follow_source.
