(* C04 - forward and reverse modes are mutually adjoint and linear.
   PROVED: (a) scalar level, generic: whenever a reverse rule and a forward rule
   are both exact for a primitive, g * jvp(v) = vjp(g) * v (and each is
   homogeneous in its (co)tangent - part of `exact1`); (b) array level:
   <g, broadcast v> = <unbroadcast g, v> for every broadcast pattern;
   (c) graph level (from C03): forward accumulation and the backward pass
   compute the same Jacobian on every DAG; (d) complex pairing: <conj g, J_R v> =
   <conj vjp(g), v> for every real 2x2 Jacobian.  Structured rules: exact
   adjoint identity evaluated on the implementation (oracle). *)
From Coq Require Import Reals List ZArith Ring.
From Coquelicot Require Import Coquelicot.
From AG Require Import RealPrelude ScalarRules VSpace VSpaceProof Broadcast Complex
     Toposort Backward BackwardProof Select.
From AGGen Require Import GenRules.
Local Open Scope R_scope.

Theorem C04_scalar_rules_adjoint :
  forall f D (r j : R -> R -> R -> R),
    exact1 f D r -> exact1 f D j -> forall x g v, D x -> g * j (f x) x v = r (f x) x g * v.
Proof. exact adjoint1. Qed.
Print Assumptions C04_scalar_rules_adjoint.

Theorem C04_sin_instance : forall x g v, g * jvp_sin_0 v (sin x) x = vjp_sin_0 (sin x) x g * v.
Proof. intros x g v. exact (adjoint1 sin all_R vjp_sin_0 (flip1 jvp_sin_0) r_sin j_sin x g v I). Qed.

Theorem C04_broadcast_adjoint :
  forall (K : Type) (k0 k1 : K) (kadd kmul ksub : K -> K -> K) (kopp : K -> K),
    ring_theory k0 k1 kadd kmul ksub kopp eq ->
    forall ss sz g v,
      chained sz ss -> length g = sz -> length v = final_size sz ss ->
      dot K k0 kadd kmul g (broadcast_steps K ss v) = dot K k0 kadd kmul (unbroadcast_steps K k0 kadd ss g) v
      /\ length (unbroadcast_steps K k0 kadd ss g) = length v.
Proof. exact unbroadcast_adjoint. Qed.
Print Assumptions C04_broadcast_adjoint.

Theorem C04_graph_modes_agree :
  forall (K : Type) (k0 k1 : K) (kadd kmul ksub : K -> K -> K) (kopp : K -> K),
    ring_theory k0 k1 kadd kmul ksub kopp eq ->
    forall (parents : nat -> list nat) (d : nat -> nat -> K) e g,
      pathsum K k0 kadd parents (s_vjpk K kmul d) e g
      = kmul g (forward K k0 kadd parents (s_jvpk K kmul d) e k1).
Proof. exact reverse_forward_same_jacobian. Qed.
Print Assumptions C04_graph_modes_agree.

Theorem C04_complex_pairing :
  forall (K : Type) (k0 k1 : K) (kadd kmul ksub : K -> K -> K) (kopp : K -> K),
    ring_theory k0 k1 kadd kmul ksub kopp eq ->
    forall j11 j12 j21 j22 g v,
      rpair K kadd kmul (cconj K kopp g) (jv K kadd kmul j11 j12 j21 j22 v)
      = rpair K kadd kmul (cconj K kopp (vjp_conv K kadd kmul kopp j11 j12 j21 j22 g)) v.
Proof. exact complex_adjoint. Qed.
Print Assumptions C04_complex_pairing.

(* selection primitives: <g, J v> = <J^T g, v> for every selection list *)
Theorem C04_selection_pairing :
  forall (K : Type) (k0 k1 : K) (kadd kmul ksub : K -> K -> K) (kopp : K -> K),
    ring_theory k0 k1 kadd kmul ksub kopp eq ->
    forall n sel g v,
      List.Forall (Select.in_bounds K n) sel -> length g = length sel -> length v = n ->
      dot K k0 kadd kmul (Select.sscatter K k0 kadd kmul n sel g) v = dot K k0 kadd kmul g (Select.sgather K k0 kmul sel v).
Proof. intros K k0 k1 kadd kmul ksub kopp R n sel g v H1 H2 H3. exact (proj1 (Select.selection_rule_adjoint K k0 k1 kadd kmul ksub kopp R n sel g v H1 H2 H3)). Qed.
Print Assumptions C04_selection_pairing.

(* multilinear primitives (einsum with any number of operands): the partial map in operand k and the reverse rule for
   operand k are adjoint for every tangent and every cotangent *)
From AG Require Import Multilinear MultilinearPair.
Theorem C04_multilinear_pairing :
  forall (K : Type) (k0 k1 : K) (kadd kmul ksub : K -> K -> K) (kopp : K -> K),
    ring_theory k0 k1 kadd kmul ksub kopp eq ->
    forall k nk no S As g dA,
      (k < length As)%nat -> List.Forall (Multilinear.in_bounds K k nk no (length As)) S -> length dA = nk -> length g = no ->
      dot K k0 kadd kmul g (mul K k0 k1 kadd kmul no S (setn k dA As)) = dot K k0 kadd kmul (mvjp K k0 k1 kadd kmul k nk S g As) dA.
Proof. exact multilinear_pairing. Qed.
Print Assumptions C04_multilinear_pairing.
