(* C18 - the bundled gradient checker accepts correct rules and rejects wrong
   ones.  PARTIAL, stated as such.  PROVED over the reals (floating-point
   rounding of the checker is represented by the remainder r, not verified):
   (a) a correct rule is accepted whenever the truncation/rounding remainder of
       the numerical derivative is below TOL (absolute) or below RTOL of the
       compared magnitude (relative);
   (b) a rule whose defect e = y^T (J' - J) v clears both thresholds by the size
       of the remainder is rejected - instantiated for a wrong factor and a wrong
       sign; a zero denominator never makes the relative test pass;
   (c) under two explicit probability hypotheses on the checker's draws
       ((H1) the law is monotone and sub-additive, (H2) each scalar draw is
       standard normal) a scalar rule off by a visible factor at a well-scaled
       point (|d f'(x0)| >= 0.0256) is rejected with probability >= 0.99; the
       Gaussian mass bound is machine-checked by interval integration;
   (d) the executable rational decision procedure used by the correspondence run
       is equivalent to the real definition.
   (e) the thresholds and the comparison of the model are the ones the translator
       reads off autograd/test_util.py on this run (TOL, RTOL, scalar_close's
       expression, the central difference);
   NOT PROVED: array/complex/container arguments, second order, forward mode
   (same decision function; exercised on the implementation with planted
   defects); (H1)/(H2) themselves. *)
From Coq Require Import Reals QArith Qreals.
From Coquelicot Require Import Coquelicot.
From AG Require Import Checker Gaussian Run18 CheckerTie.
From AGGen Require Import GenChecker.
Local Open Scope R_scope.

Theorem C18_correct_rule_accepted :
  (forall t r, Rabs r < TOL -> scalar_close (t + r) (t + 0))
  /\ (forall t r, Rabs r < RTOL * Rabs (2 * t + r) -> scalar_close (t + r) (t + 0)).
Proof. exact (conj accept_correct accept_correct_relative). Qed.
Print Assumptions C18_correct_rule_accepted.

Theorem C18_defective_rule_rejected :
  forall t r e,
    TOL + Rabs r <= Rabs e -> RTOL * Rabs (2 * t + r + e) + Rabs r <= Rabs e ->
    ~ scalar_close (t + r) (t + e).
Proof. exact reject_region. Qed.
Print Assumptions C18_defective_rule_rejected.

Theorem C18_wrong_factor_and_sign_rejected :
  (forall t d, TOL <= Rabs (d * t) -> RTOL * Rabs (2 + d) <= Rabs d -> t <> 0 ->
               ~ scalar_close (t + 0) (t + d * t))
  /\ (forall t, TOL <= Rabs (2 * t) -> ~ scalar_close (t + 0) (t + (- 2 * t))).
Proof. exact (conj reject_wrong_factor reject_wrong_sign). Qed.
Print Assumptions C18_wrong_factor_and_sign_rejected.

Theorem C18_rejection_probability_partial :
  forall (P : (R -> R -> Prop) -> R),
    (forall A B : R -> R -> Prop, (forall x y, A x y -> B x y) -> P A <= P B) ->
    (forall A B : R -> R -> Prop, P (fun x y => A x y \/ B x y) <= P A + P B) ->
    (forall s, 0 <= s -> P (fun x _ => Rabs x < s) = RInt gauss (- s) s) ->
    (forall s, 0 <= s -> P (fun _ y => Rabs y < s) = RInt gauss (- s) s) ->
    forall c d, RTOL * Rabs (2 + d) <= Rabs d -> TOL * 25600 <= Rabs (d * c) ->
                P (accepted c d) <= 1 / 100.
Proof. exact reject_probability_at_least_099. Qed.
Print Assumptions C18_rejection_probability_partial.

Theorem C18_decision_procedure_correct :
  forall a b, scalar_close_q a b = true <-> scalar_close (Q2R a) (Q2R b).
Proof. exact scalar_close_q_correct. Qed.
Print Assumptions C18_decision_procedure_correct.

Theorem C18_model_follows_source :
  (Q2R gen_TOL = TOL /\ Q2R gen_RTOL = RTOL /\ gen_TOL = qTOL /\ gen_numerical_jvp = GenCentral)
  /\ (forall a b, gen_scalar_close a b = true <-> scalar_close (Q2R a) (Q2R b))
  /\ (forall a b, scalar_close_q a b = gen_scalar_close a b).
Proof. exact (conj thresholds_follow_source (conj scalar_close_follows_source run18_procedure_is_the_source_expression)). Qed.
Print Assumptions C18_model_follows_source.
