(* C09 - the documented complex convention.  PROVED over K[i] for any
   commutative ring K: reverse mode's conj(J_R^T conj g) is g * f'(z) for a
   holomorphic map; for a real loss of a complex parameter it is the conjugate
   of the steepest-ascent direction; a real -> complex -> real composite gets
   the ordinary real derivative with zero imaginary part; forward (J_R v) and
   reverse are adjoint for the pairing Re(conj a b).  The complex vector space
   (pairs, conj as covector, pairing) is the CLeaf case of C13.
   NOT PROVED: that each complex-capable primitive's rule realises the
   convention (examined by the implementation oracle on real/complex mixes with
   exact Gaussian-integer data for linear primitives; transcendental functions
   of a complex variable, FFT and complex linalg numerically). *)
From Coq Require Import Ring.
From Coq Require Import List.
From AG Require Import Complex ComplexRing VSpace VSpaceProof Bilinear Realified.

Theorem C09_holomorphic :
  forall (K : Type) (k0 k1 : K) (kadd kmul ksub : K -> K -> K) (kopp : K -> K),
    ring_theory k0 k1 kadd kmul ksub kopp eq ->
    forall a b g, vjp_conv K kadd kmul kopp a (kopp b) b a g = cmul K kadd kmul ksub g (a, b).
Proof. exact holomorphic_vjp. Qed.
Print Assumptions C09_holomorphic.

Theorem C09_real_loss_of_complex_parameter :
  forall (K : Type) (k0 k1 : K) (kadd kmul ksub : K -> K -> K) (kopp : K -> K),
    ring_theory k0 k1 kadd kmul ksub kopp eq ->
    forall lx ly, vjp_conv K kadd kmul kopp lx ly k0 k0 (k1, k0) = cconj K kopp (lx, ly).
Proof. exact real_loss_gradient. Qed.
Print Assumptions C09_real_loss_of_complex_parameter.

Theorem C09_real_function_through_complex_intermediates :
  forall (K : Type) (k0 k1 : K) (kadd kmul ksub : K -> K -> K) (kopp : K -> K),
    ring_theory k0 k1 kadd kmul ksub kopp eq ->
    forall a b hx hy,
      vjp_conv K kadd kmul kopp a k0 b k0 (vjp_conv K kadd kmul kopp hx hy k0 k0 (k1, k0))
      = (kadd (kmul hx a) (kmul hy b), k0).
Proof. exact real_through_complex. Qed.
Print Assumptions C09_real_function_through_complex_intermediates.

Theorem C09_forward_reverse_adjoint :
  forall (K : Type) (k0 k1 : K) (kadd kmul ksub : K -> K -> K) (kopp : K -> K),
    ring_theory k0 k1 kadd kmul ksub kopp eq ->
    forall j11 j12 j21 j22 g v,
      rpair K kadd kmul (cconj K kopp g) (jv K kadd kmul j11 j12 j21 j22 v)
      = rpair K kadd kmul (cconj K kopp (vjp_conv K kadd kmul kopp j11 j12 j21 j22 g)) v.
Proof. exact complex_adjoint. Qed.
Print Assumptions C09_forward_reverse_adjoint.

(* K[i] is a commutative ring, so the ring-generic rule theorems hold for complex arrays as they stand; for a C-linear
   map the ring-level rule g |-> g * m is what the convention prescribes (C09_holomorphic).  Instance: every bilinear
   primitive with complex operands (dot / matmul / tensordot / inner / outer / kron / einsum / cross / multiply) - the two
   reverse rules are the adjoints of the partial maps IN K[i], each in its argument's space. *)
Theorem C09_complex_numbers_form_a_ring :
  forall (K : Type) (k0 k1 : K) (kadd kmul ksub : K -> K -> K) (kopp : K -> K),
    ring_theory k0 k1 kadd kmul ksub kopp eq ->
    ring_theory (ComplexRing.c0 K k0) (ComplexRing.c1 K k0 k1) (ComplexRing.cadd K kadd) (Complex.cmul K kadd kmul ksub)
                (ComplexRing.csub K ksub) (ComplexRing.copp K kopp) eq.
Proof. exact ComplexRing.C_ring. Qed.
Print Assumptions C09_complex_numbers_form_a_ring.

Theorem C09_complex_bilinear_rules_are_adjoints :
  forall (K : Type) (k0 k1 : K) (kadd kmul ksub : K -> K -> K) (kopp : K -> K),
    ring_theory k0 k1 kadd kmul ksub kopp eq ->
    let C := (K * K)%type in
    let z := ComplexRing.c0 K k0 in let ad := ComplexRing.cadd K kadd in let ml := Complex.cmul K kadd kmul ksub in
    forall na nb no (S : list (Bilinear.term C)) (A B g : list C),
      List.Forall (Bilinear.in_bounds C na nb no) S -> length A = na -> length B = nb -> length g = no ->
      VSpaceProof.dot C z ad ml g (Bilinear.bil C z ad ml no S A B) = VSpaceProof.dot C z ad ml (Bilinear.vjpA C z ad ml na S g B) A
      /\ VSpaceProof.dot C z ad ml g (Bilinear.bil C z ad ml no S A B) = VSpaceProof.dot C z ad ml (Bilinear.vjpB C z ad ml nb S g A) B
      /\ length (Bilinear.vjpA C z ad ml na S g B) = na /\ length (Bilinear.vjpB C z ad ml nb S g A) = nb
      /\ length (Bilinear.bil C z ad ml no S A B) = no.
Proof.
  intros K k0 k1 kadd kmul ksub kopp R C z ad ml na nb no S A B g.
  exact (Bilinear.bilinear_rules_adjoint C z (ComplexRing.c1 K k0 k1) ad ml (ComplexRing.csub K ksub) (ComplexRing.copp K kopp)
           (ComplexRing.C_ring K k0 k1 kadd kmul ksub kopp R) na nb no S A B g).
Qed.
Print Assumptions C09_complex_bilinear_rules_are_adjoints.

(* R-linear primitives on complex arrays in realified form (fft / ifft / rfft / irfft families, fftshift, real, imag, conj,
   contractions with complex constants, structural primitives on complex data): for every list of structure constants the
   rule "conjugate the cotangent, apply the transposed map, conjugate the result" - autograd's convention - satisfies
   <conj g, J v> = <conj (vjp g), v> and lands in the argument's space *)
Theorem C09_realified_convention_pairing :
  forall (K : Type) (k0 k1 : K) (kadd kmul ksub : K -> K -> K) (kopp : K -> K),
    ring_theory k0 k1 kadd kmul ksub kopp eq ->
    forall cin cout na no S g v,
      List.Forall (Bilinear.in_bounds K na 1 no) S -> length v = na -> length g = no ->
      VSpaceProof.dot K k0 kadd kmul (Realified.cj K kopp cout g) (Realified.lin K k0 k1 kadd kmul no S v)
      = VSpaceProof.dot K k0 kadd kmul (Realified.cj K kopp cin (Realified.cvjp K k0 k1 kadd kmul kopp cin cout na S g)) v
      /\ length (Realified.cvjp K k0 k1 kadd kmul kopp cin cout na S g) = na
      /\ length (Realified.lin K k0 k1 kadd kmul no S v) = no.
Proof. exact Realified.convention_pairing. Qed.
Print Assumptions C09_realified_convention_pairing.

(* the polynomial primitives over complex numbers (K[i], any commutative ring K): the rules read off the source on this run
   are g times the coefficient D of the exact expansion f(z + h) = f(z) + D h + R h^2, i.e. g * f'(z) - what the
   convention assigns to a holomorphic map (C09_convention above: holomorphic_vjp) *)
From AG Require Import PolyRules.
From AGGen Require Import GenRingRules.
Theorem C09_polynomial_rules_over_complex_numbers :
  forall (K : Type) (k0 k1 : K) (kadd kmul ksub : K -> K -> K) (kopp : K -> K),
    ring_theory k0 k1 kadd kmul ksub kopp eq ->
    let C := (K * K)%type in
    let z0 := ComplexRing.c0 K k0 in let z1 := ComplexRing.c1 K k0 k1 in
    let ad := ComplexRing.cadd K kadd in let ml := Complex.cmul K kadd kmul ksub in
    let sb := ComplexRing.csub K ksub in let op := ComplexRing.copp K kopp in
    forall x y : C,
      (is_rule C ad ml (fun t => ml t y) x y z0 (ring_vjp_multiply_0 C ml (ml x y) x y) (fun g => ml g y)
       /\ is_rule C ad ml (fun t => ml x t) y x z0 (ring_vjp_multiply_1 C ml (ml x y) x y) (fun g => ml x g))
      /\ is_rule C ad ml (fun t => ml t t) x (ml (ad z1 z1) x) z1 (ring_vjp_square_0 C z0 z1 ad ml (ml x x) x)
                 (fun g => ring_jvp_square_0 C z0 z1 ad ml g (ml x x) x)
      /\ (is_rule C ad ml (fun t => sb t y) x z1 z0 (ring_vjp_subtract_0 C (sb x y) x y) (fun g => ring_jvp_subtract_0 C g (sb x y) x y)
          /\ is_rule C ad ml (fun t => sb x t) y (op z1) z0 (ring_vjp_subtract_1 C op (sb x y) x y) (fun g => ring_jvp_subtract_1 C op g (sb x y) x y)).
Proof.
  intros K k0 k1 kadd kmul ksub kopp HR C z0 z1 ad ml sb op x y.
  pose proof (ComplexRing.C_ring K k0 k1 kadd kmul ksub kopp HR) as CR.
  split; [exact (multiply_rules C z0 z1 ad ml sb op CR x y)|].
  split; [exact (square_rules C z0 z1 ad ml sb op CR x)|].
  exact (subtract_rules C z0 z1 ad ml sb op CR x y).
Qed.
Print Assumptions C09_polynomial_rules_over_complex_numbers.
