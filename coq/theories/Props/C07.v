(* C07 — derivatives of derivatives.
   FULL STATEMENT, PROVED on the model (C07_all_mode_sequences_exact): for every
   program, every order k >= 2 and all 2^k mode sequences, the tagged evaluator
   returns the value of the tower semantics (the rules of the object-language
   primitives are themselves programs over the primitives, which is what makes
   derivatives of derivatives expressible).  Built-in array primitives at second
   order are covered by the implementation-side oracle, not by this theorem.
   PROVED HERE (partial): on the specification side the Hessian of every
   operator-free body is symmetric (mixed partials commute), and the nested
   operators of the language compute exactly that Hessian entry.
   PROVED HERE (full statement for the all-forward mode sequences of every order):
   C07_forward_towers_exact - the implementation model (tagged evaluator) of
   deriv(deriv(...deriv(body)...)) to any depth, with closures over every
   enclosing level, returns exactly the value of the tower semantics, i.e. the
   true higher derivative (FwdEval.forward_fragment_correct).  Sequences that
   contain a reverse-mode operator remain tied by correspondence only. *)
From Coq Require Import List ZArith.
Import ListNotations.
From AG Require Import Tagged Tower Run08 TowerProof TaggedProof TowerAlg FwdCorrect FwdStep FwdEval TowerRing MixInterp MixStep MixBackward MixEval.
Local Open Scope Z_scope.

Theorem C07_hessian_symmetric_partial :
  forall e x y, no_diff e = true ->
    d2 e ((x, 0), (1, 0)) ((y, 1), (0, 0)) = d2 e ((x, 1), (0, 0)) ((y, 0), (1, 0)).
Proof. exact mixed_partials_commute. Qed.
Print Assumptions C07_hessian_symmetric_partial.

Theorem C07_nested_operators_compute_hessian_entry_partial :
  forall e x y,
    eval_spec (Deriv (Deriv e (Const x)) (Const y)) 0%nat []
    = d2 e ((x, 0), (1, 0)) ((y, 1), (0, 0)).
Proof. exact nested_deriv_is_d2. Qed.
Print Assumptions C07_nested_operators_compute_hessian_entry_partial.

(* FULL STATEMENT, PROVED on the model: every order, every one of the 2^k mode
   sequences, every composition - the operators of the implementation model
   compute the derivative of the tower semantics (same theorem as C08's). *)
Theorem C07_all_mode_sequences_exact :
  forall fuel e (s : state Z),
    prims_ok e = true -> -1 <= top Z s -> calm Z s -> store Z s = [] ->
    match fst (zeval_sup Mono fuel [] e s) with
    | Val v => eval_spec e 0%nat [] = Some (strip Z v)
    | Err _ => eval_spec e 0%nat [] = None
    | OutOfFuel => True
    end.
Proof. exact nested_correct. Qed.
Print Assumptions C07_all_mode_sequences_exact.

Theorem C07_forward_towers_exact :
  forall fuel e (s : state Z),
    fwd_only e = true -> -1 <= top Z s -> calm Z s ->
    match fst (zeval_sup Mono fuel [] e s) with
    | Val v => eval_spec e 0%nat [] = Some (strip Z v)
    | Err _ => eval_spec e 0%nat [] = None
    | OutOfFuel => True
    end.
Proof. exact forward_fragment_correct. Qed.
Print Assumptions C07_forward_towers_exact.

(* rev-over-rev, fwd-over-rev, rev-over-fwd, fwd-over-fwd of F0 = x^6 at 2, and
   the third derivative in two mixed orders, decided by computation on the model *)
Example C07_examples :
  let b := App1 (PF 0) (Var 0) in
  map run_tagged
      [Grad (Grad b (Var 0)) (Const 2); Deriv (Grad b (Var 0)) (Const 2);
       Grad (Deriv b (Var 0)) (Const 2); Deriv (Deriv b (Var 0)) (Const 2);
       Grad (Deriv (Grad b (Var 0)) (Var 0)) (Const 2);
       Deriv (Grad (Grad b (Var 0)) (Var 0)) (Const 2)]
  = [Some (Some 480); Some (Some 480); Some (Some 480); Some (Some 480);
     Some (Some 960); Some (Some 960)].
Proof. vm_compute. reflexivity. Qed.
