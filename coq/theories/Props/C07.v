(* C07 — derivatives of derivatives.
   FULL STATEMENT, PROVED on the model (C07_all_mode_sequences_exact): for every
   program, every order k >= 2 and all 2^k mode sequences, the tagged evaluator
   returns the value of the tower semantics (the rules of the object-language
   primitives are themselves programs over the primitives, which is what makes
   derivatives of derivatives expressible).  Built-in array primitives at second
   order are covered by the implementation-side oracle, not by this theorem.
   PROVED HERE (partial): on the specification side the Hessian of every
   operator-free body is symmetric (mixed partials commute), and the nested
   operators of the language compute exactly that Hessian entry.
   PROVED HERE (full statement for the all-forward mode sequences of every order):
   C07_forward_towers_exact - the implementation model (tagged evaluator) of
   deriv(deriv(...deriv(body)...)) to any depth, with closures over every
   enclosing level, returns exactly the value of the tower semantics, i.e. the
   true higher derivative (FwdEval.forward_fragment_correct).  Sequences that
   contain a reverse-mode operator remain tied by correspondence only. *)
From Coq Require Import List ZArith.
Import ListNotations.
From AG Require Import Tagged Tower Run08 TowerProof TaggedProof TowerAlg FwdCorrect FwdStep FwdEval TowerRing MixInterp MixStep MixBackward MixEval.
Local Open Scope Z_scope.

Theorem C07_hessian_symmetric_partial :
  forall e x y, no_diff e = true ->
    d2 e ((x, 0), (1, 0)) ((y, 1), (0, 0)) = d2 e ((x, 1), (0, 0)) ((y, 0), (1, 0)).
Proof. exact mixed_partials_commute. Qed.
Print Assumptions C07_hessian_symmetric_partial.

Theorem C07_nested_operators_compute_hessian_entry_partial :
  forall e x y,
    eval_spec (Deriv (Deriv e (Const x)) (Const y)) 0%nat []
    = d2 e ((x, 0), (1, 0)) ((y, 1), (0, 0)).
Proof. exact nested_deriv_is_d2. Qed.
Print Assumptions C07_nested_operators_compute_hessian_entry_partial.

(* FULL STATEMENT, PROVED on the model: every order, every one of the 2^k mode
   sequences, every composition - the operators of the implementation model
   compute the derivative of the tower semantics (same theorem as C08's). *)
Theorem C07_all_mode_sequences_exact :
  forall fuel e (s : state Z),
    prims_ok e = true -> -1 <= top Z s -> calm Z s -> store Z s = [] ->
    match fst (zeval_sup Mono fuel [] e s) with
    | Val v => eval_spec e 0%nat [] = Some (strip Z v)
    | Err _ => eval_spec e 0%nat [] = None
    | OutOfFuel => True
    end.
Proof. exact nested_correct. Qed.
Print Assumptions C07_all_mode_sequences_exact.

Theorem C07_forward_towers_exact :
  forall fuel e (s : state Z),
    fwd_only e = true -> -1 <= top Z s -> calm Z s ->
    match fst (zeval_sup Mono fuel [] e s) with
    | Val v => eval_spec e 0%nat [] = Some (strip Z v)
    | Err _ => eval_spec e 0%nat [] = None
    | OutOfFuel => True
    end.
Proof. exact forward_fragment_correct. Qed.
Print Assumptions C07_forward_towers_exact.

(* rev-over-rev, fwd-over-rev, rev-over-fwd, fwd-over-fwd of F0 = x^6 at 2, and
   the third derivative in two mixed orders, decided by computation on the model *)
Example C07_examples :
  let b := App1 (PF 0) (Var 0) in
  map run_tagged
      [Grad (Grad b (Var 0)) (Const 2); Deriv (Grad b (Var 0)) (Const 2);
       Grad (Deriv b (Var 0)) (Const 2); Deriv (Deriv b (Var 0)) (Const 2);
       Grad (Deriv (Grad b (Var 0)) (Var 0)) (Const 2);
       Deriv (Grad (Grad b (Var 0)) (Var 0)) (Const 2)]
  = [Some (Some 480); Some (Some 480); Some (Some 480); Some (Some 480);
     Some (Some 960); Some (Some 960)].
Proof. vm_compute. reflexivity. Qed.

(* built-in array primitives, the bilinear family (dot / matmul / tensordot / inner / outer / kron / two-operand einsum /
   convolve / cross / multiply): the family is closed under differentiation - the reverse rules are bilinear primitives
   with permuted structure constants - so the rules of the rules (second order, any mode sequence) are adjoints again, and
   differentiating the reverse rule with respect to the cotangent gives back the forward map. *)
From Coq Require Import Ring.
From AG Require Import VSpace VSpaceProof Index Bilinear BilinearClosed.
Theorem C07_bilinear_family_closed_under_differentiation :
  forall (K : Type) (k0 k1 : K) (kadd kmul ksub : K -> K -> K) (kopp : K -> K),
    ring_theory k0 k1 kadd kmul ksub kopp eq ->
    (forall na S g B, vjpA K k0 kadd kmul na S g B = bil K k0 kadd kmul na (map (permA K) S) g B)
    /\ (forall nb S g A, vjpB K k0 kadd kmul nb S g A = bil K k0 kadd kmul nb (map (permB K) S) g A)
    /\ (forall na nb no S B g u,
          List.Forall (in_bounds K na nb no) S -> length B = nb -> length g = no -> length u = na ->
          dot K k0 kadd kmul u (vjpA K k0 kadd kmul na S g B) = dot K k0 kadd kmul (vjpA K k0 kadd kmul no (map (permA K) S) u B) g
          /\ dot K k0 kadd kmul u (vjpA K k0 kadd kmul na S g B) = dot K k0 kadd kmul (vjpB K k0 kadd kmul nb (map (permA K) S) u g) B
          /\ vjpA K k0 kadd kmul no (map (permA K) S) u B = bil K k0 kadd kmul no S u B)
    /\ (forall na nb no S A g u,
          List.Forall (in_bounds K na nb no) S -> length A = na -> length g = no -> length u = nb ->
          dot K k0 kadd kmul u (vjpB K k0 kadd kmul nb S g A) = dot K k0 kadd kmul (vjpA K k0 kadd kmul no (map (permB K) S) u A) g
          /\ dot K k0 kadd kmul u (vjpB K k0 kadd kmul nb S g A) = dot K k0 kadd kmul (vjpB K k0 kadd kmul na (map (permB K) S) u g) A).
Proof.
  intros K k0 k1 kadd kmul ksub kopp HR.
  split; [exact (vjpA_is_bilinear K k0 kadd kmul)|].
  split; [exact (vjpB_is_bilinear K k0 kadd kmul)|].
  split; [exact (second_order_rules_adjoint K k0 k1 kadd kmul ksub kopp HR)|].
  exact (second_order_rules_adjoint_B K k0 k1 kadd kmul ksub kopp HR).
Qed.
Print Assumptions C07_bilinear_family_closed_under_differentiation.
