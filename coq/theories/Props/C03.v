(* C03 — chain rule on arbitrary graphs, each rule once.  Property theorems
   only; every proof is `exact <lemma>`. *)
From Coq Require Import List Arith ZArith Ring.
Import ListNotations.
From AG Require Import Toposort ToposortProof Backward BackwardProof Run03.

(* (1) for every DAG and end node, the order in which rules are invoked is
   duplicate-free, is exactly the set reachable from the end node (dead code is
   never differentiated), starts at the end node, and lists every consumer
   before each of its parents (all contributions are in before a rule runs) *)
Theorem C03_invocation_order :
  forall (parents : nat -> list nat),
    (forall n p, In p (parents n) -> p < n) ->
    forall e, exists ord,
      toposort parents e = Some ord
      /\ NoDup ord
      /\ (forall m, In m ord <-> reach parents e m)
      /\ (exists tl, ord = e :: tl)
      /\ (forall c p, reach parents e c -> In p (parents c) -> before c p ord).
Proof. exact toposort_correct. Qed.
Print Assumptions C03_invocation_order.

(* (2) the backward pass returns the sum over all dependency paths of the
   composed local rules, for any commutative monoid of cotangents and any
   additive local rules; its invocation log is the order of (1) *)
Theorem C03_backward_is_path_sum :
  forall (V : Type) (vzero : V) (vadd : V -> V -> V),
    (forall a b, vadd a b = vadd b a) ->
    (forall a b c, vadd a (vadd b c) = vadd (vadd a b) c) ->
    (forall a, vadd vzero a = a) ->
    forall (parents : nat -> list nat),
      (forall n p, In p (parents n) -> p < n) ->
      (forall n, n <> 0 -> parents n <> []) ->
      forall (vjpk : nat -> nat -> V -> V),
        (forall n k a b, vjpk n k (vadd a b) = vadd (vjpk n k a) (vjpk n k b)) ->
        forall e g, exists ord,
          backward_pass V vadd parents vjpk g e
          = Some (pathsum V vzero vadd parents vjpk e g, ord)
          /\ toposort parents e = Some ord.
Proof. exact backward_pass_pathsum. Qed.
Print Assumptions C03_backward_is_path_sum.

(* (3) forward accumulation yields the same Jacobian (any commutative ring) *)
Theorem C03_forward_same_jacobian :
  forall (K : Type) (k0 k1 : K) (kadd kmul ksub : K -> K -> K) (kopp : K -> K),
    ring_theory k0 k1 kadd kmul ksub kopp eq ->
    forall (parents : nat -> list nat) (d : nat -> nat -> K) e g,
      pathsum K k0 kadd parents (s_vjpk K kmul d) e g
      = kmul g (forward K k0 kadd parents (s_jvpk K kmul d) e k1).
Proof. exact reverse_forward_same_jacobian. Qed.
Print Assumptions C03_forward_same_jacobian.

(* non-vacuity: a diamond fed by a multi-edge, with a dead branch (node 4) *)
Example C03_example :
  let t := [[]; [(0%nat,2%Z);(0%nat,3%Z)]; [(1%nat,5%Z)]; [(1%nat,7%Z);(2%nat,1%Z)];
            [(0%nat,9%Z)]; [(3%nat,1%Z);(2%nat,2%Z)]] in
  run_backward t 5 1%Z = Some (110%Z, [5;3;2;1;0]%nat)
  /\ run_forward t 5 1%Z = 110%Z.
Proof. vm_compute. split; reflexivity. Qed.

From AG Require Import TopoTie.
From AGGen Require Import GenTopo.
From AG Require Import Tagged Tower TaggedProof TowerAlg FwdCorrect TowerRing MixInterp MixStep MixBackward MixEval.

(* (4) the same on the engine model itself (one global node store shared by all
   traces, rule bodies run through the primitive wrapper and therefore traced by
   every enclosing level): from any store that is a DAG, for any end node of a
   trace, the backward pass started with cotangent 1 returns a value whose
   meaning at the enclosing levels is the derivative of the end node with respect
   to the root of its trace - or runs out of fuel; it never raises. *)
Theorem C03_engine_backward_pass :
  forall (L : list level) (r : nat) (s : state Z) (en f : nat),
    ldesc L -> SInv (store Z s) -> tnode (store Z s) (wf (store Z s) L) r (S en) en ->
    mgood L s (Some (dnode (length L) (store Z s) (interp (store Z s) L) (S en) en))
          (Tagged.backward_pass Z Z.add Z.sub Z.mul Z.opp zF Z.sgn f (VNum Z 1%Z) en s).
Proof. exact backward_pass_good. Qed.
Print Assumptions C03_engine_backward_pass.

(* (5) the tie of (1)-(3) to the source text: the two loops of util.toposort and the loop of core.backward_pass, translated
   statement by statement from /repo's working tree on this run (coq/gen/GenTopo.v), are the model the theorems above are
   about - for every graph, end node, fuel and cotangent type. *)
Theorem C03_toposort_model_follows_source :
  forall (parents : nat -> list nat) (e : nat), Toposort.toposort parents e = gen_toposort parents e.
Proof. exact toposort_follows_source. Qed.
Print Assumptions C03_toposort_model_follows_source.

Theorem C03_backward_pass_model_follows_source :
  forall (parents : nat -> list nat) (V : Type) (vadd : V -> V -> V) (vjpk : nat -> nat -> V -> V) (g : V) (e : nat),
    Backward.backward_pass V vadd parents vjpk g e = gen_backward_pass V vadd parents vjpk g e.
Proof. exact backward_pass_follows_source. Qed.
Print Assumptions C03_backward_pass_model_follows_source.
