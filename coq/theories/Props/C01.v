(* C01 - reverse-mode rules are exact.  FAMILY-PARTIAL: proved set below;
   everything else is examined by the implementation oracle of ./check C01
   (exact J^T g over a full basis for primitives affine in the argument,
   Richardson differences otherwise) and is NOT claimed as proved.
   PROVED (rules are the definitions regenerated from numpy_vjps.py on every
   run, coq/gen/GenRules.v):
   (a) every ufunc-style unary rule is g times the true derivative of the real
       function the primitive denotes, on its stated open domain;
   (b) the same for both arguments of the binary ufuncs (partial derivatives);
   (c) array half, all ranks / shapes / broadcast patterns, any commutative
       ring: unbroadcast is the adjoint of NumPy broadcasting and returns an
       array of the target's size - so rule = unbroadcast(g * df) is J^T g for
       primal = f(broadcast x, broadcast y);
   (d) at a tie maximum's rule gives each argument 1/2, a convex combination of
       the one-sided derivatives 0 and 1; away from ties it is the derivative.
   Not proved: mod/remainder, clip, nan_to_num, logaddexp2 (translated only);
   all structured rules (reductions, gathers, contractions, linalg, fft). *)
From Coq Require Import Reals List Ring.
From Coquelicot Require Import Coquelicot.
From AG Require Import RealPrelude ScalarRules VSpace VSpaceProof Broadcast MatMul Select Stats StatsProof Bilinear.
From AGGen Require Import GenRules.
Local Open Scope R_scope.

Theorem C01_unary_rules_exact :
  exact1 f_negative all_R vjp_negative_0 /\ exact1 f_reciprocal (fun x => x <> 0) vjp_reciprocal_0
  /\ exact1 exp all_R vjp_exp_0 /\ exact1 f_exp2 all_R vjp_exp2_0 /\ exact1 f_expm1 all_R vjp_expm1_0
  /\ exact1 ln (fun x => 0 < x) vjp_log_0 /\ exact1 f_log2 (fun x => 0 < x) vjp_log2_0
  /\ exact1 f_log10 (fun x => 0 < x) vjp_log10_0 /\ exact1 f_log1p (fun x => -1 < x) vjp_log1p_0
  /\ exact1 sin all_R vjp_sin_0 /\ exact1 cos all_R vjp_cos_0 /\ exact1 f_tan (fun x => cos x <> 0) vjp_tan_0
  /\ exact1 asin (fun x => -1 < x < 1) vjp_arcsin_0 /\ exact1 acos (fun x => -1 < x < 1) vjp_arccos_0
  /\ exact1 atan all_R vjp_arctan_0 /\ exact1 f_sinh all_R vjp_sinh_0 /\ exact1 f_cosh all_R vjp_cosh_0
  /\ exact1 f_tanh all_R vjp_tanh_0 /\ exact1 f_arcsinh all_R vjp_arcsinh_0
  /\ exact1 f_arccosh (fun x => 1 < x) vjp_arccosh_0 /\ exact1 f_arctanh (fun x => -1 < x < 1) vjp_arctanh_0
  /\ exact1 f_rad2deg all_R vjp_rad2deg_0 /\ exact1 f_rad2deg all_R vjp_degrees_0
  /\ exact1 f_deg2rad all_R vjp_deg2rad_0 /\ exact1 f_deg2rad all_R vjp_radians_0
  /\ exact1 f_square all_R vjp_square_0 /\ exact1 sqrt (fun x => 0 < x) vjp_sqrt_0
  /\ exact1 f_sinc (fun x => x <> 0) vjp_sinc_0 /\ exact1 Rabs (fun x => x <> 0) vjp_abs_0
  /\ exact1 Rabs (fun x => x <> 0) vjp_fabs_0 /\ exact1 Rabs (fun x => x <> 0) vjp_absolute_0.
Proof.
  exact (conj r_negative (conj r_reciprocal (conj r_exp (conj r_exp2 (conj r_expm1 (conj r_log (conj r_log2
        (conj r_log10 (conj r_log1p (conj r_sin (conj r_cos (conj r_tan (conj r_arcsin (conj r_arccos
        (conj r_arctan (conj r_sinh (conj r_cosh (conj r_tanh (conj r_arcsinh (conj r_arccosh (conj r_arctanh
        (conj r_rad2deg (conj r_degrees (conj r_deg2rad (conj r_radians (conj r_square (conj r_sqrt (conj r_sinc
        (conj r_abs (conj r_fabs r_absolute)))))))))))))))))))))))))))))).
Qed.
Print Assumptions C01_unary_rules_exact.

Theorem C01_binary_rules_exact :
  exact2_0 f_add all_R2 vjp_add_0 /\ exact2_1 f_add all_R2 vjp_add_1
  /\ exact2_0 f_sub all_R2 vjp_subtract_0 /\ exact2_1 f_sub all_R2 vjp_subtract_1
  /\ exact2_0 f_mul all_R2 vjp_multiply_0 /\ exact2_1 f_mul all_R2 vjp_multiply_1
  /\ exact2_0 f_div (fun x y => y <> 0) vjp_divide_0 /\ exact2_1 f_div (fun x y => y <> 0) vjp_divide_1
  /\ exact2_0 f_div (fun x y => y <> 0) vjp_true_divide_0 /\ exact2_1 f_div (fun x y => y <> 0) vjp_true_divide_1
  /\ exact2_0 f_logaddexp all_R2 vjp_logaddexp_0 /\ exact2_1 f_logaddexp all_R2 vjp_logaddexp_1
  /\ exact2_0 f_arctan2 (fun x y => 0 < y) vjp_arctan2_0 /\ exact2_1 f_arctan2 (fun x y => 0 < y) vjp_arctan2_1
  /\ exact2_0 f_hypot (fun x y => 0 < x ^ 2 + y ^ 2) vjp_hypot_0
  /\ exact2_1 f_hypot (fun x y => 0 < x ^ 2 + y ^ 2) vjp_hypot_1
  /\ exact2_0 f_power (fun x y => 0 < x) vjp_power_0 /\ exact2_1 f_power (fun x y => 0 < x) vjp_power_1.
Proof.
  exact (conj r_add_0 (conj r_add_1 (conj r_subtract_0 (conj r_subtract_1 (conj r_multiply_0 (conj r_multiply_1
        (conj r_divide_0 (conj r_divide_1 (conj r_true_divide_0 (conj r_true_divide_1 (conj r_logaddexp_0
        (conj r_logaddexp_1 (conj r_arctan2_0 (conj r_arctan2_1 (conj r_hypot_0 (conj r_hypot_1
        (conj r_power_0 r_power_1))))))))))))))))).
Qed.
Print Assumptions C01_binary_rules_exact.

Theorem C01_unbroadcast_is_adjoint_of_broadcasting :
  forall (K : Type) (k0 k1 : K) (kadd kmul ksub : K -> K -> K) (kopp : K -> K),
    ring_theory k0 k1 kadd kmul ksub kopp eq ->
    forall ss sz g v,
      chained sz ss -> length g = sz -> length v = final_size sz ss ->
      dot K k0 kadd kmul g (broadcast_steps K ss v) = dot K k0 kadd kmul (unbroadcast_steps K k0 kadd ss g) v
      /\ length (unbroadcast_steps K k0 kadd ss g) = length v.
Proof. exact unbroadcast_adjoint. Qed.
Print Assumptions C01_unbroadcast_is_adjoint_of_broadcasting.

(* reductions: np.sum / np.mean over any set of axes is a chain of the elementary sums, and the registered
   rule (repeat_to_match_shape: reshape to the keepdims shape and broadcast) is its adjoint, in the input's space *)
Theorem C01_sum_rule_is_adjoint :
  forall (K : Type) (k0 k1 : K) (kadd kmul ksub : K -> K -> K) (kopp : K -> K),
    ring_theory k0 k1 kadd kmul ksub kopp eq ->
    forall ss sz x g,
      chained sz ss -> length x = sz -> length g = final_size sz ss ->
      dot K k0 kadd kmul g (unbroadcast_steps K k0 kadd ss x) = dot K k0 kadd kmul (broadcast_steps K ss g) x
      /\ length (broadcast_steps K ss g) = length x.
Proof. exact sum_rule_adjoint. Qed.
Print Assumptions C01_sum_rule_is_adjoint.

(* dot / matmul on matrices (1-D operands are rows / columns): the registered VJPs G B^T and A^T G are the
   adjoints of the two partial maps, for all sizes, over any commutative ring *)
Theorem C01_dot_rules_are_adjoints :
  forall (K : Type) (k0 k1 : K) (kadd kmul ksub : K -> K -> K) (kopp : K -> K),
    ring_theory k0 k1 kadd kmul ksub kopp eq ->
    forall m n p (G A B dA dB : nat -> nat -> K),
      pair K k0 kadd kmul m p G (mm K k0 kadd kmul n dA B) = pair K k0 kadd kmul m n (mm K k0 kadd kmul p G (tr K B)) dA
      /\ pair K k0 kadd kmul m p G (mm K k0 kadd kmul n A dB) = pair K k0 kadd kmul n p (mm K k0 kadd kmul m (tr K A) G) dB.
Proof.
  intros K k0 k1 kadd kmul ksub kopp HR m n p G A B dA dB.
  exact (conj (dot_adjoint_first K k0 k1 kadd kmul ksub kopp HR m n p G dA B)
              (dot_adjoint_second K k0 k1 kadd kmul ksub kopp HR m n p G A dB)).
Qed.
Print Assumptions C01_dot_rules_are_adjoints.

(* linalg.inv and linalg.solve (square systems of any size, any commutative ring).  The derivative: with B the inverse of A
   and B' the inverse of A + dA,  B' = B - B dA B'  exactly, hence  inv(A + dA) = inv A - B dA B + (second order);
   for solve,  x' - x = B' (db - dA x).  The registered rules  -(B^T g) B^T,  B^T g  and  -(B^T g) x^T  are the adjoints
   of the linear parts  dA |-> -B dA B,  db |-> B db,  dA |-> -B dA x. *)
From AG Require Import LinAlg.
Theorem C01_inv_solve_derivative_and_adjoints :
  forall (K : Type) (k0 k1 : K) (kadd kmul ksub : K -> K -> K) (kopp : K -> K),
    ring_theory k0 k1 kadd kmul ksub kopp eq ->
    (forall n (A dA B B' : nat -> nat -> K),
        meq K n n (mm K k0 kadd kmul n B A) (mid K k0 k1) ->
        meq K n n (mm K k0 kadd kmul n (madd K kadd A dA) B') (mid K k0 k1) ->
        forall i k, (i < n)%nat -> (k < n)%nat ->
          B' i k = kadd (kadd (B i k) (kopp (mm K k0 kadd kmul n (mm K k0 kadd kmul n B dA) B i k)))
                        (mm K k0 kadd kmul n (mm K k0 kadd kmul n B dA) (mm K k0 kadd kmul n (mm K k0 kadd kmul n B dA) B') i k))
    /\ (forall n p (A dA B B' b db : nat -> nat -> K),
        meq K n n (mm K k0 kadd kmul n B' (madd K kadd A dA)) (mid K k0 k1) ->
        meq K n n (mm K k0 kadd kmul n A B) (mid K k0 k1) ->
        forall i k, (i < n)%nat -> (k < p)%nat ->
          mm K k0 kadd kmul n B' (madd K kadd b db) i k
          = kadd (mm K k0 kadd kmul n B b i k)
                 (mm K k0 kadd kmul n B' (madd K kadd db (mneg K kopp (mm K k0 kadd kmul n dA (mm K k0 kadd kmul n B b)))) i k))
    /\ (forall n (G B dA : nat -> nat -> K),
        pair K k0 kadd kmul n n G (mneg K kopp (mm K k0 kadd kmul n (mm K k0 kadd kmul n B dA) B))
        = pair K k0 kadd kmul n n (mneg K kopp (mm K k0 kadd kmul n (mm K k0 kadd kmul n (tr K B) G) (tr K B))) dA)
    /\ (forall n p (G B db : nat -> nat -> K),
        pair K k0 kadd kmul n p G (mm K k0 kadd kmul n B db) = pair K k0 kadd kmul n p (mm K k0 kadd kmul n (tr K B) G) db)
    /\ (forall n p (G B dA X : nat -> nat -> K),
        pair K k0 kadd kmul n p G (mneg K kopp (mm K k0 kadd kmul n B (mm K k0 kadd kmul n dA X)))
        = pair K k0 kadd kmul n n (mneg K kopp (mm K k0 kadd kmul p (mm K k0 kadd kmul n (tr K B) G) (tr K X))) dA).
Proof.
  intros K k0 k1 kadd kmul ksub kopp HR.
  split; [exact (inverse_second_order K k0 k1 kadd kmul ksub kopp HR)|].
  split; [exact (solve_displacement K k0 k1 kadd kmul ksub kopp HR)|].
  split; [exact (inv_rule_adjoint K k0 k1 kadd kmul ksub kopp HR)|].
  split; [exact (solve_rule_adjoint_b K k0 k1 kadd kmul ksub kopp HR)|].
  exact (solve_rule_adjoint_a K k0 k1 kadd kmul ksub kopp HR).
Qed.
Print Assumptions C01_inv_solve_derivative_and_adjoints.

Theorem C01_maximum_generalised_gradient :
  (forall x y, y < x ->
     is_derive (fun t => Rmax t y) x (vjp_maximum_0 (Rmax x y) x y 1)
     /\ is_derive (fun t => Rmax x t) y (vjp_maximum_1 (Rmax x y) x y 1))
  /\ (forall x g, vjp_maximum_0 (Rmax x x) x x g = g / 2 /\ vjp_maximum_1 (Rmax x x) x x g = g / 2).
Proof. exact (conj r_maximum_gt r_maximum_tie). Qed.
Print Assumptions C01_maximum_generalised_gradient.

(* selection primitives (reshape, transpose, flips, rolls, repeats, tiles, pads, joins, splits, where-branches, diag /
   tril / triu, indexing; sort, max / min, maximum / minimum, clip, abs away from ties): whatever the selection list,
   the scatter-add of the weighted cotangent is J^T g, in the argument's space *)
Theorem C01_selection_rule_is_adjoint :
  forall (K : Type) (k0 k1 : K) (kadd kmul ksub : K -> K -> K) (kopp : K -> K),
    ring_theory k0 k1 kadd kmul ksub kopp eq ->
    forall n sel g v,
      List.Forall (Select.in_bounds K n) sel -> length g = length sel -> length v = n ->
      dot K k0 kadd kmul (Select.sscatter K k0 kadd kmul n sel g) v = dot K k0 kadd kmul g (Select.sgather K k0 kmul sel v)
      /\ length (Select.sscatter K k0 kadd kmul n sel g) = n
      /\ length (Select.sgather K k0 kmul sel v) = length sel.
Proof. exact Select.selection_rule_adjoint. Qed.
Print Assumptions C01_selection_rule_is_adjoint.

(* reductions with a non-linear rule, on one fibre (any length): np.var (any ddof with N - ddof <> 0), np.std (positive
   variance), np.prod (non-zero entries): the registered reverse rule paired with any direction v is g times the
   derivative of t |-> f(x + t v) at 0; np.cumsum: reverse-cumsum-reverse is the adjoint, over any commutative ring *)
Theorem C01_var_std_prod_rules_exact :
  (forall x v d g, length x = length v -> x <> nil -> StatsProof.rdenom d x <> 0 ->
     is_derive (fun t => StatsProof.rvar d (StatsProof.line x v t)) 0 (StatsProof.rvar_jvp d x v)
     /\ StatsProof.rdot (StatsProof.rvar_vjp d x g) v = g * StatsProof.rvar_jvp d x v)
  /\ (forall x v d g, length x = length v -> x <> nil -> StatsProof.rdenom d x <> 0 -> 0 < StatsProof.rvar d x ->
     is_derive (fun t => sqrt (StatsProof.rvar d (StatsProof.line x v t))) 0 (StatsProof.rstd_jvp d x v (sqrt (StatsProof.rvar d x)))
     /\ StatsProof.rdot (StatsProof.rstd_vjp d x (sqrt (StatsProof.rvar d x)) g) v = g * StatsProof.rstd_jvp d x v (sqrt (StatsProof.rvar d x)))
  /\ (forall x v g, length x = length v -> List.Forall (fun a => a <> 0) x ->
     is_derive (fun t => StatsProof.rprod (StatsProof.line x v t)) 0 (StatsProof.rprod_jvp x v (StatsProof.rprod x))
     /\ StatsProof.rdot (StatsProof.rprod_vjp x (StatsProof.rprod x) g) v = g * StatsProof.rprod_jvp x v (StatsProof.rprod x)).
Proof.
  split; [|split].
  - intros x v d g H Hx Hd. split; [exact (StatsProof.var_jvp_exact x v d H Hx Hd) | exact (StatsProof.var_vjp_exact x v d g H Hx Hd)].
  - intros x v d g H Hx Hd Hp. split; [exact (StatsProof.std_jvp_exact x v d H Hx Hd Hp) | exact (StatsProof.std_vjp_exact x v d g H Hx Hd Hp)].
  - intros x v g H Hn. split; [exact (StatsProof.prod_jvp_exact x v H Hn) | exact (StatsProof.prod_vjp_exact x v g H Hn)].
Qed.
Print Assumptions C01_var_std_prod_rules_exact.

Theorem C01_cumsum_rule_is_adjoint :
  forall (K : Type) (k0 k1 : K) (kadd kmul ksub : K -> K -> K) (kopp : K -> K),
    ring_theory k0 k1 kadd kmul ksub kopp eq ->
    forall g v, length g = length v ->
      Stats.kdot K k0 kadd kmul g (Stats.cumsum K k0 kadd v) = Stats.kdot K k0 kadd kmul (Stats.cumsum_vjp K k0 kadd g) v
      /\ length (Stats.cumsum_vjp K k0 kadd g) = length g.
Proof. exact StatsProof.cumsum_adjoint. Qed.
Print Assumptions C01_cumsum_rule_is_adjoint.

(* np.linalg.norm, 2-norm of a vector / Frobenius norm of a matrix, at x <> 0 (fibre of any length) *)
Theorem C01_norm_rule_exact :
  forall x v g, length x = length v -> 0 < StatsProof.rsumsq x ->
    is_derive (fun t => sqrt (StatsProof.rsumsq (StatsProof.line x v t))) 0 (StatsProof.rnorm_jvp x v (sqrt (StatsProof.rsumsq x)))
    /\ StatsProof.rdot (StatsProof.rnorm_vjp x (sqrt (StatsProof.rsumsq x)) g) v = g * StatsProof.rnorm_jvp x v (sqrt (StatsProof.rsumsq x)).
Proof. intros x v g H Hp. split; [exact (StatsProof.norm_jvp_exact x v H Hp) | exact (StatsProof.norm_vjp_exact x v g H Hp)]. Qed.
Print Assumptions C01_norm_rule_exact.

(* bilinear primitives (dot / matmul / @ in all rank combinations, tensordot, inner, outer, kron, two-operand einsum,
   cross, multiply): for every list of structure constants the two reverse rules are the adjoints of the two partial
   maps, each in its argument's space *)
Theorem C01_bilinear_rules_are_adjoints :
  forall (K : Type) (k0 k1 : K) (kadd kmul ksub : K -> K -> K) (kopp : K -> K),
    ring_theory k0 k1 kadd kmul ksub kopp eq ->
    forall na nb no S A B g,
      List.Forall (Bilinear.in_bounds K na nb no) S -> length A = na -> length B = nb -> length g = no ->
      dot K k0 kadd kmul g (Bilinear.bil K k0 kadd kmul no S A B) = dot K k0 kadd kmul (Bilinear.vjpA K k0 kadd kmul na S g B) A
      /\ dot K k0 kadd kmul g (Bilinear.bil K k0 kadd kmul no S A B) = dot K k0 kadd kmul (Bilinear.vjpB K k0 kadd kmul nb S g A) B
      /\ length (Bilinear.vjpA K k0 kadd kmul na S g B) = na /\ length (Bilinear.vjpB K k0 kadd kmul nb S g A) = nb
      /\ length (Bilinear.bil K k0 kadd kmul no S A B) = no.
Proof. exact Bilinear.bilinear_rules_adjoint. Qed.
Print Assumptions C01_bilinear_rules_are_adjoints.

(* multilinear primitives (einsum with any number of operands, chained products): for every list of structure constants and
   every operand position the reverse rule is the adjoint of the partial map, in that operand's space *)
From AG Require Import Multilinear.
Theorem C01_multilinear_rules_are_adjoints :
  forall (K : Type) (k0 k1 : K) (kadd kmul ksub : K -> K -> K) (kopp : K -> K),
    ring_theory k0 k1 kadd kmul ksub kopp eq ->
    forall k nk no S As g,
      (k < length As)%nat -> List.Forall (Multilinear.in_bounds K k nk no (length As)) S ->
      length (nth k As nil) = nk -> length g = no ->
      dot K k0 kadd kmul g (mul K k0 k1 kadd kmul no S As) = dot K k0 kadd kmul (mvjp K k0 k1 kadd kmul k nk S g As) (nth k As nil)
      /\ length (mvjp K k0 k1 kadd kmul k nk S g As) = nk /\ length (mul K k0 k1 kadd kmul no S As) = no.
Proof. exact multilinear_rule_adjoint. Qed.
Print Assumptions C01_multilinear_rules_are_adjoints.

(* the step lists with which the broadcasting theorems above are instantiated are the loops of numpy_vjps.unbroadcast, as the
   translator reads them off the source on this run (coq/gen/GenBroadcast.v) *)
From AG Require Import Run01 BroadcastTie.
From AGGen Require Import GenBroadcast.
Theorem C01_unbroadcast_model_follows_source :
  forall ts os, steps_of ts os = (let '(ss, s) := gen_lead_steps (length os - length ts) os in ss ++ gen_ax_steps 1 ts s).
Proof. exact steps_of_follow_source. Qed.
Print Assumptions C01_unbroadcast_model_follows_source.

(* linalg.det for 2 x 2 and 3 x 3 matrices over any commutative ring: det(A + H) = det A + <cof A, H> + higher order,
   exactly, and det(A) * inv(A)^T = cof A - so the registered rule g * det(x) * inv(x)^T is g times the gradient of det *)
From AG Require Import Det.
Theorem C01_det_rule_2x2_3x3 :
  forall (K : Type) (k0 k1 : K) (kadd kmul ksub : K -> K -> K) (kopp : K -> K),
    ring_theory k0 k1 kadd kmul ksub kopp eq ->
    (forall a b c d ha hb hc hd,
        det2 K kmul ksub (kadd a ha) (kadd b hb) (kadd c hc) (kadd d hd)
        = kadd (kadd (det2 K kmul ksub a b c d) (kadd (kadd (kadd (kmul d ha) (kmul (kopp c) hb)) (kmul (kopp b) hc)) (kmul a hd)))
               (det2 K kmul ksub ha hb hc hd))
    /\ (forall a b c d p q r s,
        kadd (kmul a p) (kmul b r) = k1 -> kadd (kmul a q) (kmul b s) = k0 -> kadd (kmul c p) (kmul d r) = k0 -> kadd (kmul c q) (kmul d s) = k1 ->
        kmul (det2 K kmul ksub a b c d) p = d /\ kmul (det2 K kmul ksub a b c d) r = kopp c
        /\ kmul (det2 K kmul ksub a b c d) q = kopp b /\ kmul (det2 K kmul ksub a b c d) s = a)
    /\ (forall a1 a2 a3 b1 b2 b3 c1 c2 c3 p1 p2 p3,
        kadd (kadd (kmul a1 p1) (kmul a2 p2)) (kmul a3 p3) = k1 -> kadd (kadd (kmul b1 p1) (kmul b2 p2)) (kmul b3 p3) = k0 ->
        kadd (kadd (kmul c1 p1) (kmul c2 p2)) (kmul c3 p3) = k0 ->
        kmul (det3 K kadd kmul ksub a1 a2 a3 b1 b2 b3 c1 c2 c3) p1 = cof11 K kmul ksub a1 a2 a3 b1 b2 b3 c1 c2 c3
        /\ kmul (det3 K kadd kmul ksub a1 a2 a3 b1 b2 b3 c1 c2 c3) p2 = cof12 K kmul ksub kopp a1 a2 a3 b1 b2 b3 c1 c2 c3
        /\ kmul (det3 K kadd kmul ksub a1 a2 a3 b1 b2 b3 c1 c2 c3) p3 = cof13 K kmul ksub a1 a2 a3 b1 b2 b3 c1 c2 c3).
Proof.
  intros K k0 k1 kadd kmul ksub kopp HR.
  split; [exact (det2_expansion K k0 k1 kadd kmul ksub kopp HR)|].
  split; [exact (det2_times_inverse K k0 k1 kadd kmul ksub kopp HR)|].
  exact (det3_times_inverse_first_row K k0 k1 kadd kmul ksub kopp HR).
Qed.
Print Assumptions C01_det_rule_2x2_3x3.
