(* C16 - all differential operators agree with one ground-truth Jacobian.
   Given the engine contract (make_vjp = g |-> J^T g, make_jvp = v |-> J v, the
   conclusion of C01-C03), for every output size m, input size n and every
   Jacobian J, over any commutative ring: jacobian's flat entry i*n + j is
   dJ_i/dx_j and it has m*n entries (shape out + in, row-major); grad is the
   single row; elementwise_grad the sum over output indices;
   make_jvp_reversemode equals forward mode's J v; the tensor-Jacobian product
   is the left contraction.  hessian / hvp / ggnvp are these operators applied
   to J := Hessian resp. composed (definitions in Operators.v), decided exactly
   against polynomial maps by the correspondence run, as are the argnum
   algebra and the pass-through of extra arguments. *)
From Coq Require Import List Arith ZArith Ring.
Import ListNotations.
From AG Require Import Operators Run16.

Section OperatorLaws.
  Variable K : Type.
  Variables (k0 k1 : K) (kadd kmul ksub : K -> K -> K) (kopp : K -> K).
  Hypothesis Kring : ring_theory k0 k1 kadd kmul ksub kopp eq.

  Theorem C16_jacobian_entries_and_shape m n J i j : i < m -> j < n ->
    nth (i * n + j) (jacobian_op K k0 k1 kadd kmul m n J) k0 = J i j
    /\ length (jacobian_op K k0 k1 kadd kmul m n J) = m * n.
  Proof. exact (jacobian_entries K k0 k1 kadd kmul ksub kopp Kring m n J i j). Qed.

  Theorem C16_grad_is_the_row n J j : j < n ->
    nth j (egrad_op K k0 k1 kadd kmul 1 n J) k0 = J 0 j.
  Proof. exact (grad_is_jacobian_row K k0 k1 kadd kmul ksub kopp Kring n J j). Qed.

  Theorem C16_elementwise_grad_sums_outputs m n J j : j < n ->
    nth j (egrad_op K k0 k1 kadd kmul m n J) k0 = sumn K k0 kadd m (fun i => J i j).
  Proof. exact (egrad_is_column_sum K k0 k1 kadd kmul ksub kopp Kring m n J j). Qed.

  Theorem C16_reverse_mode_jvp_equals_forward m n J v i : i < m ->
    nth i (jvp_reverse_op K k0 kadd kmul m n J v) k0 = jvp_of K k0 kadd kmul n J v i.
  Proof. exact (jvp_reverse_is_jvp K k0 kadd kmul m n J v i). Qed.

  Theorem C16_tensor_jacobian_product m n J vec j : j < n ->
    nth j (tjp_op K k0 kadd kmul m n J vec) k0 = sumn K k0 kadd m (fun i => kmul (J i j) (vec i)).
  Proof. exact (tjp_is_contraction K k0 kadd kmul m n J vec j). Qed.
End OperatorLaws.

Print Assumptions C16_jacobian_entries_and_shape.
Print Assumptions C16_grad_is_the_row.
Print Assumptions C16_elementwise_grad_sums_outputs.
Print Assumptions C16_reverse_mode_jvp_equals_forward.
Print Assumptions C16_tensor_jacobian_product.

Example C16_example :
  let p := {| pm := 2; pn := 2; pc := [1; 0]%Z; pA := [[1; 2]; [0; 3]]%Z;
              pB := [[[1; 0]; [2; 0]]; [[0; 1]; [0; 0]]]%Z |} in
  expected p [1; 2]%Z OJac = [7; 4; 2; 4]%Z /\ expected p [1; 2]%Z OValue = [11; 8]%Z.
Proof. vm_compute. split; reflexivity. Qed.
