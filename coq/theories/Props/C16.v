(* C16 - all differential operators agree with one ground-truth Jacobian.
   Given the engine contract (make_vjp = g |-> J^T g, make_jvp = v |-> J v, the
   conclusion of C01-C03), for every output size m, input size n and every
   Jacobian J, over any commutative ring: jacobian's flat entry i*n + j is
   dJ_i/dx_j and it has m*n entries (shape out + in, row-major); grad is the
   single row; elementwise_grad the sum over output indices;
   make_jvp_reversemode equals forward mode's J v; the tensor-Jacobian product
   is the left contraction.  hessian / hvp / ggnvp are these operators applied
   to J := Hessian resp. composed (definitions in Operators.v), decided exactly
   against polynomial maps by the correspondence run.  The ground truth of that
   run is itself proved (PolyDeriv.v): for every quadratic polynomial map the
   formal Jacobian/Hessian are the derivatives of the value map (exact Taylor
   identity), hessian is the Jacobian of the gradient and symmetric, hvp is the
   displacement of the gradient.  The argument-selection algebra (Argnum.v):
   unary_to_nary/subvals substitute only the selected positions, for every arity
   and position list; the restriction to position i has Jacobian column i. *)
From Coq Require Import List Arith ZArith Ring.
Import ListNotations.
From AG Require Import Operators Run16 PolyDeriv Argnum RunArg ArgnumTie.
From AGGen Require Import GenArgnum.

Section OperatorLaws.
  Variable K : Type.
  Variables (k0 k1 : K) (kadd kmul ksub : K -> K -> K) (kopp : K -> K).
  Hypothesis Kring : ring_theory k0 k1 kadd kmul ksub kopp eq.

  Theorem C16_jacobian_entries_and_shape m n J i j : i < m -> j < n ->
    nth (i * n + j) (jacobian_op K k0 k1 kadd kmul m n J) k0 = J i j
    /\ length (jacobian_op K k0 k1 kadd kmul m n J) = m * n.
  Proof. exact (jacobian_entries K k0 k1 kadd kmul ksub kopp Kring m n J i j). Qed.

  Theorem C16_grad_is_the_row n J j : j < n ->
    nth j (egrad_op K k0 k1 kadd kmul 1 n J) k0 = J 0 j.
  Proof. exact (grad_is_jacobian_row K k0 k1 kadd kmul ksub kopp Kring n J j). Qed.

  Theorem C16_elementwise_grad_sums_outputs m n J j : j < n ->
    nth j (egrad_op K k0 k1 kadd kmul m n J) k0 = sumn K k0 kadd m (fun i => J i j).
  Proof. exact (egrad_is_column_sum K k0 k1 kadd kmul ksub kopp Kring m n J j). Qed.

  Theorem C16_reverse_mode_jvp_equals_forward m n J v i : i < m ->
    nth i (jvp_reverse_op K k0 kadd kmul m n J v) k0 = jvp_of K k0 kadd kmul n J v i.
  Proof. exact (jvp_reverse_is_jvp K k0 kadd kmul m n J v i). Qed.

  Theorem C16_tensor_jacobian_product m n J vec j : j < n ->
    nth j (tjp_op K k0 kadd kmul m n J vec) k0 = sumn K k0 kadd m (fun i => kmul (J i j) (vec i)).
  Proof. exact (tjp_is_contraction K k0 kadd kmul m n J vec j). Qed.
End OperatorLaws.


(* the ground truth: f(x + t v) = f(x) + t J(x) v + t^2 Q(v), exactly, for every quadratic polynomial map *)
Theorem C16_formal_jacobian_is_the_derivative :
  forall (p : poly) (x y : list Z) (v : nat -> Z) (t : Z) (i : nat),
    (forall j, j < pn p -> zn y j = (zn x j + t * v j)%Z) ->
    evalf p y i = (evalf p x i + t * zsum (pn p) (fun j => Jp p x i j * v j) + t * t * Qp p v i)%Z.
Proof. exact taylor_along_a_line. Qed.

(* hessian is the Jacobian of the gradient map, whose entries are the (symmetric) second partial derivatives *)
Theorem C16_hessian_is_jacobian_of_gradient :
  forall (p : poly) (x y : list Z) (v : nat -> Z) (i j : nat),
    (forall k, k < pn p -> zn y k = (zn x k + v k)%Z) ->
    Jp p y i j = (Jp p x i j + zsum (pn p) (fun k => Hp p i j k * v k))%Z.
Proof. exact gradient_displacement. Qed.

Theorem C16_hessian_entries :
  forall (p : poly) (x : list Z) (j k : nat), j < pn p -> k < pn p ->
    nth (j * pn p + k) (expected p x OHess) 0%Z = Hp p 0 j k
    /\ nth (j * pn p + k) (expected p x OHess) 0%Z = nth (k * pn p + j) (expected p x OHess) 0%Z.
Proof. exact hessian_entries_are_second_partials. Qed.

Theorem C16_hvp_is_gradient_displacement :
  forall (p : poly) (x y v : list Z) (j : nat), j < pn p ->
    (forall k, k < pn p -> zn y k = (zn x k + zn v k)%Z) ->
    nth j (expected p x (OHvp v)) 0%Z = (Jp p y 0 j - Jp p x 0 j)%Z.
Proof. exact hvp_is_gradient_displacement. Qed.

(* selecting arguments by position: only the selected positions are substituted, the others are untouched, and at the
   point of differentiation the function sees the original call *)
Theorem C16_argnum_substitutes_only_the_selected_positions :
  forall (A : Type) (d : A) (x : list A) (idx : list nat) (xs : list A),
    (forall j, ~ In j idx -> nth j (subvals A x (combine idx xs)) d = nth j x d)
    /\ (NoDup idx -> length xs = length idx -> (forall i, In i idx -> i < length x) ->
        forall k, k < length idx -> nth (nth k idx 0) (subvals A x (combine idx xs)) d = nth k xs d)
    /\ subvals A x (combine idx (map (fun i => nth i x d) idx)) = x.
Proof.
  intros A d x idx xs. split; [|split].
  - intros j Hj. exact (subvals_other A d x idx xs j Hj).
  - intros H1 H2 H3 k Hk. exact (subvals_at A d x idx xs k H1 H2 H3 Hk).
  - exact (subvals_self A d x idx).
Qed.

(* ... and the derivative of the restriction to position i is column i of the Jacobian *)
Theorem C16_argnum_selects_the_jacobian_column :
  forall (p : poly) (x : list Z) (i r : nat) (h : Z), i < pn p -> i < length x ->
    evalf p (subval Z x i (zn x i + h)%Z) r = (evalf p x r + h * Jp p x r i + h * h * b_ p r i i)%Z.
Proof. exact restriction_derivative. Qed.

(* the argument-selection model is what the translator reads off util.subvals and wrap_util.unary_to_nary on this run *)
Theorem C16_argnum_model_follows_source :
  (forall (A : Type) (x : list A) (ivs : list (nat * A)), subvals A x ivs = gen_subvals A x ivs)
  /\ (forall (A : Type) (d : A) (B C : Type) (op1 : (A -> B) -> A -> C) (opn : (list A -> B) -> list A -> C) f an args,
        nary_operator A d B C op1 opn f an args = gen_nary_operator A d B C op1 opn f (to_gen an) args).
Proof. exact (conj subvals_follows_source nary_operator_follows_source). Qed.
Print Assumptions C16_argnum_model_follows_source.

Print Assumptions C16_jacobian_entries_and_shape.
Print Assumptions C16_grad_is_the_row.
Print Assumptions C16_elementwise_grad_sums_outputs.
Print Assumptions C16_reverse_mode_jvp_equals_forward.
Print Assumptions C16_tensor_jacobian_product.
Print Assumptions C16_formal_jacobian_is_the_derivative.
Print Assumptions C16_hessian_is_jacobian_of_gradient.
Print Assumptions C16_hessian_entries.
Print Assumptions C16_hvp_is_gradient_displacement.
Print Assumptions C16_argnum_substitutes_only_the_selected_positions.
Print Assumptions C16_argnum_selects_the_jacobian_column.

Example C16_example :
  let p := {| pm := 2; pn := 2; pc := [1; 0]%Z; pA := [[1; 2]; [0; 3]]%Z;
              pB := [[[1; 0]; [2; 0]]; [[0; 1]; [0; 0]]]%Z |} in
  expected p [1; 2]%Z OJac = [7; 4; 2; 4]%Z /\ expected p [1; 2]%Z OValue = [11; 8]%Z.
Proof. vm_compute. split; reflexivity. Qed.
