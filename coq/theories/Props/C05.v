(* C05 - a gradient lives in the space of its argument.  PROVED pieces:
   (a) unbroadcast returns an array of exactly the target's size for every
       broadcast pattern (however the argument was broadcast against larger
       arrays or scalars); (b) accumulation of contributions (add) and scalar
       multiplication stay in the value's space - same nesting, keys, shapes,
       kinds - for every container nesting; zeros of a space lie in it;
   (d) the selection, bilinear and realified rule families land in the
       argument's space (see the end of this file);
   (c) the dense value of an indexing cotangent (untake) has the structure of
       the indexed container.  Per-primitive shape/kind conformance of the
   structured rules is examined on the implementation (oracle). *)
From Coq Require Import List Arith Ring.
From AG Require Import VSpace VSpaceProof Broadcast ContainerOps ContainerProof.

Theorem C05_unbroadcast_lands_in_target_space :
  forall (K : Type) (k0 : K) (kadd : K -> K -> K) ss sz g,
    chained sz ss -> length g = sz -> length (unbroadcast_steps K k0 kadd ss g) = final_size sz ss.
Proof. exact unbroadcast_length. Qed.
Print Assumptions C05_unbroadcast_lands_in_target_space.

Theorem C05_accumulation_stays_in_space :
  forall (K : Type) (kadd : K -> K -> K) x y,
    wf K x -> wf K y -> vspace K x = vspace K y ->
    vspace K (tadd K kadd x y) = vspace K x /\ wf K (tadd K kadd x y).
Proof.
  intros K kadd x y Hx Hy Hs. destruct (tadd_spec K kadd x y Hx Hy Hs) as (A & B & _). exact (conj A B).
Qed.
Print Assumptions C05_accumulation_stays_in_space.

Theorem C05_zeros_in_space :
  forall (K : Type) (k0 : K) v, vspace K (zeros K k0 v) = v /\ wf K (zeros K k0 v).
Proof. intros K k0 v. destruct (zeros_spec K k0 v) as (A & B & _). exact (conj A B). Qed.
Print Assumptions C05_zeros_in_space.

Theorem C05_index_cotangent_has_container_structure :
  forall (K : Type) (k0 k1 : K) (kadd kmul ksub : K -> K -> K) (kopp : K -> K),
    ring_theory k0 k1 kadd kmul ksub kopp eq ->
    forall t l i c g,
      wf K (Seq t l) -> take K (Seq t l) (IInt i) = Some c -> vspace K g = vspace K c ->
      exists u, untake K k0 g (IInt i) (vspace K (Seq t l)) = Some u
                /\ vspace K u = vspace K (Seq t l)
                /\ inner K k0 kadd kmul (Seq t l) u = inner K k0 kadd kmul c g.
Proof. exact take_untake_adjoint_int. Qed.
Print Assumptions C05_index_cotangent_has_container_structure.

(* (d) the structured rule families land in the argument's space: selection primitives (the scatter-add has the argument's
   size, whatever the selection list), bilinear primitives (each of the two reverse rules has its own operand's size, the
   forward value the output's), R-linear primitives on realified complex/real arrays (the rule's result has the realified
   size of the argument: a real argument receives a real array, a complex argument a complex one). *)
From AG Require Import Index Select Bilinear Realified.
Theorem C05_structured_rules_land_in_argument_space :
  forall (K : Type) (k0 k1 : K) (kadd kmul ksub : K -> K -> K) (kopp : K -> K),
    ring_theory k0 k1 kadd kmul ksub kopp eq ->
    (forall n sel g (v : list K), List.Forall (Select.in_bounds K n) sel -> length g = length sel -> length v = n ->
        length (Select.sscatter K k0 kadd kmul n sel g) = n)
    /\ (forall na nb no S A B g, List.Forall (Bilinear.in_bounds K na nb no) S -> length A = na -> length B = nb -> length g = no ->
        length (Bilinear.vjpA K k0 kadd kmul na S g B) = na /\ length (Bilinear.vjpB K k0 kadd kmul nb S g A) = nb
        /\ length (Bilinear.bil K k0 kadd kmul no S A B) = no)
    /\ (forall cin cout na no S g v, List.Forall (Bilinear.in_bounds K na 1 no) S -> length v = na -> length g = no ->
        length (cvjp K k0 k1 kadd kmul kopp cin cout na S g) = na /\ length (lin K k0 k1 kadd kmul no S v) = no).
Proof.
  intros K k0 k1 kadd kmul ksub kopp HR. split; [|split].
  - intros n sel g v H1 H2 H3. exact (proj1 (proj2 (Select.selection_rule_adjoint K k0 k1 kadd kmul ksub kopp HR n sel g v H1 H2 H3))).
  - intros na nb no S A B g H1 H2 H3 H4.
    destruct (bilinear_rules_adjoint K k0 k1 kadd kmul ksub kopp HR na nb no S A B g H1 H2 H3 H4) as (_ & _ & L1 & L2 & L3).
    exact (conj L1 (conj L2 L3)).
  - intros cin cout na no S g v H1 H2 H3.
    exact (proj2 (convention_pairing K k0 k1 kadd kmul ksub kopp HR cin cout na no S g v H1 H2 H3)).
Qed.
Print Assumptions C05_structured_rules_land_in_argument_space.
