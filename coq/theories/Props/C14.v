(* C14 — independent / piecewise-constant dependence yields an exact zero.
   PROVED: a registered non-differentiable primitive returns a plain value (no
   box at all, whatever the nesting of its argument) and leaves the engine
   state untouched, so no derivative can flow through it.  The zero itself
   (an output that is not a box of the differentiating trace yields the exact
   zero of the model's scalar space, never an error) is the definition of the
   model's Grad/Deriv cases, tied by the correspondence run; examples below.
   NOT PROVED: that a body which does not mention its variable never yields a
   box of the new trace (needs the freshness invariant of C08). *)
From Coq Require Import List ZArith.
Import ListNotations.
From AG Require Import Toposort Tagged Tower Run08 TaggedProof.

Theorem C14_nondifferentiable_returns_plain :
  forall (K : Type) kadd ksub kmul kopp kF ksign fuel p args s v s',
    is_notrace p = true ->
    apply_prim K kadd ksub kmul kopp kF ksign fuel p args s = (Val v, s') ->
    (exists k, v = VNum K k) /\ s' = s.
Proof. exact notrace_plain. Qed.
Print Assumptions C14_nondifferentiable_returns_plain.

(* x * sign(x) differentiates to sign(x); an output independent of the
   variable gives exactly 0 in both modes, also under an enclosing trace *)
Example C14_examples :
  map run_tagged
      [Grad (App2 PMul (Var 0) (App1 PSign (Var 0))) (Const (-3));
       Deriv (App2 PMul (Var 0) (App1 PSign (Var 0))) (Const (-3));
       Grad (Const 5) (Const 2); Deriv (App1 PSign (Var 0)) (Const 2);
       Grad (Grad (App2 PMul (Var 1) (Var 1)) (Const 7)) (Const 3)]
  = [Some (Some (-1)%Z); Some (Some (-1)%Z); Some (Some 0%Z); Some (Some 0%Z);
     Some (Some 0%Z)].
Proof. vm_compute. reflexivity. Qed.
