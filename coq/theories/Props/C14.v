(* C14 — independent / piecewise-constant dependence yields an exact zero.
   PROVED: a registered non-differentiable primitive returns a plain value (no
   box at all, whatever the nesting of its argument) and leaves the engine
   state untouched, so no derivative can flow through it.  The zero itself
   (an output that is not a box of the differentiating trace yields the exact
   zero of the model's scalar space, never an error) is the definition of the
   model's Grad/Deriv cases, tied by the correspondence run; examples below.
   PROVED (C14_zero_for_independent_and_piecewise_constant): every differential
   operator of the model returns what the tower semantics returns - where an output
   that does not depend on the differentiated variable, or depends on it only
   through sign, has tangent exactly 0 at that level (tsign puts tzero there; a
   value of older levels is lifted with tangent tzero) - for every program, every
   nesting and both modes (instance of MixEval.nested_correct).
   PROVED (C14_registered_piecewise_constant_functions_block_flow, over the reals): floor, ceil, trunc/fix, rint/round/around (ties to even), sign,
   the six comparisons, logical_not and the predicates that are constant on finite reals (isfinite, isnan, ...) are on the list the source registers as non-differentiable (gen/GenNograd.v, regenerated from
   numpy_vjps.py and numpy_jvps.py on every run), and away from their jump points blocking the flow IS the derivative:
   the function has derivative 0, so has every function of it, a program h(y, f y) differentiates as h(y, c) with
   c = f x frozen, and y * f y differentiates to f x (x * floor x to floor x, the example in the property).  At the
   jump points themselves the functions have no derivative; the source returns the same frozen result there (oracle). *)
From Coq Require Import List ZArith Reals String.
Import ListNotations.
From Coquelicot Require Import Coquelicot.
From AGGen Require Import GenNograd.
From AG Require Import RealPrelude PiecewiseConst NogradTie Run14 Extend IndependentTie.
From AG Require Import Toposort Tagged Tower Run08 TaggedProof TowerAlg FwdCorrect TowerRing MixInterp MixStep MixBackward MixEval.

Theorem C14_nondifferentiable_returns_plain :
  forall (K : Type) kadd ksub kmul kopp kF ksign fuel p args s v s',
    is_notrace p = true ->
    apply_prim K kadd ksub kmul kopp kF ksign fuel p args s = (Val v, s') ->
    (exists k, v = VNum K k) /\ s' = s.
Proof. exact notrace_plain. Qed.
Print Assumptions C14_nondifferentiable_returns_plain.

Theorem C14_zero_for_independent_and_piecewise_constant :
  forall fuel e (s : state Z),
    prims_ok e = true -> (-1 <= top Z s)%Z -> calm Z s -> store Z s = [] ->
    match fst (zeval_sup Mono fuel [] e s) with
    | Val v => eval_spec e 0 [] = Some (strip Z v)
    | Err _ => eval_spec e 0 [] = None
    | OutOfFuel => True
    end.
Proof. exact nested_correct. Qed.
Print Assumptions C14_zero_for_independent_and_piecewise_constant.

Theorem C14_registered_piecewise_constant_functions_block_flow :
  forall (name : string) (f : R -> R) (J : R -> Prop),
    model_of name f J ->
    In name gen_nograd
    /\ forall x : R, ~ J x ->
         is_derive f x 0%R
         /\ (forall h : R -> R, is_derive (fun y => h (f y)) x 0%R)
         /\ (forall (h : R -> R -> R) (l : R), is_derive (fun y => h y (f x)) x l -> is_derive (fun y => h y (f y)) x l)
         /\ is_derive (fun y => (y * f y)%R) x (f x).
Proof. exact registered_piecewise_constant_functions_block_flow. Qed.
Print Assumptions C14_registered_piecewise_constant_functions_block_flow.

Theorem C14_x_floor_x_differentiates_to_floor_x :
  forall x : R, (forall z : Z, x <> IZR z) -> is_derive (fun y => (y * rfloor y)%R) x (rfloor x).
Proof. exact x_floor_x_differentiates_to_floor. Qed.
Print Assumptions C14_x_floor_x_differentiates_to_floor_x.

(* at a rational p/q that is not an integer, the derivative of x * floor x is the integer p / q of Z division - the
   number the correspondence run computes and compares with autograd's gradient at the float p/q *)
Theorem C14_x_floor_x_at_rationals :
  forall p q : Z, (0 < q)%Z -> zis_int p q = false ->
    is_derive (fun y => (y * rfloor y)%R) (IZR p / IZR q)%R (IZR (zfloor p q)).
Proof. exact x_floor_x_Q. Qed.
Print Assumptions C14_x_floor_x_at_rationals.

(* the integer functions the correspondence run evaluates (and compares with NumPy's values and autograd's gradients of
   x * f(x)) are the real functions of the theorems above at every rational point, for every rational constant *)
Theorem C14_integer_model_computes_the_real_functions :
  forall (code : nat) (pc qc p q : Z), (0 < qc)%Z -> (0 < q)%Z ->
    rmodel code (IZR pc / IZR qc)%R (IZR p / IZR q)%R = IZR (zmodel code pc qc p q).
Proof. exact zmodel_computes_rmodel. Qed.
Print Assumptions C14_integer_model_computes_the_real_functions.

(* "independent of the input": the model's test is the one tracer.trace makes (translated on every run); one step of the
   evaluator then gives the exact zero in both modes and leaves the trace; and in the array world the source's zero is
   the ARGUMENT's in reverse mode (make_vjp) and the OUTPUT's in forward mode (make_jvp), as the property states *)
Theorem C14_independent_output_model_follows_source :
  (forall (K : Type) (t : Z) (v : value K), model_depends K t v = gen_output_depends (is_box K v) (trace_of K v) t)
  /\ independent_vjp_zero = gen_independent_vjp_zero /\ independent_jvp_zero = gen_independent_jvp_zero.
Proof. exact (conj model_depends_follows_source independent_zero_spaces_follow_source). Qed.
Print Assumptions C14_independent_output_model_follows_source.

Theorem C14_grad_of_independent_output_is_zero :
  forall (K : Type) (k0 k1 : K) kadd ksub kmul kopp kF ksign kpos kofZ sup f env body arg s x s1 t se endv s3,
    eval K k0 k1 kadd ksub kmul kopp kF ksign kpos kofZ sup f env arg s = (Val x, s1) ->
    enter K s1 = (t, se) ->
    eval K k0 k1 kadd ksub kmul kopp kF ksign kpos kofZ sup f (cons (VBox K t x (NV K (List.length (store K s1)))) env) body
         {| top := top K se; store := app (store K se) (cons (root_node K k0) nil); noise := noise K se |} = (Val endv, s3) ->
    model_depends K t endv = false ->
    eval K k0 k1 kadd ksub kmul kopp kF ksign kpos kofZ sup (S f) env (Grad body arg) s = (Val (VNum K k0), leave K sup s3).
Proof. exact grad_of_independent_output_is_zero. Qed.
Print Assumptions C14_grad_of_independent_output_is_zero.

Theorem C14_deriv_of_independent_output_is_zero :
  forall (K : Type) (k0 k1 : K) kadd ksub kmul kopp kF ksign kpos kofZ sup f env body arg s x s1 t s2 endv s3,
    eval K k0 k1 kadd ksub kmul kopp kF ksign kpos kofZ sup f env arg s = (Val x, s1) ->
    enter K s1 = (t, s2) ->
    eval K k0 k1 kadd ksub kmul kopp kF ksign kpos kofZ sup f (cons (VBox K t x (NJ K (VNum K k1))) env) body s2 = (Val endv, s3) ->
    model_depends K t endv = false ->
    eval K k0 k1 kadd ksub kmul kopp kF ksign kpos kofZ sup (S f) env (Deriv body arg) s = (Val (VNum K k0), leave K sup s3).
Proof. exact deriv_of_independent_output_is_zero. Qed.
Print Assumptions C14_deriv_of_independent_output_is_zero.

Example C14_floor_at_5_halves : is_derive (fun y => (y * rfloor y)%R) (5 / 2)%R 2%R.
Proof. exact x_floor_x_at_2_5. Qed.

(* in the tower semantics an output independent of the variable, and sign of anything, have tangent 0 *)
Example C14_spec_zero :
  eval_spec (Deriv (Const 5) (Const 2)) 0 [] = Some 0%Z
  /\ eval_spec (Grad (App1 PSign (App2 PMul (Var 0) (Var 0))) (Const 3)) 0 [] = Some 0%Z
  /\ eval_spec (Grad (App2 PMul (Var 0) (App1 PSign (Var 0))) (Const (-3))) 0 [] = Some (-1)%Z
  /\ eval_spec (Grad (Grad (App2 PMul (Var 1) (Var 1)) (Const 7)) (Const 3)) 0 [] = Some 0%Z.
Proof. vm_compute. repeat split; reflexivity. Qed.

(* x * sign(x) differentiates to sign(x); an output independent of the
   variable gives exactly 0 in both modes, also under an enclosing trace *)
Example C14_examples :
  map run_tagged
      [Grad (App2 PMul (Var 0) (App1 PSign (Var 0))) (Const (-3));
       Deriv (App2 PMul (Var 0) (App1 PSign (Var 0))) (Const (-3));
       Grad (Const 5) (Const 2); Deriv (App1 PSign (Var 0)) (Const 2);
       Grad (Grad (App2 PMul (Var 1) (Var 1)) (Const 7)) (Const 3)]
  = [Some (Some (-1)%Z); Some (Some (-1)%Z); Some (Some 0%Z); Some (Some 0%Z);
     Some (Some 0%Z)].
Proof. vm_compute. reflexivity. Qed.
