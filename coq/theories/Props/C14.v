(* C14 — independent / piecewise-constant dependence yields an exact zero.
   PROVED: a registered non-differentiable primitive returns a plain value (no
   box at all, whatever the nesting of its argument) and leaves the engine
   state untouched, so no derivative can flow through it.  The zero itself
   (an output that is not a box of the differentiating trace yields the exact
   zero of the model's scalar space, never an error) is the definition of the
   model's Grad/Deriv cases, tied by the correspondence run; examples below.
   PROVED (C14_zero_for_independent_and_piecewise_constant): every differential
   operator of the model returns what the tower semantics returns - where an output
   that does not depend on the differentiated variable, or depends on it only
   through sign, has tangent exactly 0 at that level (tsign puts tzero there; a
   value of older levels is lifted with tangent tzero) - for every program, every
   nesting and both modes (instance of MixEval.nested_correct). *)
From Coq Require Import List ZArith.
Import ListNotations.
From AG Require Import Toposort Tagged Tower Run08 TaggedProof TowerAlg FwdCorrect TowerRing MixInterp MixStep MixBackward MixEval.

Theorem C14_nondifferentiable_returns_plain :
  forall (K : Type) kadd ksub kmul kopp kF ksign fuel p args s v s',
    is_notrace p = true ->
    apply_prim K kadd ksub kmul kopp kF ksign fuel p args s = (Val v, s') ->
    (exists k, v = VNum K k) /\ s' = s.
Proof. exact notrace_plain. Qed.
Print Assumptions C14_nondifferentiable_returns_plain.

Theorem C14_zero_for_independent_and_piecewise_constant :
  forall fuel e (s : state Z),
    prims_ok e = true -> (-1 <= top Z s)%Z -> calm Z s -> store Z s = [] ->
    match fst (zeval_sup Mono fuel [] e s) with
    | Val v => eval_spec e 0 [] = Some (strip Z v)
    | Err _ => eval_spec e 0 [] = None
    | OutOfFuel => True
    end.
Proof. exact nested_correct. Qed.
Print Assumptions C14_zero_for_independent_and_piecewise_constant.

(* in the tower semantics an output independent of the variable, and sign of anything, have tangent 0 *)
Example C14_spec_zero :
  eval_spec (Deriv (Const 5) (Const 2)) 0 [] = Some 0%Z
  /\ eval_spec (Grad (App1 PSign (App2 PMul (Var 0) (Var 0))) (Const 3)) 0 [] = Some 0%Z
  /\ eval_spec (Grad (App2 PMul (Var 0) (App1 PSign (Var 0))) (Const (-3))) 0 [] = Some (-1)%Z
  /\ eval_spec (Grad (Grad (App2 PMul (Var 1) (Var 1)) (Const 7)) (Const 3)) 0 [] = Some 0%Z.
Proof. vm_compute. repeat split; reflexivity. Qed.

(* x * sign(x) differentiates to sign(x); an output independent of the
   variable gives exactly 0 in both modes, also under an enclosing trace *)
Example C14_examples :
  map run_tagged
      [Grad (App2 PMul (Var 0) (App1 PSign (Var 0))) (Const (-3));
       Deriv (App2 PMul (Var 0) (App1 PSign (Var 0))) (Const (-3));
       Grad (Const 5) (Const 2); Deriv (App1 PSign (Var 0)) (Const 2);
       Grad (Grad (App2 PMul (Var 1) (Var 1)) (Const 7)) (Const 3)]
  = [Some (Some (-1)%Z); Some (Some (-1)%Z); Some (Some 0%Z); Some (Some 0%Z);
     Some (Some 0%Z)].
Proof. vm_compute. reflexivity. Qed.
