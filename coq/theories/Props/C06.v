(* C06 — differentiation is value-transparent (engine part).
   PROVED: for every first-order program (any composition of the primitives,
   lets and value-steered branches) evaluated on inputs boxed to ANY depth, in
   ANY mix of forward/reverse traces and with arbitrary tags, the returned value
   carries exactly the number the plain program returns on the plain inputs
   (and therefore takes the same branches); the same for a single primitive
   call.  ALSO PROVED (C06_operators_return_specified_values): the value a
   closed program hands back - through any nesting of differential operators -
   is the number the tag-free tower semantics assigns to it (nested_correct).
   and it is a plain number - no box of any trace survives in it
   (C06_no_tracer_object_in_results).
   NOT PROVED HERE (tied by the correspondence run only): the re-implemented NumPy wrappers
   (concatenate, vstack, ...), which are compared with NumPy directly by
   ./check C06. *)
From Coq Require Import List ZArith.
Import ListNotations.
From AG Require Import Toposort Tagged Tower Run08 TaggedProof TowerAlg FwdCorrect TowerRing MixInterp MixStep MixBackward MixEval.

Theorem C06_primitive_call_transparent :
  forall (K : Type) kadd ksub kmul kopp kF ksign fuel p args s v s',
    apply_prim K kadd ksub kmul kopp kF ksign fuel p args s = (Val v, s') ->
    raw K kadd ksub kmul kopp kF ksign p (map (strip K) args) = Val (strip K v).
Proof. exact apply_prim_transparent. Qed.
Print Assumptions C06_primitive_call_transparent.

Theorem C06_program_transparent_at_any_depth :
  forall (K : Type) k0 k1 kadd ksub kmul kopp kF ksign kpos kofZ sup fuel e env s v s',
    first_order e = true ->
    eval K k0 k1 kadd ksub kmul kopp kF ksign kpos kofZ sup fuel env e s = (Val v, s') ->
    eval_plain K kadd ksub kmul kopp kF ksign kpos kofZ e (map (strip K) env)
    = Some (strip K v).
Proof. exact eval_transparent. Qed.
Print Assumptions C06_program_transparent_at_any_depth.

Theorem C06_operators_return_specified_values :
  forall fuel e (s : state Z),
    prims_ok e = true -> (-1 <= top Z s)%Z -> calm Z s -> store Z s = [] ->
    match fst (zeval_sup Mono fuel [] e s) with
    | Val v => eval_spec e 0 [] = Some (strip Z v)
    | Err _ => eval_spec e 0 [] = None
    | OutOfFuel => True
    end.
Proof. exact nested_correct. Qed.
Print Assumptions C06_operators_return_specified_values.

Theorem C06_no_tracer_object_in_results :
  forall fuel e (s : state Z),
    prims_ok e = true -> (-1 <= top Z s)%Z -> calm Z s -> store Z s = [] ->
    forall v, fst (zeval_sup Mono fuel [] e s) = Val v -> exists k, v = VNum Z k.
Proof. exact closed_result_is_plain. Qed.
Print Assumptions C06_no_tracer_object_in_results.

(* non-vacuity: x*x + F0(x) on an input boxed twice (reverse inside forward) *)
Example C06_example :
  let x := VBox Z 1%Z (VBox Z 0%Z (VNum Z 2%Z) (NJ Z (VNum Z 1%Z))) (NV Z 0%nat) in
  let st := {| top := 1%Z; store := [root_node Z 0%Z]; noise := [] |} in
  match zeval 50 [x] (App2 PAdd (App2 PMul (Var 0) (Var 0)) (App1 (PF 0) (Var 0))) st with
  | (Val v, _) => strip Z v = 68%Z
  | _ => False
  end.
Proof. vm_compute. reflexivity. Qed.
