(* C19 - results independent of call history.
   The evaluator is parametrised by its id supply.  SUPPLY (Run08.v) names the
   one /repo implements; the correspondence run replays whole call histories
   with planted faults against the model started from the state the history
   left AND against the history-free spec.
   PROVED, pinned design (shared depth counter, one thread): the counter is
   never lowered; it is restored exactly by every try-free call that returns
   normally; a failing call can only leave it raised.
   PROVED, repaired design (strictly increasing supply, never decremented): the
   counter never decreases whatever happened before and whatever other threads
   draw, and each new trace id is strictly larger than the counter - hence than
   every id handed out earlier in the history.
   FULL STATEMENT, PROVED for the design /repo now implements (increasing
   supply): C19_result_independent_of_history - for EVERY program, whatever
   counter value the earlier calls (failed or not) left behind and whatever other
   threads draw meanwhile, the call returns the same number / raises the same way
   as from the initial state.  Proof: the evaluator commutes with every strictly
   increasing renaming of trace ids (RenameProof.v, RenameEval.v: eval_ren), and
   a run from counter t under interference n IS the renamed canonical run. *)
From Coq Require Import List ZArith.
Import ListNotations.
From AG Require Import Toposort Tagged Tower Run08 TaggedProof RenameProof RenameEval.

Theorem C19_depth_counter_monotone_and_restored :
  forall (K : Type) k0 k1 kadd ksub kmul kopp kF ksign kpos kofZ fuel env e s r s',
    noise K s = [] ->
    eval K k0 k1 kadd ksub kmul kopp kF ksign kpos kofZ Depth fuel env e s = (r, s') ->
    noise K s' = [] /\ (top K s <= top K s')%Z
    /\ (no_try e = true -> forall v, r = Val v -> top K s' = top K s).
Proof.
  intros K k0 k1 kadd ksub kmul kopp kF ksign kpos kofZ.
  exact (eval_top_depth K k0 k1 kadd ksub kmul kopp kF ksign kpos kofZ Depth eq_refl).
Qed.
Print Assumptions C19_depth_counter_monotone_and_restored.

Theorem C19_increasing_supply_never_reuses_an_id :
  forall (K : Type) k0 k1 kadd ksub kmul kopp kF ksign kpos kofZ,
    (forall fuel env e s r s',
        Forall (fun d => (0 <= d)%Z) (noise K s) ->
        eval K k0 k1 kadd ksub kmul kopp kF ksign kpos kofZ Mono fuel env e s = (r, s') ->
        Forall (fun d => (0 <= d)%Z) (noise K s') /\ (top K s <= top K s')%Z)
    /\ (forall s t s',
           Forall (fun d => (0 <= d)%Z) (noise K s) -> enter K s = (t, s') ->
           (top K s < t)%Z /\ top K s' = t /\ Forall (fun d => (0 <= d)%Z) (noise K s')).
Proof.
  intros K k0 k1 kadd ksub kmul kopp kF ksign kpos kofZ. split.
  - exact (eval_top_mono K k0 k1 kadd ksub kmul kopp kF ksign kpos kofZ Mono eq_refl).
  - exact (enter_calm K).
Qed.
Print Assumptions C19_increasing_supply_never_reuses_an_id.

Theorem C19_result_independent_of_history :
  forall (K : Type) k0 k1 kadd ksub kmul kopp kF ksign kpos kofZ fuel e top0 noise0,
    (-1 <= top0)%Z -> Forall (fun d => (0 <= d)%Z) noise0 ->
    observe K (eval K k0 k1 kadd ksub kmul kopp kF ksign kpos kofZ Mono fuel [] e
                    {| top := top0; store := []; noise := noise0 |})
    = observe K (eval K k0 k1 kadd ksub kmul kopp kF ksign kpos kofZ Mono fuel [] e (init_state K)).
Proof.
  intros K k0 k1 kadd ksub kmul kopp kF ksign kpos kofZ.
  exact (increasing_supply_noninterference K k0 k1 kadd ksub kmul kopp kF ksign kpos kofZ).
Qed.
Print Assumptions C19_result_independent_of_history.

(* the supply /repo implements is the one the theorem is about *)
Example C19_supply_is_increasing : SUPPLY = Mono.
Proof. reflexivity. Qed.

(* a failure inside an inner differentiation, caught by the enclosing one: the
   result is the fresh-interpreter result from every starting counter, under
   both supplies (the depth counter leaks one level per failure) *)
Example C19_examples :
  let inner := App2 PMul (App2 PMul (Var 1) (Var 0)) (Var 0) in
  let p := Grad (App2 PMul (Var 0)
                 (Try (Grad (App2 PMul Fail (Var 0)) (Const 1))
                      (Grad inner (Const 3)))) (Const 2) in
  let res sup t := match zeval_sup sup FUEL [] p {| top := t; store := []; noise := [] |} with
                   | (Val v, s) => Some (strip Z v, top Z s) | _ => None end in
  map (res Depth) [-1; 0; 5]%Z = [Some (24, 0); Some (24, 1); Some (24, 6)]%Z
  /\ map (res Mono) [-1; 0; 5]%Z = [Some (24, 2); Some (24, 3); Some (24, 8)]%Z.
Proof. vm_compute. split; reflexivity. Qed.
