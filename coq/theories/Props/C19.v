(* C19 — results independent of call history.
   PROVED: the trace-depth counter is never lowered by any call; it is
   restored exactly by every call that returns normally without catching a
   failure inside; a failing call can only leave it raised.
   FULL STATEMENT (tied by correspondence: every history is replayed against
   the model started from the leaked counter AND against the history-free
   spec): run_tagged_from t e = run_tagged_from (-1) e for every t >= -1
   (invariance of the evaluator under a shift of all trace ids). *)
From Coq Require Import List ZArith.
Import ListNotations.
From AG Require Import Toposort Tagged Tower Run08 TaggedProof.

Theorem C19_depth_counter_monotone_and_restored :
  forall (K : Type) k0 k1 kadd ksub kmul kopp kF ksign kpos kofZ fuel env e s r s',
    eval K k0 k1 kadd ksub kmul kopp kF ksign kpos kofZ fuel env e s = (r, s') ->
    (top K s <= top K s')%Z
    /\ (no_try e = true -> forall v, r = Val v -> top K s' = top K s).
Proof. exact eval_top. Qed.
Print Assumptions C19_depth_counter_monotone_and_restored.

(* a failure inside an inner differentiation, caught by the enclosing one,
   leaks one level; the result is still the fresh-interpreter result, also
   when the whole call is repeated from the leaked state *)
Example C19_examples :
  let inner := App2 PMul (App2 PMul (Var 1) (Var 0)) (Var 0) in
  let p := Grad (App2 PMul (Var 0)
                 (Try (Grad (App2 PMul Fail (Var 0)) (Const 1))
                      (Grad inner (Const 3)))) (Const 2) in
  run_tagged_from (-1) p = (Some (Some 24%Z), 0%Z)
  /\ run_tagged_from 0 p = (Some (Some 24%Z), 1%Z)
  /\ run_tagged_from 5 p = (Some (Some 24%Z), 6%Z).
Proof. vm_compute. repeat split; reflexivity. Qed.
