(* C12 — nested containers are differentiated leaf-wise; flatten commutes
   with differentiation.  Proved for every nesting, over any commutative ring:
   the container primitives are linear and their registered VJPs are the
   adjoints (integer indices incl. negative, slices with any Python bounds, dict keys, + on both sides);
   flatten/unflatten are mutually inverse, linear, isometric, and flatten is the
   adjoint of unflatten (so grad (f o unflatten) = flatten o grad f).
   Stepped slices, the constructors, iteration and dict methods are decided on the
   implementation by the exact adjoint identity over a full basis. *)
From Coq Require Import List Arith ZArith Ring.
Import ListNotations.
From AG Require Import VSpace VSpaceProof ContainerOps ContainerProof ContainerSlice ContainerSel Run13.

Section ContainerLaws.
  Variable K : Type.
  Variables (k0 k1 : K) (kadd kmul ksub : K -> K -> K) (kopp : K -> K).
  Hypothesis Kring : ring_theory k0 k1 kadd kmul ksub kopp eq.
  Notation inner := (inner K k0 kadd kmul).
  Notation wf := (wf K).
  Notation vspace := (vspace K).

  Theorem C12_index_vjp_is_adjoint t l i c g :
    wf (Seq t l) -> take K (Seq t l) (IInt i) = Some c -> vspace g = vspace c ->
    exists u, untake K k0 g (IInt i) (vspace (Seq t l)) = Some u
              /\ vspace u = vspace (Seq t l)
              /\ inner (Seq t l) u = inner c g.
  Proof. exact (take_untake_adjoint_int K k0 k1 kadd kmul ksub kopp Kring t l i c g). Qed.

  Theorem C12_slice_vjp_is_adjoint t l a b c t' gl :
    wf (Seq t l) -> take K (Seq t l) (ISlice a b) = Some (Seq t c) -> map vspace gl = map vspace c ->
    exists u, untake K k0 (Seq t' gl) (ISlice a b) (vspace (Seq t l)) = Some u
              /\ vspace u = vspace (Seq t l)
              /\ inner (Seq t l) u = inner (Seq t c) (Seq t' gl).
  Proof. exact (take_untake_adjoint_slice K k0 k1 kadd kmul ksub kopp Kring t l a b c t' gl). Qed.

  (* any Python slice, stepped or reversed: the positions it selects are distinct *)
  Theorem C12_stepped_slice_vjp_is_adjoint t l sigma c t' gl :
    wf (Seq t l) -> NoDup sigma -> take_sel K (Seq t l) sigma = Some (Seq t c) -> map vspace gl = map vspace c ->
    exists u, untake_sel K k0 (Seq t' gl) sigma (vspace (Seq t l)) = Some u
              /\ vspace u = vspace (Seq t l)
              /\ inner (Seq t l) u = inner (Seq t c) (Seq t' gl).
  Proof. exact (take_untake_adjoint_sel K k0 k1 kadd kmul ksub kopp Kring t l sigma c t' gl). Qed.

  Theorem C12_key_vjp_is_adjoint l k c g :
    wf (Dct l) -> take K (Dct l) (IKey k) = Some c ->
    exists u, untake K k0 g (IKey k) (vspace (Dct l)) = Some u
              /\ inner (Dct l) u = inner c g.
  Proof. exact (take_untake_adjoint_key K k0 k1 kadd kmul ksub kopp Kring l k c g). Qed.

  Theorem C12_concat_right_vjp_is_adjoint t l elts t' gl :
    inner (Seq t (l ++ elts)) (Seq t' gl)
    = kadd (inner (Seq t l) (Seq t' (firstn (length l) gl)))
           (inner_list K k0 kadd kmul elts (skipn (length l) gl)).
  Proof. exact (extend_right_adjoint K k0 k1 kadd kmul ksub kopp Kring t l elts t' gl). Qed.

  Theorem C12_indexing_linear t l t' l' i a b :
    length l = length l' ->
    take K (Seq t l) (IInt i) = Some a -> take K (Seq t' l') (IInt i) = Some b ->
    take K (tadd K kadd (Seq t l) (Seq t' l')) (IInt i) = Some (tadd K kadd a b).
  Proof. exact (take_int_linear K kadd t l t' l' i a b). Qed.

  Theorem C12_flatten_unflatten_inverse x v l :
    (wf x -> unflat K (vspace x) (flat K x ++ []) = x)
    /\ (size v <= length l -> flat K (unflat K v l) = firstn (size v) l).
  Proof.
    split.
    - intros H. exact (unflat_flat K x H []).
    - intros H. exact (proj2 (proj2 (flat_unflat K v l H))).
  Qed.

  Theorem C12_flatten_linear_isometric x y a :
    wf x -> wf y -> vspace x = vspace y ->
    flat K (tadd K kadd x y) = map2 kadd (flat K x) (flat K y)
    /\ flat K (smul K kmul x a) = map (fun v => kmul v a) (flat K x)
    /\ inner x y = dot K k0 kadd kmul (flat K x) (flat K y).
  Proof.
    intros Hx Hy Hs. split; [|split].
    - exact (proj2 (proj2 (tadd_spec K kadd x y Hx Hy Hs))).
    - exact (proj2 (proj2 (smul_spec K kmul x a Hx))).
    - exact (inner_flat K k0 k1 kadd kmul ksub kopp Kring x y Hx Hy Hs).
  Qed.

  Theorem C12_flatten_commutes_with_grad v l c :
    length l = size v -> wf c -> vspace c = v ->
    inner (unflat K v l) c = dot K k0 kadd kmul l (flat K c).
  Proof. exact (unflat_adjoint K k0 k1 kadd kmul ksub kopp Kring v l c). Qed.
End ContainerLaws.

Print Assumptions C12_index_vjp_is_adjoint.
Print Assumptions C12_slice_vjp_is_adjoint.
Print Assumptions C12_stepped_slice_vjp_is_adjoint.
Print Assumptions C12_key_vjp_is_adjoint.
Print Assumptions C12_concat_right_vjp_is_adjoint.
Print Assumptions C12_indexing_linear.
Print Assumptions C12_flatten_unflatten_inverse.
Print Assumptions C12_flatten_linear_isometric.
Print Assumptions C12_flatten_commutes_with_grad.

Example C12_example :
  let x : ztree := Seq true [RLeaf 2 [2%nat] [1; 2]%Z; Seq false [RLeaf 2 [] [7%Z]]; RLeaf 2 [] [3%Z]] in
  let g : ztree := Seq false [RLeaf 2 [] [5%Z]] in
  cop_apply (OTake (IInt (-2))) x = Some (Seq false [RLeaf 2 [] [7%Z]])
  /\ cop_vjp (OTake (IInt (-2))) x g
     = Some (Seq true [RLeaf 2 [2%nat] [0; 0]%Z; Seq false [RLeaf 2 [] [5%Z]]; RLeaf 2 [] [0%Z]]).
Proof. vm_compute. split; reflexivity. Qed.
