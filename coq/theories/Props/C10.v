(* C10 - differentiation never writes memory it does not own.
   PROVED (heap model of core.add_outgrads with buffer identities, all six
   branches; contributions may alias anything): for every list of dense and
   sparse contributions, in every order, every buffer that existed before the
   accumulation - inputs, captured constants, the caller's cotangent, results
   of earlier calls, other nodes' cotangents - is unchanged afterwards; a value
   flagged mutable was allocated by the accumulation itself.  (The sum it holds
   is C11's theorem.)  Derivative rules are assumed not to write their
   arguments (rule contract; validated for the built-in rules by running every
   check with read-only inputs).  PROVED for the WHOLE backward pass
   (Engine/HeapPass.v: the loop of core.backward_pass over the heap model, rules
   that may return their own cotangent, any pre-existing buffer or fresh arrays):
   the pass with in-place accumulation returns exactly what the pure pass
   returns, every buffer that existed before it is unchanged, and a second call
   - same or different cotangent, wherever it is stored - returns the answer it
   would give as the only call.  On the implementation, repeated and permuted
   calls and snapshots of earlier results are compared by the correspondence
   run. *)
From Coq Require Import List Arith Ring.
Import ListNotations.
From AG Require Import VSpace VSpaceProof Index Heap.

Theorem C10_accumulation_writes_only_what_it_allocated :
  forall (K : Type) (k0 : K) (kadd : K -> K -> K) n cs prev h base res h',
    base <= length h -> owned_after K base prev h ->
    accumulate_h K k0 kadd n prev cs h = (res, h') ->
    length h <= length h' /\ owned_after K base res h'
    /\ forall r, r < base -> read K h' r = read K h r.
Proof. exact accumulate_frame. Qed.
Print Assumptions C10_accumulation_writes_only_what_it_allocated.

Theorem C10_preexisting_memory_unchanged :
  forall (K : Type) (k0 : K) (kadd : K -> K -> K) n cs h res h',
    accumulate_h K k0 kadd n None cs h = (res, h') ->
    forall r, r < length h -> read K h' r = read K h r.
Proof. exact accumulate_from_nothing_preserves_everything. Qed.
Print Assumptions C10_preexisting_memory_unchanged.

(* the whole backward pass: refinement of the pure pass + frame, and repetition *)
From AG Require Import HeapPass.
Theorem C10_backward_pass_refines_pure_pass_and_preserves_memory :
  forall (K : Type) (k0 : K) (kadd : K -> K -> K) (n : nat) (parents : nat -> list nat)
         (ruleh : nat -> Heap.heap K -> nat -> list hcontrib * Heap.heap K) (rulep : nat -> list K -> list (contrib K))
         (h0 : Heap.heap K) (order : list nat) (e g : nat),
    rule_ok K ruleh rulep h0 -> g < length h0 ->
    match backward_h K k0 kadd n parents ruleh order e g h0 with
    | Some (v, h') => backward_p K k0 kadd n parents rulep order e (read K h0 g) = Some v
                      /\ (forall r, r < length h0 -> read K h' r = read K h0 r) /\ length h0 <= length h'
    | None => backward_p K k0 kadd n parents rulep order e (read K h0 g) = None
    end.
Proof. exact backward_pass_refines_pure_and_preserves_memory. Qed.
Print Assumptions C10_backward_pass_refines_pure_pass_and_preserves_memory.

Theorem C10_second_call_as_if_only_call :
  forall (K : Type) (k0 : K) (kadd : K -> K -> K) (n : nat) (parents : nat -> list nat)
         (ruleh : nat -> Heap.heap K -> nat -> list hcontrib * Heap.heap K) (rulep : nat -> list K -> list (contrib K))
         (h0 : Heap.heap K) (order : list nat) (e g g2 : nat) (v1 : list K) (h1 : Heap.heap K),
    rule_ok K ruleh rulep h0 -> g < length h0 ->
    backward_h K k0 kadd n parents ruleh order e g h0 = Some (v1, h1) -> g2 < length h1 ->
    match backward_h K k0 kadd n parents ruleh order e g2 h1 with
    | Some (v2, h2) => backward_p K k0 kadd n parents rulep order e (read K h1 g2) = Some v2
                       /\ (forall r, r < length h1 -> read K h2 r = read K h1 r)
                       /\ (g2 = g -> v2 = v1)
    | None => backward_p K k0 kadd n parents rulep order e (read K h1 g2) = None
    end.
Proof. exact second_call_as_if_only_call. Qed.
Print Assumptions C10_second_call_as_if_only_call.

(* the same array arriving twice, then a sparse contribution reading it *)
From Coq Require Import ZArith.
From AG Require Import Run10.
Example C10_example :
  let h := [[1; 2; 3]%Z; [5; 5]%Z] in
  match accumulate_h Z 0%Z Z.add 3 None [HDense 0; HDense 0; HSparse [2; 2]%nat 1] h with
  | (Some (r, f), h') => r = 2%nat /\ f = true /\ read Z h' r = [2; 4; 16]%Z /\ firstn 2 h' = h
  | _ => False
  end.
Proof. vm_compute. repeat split; reflexivity. Qed.

(* the heap model of core.add_outgrads IS the decision table the translator reads off /repo's source on this run
   (coq/gen/GenEngine.v): which branches write in place, which allocate, which alias *)
From AG Require Import EngineTie.
From AGGen Require Import GenEngine.
Theorem C10_heap_model_follows_source :
  forall (K : Type) (k0 : K) (kadd : K -> K -> K) n prev c h,
    Heap.add_outgrads_h K k0 kadd n prev c h
    = let '(a, fl) := gen_add_outgrads (has_prev prev) (is_mutable prev) (is_hsparse c) in
      run_action_h K k0 kadd a fl n prev c h.
Proof. exact add_outgrads_heap_follows_source. Qed.
Print Assumptions C10_heap_model_follows_source.
