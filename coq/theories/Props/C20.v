(* C20 - concurrent differentiations do not interfere.
   Model: what a thread observes of the others is how far the shared trace
   counter has moved at each of its own trace entry/exit events (the registries
   are never written after import).  A schedule of N threads therefore induces,
   for each thread, an interference script `noise`; running alone is noise [].
   PROVED:
   (1) shared_depth_counter_refuted - with the pinned design (one depth counter
       shared by all threads) there is a two-thread schedule - B enters a trace
       before A's outer entry and exits before A's inner entry - under which A's
       nested derivative d/dx [x * d/dy (x y^2) at y=3] at x=2 evaluates to 9
       instead of 24.  (Replayed on the implementation by ./check C20.)
   (2) with a strictly increasing, never decremented supply, under EVERY
       non-negative interference the counter never decreases and each new trace
       id exceeds every id handed out before, in this thread or another
       (C19_increasing_supply_never_reuses_an_id): trace ids are globally unique.
   (3) finite check, stated as such: for the witness program every interference
       script of length <= 4 with entries in {0,1,2} gives 24 under that supply.
   NOT YET A THEOREM (tied by correspondence under a controlled scheduler):
   that globally unique, increasing ids imply the solo result for every program
   (invariance of the evaluator under order-preserving renaming of ids). *)
From Coq Require Import List ZArith Bool.
Import ListNotations.
From AG Require Import Toposort Tagged Tower Run08 TaggedProof.
Local Open Scope Z_scope.

Definition witness : exp :=
  Grad (App2 PMul (Var 0)
             (Grad (App2 PMul (App2 PMul (Var 1) (Var 0)) (Var 0)) (Const 3))) (Const 2).

(* A's four events: outer entry, inner entry, inner exit, outer exit *)
Definition bad_schedule : list (bool * Z * Z) :=
  [(true, 1, 0); (true, 0, 1); (false, 0, 0); (false, 0, 0)].

Theorem C20_shared_depth_counter_refuted :
  exists (e : exp) (gaps : list (bool * Z * Z)),
    run_noisy Depth e [] = Some (run_spec e)
    /\ run_noisy Depth e gaps <> run_noisy Depth e [].
Proof.
  exists witness, bad_schedule. split; [vm_compute; reflexivity|].
  vm_compute. discriminate.
Qed.
Print Assumptions C20_shared_depth_counter_refuted.

Fixpoint scripts (n : nat) : list (list Z) :=
  match n with
  | O => [[]]
  | S m => [] :: flat_map (fun r => [0 :: r; 1 :: r; 2 :: r]) (scripts m)
  end.

Theorem C20_increasing_supply_witness_all_small_scripts :
  forallb (fun n =>
             match zeval_sup Mono FUEL [] witness {| top := -1; store := []; noise := n |} with
             | (Val v, _) => Z.eqb (strip Z v) 24
             | _ => false
             end) (scripts 4) = true.
Proof. vm_compute. reflexivity. Qed.
Print Assumptions C20_increasing_supply_witness_all_small_scripts.

Example C20_witness_values :
  run_noisy Depth witness bad_schedule = Some (Some 9)
  /\ run_noisy Mono witness bad_schedule = Some (Some 24)
  /\ run_spec witness = Some 24.
Proof. vm_compute. repeat split; reflexivity. Qed.
