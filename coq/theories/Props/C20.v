(* C20 - concurrent differentiations do not interfere.
   Model: what a thread observes of the others is how far the shared trace
   counter has moved at each of its own trace entry/exit events (the registries
   are never written after import).  A schedule of N threads therefore induces,
   for each thread, an interference script `noise`; running alone is noise [].
   PROVED:
   (1) shared_depth_counter_refuted - with the pinned design (one depth counter
       shared by all threads) there is a two-thread schedule - B enters a trace
       before A's outer entry and exits before A's inner entry - under which A's
       nested derivative d/dx [x * d/dy (x y^2) at y=3] at x=2 evaluates to 9
       instead of 24.  (Replayed on the implementation by ./check C20.)
   (2) with a strictly increasing, never decremented supply, under EVERY
       non-negative interference the counter never decreases and each new trace
       id exceeds every id handed out before, in this thread or another
       (C19_increasing_supply_never_reuses_an_id): trace ids are globally unique.
   (3) finite check, stated as such: for the witness program every interference
       script of length <= 4 with entries in {0,1,2} gives 24 under that supply.
   (4) C20_increasing_supply_noninterference - FULL STATEMENT for the design
       /repo now implements: for EVERY program and EVERY non-negative
       interference script (= every schedule of the other threads, who can only
       advance the counter), the thread observes exactly its solo result.
       Proof: the evaluator commutes with strictly increasing renamings of
       trace ids (RenameEval.v: eval_ren); the interfered run is the renamed
       solo run.
   What the theorem cannot exhibit: preemption inside autograd's own bytecode
   (the counter draw `next(_trace_ids)` is one C call under the GIL) and writes
   to registries after import; the controlled scheduler explores the former at
   hook granularity only. *)
From Coq Require Import List ZArith Bool.
Import ListNotations.
From AG Require Import Toposort Tagged Tower Run08 TaggedProof RenameProof RenameEval.
Local Open Scope Z_scope.

Definition witness : exp :=
  Grad (App2 PMul (Var 0)
             (Grad (App2 PMul (App2 PMul (Var 1) (Var 0)) (Var 0)) (Const 3))) (Const 2).

(* A's four events: outer entry, inner entry, inner exit, outer exit *)
Definition bad_schedule : list (bool * Z * Z) :=
  [(true, 1, 0); (true, 0, 1); (false, 0, 0); (false, 0, 0)].

Theorem C20_shared_depth_counter_refuted :
  exists (e : exp) (gaps : list (bool * Z * Z)),
    run_noisy Depth e [] = Some (run_spec e)
    /\ run_noisy Depth e gaps <> run_noisy Depth e [].
Proof.
  exists witness, bad_schedule. split; [vm_compute; reflexivity|].
  vm_compute. discriminate.
Qed.
Print Assumptions C20_shared_depth_counter_refuted.

Fixpoint scripts (n : nat) : list (list Z) :=
  match n with
  | O => [[]]
  | S m => [] :: flat_map (fun r => [0 :: r; 1 :: r; 2 :: r]) (scripts m)
  end.

Theorem C20_increasing_supply_witness_all_small_scripts :
  forallb (fun n =>
             match zeval_sup Mono FUEL [] witness {| top := -1; store := []; noise := n |} with
             | (Val v, _) => Z.eqb (strip Z v) 24
             | _ => false
             end) (scripts 4) = true.
Proof. vm_compute. reflexivity. Qed.
Print Assumptions C20_increasing_supply_witness_all_small_scripts.

Theorem C20_increasing_supply_noninterference :
  forall (K : Type) k0 k1 kadd ksub kmul kopp kF ksign kpos kofZ fuel e top0 noise0,
    (-1 <= top0)%Z -> Forall (fun d => (0 <= d)%Z) noise0 ->
    observe K (eval K k0 k1 kadd ksub kmul kopp kF ksign kpos kofZ Mono fuel [] e
                    {| top := top0; store := []; noise := noise0 |})
    = observe K (eval K k0 k1 kadd ksub kmul kopp kF ksign kpos kofZ Mono fuel [] e (init_state K)).
Proof.
  intros K k0 k1 kadd ksub kmul kopp kF ksign kpos kofZ.
  exact (increasing_supply_noninterference K k0 k1 kadd ksub kmul kopp kF ksign kpos kofZ).
Qed.
Print Assumptions C20_increasing_supply_noninterference.

(* the scripts the scheduler induces are non-negative, and the supply modelled is /repo's *)
Example C20_premises_met :
  SUPPLY = Mono /\ Forall (fun d => 0 <= d) (noise_of Mono bad_schedule).
Proof. split; [reflexivity|]. vm_compute. repeat constructor; discriminate. Qed.

Example C20_witness_values :
  run_noisy Depth witness bad_schedule = Some (Some 9)
  /\ run_noisy Mono witness bad_schedule = Some (Some 24)
  /\ run_spec witness = Some 24.
Proof. vm_compute. repeat split; reflexivity. Qed.
