(* C02 - forward-mode rules are exact.  FAMILY-PARTIAL, as C01: every
   translated ufunc-style JVP lambda of numpy_jvps.py (regenerated on every run)
   is the true derivative times the tangent; entries registered as 'same' or
   def_linear are exact because the primitive is linear in that argument.
   Structured JVPs (var/std, chooser, concatenate, sort, pad ...) are examined
   by the implementation oracle only. *)
From Coq Require Import Reals List.
From Coquelicot Require Import Coquelicot.
From AG Require Import RealPrelude ScalarRules VSpace VSpaceProof Select Stats StatsProof Bilinear.
From AGGen Require Import GenRules.
Local Open Scope R_scope.

Theorem C02_unary_rules_exact :
  exact1 f_reciprocal (fun x => x <> 0) (flip1 jvp_reciprocal_0)
  /\ exact1 exp all_R (flip1 jvp_exp_0) /\ exact1 f_exp2 all_R (flip1 jvp_exp2_0)
  /\ exact1 f_expm1 all_R (flip1 jvp_expm1_0) /\ exact1 ln (fun x => 0 < x) (flip1 jvp_log_0)
  /\ exact1 f_log2 (fun x => 0 < x) (flip1 jvp_log2_0) /\ exact1 f_log10 (fun x => 0 < x) (flip1 jvp_log10_0)
  /\ exact1 f_log1p (fun x => -1 < x) (flip1 jvp_log1p_0) /\ exact1 sin all_R (flip1 jvp_sin_0)
  /\ exact1 cos all_R (flip1 jvp_cos_0) /\ exact1 f_tan (fun x => cos x <> 0) (flip1 jvp_tan_0)
  /\ exact1 asin (fun x => -1 < x < 1) (flip1 jvp_arcsin_0) /\ exact1 acos (fun x => -1 < x < 1) (flip1 jvp_arccos_0)
  /\ exact1 atan all_R (flip1 jvp_arctan_0) /\ exact1 f_sinh all_R (flip1 jvp_sinh_0)
  /\ exact1 f_cosh all_R (flip1 jvp_cosh_0) /\ exact1 f_tanh all_R (flip1 jvp_tanh_0)
  /\ exact1 f_arcsinh all_R (flip1 jvp_arcsinh_0) /\ exact1 f_arccosh (fun x => 1 < x) (flip1 jvp_arccosh_0)
  /\ exact1 f_arctanh (fun x => -1 < x < 1) (flip1 jvp_arctanh_0) /\ exact1 f_square all_R (flip1 jvp_square_0)
  /\ exact1 sqrt (fun x => 0 < x) (flip1 jvp_sqrt_0) /\ exact1 f_sinc (fun x => x <> 0) (flip1 jvp_sinc_0)
  /\ exact1 Rabs (fun x => x <> 0) (flip1 jvp_abs_0) /\ exact1 Rabs (fun x => x <> 0) (flip1 jvp_fabs_0)
  /\ exact1 Rabs (fun x => x <> 0) (flip1 jvp_absolute_0).
Proof.
  exact (conj j_reciprocal (conj j_exp (conj j_exp2 (conj j_expm1 (conj j_log (conj j_log2 (conj j_log10
        (conj j_log1p (conj j_sin (conj j_cos (conj j_tan (conj j_arcsin (conj j_arccos (conj j_arctan (conj j_sinh
        (conj j_cosh (conj j_tanh (conj j_arcsinh (conj j_arccosh (conj j_arctanh (conj j_square (conj j_sqrt
        (conj j_sinc (conj j_abs (conj j_fabs j_absolute))))))))))))))))))))))))).
Qed.
Print Assumptions C02_unary_rules_exact.

Theorem C02_binary_rules_exact :
  exact2_0 f_add all_R2 (flip2 jvp_add_0) /\ exact2_1 f_add all_R2 (flip2 jvp_add_1)
  /\ exact2_0 f_sub all_R2 (flip2 jvp_subtract_0) /\ exact2_1 f_sub all_R2 (flip2 jvp_subtract_1)
  /\ exact2_1 f_div (fun x y => y <> 0) (flip2 jvp_divide_1)
  /\ exact2_1 f_div (fun x y => y <> 0) (flip2 jvp_true_divide_1)
  /\ exact2_0 f_logaddexp all_R2 (flip2 jvp_logaddexp_0) /\ exact2_1 f_logaddexp all_R2 (flip2 jvp_logaddexp_1)
  /\ exact2_0 f_arctan2 (fun x y => 0 < y) (flip2 jvp_arctan2_0) /\ exact2_1 f_arctan2 (fun x y => 0 < y) (flip2 jvp_arctan2_1)
  /\ exact2_0 f_power (fun x y => 0 < x) (flip2 jvp_power_0)
  /\ exact2_1 f_power (fun x y => 0 < x) (flip2 jvp_power_1).
Proof.
  exact (conj j_add_0 (conj j_add_1 (conj j_subtract_0 (conj j_subtract_1 (conj j_divide_1 (conj j_true_divide_1
        (conj j_logaddexp_0 (conj j_logaddexp_1 (conj j_arctan2_0 (conj j_arctan2_1 (conj j_power_0 j_power_1))))))))))).
Qed.
Print Assumptions C02_binary_rules_exact.

(* 'same' / def_linear registrations are exact because the primitive is linear *)
Theorem C02_same_entries_linear :
  linear1 f_negative /\ linear1 f_rad2deg /\ linear1 f_deg2rad
  /\ (forall y, y <> 0 -> linear1 (fun x => f_div x y))
  /\ (forall y, linear1 (fun x => f_mul x y)) /\ (forall x, linear1 (fun y => f_mul x y)).
Proof.
  exact (conj same_negative (conj same_rad2deg (conj same_deg2rad (conj same_divide_0
        (conj linear_multiply_0 linear_multiply_1))))).
Qed.
Print Assumptions C02_same_entries_linear.

(* selection primitives: the gather of the tangent IS the linear part of the function - f(x + v) = f(x) + J v exactly,
   whatever the constants at the output positions that do not read the argument *)
Theorem C02_selection_jvp_is_linear_part :
  forall (K : Type) (k0 k1 : K) (kadd kmul ksub : K -> K -> K) (kopp : K -> K),
    ring_theory k0 k1 kadd kmul ksub kopp eq ->
    forall sel consts x v,
      length x = length v -> length consts = length sel ->
      Select.sapply K k0 kmul sel consts (VSpaceProof.vadd K kadd x v)
      = VSpaceProof.vadd K kadd (Select.sapply K k0 kmul sel consts x) (Select.sgather K k0 kmul sel v).
Proof. exact Select.sapply_affine. Qed.
Print Assumptions C02_selection_jvp_is_linear_part.

(* forward rules of np.var / np.std / np.prod on one fibre (any length): the derivative of t |-> f(x + t v) at 0 *)
Theorem C02_var_std_prod_jvp_exact :
  (forall x v d, length x = length v -> x <> nil -> StatsProof.rdenom d x <> 0 ->
     is_derive (fun t => StatsProof.rvar d (StatsProof.line x v t)) 0 (StatsProof.rvar_jvp d x v))
  /\ (forall x v d, length x = length v -> x <> nil -> StatsProof.rdenom d x <> 0 -> 0 < StatsProof.rvar d x ->
     is_derive (fun t => sqrt (StatsProof.rvar d (StatsProof.line x v t))) 0 (StatsProof.rstd_jvp d x v (sqrt (StatsProof.rvar d x))))
  /\ (forall x v, length x = length v -> List.Forall (fun a => a <> 0) x ->
     is_derive (fun t => StatsProof.rprod (StatsProof.line x v t)) 0 (StatsProof.rprod_jvp x v (StatsProof.rprod x))).
Proof. exact (conj StatsProof.var_jvp_exact (conj StatsProof.std_jvp_exact StatsProof.prod_jvp_exact)). Qed.
Print Assumptions C02_var_std_prod_jvp_exact.

Theorem C02_norm_jvp_exact :
  forall x v, length x = length v -> 0 < StatsProof.rsumsq x ->
    is_derive (fun t => sqrt (StatsProof.rsumsq (StatsProof.line x v t))) 0 (StatsProof.rnorm_jvp x v (sqrt (StatsProof.rsumsq x))).
Proof. exact StatsProof.norm_jvp_exact. Qed.
Print Assumptions C02_norm_jvp_exact.

(* bilinear primitives: each partial map is additive, so the forward rule (the map applied to the tangent) is exact *)
Theorem C02_bilinear_partial_maps_linear :
  forall (K : Type) (k0 k1 : K) (kadd kmul ksub : K -> K -> K) (kopp : K -> K),
    ring_theory k0 k1 kadd kmul ksub kopp eq ->
    forall no S A dA B dB,
      (length A = length dA ->
       Bilinear.bil K k0 kadd kmul no S (VSpaceProof.vadd K kadd A dA) B
       = VSpaceProof.vadd K kadd (Bilinear.bil K k0 kadd kmul no S A B) (Bilinear.bil K k0 kadd kmul no S dA B))
      /\ (length B = length dB ->
       Bilinear.bil K k0 kadd kmul no S A (VSpaceProof.vadd K kadd B dB)
       = VSpaceProof.vadd K kadd (Bilinear.bil K k0 kadd kmul no S A B) (Bilinear.bil K k0 kadd kmul no S A dB)).
Proof.
  intros K k0 k1 kadd kmul ksub kopp R no S A dA B dB. split.
  - exact (Bilinear.bil_linear_A K k0 k1 kadd kmul ksub kopp R no S A dA B).
  - exact (Bilinear.bil_linear_B K k0 k1 kadd kmul ksub kopp R no S A B dB).
Qed.
Print Assumptions C02_bilinear_partial_maps_linear.

(* the polynomial primitives over ANY commutative ring (reals, complex numbers, ...): the forward and reverse rules read off
   the source on this run (coq/gen/GenRingRules.v) are g times the coefficient D of the exact expansion
   f(x + h) = f(x) + D h + R h^2 *)
From AG Require Import PolyRules.
From AGGen Require Import GenRingRules.
Theorem C02_polynomial_rules_over_any_ring :
  forall (K : Type) (k0 k1 : K) (kadd kmul ksub : K -> K -> K) (kopp : K -> K),
    ring_theory k0 k1 kadd kmul ksub kopp eq ->
    forall x y : K,
      (is_rule K kadd kmul (fun t => kadd t y) x k1 k0 (ring_vjp_add_0 K (kadd x y) x y) (fun g => ring_jvp_add_0 K g (kadd x y) x y)
       /\ is_rule K kadd kmul (fun t => kadd x t) y k1 k0 (ring_vjp_add_1 K (kadd x y) x y) (fun g => ring_jvp_add_1 K g (kadd x y) x y))
      /\ (is_rule K kadd kmul (fun t => ksub t y) x k1 k0 (ring_vjp_subtract_0 K (ksub x y) x y) (fun g => ring_jvp_subtract_0 K g (ksub x y) x y)
          /\ is_rule K kadd kmul (fun t => ksub x t) y (kopp k1) k0 (ring_vjp_subtract_1 K kopp (ksub x y) x y)
                     (fun g => ring_jvp_subtract_1 K kopp g (ksub x y) x y))
      /\ (is_rule K kadd kmul (fun t => kmul t y) x y k0 (ring_vjp_multiply_0 K kmul (kmul x y) x y) (fun g => kmul g y)
          /\ is_rule K kadd kmul (fun t => kmul x t) y x k0 (ring_vjp_multiply_1 K kmul (kmul x y) x y) (fun g => kmul x g))
      /\ is_rule K kadd kmul (fun t => kmul t t) x (kmul (kadd k1 k1) x) k1 (ring_vjp_square_0 K k0 k1 kadd kmul (kmul x x) x)
                 (fun g => ring_jvp_square_0 K k0 k1 kadd kmul g (kmul x x) x).
Proof.
  intros K k0 k1 kadd kmul ksub kopp HR x y.
  split; [exact (add_rules K k0 k1 kadd kmul ksub kopp HR x y)|].
  split; [exact (subtract_rules K k0 k1 kadd kmul ksub kopp HR x y)|].
  split; [exact (multiply_rules K k0 k1 kadd kmul ksub kopp HR x y)|].
  exact (square_rules K k0 k1 kadd kmul ksub kopp HR x).
Qed.
Print Assumptions C02_polynomial_rules_over_any_ring.
