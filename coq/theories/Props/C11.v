(* C11 - indexing gradients scatter exactly and combine with dense ones in any
   order.  PROVED for every list of source positions sigma - hence for every
   NumPy index expression, which determines such a list (the map from the
   expression to sigma is NumPy's and is read off a position-labelled array by
   the correspondence run, on ranks 0..4): the VJP of A[idx] (scatter-add, as
   np.add.at) is the adjoint of the gather, has the indexed array's size, and
   repeated positions accumulate; every branch of add_outgrads returns
   prev + dense(g); any list of dense and sparse contributions accumulates to
   the sum of the dense equivalents, in an owned buffer as soon as a sparse or
   a second contribution arrived, independently of the order of arrival. *)
From Coq Require Import List Arith Ring Permutation.
Import ListNotations.
From AG Require Import VSpace VSpaceProof Index.

Section IndexLaws.
  Variable K : Type.
  Variables (k0 k1 : K) (kadd kmul ksub : K -> K -> K) (kopp : K -> K).
  Hypothesis Kring : ring_theory k0 k1 kadd kmul ksub kopp eq.

  Theorem C11_untake_is_adjoint_of_getitem n sigma g v :
    Forall (fun i => i < n) sigma -> length g = length sigma -> length v = n ->
    dot K k0 kadd kmul (scatter K k0 kadd n sigma g) v = dot K k0 kadd kmul g (gather K k0 sigma v)
    /\ length (scatter K k0 kadd n sigma g) = n.
  Proof. exact (getitem_untake_adjoint K k0 k1 kadd kmul ksub kopp Kring n sigma g v). Qed.

  Theorem C11_every_branch_adds_the_dense_equivalent n prev c :
    (forall p b, prev = Some (p, b) -> length p = n) ->
    fst (add_outgrads K k0 kadd n prev c)
    = match prev with None => dense_of K k0 kadd n c | Some (p, _) => vadd K kadd p (dense_of K k0 kadd n c) end
    /\ snd (add_outgrads K k0 kadd n prev c)
       = match prev, c with None, Dense _ _ => false | _, _ => true end.
  Proof. exact (add_outgrads_value K k0 k1 kadd kmul ksub kopp Kring n prev c). Qed.

  Theorem C11_mixed_accumulation_is_the_dense_sum n c cs :
    Forall (well_sized K n) (c :: cs) ->
    exists b, accumulate K k0 kadd n (c :: cs)
              = Some (total_from K k0 kadd n (repeat k0 n) (c :: cs), b)
              /\ (b = true <-> (cs <> [] \/ exists s g, c = Sparse K s g)).
  Proof. exact (accumulate_mixed K k0 k1 kadd kmul ksub kopp Kring n c cs). Qed.

  Theorem C11_order_of_contributions_irrelevant n cs cs' :
    Permutation cs cs' ->
    total_from K k0 kadd n (repeat k0 n) cs = total_from K k0 kadd n (repeat k0 n) cs'.
  Proof. exact (accumulate_order_irrelevant K k0 k1 kadd kmul ksub kopp Kring n cs cs'). Qed.
End IndexLaws.

Print Assumptions C11_untake_is_adjoint_of_getitem.
Print Assumptions C11_every_branch_adds_the_dense_equivalent.
Print Assumptions C11_mixed_accumulation_is_the_dense_sum.
Print Assumptions C11_order_of_contributions_irrelevant.

(* repeated positions add: A[[0,0,2]] on a 3-vector *)
From Coq Require Import ZArith.
From AG Require Import Run11.
Example C11_example :
  zscatter 3 [0; 0; 2]%nat [5; 7; 1]%Z = [12; 0; 1]%Z
  /\ accumulate Z 0%Z Z.add 3 [Dense Z [1; 1; 1]%Z; Sparse Z [2; 2]%nat [4; 5]%Z; Dense Z [0; 2; 0]%Z]
     = Some ([1; 3; 10]%Z, true).
Proof. vm_compute. split; reflexivity. Qed.

(* the model of core.add_outgrads IS the decision table the translator reads off /repo's source on this run *)
From AG Require Import EngineTie.
From AGGen Require Import GenEngine.
Theorem C11_add_outgrads_model_follows_source :
  forall (K : Type) (k0 : K) (kadd : K -> K -> K) n prev c,
    Index.add_outgrads K k0 kadd n prev c
    = let '(a, fl) := gen_add_outgrads (has_prev prev) (is_mutable prev) (is_sparse K c) in
      run_action K k0 kadd a fl n prev c.
Proof. exact add_outgrads_follows_source. Qed.
Print Assumptions C11_add_outgrads_model_follows_source.

(* basic index expressions - integers (negative allowed), slices with any bounds and any non-zero step, Ellipsis, newaxis,
   on an array of any shape: the positions they select (computed by the model of NumPy's resolution, BasicIndex.v, which the
   correspondence run compares with NumPy's) are distinct and in range, so the gradient places each cotangent entry at
   exactly its position and is zero everywhere else *)
From AG Require Import BasicIndex BasicIndexProof.
Theorem C11_basic_index_gradient_places_exactly :
  forall (K : Type) (k0 k1 : K) (kadd kmul ksub : K -> K -> K) (kopp : K -> K),
    ring_theory k0 k1 kadd kmul ksub kopp eq ->
    forall dims items sigma (g : list K),
      basic_sigma dims items = Some sigma -> length g = length sigma ->
      (NoDup sigma /\ List.Forall (fun q => q < prodn dims) sigma)
      /\ (forall k, k < length sigma -> nth (nth k sigma 0) (Index.scatter K k0 kadd (prodn dims) sigma g) k0 = nth k g k0)
      /\ (forall j, ~ In j sigma -> nth j (Index.scatter K k0 kadd (prodn dims) sigma g) k0 = k0)
      /\ length (Index.scatter K k0 kadd (prodn dims) sigma g) = prodn dims.
Proof.
  intros K k0 k1 kadd kmul ksub kopp HR dims items sigma g Hs Hl.
  split; [exact (basic_sigma_distinct dims items sigma Hs)|].
  exact (basic_index_gradient_places_exactly K k0 k1 kadd kmul ksub kopp HR dims items sigma g Hs Hl).
Qed.
Print Assumptions C11_basic_index_gradient_places_exactly.
