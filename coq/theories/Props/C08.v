(* C08 - nested differentiation is isolated.
   FULL STATEMENT, PROVED: C08_nested_correct - for every closed program e of the
   object language over the differentiable primitives and sign (any nesting depth
   of Grad/Deriv, any mode assignment, any closure pattern, Let, IfPos on traced
   values, Fail/Try), started from any trace counter >= -1, with an empty node
   store, under any non-negative interference of other threads:
       the tagged evaluator returns v   ->  eval_spec e = Some (strip v)
       the tagged evaluator raises      ->  eval_spec e = None
   where the tagged evaluator is the model of tracer.py / core.py with dynamic
   trace ids, boxes, find_top_boxed_args, the primitive wrapper, JVPNode and
   VJPNode, one global node store, toposort and backward_pass with the rule
   bodies run through the wrapper (Tagged.v), and eval_spec evaluates in the
   tower of dual numbers with no tags at all (Tower.v).
   Proof (MixInterp.v, MixStep.v, MixBackward.v, MixEval.v): a boxed value is
   interpreted, relative to the list of active levels (each forward or reverse)
   and the node store, as an element of the tower - a forward box by its
   tangent, a reverse box by the derivative of its node with respect to the
   root of its trace read off the store.  The primitive wrapper computes the tower
   operation at every level (MAP_all, by induction on the levels; a reverse level
   records a node whose tangent is the sum of partials times parents' tangents).
   The backward pass returns the tangent of the end node (loop_good: the sum of
   pending cotangents weighted by node tangents is invariant under every step of
   the loop over the topologically sorted nodes, using toposort_correct for
   "consumers first" and "the root is last").  eval by induction on fuel.
   What stays outside: primitives without a rule (PNoVjp/PNoJvp, covered by the
   C15 theorems), out-of-fuel runs (the statement is about runs that return), and
   the tie of Tagged.v to tracer.py/core.py, which is the correspondence run. *)
From Coq Require Import List ZArith.
Import ListNotations.
From AG Require Import Toposort Tagged Tower Run08 TaggedProof TowerAlg FwdCorrect FwdStep FwdEval TowerRing MixInterp MixStep MixBackward MixEval.

Theorem C08_outermost_level_selected_partial :
  forall (K : Type) (args : list (value K)) t k,
    find_top K args (-1) None = (t, Some k) ->
    (forall t' i n, In (VBox K t' i n) args -> (t' <= t)%Z)
    /\ exists i n, In (VBox K t i n) args /\ k = kind_of K n.
Proof.
  intros K args t k H. apply find_top_spec in H.
  destruct H as (_ & H2 & [[_ Hk]|(i & n & Hin & Hk & _)]); [discriminate|].
  split; [exact H2|]. exists i, n. split; [exact Hin|]. congruence.
Qed.
Print Assumptions C08_outermost_level_selected_partial.

Theorem C08_primal_unaffected_by_tags_partial :
  forall (K : Type) kadd ksub kmul kopp kF ksign fuel p args s v s',
    apply_prim K kadd ksub kmul kopp kF ksign fuel p args s = (Val v, s') ->
    raw K kadd ksub kmul kopp kF ksign p (map (strip K) args) = Val (strip K v).
Proof. exact apply_prim_transparent. Qed.
Print Assumptions C08_primal_unaffected_by_tags_partial.

Theorem C08_nested_correct :
  forall fuel e (s : state Z),
    prims_ok e = true -> (-1 <= top Z s)%Z -> calm Z s -> store Z s = [] ->
    match fst (zeval_sup Mono fuel [] e s) with
    | Val v => eval_spec e 0 [] = Some (strip Z v)
    | Err _ => eval_spec e 0 [] = None
    | OutOfFuel => True
    end.
Proof. exact nested_correct. Qed.
Print Assumptions C08_nested_correct.

(* premises are met by the initial state, the evaluator modelled is /repo's, and the
   four mode assignments of the classical confusion program are inside the fragment *)
Example C08_nested_premises :
  let inner := App2 PMul (App2 PMul (Var 1) (Var 0)) (Var 0) in
  forallb prims_ok
      [Grad (App2 PMul (Var 0) (Grad inner (Const 3))) (Const 2);
       Deriv (App2 PMul (Var 0) (Grad inner (Const 3))) (Const 2);
       Grad (App2 PMul (Var 0) (Deriv inner (Const 3))) (Const 2);
       Deriv (App2 PMul (Var 0) (Deriv inner (Const 3))) (Const 2)] = true
  /\ SUPPLY = Mono /\ store Z (init_state Z) = [] /\ (-1 <= top Z (init_state Z))%Z.
Proof. repeat split; try reflexivity; discriminate. Qed.

Theorem C08_forward_nesting_correct :
  forall fuel e (s : state Z),
    fwd_only e = true -> (-1 <= top Z s)%Z -> calm Z s ->
    match fst (zeval_sup Mono fuel [] e s) with
    | Val v => eval_spec e 0 [] = Some (strip Z v)
    | Err _ => eval_spec e 0 [] = None
    | OutOfFuel => True
    end.
Proof. exact forward_fragment_correct. Qed.
Print Assumptions C08_forward_nesting_correct.

(* the classical perturbation-confusion program is inside the fragment and the
   evaluator modelled is /repo's *)
Example C08_forward_premises :
  fwd_only (Deriv (App2 PMul (Var 0) (Deriv (App2 PMul (App2 PMul (Var 1) (Var 0)) (Var 0)) (Const 3))) (Const 2)) = true
  /\ SUPPLY = Mono /\ (-1 <= top Z (init_state Z))%Z /\ calm Z (init_state Z).
Proof. repeat split; try reflexivity; try discriminate; constructor. Qed.

(* non-vacuity and the classical confusion examples, decided by computation:
   d/dx [x * d/dy (x*y*y) at y=3] at x=2 is 24 under all four mode assignments *)
Example C08_examples :
  let inner := App2 PMul (App2 PMul (Var 1) (Var 0)) (Var 0) in
  map run_tagged
      [Grad (App2 PMul (Var 0) (Grad inner (Const 3))) (Const 2);
       Deriv (App2 PMul (Var 0) (Grad inner (Const 3))) (Const 2);
       Grad (App2 PMul (Var 0) (Deriv inner (Const 3))) (Const 2);
       Deriv (App2 PMul (Var 0) (Deriv inner (Const 3))) (Const 2)]
  = [Some (Some 24%Z); Some (Some 24%Z); Some (Some 24%Z); Some (Some 24%Z)].
Proof. vm_compute. reflexivity. Qed.

(* the scan of tracer.find_top_boxed_args as the translator reads it off /repo's source on this run: start at -1, a
   strictly larger trace id becomes the new top, an equal one joins it - the constants of Tagged.find_top / boxed_at *)
From AG Require Import EngineTie.
From AGGen Require Import GenEngine.
Theorem C08_find_top_follows_source :
  (gen_find_top_init, gen_find_top_new_top_when, gen_find_top_join_when) = ((-1)%Z, CmpGt, CmpEq)
  /\ SUPPLY = supply_of_source.
Proof. split; [exact find_top_follows_source | reflexivity]. Qed.
Print Assumptions C08_find_top_follows_source.
