(* C08 — nested differentiation is isolated.
   FULL STATEMENT (not yet proved in Coq; tied by the three-way correspondence
   run of ./check C08 on every run):
     nested_correct : for every closed program e of the object language (any
     nesting depth of Grad/Deriv, any mode assignment, any closure pattern),
       run_tagged e = Some r  ->  r = run_spec e
     where run_tagged is the model of tracer.py/core.py with dynamic trace ids
     (Tagged.v) and run_spec evaluates in the tower of dual numbers (Tower.v).
   PROVED HERE (partial): the two mechanisms the isolation rests on —
   (a) the primitive wrapper differentiates with respect to exactly the
   outermost trace present among its arguments and (b) whatever the tags,
   kinds and nesting of the arguments, the value it returns is the raw function
   of the underlying numbers; plus (c) the depth counter never decreases and is
   restored by every normally returning call.
   PROVED HERE (full statement on the forward-mode fragment):
   C08_forward_nesting_correct - for every program without Grad (arbitrarily
   nested Deriv, closures over any enclosing variable, Let, IfPos on traced
   values, sign, Fail/Try), from every counter value >= -1 and under every
   non-negative interference: the tagged evaluator returns v exactly when the
   tower semantics returns strip v, and raises exactly when it raises.  The
   proof (FwdCorrect.v, FwdStep.v, FwdEval.v) is the abstraction argument: a
   boxed value is interpreted, relative to the list of active trace ids, as an
   element of the tower; the primitive wrapper (find_top, unboxing, JVP rules run
   through the wrapper, tangent accumulation) is shown to compute the tower
   operation at every level by induction on the list of levels, and eval by
   induction on fuel.
   Missing: the same for reverse nodes (simulation of the backward pass at each
   level); for programs with Grad the equality is tied by correspondence. *)
From Coq Require Import List ZArith.
Import ListNotations.
From AG Require Import Toposort Tagged Tower Run08 TaggedProof TowerAlg FwdCorrect FwdStep FwdEval.

Theorem C08_outermost_level_selected_partial :
  forall (K : Type) (args : list (value K)) t k,
    find_top K args (-1) None = (t, Some k) ->
    (forall t' i n, In (VBox K t' i n) args -> (t' <= t)%Z)
    /\ exists i n, In (VBox K t i n) args /\ k = kind_of K n.
Proof.
  intros K args t k H. apply find_top_spec in H.
  destruct H as (_ & H2 & [[_ Hk]|(i & n & Hin & Hk & _)]); [discriminate|].
  split; [exact H2|]. exists i, n. split; [exact Hin|]. congruence.
Qed.
Print Assumptions C08_outermost_level_selected_partial.

Theorem C08_primal_unaffected_by_tags_partial :
  forall (K : Type) kadd ksub kmul kopp kF ksign fuel p args s v s',
    apply_prim K kadd ksub kmul kopp kF ksign fuel p args s = (Val v, s') ->
    raw K kadd ksub kmul kopp kF ksign p (map (strip K) args) = Val (strip K v).
Proof. exact apply_prim_transparent. Qed.
Print Assumptions C08_primal_unaffected_by_tags_partial.

Theorem C08_forward_nesting_correct :
  forall fuel e (s : state Z),
    fwd_only e = true -> (-1 <= top Z s)%Z -> calm Z s ->
    match fst (zeval_sup Mono fuel [] e s) with
    | Val v => eval_spec e 0 [] = Some (strip Z v)
    | Err _ => eval_spec e 0 [] = None
    | OutOfFuel => True
    end.
Proof. exact forward_fragment_correct. Qed.
Print Assumptions C08_forward_nesting_correct.

(* the classical perturbation-confusion program is inside the fragment and the
   evaluator modelled is /repo's *)
Example C08_forward_premises :
  fwd_only (Deriv (App2 PMul (Var 0) (Deriv (App2 PMul (App2 PMul (Var 1) (Var 0)) (Var 0)) (Const 3))) (Const 2)) = true
  /\ SUPPLY = Mono /\ (-1 <= top Z (init_state Z))%Z /\ calm Z (init_state Z).
Proof. repeat split; try reflexivity; try discriminate; constructor. Qed.

(* non-vacuity and the classical confusion examples, decided by computation:
   d/dx [x * d/dy (x*y*y) at y=3] at x=2 is 24 under all four mode assignments *)
Example C08_examples :
  let inner := App2 PMul (App2 PMul (Var 1) (Var 0)) (Var 0) in
  map run_tagged
      [Grad (App2 PMul (Var 0) (Grad inner (Const 3))) (Const 2);
       Deriv (App2 PMul (Var 0) (Grad inner (Const 3))) (Const 2);
       Grad (App2 PMul (Var 0) (Deriv inner (Const 3))) (Const 2);
       Deriv (App2 PMul (Var 0) (Deriv inner (Const 3))) (Const 2)]
  = [Some (Some 24%Z); Some (Some 24%Z); Some (Some 24%Z); Some (Some 24%Z)].
Proof. vm_compute. reflexivity. Qed.
