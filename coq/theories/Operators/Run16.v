(* Executable instance for C16: polynomial maps Z^n -> Z^m of degree 2 with
   integer coefficients, their formal Jacobian/Hessian, and the expected result
   of every differential operator as the contraction proved in Operators.v. *)
From Coq Require Import List Arith Bool ZArith.
Import ListNotations.
From AG Require Import Operators.
Local Open Scope Z_scope.

Record poly := { pm : nat; pn : nat; pc : list Z; pA : list (list Z); pB : list (list (list Z)) }.

Definition zn (l : list Z) (i : nat) : Z := nth i l 0.
Definition a_ (p : poly) (i j : nat) : Z := zn (nth i p.(pA) []) j.
Definition b_ (p : poly) (i j k : nat) : Z := zn (nth j (nth i p.(pB) []) []) k.
Definition zsum (n : nat) (f : nat -> Z) : Z := sumn Z 0 Z.add n f.

Definition evalf (p : poly) (x : list Z) (i : nat) : Z :=
  zn p.(pc) i + zsum p.(pn) (fun j => a_ p i j * zn x j)
  + zsum p.(pn) (fun j => zsum p.(pn) (fun k => b_ p i j k * zn x j * zn x k)).
(* formal partial derivatives *)
Definition Jp (p : poly) (x : list Z) (i j : nat) : Z :=
  a_ p i j + zsum p.(pn) (fun k => (b_ p i j k + b_ p i k j) * zn x k).
Definition Hp (p : poly) (i j k : nat) : Z := b_ p i j k + b_ p i k j.

Inductive dop :=
| OJac | OGrad | OEgrad | ODeriv | OHess | OValue
| OHvp (v : list Z) | OTjp (vec : list Z) | OJvp (v : list Z) | OJvpRev (v : list Z) | OGgn (v : list Z).

Definition expected (p : poly) (x : list Z) (o : dop) : list Z :=
  let m := p.(pm) in let n := p.(pn) in let J := Jp p x in
  match o with
  | OJac => jacobian_op Z 0 1 Z.add Z.mul m n J
  | OGrad | OEgrad => egrad_op Z 0 1 Z.add Z.mul m n J
  | ODeriv => deriv_op Z 0 1 Z.add Z.mul m n J
  | OHess => jacobian_op Z 0 1 Z.add Z.mul n n (fun j k => Hp p 0%nat j k)
  | OValue => map (evalf p x) (seq 0 m)
  | OHvp v => map (matvec Z 0 Z.add Z.mul n (fun j k => Hp p 0%nat j k) (zn v)) (seq 0 n)
  | OTjp vec => tjp_op Z 0 Z.add Z.mul m n J (zn vec)
  | OJvp v => map (jvp_of Z 0 Z.add Z.mul n J (zn v)) (seq 0 m)
  | OJvpRev v => jvp_reverse_op Z 0 Z.add Z.mul m n J (zn v)
  | OGgn v => ggnvp_op Z 0 Z.add Z.mul m n J (fun a b => if Nat.eqb a b then 1 else 0) (zn v)
  end.

Fixpoint zl_eqb (a b : list Z) : bool :=
  match a, b with
  | [], [] => true
  | x :: a', y :: b' => Z.eqb x y && zl_eqb a' b'
  | _, _ => false
  end.

Record case16 := { q_p : poly; q_x : list Z; q_op : dop; q_impl : list Z; q_shape_ok : bool }.

(* the model's expected value IS the stated contraction of the formal Jacobian,
   so a disagreement is a failure of the property on this input *)
Definition check16 (c : case16) : nat :=
  if c.(q_shape_ok) && zl_eqb (expected c.(q_p) c.(q_x) c.(q_op)) c.(q_impl) then 0%nat else 2%nat.
