(* L6: the differential operators of differential_operators.py over one
   ground-truth Jacobian.  The engine contract (conclusion of C01-C03/C08) is
   taken as given: for a map with Jacobian J at x (an m x n matrix in
   flattened row-major coordinates), make_vjp returns g |-> J^T g and make_jvp
   returns v |-> J v.  Every operator is then the stated contraction of J. *)
From Coq Require Import List Arith Bool Lia Ring.
Import ListNotations.

Section Ops.
  Variable K : Type.
  Variables (k0 k1 : K) (kadd kmul ksub : K -> K -> K) (kopp : K -> K).
  Hypothesis Kring : ring_theory k0 k1 kadd kmul ksub kopp eq.
  Add Ring KRo : Kring.

  Fixpoint ksum (l : list K) : K :=
    match l with [] => k0 | x :: r => kadd x (ksum r) end.
  Definition sumn (n : nat) (f : nat -> K) : K := ksum (map f (seq 0 n)).

  (* matrices and vectors as functions of flat indices *)
  Definition matvec (n : nat) (J : nat -> nat -> K) (v : nat -> K) : nat -> K :=
    fun i => sumn n (fun j => kmul (J i j) (v j)).                 (* J v *)
  Definition tmatvec (m : nat) (J : nat -> nat -> K) (g : nat -> K) : nat -> K :=
    fun j => sumn m (fun i => kmul (J i j) (g i)).                 (* J^T g *)
  Definition unit (i : nat) : nat -> K := fun k => if Nat.eqb k i then k1 else k0.
  Definition ones : nat -> K := fun _ => k1.

  (* the engine contract *)
  Definition vjp_of (m : nat) (J : nat -> nat -> K) := tmatvec m J.
  Definition jvp_of (n : nat) (J : nat -> nat -> K) := matvec n J.

  (* jacobian: np.reshape(np.stack(map(vjp, standard_basis)), out_shape + in_shape):
     flat entry i*n + j is component j of vjp(e_i) *)
  Definition jacobian_op (m n : nat) (J : nat -> nat -> K) : list K :=
    flat_map (fun i => map (vjp_of m J (unit i)) (seq 0 n)) (seq 0 m).
  (* grad / elementwise_grad: vjp(ones) *)
  Definition egrad_op (m n : nat) (J : nat -> nat -> K) : list K :=
    map (vjp_of m J ones) (seq 0 n).
  (* deriv: jvp(ones) *)
  Definition deriv_op (m n : nat) (J : nat -> nat -> K) : list K :=
    map (jvp_of n J ones) (seq 0 m).
  (* make_jvp_reversemode: the vjp of the (linear) map g |-> vjp(g), whose
     Jacobian is J^T, applied to v *)
  Definition jvp_reverse_op (m n : nat) (J : nat -> nat -> K) (v : nat -> K) : list K :=
    map (vjp_of n (fun j i => J i j) v) (seq 0 m).
  (* tensor_jacobian_product: jacobian of x |-> <vec, f x> *)
  Definition tjp_op (m n : nat) (J : nat -> nat -> K) (vec : nat -> K) : list K :=
    map (tmatvec m J vec) (seq 0 n).
  (* make_ggnvp: f_vjp(g_hvp(f_jvp(v))) with Hg the Hessian of g at f(x) *)
  Definition ggnvp_op (m n : nat) (J Hg : nat -> nat -> K) (v : nat -> K) : list K :=
    map (tmatvec m J (matvec m Hg (matvec n J v))) (seq 0 n).

  (* ---------------- theorems ---------------- *)
  Lemma ksum_map_zero {A} (f : A -> K) l : (forall x, In x l -> f x = k0) -> ksum (map f l) = k0.
  Proof.
    induction l as [|a l IH]; simpl; intros H; [reflexivity|].
    rewrite H by now left. rewrite IH by (intros; apply H; now right). ring.
  Qed.

  Lemma sum_delta : forall m off (f : nat -> K) i,
      off <= i < off + m ->
      ksum (map (fun k => kmul (f k) (if Nat.eqb k i then k1 else k0)) (seq off m)) = f i.
  Proof.
    induction m as [|m IH]; intros off f i Hi; [lia|]. simpl.
    destruct (Nat.eqb_spec off i) as [->|Hne].
    - rewrite ksum_map_zero; [ring|]. intros x Hx. apply in_seq in Hx.
      assert (Nat.eqb x i = false) by (apply Nat.eqb_neq; lia). rewrite H. ring.
    - rewrite IH by lia. ring.
  Qed.

  (* vjp(e_i) is row i of J *)
  Theorem vjp_unit_is_row m J i j : i < m -> vjp_of m J (unit i) j = J i j.
  Proof.
    intros Hi. unfold vjp_of, tmatvec, sumn, unit.
    apply (sum_delta m 0 (fun k => J k j) i). lia.
  Qed.

  Lemma nth_flat_map_uniform {A} (d : A) (f : nat -> list A) n :
    (forall i, length (f i) = n) ->
    forall m off i j, i < m -> j < n ->
      nth (i * n + j) (flat_map f (seq off m)) d = nth j (f (off + i)) d.
  Proof.
    intros Hlen. induction m as [|m IH]; intros off i j Hi Hj; [lia|]. simpl.
    destruct i as [|i].
    - simpl. rewrite app_nth1 by (rewrite Hlen; lia). now rewrite Nat.add_0_r.
    - rewrite app_nth2 by (rewrite Hlen; simpl; lia). rewrite Hlen.
      replace (S i * n + j - n) with (i * n + j) by (simpl; lia).
      rewrite IH by lia. f_equal. f_equal. lia.
  Qed.

  Lemma length_flat_map_uniform {A} (f : nat -> list A) n :
    (forall i, length (f i) = n) -> forall m off, length (flat_map f (seq off m)) = m * n.
  Proof.
    intros Hlen. induction m as [|m IH]; intros off; simpl; [reflexivity|].
    now rewrite app_length, Hlen, IH.
  Qed.

  (* C16: jacobian returns all partial derivatives with shape out + in:
     flat entry i*|in| + j is dJ_i/dx_j *)
  Theorem jacobian_entries m n J i j : i < m -> j < n ->
      nth (i * n + j) (jacobian_op m n J) k0 = J i j /\ length (jacobian_op m n J) = m * n.
  Proof.
    intros Hi Hj. split.
    - unfold jacobian_op.
      rewrite (nth_flat_map_uniform k0 _ n) by (intros; now rewrite ?map_length, ?seq_length || lia).
      simpl. rewrite (nth_indep _ k0 (vjp_of m J (unit i) 0)) by (rewrite map_length, seq_length; lia).
      rewrite map_nth, seq_nth by lia. simpl. now apply vjp_unit_is_row.
    - unfold jacobian_op. apply length_flat_map_uniform.
      intros i0. now rewrite map_length, seq_length.
  Qed.

  (* elementwise_grad is the sum of the Jacobian over output indices; grad is
     the same operator on a single output *)
  Theorem egrad_is_column_sum m n J j : j < n ->
      nth j (egrad_op m n J) k0 = sumn m (fun i => J i j).
  Proof.
    intros Hj. unfold egrad_op.
    rewrite (nth_indep _ k0 (vjp_of m J ones 0)) by (rewrite map_length, seq_length; lia).
    rewrite map_nth, seq_nth by lia. simpl. unfold vjp_of, tmatvec, sumn, ones. f_equal.
    apply map_ext. intros i. ring.
  Qed.

  Theorem grad_is_jacobian_row n J j : j < n -> nth j (egrad_op 1 n J) k0 = J 0 j.
  Proof.
    intros Hj. rewrite egrad_is_column_sum by assumption. unfold sumn. simpl. ring.
  Qed.

  (* make_jvp_reversemode computes J v, as forward mode does *)
  Theorem jvp_reverse_is_jvp m n J v i : i < m ->
      nth i (jvp_reverse_op m n J v) k0 = jvp_of n J v i.
  Proof.
    intros Hi. unfold jvp_reverse_op.
    rewrite (nth_indep _ k0 (vjp_of n (fun j i0 => J i0 j) v 0)) by (rewrite map_length, seq_length; lia).
    rewrite map_nth, seq_nth by lia. reflexivity.
  Qed.

  (* the tensor-Jacobian product is the Jacobian left-multiplied by the tensor *)
  Theorem tjp_is_contraction m n J vec j : j < n ->
      nth j (tjp_op m n J vec) k0 = sumn m (fun i => kmul (J i j) (vec i)).
  Proof.
    intros Hj. unfold tjp_op.
    rewrite (nth_indep _ k0 (tmatvec m J vec 0)) by (rewrite map_length, seq_length; lia).
    rewrite map_nth, seq_nth by lia. reflexivity.
  Qed.
End Ops.
