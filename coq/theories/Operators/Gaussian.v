(* C18: the rejection probability of the checker for a rule that is off by a
   factor (1 + d) on a scalar function, under two explicit probability
   hypotheses about the checker's standard-normal draws. *)
From Coq Require Import Reals Lra.
From Coquelicot Require Import Coquelicot.
From Interval Require Import Tactic.
From AG Require Import Checker.
Local Open Scope R_scope.

Definition gauss (t : R) : R := exp (- (t * t) / 2) / sqrt (2 * PI).

(* mass of the standard normal within 1/160 of 0 (machine-checked interval integration) *)
Lemma gauss_mass_small : RInt gauss (-1/160) (1/160) <= 5 / 1000.
Proof. unfold gauss. integral. Qed.

Section Probability.
  (* the law of the two scalar draws x_v, y_v of check_vjp *)
  Variable P : (R -> R -> Prop) -> R.
  (* (H1) monotone and sub-additive *)
  Hypothesis P_mono : forall A B : R -> R -> Prop, (forall x y, A x y -> B x y) -> P A <= P B.
  Hypothesis P_union : forall A B : R -> R -> Prop, P (fun x y => A x y \/ B x y) <= P A + P B.
  (* (H2) each draw is standard normal *)
  Hypothesis P_x : forall s, 0 <= s -> P (fun x _ => Rabs x < s) = RInt gauss (- s) s.
  Hypothesis P_y : forall s, 0 <= s -> P (fun _ y => Rabs y < s) = RInt gauss (- s) s.

  (* f : R -> R with f'(x0) = c; registered rule = (1 + d) * true rule; no
     truncation error (or absorbed in the margins).  check_vjp compares
     numeric = c x y with exact = (1 + d) c x y. *)
  Variables c d : R.
  Hypothesis defect_visible : RTOL * Rabs (2 + d) <= Rabs d.       (* relative size of the defect *)
  Hypothesis well_scaled : TOL * 25600 <= Rabs (d * c).            (* |d f'(x0)| >= 0.0256 *)

  Definition accepted (x y : R) : Prop := scalar_close (c * x * y + 0) (c * x * y + d * (c * x * y)).

  Lemma accepted_small_product x y : accepted x y -> Rabs x < 1/160 \/ Rabs y < 1/160.
  Proof.
    intros Ha.
    destruct (Rlt_dec (Rabs x) (1/160)) as [Hx|Hx]; [now left|].
    destruct (Rlt_dec (Rabs y) (1/160)) as [Hy|Hy]; [now right|]. exfalso.
    assert (Hxy : 1 / 25600 <= Rabs x * Rabs y).
    { apply Rnot_lt_le in Hx. apply Rnot_lt_le in Hy.
      replace (1 / 25600) with (1/160 * (1/160)) by field. apply Rmult_le_compat; lra. }
    assert (Hc : c * x * y <> 0).
    { intros E. assert (Rabs (d * c) * (Rabs x * Rabs y) = 0).
      { rewrite <- !Rabs_mult. replace (d * c * (x * y)) with (d * (c * x * y)) by ring.
        rewrite E, Rmult_0_r. apply Rabs_R0. }
      pose proof (Rabs_pos (d * c)). unfold TOL in well_scaled. nra. }
    revert Ha. apply reject_wrong_factor; [|exact defect_visible|exact Hc].
    replace (d * (c * x * y)) with (d * c * (x * y)) by ring.
    rewrite !Rabs_mult. rewrite <- Rabs_mult.
    pose proof (Rabs_pos (d * c)). unfold TOL in *. nra.
  Qed.

  (* the defective rule is accepted with probability at most 0.01 *)
  Theorem reject_probability_at_least_099 : P accepted <= 1 / 100.
  Proof.
    apply Rle_trans with (P (fun x y => Rabs x < 1/160 \/ Rabs y < 1/160)).
    - apply P_mono. exact accepted_small_product.
    - eapply Rle_trans; [apply P_union|].
      rewrite P_x, P_y by lra.
      replace (- (1 / 160)) with (-1/160) by field.
      pose proof gauss_mass_small. lra.
  Qed.
End Probability.
