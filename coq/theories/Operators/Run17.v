(* Executable checker for the C17 correspondence. *)
From Coq Require Import List Arith Bool ZArith.
Import ListNotations.
From AG Require Import Extend.
Local Open Scope Z_scope.

(* rule r multiplies the cotangent / tangent by code r (distinct primes), so
   the number that reaches an argument identifies the rule that produced it *)
Definition code (r : nat) : Z := nth r [2; 3; 5; 7; 11; 13; 17; 19; 23; 29] 1.

Inductive api := ApiDefvjp | ApiArgnum | ApiArgnums.

Record case17 := {
  a_api : api;
  a_argnums_kw : option (list nat);     (* the argnums= keyword of defvjp *)
  a_makers : list entry;
  a_diff : list nat;                    (* differentiated positions, ascending *)
  a_g : Z;
  a_impl : option (list Z);             (* gradient per differentiated position; None = raised *)
  a_contract_ok : bool                  (* rules saw (ans, original args), boxes only for outer levels *)
}.

Definition out_val (g : Z) (o : out) : Z :=
  match o with ORule r _ => code r * g | OZero _ => 0 end.

Definition route17 (c : case17) : option (list out) :=
  match c.(a_api) with
  | ApiDefvjp => defvjp_route (make_dict c.(a_argnums_kw) c.(a_makers)) c.(a_diff)
  | ApiArgnum | ApiArgnums =>
    match c.(a_makers) with
    | ERule r :: _ => defvjp_argnum_route r c.(a_diff)
    | _ => None
    end
  end.

Fixpoint zlist_eqb (a b : list Z) : bool :=
  match a, b with
  | [], [] => true
  | x :: a', y :: b' => Z.eqb x y && zlist_eqb a' b'
  | _, _ => false
  end.

Definition check17 (c : case17) : nat :=
  if negb c.(a_contract_ok) then 2%nat else
  match route17 c, c.(a_impl) with
  | Some outs, Some vals =>
    if zlist_eqb (map (out_val c.(a_g)) outs) vals then 0%nat else 2%nat
  | None, None => 0%nat
  | _, _ => 2%nat
  end.

(* forward mode: the primitive is the product of its arguments *)
Record case17j := {
  j_entries : list (nat * jentry);
  j_linear : bool;                      (* registered through def_linear *)
  j_xs : list Z;
  j_diff : list nat;
  j_ts : list Z;                        (* tangents of the differentiated positions *)
  j_impl : option Z
}.

Fixpoint prod_except (xs : list Z) (i a : nat) : Z :=
  match xs with
  | [] => 1
  | x :: r => (if Nat.eqb i a then 1 else x) * prod_except r (S i) a
  end.

Definition jout_val (xs : list Z) (t : Z) (o : jout) : Z :=
  match o with
  | JORule r _ => code r * t
  | JOSame a => prod_except xs 0 a * t
  | JOZero _ => 0
  end.

Definition check17j (c : case17j) : nat :=
  let route := if c.(j_linear) then def_linear_route c.(j_diff)
               else defjvp_route c.(j_entries) c.(j_diff) in
  match route, c.(j_impl) with
  | Some outs, Some v =>
    if Z.eqb (fold_right Z.add 0 (map (fun ot => jout_val c.(j_xs) (snd ot) (fst ot))
                                      (combine outs c.(j_ts)))) v
    then 0%nat else 2%nat
  | None, None => 0%nat
  | _, _ => 2%nat
  end.
