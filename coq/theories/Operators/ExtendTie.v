(* The registration model of C17 (Operators/Extend.v: the dictionary defvjp builds and the three branches of its
   vjp_argnums) is what the translator reads off core.defvjp on this run (coq/gen/GenExtend.v): which dictionary entry
   produces which position of the tuple a node's vjp returns. *)
From Coq Require Import List Arith Bool.
Import ListNotations.
From AG Require Import Extend.
From AGGen Require Import GenExtend.

Theorem make_dict_follows_source argnums makers : make_dict argnums makers = gen_make_dict argnums makers.
Proof. reflexivity. Qed.

Theorem defvjp_route_follows_source d argnums : defvjp_route d argnums = gen_defvjp_route d argnums.
Proof.
  destruct argnums as [|a [|b [|c r]]]; try reflexivity.
  - unfold gen_defvjp_route, gen_route_one, gen_pick. simpl. destruct (dget a d); reflexivity.
  - unfold gen_defvjp_route, gen_route_two, gen_pick. simpl.
    destruct (dget a d); [|reflexivity]. simpl. destruct (dget b d); reflexivity.
Qed.

(* forward mode: the dictionary, the contributions of defjvp / defjvp_argnum / def_linear, and the space whose zero a None
   entry stands for in either mode *)
Theorem forward_tables_follow_source :
  (forall argnums makers, jmake_dict argnums makers = gen_jmake_dict argnums makers)
  /\ (forall d argnums, defjvp_route d argnums = gen_defjvp_route d argnums)
  /\ (forall rid argnums, defjvp_argnum_route rid argnums = gen_defjvp_argnum_route rid argnums)
  /\ (forall argnums, def_linear_route argnums = gen_def_linear_route argnums)
  /\ none_vjp_zero = gen_none_vjp_zero /\ none_jvp_zero = gen_none_jvp_zero.
Proof. repeat split; reflexivity. Qed.
