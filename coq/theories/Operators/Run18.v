(* Executable (rational) decision procedure for scalar_close, proved equivalent
   to the real-number definition, and the correspondence checker for C18. *)
From Coq Require Import Reals Lra QArith Qreals List ZArith.
Import ListNotations.
From AG Require Import Checker.

Definition qTOL : Q := 1 # 1000000.

(* |d| < tol  <->  d^2 < tol^2 ;  |d| / |s| < tol  <->  s <> 0 /\ d^2 < tol^2 s^2 *)
Definition scalar_close_q (a b : Q) : bool :=
  let d := (a - b)%Q in let s := (a + b)%Q in
  (if Qlt_le_dec (d * d) (qTOL * qTOL) then true else false)
  || (negb (Qeq_bool s 0) && (if Qlt_le_dec (d * d) (qTOL * qTOL * (s * s)) then true else false)).

Local Open Scope R_scope.

Lemma abs_lt_sq x t : 0 < t -> (Rabs x < t <-> x * x < t * t).
Proof.
  intros Ht. split; intros H.
  - assert (E : x * x = Rabs x * Rabs x) by (unfold Rabs; destruct (Rcase_abs x); ring).
    rewrite E. pose proof (Rabs_pos x). nra.
  - destruct (Rlt_dec (Rabs x) t) as [L|L]; [exact L|]. exfalso.
    assert (E : x * x = Rabs x * Rabs x) by (unfold Rabs; destruct (Rcase_abs x); ring).
    rewrite E in H. pose proof (Rabs_pos x). nra.
Qed.

Lemma Q2R_TOL : Q2R qTOL = TOL.
Proof. unfold Q2R, qTOL, TOL. simpl. lra. Qed.

Theorem scalar_close_q_correct a b :
  scalar_close_q a b = true <-> scalar_close (Q2R a) (Q2R b).
Proof.
  unfold scalar_close_q, scalar_close.
  set (d := (a - b)%Q). set (s := (a + b)%Q).
  assert (Hd : Q2R d = Q2R a - Q2R b) by (unfold d; apply Q2R_minus).
  assert (Hs : Q2R s = Q2R a + Q2R b) by (unfold s; apply Q2R_plus).
  assert (Tpos : 0 < TOL) by (unfold TOL; lra).
  rewrite <- Hd, <- Hs. fold RTOL. unfold RTOL. fold TOL.
  rewrite Bool.orb_true_iff, Bool.andb_true_iff, Bool.negb_true_iff.
  assert (A : (if Qlt_le_dec (d * d) (qTOL * qTOL) then true else false) = true <-> Rabs (Q2R d) < TOL).
  { rewrite (abs_lt_sq _ _ Tpos). rewrite <- Q2R_TOL, <- !Q2R_mult.
    destruct (Qlt_le_dec (d * d) (qTOL * qTOL)) as [L|L]; split; intros H; try reflexivity; try discriminate.
    - now apply Qlt_Rlt.
    - apply Qle_Rle in L. lra. }
  assert (B : Qeq_bool s 0 = false <-> Q2R s <> 0).
  { split.
    - intros H E. assert (Qeq s 0) by (apply eqR_Qeq; rewrite E; unfold Q2R; simpl; lra).
      apply Qeq_bool_iff in H0. congruence.
    - intros H. destruct (Qeq_bool s 0) eqn:E; [|reflexivity]. exfalso. apply H.
      apply Qeq_bool_iff in E. apply Qeq_eqR in E. rewrite E. unfold Q2R. simpl. lra. }
  assert (C : Q2R s <> 0 ->
              ((if Qlt_le_dec (d * d) (qTOL * qTOL * (s * s)) then true else false) = true
               <-> Rabs (Q2R d) / Rabs (Q2R s) < TOL)).
  { intros Hnz. assert (Hp : 0 < Rabs (Q2R s)) by now apply Rabs_pos_lt.
    assert (E1 : Rabs (Q2R d) / Rabs (Q2R s) < TOL <-> Rabs (Q2R d) < TOL * Rabs (Q2R s)).
    { split; intros H.
      - apply Rmult_lt_compat_r with (r := Rabs (Q2R s)) in H; [|exact Hp].
        unfold Rdiv in H. rewrite Rmult_assoc, Rinv_l in H by lra. lra.
      - unfold Rdiv. apply Rmult_lt_reg_r with (Rabs (Q2R s)); [exact Hp|].
        rewrite Rmult_assoc, Rinv_l by lra. lra. }
    rewrite E1. rewrite (abs_lt_sq _ (TOL * Rabs (Q2R s))) by nra.
    assert (E2 : TOL * Rabs (Q2R s) * (TOL * Rabs (Q2R s)) = Q2R (qTOL * qTOL * (s * s))).
    { rewrite !Q2R_mult, Q2R_TOL.
      assert (Rabs (Q2R s) * Rabs (Q2R s) = Q2R s * Q2R s) by (unfold Rabs; destruct (Rcase_abs (Q2R s)); ring).
      nra. }
    rewrite E2, <- Q2R_mult.
    destruct (Qlt_le_dec (d * d) (qTOL * qTOL * (s * s))) as [L|L]; split; intros H; try reflexivity; try discriminate.
    - now apply Qlt_Rlt.
    - apply Qle_Rle in L. lra. }
  split.
  - intros [H|[H1 H2]]; [left; now apply A|right]. apply B in H1. split; [exact H1|]. now apply C.
  - intros [H|[H1 H2]]; [left; now apply A|right]. split; [now apply B|]. now apply C.
Qed.

(* correspondence: the implementation's scalar_close on two floats, given exactly as rationals *)
Record case18 := { w_a : Q; w_b : Q; w_impl : bool }.
Definition check18 (c : case18) : nat :=
  if Bool.eqb (scalar_close_q c.(w_a) c.(w_b)) c.(w_impl) then 0%nat else 2%nat.
