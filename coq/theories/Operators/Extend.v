(* L6: model of the registration APIs of autograd/core.py (defvjp with its
   three code paths, None entries and argnums=; defvjp_argnum; defvjp_argnums;
   defjvp with 'same'/None; defjvp_argnum; def_linear) as routing tables:
   which registered rule is invoked for which differentiated argument.  Rules
   themselves are opaque (identified by a rule id). *)
From Coq Require Import List Arith Bool Lia.
Import ListNotations.

Inductive entry := ERule (rid : nat) | ENone.       (* a callable | None *)
Definition rdict := list (nat * entry).             (* dict argnum -> entry, insertion order *)

(* {argnum: translate(maker) for argnum, maker in zip(argnums, makers)};
   argnums defaults to count() *)
Definition make_dict (argnums : option (list nat)) (makers : list entry) : rdict :=
  combine (match argnums with Some l => l | None => seq 0 (length makers) end) makers.

(* dict lookup: a later insertion of the same key overwrites an earlier one *)
Fixpoint dget (k : nat) (d : rdict) : option entry :=
  match d with
  | [] => None
  | (k', e) :: r =>
    match dget k r with
    | Some e' => Some e'
    | None => if Nat.eqb k' k then Some e else None
    end
  end.

(* what reaches the differentiated argument `argnum` *)
Inductive out :=
| ORule (rid argnum : nat)   (* rule rid called with (ans, *args, **kwargs), then g; for defvjp_argnum also argnum *)
| OZero (argnum : nat).      (* vspace(args[argnum]).zeros() *)

Definition mk (a : nat) (e : entry) : out :=
  match e with ERule r => ORule r a | ENone => OZero a end.

Fixpoint mapM {A B} (f : A -> option B) (l : list A) : option (list B) :=
  match l with
  | [] => Some []
  | x :: r => match f x, mapM f r with
              | Some y, Some ys => Some (y :: ys)
              | _, _ => None
              end
  end.

(* vjp_argnums of defvjp: L == 1, L == 2 and the generic path; None = raises *)
Definition defvjp_route (d : rdict) (argnums : list nat) : option (list out) :=
  match argnums with
  | [a] => match dget a d with Some e => Some [mk a e] | None => None end
  | [a; b] =>
    match dget a d, dget b d with
    | Some e1, Some e2 => Some [mk a e1; mk b e2]
    | _, _ => None
    end
  | _ => mapM (fun a => option_map (mk a) (dget a d)) argnums
  end.

(* defvjp_argnum(fun, maker): one maker, called once per differentiated argnum *)
Definition defvjp_argnum_route (rid : nat) (argnums : list nat) : option (list out) :=
  Some (map (fun a => ORule rid a) argnums).

(* forward mode: the tangent is the sum over the differentiated argnums of the
   contributions below; 'same' = the primitive itself applied with g in place
   of the argument *)
Inductive jentry := JRule (rid : nat) | JSame | JNone.
Inductive jout := JORule (rid argnum : nat) | JOSame (argnum : nat) | JOZero (argnum : nat).
Definition jdict := list (nat * jentry).

Fixpoint jget (k : nat) (d : jdict) : option jentry :=
  match d with
  | [] => None
  | (k', e) :: r =>
    match jget k r with
    | Some e' => Some e'
    | None => if Nat.eqb k' k then Some e else None
    end
  end.

Definition jmk (a : nat) (e : jentry) : jout :=
  match e with JRule r => JORule r a | JSame => JOSame a | JNone => JOZero a end.

Definition jmake_dict (argnums : option (list nat)) (makers : list jentry) : jdict :=
  combine (match argnums with Some l => l | None => seq 0 (length makers) end) makers.

(* a None entry stands for the zero of: the ARGUMENT's space in reverse mode (OZero a = vspace(args[a]).zeros()),
   the OUTPUT's space in forward mode (JOZero a = vspace(ans).zeros()) *)
Inductive zero_space := ZOfArgument | ZOfOutput.
Definition none_vjp_zero : zero_space := ZOfArgument.
Definition none_jvp_zero : zero_space := ZOfOutput.

(* defjvp_argnum(fun, maker): one maker, called once per differentiated argnum with its tangent *)
Definition defjvp_argnum_route (rid : nat) (argnums : list nat) : option (list jout) :=
  Some (map (fun a => JORule rid a) argnums).

(* defjvp: jvps_dict[argnum] for each differentiated argnum (KeyError if missing) *)
Definition defjvp_route (d : jdict) (argnums : list nat) : option (list jout) :=
  mapM (fun a => option_map (jmk a) (jget a d)) argnums.

(* def_linear = defjvp_argnum with the 'same' rule for every argnum *)
Definition def_linear_route (argnums : list nat) : option (list jout) :=
  Some (map JOSame argnums).

(* ---------------- theorems ---------------- *)
Lemma mapM_nth {A B} (f : A -> option B) : forall l outs k a,
    mapM f l = Some outs -> nth_error l k = Some a ->
    exists o, f a = Some o /\ nth_error outs k = Some o.
Proof.
  induction l as [|x r IH]; intros outs k a H Hk; [destruct k; discriminate|].
  simpl in H. destruct (f x) as [y|] eqn:Ex; [|discriminate].
  destruct (mapM f r) as [ys|] eqn:Er; [|discriminate]. inversion H; subst.
  destruct k as [|k]; simpl in *.
  - inversion Hk; subst. eauto.
  - eapply IH; eauto.
Qed.

Lemma mapM_none {A B} (f : A -> option B) : forall l,
    mapM f l = None <-> exists a, In a l /\ f a = None.
Proof.
  induction l as [|x r IH]; simpl.
  - split; [discriminate|intros (a & [] & _)].
  - destruct (f x) as [y|] eqn:Ex.
    + destruct (mapM f r) as [ys|] eqn:Er.
      * split; [discriminate|]. intros (a & [<-|Hin] & Ha); [congruence|].
        destruct IH as [_ IH2]. discriminate IH2. eauto.
      * split; [|reflexivity]. intros _.
        destruct IH as [IH1 _]. destruct (IH1 eq_refl) as (a & Hin & Ha). eauto.
    + split; [|reflexivity]. intros _. exists x. auto.
Qed.

(* the three code paths of defvjp agree with the generic one *)
Theorem defvjp_route_generic d argnums :
  defvjp_route d argnums = mapM (fun a => option_map (mk a) (dget a d)) argnums.
Proof.
  destruct argnums as [|a [|b [|c r]]]; try reflexivity.
  - simpl. destruct (dget a d); reflexivity.
  - simpl. destruct (dget a d); [|reflexivity]. simpl. destruct (dget b d); reflexivity.
Qed.

(* routing: for every arity and every list of differentiated positions, the
   k-th returned cotangent is produced by the entry registered for argnums[k]
   (the rule, or zeros for None); the call raises iff some position has none *)
Theorem defvjp_routing d argnums :
  (forall outs k a, defvjp_route d argnums = Some outs -> nth_error argnums k = Some a ->
                    exists e, dget a d = Some e /\ nth_error outs k = Some (mk a e))
  /\ (defvjp_route d argnums = None <-> exists a, In a argnums /\ dget a d = None).
Proof.
  rewrite defvjp_route_generic. split.
  - intros outs k a H Hk.
    destruct (mapM_nth _ _ _ _ _ H Hk) as (o & Ho & Hn).
    destruct (dget a d) as [e|]; [|discriminate]. simpl in Ho. inversion Ho; subst. eauto.
  - rewrite mapM_none. split; intros (a & Hin & Ha); exists a; split; auto.
    + destruct (dget a d); [discriminate|reflexivity].
    + now rewrite Ha.
Qed.

Theorem defjvp_routing d argnums :
  (forall outs k a, defjvp_route d argnums = Some outs -> nth_error argnums k = Some a ->
                    exists e, jget a d = Some e /\ nth_error outs k = Some (jmk a e))
  /\ (defjvp_route d argnums = None <-> exists a, In a argnums /\ jget a d = None).
Proof.
  unfold defjvp_route. split.
  - intros outs k a H Hk.
    destruct (mapM_nth _ _ _ _ _ H Hk) as (o & Ho & Hn).
    destruct (jget a d) as [e|]; [|discriminate]. simpl in Ho. inversion Ho; subst. eauto.
  - rewrite mapM_none. split; intros (a & Hin & Ha); exists a; split; auto.
    + destruct (jget a d); [discriminate|reflexivity].
    + now rewrite Ha.
Qed.

(* with the default argnums (count()), the k-th maker is registered for position k *)
Theorem make_dict_default makers k e :
  nth_error makers k = Some e -> dget k (make_dict None makers) = Some e.
Proof.
  unfold make_dict.
  assert (G : forall off ms k e, nth_error ms k = Some e ->
                                 dget (off + k) (combine (seq off (length ms)) ms) = Some e
                                 /\ forall j, j < off -> dget j (combine (seq off (length ms)) ms) = None).
  { intros off ms. revert off. induction ms as [|m r IH]; intros off k0 e0 Hk; [destruct k0; discriminate|].
    simpl. destruct k0 as [|k0]; simpl in Hk.
    - inversion Hk; subst. split.
      + assert (Hn : dget (off + 0) (combine (seq (S off) (length r)) r) = None).
        { clear. assert (forall o j (l : list entry), j < o -> dget j (combine (seq o (length l)) l) = None).
          { intros o j l. revert o. induction l as [|x l IHl]; intros o Hj; simpl; [reflexivity|].
            rewrite IHl by lia. assert (Nat.eqb o j = false) by (apply Nat.eqb_neq; lia). now rewrite H. }
          apply H. lia. }
        rewrite Hn. rewrite Nat.add_0_r, Nat.eqb_refl. reflexivity.
      + intros j Hj.
        assert (forall o j (l : list entry), j < o -> dget j (combine (seq o (length l)) l) = None).
        { intros o j0 l. revert o. induction l as [|x l IHl]; intros o Hj0; simpl; [reflexivity|].
          rewrite IHl by lia. assert (Nat.eqb o j0 = false) by (apply Nat.eqb_neq; lia). now rewrite H. }
        rewrite H by lia. assert (Nat.eqb off j = false) by (apply Nat.eqb_neq; lia). now rewrite H0.
    - destruct (IH (S off) k0 e0 Hk) as [I1 I2]. split.
      + replace (off + S k0) with (S off + k0) by lia. now rewrite I1.
      + intros j Hj. rewrite I2 by lia.
        assert (Nat.eqb off j = false) by (apply Nat.eqb_neq; lia). now rewrite H. }
  intros H. destruct (G 0 makers k e H) as [G1 _]. exact G1.
Qed.
