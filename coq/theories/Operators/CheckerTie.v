(* The thresholds and the comparison of the model of autograd.test_util (Operators/Checker.v, Run18.v) are the ones the
   translator reads off the source on this run (coq/gen/GenChecker.v): TOL and RTOL as exact decimals, scalar_close as an
   expression over the rationals - proved equivalent to the real-number definition about which C18's theorems are stated,
   and equal to the decision procedure the correspondence run uses. *)
From Coq Require Import Reals Lra QArith Qabs Qreals Bool.
From AG Require Import Checker Run18.
From AGGen Require Import GenChecker.
Local Open Scope R_scope.

Lemma Q2R_Qabs x : Q2R (Qabs x) = Rabs (Q2R x).
Proof.
  destruct (Qlt_le_dec x 0) as [L|L].
  - rewrite (Qeq_eqR _ _ (Qabs_neg x (Qlt_le_weak _ _ L))). rewrite Q2R_opp.
    apply Qlt_Rlt in L. replace (Q2R 0) with 0 in L by (unfold Q2R; simpl; lra).
    rewrite Rabs_left by assumption. reflexivity.
  - rewrite (Qeq_eqR _ _ (Qabs_pos x L)).
    apply Qle_Rle in L. replace (Q2R 0) with 0 in L by (unfold Q2R; simpl; lra).
    rewrite Rabs_right by lra. reflexivity.
Qed.

Lemma qltb_iff x y : qltb x y = true <-> Q2R x < Q2R y.
Proof.
  unfold qltb. destruct (Qlt_le_dec x y) as [L|L]; split; intros H; try reflexivity; try discriminate.
  - now apply Qlt_Rlt.
  - apply Qle_Rle in L. lra.
Qed.

Theorem thresholds_follow_source : Q2R gen_TOL = TOL /\ Q2R gen_RTOL = RTOL /\ gen_TOL = qTOL /\ gen_numerical_jvp = GenCentral.
Proof. repeat split; try reflexivity; unfold Q2R, gen_TOL, gen_RTOL, TOL, RTOL; simpl; lra. Qed.

Theorem scalar_close_follows_source a b :
  gen_scalar_close a b = true <-> scalar_close (Q2R a) (Q2R b).
Proof.
  unfold gen_scalar_close, scalar_close.
  destruct thresholds_follow_source as (HT & HR & _).
  rewrite orb_true_iff, andb_true_iff, negb_true_iff, !qltb_iff.
  rewrite Q2R_Qabs, Q2R_minus, HT.
  assert (Hz : Qeq_bool (Qabs (a + b)) 0 = false <-> Q2R a + Q2R b <> 0).
  { split.
    - intros H E. apply Qeq_bool_neq in H. apply H. apply eqR_Qeq.
      rewrite Q2R_Qabs, Q2R_plus, E, Rabs_R0. unfold Q2R; simpl; lra.
    - intros H. destruct (Qeq_bool (Qabs (a + b)) 0) eqn:E; [|reflexivity]. exfalso. apply H.
      apply Qeq_bool_eq in E. apply Qeq_eqR in E. rewrite Q2R_Qabs, Q2R_plus in E.
      replace (Q2R 0) with 0 in E by (unfold Q2R; simpl; lra).
      destruct (Req_dec (Q2R a + Q2R b) 0) as [Z|Z]; [exact Z|]. apply Rabs_no_R0 in Z. contradiction. }
  split.
  - intros [H|[Hn H]]; [now left|right]. apply Hz in Hn. split; [exact Hn|].
    rewrite Q2R_div in H.
    + rewrite !Q2R_Qabs, Q2R_minus, Q2R_plus, HR in H. exact H.
    + intros E. apply Qeq_eqR in E. rewrite Q2R_Qabs, Q2R_plus in E.
      replace (Q2R 0) with 0 in E by (unfold Q2R; simpl; lra). apply Rabs_no_R0 in Hn. contradiction.
  - intros [H|[Hn H]]; [now left|right]. split; [now apply Hz|].
    rewrite Q2R_div.
    + rewrite !Q2R_Qabs, Q2R_minus, Q2R_plus, HR. exact H.
    + intros E. apply Qeq_eqR in E. rewrite Q2R_Qabs, Q2R_plus in E.
      replace (Q2R 0) with 0 in E by (unfold Q2R; simpl; lra). apply Rabs_no_R0 in Hn. contradiction.
Qed.

(* hence the decision procedure of the correspondence run (squares instead of absolute values) decides what the source's
   expression decides *)
Corollary run18_procedure_is_the_source_expression a b : scalar_close_q a b = gen_scalar_close a b.
Proof.
  destruct (scalar_close_q a b) eqn:E1; destruct (gen_scalar_close a b) eqn:E2; try reflexivity.
  - apply scalar_close_q_correct in E1. apply scalar_close_follows_source in E1. congruence.
  - apply scalar_close_follows_source in E2. apply scalar_close_q_correct in E2. congruence.
Qed.
