(* C16, the ground truth: for the quadratic polynomial maps of Run16.v (any number of inputs and outputs, any integer
   coefficients) the formal Jacobian Jp and Hessian Hp that `expected` contracts ARE the derivatives of the value map evalf:
   an exact second-order Taylor identity, for every displacement.  Consequences: the gradient map is affine with Jacobian Hp
   (hessian = jacobian of the gradient; the Hessian-vector product is the displacement of the gradient), Hp is symmetric,
   and the restriction of the map to one argument position has the corresponding Jacobian column as its derivative. *)
From Coq Require Import List Arith Bool ZArith Lia.
Import ListNotations.
From AG Require Import Operators Run16.
Local Open Scope Z_scope.

Lemma zsum_unfold n f : zsum n f = fold_right Z.add 0 (map f (seq 0 n)).
Proof. unfold zsum, sumn. induction (map f (seq 0 n)) as [|a l IH]; simpl; [reflexivity|]. now rewrite IH. Qed.

Lemma zsum_ext n f g : (forall j, (j < n)%nat -> f j = g j) -> zsum n f = zsum n g.
Proof.
  intros H. rewrite !zsum_unfold. f_equal. apply map_ext_in. intros j Hj. apply in_seq in Hj. apply H. lia.
Qed.

Lemma fr_add (f g : nat -> Z) l :
  fold_right Z.add 0 (map (fun j => f j + g j) l) = fold_right Z.add 0 (map f l) + fold_right Z.add 0 (map g l).
Proof. induction l as [|a l IH]; simpl; [reflexivity|]. rewrite IH. ring. Qed.

Lemma zsum_add n f g : zsum n (fun j => f j + g j) = zsum n f + zsum n g.
Proof. rewrite !zsum_unfold. apply fr_add. Qed.

Lemma fr_scale c (f : nat -> Z) l : fold_right Z.add 0 (map (fun j => c * f j) l) = c * fold_right Z.add 0 (map f l).
Proof. induction l as [|a l IH]; simpl; [ring|]. rewrite IH. ring. Qed.

Lemma zsum_scale n c f : zsum n (fun j => c * f j) = c * zsum n f.
Proof. rewrite !zsum_unfold. apply fr_scale. Qed.

Lemma zsum_scale_r n c f : zsum n (fun j => f j * c) = zsum n f * c.
Proof. rewrite Z.mul_comm, <- zsum_scale. apply zsum_ext. intros; ring. Qed.

Lemma zsum_zero n : zsum n (fun _ => 0) = 0.
Proof. rewrite zsum_unfold. induction (seq 0 n) as [|a l IH]; simpl; [reflexivity|exact IH]. Qed.

Lemma fr_swap (f : nat -> nat -> Z) l1 l2 :
  fold_right Z.add 0 (map (fun j => fold_right Z.add 0 (map (fun k => f j k) l2)) l1)
  = fold_right Z.add 0 (map (fun k => fold_right Z.add 0 (map (fun j => f j k) l1)) l2).
Proof.
  induction l1 as [|a l1 IH]; simpl.
  - induction l2 as [|b l2 IH2]; simpl; [reflexivity|]. now rewrite <- IH2.
  - rewrite IH. rewrite <- fr_add. reflexivity.
Qed.

Lemma zsum_swap n m (f : nat -> nat -> Z) :
  zsum n (fun j => zsum m (fun k => f j k)) = zsum m (fun k => zsum n (fun j => f j k)).
Proof.
  rewrite (zsum_unfold n), (zsum_unfold m).
  rewrite (map_ext _ (fun j => fold_right Z.add 0 (map (fun k => f j k) (seq 0 m)))) by (intros; apply zsum_unfold).
  rewrite fr_swap. apply f_equal. apply map_ext. intros k. symmetry. apply zsum_unfold.
Qed.

Lemma zsum_delta n (f : nat -> Z) i : (i < n)%nat -> zsum n (fun j => f j * (if Nat.eqb j i then 1 else 0)) = f i.
Proof.
  intros Hi. unfold zsum.
  pose proof (sum_delta Z 0 1 Z.add Z.mul Z.sub Z.opp Zth n 0 f i) as H. apply H. lia.
Qed.

Section Taylor.
  Variable p : poly.
  Notation n := (pn p).

  (* the second-order remainder: sum_jk b_ijk v_j v_k *)
  Definition Qp (v : nat -> Z) (i : nat) : Z := zsum n (fun j => zsum n (fun k => b_ p i j k * v j * v k)).

  (* EXACT Taylor expansion: for every point x, every displacement v (y = x + v on the n coordinates) and every output i,
       f_i(x + v) = f_i(x) + (J(x) v)_i + Q_i(v)                                                         *)
  Theorem taylor_exact (x y : list Z) (v : nat -> Z) (i : nat) :
    (forall j, (j < n)%nat -> zn y j = zn x j + v j) ->
    evalf p y i = evalf p x i + zsum n (fun j => Jp p x i j * v j) + Qp v i.
  Proof.
    intros Hy. unfold evalf, Jp, Qp.
    (* rewrite y as x + v under the sums *)
    rewrite (zsum_ext n (fun j => a_ p i j * zn y j) (fun j => a_ p i j * zn x j + a_ p i j * v j))
      by (intros j Hj; rewrite Hy by assumption; ring).
    rewrite (zsum_ext n (fun j => zsum n (fun k => b_ p i j k * zn y j * zn y k))
                      (fun j => (zsum n (fun k => b_ p i j k * zn x j * zn x k) + zsum n (fun k => b_ p i j k * zn x j * v k))
                                + (zsum n (fun k => b_ p i j k * v j * zn x k) + zsum n (fun k => b_ p i j k * v j * v k)))).
    2:{ intros j Hj. rewrite <- !zsum_add. apply zsum_ext. intros k Hk. rewrite !Hy by assumption. ring. }
    rewrite !zsum_add.
    (* the linear part: J v *)
    rewrite (zsum_ext n (fun j => (a_ p i j + zsum n (fun k => (b_ p i j k + b_ p i k j) * zn x k)) * v j)
                      (fun j => a_ p i j * v j + (zsum n (fun k => b_ p i j k * v j * zn x k) + zsum n (fun k => b_ p i k j * zn x k * v j)))).
    2:{ intros j Hj. rewrite Z.mul_add_distr_r. f_equal. rewrite <- zsum_scale_r, <- zsum_add. apply zsum_ext. intros; ring. }
    rewrite !zsum_add.
    rewrite (zsum_swap n n (fun j k => b_ p i k j * zn x k * v j)).
    ring.
  Qed.

  (* the linear part is linear and the remainder is quadratic, so J(x) is THE derivative: along t v,
       f_i(x + t v) = f_i(x) + t (J v)_i + t^2 Q_i(v)                                                   *)
  Theorem taylor_along_a_line (x y : list Z) (v : nat -> Z) (t : Z) (i : nat) :
    (forall j, (j < n)%nat -> zn y j = zn x j + t * v j) ->
    evalf p y i = evalf p x i + t * zsum n (fun j => Jp p x i j * v j) + t * t * Qp v i.
  Proof.
    intros Hy. rewrite (taylor_exact x y (fun j => t * v j) i Hy). unfold Qp.
    rewrite <- !zsum_scale. f_equal; [f_equal|].
    - apply zsum_ext. intros; ring.
    - apply zsum_ext. intros j Hj. rewrite <- zsum_scale. apply zsum_ext. intros; ring.
  Qed.

  (* the gradient map is affine and its Jacobian is Hp: hessian = jacobian of the gradient, and the Hessian-vector product
     is the displacement of the gradient *)
  Theorem gradient_displacement (x y : list Z) (v : nat -> Z) (i j : nat) :
    (forall k, (k < n)%nat -> zn y k = zn x k + v k) ->
    Jp p y i j = Jp p x i j + zsum n (fun k => Hp p i j k * v k).
  Proof.
    intros Hy. unfold Jp, Hp. rewrite <- Z.add_assoc. f_equal. rewrite <- zsum_add.
    apply zsum_ext. intros k Hk. rewrite Hy by assumption. ring.
  Qed.

  Theorem hessian_symmetric (i j k : nat) : Hp p i j k = Hp p i k j.
  Proof. unfold Hp. ring. Qed.

  (* the remainder is half the Hessian form: 2 Q_i(v) = v^T H_i v *)
  Theorem remainder_is_half_hessian_form (v : nat -> Z) (i : nat) :
    2 * Qp v i = zsum n (fun j => zsum n (fun k => Hp p i j k * v j * v k)).
  Proof.
    unfold Qp, Hp.
    rewrite (zsum_ext n (fun j => zsum n (fun k => (b_ p i j k + b_ p i k j) * v j * v k))
                      (fun j => zsum n (fun k => b_ p i j k * v j * v k) + zsum n (fun k => b_ p i k j * v j * v k)))
      by (intros j Hj; rewrite <- zsum_add; apply zsum_ext; intros; ring).
    rewrite zsum_add.
    rewrite (zsum_swap n n (fun j k => b_ p i k j * v j * v k)).
    rewrite (zsum_ext n (fun k => zsum n (fun j => b_ p i k j * v j * v k)) (fun k => zsum n (fun j => b_ p i k j * v k * v j)))
      by (intros k Hk; apply zsum_ext; intros; ring).
    ring.
  Qed.
End Taylor.
