(* Executable instance for the argument-selection algebra (Argnum.v): util.subvals on integer tuples, and what
   wrap_util.unary_to_nary hands to a unary operator - the point (args[argnum]) and the arguments its function argument
   passes on when called at a displaced point. *)
From Coq Require Import List Arith Bool ZArith.
Import ListNotations.
From AG Require Import Operators Run16 Argnum.
Local Open Scope Z_scope.

Record casesub := { s_x : list Z; s_ivs : list (nat * Z); s_impl : list Z }.
(* 0: util.subvals = the model; 1: they differ (the tie is broken) *)
Definition checksub (c : casesub) : nat :=
  if zl_eqb (subvals Z c.(s_x) c.(s_ivs)) c.(s_impl) then 0%nat else 1%nat.

Record casearg := { g_args : list Z; g_an : argnum; g_new : list Z;       (* displaced values for the selected positions *)
                    g_point : list Z;                                     (* what the operator received as x (flattened) *)
                    g_call : list Z }.                                    (* the arguments fun received for unary_f(new) *)
Definition model_point (args : list Z) (an : argnum) : list Z :=
  match an with AInt i => [nth i args 0] | ATuple idx => map (fun i => nth i args 0) idx end.
Definition model_call (args : list Z) (an : argnum) (new : list Z) : list Z :=
  match an with AInt i => subvals Z args [(i, nth 0 new 0)] | ATuple idx => subvals Z args (combine idx new) end.
(* the model is the statement of the property here ("changes only which argument is differentiated"): 2 on a difference *)
Definition checkarg (c : casearg) : nat :=
  if zl_eqb (model_point c.(g_args) c.(g_an)) c.(g_point) && zl_eqb (model_call c.(g_args) c.(g_an) c.(g_new)) c.(g_call)
  then 0%nat else 2%nat.
