(* L6: autograd/test_util.py - the decision of check_vjp / check_jvp /
   check_equivalent as a function of the two numbers it compares, over R. *)
From Coq Require Import Reals Lra.
Local Open Scope R_scope.

Definition TOL : R := / 1000000.
Definition RTOL : R := / 1000000.

(* scalar_close(a, b) = abs(a - b) < TOL or abs(a - b) / abs(a + b) < RTOL.
   On float64 a zero denominator gives inf (or nan), and `inf < RTOL` is False:
   the relative criterion can only hold when a + b <> 0 (Coq's x / 0 = 0 must
   not make it hold). *)
Definition scalar_close (a b : R) : Prop :=
  Rabs (a - b) < TOL \/ (a + b <> 0 /\ Rabs (a - b) / Rabs (a + b) < RTOL).

(* check_vjp compares  numeric = <y, (f(x + eps v/2) - f(x - eps v/2)) / eps>
   with exact = <v, vjp(y)>.  Write  numeric = t + r  where t = y^T J v is the
   true value and r the truncation/rounding remainder, and exact = t + e where
   e = y^T (J' - J) v is the defect of the registered rule J'. *)

(* a correct rule (e = 0) is accepted whenever the remainder is below TOL *)
Theorem accept_correct t r : Rabs r < TOL -> scalar_close (t + r) (t + 0).
Proof. intros H. left. replace (t + r - (t + 0)) with r by ring. exact H. Qed.

(* a correct rule is also accepted through the relative criterion *)
Theorem accept_correct_relative t r :
  Rabs r < RTOL * Rabs (2 * t + r) -> scalar_close (t + r) (t + 0).
Proof.
  intros H.
  assert (Hp : 0 < Rabs (2 * t + r)).
  { destruct (Rabs_pos (2 * t + r)) as [Hlt|Heq]; [exact Hlt|].
    rewrite <- Heq in H. rewrite Rmult_0_r in H. pose proof (Rabs_pos r). lra. }
  right. replace (t + r - (t + 0)) with r by ring.
  replace (t + r + (t + 0)) with (2 * t + r) by ring.
  split; [intros E; rewrite E, Rabs_R0 in Hp; lra|].
  unfold Rdiv. apply Rmult_lt_reg_r with (Rabs (2 * t + r)); [exact Hp|].
  rewrite Rmult_assoc, Rinv_l by lra. lra.
Qed.

(* a defective rule is rejected when its defect clears both thresholds by the
   size of the remainder *)
Theorem reject_region t r e :
  TOL + Rabs r <= Rabs e ->
  RTOL * Rabs (2 * t + r + e) + Rabs r <= Rabs e ->
  ~ scalar_close (t + r) (t + e).
Proof.
  intros H1 H2 [Ha|[Hnz Hr]].
  - replace (t + r - (t + e)) with (r - e) in Ha by ring.
    pose proof (Rabs_triang_inv e r) as T. rewrite Rabs_minus_sym in Ha. lra.
  - replace (t + r - (t + e)) with (r - e) in Hr by ring.
    replace (t + r + (t + e)) with (2 * t + r + e) in Hr by ring.
    pose proof (Rabs_triang_inv e r) as T. rewrite (Rabs_minus_sym r e) in Hr.
    destruct (Rabs_pos (2 * t + r + e)) as [Hp|Hz].
    + assert (Rabs (e - r) < RTOL * Rabs (2 * t + r + e)).
      { unfold Rdiv in Hr. apply Rmult_lt_compat_r with (r := Rabs (2 * t + r + e)) in Hr; [|exact Hp].
        rewrite Rmult_assoc, Rinv_l in Hr by lra. lra. }
      lra.
    + apply Hnz. replace (t + r + (t + e)) with (2 * t + r + e) by ring.
      destruct (Req_dec (2 * t + r + e) 0) as [E|E]; [exact E|].
      apply Rabs_pos_lt in E. lra.
Qed.

(* a rule that is off by the factor (1 + d):  e = d * t.  With no remainder it
   is rejected as soon as |d t| >= TOL and |d| >= RTOL |2 + d| *)
Corollary reject_wrong_factor t d :
  TOL <= Rabs (d * t) -> RTOL * Rabs (2 + d) <= Rabs d -> t <> 0 ->
  ~ scalar_close (t + 0) (t + d * t).
Proof.
  intros H1 H2 Ht. apply reject_region.
  - rewrite Rabs_R0. lra.
  - rewrite Rabs_R0. replace (2 * t + 0 + d * t) with ((2 + d) * t) by ring.
    rewrite !Rabs_mult. pose proof (Rabs_pos_lt t Ht) as Hp.
    rewrite <- Rmult_assoc. rewrite Rplus_0_r. apply Rmult_le_compat_r; lra.
Qed.

(* a rule with the wrong sign:  e = -2 t, rejected whenever |t| >= TOL / 2 *)
Corollary reject_wrong_sign t : TOL <= Rabs (2 * t) -> ~ scalar_close (t + 0) (t + (- 2 * t)).
Proof.
  intros H. apply reject_region; rewrite Rabs_R0.
  - replace (- 2 * t) with (- (2 * t)) by ring. rewrite Rabs_Ropp. lra.
  - replace (2 * t + 0 + - 2 * t) with 0 by ring. rewrite Rabs_R0.
    replace (- 2 * t) with (- (2 * t)) by ring. rewrite Rabs_Ropp. unfold TOL in H. lra.
Qed.
