(* C16, the argument-selection algebra of wrap_util.unary_to_nary / util.subvals: selecting the differentiated argument by
   position (one index, or a tuple of indices) only substitutes the differentiated value(s) at those positions; every other
   argument reaches the function untouched, and at the point of differentiation the function sees exactly the original
   arguments.  For every arity, every position list.  With PolyDeriv: the derivative of the restriction to position i is
   column i of the ground-truth Jacobian. *)
From Coq Require Import List Arith Bool ZArith Lia.
Import ListNotations.
From AG Require Import Operators Run16.
From AG Require Import PolyDeriv.

Section Subvals.
  Variable A : Type.
  Variable d : A.

  (* util.subval: x_ = list(x); x_[i] = v; tuple(x_)      (i < len x; Python raises IndexError otherwise) *)
  Fixpoint subval (x : list A) (i : nat) (v : A) : list A :=
    match x, i with
    | [], _ => []
    | _ :: r, O => v :: r
    | a :: r, S i' => a :: subval r i' v
    end.
  (* util.subvals: for i, v in ivs: x_[i] = v *)
  Definition subvals (x : list A) (ivs : list (nat * A)) : list A :=
    fold_left (fun acc iv => subval acc (fst iv) (snd iv)) ivs x.

  Lemma subval_length x i v : length (subval x i v) = length x.
  Proof. revert i; induction x as [|a r IH]; intros [|i]; simpl; auto. Qed.

  Lemma subval_same x i v : i < length x -> nth i (subval x i v) d = v.
  Proof. revert i; induction x as [|a r IH]; intros [|i] H; simpl in *; try lia; auto. apply IH. lia. Qed.

  Lemma subval_other x i j v : j <> i -> nth j (subval x i v) d = nth j x d.
  Proof.
    revert i j; induction x as [|a r IH]; intros [|i] [|j] H; simpl; auto; try congruence.
  Qed.

  Lemma subval_self x i : subval x i (nth i x d) = x.
  Proof. revert i; induction x as [|a r IH]; intros [|i]; simpl; auto. now rewrite IH. Qed.

  Lemma subvals_length x ivs : length (subvals x ivs) = length x.
  Proof.
    unfold subvals. revert x; induction ivs as [|[i v] ivs IH]; intros x; simpl; [reflexivity|].
    now rewrite IH, subval_length.
  Qed.

  (* positions that are not selected are untouched *)
  Theorem subvals_other x (idx : list nat) (xs : list A) j :
    ~ In j idx -> nth j (subvals x (combine idx xs)) d = nth j x d.
  Proof.
    unfold subvals. revert x xs; induction idx as [|i idx IH]; intros x xs Hj; simpl; [reflexivity|].
    destruct xs as [|v xs]; simpl; [reflexivity|].
    rewrite IH by (intro; apply Hj; now right). apply subval_other. intro; apply Hj; now left.
  Qed.

  (* a selected position (distinct indices, in range) receives its value *)
  Theorem subvals_at x (idx : list nat) (xs : list A) k :
    NoDup idx -> length xs = length idx -> (forall i, In i idx -> i < length x) -> k < length idx ->
    nth (nth k idx 0) (subvals x (combine idx xs)) d = nth k xs d.
  Proof.
    unfold subvals. revert x xs k; induction idx as [|i idx IH]; intros x xs k Hnd Hlen Hin Hk; simpl in *; [lia|].
    destruct xs as [|v xs]; simpl in *; [lia|]. inversion Hnd as [|? ? Hni Hnd']; subst.
    destruct k as [|k].
    - change (fold_left (fun acc iv => subval acc (fst iv) (snd iv)) (combine idx xs) (subval x i v)) with (subvals (subval x i v) (combine idx xs)).
      rewrite subvals_other by assumption. apply subval_same. apply Hin. now left.
    - apply IH; auto; try lia. intros i0 Hi0. rewrite subval_length. apply Hin. now right.
  Qed.

  (* at the point of differentiation (x = the selected arguments themselves) the function sees the original arguments *)
  Theorem subvals_self x (idx : list nat) :
    subvals x (combine idx (map (fun i => nth i x d) idx)) = x.
  Proof.
    unfold subvals. induction idx as [|i idx IH]; simpl; [reflexivity|]. now rewrite subval_self.
  Qed.

  (* unary_to_nary: the operator is applied to  unary_f = x |-> fun applied to subvals(args, ...)  at  x = args[argnum] *)
  Inductive argnum := AInt (i : nat) | ATuple (idx : list nat).
  Variables B C : Type.
  Definition nary_operator (op1 : (A -> B) -> A -> C) (opn : (list A -> B) -> list A -> C)
             (f : list A -> B) (an : argnum) (args : list A) : C :=
    match an with
    | AInt i => op1 (fun x => f (subvals args [(i, x)])) (nth i args d)
    | ATuple idx => opn (fun xs => f (subvals args (combine idx xs))) (map (fun i => nth i args d) idx)
    end.

  (* the function handed to the operator, evaluated at the point handed to the operator, is the n-ary call itself *)
  Theorem unary_f_at_point_is_the_call (f : list A -> B) args :
    (forall i, (fun x => f (subvals args [(i, x)])) (nth i args d) = f args)
    /\ (forall idx, (fun xs => f (subvals args (combine idx xs))) (map (fun i => nth i args d) idx) = f args).
  Proof.
    split; [intros i|intros idx]; simpl.
    - unfold subvals; simpl. now rewrite subval_self.
    - now rewrite subvals_self.
  Qed.
End Subvals.

(* with the ground truth of PolyDeriv: the restriction of a polynomial map to argument position i (the other coordinates
   fixed) has column i of the Jacobian as its derivative - so selecting position i "changes only which argument is
   differentiated" *)
Local Open Scope Z_scope.
Theorem restriction_derivative (p : poly) (x : list Z) (i r : nat) (h : Z) :
  (i < pn p)%nat -> (i < length x)%nat ->
  evalf p (subval Z x i (zn x i + h)) r = evalf p x r + h * Jp p x r i + h * h * b_ p r i i.
Proof.
  intros Hi Hl.
  rewrite (taylor_exact p x (subval Z x i (zn x i + h)) (fun j => if Nat.eqb j i then h else 0) r).
  - unfold Qp. f_equal; [f_equal|].
    + rewrite (zsum_ext _ _ (fun j => (Jp p x r j * h) * (if Nat.eqb j i then 1 else 0)))
        by (intros j Hj; destruct (Nat.eqb j i); ring).
      rewrite zsum_delta by assumption. ring.
    + rewrite (zsum_ext _ _ (fun j => (zsum (pn p) (fun k => b_ p r j k * h * (if Nat.eqb k i then h else 0))) * (if Nat.eqb j i then 1 else 0))).
      2:{ intros j Hj. destruct (Nat.eqb j i).
          - rewrite Z.mul_1_r. reflexivity.
          - rewrite Z.mul_0_r. transitivity (zsum (pn p) (fun _ => 0)); [apply zsum_ext; intros; ring | apply zsum_zero]. }
      rewrite zsum_delta by assumption.
      rewrite (zsum_ext _ _ (fun k => (b_ p r i k * h * h) * (if Nat.eqb k i then 1 else 0)))
        by (intros k Hk; destruct (Nat.eqb k i); ring).
      rewrite zsum_delta by assumption. ring.
  - intros j Hj. unfold zn. destruct (Nat.eqb_spec j i) as [->|Hne].
    + now rewrite subval_same.
    + rewrite subval_other by assumption. ring.
Qed.

(* the operators of `expected` that are stated through Hp are the corresponding derivatives of the gradient map *)
Theorem hvp_is_gradient_displacement (p : poly) (x y v : list Z) (j : nat) :
  (j < pn p)%nat -> (forall k, (k < pn p)%nat -> zn y k = zn x k + zn v k) ->
  nth j (expected p x (OHvp v)) 0 = Jp p y 0%nat j - Jp p x 0%nat j.
Proof.
  intros Hj Hy. rewrite (gradient_displacement p x y (zn v) 0%nat j Hy).
  unfold expected.
  rewrite (nth_indep _ 0 (matvec Z 0 Z.add Z.mul (pn p) (fun j0 k => Hp p 0%nat j0 k) (zn v) 0%nat))
    by (rewrite map_length, seq_length; lia).
  rewrite map_nth, seq_nth by lia. simpl. unfold matvec. fold (zsum (pn p) (fun j0 => Hp p 0%nat j j0 * zn v j0)). ring.
Qed.

Theorem hessian_entries_are_second_partials (p : poly) (x : list Z) (j k : nat) :
  (j < pn p)%nat -> (k < pn p)%nat ->
  nth (j * pn p + k) (expected p x OHess) 0 = Hp p 0%nat j k
  /\ nth (j * pn p + k) (expected p x OHess) 0 = nth (k * pn p + j) (expected p x OHess) 0.
Proof.
  intros Hj Hk. unfold expected.
  destruct (jacobian_entries Z 0 1 Z.add Z.mul Z.sub Z.opp Zth (pn p) (pn p) (fun a b => Hp p 0%nat a b) j k Hj Hk) as [E _].
  destruct (jacobian_entries Z 0 1 Z.add Z.mul Z.sub Z.opp Zth (pn p) (pn p) (fun a b => Hp p 0%nat a b) k j Hk Hj) as [E' _].
  rewrite E, E'. split; [reflexivity|apply hessian_symmetric].
Qed.
