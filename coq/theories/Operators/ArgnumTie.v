(* The argument-selection model (Operators/Argnum.v) is what the translator reads off util.subval / util.subvals and
   wrap_util.unary_to_nary on this run (coq/gen/GenArgnum.v). *)
From Coq Require Import List Arith.
Import ListNotations.
From AG Require Import Operators Run16 PolyDeriv Argnum.
From AGGen Require Import GenArgnum.

Section Tie.
  Variable A : Type.
  Variable d : A.

  Theorem subval_follows_source x i v : subval A x i v = gen_subval A x i v.
  Proof. reflexivity. Qed.

  Theorem subvals_follows_source x ivs : subvals A x ivs = gen_subvals A x ivs.
  Proof.
    unfold subvals, gen_subvals. revert x. induction ivs as [|[i v] ivs IH]; intros x; simpl; [reflexivity|].
    rewrite subval_follows_source. apply IH.
  Qed.

  Variables B C : Type.
  Definition to_gen (an : argnum) : gen_argnum := match an with AInt i => GInt i | ATuple idx => GSeq idx end.

  Theorem nary_operator_follows_source (op1 : (A -> B) -> A -> C) (opn : (list A -> B) -> list A -> C) f an args :
    nary_operator A d B C op1 opn f an args = gen_nary_operator A d B C op1 opn f (to_gen an) args.
  Proof. destruct an; reflexivity. Qed.
End Tie.
