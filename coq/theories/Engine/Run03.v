(* Executable instance of L1 over Z used by the C03 correspondence check:
   a tape is a list of nodes, each a list of (parent index, local partial). *)
From Coq Require Import List Arith Bool ZArith.
Import ListNotations.
From AG Require Import Toposort Backward.
Local Open Scope Z_scope.

Definition ztape := list (list (nat * Z)).

Definition zparents (t : ztape) (n : nat) : list nat := map fst (nth n t []).
Definition zcoef (t : ztape) (n k : nat) : Z := snd (nth k (nth n t []) (0%nat, 0)).
Definition zvjpk (t : ztape) (n k : nat) (g : Z) : Z := g * zcoef t n k.
Definition zjvpk (t : ztape) (n k : nat) (v : Z) : Z := zcoef t n k * v.

Definition run_toposort (t : ztape) (e : nat) : option (list nat) :=
  toposort (zparents t) e.

Definition run_backward (t : ztape) (e : nat) (g : Z) : option (Z * list nat) :=
  backward_pass Z Z.add (zparents t) (zvjpk t) g e.

Definition run_pathsum (t : ztape) (e : nat) (g : Z) : Z :=
  pathsum Z 0 Z.add (zparents t) (zvjpk t) e g.

Definition run_forward (t : ztape) (e : nat) (v : Z) : Z :=
  forward Z 0 Z.add (zparents t) (zjvpk t) e v.

(* --- the property itself, decided on one observed execution --- *)
Fixpoint memb (x : nat) (l : list nat) : bool :=
  match l with [] => false | y :: l' => Nat.eqb x y || memb x l' end.

Fixpoint nodupb (l : list nat) : bool :=
  match l with [] => true | x :: l' => negb (memb x l') && nodupb l' end.

(* every parent of every logged node is logged later; head is e;
   every logged node other than e has a consumer logged earlier *)
Fixpoint log_ok (t : ztape) (seen : list nat) (log : list nat) : bool :=
  match log with
  | [] => true
  | n :: rest =>
    forallb (fun p => memb p rest) (zparents t n)
    && (match seen with [] => true
        | _ => existsb (fun c => memb n (zparents t c)) seen end)
    && log_ok t (n :: seen) rest
  end.

Definition valid_log (t : ztape) (e : nat) (log : list nat) : bool :=
  match log with
  | [] => false
  | h :: _ => Nat.eqb h e && nodupb log && log_ok t [] log
  end.

Definition list_eqb (a b : list nat) : bool :=
  if list_eq_dec Nat.eq_dec a b then true else false.

Record case03 := {
  c_tape : ztape; c_end : nat; c_g : Z;
  i_grad : Z;            (* implementation: make_vjp(f)(x)[0](g) *)
  i_log : list nat;      (* implementation: order in which the rules of the
                            recorded operations ran (the root's empty rule,
                            always last, is not observable and is appended) *)
  i_jvp : Z;             (* implementation: make_jvp(f)(x)(g)[1] *)
}.

(* 0 = model, spec and implementation agree; 1 = the property holds on this
   execution but model and implementation differ (tie broken);
   2 = the property fails on this execution *)
Definition check03 (c : case03) : nat :=
  let spec := run_pathsum c.(c_tape) c.(c_end) c.(c_g) in
  let ilog := c.(i_log) ++ [0%nat] in
  let prop_ok := Z.eqb c.(i_grad) spec
                 && valid_log c.(c_tape) c.(c_end) ilog
                 && Z.eqb c.(i_jvp) spec in
  if negb prop_ok then 2%nat else
  match run_backward c.(c_tape) c.(c_end) c.(c_g) with
  | Some (r, log) =>
    if Z.eqb r c.(i_grad) && list_eqb log ilog
       && Z.eqb (run_forward c.(c_tape) c.(c_end) c.(c_g)) c.(i_jvp)
    then 0%nat else 1%nat
  | None => 1%nat
  end.

(* autograd.util.toposort called directly with explicit parent lists *)
Record case03t := { t_tape : list (list nat); t_end : nat; t_order : list nat }.

Definition check03t (c : case03t) : nat :=
  let t := map (map (fun p => (p, 1))) c.(t_tape) in
  if negb (valid_log t c.(t_end) c.(t_order)) then 2%nat else
  match toposort_tape c.(t_tape) c.(t_end) with
  | Some o => if list_eqb o c.(t_order) then 0%nat else 1%nat
  | None => 1%nat
  end.
