(* C10 at the level of the WHOLE backward pass.  The heap model of core.add_outgrads (Engine/Heap.v: buffers with
   identities; which branches write in place, allocate, alias) is run inside the loop of core.backward_pass (pop the node's
   cotangent, call its rule, accumulate into the parents), with derivative rules that may return their own cotangent, any
   buffer that existed before the pass (inputs, captured constants, residuals) or fresh arrays - in any mixture, the same
   buffer for several parents included.  Proved, for every order list, every graph, every such rule family:
     (refinement)  the pass returns exactly what the PURE pass (values only, Array/Index.v's add_outgrads, no identities)
                   returns, and fails exactly when it fails: the in-place updates are unobservable;
     (frame)       every buffer that existed before the pass is unchanged afterwards;
     (repetition)  a second pass run after the first, from the heap the first one left, returns the same value.
   The rule contract (a rule only allocates; it refers to its cotangent, to pre-existing buffers or to what it allocated; its
   values are a function of the cotangent's value) is a section hypothesis, shown satisfiable by an example. *)
From Coq Require Import List Arith Bool Lia.
Import ListNotations.
From AG Require Import VSpace VSpaceProof Index Heap.

Section Pass.
  Variable K : Type.
  Variables (k0 : K) (kadd : K -> K -> K).
  Variable n : nat.
  Variable parents : nat -> list nat.
  Notation heap := (Heap.heap K).
  Notation read := (Heap.read K).

  Definition fmap (V : Type) := nat -> option V.
  Definition fupd {V} (m : fmap V) (k : nat) (v : option V) : fmap V := fun x => if Nat.eqb x k then v else m x.

  Definition cref (c : hcontrib) : nat := match c with HDense r => r | HSparse _ gr => gr end.
  Definition cval (h : heap) (c : hcontrib) : contrib K :=
    match c with HDense r => Dense K (read h r) | HSparse s gr => Sparse K s (read h gr) end.
  Definition absv (h : heap) (e : nat * bool) : list K * bool := (read h (fst e), snd e).

  (* for parent, ingrad in zip(node.parents, ingrads): outgrads[parent] = add_outgrads(outgrads.get(parent), ingrad) *)
  Fixpoint acc_h (ps : list nat) (cs : list hcontrib) (og : fmap (nat * bool)) (h : heap) : fmap (nat * bool) * heap :=
    match ps, cs with
    | p :: ps', c :: cs' =>
      let '(pf, h1) := add_outgrads_h K k0 kadd n (og p) c h in acc_h ps' cs' (fupd og p (Some pf)) h1
    | _, _ => (og, h)
    end.
  Fixpoint acc_p (ps : list nat) (cs : list (contrib K)) (og : fmap (list K * bool)) : fmap (list K * bool) :=
    match ps, cs with
    | p :: ps', c :: cs' => acc_p ps' cs' (fupd og p (Some (Index.add_outgrads K k0 kadd n (og p) c)))
    | _, _ => og
    end.

  (* node.vjp on the heap: given the heap and the reference of the cotangent, returns one contribution per parent, after
     possibly allocating; and its value-level meaning *)
  Variable ruleh : nat -> heap -> nat -> list hcontrib * heap.
  Variable rulep : nat -> list K -> list (contrib K).

  (* for node in order: outgrad = outgrads.pop(node); ingrads = node.vjp(outgrad[0]); accumulate; return outgrad[0] *)
  Fixpoint pass_h (order : list nat) (og : fmap (nat * bool)) (h : heap) (last : option (list K)) : option (list K * heap) :=
    match order with
    | [] => match last with Some v => Some (v, h) | None => None end
    | nd :: rest =>
      match og nd with
      | None => None
      | Some (g, _) =>
        let '(cs, h1) := ruleh nd h g in
        let '(og', h2) := acc_h (parents nd) cs (fupd og nd None) h1 in
        pass_h rest og' h2 (Some (read h g))
      end
    end.
  Fixpoint pass_p (order : list nat) (og : fmap (list K * bool)) (last : option (list K)) : option (list K) :=
    match order with
    | [] => last
    | nd :: rest =>
      match og nd with
      | None => None
      | Some (g, _) => pass_p rest (acc_p (parents nd) (rulep nd g) (fupd og nd None)) (Some g)
      end
    end.

  (* ------------------------------------------------------------------ one accumulation step ---- *)
  Lemma read_app_old (h : heap) ext r : r < length h -> read (h ++ ext) r = read h r.
  Proof. intros H. unfold Heap.read. now rewrite app_nth1. Qed.

  Lemma read_app_new (h : heap) v : read (h ++ [v]) (length h) = v.
  Proof. unfold Heap.read. rewrite app_nth2 by lia. now rewrite Nat.sub_diag. Qed.

  Lemma step_sim prev c h pf h1 :
    (forall q f, prev = Some (q, f) -> q < length h) -> cref c < length h ->
    add_outgrads_h K k0 kadd n prev c h = (pf, h1) ->
    Index.add_outgrads K k0 kadd n (option_map (absv h) prev) (cval h c) = absv h1 pf
    /\ (forall r, r < length h -> (forall q, prev = Some (q, true) -> r <> q) -> read h1 r = read h r)
    /\ length h <= length h1 /\ fst pf < length h1
    /\ (snd pf = true -> prev = Some (fst pf, true) \/ length h <= fst pf)
    /\ (snd pf = false -> prev = None /\ fst pf = cref c).
  Proof.
    intros Hq Hc H.
    destruct prev as [[p [|]]|]; destruct c as [r|s gr]; simpl in H, Hc; inversion H; subst; clear H;
      unfold absv, cval; simpl fst; simpl snd; simpl option_map; cbn [Index.add_outgrads];
      rewrite ?(Heap.write_length K), ?app_length; simpl length;
      try (assert (Hp : p < length h) by (eapply Hq; reflexivity));
      (split; [|split; [|split; [lia|split; [lia|split; [intros Ht; try discriminate Ht|intros Hf; try discriminate Hf]]]]]).
    (* owned, dense: in place *)
    - now rewrite (Heap.read_write_same K) by assumption.
    - intros r0 Hr Hne. apply (Heap.read_write_other K). apply Hne. reflexivity.
    - now left.
    (* owned, sparse: in place *)
    - now rewrite (Heap.read_write_same K) by assumption.
    - intros r0 Hr Hne. apply (Heap.read_write_other K). apply Hne. reflexivity.
    - now left.
    (* not owned, dense: a fresh sum *)
    - now rewrite read_app_new.
    - intros r0 Hr _. now apply read_app_old.
    - right. lia.
    (* not owned, sparse: a fresh copy, then in place on the copy *)
    - rewrite (Heap.read_write_same K) by (rewrite app_length; simpl; lia).
      rewrite (read_app_old h _ gr) by assumption.
      now rewrite read_app_new.
    - intros r0 Hr _. rewrite (Heap.read_write_other K) by lia. now apply read_app_old.
    - right. lia.
    (* nothing yet, dense: an alias *)
    - reflexivity.
    - intros; reflexivity.
    - split; reflexivity.
    (* nothing yet, sparse: fresh zeros, then in place *)
    - rewrite (Heap.read_write_same K) by (rewrite app_length; simpl; lia).
      rewrite (read_app_old h _ gr) by assumption.
      now rewrite read_app_new.
    - intros r0 Hr _. rewrite (Heap.read_write_other K) by lia. now apply read_app_old.
    - right. lia.
  Qed.

  (* ------------------------------------------------------------------ the invariant ---- *)
  Variable h0 : heap.                       (* the heap when the pass starts: inputs, constants, residuals, the caller's cotangent *)
  Notation base := (length h0).
  Definition agrees (h : heap) : Prop := base <= length h /\ forall r, r < base -> read h r = read h0 r.

  (* rule contract *)
  Definition rule_ok : Prop :=
    forall nd h g cs h', agrees h -> g < length h -> ruleh nd h g = (cs, h') ->
      (exists ext, h' = h ++ ext)
      /\ Forall (fun c => cref c = g \/ cref c < base \/ length h <= cref c < length h') cs
      /\ map (cval h') cs = rulep nd (read h g).

  Record Inv (og : fmap (nat * bool)) (h : heap) (ogp : fmap (list K * bool)) : Prop := {
    inv_frame : agrees h;
    inv_bound : forall k r f, og k = Some (r, f) -> r < length h;
    inv_owned : forall k r, og k = Some (r, true) ->
                  base <= r /\ forall k' r' f', k' <> k -> og k' = Some (r', f') -> r' <> r;
    inv_value : forall k, ogp k = option_map (absv h) (og k) }.

  Definition pending_ok (og : fmap (nat * bool)) (h : heap) (c : hcontrib) : Prop :=
    cref c < length h /\ forall k r, og k = Some (r, true) -> cref c <> r.

  Lemma fupd_same {V} (m : fmap V) k v : fupd m k v k = v.
  Proof. unfold fupd. now rewrite Nat.eqb_refl. Qed.
  Lemma fupd_other {V} (m : fmap V) k v x : x <> k -> fupd m k v x = m x.
  Proof. intros H. unfold fupd. destruct (Nat.eqb_spec x k); [contradiction|reflexivity]. Qed.

  Lemma cval_stable h h1 c :
    (forall r, r < length h -> r = cref c -> read h1 r = read h r) -> cref c < length h -> cval h1 c = cval h c.
  Proof. intros H Hc. destruct c as [r|s gr]; simpl in *; now rewrite H. Qed.

  Lemma acc_sim : forall ps cs og h ogp og' h',
      Inv og h ogp -> Forall (pending_ok og h) cs ->
      acc_h ps cs og h = (og', h') ->
      Inv og' h' (acc_p ps (map (cval h) cs) ogp) /\ length h <= length h'.
  Proof.
    induction ps as [|p ps IH]; intros cs og h ogp og' h' HI Hpend H; simpl in H.
    - inversion H; subst. simpl. split; [assumption|lia].
    - destruct cs as [|c cs]; [inversion H; subst; simpl; split; [assumption|lia]|].
      destruct (add_outgrads_h K k0 kadd n (og p) c h) as [pf h1] eqn:E.
      inversion Hpend as [|? ? [Hc Hcown] Hpend']; subst.
      destruct HI as [[Hb Hfr] Hbound Hown Hval].
      destruct (step_sim (og p) c h pf h1) as (Sv & Sf & Sl & Sq & So & Sn); auto.
      { intros q f Hq. eapply Hbound; eassumption. }
      destruct pf as [q' f'].
      simpl map.
      (* values read through references other than the owned buffer of p are unchanged *)
      assert (Hkeep : forall r, r < length h -> (forall q, og p = Some (q, true) -> r <> q) -> read h1 r = read h r) by exact Sf.
      assert (Hpend1 : Forall (pending_ok (fupd og p (Some (q', f'))) h1) cs).
      { apply Forall_forall. intros c' Hin. rewrite Forall_forall in Hpend'. destruct (Hpend' c' Hin) as [Hc' Hc'own].
        split; [lia|]. intros k r Hk. destruct (Nat.eq_dec k p) as [->|Hne].
        - rewrite fupd_same in Hk. inversion Hk; subst. simpl in So.
          destruct (So eq_refl) as [Hprev|Hfresh]; [eapply Hc'own; eassumption|lia].
        - rewrite fupd_other in Hk by assumption. eapply Hc'own; eassumption. }
      assert (Hmap : map (cval h1) cs = map (cval h) cs).
      { apply map_ext_in. intros c' Hin. rewrite Forall_forall in Hpend'. destruct (Hpend' c' Hin) as [Hc' Hc'own].
        apply cval_stable; [|assumption]. intros r Hr ->. apply Hkeep; [assumption|]. intros q Hq. eapply Hc'own; eassumption. }
      assert (HI1 : Inv (fupd og p (Some (q', f'))) h1 (fupd ogp p (Some (Index.add_outgrads K k0 kadd n (ogp p) (cval h c))))).
      { constructor.
        - split; [lia|]. intros r Hr. rewrite Hkeep; [now apply Hfr|lia|].
          intros q Hq. destruct (Hown p q Hq) as [Hge _]. lia.
        - intros k r f Hk. destruct (Nat.eq_dec k p) as [->|Hne].
          + rewrite fupd_same in Hk. inversion Hk; subst. exact Sq.
          + rewrite fupd_other in Hk by assumption. specialize (Hbound k r f Hk). lia.
        - intros k r Hk. destruct (Nat.eq_dec k p) as [->|Hne].
          + rewrite fupd_same in Hk. inversion Hk; subst. simpl in So.
            destruct (So eq_refl) as [Hprev|Hfresh].
            * destruct (Hown p r Hprev) as [Hge Hex]. split; [assumption|].
              intros k' r' f0 Hk' Hg. rewrite fupd_other in Hg by assumption. eapply Hex; eassumption.
            * split; [lia|]. intros k' r' f0 Hk' Hg. rewrite fupd_other in Hg by assumption.
              specialize (Hbound k' r' f0 Hg). lia.
          + rewrite fupd_other in Hk by assumption. destruct (Hown k r Hk) as [Hge Hex]. split; [assumption|].
            intros k' r' f0 Hk' Hg. destruct (Nat.eq_dec k' p) as [->|Hne'].
            * rewrite fupd_same in Hg. inversion Hg; subst. destruct f0.
              -- simpl in So. destruct (So eq_refl) as [Hprev|Hfresh].
                 ++ eapply Hex; [|exact Hprev]. assumption.
                 ++ specialize (Hbound k r true Hk). lia.
              -- simpl in Sn. destruct (Sn eq_refl) as [_ Heq]. rewrite Heq. eapply Hcown; eassumption.
            * rewrite fupd_other in Hg by assumption. eapply Hex; eassumption.
        - intros k. destruct (Nat.eq_dec k p) as [->|Hne].
          + rewrite !fupd_same. simpl. rewrite Hval. rewrite Sv. reflexivity.
          + rewrite !fupd_other by assumption. rewrite Hval. destruct (og k) as [[r f]|] eqn:Ek; [|reflexivity].
            simpl. unfold absv. simpl. f_equal. f_equal. symmetry. apply Hkeep; [eapply Hbound; eassumption|].
            intros q Hq. destruct (Hown p q Hq) as [_ Hex]. eapply Hex; eassumption. }
      destruct (IH cs _ h1 _ og' h' HI1 Hpend1 H) as [HI2 Hlen].
      rewrite Hmap in HI2. split; [exact HI2|lia].
  Qed.

  (* ------------------------------------------------------------------ the whole pass ---- *)
  Hypothesis Hrule : rule_ok.

  Theorem pass_sim : forall order og h ogp last,
      Inv og h ogp ->
      match pass_h order og h last with
      | Some (v, h') => pass_p order ogp last = Some v /\ agrees h' /\ length h <= length h'
      | None => pass_p order ogp last = None
      end.
  Proof.
    induction order as [|nd rest IH]; intros og h ogp last HI; simpl.
    - destruct last as [v|]; [|reflexivity]. split; [reflexivity|]. split; [apply HI|lia].
    - pose proof (inv_value _ _ _ HI nd) as Hv.
      destruct (og nd) as [[g f]|] eqn:Eg; simpl in Hv; rewrite Hv; [|reflexivity].
      unfold absv at 1; simpl.
      destruct (ruleh nd h g) as [cs h1] eqn:Er.
      destruct HI as [[Hb Hfr] Hbound Hown Hval].
      assert (Hg : g < length h) by (eapply Hbound; eassumption).
      destruct (Hrule nd h g cs h1 (conj Hb Hfr) Hg Er) as ([ext ->] & Hrefs & Hvals).
      assert (Hlen1 : length h <= length (h ++ ext)) by (rewrite app_length; lia).
      (* the state after the pop, in the extended heap *)
      assert (HI1 : Inv (fupd og nd None) (h ++ ext) (fupd ogp nd None)).
      { constructor.
        - split; [lia|]. intros r Hr. rewrite read_app_old by lia. now apply Hfr.
        - intros k r f0 Hk. destruct (Nat.eq_dec k nd) as [->|Hne]; [rewrite fupd_same in Hk; discriminate|].
          rewrite fupd_other in Hk by assumption. specialize (Hbound k r f0 Hk). lia.
        - intros k r Hk. destruct (Nat.eq_dec k nd) as [->|Hne]; [rewrite fupd_same in Hk; discriminate|].
          rewrite fupd_other in Hk by assumption. destruct (Hown k r Hk) as [Hge Hex]. split; [assumption|].
          intros k' r' f0 Hk' Hg'. destruct (Nat.eq_dec k' nd) as [->|Hne']; [rewrite fupd_same in Hg'; discriminate|].
          rewrite fupd_other in Hg' by assumption. eapply Hex; eassumption.
        - intros k. destruct (Nat.eq_dec k nd) as [->|Hne]; [now rewrite !fupd_same|].
          rewrite !fupd_other by assumption. rewrite Hval. destruct (og k) as [[r f0]|] eqn:Ek; [|reflexivity].
          simpl. unfold absv. simpl. now rewrite read_app_old by (eapply Hbound; eassumption). }
      assert (Hpend : Forall (pending_ok (fupd og nd None) (h ++ ext)) cs).
      { apply Forall_forall. intros c Hin. rewrite Forall_forall in Hrefs. specialize (Hrefs c Hin).
        split; [destruct Hrefs as [->|[?|?]]; lia|].
        intros k r Hk. destruct (Nat.eq_dec k nd) as [->|Hne]; [rewrite fupd_same in Hk; discriminate|].
        rewrite fupd_other in Hk by assumption. destruct (Hown k r Hk) as [Hge Hex].
        specialize (Hbound k r true Hk).
        destruct Hrefs as [->|[?|?]]; [|lia|lia].
        intro Heq; subst r. apply (Hex nd g f); [congruence|assumption|reflexivity]. }
      destruct (acc_h (parents nd) cs (fupd og nd None) (h ++ ext)) as [og' h2] eqn:Ea.
      destruct (acc_sim _ _ _ _ _ _ _ HI1 Hpend Ea) as [HI2 Hlen2].
      rewrite Hvals in HI2.
      specialize (IH og' h2 _ (Some (read h g)) HI2).
      destruct (pass_h rest og' h2 (Some (read h g))) as [[v h']|]; [|exact IH].
      destruct IH as (Hp & Hag & Hl). split; [exact Hp|]. split; [exact Hag|lia].
  Qed.

  (* the pass as core.backward_pass starts it: outgrads = {end_node: (g, False)}, g a buffer of the caller *)
  Definition backward_h (order : list nat) (e g : nat) (h : heap) : option (list K * heap) :=
    pass_h order (fupd (fun _ => None) e (Some (g, false))) h None.
  Definition backward_p (order : list nat) (e : nat) (gv : list K) : option (list K) :=
    pass_p order (fupd (fun _ => None) e (Some (gv, false))) None.
End Pass.

(* ---------------------------------------------------------------------- the theorems, outside the section ---- *)
Section Theorems.
  Variable K : Type.
  Variables (k0 : K) (kadd : K -> K -> K).
  Variable n : nat.
  Variable parents : nat -> list nat.
  Variable ruleh : nat -> Heap.heap K -> nat -> list hcontrib * Heap.heap K.
  Variable rulep : nat -> list K -> list (contrib K).
  Notation read := (Heap.read K).

  (* REFINEMENT + FRAME: the backward pass with in-place accumulation returns what the pure pass returns (and fails when it
     fails), and leaves every buffer that existed before it bit-for-bit unchanged *)
  Theorem backward_pass_refines_pure_and_preserves_memory (h0 : Heap.heap K) order e g :
    rule_ok K ruleh rulep h0 -> g < length h0 ->
    match backward_h K k0 kadd n parents ruleh order e g h0 with
    | Some (v, h') => backward_p K k0 kadd n parents rulep order e (read h0 g) = Some v
                      /\ (forall r, r < length h0 -> read h' r = read h0 r) /\ length h0 <= length h'
    | None => backward_p K k0 kadd n parents rulep order e (read h0 g) = None
    end.
  Proof.
    intros Hr Hg. unfold backward_h, backward_p.
    assert (HI : Inv K h0 (fupd (fun _ => None) e (Some (g, false))) h0 (fupd (fun _ => None) e (Some (read h0 g, false)))).
    { constructor.
      - split; [lia|reflexivity].
      - intros k r f Hk. unfold fupd in Hk. destruct (Nat.eqb k e); [inversion Hk; subst; assumption|discriminate].
      - intros k r Hk. unfold fupd in Hk. destruct (Nat.eqb k e); [inversion Hk|discriminate].
      - intros k. unfold fupd. destruct (Nat.eqb k e); reflexivity. }
    pose proof (pass_sim K k0 kadd n parents ruleh rulep h0 Hr order _ h0 _ None HI) as H.
    destruct (pass_h K k0 kadd n parents ruleh order (fupd (fun _ => None) e (Some (g, false))) h0 None) as [[v h']|]; [|exact H].
    destruct H as (Hp & [Hb Hf] & Hl). repeat split; assumption.
  Qed.

  (* the contract survives a pass: a heap that extends h0 without changing it can serve as the starting heap of the next call *)
  Lemma rule_ok_mono (h0 h1 : Heap.heap K) :
    rule_ok K ruleh rulep h0 -> length h0 <= length h1 -> (forall r, r < length h0 -> read h1 r = read h0 r) ->
    rule_ok K ruleh rulep h1.
  Proof.
    intros Hr Hl Hf nd h g cs h' [Hb Hag] Hg E.
    destruct (Hr nd h g cs h') as (He & Hrefs & Hv); auto.
    { split; [lia|]. intros r Hr0. rewrite Hag by lia. now apply Hf. }
    split; [assumption|]. split; [|assumption].
    eapply Forall_impl; [|exact Hrefs]. intros c [?|[?|?]]; [now left|right; left; lia|now right; right].
  Qed.

  (* REPETITION: a VJP function may be called again - with the same or a different cotangent, stored anywhere in the heap the
     first call left (its own earlier result included): the call returns what the pure pass returns for that cotangent, i.e.
     the answer it would give if it were the only call, and again changes nothing that existed before it *)
  Theorem second_call_as_if_only_call (h0 : Heap.heap K) order e g g2 v1 h1 :
    rule_ok K ruleh rulep h0 -> g < length h0 ->
    backward_h K k0 kadd n parents ruleh order e g h0 = Some (v1, h1) -> g2 < length h1 ->
    match backward_h K k0 kadd n parents ruleh order e g2 h1 with
    | Some (v2, h2) => backward_p K k0 kadd n parents rulep order e (read h1 g2) = Some v2
                       /\ (forall r, r < length h1 -> read h2 r = read h1 r)
                       /\ (g2 = g -> v2 = v1)
    | None => backward_p K k0 kadd n parents rulep order e (read h1 g2) = None
    end.
  Proof.
    intros Hr Hg E1 Hg2.
    pose proof (backward_pass_refines_pure_and_preserves_memory h0 order e g Hr Hg) as H1. rewrite E1 in H1.
    destruct H1 as (Hp1 & Hf1 & Hl1).
    pose proof (backward_pass_refines_pure_and_preserves_memory h1 order e g2 (rule_ok_mono h0 h1 Hr Hl1 Hf1) Hg2) as H2.
    destruct (backward_h K k0 kadd n parents ruleh order e g2 h1) as [[v2 h2]|]; [|exact H2].
    destruct H2 as (Hp2 & Hf2 & _). split; [exact Hp2|]. split; [exact Hf2|].
    intros ->. rewrite (Hf1 g Hg) in Hp2. rewrite Hp1 in Hp2. now inversion Hp2.
  Qed.
End Theorems.

(* ---- the contract is satisfiable, and the pass computes: a node whose rule hands its own cotangent to one parent and a
   sparse object over the SAME buffer to the same parent again; a node whose rule allocates ---- *)
From Coq Require Import ZArith.
Definition ex_parents (nd : nat) : list nat := match nd with 2 => [1; 1] | 1 => [0] | _ => [] end.
Definition ex_ruleh (nd : nat) (h : Heap.heap Z) (g : nat) : list hcontrib * Heap.heap Z :=
  match nd with
  | 2 => ([HDense g; HSparse [0; 0] g], h)
  | 1 => ([HDense (length h)], h ++ [vadd Z Z.add (Heap.read Z h g) (Heap.read Z h g)])
  | _ => ([], h)
  end.
Definition ex_rulep (nd : nat) (v : list Z) : list (contrib Z) :=
  match nd with 2 => [Dense Z v; Sparse Z [0; 0] v] | 1 => [Dense Z (vadd Z Z.add v v)] | _ => [] end.

Example ex_rule_ok h0 : rule_ok Z ex_ruleh ex_rulep h0.
Proof.
  intros nd h g cs h' [Hb _] Hg E. destruct nd as [|[|[|nd]]]; simpl in E; inversion E; subst; clear E.
  - split; [exists []; now rewrite app_nil_r|]. split; constructor.
  - split; [eexists; reflexivity|]. split.
    + constructor; [|constructor]. right; right. simpl. rewrite app_length. simpl. lia.
    + simpl. unfold Heap.read at 1. rewrite app_nth2 by lia. now rewrite Nat.sub_diag.
  - split; [exists []; now rewrite app_nil_r|]. split.
    + constructor; [now left|constructor; [now left|constructor]].
    + reflexivity.
  - split; [exists []; now rewrite app_nil_r|]. split; constructor.
Qed.

Example ex_pass_runs :
  let h0 := [[1; 2; 3]%Z; [10; 20; 30]%Z] in                (* an input, and the caller's cotangent (buffer 1) *)
  match backward_h Z 0%Z Z.add 3 ex_parents ex_ruleh [2; 1; 0] 2 1 h0 with
  | Some (v, h') => v = [80; 40; 60]%Z /\ firstn 2 h' = h0
                    /\ backward_p Z 0%Z Z.add 3 ex_parents ex_rulep [2; 1; 0] 2 [10; 20; 30]%Z = Some v
  | None => False
  end.
Proof. vm_compute. repeat split; reflexivity. Qed.
