(* L1: model of autograd/core.py: backward_pass / add_outgrads (dense part)
   and JVPNode accumulation, generic in the cotangent type V.  Definitions
   only. *)
From Coq Require Import List Arith Bool.
Import ListNotations.
From AG Require Import Toposort.

Section Backward.
  Variable V : Type.
  Variable vzero : V.
  Variable vadd : V -> V -> V.
  Variable parents : nat -> list nat.
  (* k-th component of node.vjp(g): the cotangent routed to parents[k] *)
  Variable vjpk : nat -> nat -> V -> V.

  Definition vjp (n : nat) (g : V) : list V :=
    map (fun k => vjpk n k g) (seq 0 (length (parents n))).

  (* outgrads : dict node -> cotangent (the mutable flag is modelled in Heap.v) *)
  Definition ogmap := list (nat * V).

  Fixpoint og_get (n : nat) (og : ogmap) : option V :=
    match og with
    | [] => None
    | (k, v) :: og' => if Nat.eqb k n then Some v else og_get n og'
    end.

  Fixpoint og_remove (n : nat) (og : ogmap) : ogmap :=
    match og with
    | [] => []
    | (k, v) :: og' => if Nat.eqb k n then og' else (k, v) :: og_remove n og'
    end.

  Fixpoint og_put (n : nat) (v : V) (og : ogmap) : ogmap :=
    match og with
    | [] => [(n, v)]
    | (k, w) :: og' => if Nat.eqb k n then (k, v) :: og' else (k, w) :: og_put n v og'
    end.

  (* add_outgrads(prev, g), dense branches: None -> g ; Some p -> p + g *)
  Definition add_outgrads (prev : option V) (g : V) : V :=
    match prev with None => g | Some p => vadd p g end.

  (* for parent, ingrad in zip(node.parents, ingrads):
        outgrads[parent] = add_outgrads(outgrads.get(parent), ingrad) *)
  Fixpoint accumulate (ps : list nat) (gs : list V) (og : ogmap) : ogmap :=
    match ps, gs with
    | p :: ps', g :: gs' =>
      accumulate ps' gs' (og_put p (add_outgrads (og_get p og) g) og)
    | _, _ => og
    end.

  (* for node in order: outgrad = outgrads.pop(node) [KeyError -> None];
     ingrads = node.vjp(outgrad); accumulate.  Returns the last popped. *)
  Fixpoint backward_loop (order : list nat) (og : ogmap) (last : option V)
    : option V :=
    match order with
    | [] => last
    | n :: rest =>
      match og_get n og with
      | None => None
      | Some g =>
        backward_loop rest (accumulate (parents n) (vjp n g) (og_remove n og))
                      (Some g)
      end
    end.

  Definition backward_pass (g : V) (e : nat) : option (V * list nat) :=
    match toposort parents e with
    | None => None
    | Some ord =>
      match backward_loop ord [(e, g)] None with
      | None => None
      | Some r => Some (r, ord)   (* result, and the rule-invocation log *)
      end
    end.

  (* ---- spec: sum over all dependency paths from n down to the root ---- *)
  Fixpoint vsum (l : list V) : V :=
    match l with [] => vzero | x :: l' => vadd x (vsum l') end.

  Fixpoint push (fuel n : nat) (g : V) : V :=
    match fuel with
    | 0 => vzero
    | S f =>
      match parents n with
      | [] => g
      | _ :: _ =>
        vsum (map (fun kp => push f (snd kp) (vjpk n (fst kp) g))
                  (combine (seq 0 (length (parents n))) (parents n)))
      end
    end.

  Definition pathsum (n : nat) (g : V) : V := push (S n) n g.

  (* ---- forward mode: JVPNode.g = sum_k jvp_k(parent_k.g), root.g = v0 ---- *)
  Variable jvpk : nat -> nat -> V -> V.

  Fixpoint tangent (fuel n : nat) (v0 : V) : V :=
    match fuel with
    | 0 => vzero
    | S f =>
      match parents n with
      | [] => v0
      | _ :: _ =>
        vsum (map (fun kp => jvpk n (fst kp) (tangent f (snd kp) v0))
                  (combine (seq 0 (length (parents n))) (parents n)))
      end
    end.

  Definition forward (n : nat) (v0 : V) : V := tangent (S n) n v0.
End Backward.
