(* Ring-like laws of the tower of dual numbers T n (used by the proof that the
   tagged evaluator computes the tower semantics). *)
From Coq Require Import List Arith Bool ZArith Lia.
Import ListNotations.
From AG Require Import Tagged Tower.
Local Open Scope Z_scope.

Lemma tadd_comm n : forall a b, tadd n a b = tadd n b a.
Proof. induction n as [|m IH]; simpl; intros a b; [lia|]. now rewrite (IH (fst a)), (IH (snd a)). Qed.
Lemma tadd_assoc n : forall a b c, tadd n a (tadd n b c) = tadd n (tadd n a b) c.
Proof. induction n as [|m IH]; simpl; intros a b c; [lia|]. now rewrite !IH. Qed.
Lemma tadd_0_r n : forall a, tadd n a (tzero n) = a.
Proof. induction n as [|m IH]; simpl; intros a; [lia|]. rewrite !IH. now destruct a. Qed.
Lemma tadd_0_l n : forall a, tadd n (tzero n) a = a.
Proof. intros a. rewrite tadd_comm. apply tadd_0_r. Qed.
Lemma tneg_0 n : tneg n (tzero n) = tzero n.
Proof. induction n as [|m IH]; simpl; [reflexivity|]. now rewrite IH. Qed.
Lemma tsub_def n : forall a b, tsub n a b = tadd n a (tneg n b).
Proof. induction n as [|m IH]; simpl; intros a b; [lia|]. now rewrite !IH. Qed.
Lemma tsub_0_r n : forall a, tsub n a (tzero n) = a.
Proof. intros a. now rewrite tsub_def, tneg_0, tadd_0_r. Qed.
Lemma tsub_0_l n : forall a, tsub n (tzero n) a = tneg n a.
Proof. intros a. now rewrite tsub_def, tadd_0_l. Qed.
Lemma tmul_0_r n : forall a, tmul n a (tzero n) = tzero n.
Proof. induction n as [|m IH]; simpl; intros a; [lia|]. now rewrite !IH, tadd_0_r. Qed.
Lemma tmul_comm n : forall a b, tmul n a b = tmul n b a.
Proof.
  induction n as [|m IH]; simpl; intros a b; [lia|].
  f_equal; [apply IH|]. rewrite tadd_comm. f_equal; apply IH.
Qed.
Lemma tmul_0_l n : forall a, tmul n (tzero n) a = tzero n.
Proof. intros a. rewrite tmul_comm. apply tmul_0_r. Qed.
Lemma tconst_0 n : tconst n 0 = tzero n.
Proof. induction n as [|m IH]; simpl; [reflexivity|]. now rewrite IH. Qed.
Lemma tconst_1 n : tconst n 1 = tone n.
Proof. induction n as [|m IH]; simpl; [reflexivity|]. now rewrite IH. Qed.
Lemma tsign_0 n : tsign n (tzero n) = tzero n.
Proof. induction n as [|m IH]; simpl; [reflexivity|]. now rewrite IH. Qed.

(* operations on lifted constants stay lifted *)
Lemma tprim1_lift n p a r :
  tprim1 n p a = Some r -> tprim1 (S n) p (tlift n a) = Some (tlift n r).
Proof.
  unfold tlift. destruct p; simpl; intros H; inversion H; subst; clear H; try reflexivity.
  - now rewrite tneg_0.
  - now rewrite tmul_0_r.
Qed.
Lemma tprim1_lift_none n p a : tprim1 n p a = None -> tprim1 (S n) p (tlift n a) = None.
Proof. destruct p; simpl; intros H; try discriminate; reflexivity. Qed.
Lemma tprim2_lift n p a b r :
  tprim2 n p a b = Some r -> tprim2 (S n) p (tlift n a) (tlift n b) = Some (tlift n r).
Proof.
  unfold tlift. destruct p; simpl; intros H; inversion H; subst; clear H.
  - now rewrite tadd_0_r.
  - now rewrite tsub_0_r.
  - now rewrite tmul_0_l, tmul_0_r, tadd_0_r.
Qed.
Lemma tprim2_lift_none n p a b : tprim2 n p a b = None -> tprim2 (S n) p (tlift n a) (tlift n b) = None.
Proof. destruct p; simpl; intros H; try discriminate; reflexivity. Qed.
