(* L2: an object language with nested differential operators and its *tagged*
   semantics, a transliteration of autograd/tracer.py (trace, new_trace,
   Box, find_top_boxed_args, primitive) and core.py (make_vjp, make_jvp,
   VJPNode, JVPNode, backward_pass, add_outgrads) over one global node store.
   Definitions only. *)
From Coq Require Import List Arith Bool ZArith.
Import ListNotations.
From AG Require Import Toposort.

Inductive prim :=
| PAdd | PSub | PMul | PNeg
| PF (n : nat)        (* n-th formal derivative of one smooth unary function *)
| PSign               (* registered non-differentiable (notrace) *)
| PNoVjp | PNoJvp     (* identity-valued primitives lacking a rule *).

Inductive exp :=
| Var (n : nat)
| Const (k : Z)
| App1 (p : prim) (a : exp)
| App2 (p : prim) (a b : exp)
| Let (a b : exp)
| IfPos (c a b : exp)          (* Python `if c > 0:` on a possibly traced c *)
| Grad (body arg : exp)        (* grad(lambda v: body)(arg) *)
| Deriv (body arg : exp)       (* make_jvp(lambda v: body)(arg)(1.0)[1] *)
| Fail                         (* raise *)
| Try (a h : exp)              (* try: a  except: h *).

Section Tagged.
  (* scalars; the evaluator needs no ring laws *)
  Variable K : Type.
  Variables (k0 k1 : K) (kadd ksub kmul : K -> K -> K) (kopp : K -> K).
  Variable kF : nat -> K -> K.
  Variable ksign : K -> K.
  Variable kpos : K -> bool.
  Variable kofZ : Z -> K.

  Inductive value :=
  | VNum (k : K)
  | VBox (trace : Z) (inner : value) (node : nodek)
  with nodek :=
  | NJ (tangent : value)       (* JVPNode: .g *)
  | NV (idx : nat)             (* VJPNode: identity = index in the node store *).

  Record vnode := {
    n_root : bool;
    n_prim : prim;
    n_args : list value;       (* argvals captured by the vjp closure *)
    n_ans : value;
    n_argnums : list nat;
    n_parents : list nat }.

  (* trace_stack.top, the heap of VJPNodes, and - for the thread model - the
     interference this thread observes on the shared counter: at each of its
     trace entry/exit events the counter has moved by the next element of
     `noise` (net entries minus exits, or ids drawn, by other threads since this
     thread's previous event); [] = running alone *)
  Record state := { top : Z; store : list vnode; noise : list Z }.

  (* how new_trace picks ids: the pinned tree's shared depth counter
     (top += 1 ... top -= 1 on normal exit), or a strictly increasing supply
     that is never decremented *)
  Inductive supply := Depth | Mono.
  Variable sup : supply.

  Definition draw (s : state) : Z * state :=
    match noise s with
    | [] => (0%Z, s)
    | d :: r => (d, {| top := top s; store := store s; noise := r |})
    end.

  (* with new_trace() as t: *)
  Definition enter (s : state) : Z * state :=
    let '(d, s') := draw s in
    let t := (top s' + d + 1)%Z in
    (t, {| top := t; store := store s'; noise := noise s' |}).

  (* normal exit of the with-block *)
  Definition leave (s : state) : state :=
    match sup with
    | Depth => let '(d, s') := draw s in
               {| top := (top s' + d - 1)%Z; store := store s'; noise := noise s' |}
    | Mono => s
    end.

  Inductive outcome (A : Type) :=
  | Val (a : A)
  | Err (code : nat)           (* 1 user Fail, 2 no VJP, 3 no JVP, 4 type, 5 mixed node types, 6 KeyError *)
  | OutOfFuel.
  Arguments Val {A} _.
  Arguments Err {A} _.
  Arguments OutOfFuel {A}.

  Definition M (A : Type) := (outcome A * state)%type.
  Definition ret {A} (a : A) (s : state) : M A := (Val a, s).
  Definition bind {A B} (m : M A) (f : A -> state -> M B) : M B :=
    match m with
    | (Val a, s) => f a s
    | (Err c, s) => (Err c, s)
    | (OutOfFuel, s) => (OutOfFuel, s)
    end.

  Fixpoint strip (v : value) : K :=
    match v with VNum k => k | VBox _ i _ => strip i end.

  (* ---- find_top_boxed_args ---- *)
  Inductive kind := KJ | KV.
  Definition kind_of (n : nodek) : kind := match n with NJ _ => KJ | NV _ => KV end.

  Fixpoint find_top (args : list value) (top_trace : Z) (k : option kind)
    : Z * option kind :=
    match args with
    | [] => (top_trace, k)
    | VBox t _ n :: rest =>
      if Z.gtb t top_trace then find_top rest t (Some (kind_of n))
      else find_top rest top_trace k
    | VNum _ :: rest => find_top rest top_trace k
    end.

  Definition is_top (t : Z) (v : value) : bool :=
    match v with VBox t' _ _ => Z.eqb t' t | VNum _ => false end.

  Definition unbox_at (t : Z) (v : value) : value :=
    match v with
    | VBox t' i _ => if Z.eqb t' t then i else v
    | VNum _ => v
    end.

  (* positions (argnums) and nodes of the arguments boxed at the top trace *)
  Fixpoint boxed_at (t : Z) (i : nat) (args : list value) : list (nat * nodek) :=
    match args with
    | [] => []
    | VBox t' _ n :: rest =>
      if Z.eqb t' t then (i, n) :: boxed_at t (S i) rest else boxed_at t (S i) rest
    | VNum _ :: rest => boxed_at t (S i) rest
    end.

  Definition raw (p : prim) (args : list K) : outcome K :=
    match p, args with
    | PAdd, [a; b] => Val (kadd a b)
    | PSub, [a; b] => Val (ksub a b)
    | PMul, [a; b] => Val (kmul a b)
    | PNeg, [a] => Val (kopp a)
    | PF n, [a] => Val (kF n a)
    | PSign, [a] => Val (ksign a)
    | PNoVjp, [a] => Val a
    | PNoJvp, [a] => Val a
    | _, _ => Err 4
    end.

  Fixpoint all_num (args : list value) : option (list K) :=
    match args with
    | [] => Some []
    | VNum k :: rest => option_map (cons k) (all_num rest)
    | VBox _ _ _ :: _ => None
    end.

  Definition is_notrace (p : prim) : bool :=
    match p with PSign => true | _ => false end.
  Definition has_vjp (p : prim) : bool :=
    match p with PNoVjp => false | _ => true end.
  Definition has_jvp (p : prim) : bool :=
    match p with PNoJvp => false | _ => true end.

  Definition as_nv (ns : list (nat * nodek)) : option (list nat) :=
    fold_right (fun x acc => match snd x, acc with
                             | NV i, Some l => Some (i :: l)
                             | _, _ => None end) (Some []) ns.
  Definition as_nj (ns : list (nat * nodek)) : option (list value) :=
    fold_right (fun x acc => match snd x, acc with
                             | NJ g, Some l => Some (g :: l)
                             | _, _ => None end) (Some []) ns.

  (* the primitive wrapper f_wrapped, with the rules of the object-language
     primitives written as calls of f_wrapped itself (so they are traced by
     enclosing traces); `ap` is the recursive reference *)
  Section Rules.
    Variable ap : prim -> list value -> state -> M value.

    (* defjvp rules: tangent contribution of argument `argnum` *)
    Definition jvp_rule (p : prim) (argnum : nat) (g ans : value)
               (args : list value) : state -> M value :=
      match p, argnum, args with
      | PAdd, _, _ => ret g
      | PSub, 0, _ => ret g
      | PSub, _, _ => ap PNeg [g]
      | PMul, 0, [_; y] => ap PMul [g; y]
      | PMul, _, [x; _] => ap PMul [x; g]
      | PNeg, _, _ => ap PNeg [g]
      | PF n, _, [x] => fun s => bind (ap (PF (S n)) [x] s) (fun d => ap PMul [g; d])
      | PNoVjp, _, _ => ret g
      | _, _, _ => fun s => (Err 3, s)
      end.

    (* defvjp rules: cotangent for argument `argnum` *)
    Definition vjp_rule (p : prim) (argnum : nat) (g ans : value)
               (args : list value) : state -> M value :=
      match p, argnum, args with
      | PAdd, _, _ => ret g
      | PSub, 0, _ => ret g
      | PSub, _, _ => ap PNeg [g]
      | PMul, 0, [_; y] => ap PMul [y; g]
      | PMul, _, [x; _] => ap PMul [x; g]
      | PNeg, _, _ => ap PNeg [g]
      | PF n, _, [x] => fun s => bind (ap (PF (S n)) [x] s) (fun d => ap PMul [g; d])
      | PNoJvp, _, _ => ret g
      | _, _, _ => fun s => (Err 2, s)
      end.

    (* sum_outgrads over the tangent contributions: first as is, then vs.add *)
    Fixpoint jvp_sum (p : prim) (ans : value) (args : list value)
             (nums : list nat) (gs : list value) (acc : option value)
      : state -> M value :=
      match nums, gs with
      | a :: nums', g :: gs' =>
        fun s => bind (jvp_rule p a g ans args s) (fun c s1 =>
          match acc with
          | None => jvp_sum p ans args nums' gs' (Some c) s1
          | Some prev => bind (ap PAdd [prev; c] s1)
                              (fun r => jvp_sum p ans args nums' gs' (Some r))
          end)
      | _, _ => fun s => match acc with Some r => ret r s | None => (Err 4, s) end
      end.
  End Rules.

  Fixpoint apply_prim (fuel : nat) (p : prim) (args : list value) (s : state)
    : M value :=
    match fuel with
    | 0 => (OutOfFuel, s)
    | S f =>
      match find_top args (-1) None with
      | (_, None) =>
        match all_num args with
        | Some ks => match raw p ks with
                     | Val k => ret (VNum k) s
                     | Err c => (Err c, s)
                     | OutOfFuel => (OutOfFuel, s)
                     end
        | None => (Err 4, s)
        end
      | (t, Some knd) =>
        let argvals := map (unbox_at t) args in
        if is_notrace p then apply_prim f p argvals s else
        let bx := boxed_at t 0 args in
        bind (apply_prim f p argvals s) (fun ans s1 =>
          match knd with
          | KV =>
            if negb (has_vjp p) then (Err 2, s1) else
            match as_nv bx with
            | None => (Err 5, s1)
            | Some parents =>
              let node := {| n_root := false; n_prim := p; n_args := argvals;
                             n_ans := ans; n_argnums := map fst bx;
                             n_parents := parents |} in
              ret (VBox t ans (NV (length (store s1))))
                  {| top := top s1; store := store s1 ++ [node]; noise := noise s1 |}
            end
          | KJ =>
            match as_nj bx with
            | None => (Err 5, s1)
            | Some gs =>
              if negb (has_jvp p) then (Err 3, s1) else
              bind (jvp_sum (apply_prim f) p ans argvals (map fst bx) gs None s1)
                   (fun tg => ret (VBox t ans (NJ tg)))
            end
          end)
      end
    end.

  (* ---- backward pass over the global store, rules run through apply_prim ---- *)
  Definition node_parents (st : list vnode) (n : nat) : list nat :=
    match nth_error st n with Some nd => n_parents nd | None => [] end.

  Fixpoint og_get (n : nat) (og : list (nat * value)) : option value :=
    match og with
    | [] => None
    | (k, v) :: og' => if Nat.eqb k n then Some v else og_get n og'
    end.
  Fixpoint og_remove (n : nat) (og : list (nat * value)) : list (nat * value) :=
    match og with
    | [] => []
    | (k, v) :: og' => if Nat.eqb k n then og' else (k, v) :: og_remove n og'
    end.
  Fixpoint og_put (n : nat) (v : value) (og : list (nat * value)) :=
    match og with
    | [] => [(n, v)]
    | (k, w) :: og' => if Nat.eqb k n then (k, v) :: og' else (k, w) :: og_put n v og'
    end.

  (* node.vjp(g): one cotangent per parent, in argnum order *)
  Fixpoint node_vjp (fuel : nat) (nd : vnode) (nums : list nat) (g : value)
    : state -> M (list value) :=
    match nums with
    | [] => ret []
    | a :: nums' =>
      fun s => bind (vjp_rule (apply_prim fuel) (n_prim nd) a g (n_ans nd) (n_args nd) s)
                    (fun c s1 => bind (node_vjp fuel nd nums' g s1)
                                      (fun cs => ret (c :: cs)))
    end.

  (* outgrads[parent] = add_outgrads(outgrads.get(parent), ingrad): first
     contribution stored as is, later ones through the primitive vs.add *)
  Fixpoint accumulate (fuel : nat) (ps : list nat) (gs : list value)
           (og : list (nat * value)) : state -> M (list (nat * value)) :=
    match ps, gs with
    | p :: ps', g :: gs' =>
      fun s =>
        match og_get p og with
        | None => accumulate fuel ps' gs' (og_put p g og) s
        | Some prev =>
          bind (apply_prim fuel PAdd [prev; g] s)
               (fun r => accumulate fuel ps' gs' (og_put p r og))
        end
    | _, _ => ret og
    end.

  Fixpoint backward_loop (fuel : nat) (order : list nat)
           (og : list (nat * value)) (last : value) : state -> M value :=
    match order with
    | [] => ret last
    | n :: rest =>
      fun s =>
        match og_get n og with
        | None => (Err 6, s)
        | Some g =>
          match nth_error (store s) n with
          | None => (Err 6, s)
          | Some nd =>
            if n_root nd then backward_loop fuel rest (og_remove n og) g s else
            bind (node_vjp fuel nd (n_argnums nd) g s) (fun ingrads s1 =>
            bind (accumulate fuel (n_parents nd) ingrads (og_remove n og) s1)
                 (fun og' => backward_loop fuel rest og' g))
          end
        end
    end.

  Definition backward_pass (fuel : nat) (g : value) (e : nat) (s : state)
    : M value :=
    match toposort (node_parents (store s)) e with
    | None => (OutOfFuel, s)
    | Some ord => backward_loop fuel ord [(e, g)] g s
    end.

  (* ---- the evaluator ---- *)
  Definition root_node : vnode :=
    {| n_root := true; n_prim := PNeg; n_args := []; n_ans := VNum k0;
       n_argnums := []; n_parents := [] |}.

  Fixpoint eval (fuel : nat) (env : list value) (e : exp) (s : state) : M value :=
    match fuel with
    | 0 => (OutOfFuel, s)
    | S f =>
      match e with
      | Var n => match nth_error env n with
                 | Some v => ret v s | None => (Err 4, s) end
      | Const k => ret (VNum (kofZ k)) s
      | App1 p a => bind (eval f env a s) (fun va => apply_prim f p [va])
      | App2 p a b =>
        bind (eval f env a s) (fun va s1 =>
        bind (eval f env b s1) (fun vb => apply_prim f p [va; vb]))
      | Let a b => bind (eval f env a s) (fun va => eval f (va :: env) b)
      | IfPos c a b =>
        bind (eval f env c s) (fun vc =>
          if kpos (strip vc) then eval f env a else eval f env b)
      | Fail => (Err 1, s)
      | Try a h =>
        match eval f env a s with
        | (Val v, s1) => (Val v, s1)
        | (Err _, s1) => eval f env h s1      (* top stays where the failure left it *)
        | (OutOfFuel, s1) => (OutOfFuel, s1)
        end
      | Grad body arg =>
        bind (eval f env arg s) (fun x s1 =>
          (* make_vjp: VJPNode.new_root(); with new_trace() as t *)
          let r := length (store s1) in
          let '(t, se) := enter s1 in
          let s2 := {| top := top se; store := store se ++ [root_node]; noise := noise se |} in
          bind (eval f (VBox t x (NV r) :: env) body s2) (fun endv s3 =>
            let s4 := leave s3 in
            match endv with
            | VBox t' ev (NV en) =>
              if Z.eqb t' t then backward_pass f (VNum k1) en s4
              else ret (VNum k0) s4
            | VBox t' ev (NJ _) =>
              if Z.eqb t' t then (Err 5, s4) else ret (VNum k0) s4
            | VNum _ => ret (VNum k0) s4
            end))
      | Deriv body arg =>
        bind (eval f env arg s) (fun x s1 =>
          let '(t, s2) := enter s1 in
          bind (eval f (VBox t x (NJ (VNum k1)) :: env) body s2) (fun endv s3 =>
            let s4 := leave s3 in
            match endv with
            | VBox t' ev (NJ tg) =>
              if Z.eqb t' t then ret tg s4 else ret (VNum k0) s4
            | VBox t' ev (NV _) =>
              if Z.eqb t' t then (Err 5, s4) else ret (VNum k0) s4
            | VNum _ => ret (VNum k0) s4
            end))
      end
    end.

  Definition init_state : state := {| top := (-1)%Z; store := []; noise := [] |}.
End Tagged.

Arguments Val {A} _.
Arguments Err {A} _.
Arguments OutOfFuel {A}.
