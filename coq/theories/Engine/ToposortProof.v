(* Proofs about the toposort model: for every DAG (parents point to smaller
   indices) and every end node, with the stated fuel neither loop runs out,
   the emitted order is duplicate-free, contains exactly the nodes reachable
   from the end node, starts with the end node and lists every consumer
   before each of its parents. *)
From Coq Require Import List Arith Bool Lia PeanoNat Permutation.
Import ListNotations.
From AG Require Import Toposort.

Notation cocc := (count_occ Nat.eq_dec).

Lemma upd_same f k v : upd f k v k = v.
Proof. unfold upd. now rewrite Nat.eqb_refl. Qed.

Lemma upd_other f k v x : x <> k -> upd f k v x = f x.
Proof. unfold upd. intros H. apply Nat.eqb_neq in H. now rewrite H. Qed.

Lemma cocc_cons_eq l x : cocc (x :: l) x = S (cocc l x).
Proof. simpl. destruct (Nat.eq_dec x x); congruence. Qed.

Lemma cocc_cons_neq l x y : x <> y -> cocc (x :: l) y = cocc l y.
Proof. intros; simpl. destruct (Nat.eq_dec x y); congruence. Qed.

Section Proofs.
  Variable parents : nat -> list nat.
  Hypothesis dag : forall n p, In p (parents n) -> p < n.

  Inductive reach (e : nat) : nat -> Prop :=
  | reach_refl : reach e e
  | reach_step : forall c p, reach e c -> In p (parents c) -> reach e p.

  Lemma reach_le e n : reach e n -> n <= e.
  Proof.
    induction 1 as [|c p Hc IH Hp]; [lia|]. apply dag in Hp. lia.
  Qed.

  Definition edges (l : list nat) : list nat := flat_map parents l.
  Definition ind (b : bool) : nat := if b then 1 else 0.

  Lemma cocc_edges_cons n V m :
    cocc (edges (n :: V)) m = cocc (parents n) m + cocc (edges V) m.
  Proof. unfold edges; simpl. now rewrite count_occ_app. Qed.

  Lemma cocc_edges_pos V m :
    cocc (edges V) m > 0 <-> exists c, In c V /\ In m (parents c).
  Proof.
    rewrite <- count_occ_In. unfold edges. rewrite in_flat_map. reflexivity.
  Qed.

  (* ---------------- phase 1 ---------------- *)

  Record Inv1 (e : nat) (stack : list nat) (cnt : nat -> nat) (V : list nat)
    : Prop := {
    i1_nodup : NoDup V;
    i1_vis : forall m, In m V <-> cnt m <> 0;
    i1_cnt : forall m, cnt m + cocc stack m
                       = ind (m =? e) + cocc (edges V) m;
    i1_reachV : forall m, In m V -> reach e m;
    i1_reachS : forall m, In m stack -> reach e m }.

  Lemma inv1_init e : Inv1 e [e] (fun _ => 0) [].
  Proof.
    constructor.
    - constructor.
    - intros m; simpl; split; [tauto|congruence].
    - intros m. simpl. destruct (Nat.eq_dec e m) as [->|Hne].
      + now rewrite Nat.eqb_refl.
      + assert (H : (m =? e) = false) by (apply Nat.eqb_neq; congruence).
        now rewrite H.
    - intros m [].
    - intros m [<-|[]]. constructor.
  Qed.

  Lemma inv1_step_new e n st cnt V :
    Inv1 e (n :: st) cnt V -> cnt n = 0 ->
    Inv1 e (rev (parents n) ++ st) (upd cnt n 1) (n :: V).
  Proof.
    intros [Hnd Hvis Hcnt HrV HrS] Hn.
    assert (HnV : ~ In n V) by (rewrite Hvis; lia).
    assert (Hrn : reach e n) by (apply HrS; now left).
    constructor.
    - now constructor.
    - intros m. destruct (Nat.eq_dec m n) as [->|Hne].
      + rewrite upd_same. split; [lia|]. intros _. now left.
      + rewrite upd_other by assumption. rewrite <- Hvis. simpl.
        split; [intros [H|H]; [congruence|assumption] | tauto].
    - intros m. rewrite count_occ_app, count_occ_rev, cocc_edges_cons.
      specialize (Hcnt m).
      destruct (Nat.eq_dec m n) as [->|Hne].
      + rewrite upd_same. rewrite cocc_cons_eq in Hcnt. lia.
      + rewrite upd_other by assumption.
        rewrite cocc_cons_neq in Hcnt by congruence. lia.
    - intros m [<-|H]; auto.
    - intros m H. apply in_app_or in H. destruct H as [H|H].
      + apply in_rev in H. eapply reach_step; eauto.
      + apply HrS. now right.
  Qed.

  Lemma inv1_step_old e n st cnt V :
    Inv1 e (n :: st) cnt V -> cnt n <> 0 ->
    Inv1 e st (upd cnt n (S (cnt n))) V.
  Proof.
    intros [Hnd Hvis Hcnt HrV HrS] Hn.
    constructor.
    - assumption.
    - intros m. destruct (Nat.eq_dec m n) as [->|Hne].
      + rewrite upd_same. rewrite Hvis. lia.
      + rewrite upd_other by assumption. apply Hvis.
    - intros m. specialize (Hcnt m).
      destruct (Nat.eq_dec m n) as [->|Hne].
      + rewrite upd_same. rewrite cocc_cons_eq in Hcnt. lia.
      + rewrite upd_other by assumption.
        rewrite cocc_cons_neq in Hcnt by congruence. lia.
    - assumption.
    - intros m H. apply HrS. now right.
  Qed.

  (* measure: stack length + number of edges out of unvisited nodes <= e *)
  Definition pend (e : nat) (cnt : nat -> nat) : nat :=
    list_sum (map (fun c => if cnt c =? 0 then length (parents c) else 0)
                  (seq 0 (S e))).

  Lemma list_sum_map_le {A} (f g : A -> nat) l :
    (forall x, In x l -> f x <= g x) ->
    list_sum (map f l) <= list_sum (map g l).
  Proof.
    induction l as [|a l IH]; simpl; intros H; [lia|].
    assert (f a <= g a) by (apply H; now left).
    assert (list_sum (map f l) <= list_sum (map g l))
      by (apply IH; intros; apply H; now right). lia.
  Qed.

  Lemma list_sum_map_change (f g : nat -> nat) l n :
    NoDup l -> In n l -> (forall x, x <> n -> f x = g x) ->
    list_sum (map f l) + g n = list_sum (map g l) + f n.
  Proof.
    induction l as [|a l IH]; simpl; intros Hnd Hin Hfg; [tauto|].
    inversion Hnd as [|? ? Hna Hnd']; subst.
    destruct Hin as [->|Hin].
    - assert (Heq : map f l = map g l).
      { apply map_ext_in. intros x Hx. apply Hfg. intros ->. tauto. }
      rewrite Heq. lia.
    - assert (a <> n) by (intros ->; tauto).
      rewrite (Hfg a) by assumption.
      specialize (IH Hnd' Hin Hfg). lia.
  Qed.

  Lemma pend_visit e cnt n :
    n <= e -> cnt n = 0 ->
    pend e (upd cnt n 1) + length (parents n) = pend e cnt.
  Proof.
    intros Hle Hn. unfold pend.
    pose (f := fun c => if upd cnt n 1 c =? 0 then length (parents c) else 0).
    pose (g := fun c => if cnt c =? 0 then length (parents c) else 0).
    assert (H := list_sum_map_change f g (seq 0 (S e)) n (seq_NoDup _ _)).
    assert (Hin : In n (seq 0 (S e))) by (apply in_seq; lia).
    specialize (H Hin).
    assert (Hfg : forall x, x <> n -> f x = g x).
    { intros x Hx. unfold f, g. now rewrite upd_other. }
    specialize (H Hfg).
    assert (Hf : f n = 0) by (unfold f; now rewrite upd_same).
    assert (Hg : g n = length (parents n)) by (unfold g; now rewrite Hn).
    rewrite Hf, Hg in H. unfold f, g in H. lia.
  Qed.

  Lemma pend_bump e cnt n :
    cnt n <> 0 -> pend e (upd cnt n (S (cnt n))) = pend e cnt.
  Proof.
    intros Hn. unfold pend. f_equal. apply map_ext. intros c.
    destruct (Nat.eq_dec c n) as [->|Hne].
    - rewrite upd_same. apply Nat.eqb_neq in Hn. now rewrite Hn.
    - now rewrite upd_other.
  Qed.

  Lemma count_loop_inv e : forall fuel stack cnt V,
    Inv1 e stack cnt V ->
    length stack + pend e cnt < fuel ->
    exists cnt' V', count_loop parents fuel stack cnt = Some cnt'
                    /\ Inv1 e [] cnt' V'.
  Proof.
    induction fuel as [|f IH]; intros stack cnt V HI Hf; [lia|].
    destruct stack as [|n st]; simpl.
    - eauto.
    - destruct (cnt n =? 0) eqn:Hc.
      + apply Nat.eqb_eq in Hc.
        assert (Hle : n <= e)
          by (apply reach_le; apply (i1_reachS _ _ _ _ HI); now left).
        apply (IH _ _ (n :: V)).
        * now apply inv1_step_new.
        * rewrite app_length, rev_length. pose proof (pend_visit e cnt n Hle Hc).
          simpl in Hf. lia.
      + apply Nat.eqb_neq in Hc.
        apply (IH _ _ V).
        * now apply inv1_step_old.
        * rewrite pend_bump by assumption. simpl in Hf. lia.
  Qed.

  Lemma pend_init e : pend e (fun _ => 0) = edge_total parents e.
  Proof. reflexivity. Qed.

  (* what phase 1 establishes *)
  Record Counted (e : nat) (cnt : nat -> nat) (R : list nat) : Prop := {
    c_nodup : NoDup R;
    c_reach : forall m, In m R <-> reach e m;
    c_cnt : forall m, In m R -> cnt m = ind (m =? e) + cocc (edges R) m }.

  Lemma inv1_final e cnt V : Inv1 e [] cnt V -> Counted e cnt V.
  Proof.
    intros [Hnd Hvis Hcnt HrV _].
    assert (Hc : forall m, cnt m = ind (m =? e) + cocc (edges V) m).
    { intros m. specialize (Hcnt m). simpl in Hcnt. lia. }
    constructor; auto.
    intros m; split; [apply HrV|].
    induction 1 as [|c p Hrc IH Hp].
    - apply Hvis. rewrite Hc, Nat.eqb_refl. simpl. lia.
    - apply Hvis. rewrite Hc.
      assert (cocc (edges V) p > 0)
        by (apply cocc_edges_pos; exists c; auto).
      lia.
  Qed.

  Lemma phase1 e :
    exists cnt R, count_loop parents (fuel1 parents e) [e] (fun _ => 0) = Some cnt
                  /\ Counted e cnt R.
  Proof.
    destruct (count_loop_inv e (fuel1 parents e) [e] (fun _ => 0) []
                             (inv1_init e)) as (cnt & V & H1 & H2).
    - rewrite pend_init. unfold fuel1. simpl. lia.
    - exists cnt, V. split; [assumption|now apply inv1_final].
  Qed.

  (* ---------------- phase 2 ---------------- *)

  Definition memb (x : nat) (l : list nat) : bool := existsb (Nat.eqb x) l.

  Lemma memb_In x l : memb x l = true <-> In x l.
  Proof.
    unfold memb. rewrite existsb_exists. split.
    - intros (y & Hy & Heq). apply Nat.eqb_eq in Heq. now subst.
    - intros H. exists x. split; [assumption|apply Nat.eqb_refl].
  Qed.

  Lemma memb_nIn x l : memb x l = false <-> ~ In x l.
  Proof.
    rewrite <- memb_In. destruct (memb x l); split; congruence.
  Qed.

  (* edges into m from nodes of R not yet emitted *)
  Definition rem (R acc : list nat) (m : nat) : nat :=
    list_sum (map (fun c => if memb c acc then 0 else cocc (parents c) m) R).

  Lemma rem_nil R m : rem R [] m = cocc (edges R) m.
  Proof.
    unfold rem, edges. induction R as [|a R IH]; simpl in *; [reflexivity|].
    rewrite count_occ_app. lia.
  Qed.

  Lemma rem_emit R acc n m :
    NoDup R -> In n R -> ~ In n acc ->
    rem R (n :: acc) m + cocc (parents n) m = rem R acc m.
  Proof.
    intros Hnd Hin Hna. unfold rem.
    pose (f := fun c => if memb c (n :: acc) then 0 else cocc (parents c) m).
    pose (g := fun c => if memb c acc then 0 else cocc (parents c) m).
    assert (H := list_sum_map_change f g R n Hnd Hin).
    assert (Hfg : forall x, x <> n -> f x = g x).
    { intros x Hx. unfold f, g. simpl.
      apply Nat.eqb_neq in Hx. now rewrite Hx. }
    specialize (H Hfg).
    assert (Hf : f n = 0) by (unfold f; simpl; now rewrite Nat.eqb_refl).
    assert (Hg : g n = cocc (parents n) m).
    { unfold g. apply memb_nIn in Hna. now rewrite Hna. }
    rewrite Hf, Hg in H. unfold f, g in H. lia.
  Qed.

  Lemma rem_zero R acc m :
    rem R acc m = 0 ->
    forall c, In c R -> In m (parents c) -> In c acc.
  Proof.
    unfold rem. induction R as [|a R IH]; simpl; intros H c Hc Hm; [tauto|].
    destruct Hc as [->|Hc].
    - destruct (memb c acc) eqn:Hmb; [now apply memb_In|].
      apply (count_occ_In Nat.eq_dec) in Hm. lia.
    - apply IH; auto. lia.
  Qed.

  Lemma rem_pos R acc m :
    rem R acc m > 0 ->
    exists c, In c R /\ ~ In c acc /\ In m (parents c).
  Proof.
    unfold rem. induction R as [|a R IH]; simpl; intros H; [lia|].
    destruct (memb a acc) eqn:Hmb.
    - destruct (IH H) as (c & H1 & H2 & H3). exists c; auto.
    - destruct (cocc (parents a) m) eqn:Hc.
      + destruct (IH H) as (c & H1 & H2 & H3). exists c; auto.
      + exists a. split; [now left|]. split; [now apply memb_nIn|].
        apply (count_occ_In Nat.eq_dec). lia.
  Qed.

  (* emitted list acc is most-recent-first: consumers of a node were emitted
     earlier, i.e. occur in the tail after it *)
  Definition ordered (R acc : list nat) : Prop :=
    forall a1 m a2, acc = a1 ++ m :: a2 ->
    forall c, In c R -> In m (parents c) -> In c a2.

  (* general invariant, ps = parents of the node being relaxed still to do *)
  Record Inv2 (e : nat) (R ps cl : list nat) (cnt : nat -> nat)
         (acc : list nat) : Prop := {
    i2_nodup : NoDup (cl ++ acc);
    i2_inR : forall m, In m (cl ++ acc) -> In m R;
    i2_psR : forall m, In m ps -> In m R;
    i2_done : forall m, In m (cl ++ acc) ->
                        cocc ps m + rem R acc m = 0;
    i2_todo : forall m, In m R -> ~ In m (cl ++ acc) ->
                        cnt m = cocc ps m + rem R acc m /\ cnt m >= 1;
    i2_ready : forall m, In m cl -> cnt m = 1;
    i2_ord : ordered R acc }.

  Lemma relax_inv e R (HR : NoDup R) : forall ps cl cnt acc,
    Inv2 e R ps cl cnt acc ->
    let '(cl', cnt') := relax ps cl cnt in
    Inv2 e R [] cl' cnt' acc /\ (exists k, cl' = k ++ cl).
  Proof.
    induction ps as [|p ps IH]; intros cl cnt acc HI; simpl.
    - split; [assumption|exists []; reflexivity].
    - destruct HI as [Hnd HinR HpsR Hdone Htodo Hready Hord].
      assert (HpR : In p R) by (apply HpsR; now left).
      assert (Hpn : ~ In p (cl ++ acc)).
      { intros Hin. specialize (Hdone p Hin). rewrite cocc_cons_eq in Hdone. lia. }
      destruct (Htodo p HpR Hpn) as [Hcp Hge].
      rewrite cocc_cons_eq in Hcp.
      destruct (cnt p =? 1) eqn:Hc1.
      + apply Nat.eqb_eq in Hc1.
        specialize (IH (p :: cl) cnt acc).
        destruct (relax ps (p :: cl) cnt) as [cl' cnt'].
        destruct IH as [HI' [k Hk]].
        * constructor.
          -- simpl. constructor; assumption.
          -- intros m [<-|Hm]; auto.
          -- intros m Hm. apply HpsR. now right.
          -- intros m [<-|Hm]; [lia|].
             specialize (Hdone m Hm).
             destruct (Nat.eq_dec p m) as [->|Hne]; [tauto|].
             rewrite cocc_cons_neq in Hdone by assumption. assumption.
          -- intros m HmR Hmn.
             assert (Hne : p <> m) by (intros ->; apply Hmn; now left).
             assert (Hmn' : ~ In m (cl ++ acc)) by (intros H; apply Hmn; now right).
             destruct (Htodo m HmR Hmn') as [H1 H2].
             rewrite cocc_cons_neq in H1 by assumption. auto.
          -- intros m [<-|Hm]; auto.
          -- assumption.
        * split; [assumption|]. exists (k ++ [p]). rewrite <- app_assoc. assumption.
      + apply Nat.eqb_neq in Hc1.
        specialize (IH cl (upd cnt p (cnt p - 1)) acc).
        destruct (relax ps cl (upd cnt p (cnt p - 1))) as [cl' cnt'].
        apply IH. constructor.
        * assumption.
        * assumption.
        * intros m Hm. apply HpsR. now right.
        * intros m Hm. specialize (Hdone m Hm).
          destruct (Nat.eq_dec p m) as [->|Hne]; [tauto|].
          rewrite cocc_cons_neq in Hdone by assumption. assumption.
        * intros m HmR Hmn.
          destruct (Nat.eq_dec m p) as [->|Hne].
          -- rewrite upd_same. lia.
          -- rewrite upd_other by assumption.
             destruct (Htodo m HmR Hmn) as [H1 H2].
             rewrite cocc_cons_neq in H1 by congruence. auto.
        * intros m Hm. assert (m <> p).
          { intros ->. apply Hpn. apply in_or_app. now left. }
          rewrite upd_other by assumption. auto.
        * assumption.
  Qed.


  Lemma inv2_pop e R n cl cnt acc :
    NoDup R -> (forall m, In m R <-> reach e m) ->
    Inv2 e R [] (n :: cl) cnt acc ->
    Inv2 e R (parents n) cl cnt (n :: acc).
  Proof.
    intros HR HRr [Hnd HinR _ Hdone Htodo Hready Hord].
    assert (HnR : In n R) by (apply HinR; now left).
    assert (Hnacc : ~ In n acc).
    { simpl in Hnd. inversion Hnd as [|? ? Hn _]; subst.
      intros H; apply Hn. apply in_or_app. now right. }
    assert (Hmem : forall m, In m (cl ++ n :: acc) <-> In m ((n :: cl) ++ acc)).
    { intros m. simpl. rewrite !in_app_iff. simpl. tauto. }
    constructor.
    - eapply Permutation_NoDup; [|exact Hnd]. simpl. apply Permutation_middle.
    - intros m Hm. apply HinR. now apply Hmem.
    - intros m Hm. apply HRr. eapply reach_step; [|exact Hm]. now apply HRr.
    - intros m Hm. apply Hmem in Hm. specialize (Hdone m Hm). simpl in Hdone.
      pose proof (rem_emit R acc n m HR HnR Hnacc). lia.
    - intros m HmR Hmn. rewrite Hmem in Hmn.
      destruct (Htodo m HmR Hmn) as [H1 H2]. simpl in H1.
      pose proof (rem_emit R acc n m HR HnR Hnacc). split; lia.
    - intros m Hm. apply Hready. now right.
    - intros a1 m a2 Heq c Hc Hm.
      destruct a1 as [|x a1]; simpl in Heq; inversion Heq; subst.
      + assert (Hz : rem R a2 m = 0).
        { specialize (Hdone m (or_introl eq_refl)). simpl in Hdone. lia. }
        eapply rem_zero; eauto.
      + eapply Hord; eauto.
  Qed.

  Lemma inv2_length e R cl cnt acc :
    Inv2 e R [] cl cnt acc -> length cl + length acc <= length R.
  Proof.
    intros HI. rewrite <- app_length. apply NoDup_incl_length.
    - apply (i2_nodup _ _ _ _ _ _ HI).
    - intros m. apply (i2_inR _ _ _ _ _ _ HI).
  Qed.

  Lemma emit_loop_inv e R :
    NoDup R -> (forall m, In m R <-> reach e m) ->
    forall fuel cl cnt acc,
      Inv2 e R [] cl cnt acc -> length R < fuel + length acc ->
      exists acc' cnt',
        emit_loop parents fuel cl cnt acc = Some (rev acc')
        /\ Inv2 e R [] [] cnt' acc' /\ (exists k, acc' = k ++ acc).
  Proof.
    intros HR HRr. induction fuel as [|f IH]; intros cl cnt acc HI Hf.
    - pose proof (inv2_length _ _ _ _ _ HI). simpl in Hf. lia.
    - destruct cl as [|n cl0]; simpl.
      + exists acc, cnt. split; [reflexivity|]. split; [assumption|].
        exists []. reflexivity.
      + pose proof (inv2_pop e R n cl0 cnt acc HR HRr HI) as Hpop.
        pose proof (relax_inv e R HR (parents n) cl0 cnt (n :: acc) Hpop) as Hrel.
        destruct (relax (parents n) cl0 cnt) as [cl' cnt'].
        destruct Hrel as [HI' _].
        destruct (IH cl' cnt' (n :: acc) HI') as (acc' & cnt'' & H1 & H2 & k & Hk).
        * simpl. lia.
        * exists acc', cnt''. split; [assumption|]. split; [assumption|].
          exists (k ++ [n]). rewrite <- app_assoc. assumption.
  Qed.

  Lemma reach_consumer e m :
    reach e m -> m <> e -> exists c, reach e c /\ In m (parents c).
  Proof.
    intros H. inversion H as [|c p Hc Hp]; subst; [congruence|].
    intros _. exists c. auto.
  Qed.

  Lemma inv2_init e cnt R :
    Counted e cnt R -> Inv2 e R [] [e] cnt [].
  Proof.
    intros [HR HRr Hcnt].
    assert (HeR : In e R) by (apply HRr; constructor).
    assert (He0 : cocc (edges R) e = 0).
    { destruct (cocc (edges R) e) eqn:Hc; [reflexivity|].
      assert (Hpos : cocc (edges R) e > 0) by lia.
      apply cocc_edges_pos in Hpos. destruct Hpos as (c & HcR & He).
      apply HRr in HcR. apply reach_le in HcR. apply dag in He. lia. }
    constructor.
    - simpl. constructor; [tauto|constructor].
    - intros m [<-|[]]. assumption.
    - intros m [].
    - intros m [<-|[]]. simpl. now rewrite rem_nil.
    - intros m HmR Hmn. simpl. rewrite rem_nil.
      assert (Hne : m <> e) by (intros ->; apply Hmn; now left).
      rewrite (Hcnt m HmR).
      assert (Hb : (m =? e) = false) by now apply Nat.eqb_neq.
      rewrite Hb. simpl. split; [reflexivity|].
      destruct (reach_consumer e m (proj1 (HRr m) HmR) Hne) as (c & Hc & Hm).
      assert (cocc (edges R) m > 0).
      { apply cocc_edges_pos. exists c. split; [now apply HRr|assumption]. }
      lia.
    - intros m [<-|[]]. rewrite (Hcnt e HeR), Nat.eqb_refl, He0. reflexivity.
    - intros a1 m a2 Heq. destruct a1; discriminate.
  Qed.

  Lemma inv2_complete e R cnt acc :
    (forall m, In m R <-> reach e m) ->
    Inv2 e R [] [] cnt acc -> forall m, In m R -> In m acc.
  Proof.
    intros HRr HI.
    assert (Hk : forall k m, e - m <= k -> In m R -> In m acc).
    { induction k as [|k IHk]; intros m Hle HmR.
      - destruct (in_dec Nat.eq_dec m acc) as [Hin|Hnin]; [assumption|exfalso].
        destruct (i2_todo _ _ _ _ _ _ HI m HmR Hnin) as [H1 H2]. simpl in H1.
        assert (Hpos : rem R acc m > 0) by lia.
        apply rem_pos in Hpos. destruct Hpos as (c & HcR & Hcn & Hm).
        apply dag in Hm. apply HRr in HcR. apply reach_le in HcR. lia.
      - destruct (in_dec Nat.eq_dec m acc) as [Hin|Hnin]; [assumption|exfalso].
        destruct (i2_todo _ _ _ _ _ _ HI m HmR Hnin) as [H1 H2]. simpl in H1.
        assert (Hpos : rem R acc m > 0) by lia.
        apply rem_pos in Hpos. destruct Hpos as (c & HcR & Hcn & Hm).
        apply Hcn. apply IHk; [|assumption].
        apply dag in Hm. lia. }
    intros m. apply (Hk (e - m)). lia.
  Qed.

  (* c is emitted strictly before p *)
  Definition before (c p : nat) (ord : list nat) : Prop :=
    exists l1 l2, ord = l1 ++ p :: l2 /\ In c l1.

  Theorem toposort_correct e :
    exists ord, toposort parents e = Some ord
      /\ NoDup ord
      /\ (forall m, In m ord <-> reach e m)
      /\ (exists tl, ord = e :: tl)
      /\ (forall c p, reach e c -> In p (parents c) -> before c p ord).
  Proof.
    destruct (phase1 e) as (cnt & R & Hloop & HC).
    pose proof HC as [HR HRr Hcnt].
    unfold toposort. rewrite Hloop.
    pose proof (inv2_init e cnt R HC) as HI0.
    unfold fuel2. change (2 + e) with (S (S e)). cbn [emit_loop].
    pose proof (inv2_pop e R e [] cnt [] HR HRr HI0) as Hpop.
    pose proof (relax_inv e R HR (parents e) [] cnt [e] Hpop) as Hrel.
    destruct (relax (parents e) [] cnt) as [cl' cnt'].
    destruct Hrel as [HI1 _].
    assert (HlenR : length R <= S e).
    { rewrite <- (seq_length (S e) 0). apply NoDup_incl_length; [assumption|].
      intros m Hm. apply in_seq. apply HRr in Hm. apply reach_le in Hm. lia. }
    destruct (emit_loop_inv e R HR HRr (S e) cl' cnt' [e] HI1)
      as (acc & cnt'' & Hem & HI2 & k & Hk).
    { simpl. lia. }
    exists (rev acc). split; [assumption|].
    assert (Hnd : NoDup acc) by (apply (i2_nodup _ _ _ _ _ _ HI2)).
    split; [now apply NoDup_rev|].
    split.
    { intros m. rewrite <- in_rev. split.
      - intros Hm. apply HRr. apply (i2_inR _ _ _ _ _ _ HI2). assumption.
      - intros Hm. apply (inv2_complete e R cnt'' acc HRr HI2). now apply HRr. }
    split.
    { exists (rev k). subst acc. rewrite rev_app_distr. reflexivity. }
    intros c p Hc Hp.
    assert (HpA : In p acc).
    { apply (inv2_complete e R cnt'' acc HRr HI2). apply HRr.
      eapply reach_step; eauto. }
    apply in_split in HpA. destruct HpA as (a1 & a2 & Hacc).
    exists (rev a2), (rev a1). split.
    - rewrite Hacc, rev_app_distr. simpl. now rewrite <- app_assoc.
    - rewrite <- in_rev. eapply (i2_ord _ _ _ _ _ _ HI2); eauto.
      now apply HRr.
  Qed.
End Proofs.
