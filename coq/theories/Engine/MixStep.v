(* The primitive wrapper computes the tower operation at every level, for any
   mixture of forward and reverse levels. *)
From Coq Require Import List Arith Bool ZArith Lia.
Import ListNotations.
From AG Require Import Toposort Tagged Tower TaggedProof TowerAlg FwdCorrect.
From AG Require Import TowerRing MixInterp.
Local Open Scope Z_scope.

Definition sext (s s' : zstate) : Prop :=
  top Z s' = top Z s /\ noise Z s' = noise Z s /\ exists e, store Z s' = store Z s ++ e.
Definition SInv (st : zstore) : Prop :=
  forall idx nd, nth_error st idx = Some nd -> Forall (fun p => (p < idx)%nat) (n_parents Z nd).

Lemma sext_refl s : sext s s.
Proof. repeat split. exists []. now rewrite app_nil_r. Qed.
Lemma sext_trans s1 s2 s3 : sext s1 s2 -> sext s2 s3 -> sext s1 s3.
Proof.
  intros (A1 & A2 & e1 & A3) (B1 & B2 & e2 & B3). repeat split; try congruence.
  exists (e1 ++ e2). rewrite B3, A3. now rewrite app_assoc.
Qed.
Lemma sext_wf s s' L v : sext s s' -> wf (store Z s) L v -> wf (store Z s') L v.
Proof. intros (_ & _ & e & ->). apply wf_ext. Qed.
Lemma sext_interp s s' L v : sext s s' -> wf (store Z s) L v -> interp (store Z s') L v = interp (store Z s) L v.
Proof. intros (_ & _ & e & ->). apply interp_ext. Qed.
Lemma sext_wfs s s' L vs : sext s s' -> Forall (wf (store Z s) L) vs -> Forall (wf (store Z s') L) vs.
Proof. intros H. apply Forall_impl. intros v. now apply sext_wf. Qed.
Lemma sext_interps s s' L vs :
  sext s s' -> Forall (wf (store Z s) L) vs -> map (interp (store Z s') L) vs = map (interp (store Z s) L) vs.
Proof.
  intros H Hw. apply map_ext_in. intros v Hv. apply sext_interp; [assumption|].
  rewrite Forall_forall in Hw. auto.
Qed.

Definition mgood (L : list level) (s : zstate) (sp : option (T (length L))) (m : M Z zvalue) : Prop :=
  sext s (snd m) /\ SInv (store Z (snd m)) /\
  match fst m with
  | Val r => wf (store Z (snd m)) L r /\ sp = Some (interp (store Z (snd m)) L r)
  | Err _ => sp = None
  | OutOfFuel => True
  end.

Lemma mgood_ret L s v : SInv (store Z s) -> wf (store Z s) L v -> mgood L s (Some (interp (store Z s) L v)) (ret Z v s).
Proof. intros Hi Hw. split; [apply sext_refl|]. split; simpl; auto. Qed.

Lemma mgood_bind L s sp1 sp2 m k :
  mgood L s sp1 m ->
  (forall r s1, sext s s1 -> SInv (store Z s1) -> wf (store Z s1) L r ->
                sp1 = Some (interp (store Z s1) L r) -> mgood L s1 sp2 (k r s1)) ->
  (sp1 = None -> sp2 = None) ->
  mgood L s sp2 (bind Z m k).
Proof.
  intros (Hs & Hi & Hm) Hk Hn. destruct m as [[r|c|] s1]; cbn [fst snd bind] in *.
  - destruct Hm as [Hw He]. destruct (Hk r s1 Hs Hi Hw He) as (Hs2 & Hi2 & Hm2).
    unfold mgood. split; [exact (sext_trans _ _ _ Hs Hs2)|]. split; [exact Hi2|exact Hm2].
  - unfold mgood. cbn [fst snd]. split; [assumption|]. split; [assumption|]. auto.
  - unfold mgood. cbn [fst snd]. split; [assumption|]. split; [assumption|]. exact I.
Qed.

Lemma mgood_bind2 L L' s sp1 sp2 m k :
  mgood L s sp1 m ->
  (forall r s1, sext s s1 -> SInv (store Z s1) -> wf (store Z s1) L r ->
                sp1 = Some (interp (store Z s1) L r) -> mgood L' s1 sp2 (k r s1)) ->
  (sp1 = None -> sp2 = None) ->
  mgood L' s sp2 (bind Z m k).
Proof.
  intros (Hs & Hi & Hm) Hk Hn. destruct m as [[r|c|] s1]; cbn [fst snd bind] in *.
  - destruct Hm as [Hw He]. destruct (Hk r s1 Hs Hi Hw He) as (Hs2 & Hi2 & Hm2).
    unfold mgood. split; [exact (sext_trans _ _ _ Hs Hs2)|]. split; [exact Hi2|exact Hm2].
  - unfold mgood. cbn [fst snd]. split; [assumption|]. split; [assumption|]. auto.
  - unfold mgood. cbn [fst snd]. split; [assumption|]. split; [assumption|]. exact I.
Qed.

Lemma mgood_eq L s sp sp' m : sp = sp' -> mgood L s sp m -> mgood L s sp' m.
Proof. now intros ->. Qed.

Lemma mgood_fail_bind L' L s m k : mgood L s None m -> mgood L' s None (bind Z m k).
Proof.
  intros (Hs & Hi & Hm). destruct m as [[r|c|] s1]; cbn [fst snd bind] in *.
  - destruct Hm as [_ Hm]. discriminate.
  - unfold mgood. cbn [fst snd]. split; [assumption|]. split; [assumption|]. reflexivity.
  - unfold mgood. cbn [fst snd]. split; [assumption|]. split; [assumption|]. exact I.
Qed.

Lemma mgood_bind_ret L s sp m : mgood L s sp m -> mgood L s sp (bind Z m (fun c s1 => ret Z c s1)).
Proof.
  intros H. apply (mgood_bind L s sp sp m); [assumption| |auto].
  intros r s1 Hs Hi Hw ->. now apply mgood_ret.
Qed.

Definition MAP (L : list level) : Prop :=
  forall fuel p args s,
    allowed p = true -> SInv (store Z s) -> Forall (wf (store Z s) L) args ->
    mgood L s (tprimN (length L) p (map (interp (store Z s) L) args)) (zapply fuel p args s).

Lemma MAP_nil : MAP [].
Proof.
  intros fuel p args s Hp Hi Hw. destruct fuel as [|f]; [split; [apply sext_refl|]; split; simpl; auto|].
  change (map (interp (store Z s) []) args) with (map (strip Z) args).
  cbn [apply_prim].
  assert (Hw0 : Forall (FwdCorrect.wf []) args).
  { eapply Forall_impl; [|exact Hw]. intros v Hv. exact Hv. }
  destruct (nums_level0 _ Hw0) as [-> ->].
  destruct (map (strip Z) args) as [|a [|b [|c r]]]; destruct p; try discriminate;
    cbn [raw all_num tprimN tprim1 tprim2 ret length]; unfold mgood; cbn [fst snd];
    (split; [apply sext_refl|]; split; [assumption|]); try reflexivity.
  all: try (split; [exact I|reflexivity]).
Qed.

(* ---------- the tangent of a primitive as a sum of partial derivative times tangent ---------- *)
Lemma tangent1 n p a a' :
  diffable p = true ->
  tprim1 (S n) p (a, a') =
  match tprim1 n p a with Some c => Some (c, tmul n (dprim n p 0 [a]) a') | None => None end.
Proof.
  destruct p; simpl; try discriminate; intros _; try reflexivity.
  - now rewrite tmul_neg1_l.
Qed.
Lemma tangent2 n p a a' b b' :
  diffable p = true ->
  tprim2 (S n) p (a, a') (b, b') =
  match tprim2 n p a b with
  | Some c => Some (c, tadd n (tmul n (dprim n p 0 [a; b]) a') (tmul n (dprim n p 1 [a; b]) b'))
  | None => None
  end.
Proof.
  destruct p; simpl; try discriminate; intros _; try reflexivity.
  - now rewrite !tmul_1_l.
  - now rewrite tmul_1_l, tmul_neg1_l, (tsub_def n a' b').
  - now rewrite (tmul_comm n a' b).
Qed.

(* ---------- the derivative rules, run through the wrapper at level L ---------- *)
Section Rules.
  Variable L : list level.
  Hypothesis IH : MAP L.

  Ltac ap_ih q xs :=
    apply (IH _ q xs); [reflexivity|assumption|repeat constructor; assumption].

  Lemma rule_shape p (args : list zvalue) :
    diffable p = true -> length args = arity p ->
    (exists x, args = [x] /\ (p = PNeg \/ exists j, p = PF j))
    \/ (exists x y, args = [x; y] /\ (p = PAdd \/ p = PSub \/ p = PMul)).
  Proof.
    destruct p; simpl; try discriminate; intros _ Hl;
      destruct args as [|x [|y [|z r]]]; try discriminate; eauto 8.
  Qed.

  Lemma jvp_rule_good f p k g ans args s :
    diffable p = true -> length args = arity p -> (k < arity p)%nat ->
    SInv (store Z s) -> Forall (wf (store Z s) L) args -> wf (store Z s) L g ->
    mgood L s (Some (tmul (length L) (dprim (length L) p k (map (interp (store Z s) L) args))
                          (interp (store Z s) L g)))
          (jvp_rule Z (zapply f) p k g ans args s).
  Proof.
    intros Hp Hl Hk Hi Hw Hg.
    destruct (rule_shape p args Hp Hl) as [(x & -> & Hpp)|(x & y & -> & Hpp)].
    - inversion Hw as [|? ? Hwx _]; subst.
      destruct Hpp as [->|[j ->]]; cbn [jvp_rule dprim map].
      + eapply mgood_eq; [|ap_ih PNeg [g]]. cbn [map tprimN tprim1]. now rewrite tmul_neg1_l.
      + eapply mgood_bind; [ap_ih (PF (S j)) [x]| |discriminate].
        intros d s1 Hs1 Hi1 Hwd Hd. cbn [map tprimN tprim1] in Hd. inversion Hd as [Hd'].
        pose proof (sext_wf _ _ _ _ Hs1 Hg) as Hg1.
        eapply mgood_eq; [|apply (IH f PMul [g; d] s1); [reflexivity|assumption|repeat constructor; assumption]].
        cbn [map tprimN tprim2]. rewrite <- Hd', (sext_interp _ _ _ _ Hs1 Hg). now rewrite tmul_comm.
    - inversion Hw as [|? ? Hwx Hw']; subst. inversion Hw' as [|? ? Hwy _]; subst.
      destruct Hpp as [->|[->| ->]]; cbn [arity] in Hk; destruct k as [|[|k]]; try lia; cbn [jvp_rule dprim map].
      + eapply mgood_eq; [|apply mgood_ret; assumption]. now rewrite tmul_1_l.
      + eapply mgood_eq; [|apply mgood_ret; assumption]. now rewrite tmul_1_l.
      + eapply mgood_eq; [|apply mgood_ret; assumption]. now rewrite tmul_1_l.
      + eapply mgood_eq; [|ap_ih PNeg [g]]. cbn [map tprimN tprim1]. now rewrite tmul_neg1_l.
      + eapply mgood_eq; [|ap_ih PMul [g; y]]. cbn [map tprimN tprim2]. now rewrite tmul_comm.
      + eapply mgood_eq; [|ap_ih PMul [x; g]]. reflexivity.
  Qed.

  Lemma vjp_rule_good f p k g ans args s :
    diffable p = true -> length args = arity p -> (k < arity p)%nat ->
    SInv (store Z s) -> Forall (wf (store Z s) L) args -> wf (store Z s) L g ->
    mgood L s (Some (tmul (length L) (dprim (length L) p k (map (interp (store Z s) L) args))
                          (interp (store Z s) L g)))
          (vjp_rule Z (zapply f) p k g ans args s).
  Proof.
    intros Hp Hl Hk Hi Hw Hg.
    destruct (rule_shape p args Hp Hl) as [(x & -> & Hpp)|(x & y & -> & Hpp)].
    - inversion Hw as [|? ? Hwx _]; subst.
      destruct Hpp as [->|[j ->]]; cbn [vjp_rule dprim map].
      + eapply mgood_eq; [|ap_ih PNeg [g]]. cbn [map tprimN tprim1]. now rewrite tmul_neg1_l.
      + eapply mgood_bind; [ap_ih (PF (S j)) [x]| |discriminate].
        intros d s1 Hs1 Hi1 Hwd Hd. cbn [map tprimN tprim1] in Hd. inversion Hd as [Hd'].
        pose proof (sext_wf _ _ _ _ Hs1 Hg) as Hg1.
        eapply mgood_eq; [|apply (IH f PMul [g; d] s1); [reflexivity|assumption|repeat constructor; assumption]].
        cbn [map tprimN tprim2]. rewrite <- Hd', (sext_interp _ _ _ _ Hs1 Hg). now rewrite tmul_comm.
    - inversion Hw as [|? ? Hwx Hw']; subst. inversion Hw' as [|? ? Hwy _]; subst.
      destruct Hpp as [->|[->| ->]]; cbn [arity] in Hk; destruct k as [|[|k]]; try lia; cbn [vjp_rule dprim map].
      + eapply mgood_eq; [|apply mgood_ret; assumption]. now rewrite tmul_1_l.
      + eapply mgood_eq; [|apply mgood_ret; assumption]. now rewrite tmul_1_l.
      + eapply mgood_eq; [|apply mgood_ret; assumption]. now rewrite tmul_1_l.
      + eapply mgood_eq; [|ap_ih PNeg [g]]. cbn [map tprimN tprim1]. now rewrite tmul_neg1_l.
      + eapply mgood_eq; [|ap_ih PMul [y; g]]. reflexivity.
      + eapply mgood_eq; [|ap_ih PMul [x; g]]. reflexivity.
  Qed.
End Rules.

(* ---------- helpers for the step ---------- *)
Lemma mnot_top_wf st t m L v : wf st ((t, m) :: L) v -> is_top Z t v = false -> wf st L v.
Proof.
  simpl. destruct v as [k|t' i nd]; simpl; [tauto|]. intros H E. now rewrite E in H.
Qed.
Lemma mnot_top_interp st t m L v :
  is_top Z t v = false -> interp st ((t, m) :: L) v = tlift (length L) (interp st L v).
Proof.
  simpl. destruct v as [k|t' i nd]; simpl; [reflexivity|]. intros E. now rewrite E.
Qed.

Definition kind_of_mode (m : lmode) : kind := match m with LF => KJ | LR _ => KV end.

Lemma mtop_kind st t m L v :
  wf st ((t, m) :: L) v -> is_top Z t v = true ->
  exists i nd, v = VB t i nd /\ kind_of Z nd = kind_of_mode m.
Proof.
  intros H E. destruct v as [k|t' i nd]; simpl in E; [discriminate|].
  apply Z.eqb_eq in E. subst t'. exists i, nd. split; [reflexivity|].
  simpl in H. rewrite Z.eqb_refl in H. destruct m, nd; simpl; tauto.
Qed.

Lemma find_top_at_mix st t m L args :
  ldesc ((t, m) :: L) -> Forall (wf st ((t, m) :: L)) args -> existsb (is_top Z t) args = true ->
  find_top Z args (-1) None = (t, Some (kind_of_mode m)).
Proof.
  intros Hd Hw He. destruct (find_top Z args (-1) None) as [tt k] eqn:E.
  destruct (find_top_spec Z _ _ _ _ _ E) as (H1 & H2 & H3).
  apply existsb_exists in He. destruct He as (a & Hin & Ha).
  rewrite Forall_forall in Hw.
  destruct (mtop_kind _ _ _ _ _ (Hw _ Hin) Ha) as (ia & na & -> & Hka).
  pose proof (H2 _ _ _ Hin) as Hle.
  unfold ldesc in Hd. simpl in Hd. destruct Hd as (Hlt & Hpos & Hd').
  destruct H3 as [[-> _]|(i & n & Hin' & -> & Hgt)]; [lia|].
  pose proof (Hw _ Hin') as Hwf. pose proof (wf_outer _ _ _ _ _ Hwf) as Hmem.
  simpl in Hmem. destruct Hmem as [<-|Hmem].
  - f_equal. f_equal.
    assert (Ht : is_top Z t (VB t i n) = true) by (simpl; apply Z.eqb_refl).
    destruct (mtop_kind _ _ _ _ _ Hwf Ht) as (i2 & n2 & Heq & Hk2). inversion Heq; subst. assumption.
  - specialize (Hlt _ Hmem). lia.
Qed.

Lemma mgood_up t m L s sp mm :
  ldesc ((t, m) :: L) -> mgood L s sp mm ->
  mgood ((t, m) :: L) s (match sp with Some r => Some (tlift (length L) r) | None => None end) mm.
Proof.
  intros Hd (Hs & Hi & Hm). split; [assumption|]. split; [assumption|].
  destruct (fst mm) as [r|c|]; [| |exact I].
  - destruct Hm as [Hw ->]. split; [now apply wf_weaken|]. f_equal. symmetry. now apply interp_weaken.
  - now rewrite Hm.
Qed.

Lemma tprimN_some_arity n p xs r : allowed p = true -> is_notrace p = false ->
  tprimN n p xs = Some r -> diffable p = true /\ length xs = arity p.
Proof.
  destruct xs as [|a [|b [|c q]]]; destruct p; simpl; try discriminate; auto.
Qed.

Lemma mtop_shape_F st t L v :
  wf st ((t, LF) :: L) v -> is_top Z t v = true ->
  exists i g, v = VB t i (NJz g) /\ wf st L i /\ wf st L g.
Proof.
  intros H E. destruct v as [k|t' i nd]; simpl in E; [discriminate|].
  apply Z.eqb_eq in E. subst t'. simpl in H. rewrite Z.eqb_refl in H.
  destruct nd as [g|idx]; [|contradiction]. exists i, g. tauto.
Qed.
Lemma mtop_shape_R st t r L v :
  wf st ((t, LR r) :: L) v -> is_top Z t v = true ->
  exists i idx, v = VB t i (NVz idx) /\ wf st L i /\ tnode st (wf st L) r (S idx) idx.
Proof.
  intros H E. destruct v as [k|t' i nd]; simpl in E; [discriminate|].
  apply Z.eqb_eq in E. subst t'. simpl in H. rewrite Z.eqb_refl in H.
  destruct nd as [g|idx]; [contradiction|]. exists i, idx. tauto.
Qed.
Lemma minterp_top_F st t L i g : interp st ((t, LF) :: L) (VB t i (NJz g)) = (interp st L i, interp st L g).
Proof. simpl. now rewrite Z.eqb_refl. Qed.
Lemma minterp_top_R st t r L i idx :
  interp st ((t, LR r) :: L) (VB t i (NVz idx)) = (interp st L i, dnode (length L) st (interp st L) (S idx) idx).
Proof. simpl. now rewrite Z.eqb_refl. Qed.

Lemma mgood_box t L s (spA spT : option (T (length L))) mA kT :
  mgood L s spA mA ->
  (forall ans s1, sext s s1 -> SInv (store Z s1) -> wf (store Z s1) L ans ->
                  spA = Some (interp (store Z s1) L ans) -> mgood L s1 spT (kT ans s1)) ->
  mgood ((t, LF) :: L) s (match spA, spT with Some a, Some b => Some (a, b) | _, _ => None end)
        (bind Z mA (fun ans s1 => bind Z (kT ans s1) (fun tg => ret Z (VB t ans (NJz tg))))).
Proof.
  intros (Hs & Hi & Hm) Hk. destruct mA as [[ans|c|] s1]; cbn [fst snd bind] in *.
  - destruct Hm as [Hw ->]. specialize (Hk ans s1 Hs Hi Hw eq_refl). destruct Hk as (Hs2 & Hi2 & Hk).
    destruct (kT ans s1) as [[tg|c|] s2]; cbn [fst snd bind ret] in *; unfold mgood; cbn [fst snd].
    + destruct Hk as [Hwt ->]. split; [eapply sext_trans; eauto|]. split; [assumption|].
      split.
      * unfold ret. cbn [snd]. simpl. rewrite Z.eqb_refl. split; [eapply sext_wf; eauto|assumption].
      * rewrite minterp_top_F. unfold ret. cbn [snd]. now rewrite (sext_interp _ _ _ _ Hs2 Hw).
    + rewrite Hk. split; [eapply sext_trans; eauto|]. split; [assumption|reflexivity].
    + split; [eapply sext_trans; eauto|]. split; [assumption|exact I].
  - rewrite Hm. unfold mgood. cbn [fst snd]. split; [assumption|]. split; [assumption|reflexivity].
  - unfold mgood. cbn [fst snd]. split; [assumption|]. split; [assumption|exact I].
Qed.

Lemma mwf_top_R st t r L i idx :
  wf st ((t, LR r) :: L) (VB t i (NVz idx)) <-> wf st L i /\ tnode st (wf st L) r (S idx) idx.
Proof. simpl. rewrite Z.eqb_refl. tauto. Qed.
Lemma mwf_top_F st t L i g :
  wf st ((t, LF) :: L) (VB t i (NJz g)) <-> wf st L i /\ wf st L g.
Proof. simpl. rewrite Z.eqb_refl. tauto. Qed.

Lemma diffable_rules p : diffable p = true -> has_jvp p = true /\ has_vjp p = true /\ allowed p = true.
Proof. destruct p; simpl; try discriminate; auto. Qed.

Lemma node_good t r L s s1 p argvals ans ks ps r0 :
  sext s s1 -> SInv (store Z s1) ->
  diffable p = true -> length argvals = arity p ->
  Forall (wf (store Z s) L) argvals ->
  wf (store Z s1) L ans -> r0 = interp (store Z s1) L ans ->
  length ks = length ps -> ps <> [] ->
  Forall (fun k => (k < length argvals)%nat) ks ->
  Forall (fun q => tnode (store Z s) (wf (store Z s) L) r (S q) q) ps ->
  mgood ((t, LR r) :: L) s1
    (Some (r0, tsum (length L)
                    (map (fun kp => tmul (length L)
                                      (dprim (length L) p (fst kp) (map (interp (store Z s) L) argvals))
                                      (dnode (length L) (store Z s) (interp (store Z s) L) (S (snd kp)) (snd kp)))
                         (combine ks ps))))
    (ret Z (VB t ans (NVz (length (store Z s1))))
         {| top := top Z s1;
            store := store Z s1 ++ [{| n_root := false; n_prim := p; n_args := argvals; n_ans := ans;
                                       n_argnums := ks; n_parents := ps |}];
            noise := noise Z s1 |}).
Proof.
  intros Hs Hi Hp Har Hwa Hwans Hr0 Hlen Hne Hks Hps.
  set (node := {| n_root := false; n_prim := p; n_args := argvals; n_ans := ans; n_argnums := ks; n_parents := ps |}).
  set (s2 := {| top := top Z s1; store := store Z s1 ++ [node]; noise := noise Z s1 |}).
  assert (Hs12 : sext s1 s2) by (repeat split; exists [node]; reflexivity).
  assert (Hs2 : sext s s2) by (eapply sext_trans; eauto).
  assert (Hnth : nth_error (store Z s2) (length (store Z s1)) = Some node).
  { simpl. rewrite nth_error_app2 by lia. now rewrite Nat.sub_diag. }
  assert (Hq : forall q, In q ps -> (q < length (store Z s1))%nat).
  { intros q Hq. rewrite Forall_forall in Hps. apply Hps in Hq. apply tnode_lt in Hq.
    destruct Hs as (_ & _ & e & ->). rewrite app_length. lia. }
  unfold mgood, ret. cbn [fst snd]. split; [exact Hs12|]. split.
  - (* the store stays a DAG *)
    intros i nd Hnd. destruct (Nat.lt_ge_cases i (length (store Z s1))) as [Hlt|Hge].
    + simpl in Hnd. rewrite nth_error_app1 in Hnd by assumption. eapply Hi; eauto.
    + assert (i = length (store Z s1)).
      { assert (i < length (store Z s2))%nat by (apply nth_error_Some; congruence).
        simpl in H. rewrite app_length in H. simpl in H. lia. }
      subst i. rewrite Hnth in Hnd. inversion Hnd; subst nd. simpl.
      apply Forall_forall. intros q Hq'. auto.
  - split.
    + apply mwf_top_R. split; [exact (sext_wf _ _ _ _ Hs12 Hwans)|].
      rewrite tnode_S, Hnth. cbn [n_root node n_prim n_args n_argnums n_parents].
      repeat split; try assumption.
      * eapply sext_wfs; eauto.
      * apply Forall_forall. intros q Hq'. split; [auto|].
        rewrite Forall_forall in Hps.
        apply (tnode_mono (store Z s) (store Z s2) (wf (store Z s) L) (wf (store Z s2) L) r) with (f := S q); auto.
        -- destruct Hs2 as (_ & _ & e & He). eauto.
        -- intros v Hv. eapply sext_wf; eauto.
    + rewrite minterp_top_R. f_equal. f_equal.
      * rewrite Hr0. symmetry. exact (sext_interp _ _ _ _ Hs12 Hwans).
      * rewrite dnode_S, Hnth. cbn [n_root node n_prim n_args n_argnums n_parents].
        f_equal. apply map_ext_in. intros [k q] Hkq. cbn [fst snd].
        f_equal; [f_equal; symmetry; exact (sext_interps _ _ _ _ Hs2 Hwa)|].
        apply in_combine_r in Hkq. rewrite Forall_forall in Hps. symmetry.
        apply (dnode_stable (length L) (store Z s) (store Z s2) (interp (store Z s) L) (interp (store Z s2) L)
                            (wf (store Z s) L) r) with (f := S q); auto.
        -- destruct Hs2 as (_ & _ & e & He). eauto.
        -- intros v Hv. eapply sext_interp; eauto.
Qed.

Lemma MAP_step t m L : ldesc ((t, m) :: L) -> MAP L -> MAP ((t, m) :: L).
Proof.
  intros Hd IH fuel p args s Hp Hi Hw.
  destruct (existsb (is_top Z t) args) eqn:Etop.
  2:{ assert (Hnt : forall a, In a args -> is_top Z t a = false).
      { intros a Ha. destruct (is_top Z t a) eqn:E; [|reflexivity].
        assert (existsb (is_top Z t) args = true) by (apply existsb_exists; eauto). congruence. }
      assert (HwL : Forall (wf (store Z s) L) args).
      { rewrite Forall_forall in *. intros a Ha. apply (mnot_top_wf _ t m); auto. }
      assert (Hint : map (interp (store Z s) ((t, m) :: L)) args
                     = map (tlift (length L)) (map (interp (store Z s) L) args)).
      { rewrite map_map. apply map_ext_in. intros a Ha. apply mnot_top_interp. auto. }
      rewrite Hint. change (length ((t, m) :: L)) with (S (length L)). rewrite tprimN_lift.
      apply mgood_up; [assumption|]. now apply IH. }
  destruct fuel as [|f]; [unfold mgood; cbn [apply_prim fst snd]; split; [apply sext_refl|]; split; [assumption|exact I]|].
  cbn [apply_prim]. rewrite (find_top_at_mix _ t m L args Hd Hw Etop).
  set (argvals := map (unbox_at Z t) args).
  assert (HwA : Forall (wf (store Z s) L) argvals).
  { unfold argvals. rewrite Forall_forall in *. intros v Hv. apply in_map_iff in Hv.
    destruct Hv as (a & <- & Ha). eapply wf_unbox. eauto. }
  pose proof (IH f p argvals s Hp Hi HwA) as IHans.
  assert (Hlen : length (map (interp (store Z s) L) argvals) = length (map (interp (store Z s) ((t, m) :: L)) args))
    by (unfold argvals; now rewrite !map_length).
  destruct (tprimN (length L) p (map (interp (store Z s) L) argvals)) as [r0|] eqn:Esp;
    apply (mgood_eq _ _ _ _ _ Esp) in IHans.
  2:{ rewrite (tprimN_none_len _ _ _ _ _ Hlen Esp).
      destruct (is_notrace p).
      - apply (mgood_up t m L s None _ Hd IHans).
      - apply mgood_fail_bind with (L := L). exact IHans. }
  destruct (is_notrace p) eqn:Ent.
  { (* sign: no tracing, the result is a constant of the new level *)
    destruct p; try discriminate.
    destruct args as [|a [|b [|c rest]]]; cbn [tprimN map tprim2] in Esp; try discriminate.
    eapply mgood_eq; [|apply (mgood_up t m L s _ _ Hd IHans)].
    unfold argvals in *. cbn [map tprimN tprim1] in *.
    inversion Hw as [|? ? Hwa _]; subst.
    change (length ((t, m) :: L)) with (S (length L)). cbn [tsign].
    inversion Esp as [E]. unfold tlift. f_equal. f_equal. f_equal. symmetry. exact (fst_interp _ _ _ _ _ Hwa). }
  destruct (tprimN_some_arity _ _ _ _ Hp Ent Esp) as [Hdiff Har].
  rewrite map_length in Har.
  destruct (diffable_rules _ Hdiff) as (Hjvp & Hvjp & _).
  unfold argvals in Har. rewrite map_length in Har.
  destruct m as [|r]; cbn [kind_of_mode].
  - (* ---------- a forward level ---------- *)
    rewrite Hjvp. cbn [negb].
    destruct args as [|a [|b [|c rest]]]; cbn [length] in Har.
    + destruct p; discriminate.
    + (* one argument *)
      simpl in Etop. rewrite orb_false_r in Etop. inversion Hw as [|? ? Hwa _]; subst.
      destruct (mtop_shape_F _ _ _ _ Hwa Etop) as (i & g & -> & Hwi & Hwg).
      unfold argvals in *. cbn [map] in *. rewrite unbox_top in *. rewrite boxed_at_top.
      cbn [boxed_at as_nj fold_right snd fst map]. rewrite minterp_top_F.
      cbn [tprimN] in Esp |- *. change (length ((t, LF) :: L)) with (S (length L)).
      rewrite (tangent1 _ _ _ _ Hdiff), Esp.
      eapply mgood_eq; [|eapply (mgood_box t L s _
            (Some (tmul (length L) (dprim (length L) p 0 [interp (store Z s) L i]) (interp (store Z s) L g))));
            [exact IHans|]].
      * reflexivity.
      * intros ans s1 Hs1 Hi1 Hwans Hans. cbn [jvp_sum]. apply mgood_bind_ret.
        eapply mgood_eq; [|apply (jvp_rule_good L IH f p 0 g ans [i] s1 Hdiff); try assumption].
        -- cbn [map]. now rewrite (sext_interp _ _ _ _ Hs1 Hwi), (sext_interp _ _ _ _ Hs1 Hwg).
        -- destruct p; simpl in *; try discriminate; lia.
        -- repeat constructor. eapply sext_wf; eauto.
        -- eapply sext_wf; eauto.
    + (* two arguments *)
      inversion Hw as [|? ? Hwa Hw']; subst. inversion Hw' as [|? ? Hwb _]; subst. clear Hw'.
      simpl in Etop. rewrite orb_false_r in Etop.
      assert (Hk0 : (0 < arity p)%nat) by lia. assert (Hk1 : (1 < arity p)%nat) by lia.
      cbn [tprimN map] in Esp |- *. change (length ((t, LF) :: L)) with (S (length L)).
      destruct (is_top Z t a) eqn:Ea, (is_top Z t b) eqn:Eb; try discriminate; clear Etop.
      * (* both at the new level *)
        destruct (mtop_shape_F _ _ _ _ Hwa Ea) as (ia & ga & -> & Hwia & Hwga).
        destruct (mtop_shape_F _ _ _ _ Hwb Eb) as (ib & gb & -> & Hwib & Hwgb).
        unfold argvals in *. cbn [map] in *. rewrite !unbox_top in *. rewrite !boxed_at_top.
        cbn [boxed_at as_nj fold_right snd fst map]. rewrite !minterp_top_F.
        cbn [tprimN] in Esp. rewrite (tangent2 _ _ _ _ _ _ Hdiff), Esp.
        eapply mgood_eq; [|eapply (mgood_box t L s _
              (Some (tadd (length L)
                       (tmul (length L) (dprim (length L) p 0 [interp (store Z s) L ia; interp (store Z s) L ib]) (interp (store Z s) L ga))
                       (tmul (length L) (dprim (length L) p 1 [interp (store Z s) L ia; interp (store Z s) L ib]) (interp (store Z s) L gb)))));
              [exact IHans|]].
        -- reflexivity.
        -- intros ans s1 Hs1 Hi1 Hwans Hans. cbn [jvp_sum].
           assert (Hargs1 : Forall (wf (store Z s1) L) [ia; ib]) by (repeat constructor; eapply sext_wf; eauto).
           assert (Har2 : length [ia; ib] = arity p) by exact Har.
           pose proof (jvp_rule_good L IH f p 0 ga ans [ia; ib] s1 Hdiff Har2 Hk0 Hi1 Hargs1 (sext_wf _ _ _ _ Hs1 Hwga)) as R0.
           eapply mgood_bind; [exact R0| |discriminate].
           intros c0 s2 Hs2 Hi2 Hwc0 Hc0. inversion Hc0 as [Hc0'].
           assert (Hs12 : sext s s2) by (eapply sext_trans; eauto).
           pose proof (jvp_rule_good L IH f p 1 gb ans [ia; ib] s2 Hdiff Har2 Hk1 Hi2
                         (sext_wfs _ _ _ _ Hs2 Hargs1) (sext_wf _ _ _ _ Hs12 Hwgb)) as R1.
           eapply mgood_bind; [exact R1| |discriminate].
           intros c1 s3 Hs3 Hi3 Hwc1 Hc1. inversion Hc1 as [Hc1'].
           eapply mgood_bind; [apply (IH f PAdd [c0; c1] s3); [reflexivity|assumption|
                               repeat constructor; [eapply sext_wf; eauto|assumption]]| |discriminate].
           intros rr s4 Hs4 Hi4 Hwr Hr. cbn [map tprimN tprim2] in Hr.
           eapply mgood_eq; [|apply mgood_ret; assumption]. rewrite <- Hr. f_equal.
           rewrite (sext_interp _ _ _ _ Hs3 Hwc0), <- Hc0', <- Hc1'. cbn [map].
           rewrite (sext_interp _ _ _ _ Hs2 (sext_wf _ _ _ _ Hs1 Hwia)), (sext_interp _ _ _ _ Hs2 (sext_wf _ _ _ _ Hs1 Hwib)).
           rewrite (sext_interp _ _ _ _ Hs1 Hwia), (sext_interp _ _ _ _ Hs1 Hwib), (sext_interp _ _ _ _ Hs1 Hwga).
           now rewrite (sext_interp _ _ _ _ Hs12 Hwgb).
      * (* only the first argument at the new level *)
        destruct (mtop_shape_F _ _ _ _ Hwa Ea) as (ia & ga & -> & Hwia & Hwga).
        pose proof (mnot_top_wf _ _ _ _ _ Hwb Eb) as HwbL.
        unfold argvals in *. cbn [map] in *. rewrite unbox_top in *. rewrite (unbox_nottop _ _ Eb) in *.
        rewrite boxed_at_top, (boxed_at_nottop _ _ _ _ Eb).
        cbn [boxed_at as_nj fold_right snd fst map]. rewrite minterp_top_F, (mnot_top_interp _ _ _ _ _ Eb).
        unfold tlift. cbn [tprimN] in Esp. rewrite (tangent2 _ _ _ _ _ _ Hdiff), Esp.
        eapply mgood_eq; [|eapply (mgood_box t L s _
              (Some (tmul (length L) (dprim (length L) p 0 [interp (store Z s) L ia; interp (store Z s) L b]) (interp (store Z s) L ga))));
              [exact IHans|]].
        -- now rewrite tmul_0_r, tadd_0_r.
        -- intros ans s1 Hs1 Hi1 Hwans Hans. cbn [jvp_sum]. apply mgood_bind_ret.
           assert (Hargs1 : Forall (wf (store Z s1) L) [ia; b]) by (repeat constructor; eapply sext_wf; eauto).
           assert (Har2 : length [ia; b] = arity p) by exact Har.
           eapply mgood_eq; [|exact (jvp_rule_good L IH f p 0 ga ans [ia; b] s1 Hdiff Har2 Hk0 Hi1 Hargs1 (sext_wf _ _ _ _ Hs1 Hwga))].
           cbn [map]. now rewrite (sext_interp _ _ _ _ Hs1 Hwia), (sext_interp _ _ _ _ Hs1 HwbL), (sext_interp _ _ _ _ Hs1 Hwga).
      * (* only the second argument at the new level *)
        destruct (mtop_shape_F _ _ _ _ Hwb Eb) as (ib & gb & -> & Hwib & Hwgb).
        pose proof (mnot_top_wf _ _ _ _ _ Hwa Ea) as HwaL.
        unfold argvals in *. cbn [map] in *. rewrite unbox_top in *. rewrite (unbox_nottop _ _ Ea) in *.
        rewrite (boxed_at_nottop _ _ _ _ Ea), boxed_at_top.
        cbn [boxed_at as_nj fold_right snd fst map]. rewrite minterp_top_F, (mnot_top_interp _ _ _ _ _ Ea).
        unfold tlift. cbn [tprimN] in Esp. rewrite (tangent2 _ _ _ _ _ _ Hdiff), Esp.
        eapply mgood_eq; [|eapply (mgood_box t L s _
              (Some (tmul (length L) (dprim (length L) p 1 [interp (store Z s) L a; interp (store Z s) L ib]) (interp (store Z s) L gb))));
              [exact IHans|]].
        -- now rewrite tmul_0_r, tadd_0_l.
        -- intros ans s1 Hs1 Hi1 Hwans Hans. cbn [jvp_sum]. apply mgood_bind_ret.
           assert (Hargs1 : Forall (wf (store Z s1) L) [a; ib]) by (repeat constructor; eapply sext_wf; eauto).
           assert (Har2 : length [a; ib] = arity p) by exact Har.
           eapply mgood_eq; [|exact (jvp_rule_good L IH f p 1 gb ans [a; ib] s1 Hdiff Har2 Hk1 Hi1 Hargs1 (sext_wf _ _ _ _ Hs1 Hwgb))].
           cbn [map]. now rewrite (sext_interp _ _ _ _ Hs1 HwaL), (sext_interp _ _ _ _ Hs1 Hwib), (sext_interp _ _ _ _ Hs1 Hwgb).
    + (* three or more arguments *) destruct p; discriminate.
  - (* ---------- a reverse level: the call is recorded as a node ---------- *)
    rewrite Hvjp. cbn [negb].
    destruct args as [|a [|b [|c rest]]]; cbn [length] in Har.
    + destruct p; discriminate.
    + (* one argument *)
      simpl in Etop. rewrite orb_false_r in Etop. inversion Hw as [|? ? Hwa _]; subst.
      destruct (mtop_shape_R _ _ _ _ _ Hwa Etop) as (i & pa & -> & Hwi & Hta).
      unfold argvals in *. cbn [map] in *. rewrite unbox_top in *. rewrite boxed_at_top.
      cbn [boxed_at as_nv fold_right snd fst map]. rewrite minterp_top_R.
      cbn [tprimN] in Esp |- *. change (length ((t, LR r) :: L)) with (S (length L)).
      rewrite (tangent1 _ _ _ _ Hdiff), Esp.
      eapply (mgood_bind2 L); [exact IHans| |discriminate].
      intros ans s1 Hs1 Hi1 Hwans Hans. inversion Hans as [Hans'].
      eapply mgood_eq; [|apply (node_good t r L s s1 p [i] ans [0%nat] [pa] r0 Hs1 Hi1 Hdiff Har HwA Hwans Hans' eq_refl);
                         [discriminate|repeat constructor; simpl; lia|repeat constructor; assumption]].
      cbn [combine map tsum fst snd]. rewrite tadd_0_r. now rewrite Hans'.
    + (* two arguments *)
      inversion Hw as [|? ? Hwa Hw']; subst. inversion Hw' as [|? ? Hwb _]; subst. clear Hw'.
      simpl in Etop. rewrite orb_false_r in Etop.
      cbn [tprimN map] in Esp |- *. change (length ((t, LR r) :: L)) with (S (length L)).
      destruct (is_top Z t a) eqn:Ea, (is_top Z t b) eqn:Eb; try discriminate; clear Etop.
      * destruct (mtop_shape_R _ _ _ _ _ Hwa Ea) as (ia & pa & -> & Hwia & Hta).
        destruct (mtop_shape_R _ _ _ _ _ Hwb Eb) as (ib & pb & -> & Hwib & Htb).
        unfold argvals in *. cbn [map] in *. rewrite !unbox_top in *. rewrite !boxed_at_top.
        cbn [boxed_at as_nv fold_right snd fst map]. rewrite !minterp_top_R.
        cbn [tprimN] in Esp. rewrite (tangent2 _ _ _ _ _ _ Hdiff), Esp.
        eapply (mgood_bind2 L); [exact IHans| |discriminate].
        intros ans s1 Hs1 Hi1 Hwans Hans. inversion Hans as [Hans'].
        eapply mgood_eq; [|apply (node_good t r L s s1 p [ia; ib] ans [0%nat; 1%nat] [pa; pb] r0 Hs1 Hi1 Hdiff Har HwA Hwans Hans' eq_refl);
                           [discriminate|repeat constructor; simpl; lia|repeat constructor; assumption]].
        cbn [combine map tsum fst snd]. rewrite tadd_0_r. now rewrite Hans'.
      * destruct (mtop_shape_R _ _ _ _ _ Hwa Ea) as (ia & pa & -> & Hwia & Hta).
        unfold argvals in *. cbn [map] in *. rewrite unbox_top in *. rewrite (unbox_nottop _ _ Eb) in *.
        rewrite boxed_at_top, (boxed_at_nottop _ _ _ _ Eb).
        cbn [boxed_at as_nv fold_right snd fst map]. rewrite minterp_top_R, (mnot_top_interp _ _ _ _ _ Eb).
        unfold tlift. cbn [tprimN] in Esp. rewrite (tangent2 _ _ _ _ _ _ Hdiff), Esp.
        eapply (mgood_bind2 L); [exact IHans| |discriminate].
        intros ans s1 Hs1 Hi1 Hwans Hans. inversion Hans as [Hans'].
        eapply mgood_eq; [|apply (node_good t r L s s1 p [ia; b] ans [0%nat] [pa] r0 Hs1 Hi1 Hdiff Har HwA Hwans Hans' eq_refl);
                           [discriminate|repeat constructor; simpl; lia|repeat constructor; assumption]].
        cbn [combine map tsum fst snd]. rewrite tadd_0_r, tmul_0_r, tadd_0_r. now rewrite Hans'.
      * destruct (mtop_shape_R _ _ _ _ _ Hwb Eb) as (ib & pb & -> & Hwib & Htb).
        unfold argvals in *. cbn [map] in *. rewrite unbox_top in *. rewrite (unbox_nottop _ _ Ea) in *.
        rewrite (boxed_at_nottop _ _ _ _ Ea), boxed_at_top.
        cbn [boxed_at as_nv fold_right snd fst map]. rewrite minterp_top_R, (mnot_top_interp _ _ _ _ _ Ea).
        unfold tlift. cbn [tprimN] in Esp. rewrite (tangent2 _ _ _ _ _ _ Hdiff), Esp.
        eapply (mgood_bind2 L); [exact IHans| |discriminate].
        intros ans s1 Hs1 Hi1 Hwans Hans. inversion Hans as [Hans'].
        eapply mgood_eq; [|apply (node_good t r L s s1 p [a; ib] ans [1%nat] [pb] r0 Hs1 Hi1 Hdiff Har HwA Hwans Hans' eq_refl);
                           [discriminate|repeat constructor; simpl; lia|repeat constructor; assumption]].
        cbn [combine map tsum fst snd]. rewrite tadd_0_r, tmul_0_r, tadd_0_l. now rewrite Hans'.
    + destruct p; discriminate.
Qed.

Theorem MAP_all L : ldesc L -> MAP L.
Proof.
  induction L as [|[t m] L IH]; intros Hd; [apply MAP_nil|].
  apply MAP_step; [assumption|]. apply IH. unfold ldesc in *. simpl in Hd. tauto.
Qed.
