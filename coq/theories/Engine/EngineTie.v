(* The hand-written models of core.add_outgrads (Array/Index.v: values; Engine/Heap.v: buffer identities) and of
   tracer.find_top_boxed_args are EQUAL to what the translator reads off the source on this run (coq/gen/GenEngine.v):
   a change of a branch of add_outgrads, of a comparison in find_top_boxed_args, or of the id supply changes the generated
   file and breaks these proofs. *)
From Coq Require Import List Arith Bool ZArith.
Import ListNotations.
From AG Require Import VSpace VSpaceProof Index Heap Tagged.
From AGGen Require Import GenEngine.

Section Tie.
  Variable K : Type.
  Variables (k0 : K) (kadd : K -> K -> K).
  Notation vadd := (VSpaceProof.vadd K kadd).
  Notation scatter_into := (Index.scatter_into K kadd).

  Definition has_prev {A} (p : option (A * bool)) : bool := match p with Some _ => true | None => false end.
  Definition is_mutable {A} (p : option (A * bool)) : bool := match p with Some (_, m) => m | None => false end.
  Definition is_sparse (c : contrib K) : bool := match c with Sparse _ _ _ => true | Dense _ _ => false end.

  (* what each action of the source means on values *)
  Definition run_action (a : ao_action) (flag : bool) (n : nat) (prev : option (list K * bool)) (c : contrib K) : list K * bool :=
    let p := match prev with Some (p, _) => p | None => [] end in
    match a, c with
    | AoSparseInto, Sparse _ s g => (scatter_into p s g, flag)                              (* sparse_add(vs, prev_g, g) *)
    | AoMutAdd, Dense _ v => (vadd p v, flag)                                               (* vs.mut_add(prev_g, g) *)
    | AoSparseIntoCopy, Sparse _ s g => (scatter_into (vadd (repeat k0 n) p) s g, flag)     (* copy first, then sparse_add *)
    | AoAdd, Dense _ v => (vadd p v, flag)                                                  (* vs.add(prev_g, g) *)
    | AoSparseIntoZeros, Sparse _ s g => (scatter_into (repeat k0 n) s g, flag)             (* sparse_add(vs, None, g) *)
    | AoPass, Dense _ v => (v, flag)                                                        (* g itself *)
    | _, Dense _ v => (v, flag)
    | _, Sparse _ s g => ([], flag)
    end.

  Theorem add_outgrads_follows_source n prev c :
    Index.add_outgrads K k0 kadd n prev c
    = let '(a, fl) := gen_add_outgrads (has_prev prev) (is_mutable prev) (is_sparse c) in run_action a fl n prev c.
  Proof. destruct prev as [[p [|]]|], c; reflexivity. Qed.

  (* ... and on the heap: which actions write in place, which allocate, which alias *)
  Definition is_hsparse (c : hcontrib) : bool := match c with HSparse _ _ => true | HDense _ => false end.
  Definition run_action_h (a : ao_action) (flag : bool) (n : nat) (prev : option (nat * bool)) (c : hcontrib) (h : heap K)
    : (nat * bool) * heap K :=
    let p := match prev with Some (p, _) => p | None => O end in
    match a, c with
    | AoSparseInto, HSparse s gr => ((p, flag), write K h p (scatter_into (read K h p) s (read K h gr)))          (* in place *)
    | AoMutAdd, HDense r => ((p, flag), write K h p (vadd (read K h p) (read K h r)))                             (* in place *)
    | AoSparseIntoCopy, HSparse s gr =>
      let '(q, h1) := alloc K h (vadd (repeat k0 n) (read K h p)) in                                               (* fresh copy *)
      ((q, flag), write K h1 q (scatter_into (read K h1 q) s (read K h1 gr)))
    | AoAdd, HDense r => let '(q, h1) := alloc K h (vadd (read K h p) (read K h r)) in ((q, flag), h1)             (* fresh sum *)
    | AoSparseIntoZeros, HSparse s gr =>
      let '(z, h1) := alloc K h (repeat k0 n) in ((z, flag), write K h1 z (scatter_into (read K h1 z) s (read K h1 gr)))
    | AoPass, HDense r => ((r, flag), h)                                                                           (* an alias *)
    | _, HDense r => ((r, flag), h)
    | _, HSparse _ gr => ((gr, flag), h)
    end.

  Theorem add_outgrads_heap_follows_source n prev c h :
    Heap.add_outgrads_h K k0 kadd n prev c h
    = let '(a, fl) := gen_add_outgrads (has_prev prev) (is_mutable prev) (is_hsparse c) in run_action_h a fl n prev c h.
  Proof. destruct prev as [[p [|]]|], c; reflexivity. Qed.
End Tie.

(* tracer.find_top_boxed_args: the model scans from -1, a strictly larger trace id becomes the new top, an equal one joins it *)
Theorem find_top_follows_source :
  (gen_find_top_init, gen_find_top_new_top_when, gen_find_top_join_when) = ((-1)%Z, CmpGt, CmpEq).
Proof. reflexivity. Qed.

(* the id supply of tracer.TraceStack.new_trace, as a supply of the model *)
Definition supply_of_source : supply := match gen_supply with GenMono => Mono | GenDepth => Depth end.
