(* The tagged evaluator computes the tower semantics - forward-mode fragment.
   For every expression built from the differentiable primitives, sign, Let,
   IfPos, Fail/Try and arbitrarily nested Deriv (no Grad), every result of the
   tagged evaluator (trace ids, boxes, find_top, JVP rules run through the
   wrapper) is the result of the tag-free tower semantics. *)
From Coq Require Import List Arith Bool ZArith Lia.
Import ListNotations.
From AG Require Import Toposort Tagged Tower TaggedProof.
From AG Require Import TowerAlg.
Local Open Scope Z_scope.

Notation zvalue := (value Z).
Notation zstate := (state Z).
Notation zapply := (apply_prim Z Z.add Z.sub Z.mul Z.opp zF Z.sgn).
Notation zev := (eval Z 0 1 Z.add Z.sub Z.mul Z.opp zF Z.sgn (fun k => Z.gtb k 0) (fun k => k) Mono).
Notation VN := (VNum Z).
Notation VB := (VBox Z).
Notation NJz := (NJ Z).

(* L lists the active trace ids, newest first *)
Fixpoint desc (L : list Z) : Prop :=
  match L with
  | [] => True
  | t :: L' => (forall u, In u L' -> u < t) /\ -1 < t /\ desc L'
  end.

Fixpoint wf (L : list Z) (v : zvalue) : Prop :=
  match L with
  | [] => match v with VNum _ _ => True | VBox _ _ _ _ => False end
  | t :: L' =>
    match v with
    | VBox _ t' i (NJ _ g) => if Z.eqb t' t then wf L' i /\ wf L' g else wf L' v
    | _ => wf L' v
    end
  end.

Fixpoint interp (L : list Z) (v : zvalue) : T (length L) :=
  match L with
  | [] => strip Z v
  | t :: L' =>
    match v with
    | VBox _ t' i (NJ _ g) =>
      if Z.eqb t' t then (interp L' i, interp L' g) else (interp L' v, tzero (length L'))
    | _ => (interp L' v, tzero (length L'))
    end
  end.

Lemma wf_num L k : wf L (VN k).
Proof. induction L as [|t L IH]; simpl; auto. Qed.

Lemma interp_num L k : interp L (VN k) = tconst (length L) k.
Proof. induction L as [|t L IH]; simpl; [reflexivity|]. now rewrite IH. Qed.

Lemma wf_outer L : forall t' i n, wf L (VB t' i n) -> In t' L /\ exists g, n = NJz g.
Proof.
  induction L as [|t L IH]; simpl; intros t' i n H; [contradiction|].
  destruct n as [g|idx].
  - destruct (Z.eqb_spec t' t) as [->|Hne].
    + split; [now left|eauto].
    + destruct (IH _ _ _ H) as [Hin Hg]. split; [now right|assumption].
  - destruct (IH _ _ _ H) as [Hin Hg]. split; [now right|assumption].
Qed.

Lemma desc_notin t L : desc (t :: L) -> ~ In t L.
Proof. simpl. intros [H _] Hin. specialize (H _ Hin). lia. Qed.

(* a value of the older levels is a constant at the new level *)
Lemma wf_weaken t L v : desc (t :: L) -> wf L v -> wf (t :: L) v.
Proof.
  intros Hd H. simpl. destruct v as [k|t' i [g|idx]]; try assumption.
  destruct (Z.eqb_spec t' t) as [->|Hne]; [|assumption].
  exfalso. apply (desc_notin _ _ Hd). now destruct (wf_outer _ _ _ _ H).
Qed.

Lemma interp_weaken t L v : desc (t :: L) -> wf L v -> interp (t :: L) v = tlift (length L) (interp L v).
Proof.
  intros Hd H. simpl. destruct v as [k|t' i [g|idx]]; try reflexivity.
  destruct (Z.eqb_spec t' t) as [->|Hne]; [|reflexivity].
  exfalso. apply (desc_notin _ _ Hd). now destruct (wf_outer _ _ _ _ H).
Qed.

Lemma wf_unbox t L v : wf (t :: L) v -> wf L (unbox_at Z t v).
Proof.
  simpl. destruct v as [k|t' i [g|idx]]; simpl; try tauto.
  - destruct (Z.eqb t' t); tauto.
  - destruct (Z.eqb t' t) eqn:E; [|tauto]. intros H.
    (* a VJP node boxed at t cannot be well-formed *)
    destruct (wf_outer _ _ _ _ H) as [_ [g Hg]]. discriminate.
Qed.

Lemma fst_interp t L v : wf (t :: L) v -> fst (interp (t :: L) v) = interp L (unbox_at Z t v).
Proof.
  simpl. destruct v as [k|t' i [g|idx]]; simpl; try reflexivity.
  - destruct (Z.eqb t' t); reflexivity.
  - destruct (Z.eqb t' t) eqn:E; [|reflexivity]. intros H.
    destruct (wf_outer _ _ _ _ H) as [_ [g Hg]]. discriminate.
Qed.

Lemma tprimal_interp L : forall v, tprimal (length L) (interp L v) = strip Z v.
Proof.
  induction L as [|t L IH]; intros v; simpl; [reflexivity|].
  destruct v as [k|t' i [g|idx]]; simpl.
  - apply (IH (VN k)).
  - destruct (Z.eqb t' t); simpl; rewrite IH; reflexivity.
  - apply (IH (VB t' i (NV Z idx))).
Qed.

(* ------------------------------------------------------------------ *)
Definition allowed (p : prim) : bool :=
  match p with PAdd | PSub | PMul | PNeg | PF _ | PSign => true | _ => false end.

Definition tprimN (n : nat) (p : prim) (args : list (T n)) : option (T n) :=
  match args with
  | [a] => tprim1 n p a
  | [a; b] => tprim2 n p a b
  | _ => None
  end.

Definition good (L : list Z) (s : zstate) (sp : option (T (length L))) (m : M Z zvalue) : Prop :=
  snd m = s /\
  match fst m with
  | Val r => wf L r /\ sp = Some (interp L r)
  | Err _ => sp = None
  | OutOfFuel => True
  end.

Lemma good_ret L s v : wf L v -> good L s (Some (interp L v)) (ret Z v s).
Proof. intros H. split; simpl; auto. Qed.

Lemma good_bind L s sp1 sp2 m k :
  good L s sp1 m ->
  (forall r, wf L r -> sp1 = Some (interp L r) -> good L s sp2 (k r s)) ->
  (sp1 = None -> sp2 = None) ->
  good L s sp2 (bind Z m k).
Proof.
  intros [Hs Hm] Hk Hn. destruct m as [[r|c|] s1]; simpl in *; subst s1.
  - destruct Hm as [Hw He]. apply Hk; assumption.
  - split; [reflexivity|]. simpl. auto.
  - split; [reflexivity|]. exact I.
Qed.

Definition AP (L : list Z) : Prop :=
  forall fuel p args s,
    allowed p = true -> Forall (wf L) args ->
    good L s (tprimN (length L) p (map (interp L) args)) (zapply fuel p args s).

(* ---------- level 0 ---------- *)
Lemma nums_level0 args :
  Forall (wf []) args ->
  find_top Z args (-1) None = (-1, None) /\ all_num Z args = Some (map (strip Z) args).
Proof.
  induction 1 as [|a args Ha _ IH]; simpl; [auto|].
  destruct a as [k|t i n]; [|contradiction]. destruct IH as [-> ->]. auto.
Qed.

Lemma AP_nil : AP [].
Proof.
  intros fuel p args s Hp Hw. destruct fuel as [|f]; [split; simpl; auto|].
  change (map (interp []) args) with (map (strip Z) args).
  cbn [apply_prim]. destruct (nums_level0 _ Hw) as [-> ->].
  destruct (map (strip Z) args) as [|a [|b [|c r]]]; destruct p; try discriminate;
    simpl; split; simpl; auto using wf_num.
Qed.

(* ---------- helpers for the step from L to t :: L ---------- *)
Lemma not_top_wf t L v : wf (t :: L) v -> is_top Z t v = false -> wf L v.
Proof.
  simpl. destruct v as [k|t' i [g|idx]]; simpl; try tauto. intros H E. now rewrite E in H.
Qed.
Lemma not_top_interp t L v : is_top Z t v = false -> interp (t :: L) v = tlift (length L) (interp L v).
Proof.
  simpl. destruct v as [k|t' i [g|idx]]; simpl; try reflexivity. intros E. now rewrite E.
Qed.
Lemma unbox_nottop t v : is_top Z t v = false -> unbox_at Z t v = v.
Proof. destruct v as [k|t' i n]; simpl; [reflexivity|]. now intros ->. Qed.
Lemma top_shape t L v :
  wf (t :: L) v -> is_top Z t v = true ->
  exists i g, v = VB t i (NJz g) /\ wf L i /\ wf L g.
Proof.
  intros H E. destruct v as [k|t' i n]; simpl in E; [discriminate|].
  apply Z.eqb_eq in E. subst t'. destruct (wf_outer _ _ _ _ H) as [_ [g ->]].
  simpl in H. rewrite Z.eqb_refl in H. exists i, g. tauto.
Qed.
Lemma interp_top t L i g : interp (t :: L) (VB t i (NJz g)) = (interp L i, interp L g).
Proof. simpl. now rewrite Z.eqb_refl. Qed.
Lemma wf_top t L i g : wf L i -> wf L g -> wf (t :: L) (VB t i (NJz g)).
Proof. simpl. rewrite Z.eqb_refl. tauto. Qed.
Lemma boxed_at_top t i x n rest :
  boxed_at Z t i (VB t x n :: rest) = (i, n) :: boxed_at Z t (S i) rest.
Proof. simpl. now rewrite Z.eqb_refl. Qed.
Lemma boxed_at_nottop t i v rest :
  is_top Z t v = false -> boxed_at Z t i (v :: rest) = boxed_at Z t (S i) rest.
Proof. destruct v as [k|t' x n]; simpl; [reflexivity|]. now intros ->. Qed.
Lemma unbox_top t x n : unbox_at Z t (VB t x n) = x.
Proof. simpl. now rewrite Z.eqb_refl. Qed.

Lemma find_top_at t L args :
  desc (t :: L) -> Forall (wf (t :: L)) args -> existsb (is_top Z t) args = true ->
  find_top Z args (-1) None = (t, Some KJ).
Proof.
  intros Hd Hw He. destruct (find_top Z args (-1) None) as [tt k] eqn:E.
  destruct (find_top_spec Z _ _ _ _ _ E) as (H1 & H2 & H3).
  apply existsb_exists in He. destruct He as (a & Hin & Ha).
  destruct a as [x|ta ia na]; simpl in Ha; [discriminate|]. apply Z.eqb_eq in Ha. subst ta.
  pose proof (H2 _ _ _ Hin) as Hle.
  destruct Hd as (Hlt & Hpos & Hd').
  destruct H3 as [[-> _]|(i & n & Hin' & -> & Hgt)]; [lia|].
  rewrite Forall_forall in Hw. pose proof (Hw _ Hin') as Hwf.
  destruct (wf_outer _ _ _ _ Hwf) as [Hmem [g ->]].
  destruct Hmem as [<-|Hmem]; [reflexivity|]. specialize (Hlt _ Hmem). lia.
Qed.

Lemma tprimN_none_len n m p (xs : list (T n)) (ys : list (T m)) :
  length xs = length ys -> tprimN n p xs = None -> tprimN m p ys = None.
Proof.
  destruct xs as [|a [|b [|c r]]], ys as [|a' [|b' [|c' r']]]; simpl; try discriminate; try reflexivity;
    intros _; destruct p; simpl; try discriminate; reflexivity.
Qed.

Lemma tprimN_lift n p xs :
  tprimN (S n) p (map (tlift n) xs) =
  match tprimN n p xs with Some r => Some (tlift n r) | None => None end.
Proof.
  destruct xs as [|a [|b [|c r]]]; simpl; try reflexivity.
  - destruct (tprim1 n p a) eqn:E; [now apply tprim1_lift|now apply tprim1_lift_none].
  - destruct (tprim2 n p a b) eqn:E; [now apply tprim2_lift|now apply tprim2_lift_none].
Qed.

Lemma good_eq L s sp sp' m : sp = sp' -> good L s sp m -> good L s sp' m.
Proof. now intros ->. Qed.

(* a computation at the older levels, seen from the new level *)
Lemma good_up t L s sp m :
  desc (t :: L) -> good L s sp m ->
  good (t :: L) s (match sp with Some r => Some (tlift (length L) r) | None => None end) m.
Proof.
  intros Hd [Hs Hm]. split; [assumption|]. destruct (fst m) as [r|c|]; [| |exact I].
  - destruct Hm as [Hw ->]. split; [now apply wf_weaken|]. f_equal. symmetry. now apply interp_weaken.
  - now rewrite Hm.
Qed.

Lemma good_box t L s (spA spT : option (T (length L))) mA kT :
  good L s spA mA ->
  (forall ans, wf L ans -> spA = Some (interp L ans) -> good L s spT (kT ans s)) ->
  good (t :: L) s (match spA, spT with Some a, Some b => Some (a, b) | _, _ => None end)
       (bind Z mA (fun ans s1 => bind Z (kT ans s1) (fun tg => ret Z (VB t ans (NJz tg))))).
Proof.
  intros [Hs Hm] Hk. destruct mA as [[ans|c|] s1]; simpl in *; subst s1.
  - destruct Hm as [Hw ->]. specialize (Hk ans Hw eq_refl). destruct Hk as [Hs2 Hk].
    destruct (kT ans s) as [[tg|c|] s2]; simpl in *; subst s2.
    + destruct Hk as [Hwt ->]. split; [reflexivity|]. simpl. rewrite Z.eqb_refl. auto.
    + rewrite Hk. split; [reflexivity|]. reflexivity.
    + split; [reflexivity|exact I].
  - rewrite Hm. split; reflexivity.
  - split; [reflexivity|exact I].
Qed.

Lemma good_fail_bind L' L s m k : good L s None m -> good L' s None (bind Z m k).
Proof.
  intros [Hs Hm]. destruct m as [[r|c|] s1]; simpl in *; subst s1.
  - destruct Hm as [_ Hm]. discriminate.
  - split; reflexivity.
  - split; [reflexivity|exact I].
Qed.
Lemma good_bind_ret L s sp m : good L s sp m -> good L s sp (bind Z m (fun c s1 => ret Z c s1)).
Proof.
  intros H. apply (good_bind L s sp sp m); [assumption| |auto].
  intros r Hw ->. now apply good_ret.
Qed.
