(* The hand-written graph-layer model (Engine/Toposort.v: the two loops of util.toposort; Engine/Backward.v: the loop of
   core.backward_pass), about which every C03 theorem is stated, is EQUAL to the loops the translator generates from the
   source text on this run (coq/gen/GenTopo.v): a changed counter update, comparison, stack discipline or accumulation
   statement changes the generated file and breaks these proofs. *)
From Coq Require Import List Arith Bool.
Import ListNotations.
From AG Require Import Toposort Backward.
From AGGen Require Import GenTopo.

Section Tie.
  Variable parents : nat -> list nat.

  Lemma count_body_eq n st cnt :
    gen_count_body parents n st cnt
    = if Nat.eqb (cnt n) 0 then (rev (parents n) ++ st, upd cnt n 1) else (st, upd cnt n (S (cnt n))).
  Proof. unfold gen_count_body. destruct (Nat.eqb (cnt n) 0); simpl; [reflexivity|]. now rewrite Nat.add_1_r. Qed.

  Theorem count_loop_follows_source fuel st cnt :
    count_loop parents fuel st cnt = gen_count_loop parents fuel st cnt.
  Proof.
    revert st cnt. induction fuel as [|f IH]; intros st cnt; simpl; [reflexivity|].
    destruct st as [|n st]; [reflexivity|]. rewrite count_body_eq.
    destruct (Nat.eqb (cnt n) 0); apply IH.
  Qed.

  Theorem relax_follows_source ps cl cnt : relax ps cl cnt = gen_relax ps cl cnt.
  Proof.
    revert cl cnt. induction ps as [|p ps IH]; intros cl cnt; simpl; [reflexivity|].
    unfold gen_relax_body. destruct (Nat.eqb (cnt p) 1); simpl; apply IH.
  Qed.

  Theorem emit_loop_follows_source fuel cl cnt acc :
    emit_loop parents fuel cl cnt acc = gen_emit_loop parents fuel cl cnt acc.
  Proof.
    revert cl cnt acc. induction fuel as [|f IH]; intros cl cnt acc; simpl; [reflexivity|].
    destruct cl as [|n cl]; [reflexivity|]. rewrite relax_follows_source.
    destruct (gen_relax (parents n) cl cnt) as [cl' cnt']. apply IH.
  Qed.

  Theorem toposort_follows_source e : toposort parents e = gen_toposort parents e.
  Proof.
    unfold toposort, gen_toposort. rewrite count_loop_follows_source.
    destruct (gen_count_loop parents (fuel1 parents e) [e] (fun _ => 0)); [|reflexivity].
    apply emit_loop_follows_source.
  Qed.

  Variable V : Type.
  Variable vadd : V -> V -> V.
  Variable vjpk : nat -> nat -> V -> V.

  Lemma accumulate_follows_source n ps gs og : accumulate V vadd ps gs og = gen_bp_for V vadd n ps gs og.
  Proof.
    revert gs og. induction ps as [|p ps IH]; intros gs og; simpl; [reflexivity|].
    destruct gs as [|g gs]; [reflexivity|]. apply IH.
  Qed.

  Theorem backward_loop_follows_source order og last :
    backward_loop V vadd parents vjpk order og last = gen_bp_loop V vadd parents vjpk order og last.
  Proof.
    revert og last. induction order as [|n rest IH]; intros og last; simpl; [reflexivity|].
    destruct (og_get V n og) as [g|]; [|reflexivity].
    rewrite (accumulate_follows_source n). apply IH.
  Qed.

  Theorem backward_pass_follows_source g e :
    backward_pass V vadd parents vjpk g e = gen_backward_pass V vadd parents vjpk g e.
  Proof.
    unfold backward_pass, gen_backward_pass. rewrite toposort_follows_source.
    destruct (gen_toposort parents e) as [ord|]; [|reflexivity].
    now rewrite backward_loop_follows_source.
  Qed.
End Tie.
