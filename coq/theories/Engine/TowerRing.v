(* T n is a commutative ring (the laws the reverse-mode proof needs). *)
From Coq Require Import List Arith Bool ZArith Lia.
Import ListNotations.
From AG Require Import Tagged Tower TowerAlg.
Local Open Scope Z_scope.

Lemma tmul_add_distr_r n : forall a b c, tmul n (tadd n a b) c = tadd n (tmul n a c) (tmul n b c).
Proof.
  induction n as [|m IH]; simpl; intros a b c; [lia|].
  rewrite !IH. f_equal.
  rewrite <- !tadd_assoc. f_equal. rewrite !tadd_assoc. f_equal. apply tadd_comm.
Qed.
Lemma tmul_add_distr_l n a b c : tmul n a (tadd n b c) = tadd n (tmul n a b) (tmul n a c).
Proof. rewrite tmul_comm, tmul_add_distr_r. now rewrite (tmul_comm n b), (tmul_comm n c). Qed.
Lemma tmul_assoc n : forall a b c, tmul n a (tmul n b c) = tmul n (tmul n a b) c.
Proof.
  induction n as [|m IH]; simpl; intros a b c; [lia|].
  rewrite !IH. f_equal. rewrite !tmul_add_distr_r, !tmul_add_distr_l, !IH.
  rewrite <- !tadd_assoc. reflexivity.
Qed.
Lemma tmul_1_r n : forall a, tmul n a (tone n) = a.
Proof.
  induction n as [|m IH]; simpl; intros a; [lia|].
  rewrite !IH, tmul_0_r, tadd_0_r. now destruct a.
Qed.
Lemma tmul_1_l n a : tmul n (tone n) a = a.
Proof. rewrite tmul_comm. apply tmul_1_r. Qed.
Lemma tneg_add n : forall a b, tneg n (tadd n a b) = tadd n (tneg n a) (tneg n b).
Proof. induction n as [|m IH]; simpl; intros a b; [lia|]. now rewrite !IH. Qed.
Lemma tmul_neg_l n : forall a b, tmul n (tneg n a) b = tneg n (tmul n a b).
Proof.
  induction n as [|m IH]; simpl; intros a b; [lia|]. now rewrite !IH, tneg_add.
Qed.
Lemma tmul_neg1_l n a : tmul n (tneg n (tone n)) a = tneg n a.
Proof. now rewrite tmul_neg_l, tmul_1_l. Qed.
