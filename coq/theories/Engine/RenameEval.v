(* Non-interference / history independence for the increasing id supply.
   Run A: a program evaluated alone from the initial counter (ids 0,1,2,...).
   Run B: the same program started from ANY counter top0 >= -1 and under ANY
   non-negative interference script noise0 (other threads drawing ids between
   this thread's trace entries).  Run B is run A with its trace ids renamed by
   a strictly increasing map, so both return the same numbers and raise at the
   same places. *)
From Coq Require Import List Arith Bool ZArith Lia.
Import ListNotations.
From AG Require Import Toposort Tagged TaggedProof RenameProof.

Section Canonical.
  Variable K : Type.
  Variables (k0 k1 : K) (kadd ksub kmul : K -> K -> K) (kopp : K -> K).
  Variable kF : nat -> K -> K.
  Variable ksign : K -> K.
  Variable kpos : K -> bool.
  Variable kofZ : Z -> K.

  Variable top0 : Z.
  Variable noise0 : list Z.
  Hypothesis top0_ge : (-1 <= top0)%Z.
  Hypothesis noise0_calm : Forall (fun d => (0 <= d)%Z) noise0.

  (* run B's counter after its k-th trace entry *)
  Fixpoint bt (k : nat) : Z :=
    match k with
    | O => top0
    | S k' => (bt k' + nth k' noise0 0 + 1)%Z
    end.

  Lemma nth_noise_nonneg k : (0 <= nth k noise0 0)%Z.
  Proof.
    destruct (nth_in_or_default k noise0 0%Z) as [H|H]; [|rewrite H; lia].
    rewrite Forall_forall in noise0_calm. now apply noise0_calm.
  Qed.

  Lemma bt_step k : (bt k < bt (S k))%Z.
  Proof. simpl. pose proof (nth_noise_nonneg k). lia. Qed.

  Lemma bt_mono : forall a b, a < b -> (bt a < bt b)%Z.
  Proof.
    intros a b H. induction H as [|b H IH]; [apply bt_step|].
    pose proof (bt_step b). lia.
  Qed.

  Lemma bt_ge k : (top0 + Z.of_nat k <= bt k)%Z.
  Proof. induction k as [|k IH]; [simpl; lia|]. pose proof (bt_step k). lia. Qed.

  (* the renaming: id k of run A (k >= 0) is id bt(k+1) of run B; negative numbers (the -1 sentinel) are fixed *)
  Definition phi (t : Z) : Z := if (t <? 0)%Z then t else bt (S (Z.to_nat t)).

  Lemma phi_neg : phi (-1) = (-1)%Z.
  Proof. reflexivity. Qed.

  Lemma phi_mono a b : (a < b)%Z -> (phi a < phi b)%Z.
  Proof.
    intros H. unfold phi.
    destruct (Z.ltb_spec a 0) as [Ha|Ha]; destruct (Z.ltb_spec b 0) as [Hb|Hb]; try lia.
    - pose proof (bt_ge (S (Z.to_nat b))). lia.
    - apply bt_mono. lia.
  Qed.

  Definition ft (t : Z) : Z := bt (Z.to_nat (t + 1)).
  Definition fn (t : Z) : list Z := skipn (Z.to_nat (t + 1)) noise0.

  Notation value := (value K).
  Notation state := (state K).
  Notation renv := (renv K phi).
  Notation rens := (rens K phi ft fn).
  Notation eval := (eval K k0 k1 kadd ksub kmul kopp kF ksign kpos kofZ Mono).
  Notation apply_prim := (apply_prim K kadd ksub kmul kopp kF ksign).
  Notation backward_pass := (backward_pass K kadd ksub kmul kopp kF ksign).

  Definition quietA (s : state) : Prop := noise K s = [] /\ (-1 <= top K s)%Z.

  Lemma enter_A s : quietA s ->
    enter K s = ((top K s + 1)%Z, {| top := (top K s + 1)%Z; store := store K s; noise := [] |}).
  Proof.
    intros [Hn Ht]. unfold enter, draw. rewrite Hn. cbn [top store noise].
    replace (top K s + 0 + 1)%Z with (top K s + 1)%Z by lia. now rewrite Hn.
  Qed.

  Lemma skipn_nil_facts : forall k (l : list Z), skipn k l = [] -> nth k l 0%Z = 0%Z /\ skipn (S k) l = [].
  Proof.
    induction k as [|k IH]; intros l H.
    - simpl in H. subst. auto.
    - destruct l as [|x l]; [auto|]. simpl in H. destruct (IH l H). auto.
  Qed.
  Lemma skipn_cons_facts : forall k (l : list Z) d r, skipn k l = d :: r -> nth k l 0%Z = d /\ skipn (S k) l = r.
  Proof.
    induction k as [|k IH]; intros l d r H.
    - simpl in H. subst. auto.
    - destruct l as [|x l]; [discriminate|]. simpl in H. destruct (IH l d r H). auto.
  Qed.

  (* run B's trace entry hands out phi(run A's new id) and lands in the image of run A's new state *)
  Lemma enter_B s : quietA s ->
    enter K (rens s)
    = (phi (top K s + 1),
       rens {| top := (top K s + 1)%Z; store := store K s; noise := [] |}).
  Proof.
    intros [Hn Ht]. unfold enter, draw, RenameProof.rens. cbn [top store noise].
    set (k := Z.to_nat (top K s + 1)).
    assert (Hk : Z.to_nat (top K s + 1 + 1) = S k) by (unfold k; lia).
    assert (Hphi : phi (top K s + 1) = bt (S k)).
    { unfold phi. destruct (Z.ltb_spec (top K s + 1) 0); [lia|]. reflexivity. }
    rewrite Hphi. unfold ft, fn. rewrite Hk. fold k.
    destruct (skipn k noise0) as [|d r] eqn:E.
    - destruct (skipn_nil_facts k noise0 E) as [Hd Hr]. cbn [top store noise bt].
      rewrite Hd, Hr. reflexivity.
    - destruct (skipn_cons_facts k noise0 d r E) as [Hd Hr]. cbn [top store noise bt].
      rewrite Hd, Hr. reflexivity.
  Qed.

  Notation renM := (renM K phi ft fn).
  Notation reno := (@reno value).

  (* m' is what run B does where run A does m *)
  Definition good (m m' : state -> M K value) : Prop :=
    forall s, quietA s -> m' (rens s) = renM renv (m s) /\ quietA (snd (m s)).

  Lemma good_bind (m m' : state -> M K value) (k k' : value -> state -> M K value) :
    good m m' -> (forall a, good (k a) (k' (renv a))) ->
    good (fun s => bind K (m s) k) (fun s => bind K (m' s) k').
  Proof.
    intros Hm Hk s Hq. destruct (Hm s Hq) as [E Q]. rewrite E.
    destruct (m s) as [[a|c|] s1]; simpl in *.
    - apply Hk. exact Q.
    - auto.
    - auto.
  Qed.

  Lemma good_ret v : good (ret K v) (ret K (renv v)).
  Proof. intros s Hq. split; [reflexivity|exact Hq]. Qed.
  Lemma good_err c : good (fun s => (Err c, s)) (fun s => (Err c, s)).
  Proof. intros s Hq. split; [reflexivity|exact Hq]. Qed.

  Lemma good_apply_prim fuel p args :
    good (apply_prim fuel p args) (apply_prim fuel p (map renv args)).
  Proof.
    intros s Hq. split.
    - exact (apply_prim_ren K kadd ksub kmul kopp kF ksign phi phi_mono phi_neg ft fn fuel p args s).
    - destruct (apply_prim fuel p args s) as [o s1] eqn:E.
      destruct (keeps_apply_prim K kadd ksub kmul kopp kF ksign fuel p args s o s1 E) as [Ht Hn].
      destruct Hq as [Q1 Q2]. split; simpl; congruence.
  Qed.

  Lemma good_backward_pass fuel g e :
    good (backward_pass fuel g e) (backward_pass fuel (renv g) e).
  Proof.
    intros s Hq. split.
    - exact (backward_pass_ren K kadd ksub kmul kopp kF ksign phi phi_mono phi_neg ft fn fuel g e s).
    - destruct (backward_pass fuel g e s) as [o s1] eqn:E.
      destruct (keeps_backward_pass K kadd ksub kmul kopp kF ksign fuel g e s o s1 E) as [Ht Hn].
      destruct Hq as [Q1 Q2]. split; simpl; congruence.
  Qed.

  Lemma phi_eqb' a b : Z.eqb (phi a) (phi b) = Z.eqb a b.
  Proof. exact (phi_eqb phi phi_mono a b). Qed.

  Lemma strip_renv v : strip K (renv v) = strip K v.
  Proof. exact (strip_ren K phi v). Qed.

  Lemma rens_root s t :
    {| top := top K (rens {| top := t; store := store K s; noise := [] |});
       store := store K (rens {| top := t; store := store K s; noise := [] |}) ++ [root_node K k0];
       noise := noise K (rens {| top := t; store := store K s; noise := [] |}) |}
    = rens {| top := t; store := store K s ++ [root_node K k0]; noise := [] |}.
  Proof. unfold RenameProof.rens. simpl. now rewrite map_app. Qed.

  (* the main statement: run B = renamed run A, for every program *)
  Theorem eval_ren : forall fuel env e,
      good (eval fuel env e) (eval fuel (map renv env) e).
  Proof.
    induction fuel as [|f IH]; intros env e; [intros s Hq; split; [reflexivity|exact Hq]|].
    destruct e; cbn [Tagged.eval].
    - (* Var *)
      intros s Hq. rewrite nth_error_map. destruct (nth_error env n); split; try reflexivity; exact Hq.
    - apply good_ret.
    - apply good_bind; [apply IH|]. intros va. apply (good_apply_prim f p [va]).
    - apply good_bind; [apply IH|]. intros va. apply good_bind; [apply IH|]. intros vb.
      apply (good_apply_prim f p [va; vb]).
    - apply good_bind; [apply IH|]. intros va. apply (IH (va :: env)).
    - apply good_bind; [apply IH|]. intros vc. rewrite strip_renv.
      destruct (kpos (strip K vc)); apply IH.
    - (* Grad *)
      apply good_bind; [apply IH|]. intros x s1 Hq1.
      rewrite (enter_B s1 Hq1), (enter_A s1 Hq1).
      assert (Hlen : length (store K (rens s1)) = length (store K s1))
        by (unfold RenameProof.rens; simpl; apply map_length).
      rewrite Hlen, rens_root. cbn [top store noise].
      set (t := (top K s1 + 1)%Z).
      assert (Hq2 : quietA {| top := t; store := store K s1 ++ [root_node K k0]; noise := [] |})
        by (destruct Hq1; split; simpl; [reflexivity|unfold t; lia]).
      change (VBox K (phi t) (renv x) (NV K (length (store K s1))) :: map renv env)
        with (map renv (VBox K t x (NV K (length (store K s1))) :: env)).
      destruct (IH (VBox K t x (NV K (length (store K s1))) :: env) e1 _ Hq2) as [E Q]. rewrite E.
      destruct (eval f (VBox K t x (NV K (length (store K s1))) :: env) e1
                     {| top := t; store := store K s1 ++ [root_node K k0]; noise := [] |}) as [[endv|c|] s3];
        simpl in Q |- *; [|auto|auto].
      destruct endv as [kk|t' ev [tg|en]]; simpl.
      + split; [reflexivity|exact Q].
      + rewrite phi_eqb'. destruct (Z.eqb t' t); split; try reflexivity; exact Q.
      + rewrite phi_eqb'. destruct (Z.eqb t' t).
        * exact (good_backward_pass f (VNum K k1) en s3 Q).
        * split; [reflexivity|exact Q].
    - (* Deriv *)
      apply good_bind; [apply IH|]. intros x s1 Hq1.
      rewrite (enter_B s1 Hq1), (enter_A s1 Hq1).
      set (t := (top K s1 + 1)%Z).
      assert (Hq2 : quietA {| top := t; store := store K s1; noise := [] |})
        by (destruct Hq1; split; simpl; [reflexivity|unfold t; lia]).
      change (VBox K (phi t) (renv x) (NJ K (VNum K k1)) :: map renv env)
        with (map renv (VBox K t x (NJ K (VNum K k1)) :: env)).
      destruct (IH (VBox K t x (NJ K (VNum K k1)) :: env) e1 _ Hq2) as [E Q]. rewrite E.
      destruct (eval f (VBox K t x (NJ K (VNum K k1)) :: env) e1
                     {| top := t; store := store K s1; noise := [] |}) as [[endv|c|] s3];
        simpl in Q |- *; [|auto|auto].
      destruct endv as [kk|t' ev [tg|en]]; simpl.
      + split; [reflexivity|exact Q].
      + rewrite phi_eqb'. destruct (Z.eqb t' t); split; try reflexivity; exact Q.
      + rewrite phi_eqb'. destruct (Z.eqb t' t); split; try reflexivity; exact Q.
    - apply good_err.
    - (* Try *)
      intros s Hq. destruct (IH env e1 s Hq) as [E Q]. rewrite E.
      destruct (eval f env e1 s) as [[v|c|] s1]; simpl in Q |- *.
      + split; [reflexivity|exact Q].
      + apply (IH env e2 s1 Q).
      + split; [reflexivity|exact Q].
  Qed.
End Canonical.

(* ---------------- corollaries ---------------- *)
Section NonInterference.
  Variable K : Type.
  Variables (k0 k1 : K) (kadd ksub kmul : K -> K -> K) (kopp : K -> K).
  Variable kF : nat -> K -> K.
  Variable ksign : K -> K.
  Variable kpos : K -> bool.
  Variable kofZ : Z -> K.
  Notation eval := (eval K k0 k1 kadd ksub kmul kopp kF ksign kpos kofZ Mono).

  (* what a caller observes of a closed program: its number, or that it raised, or fuel exhaustion *)
  Definition observe (r : M K (value K)) : option (option K) :=
    match fst r with
    | Val v => Some (Some (strip K v))
    | Err _ => Some None
    | OutOfFuel => None
    end.

  (* Any start counter >= -1 and any non-negative interference: same observation as the solo run
     from the initial state. *)
  Theorem increasing_supply_noninterference fuel e top0 noise0 :
    (-1 <= top0)%Z -> Forall (fun d => (0 <= d)%Z) noise0 ->
    observe (eval fuel [] e {| top := top0; store := []; noise := noise0 |})
    = observe (eval fuel [] e (init_state K)).
  Proof.
    intros Ht Hn.
    assert (Hq : quietA K (init_state K)) by (split; simpl; [reflexivity|lia]).
    destruct (eval_ren K k0 k1 kadd ksub kmul kopp kF ksign kpos kofZ top0 noise0 Ht Hn fuel [] e
                       (init_state K) Hq) as [E _].
    assert (Hs : rens K (phi top0 noise0) (ft top0 noise0) (fn noise0) (init_state K)
                 = {| top := top0; store := []; noise := noise0 |}) by reflexivity.
    rewrite Hs in E. simpl map in E. rewrite E. unfold observe, renM. simpl.
    destruct (fst (eval fuel [] e (init_state K))) as [v|c|]; simpl; try reflexivity.
    now rewrite (strip_ren K (phi top0 noise0) v).
  Qed.

  (* two arbitrary situations give the same observation *)
  Corollary result_independent_of_counter_and_interference fuel e t1 n1 t2 n2 :
    (-1 <= t1)%Z -> Forall (fun d => (0 <= d)%Z) n1 ->
    (-1 <= t2)%Z -> Forall (fun d => (0 <= d)%Z) n2 ->
    observe (eval fuel [] e {| top := t1; store := []; noise := n1 |})
    = observe (eval fuel [] e {| top := t2; store := []; noise := n2 |}).
  Proof.
    intros. rewrite !increasing_supply_noninterference by assumption. reflexivity.
  Qed.
End NonInterference.
