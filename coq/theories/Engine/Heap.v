(* L1 + heap: core.add_outgrads with buffer identities.  A heap is a list of
   buffers (identity = index).  Contributions arriving from derivative rules
   are references: dense ones may alias anything (a rule may return its own
   argument, a captured constant, the caller's cotangent, a fresh array);
   sparse ones hold a reference to their data.  The model records which
   operations allocate (x + y, zeros) and which write in place (x += y,
   np.add.at): exactly core.py:184-204 with numpy_vspaces / VSpace._mut_add. *)
From Coq Require Import List Arith Bool Lia Ring.
Import ListNotations.
From AG Require Import VSpace VSpaceProof Index.

Section Heap.
  Variable K : Type.
  Variables (k0 k1 : K) (kadd kmul ksub : K -> K -> K) (kopp : K -> K).
  Hypothesis Kring : ring_theory k0 k1 kadd kmul ksub kopp eq.
  Notation vadd := (vadd K kadd).

  Definition heap := list (list K).
  Definition read (h : heap) (r : nat) : list K := nth r h [].
  Definition alloc (h : heap) (v : list K) : nat * heap := (length h, h ++ [v]).
  Fixpoint write (h : heap) (r : nat) (v : list K) : heap :=
    match h, r with
    | [], _ => []
    | _ :: t, O => v :: t
    | x :: t, S r' => x :: write t r' v
    end.

  Inductive hcontrib := HDense (r : nat) | HSparse (sigma : list nat) (gr : nat).

  (* add_outgrads(prev_g_flagged, g) on the heap; returns ((ref, mutable), heap') *)
  Definition add_outgrads_h (n : nat) (prev : option (nat * bool)) (c : hcontrib) (h : heap)
    : (nat * bool) * heap :=
    match prev, c with
    | None, HDense r => ((r, false), h)                                   (* g, False: an alias *)
    | None, HSparse s gr =>                                                (* sparse_add(vs, None, g) *)
      let '(z, h1) := alloc h (repeat k0 n) in
      ((z, true), write h1 z (scatter_into K kadd (read h1 z) s (read h1 gr)))
    | Some (p, true), HDense r =>                                          (* vs.mut_add: prev += g *)
      ((p, true), write h p (vadd (read h p) (read h r)))
    | Some (p, true), HSparse s gr =>                                      (* np.add.at(prev, idx, g) *)
      ((p, true), write h p (scatter_into K kadd (read h p) s (read h gr)))
    | Some (p, false), HDense r =>                                         (* vs.add: prev + g, a new array *)
      let '(q, h1) := alloc h (vadd (read h p) (read h r)) in ((q, true), h1)
    | Some (p, false), HSparse s gr =>                                     (* mut_add(None, prev), then add.at *)
      let '(q, h1) := alloc h (vadd (repeat k0 n) (read h p)) in
      ((q, true), write h1 q (scatter_into K kadd (read h1 q) s (read h1 gr)))
    end.

  Fixpoint accumulate_h (n : nat) (prev : option (nat * bool)) (cs : list hcontrib) (h : heap)
    : option (nat * bool) * heap :=
    match cs with
    | [] => (prev, h)
    | c :: r => let '(pf, h1) := add_outgrads_h n prev c h in accumulate_h n (Some pf) r h1
    end.

  (* ---------------- frame ---------------- *)
  Lemma write_length h r v : length (write h r v) = length h.
  Proof. revert r. induction h as [|x t IH]; intros [|r]; simpl; auto. Qed.

  Lemma read_write_other h r v r' : r' <> r -> read (write h r v) r' = read h r'.
  Proof.
    unfold read. revert r r'. induction h as [|x t IH]; intros [|r] [|r'] H; simpl; auto; try lia.
    all: try (apply IH; lia).
  Qed.

  Lemma read_write_same h r v : r < length h -> read (write h r v) r = v.
  Proof.
    unfold read. revert r. induction h as [|x t IH]; intros [|r] H; simpl in *; try lia; auto.
    all: try (apply IH; lia).
  Qed.

  Lemma read_alloc_old h v r : r < length h -> read (snd (alloc h v)) r = read h r.
  Proof. intros H. unfold alloc, read. simpl. now rewrite app_nth1. Qed.

  Lemma read_alloc_new h v : read (snd (alloc h v)) (length h) = v.
  Proof. unfold alloc, read. simpl. rewrite app_nth2 by lia. now rewrite Nat.sub_diag. Qed.

  (* an accumulation state is safe w.r.t. a base: an owned buffer was allocated
     after `base`, i.e. by this backward pass *)
  Definition owned_after (base : nat) (prev : option (nat * bool)) (h : heap) : Prop :=
    match prev with
    | Some (p, true) => base <= p < length h
    | Some (p, false) => True
    | None => True
    end.

  (* one step writes no buffer that existed at `base`, keeps the heap growing,
     and keeps the state safe *)
  Lemma step_frame n base prev c h pf h1 :
    base <= length h -> owned_after base prev h ->
    add_outgrads_h n prev c h = (pf, h1) ->
    length h <= length h1 /\ owned_after base (Some pf) h1
    /\ (forall r, r < base -> read h1 r = read h r)
    /\ (match c with HDense r => r < length h | HSparse _ gr => gr < length h end ->
        forall r, r < length h -> (forall p, prev = Some (p, true) -> r <> p) -> read h1 r = read h r).
  Proof.
    intros Hb Ho H.
    assert (Hold : forall (hh : heap) v r0, r0 < length hh -> read (hh ++ [v]) r0 = read hh r0).
    { intros hh v r0 Hr. unfold read. now rewrite app_nth1. }
    destruct prev as [[p [|]]|]; destruct c as [r|s gr]; simpl in H, Ho; inversion H; subst; clear H;
      unfold owned_after; rewrite ?write_length, ?app_length; simpl length.
    - split; [lia|]. split; [lia|]. split.
      + intros r0 Hr. apply read_write_other. lia.
      + intros _ r0 Hr Hp. apply read_write_other. apply Hp. reflexivity.
    - split; [lia|]. split; [lia|]. split.
      + intros r0 Hr. apply read_write_other. lia.
      + intros _ r0 Hr Hp. apply read_write_other. apply Hp. reflexivity.
    - split; [lia|]. split; [lia|]. split.
      + intros r0 Hr. apply Hold. lia.
      + intros _ r0 Hr _. now apply Hold.
    - split; [lia|]. split; [lia|]. split.
      + intros r0 Hr. rewrite read_write_other by lia. apply Hold. lia.
      + intros _ r0 Hr _. rewrite read_write_other by lia. now apply Hold.
    - split; [lia|]. split; [exact I|]. split; [reflexivity|]. intros; reflexivity.
    - split; [lia|]. split; [lia|]. split.
      + intros r0 Hr. rewrite read_write_other by lia. apply Hold. lia.
      + intros _ r0 Hr _. rewrite read_write_other by lia. now apply Hold.
  Qed.

  (* C10: whatever contributions arrive, in whatever order, and whatever they
     alias, accumulating them writes only buffers allocated during the
     accumulation: every buffer that existed before is bit-for-bit unchanged *)
  Theorem accumulate_frame n : forall cs prev h base res h',
      base <= length h -> owned_after base prev h ->
      accumulate_h n prev cs h = (res, h') ->
      length h <= length h' /\ owned_after base res h'
      /\ forall r, r < base -> read h' r = read h r.
  Proof.
    induction cs as [|c cs IH]; intros prev h base res h' Hb Ho H; simpl in H.
    - inversion H; subst. repeat split; auto.
    - destruct (add_outgrads_h n prev c h) as [pf h1] eqn:E.
      destruct (step_frame n base prev c h pf h1 Hb Ho E) as (L1 & O1 & F1 & _).
      destruct (IH (Some pf) h1 base res h' ltac:(lia) O1 H) as (L2 & O2 & F2).
      repeat split; [lia|assumption|]. intros r Hr. rewrite F2 by assumption. now apply F1.
  Qed.

  Corollary accumulate_from_nothing_preserves_everything n cs h res h' :
    accumulate_h n None cs h = (res, h') ->
    forall r, r < length h -> read h' r = read h r.
  Proof.
    intros H r Hr.
    destruct (accumulate_frame n cs None h (length h) res h' (le_n _) I H) as (_ & _ & F). now apply F.
  Qed.
End Heap.
