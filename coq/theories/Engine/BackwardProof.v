(* backward_pass on the toposort order returns the sum over all dependency
   paths (pathsum), for every DAG in which node 0 is the only parentless node
   (how tracing builds tapes), every additive local rule, any commutative
   monoid of cotangents.  Forward accumulation computes the same Jacobian. *)
From Coq Require Import List Arith Bool Lia PeanoNat Permutation.
Import ListNotations.
From AG Require Import Toposort ToposortProof Backward.

Section Proofs.
  Variable V : Type.
  Variable vzero : V.
  Variable vadd : V -> V -> V.
  Hypothesis vadd_comm : forall a b, vadd a b = vadd b a.
  Hypothesis vadd_assoc : forall a b c, vadd a (vadd b c) = vadd (vadd a b) c.
  Hypothesis vadd_0_l : forall a, vadd vzero a = a.

  Variable parents : nat -> list nat.
  Hypothesis dag : forall n p, In p (parents n) -> p < n.
  Hypothesis wf : forall n, n <> 0 -> parents n <> [].

  Variable vjpk : nat -> nat -> V -> V.
  Hypothesis vjpk_add : forall n k a b,
      vjpk n k (vadd a b) = vadd (vjpk n k a) (vjpk n k b).

  Notation push := (push V vzero vadd parents vjpk).
  Notation P := (pathsum V vzero vadd parents vjpk).
  Notation vsum := (vsum V vzero vadd).
  Notation og_get := (og_get V).
  Notation og_remove := (og_remove V).
  Notation og_put := (og_put V).
  Notation add_outgrads := (add_outgrads V vadd).
  Notation accumulate := (accumulate V vadd).
  Notation vjp := (vjp V parents vjpk).
  Notation backward_loop := (backward_loop V vadd parents vjpk).

  Lemma vadd_0_r a : vadd a vzero = a.
  Proof. rewrite vadd_comm. apply vadd_0_l. Qed.

  Lemma vsum_map_add {A} (h f g : A -> V) l :
    (forall x, In x l -> h x = vadd (f x) (g x)) ->
    vsum (map h l) = vadd (vsum (map f l)) (vsum (map g l)).
  Proof.
    induction l as [|a l IH]; simpl; intros H.
    - now rewrite vadd_0_l.
    - rewrite (H a (or_introl eq_refl)), IH by (intros; apply H; now right).
      rewrite !vadd_assoc. f_equal.
      rewrite <- !vadd_assoc. f_equal. apply vadd_comm.
  Qed.

  Lemma push_S f n g :
    push (S f) n g =
    match parents n with
    | [] => g
    | _ :: _ => vsum (map (fun kp => push f (snd kp) (vjpk n (fst kp) g))
                      (combine (seq 0 (length (parents n))) (parents n)))
    end.
  Proof. reflexivity. Qed.

  Lemma push_fuel : forall f f' n g, n < f -> n < f' -> push f n g = push f' n g.
  Proof.
    induction f as [|f IH]; intros f' n g H1 H2; [lia|].
    destruct f' as [|f']; [lia|]. rewrite !push_S.
    destruct (parents n) as [|p0 ps] eqn:E; [reflexivity|].
    f_equal. apply map_ext_in. intros [k p] Hin. cbn [fst snd].
    apply in_combine_r in Hin. rewrite <- E in Hin. apply dag in Hin.
    apply IH; lia.
  Qed.

  Lemma pathsum_root n g : parents n = [] -> P n g = g.
  Proof. intros E. unfold pathsum. rewrite push_S. now rewrite E. Qed.

  Lemma pathsum_unfold n g :
    parents n <> [] ->
    P n g = vsum (map (fun kp => P (snd kp) (vjpk n (fst kp) g))
                      (combine (seq 0 (length (parents n))) (parents n))).
  Proof.
    intros E. unfold pathsum at 1. rewrite push_S.
    destruct (parents n) as [|p0 ps] eqn:E'; [congruence|].
    f_equal. apply map_ext_in. intros [k p] Hin. cbn [fst snd].
    apply in_combine_r in Hin. rewrite <- E' in Hin. apply dag in Hin.
    unfold pathsum. apply push_fuel; lia.
  Qed.

  Lemma push_add : forall f n a b,
      push f n (vadd a b) = vadd (push f n a) (push f n b).
  Proof.
    induction f as [|f IH]; intros n a b.
    - simpl. now rewrite vadd_0_l.
    - rewrite !push_S. destruct (parents n) as [|p0 ps]; [reflexivity|].
      apply vsum_map_add. intros [k p] _. cbn [fst snd]. now rewrite vjpk_add, IH.
  Qed.

  Lemma pathsum_add n a b : P n (vadd a b) = vadd (P n a) (P n b).
  Proof. apply push_add. Qed.

  (* potential: what the pending cotangents will contribute at the root *)
  Definition Phi (og : list (nat * V)) : V :=
    vsum (map (fun nv => P (fst nv) (snd nv)) og).

  Definition keys (og : list (nat * V)) : list nat := map fst og.

  Lemma og_get_in n og : og_get n og <> None <-> In n (keys og).
  Proof.
    induction og as [|[k v] og IH]; simpl; [tauto|].
    destruct (Nat.eqb_spec k n) as [->|Hne].
    - split; [now left|congruence].
    - rewrite IH. split; [now right|]. intros [H|H]; [congruence|assumption].
  Qed.

  Lemma phi_remove n og v :
    og_get n og = Some v -> Phi og = vadd (P n v) (Phi (og_remove n og)).
  Proof.
    induction og as [|[k w] og IH]; simpl; [discriminate|].
    destruct (Nat.eqb_spec k n) as [->|Hne]; intros H.
    - inversion H; subst. reflexivity.
    - unfold Phi in *. simpl. rewrite (IH H).
      rewrite !vadd_assoc. f_equal. apply vadd_comm.
  Qed.

  Lemma phi_put p g og :
    Phi (og_put p (add_outgrads (og_get p og) g) og) = vadd (Phi og) (P p g).
  Proof.
    induction og as [|[k w] og IH]; simpl.
    - unfold Phi. simpl. now rewrite vadd_0_l, vadd_0_r.
    - destruct (Nat.eqb_spec k p) as [->|Hne].
      + unfold Phi. simpl. rewrite pathsum_add.
        rewrite <- !vadd_assoc. f_equal. apply vadd_comm.
      + unfold Phi in *. simpl. rewrite IH. now rewrite vadd_assoc.
  Qed.

  Lemma phi_accumulate : forall ps gs og,
      Phi (accumulate ps gs og)
      = vadd (Phi og) (vsum (map (fun pg => P (fst pg) (snd pg)) (combine ps gs))).
  Proof.
    induction ps as [|p ps IH]; intros gs og; simpl.
    - now rewrite vadd_0_r.
    - destruct gs as [|g gs]; simpl.
      + now rewrite vadd_0_r.
      + rewrite IH, phi_put. now rewrite vadd_assoc.
  Qed.

  Lemma combine_vjp n g : forall ps ks,
      map (fun pg => P (fst pg) (snd pg))
          (combine ps (map (fun k => vjpk n k g) ks))
      = map (fun kp => P (snd kp) (vjpk n (fst kp) g)) (combine ks ps).
  Proof.
    induction ps as [|p ps IH]; intros [|k ks]; simpl; try reflexivity.
    now rewrite IH.
  Qed.

  Lemma phi_step n v og :
    parents n <> [] -> og_get n og = Some v ->
    Phi (accumulate (parents n) (vjp n v) (og_remove n og)) = Phi og.
  Proof.
    intros E Hget. rewrite phi_accumulate. unfold Backward.vjp.
    rewrite combine_vjp, <- pathsum_unfold by assumption.
    rewrite (phi_remove n og v Hget). apply vadd_comm.
  Qed.

  (* ---- key bookkeeping ---- *)
  Lemma keys_remove_in k n og :
    In k (keys (og_remove n og)) -> In k (keys og).
  Proof.
    induction og as [|[j w] og IH]; simpl; [tauto|].
    destruct (Nat.eqb_spec j n) as [->|Hne]; simpl; [tauto|].
    intros [H|H]; auto.
  Qed.

  Lemma keys_remove_keep k n og :
    In k (keys og) -> k <> n -> In k (keys (og_remove n og)).
  Proof.
    induction og as [|[j w] og IH]; simpl; [tauto|].
    destruct (Nat.eqb_spec j n) as [->|Hne]; simpl.
    - intros [H|H] Hk; [congruence|assumption].
    - intros [H|H] Hk; auto.
  Qed.

  Lemma keys_remove_nodup n og :
    NoDup (keys og) -> NoDup (keys (og_remove n og)) /\ ~ In n (keys (og_remove n og)).
  Proof.
    induction og as [|[j w] og IH]; simpl; intros Hnd.
    - split; [constructor|tauto].
    - inversion Hnd as [|? ? Hj Hnd']; subst.
      destruct (Nat.eqb_spec j n) as [->|Hne]; simpl.
      + split; assumption.
      + destruct (IH Hnd') as [H1 H2]. split.
        * constructor; [|assumption]. intros H. apply Hj.
          eapply keys_remove_in; eauto.
        * intros [H|H]; [congruence|tauto].
  Qed.

  Lemma keys_put k p v og :
    In k (keys (og_put p v og)) <-> k = p \/ In k (keys og).
  Proof.
    induction og as [|[j w] og IH]; simpl.
    - split; [intros [H|[]]; auto | intros [H|[]]; auto].
    - destruct (Nat.eqb_spec j p) as [->|Hne]; simpl.
      + split; [intros [H|H]; auto | intros [H|[H|H]]; auto].
      + rewrite IH. tauto.
  Qed.

  Lemma keys_put_nodup p v og : NoDup (keys og) -> NoDup (keys (og_put p v og)).
  Proof.
    induction og as [|[j w] og IH]; simpl; intros Hnd.
    - constructor; [tauto|constructor].
    - inversion Hnd as [|? ? Hj Hnd']; subst.
      destruct (Nat.eqb_spec j p) as [->|Hne]; simpl.
      + now constructor.
      + constructor; [|auto]. rewrite keys_put. intros [H|H]; [congruence|tauto].
  Qed.

  Lemma keys_accumulate : forall ps gs og k,
      In k (keys (accumulate ps gs og)) -> In k ps \/ In k (keys og).
  Proof.
    induction ps as [|p ps IH]; intros gs og k; simpl; [tauto|].
    destruct gs as [|g gs]; [tauto|].
    intros H. apply IH in H. destruct H as [H|H]; [tauto|].
    apply keys_put in H. destruct H; auto.
  Qed.

  Lemma keys_accumulate_keep : forall ps gs og k,
      In k (keys og) -> In k (keys (accumulate ps gs og)).
  Proof.
    induction ps as [|p ps IH]; intros gs og k H; simpl; [assumption|].
    destruct gs as [|g gs]; [assumption|].
    apply IH. apply keys_put. now right.
  Qed.

  Lemma keys_accumulate_new : forall ps gs og k,
      length gs = length ps -> In k ps -> In k (keys (accumulate ps gs og)).
  Proof.
    induction ps as [|p ps IH]; intros gs og k Hlen Hin; simpl in *; [tauto|].
    destruct gs as [|g gs]; [discriminate|].
    destruct Hin as [->|Hin].
    - apply keys_accumulate_keep. apply keys_put. now left.
    - apply IH; [simpl in Hlen; lia|assumption].
  Qed.

  Lemma keys_accumulate_nodup : forall ps gs og,
      NoDup (keys og) -> NoDup (keys (accumulate ps gs og)).
  Proof.
    induction ps as [|p ps IH]; intros gs og H; simpl; [assumption|].
    destruct gs as [|g gs]; [assumption|].
    apply IH. now apply keys_put_nodup.
  Qed.

  Lemma vjp_length n g : length (vjp n g) = length (parents n).
  Proof. unfold Backward.vjp. now rewrite map_length, seq_length. Qed.

  (* ---- orders ---- *)
  Definition has_consumer (e : nat) (done : list nat) (m : nat) : Prop :=
    (done = [] /\ m = e) \/ exists c, In c done /\ In m (parents c).

  Record good_order (e : nat) (ord : list nat) : Prop := {
    go_nodup : NoDup ord;
    go_after : forall l1 n l2, ord = l1 ++ n :: l2 ->
                               forall p, In p (parents n) -> In p l2;
    go_cons : forall l1 m l2, ord = l1 ++ m :: l2 -> has_consumer e l1 m }.

  Lemma NoDup_split_unique (x : nat) : forall l1 l2 a1 a2,
      NoDup (l1 ++ x :: l2) -> l1 ++ x :: l2 = a1 ++ x :: a2 ->
      l1 = a1 /\ l2 = a2.
  Proof.
    induction l1 as [|y l1 IH]; intros l2 a1 a2 Hnd Heq.
    - destruct a1 as [|z a1]; simpl in *.
      + injection Heq as Heq. auto.
      + injection Heq as Hz Heq. subst z. inversion Hnd as [|? ? Hx _]; subst.
        exfalso. apply Hx. apply in_or_app. right. now left.
    - destruct a1 as [|z a1]; simpl in *.
      + injection Heq as Hz Heq. subst y. inversion Hnd as [|? ? Hx _]; subst.
        exfalso. apply Hx. apply in_or_app. right. now left.
      + injection Heq as Hz Heq. subst z. inversion Hnd as [|? ? _ Hnd']; subst.
        destruct (IH _ _ _ Hnd' Heq) as [-> ->]. auto.
  Qed.

  Lemma toposort_good e ord :
    toposort parents e = Some ord -> good_order e ord.
  Proof.
    intros Hts.
    destruct (toposort_correct parents dag e)
      as (ord' & Hts' & Hnd & Hreach & [tl Htl] & Hbefore).
    assert (Ho : ord' = ord) by congruence. clear Hts'.
    rewrite Ho in *. clear Ho ord'.
    constructor.
    - assumption.
    - intros l1 n l2 Heq p Hp.
      assert (Hn : reach parents e n).
      { apply Hreach. rewrite Heq. apply in_or_app. right. now left. }
      destruct (Hbefore n p Hn Hp) as (a & b & Hab & Hna).
      apply in_split in Hna. destruct Hna as (a1 & a2 & ->).
      rewrite <- app_assoc in Hab. simpl in Hab.
      assert (Hnd' : NoDup (l1 ++ n :: l2)) by now rewrite <- Heq.
      rewrite Heq in Hab.
      destruct (NoDup_split_unique n _ _ _ _ Hnd' Hab) as [_ ->].
      apply in_or_app. right. now left.
    - intros l1 m l2 Heq. destruct l1 as [|x l1].
      + left. split; [reflexivity|]. simpl in Heq. congruence.
      + right.
        assert (Hx : x = e) by (simpl in Heq; congruence). subst x.
        assert (Hnd' : NoDup ((e :: l1) ++ m :: l2)) by now rewrite <- Heq.
        assert (Hne : m <> e).
        { intros ->. simpl in Hnd'. inversion Hnd' as [|? ? Hx _]; subst.
          apply Hx. apply in_or_app. right. now left. }
        assert (Hm : reach parents e m).
        { apply Hreach. rewrite Heq. apply in_or_app. right. now left. }
        destruct (reach_consumer parents e m Hm Hne) as (c & Hc & Hmc).
        destruct (Hbefore c m Hc Hmc) as (a & b & Hab & Hca).
        exists c. split; [|assumption].
        rewrite Heq in Hab.
        destruct (NoDup_split_unique m _ _ _ _ Hnd' Hab) as [<- _].
        assumption.
  Qed.

  Lemma backward_loop_correct e ord total :
    good_order e ord ->
    forall rest done og last,
      ord = done ++ rest ->
      NoDup (keys og) ->
      (forall k, In k (keys og) -> In k rest) ->
      (forall m, In m rest -> has_consumer e done m -> In m (keys og)) ->
      (rest <> [] -> Phi og = total) ->
      (rest = [] -> last = Some total) ->
      backward_loop rest og last = Some total.
  Proof.
    intros [Hnd Hafter Hcons].
    induction rest as [|n rest IH]; intros done og last Hord Hk HkR HE Hphi Hlast.
    - simpl. now apply Hlast.
    - simpl.
      assert (Hn : In n (keys og)).
      { apply HE; [now left|]. eapply Hcons; eauto. }
      apply og_get_in in Hn.
      destruct (og_get n og) as [v|] eqn:Hget; [clear Hn|congruence].
      destruct (keys_remove_nodup n og Hk) as [Hk' Hnk'].
      assert (Hnrest : ~ In n rest).
      { rewrite Hord in Hnd. apply NoDup_remove_2 in Hnd.
        intros H. apply Hnd. apply in_or_app. now right. }
      destruct (list_eq_dec Nat.eq_dec (parents n) []) as [Eroot|Enr].
      + (* the root: must be last *)
        rewrite Eroot. simpl.
        assert (Hrest : rest = []).
        { destruct rest as [|m rest'] using rev_ind; [reflexivity|exfalso].
          clear IHrest'.
          assert (Hz : parents m = []).
          { destruct (parents m) as [|p ps] eqn:Em; [reflexivity|exfalso].
            assert (Hp : In p []).
            { apply (Hafter (done ++ n :: rest') m [] ).
              - rewrite Hord, <- app_assoc. reflexivity.
              - rewrite Em. now left. }
            destruct Hp. }
          assert (n = 0) by (destruct (Nat.eq_dec n 0); [assumption|exfalso; now apply (wf n)]).
          assert (m = 0) by (destruct (Nat.eq_dec m 0); [assumption|exfalso; now apply (wf m)]).
          subst. apply Hnrest. apply in_or_app. right. now left. }
        subst rest. simpl. f_equal.
        assert (Hempty : og_remove n og = []).
        { destruct (og_remove n og) as [|[k w] og'] eqn:Er; [reflexivity|exfalso].
          assert (Hkin : In k (keys og)).
          { apply (keys_remove_in k n). rewrite Er. now left. }
          apply HkR in Hkin. destruct Hkin as [<-|[]].
          apply Hnk'. now left. }
        rewrite <- (Hphi ltac:(discriminate)).
        rewrite (phi_remove n og v Hget), Hempty.
        unfold Phi. simpl. rewrite vadd_0_r. symmetry. now apply pathsum_root.
      + apply (IH (done ++ [n])).
        * rewrite <- app_assoc. assumption.
        * now apply keys_accumulate_nodup.
        * intros k Hkin. apply keys_accumulate in Hkin. destruct Hkin as [Hp|Hr].
          -- eapply Hafter; eauto.
          -- assert (k <> n) by (intros ->; tauto).
             apply keys_remove_in in Hr. apply HkR in Hr.
             destruct Hr; [congruence|assumption].
        * intros m Hm [[Hd _]|(c & Hc & Hmc)].
          { destruct done; discriminate. }
          apply in_app_or in Hc. destruct Hc as [Hc|[<-|[]]].
          -- apply keys_accumulate_keep. apply keys_remove_keep.
             ++ apply HE; [now right|]. right. eauto.
             ++ intros ->. tauto.
          -- apply keys_accumulate_new; [apply vjp_length|assumption].
        * intros _. rewrite phi_step by assumption. apply Hphi. discriminate.
        * intros ->. exfalso.
          destruct (parents n) as [|p ps] eqn:En; [congruence|].
          assert (Hp : In p []).
          { apply (Hafter done n []); [assumption|]. rewrite En. now left. }
          destruct Hp.
  Qed.

  Theorem backward_pass_pathsum e g :
    exists ord,
      backward_pass V vadd parents vjpk g e = Some (P e g, ord)
      /\ toposort parents e = Some ord.
  Proof.
    destruct (toposort_correct parents dag e) as (ord & Hts & _).
    exists ord. split; [|assumption]. unfold backward_pass. rewrite Hts.
    pose proof (toposort_good e ord Hts) as Hgo.
    assert (Hne : ord <> []).
    { destruct (toposort_correct parents dag e) as (o & Ho & _ & _ & [tl Htl] & _).
      rewrite Hts in Ho. inversion Ho; subst. discriminate. }
    rewrite (backward_loop_correct e ord (P e g) Hgo ord [] [(e, g)] None).
    - reflexivity.
    - reflexivity.
    - simpl. constructor; [tauto|constructor].
    - intros k [<-|[]].
      destruct (toposort_correct parents dag e) as (o & Ho & _ & _ & [tl Htl] & _).
      rewrite Hts in Ho. inversion Ho; subst. now left.
    - intros m Hm [[_ ->]|(c & [] & _)]. now left.
    - intros _. unfold Phi. simpl. apply vadd_0_r.
    - intros H. congruence.
  Qed.
End Proofs.

(* Forward accumulation and the backward pass compute the same Jacobian when
   every local rule is multiplication by the local partial derivative
   (scalar graphs over any commutative ring). *)
From Coq Require Import Ring.

Section Scalar.
  Variable K : Type.
  Variables (k0 k1 : K) (kadd kmul ksub : K -> K -> K) (kopp : K -> K).
  Hypothesis Kring : ring_theory k0 k1 kadd kmul ksub kopp eq.
  Add Ring KR : Kring.

  Variable parents : nat -> list nat.
  Variable d : nat -> nat -> K.   (* d n k = partial of node n wrt parent k *)

  Definition s_vjpk (n k : nat) (g : K) : K := kmul g (d n k).
  Definition s_jvpk (n k : nat) (v : K) : K := kmul (d n k) v.

  Notation spush := (push K k0 kadd parents s_vjpk).
  Notation stan := (tangent K k0 kadd parents s_jvpk).
  Notation ssum := (vsum K k0 kadd).

  Lemma ssum_scale g l : kmul g (ssum l) = ssum (map (kmul g) l).
  Proof.
    induction l as [|x l IH]; simpl; [ring|]. rewrite <- IH. ring.
  Qed.

  Theorem push_is_tangent : forall f n g, spush f n g = kmul g (stan f n k1).
  Proof.
    induction f as [|f IH]; intros n g; simpl; [ring|].
    destruct (parents n) as [|p0 ps]; [ring|].
    rewrite ssum_scale, map_map. f_equal. apply map_ext. intros [k p].
    cbn [fst snd]. rewrite IH. unfold s_vjpk, s_jvpk. ring.
  Qed.

  Corollary reverse_forward_same_jacobian e g :
    pathsum K k0 kadd parents s_vjpk e g
    = kmul g (forward K k0 kadd parents s_jvpk e k1).
  Proof. apply push_is_tangent. Qed.

  Theorem tangent_linear : forall f n v,
      stan f n v = kmul (stan f n k1) v.
  Proof.
    induction f as [|f IH]; intros n v; simpl; [ring|].
    destruct (parents n) as [|p0 ps]; [ring|].
    rewrite (IH n v) at 0 || idtac.
    assert (Hs : forall l, kmul (ssum l) v = ssum (map (fun x => kmul x v) l)).
    { induction l as [|x l IHl]; simpl; [ring|]. rewrite <- IHl. ring. }
    rewrite Hs, map_map. f_equal. apply map_ext. intros [k p].
    cbn [fst snd]. rewrite (IH p v). unfold s_jvpk. ring.
  Qed.
End Scalar.
