From Coq Require Import List Arith Bool ZArith Lia.
Import ListNotations.
From AG Require Import Toposort Tagged Tower TaggedProof.
From AG Require Import TowerAlg FwdCorrect FwdStep.
Local Open Scope Z_scope.

Fixpoint fwd_only (e : exp) : bool :=
  match e with
  | Var _ | Const _ | Fail => true
  | App1 p a => allowed p && fwd_only a
  | App2 p a b => allowed p && fwd_only a && fwd_only b
  | Let a b => fwd_only a && fwd_only b
  | IfPos c a b => fwd_only c && fwd_only a && fwd_only b
  | Try a h => fwd_only a && fwd_only h
  | Deriv body arg => fwd_only body && fwd_only arg
  | Grad _ _ => false
  end.

Notation calmz := (calm Z).

Definition evgood (L : list Z) (env : list zvalue) (e : exp) (s : zstate) (m : M Z zvalue) : Prop :=
  top Z s <= top Z (snd m) /\ calmz (snd m) /\
  match fst m with
  | Val v => wf L v /\ eval_spec e (length L) (map (interp L) env) = Some (interp L v)
  | Err _ => eval_spec e (length L) (map (interp L) env) = None
  | OutOfFuel => True
  end.

Lemma good_evgood_prim L env e s sp m :
  calmz s -> good L s sp m -> eval_spec e (length L) (map (interp L) env) = sp -> evgood L env e s m.
Proof.
  intros Hc [Hs Hm] He. unfold evgood. rewrite Hs. split; [lia|]. split; [assumption|].
  rewrite He. exact Hm.
Qed.

Theorem eval_fwd : forall fuel e L env s,
    fwd_only e = true -> desc L -> (forall u, In u L -> u <= top Z s) -> -1 <= top Z s ->
    calmz s -> Forall (wf L) env ->
    evgood L env e s (zev fuel env e s).
Proof.
  induction fuel as [|f IH]; intros e L env s Hf Hd Hle Htop Hc Hw.
  { unfold evgood. simpl. repeat split; try lia; assumption. }
  destruct e as [n|k|p a|p a b|a b|c a b|body arg|body arg| |a h]; cbn [eval]; cbn [fwd_only] in Hf.
  - (* Var *)
    unfold evgood. destruct (nth_error env n) as [v|] eqn:En; simpl.
    + repeat split; try lia; try assumption.
      * rewrite Forall_forall in Hw. apply Hw. eapply nth_error_In; eauto.
      * now apply map_nth_error.
    + repeat split; try lia; try assumption. apply nth_error_None. rewrite map_length.
      now apply nth_error_None.
  - (* Const *)
    unfold evgood. simpl. repeat split; try lia; try assumption; [apply wf_num|].
    now rewrite interp_num.
  - (* App1 *)
    apply andb_prop in Hf. destruct Hf as [Hp Hfa].
    pose proof (IH a L env s Hfa Hd Hle Htop Hc Hw) as Ha.
    destruct (zev f env a s) as [[va|c|] s1]; unfold evgood in *; simpl in *.
    + destruct Ha as (Ht1 & Hc1 & Hwa & Hea).
      pose proof (AP_all L Hd f p [va] s1 Hp (Forall_cons _ Hwa (Forall_nil _))) as Hg.
      destruct Hg as [Hs Hm]. rewrite Hs. split; [lia|]. split; [assumption|].
      rewrite Hea. simpl. exact Hm.
    + destruct Ha as (Ht1 & Hc1 & Hea). rewrite Hea. simpl. auto.
    + tauto.
  - (* App2 *)
    apply andb_prop in Hf. destruct Hf as [Hf Hfb]. apply andb_prop in Hf. destruct Hf as [Hp Hfa].
    pose proof (IH a L env s Hfa Hd Hle Htop Hc Hw) as Ha.
    destruct (zev f env a s) as [[va|c|] s1]; unfold evgood in *; simpl in *.
    + destruct Ha as (Ht1 & Hc1 & Hwa & Hea).
      assert (Hle1 : forall u, In u L -> u <= top Z s1) by (intros u Hu; specialize (Hle u Hu); lia).
      pose proof (IH b L env s1 Hfb Hd Hle1 ltac:(lia) Hc1 Hw) as Hb.
      destruct (zev f env b s1) as [[vb|c|] s2]; simpl in *.
      * destruct Hb as (Ht2 & Hc2 & Hwb & Heb).
        pose proof (AP_all L Hd f p [va; vb] s2 Hp
                      (Forall_cons _ Hwa (Forall_cons _ Hwb (Forall_nil _)))) as Hg.
        destruct Hg as [Hs Hm]. rewrite Hs. split; [lia|]. split; [assumption|].
        rewrite Hea, Heb. simpl. exact Hm.
      * destruct Hb as (Ht2 & Hc2 & Heb). rewrite Hea, Heb. simpl. repeat split; try lia; assumption.
      * destruct Hb as (Ht2 & Hc2 & _). repeat split; try lia; assumption.
    + destruct Ha as (Ht1 & Hc1 & Hea). rewrite Hea. simpl. auto.
    + tauto.
  - (* Let *)
    apply andb_prop in Hf. destruct Hf as [Hfa Hfb].
    pose proof (IH a L env s Hfa Hd Hle Htop Hc Hw) as Ha.
    destruct (zev f env a s) as [[va|c|] s1]; unfold evgood in *; simpl in *.
    + destruct Ha as (Ht1 & Hc1 & Hwa & Hea).
      assert (Hle1 : forall u, In u L -> u <= top Z s1) by (intros u Hu; specialize (Hle u Hu); lia).
      pose proof (IH b L (va :: env) s1 Hfb Hd Hle1 ltac:(lia) Hc1 (Forall_cons _ Hwa Hw)) as Hb.
      rewrite Hea. simpl in *.
      destruct (zev f (va :: env) b s1) as [[vb|c|] s2]; simpl in *.
      * destruct Hb as (Ht2 & Hc2 & Hwb & Heb). repeat split; try lia; assumption.
      * destruct Hb as (Ht2 & Hc2 & Heb). repeat split; try lia; assumption.
      * destruct Hb as (Ht2 & Hc2 & _). repeat split; try lia; assumption.
    + destruct Ha as (Ht1 & Hc1 & Hea). rewrite Hea. simpl. auto.
    + tauto.
  - (* IfPos *)
    apply andb_prop in Hf. destruct Hf as [Hf Hfb]. apply andb_prop in Hf. destruct Hf as [Hfc Hfa].
    pose proof (IH c L env s Hfc Hd Hle Htop Hc Hw) as Hcnd.
    destruct (zev f env c s) as [[vc|cc|] s1]; unfold evgood in *; simpl in *.
    + destruct Hcnd as (Ht1 & Hc1 & Hwc & Hec).
      assert (Hle1 : forall u, In u L -> u <= top Z s1) by (intros u Hu; specialize (Hle u Hu); lia).
      rewrite Hec. simpl. rewrite tprimal_interp.
      destruct (strip Z vc >? 0).
      * pose proof (IH a L env s1 Hfa Hd Hle1 ltac:(lia) Hc1 Hw) as Hb.
        destruct (zev f env a s1) as [[vb|cb|] s2]; simpl in *.
        -- destruct Hb as (Ht2 & Hc2 & Hwb & Heb). repeat split; try lia; assumption.
        -- destruct Hb as (Ht2 & Hc2 & Heb). repeat split; try lia; assumption.
        -- destruct Hb as (Ht2 & Hc2 & _). repeat split; try lia; assumption.
      * pose proof (IH b L env s1 Hfb Hd Hle1 ltac:(lia) Hc1 Hw) as Hb.
        destruct (zev f env b s1) as [[vb|cb|] s2]; simpl in *.
        -- destruct Hb as (Ht2 & Hc2 & Hwb & Heb). repeat split; try lia; assumption.
        -- destruct Hb as (Ht2 & Hc2 & Heb). repeat split; try lia; assumption.
        -- destruct Hb as (Ht2 & Hc2 & _). repeat split; try lia; assumption.
    + destruct Hcnd as (Ht1 & Hc1 & Hec). rewrite Hec. simpl. auto.
    + tauto.
  - (* Grad: outside the fragment *) discriminate.
  - (* Deriv *)
    apply andb_prop in Hf. destruct Hf as [Hfb Hfa].
    pose proof (IH arg L env s Hfa Hd Hle Htop Hc Hw) as Ha.
    destruct (zev f env arg s) as [[x|cc|] s1]; unfold evgood in *; simpl in *.
    2:{ destruct Ha as (Ht1 & Hc1 & Hea). rewrite Hea. simpl. auto. }
    2:{ tauto. }
    destruct Ha as (Ht1 & Hc1 & Hwx & Hex).
    destruct (enter Z s1) as [t s2] eqn:Een.
    destruct (enter_calm Z s1 t s2 Hc1 Een) as (Hlt & Htop2 & Hc2).
    assert (Hd2 : desc (t :: L)).
    { simpl. split; [|split; [lia|assumption]]. intros u Hu. specialize (Hle u Hu). lia. }
    assert (Hle2 : forall u, In u (t :: L) -> u <= top Z s2).
    { intros u [<-|Hu]; [lia|]. specialize (Hle u Hu). lia. }
    assert (Hw2 : Forall (wf (t :: L)) (VB t x (NJz (VN 1)) :: env)).
    { constructor; [apply wf_top; [assumption|apply wf_num]|].
      rewrite Forall_forall in *. intros v Hv. apply wf_weaken; auto. }
    pose proof (IH body (t :: L) _ s2 Hfb Hd2 Hle2 ltac:(lia) Hc2 Hw2) as Hb.
    assert (Henv : map (interp (t :: L)) (VB t x (NJz (VN 1)) :: env)
                   = (interp L x, tone (length L)) :: map (tlift (length L)) (map (interp L) env)).
    { cbn [map]. rewrite interp_top, interp_num, tconst_1. f_equal.
      rewrite map_map. apply map_ext_in. intros v Hv. apply interp_weaken; [assumption|].
      rewrite Forall_forall in Hw. auto. }
    rewrite Henv in Hb. rewrite Hex. cbn [obind].
    change (length (t :: L)) with (S (length L)) in Hb.
    destruct (zev f (VB t x (NJz (VN 1)) :: env) body s2) as [[endv|cb|] s3]; simpl in *.
    + destruct Hb as (Ht3 & Hc3 & Hwe & Heb). rewrite Heb. cbn [obind].
      destruct endv as [k|t' ev [tg|idx]].
      * simpl. repeat split; try lia; try assumption; [apply wf_num|].
        rewrite interp_num. now rewrite tconst_0.
      * simpl in Hwe |- *. destruct (Z.eqb t' t); simpl.
        -- repeat split; try lia; tauto.
        -- repeat split; try lia; try assumption; [apply wf_num|].
           rewrite interp_num. now rewrite tconst_0.
      * exfalso. destruct (wf_outer _ _ _ _ Hwe) as [_ [g Hg]]. discriminate.
    + destruct Hb as (Ht3 & Hc3 & Heb). rewrite Heb. simpl. repeat split; try lia; assumption.
    + destruct Hb as (Ht3 & Hc3 & _). repeat split; try lia; assumption.
  - (* Fail *)
    unfold evgood. simpl. repeat split; try lia; assumption.
  - (* Try *)
    apply andb_prop in Hf. destruct Hf as [Hfa Hfh].
    pose proof (IH a L env s Hfa Hd Hle Htop Hc Hw) as Ha.
    destruct (zev f env a s) as [[va|c|] s1]; unfold evgood in *; simpl in *.
    + destruct Ha as (Ht1 & Hc1 & Hwa & Hea). rewrite Hea. repeat split; try lia; assumption.
    + destruct Ha as (Ht1 & Hc1 & Hea). rewrite Hea.
      assert (Hle1 : forall u, In u L -> u <= top Z s1) by (intros u Hu; specialize (Hle u Hu); lia).
      pose proof (IH h L env s1 Hfh Hd Hle1 ltac:(lia) Hc1 Hw) as Hh.
      destruct (zev f env h s1) as [[vh|ch|] s2]; simpl in *.
      * destruct Hh as (Ht2 & Hc2 & Hwh & Heh). repeat split; try lia; assumption.
      * destruct Hh as (Ht2 & Hc2 & Heh). repeat split; try lia; assumption.
      * destruct Hh as (Ht2 & Hc2 & _). repeat split; try lia; assumption.
    + tauto.
Qed.

(* closed programs of the forward-mode fragment: the tagged evaluator started
   from any counter value and under any non-negative interference returns exactly
   what the tag-free tower semantics returns, and raises exactly when it raises *)
Theorem forward_fragment_correct fuel e s :
  fwd_only e = true -> -1 <= top Z s -> calmz s ->
  match fst (zev fuel [] e s) with
  | Val v => eval_spec e 0 [] = Some (strip Z v)
  | Err _ => eval_spec e 0 [] = None
  | OutOfFuel => True
  end.
Proof.
  intros Hf Ht Hc.
  pose proof (eval_fwd fuel e [] [] s Hf I (fun u H => match H with end) Ht Hc (Forall_nil _)) as H.
  destruct H as (_ & _ & H). destruct (fst (zev fuel [] e s)) as [v|c|]; [|assumption|exact I].
  destruct H as [_ H]. exact H.
Qed.
Print Assumptions forward_fragment_correct.

(* non-vacuity: a third-order forward tower inside the fragment evaluates, and agrees *)
Example fwd_example :
  let e := Deriv (Deriv (Deriv (App2 PMul (App1 (PF 0) (Var 0)) (App2 PMul (Var 0) (Var 1))) (Var 0)) (Var 0)) (Const 2) in
  fwd_only e = true /\
  fst (zev 50 [] e (init_state Z)) = Val (VN 9408) /\ eval_spec e 0 [] = Some 9408.
Proof. vm_compute. repeat split; reflexivity. Qed.
