(* The backward pass of one trace computes the tangent of its end node:
   reverse accumulation over the node store, with the rule bodies run through
   the wrapper at the levels below, returns g * d(end)/d(root). *)
From Coq Require Import List Arith Bool ZArith Lia.
Import ListNotations.
From AG Require Import Toposort ToposortProof Tagged Tower TaggedProof TowerAlg FwdCorrect.
From AG Require Import TowerRing MixInterp MixStep.
Local Open Scope Z_scope.

Notation zog_get := (og_get Z).
Notation zog_put := (og_put Z).
Notation zog_remove := (og_remove Z).

Section Pass.
  Variable L : list level.            (* the levels below the trace *)
  Hypothesis HL : ldesc L.
  Variable st : zstore.               (* the store when the pass starts *)
  Hypothesis Hst : SInv st.
  Variable r : nat.                   (* root of the trace *)
  Variable en : nat.                  (* end node *)
  Hypothesis Hen : tnode st (wf st L) r (S en) en.

  Notation n := (length L).
  Definition par := node_parents Z st.
  Definition D (m : nat) : T n := dnode n st (interp st L) (S m) m.

  Lemma par_dag : forall a p, In p (par a) -> (p < a)%nat.
  Proof.
    unfold par, node_parents. intros a p. destruct (nth_error st a) as [nd|] eqn:E; [|intros []].
    intros Hp. pose proof (Hst _ _ E) as H. rewrite Forall_forall in H. auto.
  Qed.

  Lemma reach_tnode m : reach par en m -> tnode st (wf st L) r (S m) m.
  Proof.
    induction 1 as [|c p Hc IH Hp]; [exact Hen|].
    rewrite tnode_S in IH. unfold par, node_parents in Hp.
    destruct (nth_error st c) as [nd|] eqn:E; [|destruct Hp].
    destruct (n_root Z nd).
    - destruct IH as [_ Hnil]. rewrite Hnil in Hp. destruct Hp.
    - destruct IH as (_ & _ & _ & _ & _ & _ & Hps). rewrite Forall_forall in Hps.
      destruct (Hps _ Hp) as [Hlt Ht]. eapply tnode_fuel; eauto.
  Qed.

  (* the shape of a node of the trace *)
  Lemma tnode_cases m :
    tnode st (wf st L) r (S m) m ->
    exists nd, nth_error st m = Some nd /\
      ((n_root Z nd = true /\ m = r /\ n_parents Z nd = [])
       \/ (n_root Z nd = false /\ diffable (n_prim Z nd) = true
           /\ length (n_args Z nd) = arity (n_prim Z nd)
           /\ Forall (wf st L) (n_args Z nd)
           /\ length (n_argnums Z nd) = length (n_parents Z nd)
           /\ n_parents Z nd <> []
           /\ Forall (fun k => (k < length (n_args Z nd))%nat) (n_argnums Z nd)
           /\ Forall (fun p => (p < m)%nat /\ tnode st (wf st L) r (S p) p) (n_parents Z nd))).
  Proof.
    rewrite tnode_S. destruct (nth_error st m) as [nd|]; [|intros []]. intros H. exists nd. split; [reflexivity|].
    destruct (n_root Z nd); [left; tauto|right].
    destruct H as (H1 & H2 & H3 & H4 & H5 & H6 & H7). repeat split; try assumption.
    eapply Forall_impl; [|exact H7]. intros p [Hp Ht]. split; [assumption|]. eapply tnode_fuel; eauto.
  Qed.

  (* the defining equation of the tangent at a non-root node *)
  Lemma D_unfold m nd :
    tnode st (wf st L) r (S m) m -> nth_error st m = Some nd -> n_root Z nd = false ->
    D m = tsum n (map (fun kp => tmul n (dprim n (n_prim Z nd) (fst kp) (map (interp st L) (n_args Z nd))) (D (snd kp)))
                      (combine (n_argnums Z nd) (n_parents Z nd))).
  Proof.
    intros Ht E Hr. unfold D at 1. rewrite dnode_S, E, Hr. f_equal. apply map_ext_in. intros [k p] Hkp.
    cbn [fst snd]. f_equal. unfold D.
    destruct (tnode_cases _ Ht) as (nd' & E' & [(Hr' & _)|(_ & _ & _ & _ & _ & _ & _ & Hps)]); rewrite E in E'; inversion E'; subst nd'.
    - congruence.
    - apply in_combine_r in Hkp. rewrite Forall_forall in Hps. destruct (Hps _ Hkp) as [Hlt Htp].
      exact (dnode_fuel _ _ _ _ _ _ _ _ Htp Hlt).
  Qed.

  Lemma D_at_root nd : nth_error st r = Some nd -> n_root Z nd = true -> D r = tone n.
  Proof. intros E Hr. unfold D. now rewrite dnode_S, E, Hr. Qed.

  (* ---------- the pending cotangents, weighted by the tangents of their nodes ---------- *)
  Notation ogmap := (list (nat * zvalue)).
  Definition keys (og : ogmap) : list nat := map fst og.
  Definition osum (cur : zstore) (og : ogmap) : T n :=
    tsum n (map (fun e => tmul n (interp cur L (snd e)) (D (fst e))) og).

  Lemma osum_get_remove cur og m g :
    zog_get m og = Some g ->
    osum cur og = tadd n (tmul n (interp cur L g) (D m)) (osum cur (zog_remove m og)).
  Proof.
    induction og as [|[k v] og IH]; simpl; [discriminate|].
    destruct (Nat.eqb_spec k m) as [->|Hne]; intros H.
    - inversion H; subst. reflexivity.
    - unfold osum in *. simpl. rewrite (IH H).
      rewrite !tadd_assoc. f_equal. apply tadd_comm.
  Qed.

  Lemma osum_put_fresh cur og p c :
    zog_get p og = None ->
    osum cur (zog_put p c og) = tadd n (osum cur og) (tmul n (interp cur L c) (D p)).
  Proof.
    induction og as [|[k v] og IH]; simpl; intros H.
    - unfold osum. simpl. now rewrite tadd_0_r, tadd_0_l.
    - destruct (Nat.eqb_spec k p) as [->|Hne]; [discriminate|].
      unfold osum in *. simpl. rewrite (IH H). now rewrite tadd_assoc.
  Qed.

  Lemma osum_put_merge cur og p prev c rr :
    zog_get p og = Some prev ->
    interp cur L rr = tadd n (interp cur L prev) (interp cur L c) ->
    osum cur (zog_put p rr og) = tadd n (osum cur og) (tmul n (interp cur L c) (D p)).
  Proof.
    induction og as [|[k v] og IH]; simpl; intros H Hr; [discriminate|].
    destruct (Nat.eqb_spec k p) as [->|Hne].
    - inversion H; subst. unfold osum. simpl. rewrite Hr, tmul_add_distr_r.
      rewrite <- !tadd_assoc. f_equal. apply tadd_comm.
    - unfold osum in *. simpl. rewrite (IH H Hr). now rewrite tadd_assoc.
  Qed.

  Lemma keys_put og p c : keys (zog_put p c og) = if existsb (Nat.eqb p) (keys og) then keys og else keys og ++ [p].
  Proof.
    induction og as [|[k v] og IH]; simpl; [reflexivity|].
    destruct (Nat.eqb_spec k p) as [->|Hne].
    - now rewrite Nat.eqb_refl.
    - simpl. rewrite IH. destruct (Nat.eqb_spec p k) as [->|_]; [congruence|]. simpl.
      destruct (existsb (Nat.eqb p) (keys og)); reflexivity.
  Qed.

  Lemma get_none_keys og p : zog_get p og = None <-> ~ In p (keys og).
  Proof.
    induction og as [|[k v] og IH]; simpl; [tauto|].
    destruct (Nat.eqb_spec k p) as [->|Hne]; [split; [discriminate|tauto]|].
    rewrite IH. tauto.
  Qed.
  Lemma get_some_in og p g : zog_get p og = Some g -> In (p, g) og.
  Proof.
    induction og as [|[k v] og IH]; simpl; [discriminate|].
    destruct (Nat.eqb_spec k p) as [->|Hne]; intros H; [inversion H; now left|right; auto].
  Qed.
  Lemma in_remove og m e : In e (zog_remove m og) -> In e og.
  Proof.
    induction og as [|[k v] og IH]; simpl; [tauto|].
    destruct (Nat.eqb k m); [tauto|]. simpl. tauto.
  Qed.
  Lemma keys_remove og m : NoDup (keys og) -> ~ In m (keys (zog_remove m og)) /\ NoDup (keys (zog_remove m og))
                           /\ (forall k, k <> m -> (In k (keys (zog_remove m og)) <-> In k (keys og))).
  Proof.
    induction og as [|[k v] og IH]; simpl; intros Hnd.
    - split; [tauto|]. split; [constructor|tauto].
    - inversion Hnd as [|? ? Hnin Hnd']; subst. destruct (Nat.eqb_spec k m) as [->|Hne].
      + split; [assumption|]. split; [assumption|]. intros k Hk. simpl. split; [tauto|]. intros [E|H]; [congruence|assumption].
      + destruct (IH Hnd') as (I1 & I2 & I3). simpl. split; [tauto|]. split.
        * constructor; [|assumption]. intros Hin. destruct (Nat.eq_dec k m) as [->|Hkm]; [tauto|].
          apply I3 in Hin; auto.
        * intros k0 Hk0. rewrite (I3 k0 Hk0). tauto.
  Qed.

  Definition wfog (cur : zstore) (og : ogmap) : Prop := Forall (fun e => wf cur L (snd e)) og.

  Lemma osum_ext s s' og : sext s s' -> wfog (store Z s) og -> osum (store Z s') og = osum (store Z s) og.
  Proof.
    intros Hs Hw. unfold osum. f_equal. apply map_ext_in. intros e He. f_equal.
    apply sext_interp; [assumption|]. unfold wfog in Hw. rewrite Forall_forall in Hw. auto.
  Qed.
  Lemma wfog_ext s s' og : sext s s' -> wfog (store Z s) og -> wfog (store Z s') og.
  Proof. intros Hs. apply Forall_impl. intros e. now apply sext_wf. Qed.
  Lemma wfog_put cur og p c : wfog cur og -> wf cur L c -> wfog cur (zog_put p c og).
  Proof.
    unfold wfog. induction og as [|[k v] og IH]; simpl; intros Hw Hc.
    - repeat constructor. assumption.
    - inversion Hw; subst. destruct (Nat.eqb k p); constructor; auto.
  Qed.
  Lemma wfog_remove cur og m : wfog cur og -> wfog cur (zog_remove m og).
  Proof.
    unfold wfog. induction og as [|[k v] og IH]; simpl; intros Hw; [constructor|].
    inversion Hw; subst. destruct (Nat.eqb k m); [assumption|constructor; auto].
  Qed.
  Lemma wfog_get cur og m g : wfog cur og -> zog_get m og = Some g -> wf cur L g.
  Proof.
    intros Hw Hg. apply get_some_in in Hg. unfold wfog in Hw. rewrite Forall_forall in Hw. exact (Hw _ Hg).
  Qed.

  (* ---------- node.vjp(g): one cotangent per parent ---------- *)
  Definition lgood (s : zstate) (sps : list (T n)) (m : M Z (list zvalue)) : Prop :=
    sext s (snd m) /\ SInv (store Z (snd m)) /\
    match fst m with
    | Val cs => Forall (wf (store Z (snd m)) L) cs /\ map (interp (store Z (snd m)) L) cs = sps
    | Err _ => False
    | OutOfFuel => True
    end.

  Lemma node_vjp_good f nd g : forall nums s,
      diffable (n_prim Z nd) = true -> length (n_args Z nd) = arity (n_prim Z nd) ->
      Forall (fun k => (k < length (n_args Z nd))%nat) nums ->
      SInv (store Z s) -> Forall (wf (store Z s) L) (n_args Z nd) -> wf (store Z s) L g ->
      lgood s (map (fun k => tmul n (dprim n (n_prim Z nd) k (map (interp (store Z s) L) (n_args Z nd)))
                                 (interp (store Z s) L g)) nums)
            (node_vjp Z Z.add Z.sub Z.mul Z.opp zF Z.sgn f nd nums g s).
  Proof.
    induction nums as [|k nums IH]; intros s Hp Har Hks Hi Hwa Hg; cbn [node_vjp map].
    - unfold lgood, ret. cbn [fst snd]. split; [apply sext_refl|]. split; [assumption|]. split; [constructor|reflexivity].
    - inversion Hks as [|? ? Hk Hks']; subst.
      pose proof (vjp_rule_good L (MAP_all L HL) f (n_prim Z nd) k g (n_ans Z nd) (n_args Z nd) s Hp Har
                                ltac:(lia) Hi Hwa Hg) as (Hs1 & Hi1 & Hm).
      destruct (vjp_rule Z (zapply f) (n_prim Z nd) k g (n_ans Z nd) (n_args Z nd) s) as [[c|e|] s1];
        cbn [fst snd bind] in *.
      + destruct Hm as [Hwc Hc]. inversion Hc as [Hc'].
        pose proof (IH s1 Hp Har Hks' Hi1 (sext_wfs _ _ _ _ Hs1 Hwa) (sext_wf _ _ _ _ Hs1 Hg)) as (Hs2 & Hi2 & Hm2).
        destruct (node_vjp Z Z.add Z.sub Z.mul Z.opp zF Z.sgn f nd nums g s1) as [[cs|e|] s2];
          cbn [fst snd bind ret] in *; unfold lgood, ret; cbn [fst snd].
        * destruct Hm2 as [Hwcs Hcs]. split; [eapply sext_trans; eauto|]. split; [assumption|]. split.
          -- constructor; [eapply sext_wf; eauto|assumption].
          -- cbn [map]. f_equal.
             ++ rewrite (sext_interp _ _ _ _ Hs2 Hwc). now rewrite <- Hc'.
             ++ rewrite Hcs. apply map_ext. intros k'.
                now rewrite (sext_interps _ _ _ _ Hs1 Hwa), (sext_interp _ _ _ _ Hs1 Hg).
        * destruct Hm2.
        * split; [eapply sext_trans; eauto|]. split; [assumption|exact I].
      + discriminate.
      + unfold lgood. cbn [fst snd]. split; [assumption|]. split; [assumption|exact I].
  Qed.

  Lemma NoDup_app_intro_single (l : list nat) p : NoDup l -> ~ In p l -> NoDup (l ++ [p]).
  Proof.
    induction l as [|x l IH]; simpl; intros Hnd Hnin; [repeat constructor; tauto|].
    inversion Hnd; subst. constructor.
    - rewrite in_app_iff. simpl. intros [H|[H|[]]]; [tauto|subst; tauto].
    - apply IH; tauto.
  Qed.
  Lemma existsb_eqb_in p l : existsb (Nat.eqb p) l = true <-> In p l.
  Proof.
    rewrite existsb_exists. split.
    - intros (x & Hx & E). apply Nat.eqb_eq in E. now subst.
    - intros H. exists p. split; [assumption|apply Nat.eqb_refl].
  Qed.
  Lemma keys_put_in og p c : In p (keys og) -> keys (zog_put p c og) = keys og.
  Proof. intros H. rewrite keys_put. apply existsb_eqb_in in H. now rewrite H. Qed.
  Lemma keys_put_notin og p c : ~ In p (keys og) -> keys (zog_put p c og) = keys og ++ [p].
  Proof.
    intros H. rewrite keys_put. destruct (existsb (Nat.eqb p) (keys og)) eqn:E; [|reflexivity].
    apply existsb_eqb_in in E. contradiction.
  Qed.
  Lemma get_some_keys og p g : zog_get p og = Some g -> In p (keys og).
  Proof. intros H. apply get_some_in in H. apply (in_map fst) in H. exact H. Qed.

  Definition ogood (s : zstate) (P : zstate -> ogmap -> Prop) (m : M Z ogmap) : Prop :=
    sext s (snd m) /\ SInv (store Z (snd m)) /\
    match fst m with
    | Val og' => P (snd m) og'
    | Err _ => False
    | OutOfFuel => True
    end.

  Definition contrib (cur : zstore) (ps : list nat) (gs : list zvalue) : T n :=
    tsum n (map (fun pg => tmul n (interp cur L (snd pg)) (D (fst pg))) (combine ps gs)).

  Lemma contrib_ext s s' ps gs :
    sext s s' -> Forall (wf (store Z s) L) gs -> contrib (store Z s') ps gs = contrib (store Z s) ps gs.
  Proof.
    intros Hs Hw. unfold contrib. f_equal. apply map_ext_in. intros [p g] Hin. cbn [fst snd]. f_equal.
    apply sext_interp; [assumption|]. apply in_combine_r in Hin. rewrite Forall_forall in Hw. auto.
  Qed.
  Lemma contrib_cons cur p ps g gs :
    contrib cur (p :: ps) (g :: gs) = tadd n (tmul n (interp cur L g) (D p)) (contrib cur ps gs).
  Proof. reflexivity. Qed.

  Lemma accumulate_good f : forall ps gs og s,
      length ps = length gs -> SInv (store Z s) -> wfog (store Z s) og -> Forall (wf (store Z s) L) gs ->
      ogood s (fun s' og' =>
                 wfog (store Z s') og'
                 /\ (forall k, In k (keys og') <-> In k (keys og) \/ In k ps)
                 /\ (NoDup (keys og) -> NoDup (keys og'))
                 /\ osum (store Z s') og' = tadd n (osum (store Z s) og) (contrib (store Z s) ps gs))
            (accumulate Z Z.add Z.sub Z.mul Z.opp zF Z.sgn f ps gs og s).
  Proof.
    induction ps as [|p ps IH]; intros gs og s Hlen Hi Hwo Hwg.
    - destruct gs; [|discriminate]. cbn [accumulate]. unfold ogood, ret, contrib. cbn [fst snd combine map tsum].
      split; [apply sext_refl|]. split; [assumption|]. split; [assumption|]. split; [intros k; simpl; tauto|].
      split; [auto|]. now rewrite tadd_0_r.
    - destruct gs as [|g gs]; [discriminate|]. cbn [accumulate]. inversion Hwg as [|? ? Hg Hwg']; subst.
      assert (Hlen' : length ps = length gs) by (simpl in Hlen; lia).
      destruct (zog_get p og) as [prev|] eqn:Eg.
      + (* add to the pending cotangent of p *)
        pose proof (wfog_get _ _ _ _ Hwo Eg) as Hprev.
        pose proof (MAP_all L HL f PAdd [prev; g] s eq_refl Hi ltac:(repeat constructor; assumption)) as (Hs1 & Hi1 & Hm).
        destruct (zapply f PAdd [prev; g] s) as [[rr|e|] s1]; cbn [fst snd bind] in *.
        * destruct Hm as [Hwr Hr]. cbn [map tprimN tprim2] in Hr. inversion Hr as [Hr'].
          pose proof (IH gs (zog_put p rr og) s1 Hlen' Hi1
                         (wfog_put _ _ _ _ (wfog_ext _ _ _ Hs1 Hwo) Hwr) (sext_wfs _ _ _ _ Hs1 Hwg')) as (Hs2 & Hi2 & Hm2).
          destruct (accumulate Z Z.add Z.sub Z.mul Z.opp zF Z.sgn f ps gs (zog_put p rr og) s1) as [[og'|e|] s2];
            cbn [fst snd] in *; unfold ogood; cbn [fst snd].
          -- destruct Hm2 as (A1 & A2 & A3 & A4). split; [eapply sext_trans; eauto|]. split; [assumption|].
             pose proof (get_some_keys _ _ _ Eg) as Hin.
             split; [assumption|]. split; [|split].
             ++ intros k. rewrite A2, (keys_put_in _ _ _ Hin). simpl. split; [tauto|].
                intros [H|[<-|H]]; auto.
             ++ intros Hnd. apply A3. now rewrite (keys_put_in _ _ _ Hin).
             ++ rewrite A4.
                assert (Hmerge : interp (store Z s1) L rr
                                 = tadd n (interp (store Z s1) L prev) (interp (store Z s1) L g)).
                { rewrite <- Hr', (sext_interp _ _ _ _ Hs1 Hprev), (sext_interp _ _ _ _ Hs1 Hg). reflexivity. }
                rewrite (osum_put_merge (store Z s1) og p prev g rr Eg Hmerge).
                rewrite (osum_ext _ _ _ Hs1 Hwo), (sext_interp _ _ _ _ Hs1 Hg), (contrib_ext _ _ _ _ Hs1 Hwg').
                rewrite contrib_cons. now rewrite tadd_assoc.
          -- destruct Hm2.
          -- split; [eapply sext_trans; eauto|]. split; [assumption|exact I].
        * discriminate.
        * unfold ogood. cbn [fst snd]. split; [assumption|]. split; [assumption|exact I].
      + (* first cotangent for p: stored as is *)
        pose proof (IH gs (zog_put p g og) s Hlen' Hi (wfog_put _ _ _ _ Hwo Hg) Hwg') as (Hs2 & Hi2 & Hm2).
        destruct (accumulate Z Z.add Z.sub Z.mul Z.opp zF Z.sgn f ps gs (zog_put p g og) s) as [[og'|e|] s2];
          cbn [fst snd] in *; unfold ogood; cbn [fst snd].
        * destruct Hm2 as (A1 & A2 & A3 & A4). split; [assumption|]. split; [assumption|].
          pose proof (proj1 (get_none_keys og p) Eg) as Hnin.
          split; [assumption|]. split; [|split].
          -- intros k. rewrite A2, (keys_put_notin _ _ _ Hnin), in_app_iff. simpl. tauto.
          -- intros Hnd. apply A3. rewrite (keys_put_notin _ _ _ Hnin). apply NoDup_app_intro_single; assumption.
          -- rewrite A4, (osum_put_fresh _ _ _ _ Eg), contrib_cons. now rewrite tadd_assoc.
        * destruct Hm2.
        * split; [assumption|]. split; [assumption|exact I].
  Qed.

  (* ---------- list facts about the order ---------- *)
  Lemma NoDup_split_unique (x : nat) l1 l2 l1' l2' :
    NoDup (l1 ++ x :: l2) -> l1 ++ x :: l2 = l1' ++ x :: l2' -> l1 = l1'.
  Proof.
    revert l1'. induction l1 as [|a l1 IH]; intros l1' Hnd Heq.
    - destruct l1' as [|b l1']; [reflexivity|]. simpl in *. inversion Heq as [[Hb Hl2]]. subst b.
      inversion Hnd as [|? ? Hnin _]; subst. exfalso. apply Hnin. apply in_or_app. right. now left.
    - destruct l1' as [|b l1'].
      + simpl in *. inversion Heq; subst a. inversion Hnd as [|? ? Hnin _]; subst.
        exfalso. apply Hnin. apply in_or_app. right. now left.
      + simpl in *. inversion Heq; subst b. inversion Hnd; subst. f_equal. eapply IH; eauto.
  Qed.

  Lemma reach_inv m : reach par en m -> m = en \/ exists c, reach par en c /\ In m (par c).
  Proof. induction 1 as [|c p Hc _ Hp]; [now left|right; eauto]. Qed.

  Lemma contrib_adjoint cur (d : nat -> T n) (gI : T n) : forall nums ps cs,
      length nums = length ps ->
      map (interp cur L) cs = map (fun k => tmul n (d k) gI) nums ->
      contrib cur ps cs = tmul n gI (tsum n (map (fun kp => tmul n (d (fst kp)) (D (snd kp))) (combine nums ps))).
  Proof.
    induction nums as [|k nums IH]; intros ps cs Hlen Hcs.
    - destruct ps; [|discriminate]. unfold contrib. simpl. now rewrite tmul_0_r.
    - destruct ps as [|p ps]; [discriminate|]. destruct cs as [|c cs]; [discriminate|].
      simpl in Hcs. inversion Hcs as [[Hc Hcs']]. rewrite contrib_cons. cbn [combine map tsum fst snd].
      rewrite (IH ps cs) by (simpl in Hlen; lia || assumption).
      rewrite Hc, tmul_add_distr_l. f_equal.
      rewrite (tmul_comm n (d k) gI). now rewrite tmul_assoc.
  Qed.

  (* ---------- the loop over the topologically sorted nodes ---------- *)
  Variable ord : list nat.
  Hypothesis Hnd : NoDup ord.
  Hypothesis Hreach : forall m, In m ord <-> reach par en m.
  Hypothesis Hbefore : forall c p, reach par en c -> In p (par c) -> before c p ord.

  Lemma par_of m nd : nth_error st m = Some nd -> par m = n_parents Z nd.
  Proof. intros E. unfold par, node_parents. now rewrite E. Qed.

  (* the last node of the order is a root *)
  Lemma last_is_root done m nd :
    ord = done ++ [m] -> nth_error st m = Some nd -> n_root Z nd = true.
  Proof.
    intros Ho E. destruct (n_root Z nd) eqn:Hr; [reflexivity|exfalso].
    assert (Hm : reach par en m) by (apply Hreach; rewrite Ho; apply in_or_app; right; now left).
    destruct (tnode_cases _ (reach_tnode _ Hm)) as (nd' & E' & [(Hr' & _)|(_ & _ & _ & _ & _ & Hne & _ & _)]);
      rewrite E in E'; inversion E'; subst nd'; [congruence|].
    destruct (n_parents Z nd) as [|p ps] eqn:Ep; [congruence|].
    assert (Hp : In p (par m)) by (rewrite (par_of _ _ E), Ep; now left).
    destruct (Hbefore _ _ Hm Hp) as (l1 & l2 & Ho2 & Hin).
    (* m occurs in l1, hence strictly before the end; but it is the last element *)
    apply in_split in Hin. destruct Hin as (a & b & ->).
    rewrite Ho in Ho2, Hnd. rewrite <- app_assoc in Ho2. simpl in Ho2.
    pose proof (NoDup_split_unique m done [] a (b ++ p :: l2) Hnd Ho2) as Ha. subst a.
    apply app_inv_head in Ho2. inversion Ho2 as [Hb]. destruct b; discriminate.
  Qed.

  Lemma after_in_rest done m rest' k : ord = done ++ m :: rest' -> before m k ord -> In k rest'.
  Proof.
    intros Ho (l1 & l2 & Ho2 & Hin). apply in_split in Hin. destruct Hin as (a & b & ->).
    rewrite Ho in Ho2, Hnd. rewrite <- app_assoc in Ho2. simpl in Ho2.
    pose proof (NoDup_split_unique m done rest' a (b ++ k :: l2) Hnd Ho2) as Ha. subst a.
    apply app_inv_head in Ho2. inversion Ho2 as [Hb]. apply in_or_app. right. now left.
  Qed.
  Lemma consumer_done done m rest' c : ord = done ++ m :: rest' -> before c m ord -> In c done.
  Proof.
    intros Ho (l1 & l2 & Ho2 & Hin). rewrite Ho in Ho2, Hnd.
    pose proof (NoDup_split_unique m done rest' l1 l2 Hnd Ho2) as Ha. now subst l1.
  Qed.
  Lemma get_in_keys og m : In m (keys og) -> exists g, zog_get m og = Some g.
  Proof.
    intros H. destruct (zog_get m og) as [g|] eqn:E; [eauto|]. apply get_none_keys in E. contradiction.
  Qed.
  Lemma keys_nil_nil (og : ogmap) : keys og = [] -> og = [].
  Proof. destruct og; [reflexivity|discriminate]. Qed.

  Definition st_ext (cur : zstate) : Prop := exists e, store Z cur = st ++ e.
  Lemma st_ext_nth cur m nd : st_ext cur -> nth_error st m = Some nd -> nth_error (store Z cur) m = Some nd.
  Proof.
    intros [e ->] E. rewrite nth_error_app1; [assumption|]. apply nth_error_Some. congruence.
  Qed.
  Lemma st_ext_wf cur v : st_ext cur -> wf st L v -> wf (store Z cur) L v.
  Proof. intros [e ->]. apply wf_ext. Qed.
  Lemma st_ext_interp cur v : st_ext cur -> wf st L v -> interp (store Z cur) L v = interp st L v.
  Proof. intros [e ->]. apply interp_ext. Qed.
  Lemma st_ext_sext cur cur' : st_ext cur -> sext cur cur' -> st_ext cur'.
  Proof. intros [e He] (_ & _ & e' & He'). exists (e ++ e'). rewrite He', He. now rewrite app_assoc. Qed.

  Lemma loop_good f : forall rest done og last cur,
      ord = done ++ rest -> rest <> [] ->
      st_ext cur -> SInv (store Z cur) ->
      NoDup (keys og) -> wfog (store Z cur) og ->
      (forall k, In k (keys og) -> In k rest) ->
      (forall m, In m rest -> (m = en \/ exists c, In c done /\ In m (par c)) -> In m (keys og)) ->
      osum (store Z cur) og = D en ->
      mgood L cur (Some (D en))
            (backward_loop Z Z.add Z.sub Z.mul Z.opp zF Z.sgn f rest og last cur).
  Proof.
    induction rest as [|m rest' IH]; intros done og last cur Ho Hne Hext Hi Hkd Hwo Hsub Hcomp Hsum; [congruence|].
    cbn [backward_loop].
    assert (Hm : reach par en m) by (apply Hreach; rewrite Ho; apply in_or_app; right; now left).
    (* the node has a pending cotangent *)
    assert (Hkey : In m (keys og)).
    { apply Hcomp; [now left|]. destruct (reach_inv _ Hm) as [->|(c & Hc & Hp)]; [now left|right].
      exists c. split; [|assumption]. eapply consumer_done; eauto. }
    destruct (get_in_keys _ _ Hkey) as [g Eg]. rewrite Eg.
    pose proof (wfog_get _ _ _ _ Hwo Eg) as Hg.
    destruct (tnode_cases _ (reach_tnode _ Hm)) as (nd & E & Hcase).
    rewrite (st_ext_nth _ _ _ Hext E).
    pose proof (osum_get_remove (store Z cur) og m g Eg) as Hsplit.
    destruct (keys_remove og m Hkd) as (K1 & K2 & K3).
    destruct Hcase as [(Hr & -> & Hnil)|(Hr & Hp & Har & Hwa & Hlen & Hpne & Hks & Hps)]; rewrite Hr.
    - (* the root: it must be the last node *)
      destruct rest' as [|z rest'].
      + cbn [backward_loop]. eapply mgood_eq; [|apply mgood_ret; assumption].
        assert (Hrem : zog_remove r og = []).
        { apply keys_nil_nil. destruct (keys (zog_remove r og)) as [|k ks] eqn:Ek; [reflexivity|exfalso].
          assert (Hk : In k (keys (zog_remove r og))) by (rewrite Ek; now left).
          rewrite Ek in Hk.
          destruct (Nat.eq_dec k r) as [Hkr|Hkr]; [apply K1; rewrite <- Hkr; now left|].
          apply (K3 k Hkr) in Hk. apply Hsub in Hk. destruct Hk as [Hk|[]]. congruence. }
        rewrite Hsplit, Hrem in Hsum. change (osum (store Z cur) []) with (tzero n) in Hsum.
        rewrite (D_at_root _ E Hr), tmul_1_r, tadd_0_r in Hsum. now rewrite Hsum.
      + exfalso.
        (* the last node of the order is a root too, hence r again *)
        destruct (exists_last (l := z :: rest') ltac:(discriminate)) as (pre & zl & Hpre).
        assert (Ho' : ord = (done ++ r :: pre) ++ [zl]) by (rewrite Ho, Hpre, <- app_assoc; reflexivity).
        assert (Hzl : reach par en zl) by (apply Hreach; rewrite Ho'; apply in_or_app; right; now left).
        destruct (tnode_cases _ (reach_tnode _ Hzl)) as (ndz & Ez & Hz).
        pose proof (last_is_root _ _ _ Ho' Ez) as Hrz.
        destruct Hz as [(_ & -> & _)|(Hrz' & _)]; [|congruence].
        rewrite Ho' in Hnd. apply NoDup_remove_2 in Hnd. apply Hnd. rewrite app_nil_r.
        apply in_or_app. right. now left.
    - (* an inner node: distribute its cotangent to its parents *)
      assert (Hrest' : rest' <> []).
      { intros ->. pose proof (last_is_root _ _ _ Ho E). congruence. }
      pose proof (node_vjp_good f nd g (n_argnums Z nd) cur Hp Har Hks Hi
                                (Forall_impl _ (fun v => st_ext_wf cur v Hext) Hwa) Hg) as (Hs1 & Hi1 & Hm1).
      destruct (node_vjp Z Z.add Z.sub Z.mul Z.opp zF Z.sgn f nd (n_argnums Z nd) g cur) as [[cs|e|] s1];
        cbn [fst snd bind] in *.
      2:{ destruct Hm1. }
      2:{ unfold mgood. cbn [fst snd]. split; [assumption|]. split; [assumption|exact I]. }
      destruct Hm1 as [Hwcs Hcs].
      assert (Hlcs : length (n_parents Z nd) = length cs).
      { rewrite <- Hlen. apply (f_equal (@length _)) in Hcs. rewrite !map_length in Hcs. lia. }
      pose proof (accumulate_good f (n_parents Z nd) cs (zog_remove m og) s1 Hlcs Hi1
                                  (wfog_ext _ _ _ Hs1 (wfog_remove _ _ _ Hwo)) Hwcs) as (Hs2 & Hi2 & Hm2).
      destruct (accumulate Z Z.add Z.sub Z.mul Z.opp zF Z.sgn f (n_parents Z nd) cs (zog_remove m og) s1) as [[og'|e|] s2];
        cbn [fst snd bind] in *.
      2:{ destruct Hm2. }
      2:{ unfold mgood. cbn [fst snd]. split; [eapply sext_trans; eauto|]. split; [assumption|exact I]. }
      destruct Hm2 as (A1 & A2 & A3 & A4).
      assert (Hs02 : sext cur s2) by (eapply sext_trans; eauto).
      assert (Hgoal : mgood L s2 (Some (D en))
                            (backward_loop Z Z.add Z.sub Z.mul Z.opp zF Z.sgn f rest' og' g s2)).
      { apply (IH (done ++ [m])); try assumption.
        - rewrite Ho, <- app_assoc. reflexivity.
        - eapply st_ext_sext; eauto.
        - auto.
        - (* pending nodes are still to be processed *)
          intros k Hk. apply A2 in Hk. destruct Hk as [Hk|Hk].
          + destruct (Nat.eq_dec k m) as [->|Hkm]; [tauto|]. apply (K3 k Hkm) in Hk.
            apply Hsub in Hk. destruct Hk as [Hk|Hk]; [congruence|assumption].
          + eapply after_in_rest; [exact Ho|]. apply Hbefore; [assumption|]. now rewrite (par_of _ _ E).
        - (* every node with a processed consumer has a pending cotangent *)
          intros x Hx Hc. apply A2.
          assert (Hxm : x <> m).
          { intros ->. rewrite Ho in Hnd. apply NoDup_remove_2 in Hnd. apply Hnd. apply in_or_app. now right. }
          destruct Hc as [->|(c & Hc & Hxc)].
          + left. apply (K3 en Hxm). apply Hcomp; [now right|now left].
          + apply in_app_or in Hc. destruct Hc as [Hc|[<-|[]]].
            * left. apply (K3 x Hxm). apply Hcomp; [now right|]. right. eauto.
            * right. now rewrite <- (par_of _ _ E).
        - (* the weighted sum is unchanged *)
          rewrite A4, (osum_ext _ _ _ Hs1 (wfog_remove _ _ _ Hwo)).
          rewrite (contrib_adjoint (store Z s1)
                     (fun k => dprim n (n_prim Z nd) k (map (interp (store Z cur) L) (n_args Z nd)))
                     (interp (store Z cur) L g) (n_argnums Z nd) (n_parents Z nd) cs Hlen Hcs).
          rewrite <- Hsum, Hsplit, tadd_comm. f_equal. f_equal.
          rewrite (D_unfold _ _ (reach_tnode _ Hm) E Hr). f_equal. apply map_ext_in. intros [k p] Hkp. cbn [fst snd].
          f_equal. f_equal. apply map_ext_in. intros v Hv. apply st_ext_interp; [assumption|].
          rewrite Forall_forall in Hwa. auto. }
      destruct Hgoal as (Hs3 & Hi3 & Hm3). unfold mgood.
      split; [eapply sext_trans; eauto|]. split; assumption.
  Qed.
End Pass.
