(* The tagged evaluator computes the tower semantics: every program over the
   differentiable primitives and sign, with arbitrarily nested and arbitrarily
   mixed reverse-mode (Grad) and forward-mode (Deriv) operators. *)
From Coq Require Import List Arith Bool ZArith Lia.
Import ListNotations.
From AG Require Import Toposort ToposortProof Tagged Tower TaggedProof TowerAlg FwdCorrect.
From AG Require Import TowerRing MixInterp MixStep MixBackward.
Local Open Scope Z_scope.

Notation zev := (eval Z 0 1 Z.add Z.sub Z.mul Z.opp zF Z.sgn (fun k => Z.gtb k 0) (fun k => k) Mono).
Notation calmz := (calm Z).

Fixpoint prims_ok (e : exp) : bool :=
  match e with
  | Var _ | Const _ | Fail => true
  | App1 p a => allowed p && prims_ok a
  | App2 p a b => allowed p && prims_ok a && prims_ok b
  | Let a b => prims_ok a && prims_ok b
  | IfPos c a b => prims_ok c && prims_ok a && prims_ok b
  | Try a h => prims_ok a && prims_ok h
  | Deriv body arg | Grad body arg => prims_ok body && prims_ok arg
  end.

Definition gext (s s' : zstate) : Prop :=
  top Z s <= top Z s' /\ exists e, store Z s' = store Z s ++ e.

Lemma gext_refl s : gext s s.
Proof. split; [lia|]. exists []. now rewrite app_nil_r. Qed.
Lemma gext_trans a b c : gext a b -> gext b c -> gext a c.
Proof.
  intros (A1 & e1 & A2) (B1 & e2 & B2). split; [lia|]. exists (e1 ++ e2). rewrite B2, A2. now rewrite app_assoc.
Qed.
Lemma sext_gext a b : sext a b -> gext a b.
Proof. intros (A1 & _ & A3). split; [lia|assumption]. Qed.
Lemma gext_wf a b L v : gext a b -> wf (store Z a) L v -> wf (store Z b) L v.
Proof. intros (_ & e & ->). apply wf_ext. Qed.
Lemma gext_interp a b L v : gext a b -> wf (store Z a) L v -> interp (store Z b) L v = interp (store Z a) L v.
Proof. intros (_ & e & ->). apply interp_ext. Qed.
Lemma gext_wfs a b L vs : gext a b -> Forall (wf (store Z a) L) vs -> Forall (wf (store Z b) L) vs.
Proof. intros H. apply Forall_impl. intros v. now apply gext_wf. Qed.
Lemma gext_interps a b L vs :
  gext a b -> Forall (wf (store Z a) L) vs -> map (interp (store Z b) L) vs = map (interp (store Z a) L) vs.
Proof.
  intros H Hw. apply map_ext_in. intros v Hv. apply gext_interp; [assumption|].
  rewrite Forall_forall in Hw. auto.
Qed.

Definition mevgood (L : list level) (env : list zvalue) (e : exp) (s : zstate) (m : M Z zvalue) : Prop :=
  gext s (snd m) /\ calmz (snd m) /\ SInv (store Z (snd m)) /\
  match fst m with
  | Val v => wf (store Z (snd m)) L v
             /\ eval_spec e (length L) (map (interp (store Z s) L) env) = Some (interp (store Z (snd m)) L v)
  | Err _ => eval_spec e (length L) (map (interp (store Z s) L) env) = None
  | OutOfFuel => True
  end.

(* a primitive application inside the evaluator *)
Lemma prim_step L env e s sp mm :
  calmz s -> mgood L s sp mm -> eval_spec e (length L) (map (interp (store Z s) L) env) = sp ->
  mevgood L env e s mm.
Proof.
  intros Hc (Hs & Hi & Hm) He. unfold mevgood. split; [now apply sext_gext|]. split.
  - destruct Hs as (_ & Hn & _). unfold calm in *. now rewrite Hn.
  - split; [assumption|]. rewrite He. exact Hm.
Qed.

Lemma backward_pass_good L r s en f :
  ldesc L -> SInv (store Z s) -> tnode (store Z s) (wf (store Z s) L) r (S en) en ->
  mgood L s (Some (dnode (length L) (store Z s) (interp (store Z s) L) (S en) en))
        (backward_pass Z Z.add Z.sub Z.mul Z.opp zF Z.sgn f (VN 1) en s).
Proof.
  intros HL Hi Hen. unfold backward_pass.
  destruct (toposort_correct (node_parents Z (store Z s)) (par_dag _ Hi) en)
    as (ord & Hts & Hnd & Hreach & [tl Htl] & Hbefore).
  rewrite Hts.
  apply (loop_good L HL (store Z s) r en Hen ord Hnd Hreach Hbefore f ord [] [(en, VN 1)] (VN 1) s).
  - reflexivity.
  - rewrite Htl. discriminate.
  - exists []. now rewrite app_nil_r.
  - assumption.
  - simpl. constructor; [tauto|constructor].
  - repeat constructor. simpl. apply wf_num.
  - intros k [<-|[]]. rewrite Htl. now left.
  - intros m Hm [->|(c & [] & _)]. now left.
  - unfold osum. simpl. rewrite interp_num, tconst_1, tmul_1_l. apply tadd_0_r.
Qed.

Lemma enter_store s t se : enter Z s = (t, se) -> store Z se = store Z s.
Proof.
  unfold enter, draw. destruct (noise Z s) as [|d rr]; intros H; inversion H; reflexivity.
Qed.

Lemma SInv_root st : SInv st -> SInv (st ++ [root_node Z 0]).
Proof.
  intros Hi idx nd Hnd. destruct (Nat.lt_ge_cases idx (length st)) as [Hlt|Hge].
  - rewrite nth_error_app1 in Hnd by assumption. eapply Hi; eauto.
  - rewrite nth_error_app2 in Hnd by assumption.
    destruct (idx - length st)%nat as [|k]; simpl in Hnd; [|destruct k; discriminate].
    inversion Hnd; subst nd. simpl. constructor.
Qed.

Theorem meval : forall fuel e L env s,
    prims_ok e = true -> ldesc L -> (forall u, In u (ids L) -> u <= top Z s) -> -1 <= top Z s ->
    calmz s -> SInv (store Z s) -> Forall (wf (store Z s) L) env ->
    mevgood L env e s (zev fuel env e s).
Proof.
  induction fuel as [|f IH]; intros e L env s Hf Hd Hle Htop Hc Hi Hw.
  { unfold mevgood. simpl. split; [apply gext_refl|]. repeat split; assumption. }
  destruct e as [k|k|p a|p a b|a b|c a b|body arg|body arg| |a h]; cbn [eval]; cbn [prims_ok] in Hf.
  - (* Var *)
    unfold mevgood. destruct (nth_error env k) as [v|] eqn:En; cbn [fst snd ret eval_spec].
    + split; [apply gext_refl|]. split; [assumption|]. split; [assumption|]. split.
      * rewrite Forall_forall in Hw. apply Hw. eapply nth_error_In; eauto.
      * now apply map_nth_error.
    + split; [apply gext_refl|]. split; [assumption|]. split; [assumption|].
      apply nth_error_None. rewrite map_length. now apply nth_error_None.
  - (* Const *)
    unfold mevgood. cbn [fst snd ret eval_spec]. split; [apply gext_refl|]. split; [assumption|]. split; [assumption|].
    split; [apply wf_num|]. now rewrite interp_num.
  - (* App1 *)
    apply andb_prop in Hf. destruct Hf as [Hp Hfa].
    pose proof (IH a L env s Hfa Hd Hle Htop Hc Hi Hw) as Ha.
    destruct (zev f env a s) as [[va|c|] s1]; unfold mevgood in *; cbn [fst snd bind] in *.
    + destruct Ha as (Hg1 & Hc1 & Hi1 & Hwa & Hea).
      pose proof (MAP_all L Hd f p [va] s1 Hp Hi1 (Forall_cons _ Hwa (Forall_nil _))) as (Hs2 & Hi2 & Hm).
      split; [eapply gext_trans; [exact Hg1|now apply sext_gext]|]. split.
      { destruct Hs2 as (_ & Hn & _). unfold calm in *. now rewrite Hn. }
      split; [assumption|]. cbn [eval_spec]. rewrite Hea. cbn [obind map tprimN] in *. exact Hm.
    + destruct Ha as (Hg1 & Hc1 & Hi1 & Hea). cbn [eval_spec]. rewrite Hea. cbn [obind]. auto.
    + tauto.
  - (* App2 *)
    apply andb_prop in Hf. destruct Hf as [Hf Hfb]. apply andb_prop in Hf. destruct Hf as [Hp Hfa].
    pose proof (IH a L env s Hfa Hd Hle Htop Hc Hi Hw) as Ha.
    destruct (zev f env a s) as [[va|c|] s1]; unfold mevgood in *; cbn [fst snd bind] in *.
    + destruct Ha as (Hg1 & Hc1 & Hi1 & Hwa & Hea).
      assert (Hle1 : forall u, In u (ids L) -> u <= top Z s1) by (intros u Hu; specialize (Hle u Hu); destruct Hg1; lia).
      pose proof (IH b L env s1 Hfb Hd Hle1 ltac:(destruct Hg1; lia) Hc1 Hi1 (gext_wfs _ _ _ _ Hg1 Hw)) as Hb.
      rewrite (gext_interps _ _ _ _ Hg1 Hw) in Hb.
      destruct (zev f env b s1) as [[vb|c|] s2]; cbn [fst snd bind] in *.
      * destruct Hb as (Hg2 & Hc2 & Hi2 & Hwb & Heb).
        pose proof (MAP_all L Hd f p [va; vb] s2 Hp Hi2
                      (Forall_cons _ (gext_wf _ _ _ _ Hg2 Hwa) (Forall_cons _ Hwb (Forall_nil _)))) as (Hs3 & Hi3 & Hm).
        split; [eapply gext_trans; [exact Hg1|eapply gext_trans; [exact Hg2|now apply sext_gext]]|]. split.
        { destruct Hs3 as (_ & Hn & _). unfold calm in *. now rewrite Hn. }
        split; [assumption|]. cbn [eval_spec]. rewrite Hea, Heb. cbn [obind map tprimN] in *.
        rewrite (gext_interp _ _ _ _ Hg2 Hwa) in Hm. exact Hm.
      * destruct Hb as (Hg2 & Hc2 & Hi2 & Heb). cbn [eval_spec]. rewrite Hea, Heb. cbn [obind].
        split; [eapply gext_trans; eauto|]. auto.
      * destruct Hb as (Hg2 & Hc2 & Hi2 & _). split; [eapply gext_trans; eauto|]. auto.
    + destruct Ha as (Hg1 & Hc1 & Hi1 & Hea). cbn [eval_spec]. rewrite Hea. cbn [obind]. auto.
    + tauto.
  - (* Let *)
    apply andb_prop in Hf. destruct Hf as [Hfa Hfb].
    pose proof (IH a L env s Hfa Hd Hle Htop Hc Hi Hw) as Ha.
    destruct (zev f env a s) as [[va|c|] s1]; unfold mevgood in *; cbn [fst snd bind] in *.
    + destruct Ha as (Hg1 & Hc1 & Hi1 & Hwa & Hea).
      assert (Hle1 : forall u, In u (ids L) -> u <= top Z s1) by (intros u Hu; specialize (Hle u Hu); destruct Hg1; lia).
      pose proof (IH b L (va :: env) s1 Hfb Hd Hle1 ltac:(destruct Hg1; lia) Hc1 Hi1
                     (Forall_cons _ Hwa (gext_wfs _ _ _ _ Hg1 Hw))) as Hb.
      cbn [map] in Hb. rewrite (gext_interps _ _ _ _ Hg1 Hw) in Hb.
      cbn [eval_spec]. rewrite Hea. cbn [obind].
      destruct (zev f (va :: env) b s1) as [[vb|c|] s2]; cbn [fst snd] in *.
      * destruct Hb as (Hg2 & Hc2 & Hi2 & Hwb & Heb). split; [eapply gext_trans; eauto|]. auto.
      * destruct Hb as (Hg2 & Hc2 & Hi2 & Heb). split; [eapply gext_trans; eauto|]. auto.
      * destruct Hb as (Hg2 & Hc2 & Hi2 & _). split; [eapply gext_trans; eauto|]. auto.
    + destruct Ha as (Hg1 & Hc1 & Hi1 & Hea). cbn [eval_spec]. rewrite Hea. cbn [obind]. auto.
    + tauto.
  - (* IfPos *)
    apply andb_prop in Hf. destruct Hf as [Hf Hfb]. apply andb_prop in Hf. destruct Hf as [Hfc Hfa].
    pose proof (IH c L env s Hfc Hd Hle Htop Hc Hi Hw) as Hcnd.
    destruct (zev f env c s) as [[vc|cc|] s1]; unfold mevgood in *; cbn [fst snd bind] in *.
    + destruct Hcnd as (Hg1 & Hc1 & Hi1 & Hwc & Hec).
      assert (Hle1 : forall u, In u (ids L) -> u <= top Z s1) by (intros u Hu; specialize (Hle u Hu); destruct Hg1; lia).
      cbn [eval_spec]. rewrite Hec. cbn [obind]. rewrite tprimal_interp.
      destruct (strip Z vc >? 0).
      * pose proof (IH a L env s1 Hfa Hd Hle1 ltac:(destruct Hg1; lia) Hc1 Hi1 (gext_wfs _ _ _ _ Hg1 Hw)) as Hb.
        rewrite (gext_interps _ _ _ _ Hg1 Hw) in Hb.
        destruct (zev f env a s1) as [[vb|cb|] s2]; cbn [fst snd] in *.
        -- destruct Hb as (Hg2 & Hc2 & Hi2 & Hwb & Heb). split; [eapply gext_trans; eauto|]. auto.
        -- destruct Hb as (Hg2 & Hc2 & Hi2 & Heb). split; [eapply gext_trans; eauto|]. auto.
        -- destruct Hb as (Hg2 & Hc2 & Hi2 & _). split; [eapply gext_trans; eauto|]. auto.
      * pose proof (IH b L env s1 Hfb Hd Hle1 ltac:(destruct Hg1; lia) Hc1 Hi1 (gext_wfs _ _ _ _ Hg1 Hw)) as Hb.
        rewrite (gext_interps _ _ _ _ Hg1 Hw) in Hb.
        destruct (zev f env b s1) as [[vb|cb|] s2]; cbn [fst snd] in *.
        -- destruct Hb as (Hg2 & Hc2 & Hi2 & Hwb & Heb). split; [eapply gext_trans; eauto|]. auto.
        -- destruct Hb as (Hg2 & Hc2 & Hi2 & Heb). split; [eapply gext_trans; eauto|]. auto.
        -- destruct Hb as (Hg2 & Hc2 & Hi2 & _). split; [eapply gext_trans; eauto|]. auto.
    + destruct Hcnd as (Hg1 & Hc1 & Hi1 & Hec). cbn [eval_spec]. rewrite Hec. cbn [obind]. auto.
    + tauto.
  - (* Grad *)
    apply andb_prop in Hf. destruct Hf as [Hfb Hfa].
    pose proof (IH arg L env s Hfa Hd Hle Htop Hc Hi Hw) as Ha.
    destruct (zev f env arg s) as [[x|cc|] s1]; unfold mevgood in *; cbn [fst snd bind] in *.
    2:{ destruct Ha as (Hg1 & Hc1 & Hi1 & Hea). cbn [eval_spec]. rewrite Hea. cbn [obind]. auto. }
    2:{ tauto. }
    destruct Ha as (Hg1 & Hc1 & Hi1 & Hwx & Hex).
    destruct (enter Z s1) as [t se] eqn:Een.
    destruct (enter_calm Z s1 t se Hc1 Een) as (Hlt & Htopse & Hcse).
    pose proof (enter_store _ _ _ Een) as Hstse.
    set (r := length (store Z s1)).
    set (s2 := {| top := top Z se; store := store Z se ++ [root_node Z 0]; noise := noise Z se |}).
    set (L2 := (t, LR r) :: L).
    assert (Hg12 : gext s1 s2).
    { split; [simpl; lia|]. exists [root_node Z 0]. simpl. now rewrite Hstse. }
    assert (Hg02 : gext s s2) by (eapply gext_trans; eauto).
    assert (Hd2 : ldesc L2).
    { unfold ldesc, L2. simpl. split; [|split; [destruct Hg1; lia|assumption]].
      intros u Hu. specialize (Hle u Hu). destruct Hg1. lia. }
    assert (Hle2 : forall u, In u (ids L2) -> u <= top Z s2).
    { intros u [<-|Hu]; [simpl; lia|]. specialize (Hle u Hu). destruct Hg1. simpl. lia. }
    assert (Hi2 : SInv (store Z s2)) by (simpl; rewrite Hstse; now apply SInv_root).
    assert (Hnthr : nth_error (store Z s2) r = Some (root_node Z 0)).
    { simpl. rewrite Hstse. unfold r. rewrite nth_error_app2 by lia. now rewrite Nat.sub_diag. }
    assert (Hw2 : Forall (wf (store Z s2) L2) (VB t x (NVz r) :: env)).
    { constructor.
      - apply mwf_top_R. split; [exact (gext_wf _ _ _ _ Hg12 Hwx)|]. rewrite tnode_S, Hnthr. simpl. auto.
      - rewrite Forall_forall in *. intros v Hv. apply wf_weaken; [assumption|]. exact (gext_wf _ _ _ _ Hg02 (Hw _ Hv)). }
    assert (Htop2 : -1 <= top Z s2) by (destruct Hg1; simpl; lia).
    pose proof (IH body L2 _ s2 Hfb Hd2 Hle2 Htop2 Hcse Hi2 Hw2) as Hb.
    assert (Henv : map (interp (store Z s2) L2) (VB t x (NVz r) :: env)
                   = (interp (store Z s1) L x, tone (length L)) :: map (tlift (length L)) (map (interp (store Z s) L) env)).
    { cbn [map]. unfold L2. rewrite minterp_top_R, dnode_S, Hnthr. cbn [n_root root_node].
      rewrite (gext_interp _ _ _ _ Hg12 Hwx). f_equal.
      rewrite map_map. apply map_ext_in. intros v Hv.
      rewrite Forall_forall in Hw. rewrite interp_weaken; [|assumption|exact (gext_wf _ _ _ _ Hg02 (Hw _ Hv))].
      now rewrite (gext_interp _ _ _ _ Hg02 (Hw _ Hv)). }
    rewrite Henv in Hb. cbn [eval_spec]. rewrite Hex. cbn [obind].
    change (length L2) with (S (length L)) in Hb.
    destruct (zev f (VB t x (NVz r) :: env) body s2) as [[endv|cb|] s3]; cbn [fst snd bind] in *.
    2:{ destruct Hb as (Hg3 & Hc3 & Hi3 & Heb). rewrite Heb. cbn [obind].
        split; [eapply gext_trans; [exact Hg1|eapply gext_trans; eauto]|]. auto. }
    2:{ destruct Hb as (Hg3 & Hc3 & Hi3 & _). split; [eapply gext_trans; [exact Hg1|eapply gext_trans; eauto]|]. auto. }
    destruct Hb as (Hg3 & Hc3 & Hi3 & Hwe & Heb). rewrite Heb. cbn [obind leave].
    assert (Hg03 : gext s s3) by (eapply gext_trans; [exact Hg1|eapply gext_trans; eauto]).
    assert (Hzero : forall st', interp st' L (VN 0) = tzero (length L)) by (intros; now rewrite interp_num, tconst_0).
    destruct endv as [k|t' ev [tg|en]].
    + cbn [fst snd ret]. split; [assumption|]. split; [assumption|]. split; [assumption|].
      split; [apply wf_num|]. unfold L2. simpl interp. now rewrite Hzero.
    + (* a forward box: it cannot live at level t *)
      destruct (Z.eqb_spec t' t) as [->|Hne].
      * exfalso. unfold L2 in Hwe. simpl in Hwe. now rewrite Z.eqb_refl in Hwe.
      * cbn [fst snd ret]. split; [assumption|]. split; [assumption|]. split; [assumption|].
        split; [apply wf_num|]. unfold L2. simpl interp. apply Z.eqb_neq in Hne. rewrite Hne. simpl. now rewrite Hzero.
    + destruct (Z.eqb_spec t' t) as [->|Hne].
      * (* the output belongs to this trace: run the backward pass *)
        apply mwf_top_R in Hwe. destruct Hwe as [Hwev Hten].
        pose proof (backward_pass_good L r s3 en f Hd Hi3 Hten) as (Hs4 & Hi4 & Hm4).
        unfold L2. rewrite minterp_top_R. cbn [snd].
        split; [eapply gext_trans; [exact Hg03|now apply sext_gext]|]. split.
        { destruct Hs4 as (_ & Hn & _). unfold calm in *. now rewrite Hn. }
        split; [assumption|].
        destruct (fst (backward_pass Z Z.add Z.sub Z.mul Z.opp zF Z.sgn f (VN 1) en s3)) as [rv|ce|]; [|discriminate|exact I].
        destruct Hm4 as [Hwr Hr]. split; [assumption|]. exact Hr.
      * cbn [fst snd ret]. split; [assumption|]. split; [assumption|]. split; [assumption|].
        split; [apply wf_num|]. unfold L2. simpl interp. apply Z.eqb_neq in Hne. rewrite Hne. simpl. now rewrite Hzero.
  - (* Deriv *)
    apply andb_prop in Hf. destruct Hf as [Hfb Hfa].
    pose proof (IH arg L env s Hfa Hd Hle Htop Hc Hi Hw) as Ha.
    destruct (zev f env arg s) as [[x|cc|] s1]; unfold mevgood in *; cbn [fst snd bind] in *.
    2:{ destruct Ha as (Hg1 & Hc1 & Hi1 & Hea). cbn [eval_spec]. rewrite Hea. cbn [obind]. auto. }
    2:{ tauto. }
    destruct Ha as (Hg1 & Hc1 & Hi1 & Hwx & Hex).
    destruct (enter Z s1) as [t s2] eqn:Een.
    destruct (enter_calm Z s1 t s2 Hc1 Een) as (Hlt & Htop2' & Hc2).
    pose proof (enter_store _ _ _ Een) as Hst2.
    set (L2 := (t, LF) :: L).
    assert (Hg12 : gext s1 s2) by (split; [lia|]; exists []; now rewrite Hst2, app_nil_r).
    assert (Hg02 : gext s s2) by (eapply gext_trans; eauto).
    assert (Hd2 : ldesc L2).
    { unfold ldesc, L2. simpl. split; [|split; [destruct Hg1; lia|assumption]].
      intros u Hu. specialize (Hle u Hu). destruct Hg1. lia. }
    assert (Hle2 : forall u, In u (ids L2) -> u <= top Z s2).
    { intros u [<-|Hu]; [simpl; lia|]. specialize (Hle u Hu). destruct Hg1. lia. }
    assert (Hi2 : SInv (store Z s2)) by now rewrite Hst2.
    assert (Hw2 : Forall (wf (store Z s2) L2) (VB t x (NJz (VN 1)) :: env)).
    { constructor.
      - apply mwf_top_F. split; [exact (gext_wf _ _ _ _ Hg12 Hwx)|apply wf_num].
      - rewrite Forall_forall in *. intros v Hv. apply wf_weaken; [assumption|]. exact (gext_wf _ _ _ _ Hg02 (Hw _ Hv)). }
    assert (Htop2 : -1 <= top Z s2) by (destruct Hg1; lia).
    pose proof (IH body L2 _ s2 Hfb Hd2 Hle2 Htop2 Hc2 Hi2 Hw2) as Hb.
    assert (Henv : map (interp (store Z s2) L2) (VB t x (NJz (VN 1)) :: env)
                   = (interp (store Z s1) L x, tone (length L)) :: map (tlift (length L)) (map (interp (store Z s) L) env)).
    { cbn [map]. unfold L2. rewrite minterp_top_F, interp_num, tconst_1.
      rewrite (gext_interp _ _ _ _ Hg12 Hwx). f_equal.
      rewrite map_map. apply map_ext_in. intros v Hv.
      rewrite Forall_forall in Hw. rewrite interp_weaken; [|assumption|exact (gext_wf _ _ _ _ Hg02 (Hw _ Hv))].
      now rewrite (gext_interp _ _ _ _ Hg02 (Hw _ Hv)). }
    rewrite Henv in Hb. cbn [eval_spec]. rewrite Hex. cbn [obind].
    change (length L2) with (S (length L)) in Hb.
    destruct (zev f (VB t x (NJz (VN 1)) :: env) body s2) as [[endv|cb|] s3]; cbn [fst snd bind] in *.
    2:{ destruct Hb as (Hg3 & Hc3 & Hi3 & Heb). rewrite Heb. cbn [obind].
        split; [eapply gext_trans; [exact Hg1|eapply gext_trans; eauto]|]. auto. }
    2:{ destruct Hb as (Hg3 & Hc3 & Hi3 & _). split; [eapply gext_trans; [exact Hg1|eapply gext_trans; eauto]|]. auto. }
    destruct Hb as (Hg3 & Hc3 & Hi3 & Hwe & Heb). rewrite Heb. cbn [obind leave].
    assert (Hg03 : gext s s3) by (eapply gext_trans; [exact Hg1|eapply gext_trans; eauto]).
    assert (Hzero : forall st', interp st' L (VN 0) = tzero (length L)) by (intros; now rewrite interp_num, tconst_0).
    destruct endv as [k|t' ev [tg|en]].
    + cbn [fst snd ret]. split; [assumption|]. split; [assumption|]. split; [assumption|].
      split; [apply wf_num|]. unfold L2. simpl interp. now rewrite Hzero.
    + destruct (Z.eqb_spec t' t) as [->|Hne].
      * apply mwf_top_F in Hwe. destruct Hwe as [Hwev Hwtg].
        cbn [fst snd ret]. split; [assumption|]. split; [assumption|]. split; [assumption|].
        split; [assumption|]. unfold L2. now rewrite minterp_top_F.
      * cbn [fst snd ret]. split; [assumption|]. split; [assumption|]. split; [assumption|].
        split; [apply wf_num|]. unfold L2. simpl interp. apply Z.eqb_neq in Hne. rewrite Hne. simpl. now rewrite Hzero.
    + destruct (Z.eqb_spec t' t) as [->|Hne].
      * exfalso. unfold L2 in Hwe. simpl in Hwe. now rewrite Z.eqb_refl in Hwe.
      * cbn [fst snd ret]. split; [assumption|]. split; [assumption|]. split; [assumption|].
        split; [apply wf_num|]. unfold L2. simpl interp. apply Z.eqb_neq in Hne. rewrite Hne. simpl. now rewrite Hzero.
  - (* Fail *)
    unfold mevgood. cbn [fst snd eval_spec]. split; [apply gext_refl|]. auto.
  - (* Try *)
    apply andb_prop in Hf. destruct Hf as [Hfa Hfh].
    pose proof (IH a L env s Hfa Hd Hle Htop Hc Hi Hw) as Ha.
    destruct (zev f env a s) as [[va|c|] s1]; unfold mevgood in *; cbn [fst snd] in *.
    + destruct Ha as (Hg1 & Hc1 & Hi1 & Hwa & Hea). cbn [eval_spec]. rewrite Hea. auto.
    + destruct Ha as (Hg1 & Hc1 & Hi1 & Hea). cbn [eval_spec]. rewrite Hea.
      assert (Hle1 : forall u, In u (ids L) -> u <= top Z s1) by (intros u Hu; specialize (Hle u Hu); destruct Hg1; lia).
      pose proof (IH h L env s1 Hfh Hd Hle1 ltac:(destruct Hg1; lia) Hc1 Hi1 (gext_wfs _ _ _ _ Hg1 Hw)) as Hh.
      rewrite (gext_interps _ _ _ _ Hg1 Hw) in Hh.
      destruct (zev f env h s1) as [[vh|ch|] s2]; cbn [fst snd] in *.
      * destruct Hh as (Hg2 & Hc2 & Hi2 & Hwh & Heh). split; [eapply gext_trans; eauto|]. auto.
      * destruct Hh as (Hg2 & Hc2 & Hi2 & Heh). split; [eapply gext_trans; eauto|]. auto.
      * destruct Hh as (Hg2 & Hc2 & Hi2 & _). split; [eapply gext_trans; eauto|]. auto.
    + tauto.
Qed.

(* closed programs: the tagged evaluator (the model of tracer.py / core.py), started
   from any counter value >= -1, with an empty node store, under any non-negative
   interference, returns v exactly when the tower semantics returns strip v and
   raises exactly when it raises - for every nesting and every mixture of
   reverse and forward mode *)
Theorem nested_correct fuel e s :
  prims_ok e = true -> -1 <= top Z s -> calmz s -> store Z s = [] ->
  match fst (zev fuel [] e s) with
  | Val v => eval_spec e 0 [] = Some (strip Z v)
  | Err _ => eval_spec e 0 [] = None
  | OutOfFuel => True
  end.
Proof.
  intros Hf Ht Hc Hst.
  assert (Hi : SInv (store Z s)) by (rewrite Hst; intros idx nd H; destruct idx; discriminate).
  pose proof (meval fuel e [] [] s Hf I (fun u H => match H with end) Ht Hc Hi (Forall_nil _)) as (_ & _ & _ & H).
  destruct (fst (zev fuel [] e s)) as [v|c|]; [|assumption|exact I].
  destruct H as [_ H]. exact H.
Qed.
Print Assumptions nested_correct.

(* what a closed program hands back is a plain number: no tracer object of any
   (finished) trace survives in it *)
Theorem closed_result_is_plain fuel e s :
  prims_ok e = true -> -1 <= top Z s -> calmz s -> store Z s = [] ->
  forall v, fst (zev fuel [] e s) = Val v -> exists k, v = VN k.
Proof.
  intros Hf Ht Hc Hst v Hv.
  assert (Hi : SInv (store Z s)) by (rewrite Hst; intros idx nd H; destruct idx; discriminate).
  pose proof (meval fuel e [] [] s Hf I (fun u H => match H with end) Ht Hc Hi (Forall_nil _)) as (_ & _ & _ & H).
  rewrite Hv in H. destruct H as [Hw _]. destruct v as [k|t i nd]; [eauto|destruct Hw].
Qed.
