(* The spec semantics: second derivatives are symmetric (mixed partials
   commute) for every operator-free body, over Z with the formal family zF. *)
From Coq Require Import List Arith Bool ZArith Lia Ring.
Import ListNotations.
From AG Require Import Tagged Tower.
Local Open Scope Z_scope.

Definition T2 := T 2.
Definition swap (v : T2) : T2 :=
  match v with ((a, b), (c, d)) => ((a, c), (b, d)) end.

Ltac t2 v := let a := fresh "a" in let b := fresh "b" in
             let c := fresh "c" in let d := fresh "d" in
             destruct v as [[a b] [c d]].

Lemma swap_add x y : swap (tadd 2 x y) = tadd 2 (swap x) (swap y).
Proof. t2 x; t2 y; reflexivity. Qed.
Lemma swap_sub x y : swap (tsub 2 x y) = tsub 2 (swap x) (swap y).
Proof. t2 x; t2 y; reflexivity. Qed.
Lemma swap_neg x : swap (tneg 2 x) = tneg 2 (swap x).
Proof. t2 x; reflexivity. Qed.
Lemma swap_mul x y : swap (tmul 2 x y) = tmul 2 (swap x) (swap y).
Proof.
  t2 x; t2 y. cbn [swap tmul tadd fst snd T].
  repeat (f_equal; try ring).
Qed.
Lemma swap_F k x : swap (tF 2 k x) = tF 2 k (swap x).
Proof.
  t2 x. cbn [swap tF tmul tadd fst snd T].
  repeat (f_equal; try ring).
Qed.
Lemma swap_sign x : swap (tsign 2 x) = tsign 2 (swap x).
Proof. t2 x; reflexivity. Qed.
Lemma swap_const k : swap (tconst 2 k) = tconst 2 k.
Proof. reflexivity. Qed.
Lemma swap_primal x : tprimal 2 (swap x) = tprimal 2 x.
Proof. t2 x; reflexivity. Qed.

Fixpoint no_diff (e : exp) : bool :=
  match e with
  | Var _ | Const _ | Fail => true
  | App1 _ a => no_diff a
  | App2 _ a b | Let a b | Try a b => no_diff a && no_diff b
  | IfPos c a b => no_diff c && no_diff a && no_diff b
  | Grad _ _ | Deriv _ _ => false
  end.

Lemma swap_prim1 p x : tprim1 2 p (swap x) = option_map swap (tprim1 2 p x).
Proof.
  destruct p; try reflexivity; unfold tprim1, option_map; f_equal; symmetry.
  - apply swap_neg.
  - apply swap_F.
  - apply swap_sign.
Qed.

Lemma swap_prim2 p x y :
  tprim2 2 p (swap x) (swap y) = option_map swap (tprim2 2 p x y).
Proof.
  destruct p; try reflexivity; unfold tprim2, option_map; f_equal; symmetry.
  - apply swap_add.
  - apply swap_sub.
  - apply swap_mul.
Qed.

Theorem eval_spec_swap : forall e env,
    no_diff e = true ->
    eval_spec e 2 (map swap env) = option_map swap (eval_spec e 2 env).
Proof.
  induction e; intros env H; cbn [no_diff] in H; try discriminate;
    cbn [eval_spec obind].
  - rewrite nth_error_map. reflexivity.
  - reflexivity.
  - rewrite IHe by assumption.
    destruct (eval_spec e 2 env); cbn [option_map obind]; [|reflexivity].
    apply swap_prim1.
  - apply andb_prop in H. destruct H as [H1 H2].
    rewrite IHe1, IHe2 by assumption.
    destruct (eval_spec e1 2 env); cbn [option_map obind]; [|reflexivity].
    destruct (eval_spec e2 2 env); cbn [option_map obind]; [|reflexivity].
    apply swap_prim2.
  - apply andb_prop in H. destruct H as [H1 H2].
    rewrite IHe1 by assumption.
    destruct (eval_spec e1 2 env) as [v|]; cbn [option_map obind]; [|reflexivity].
    change (swap v :: map swap env) with (map swap (v :: env)). now apply IHe2.
  - apply andb_prop in H. destruct H as [H12 H3].
    apply andb_prop in H12. destruct H12 as [H1 H2].
    rewrite IHe1 by assumption.
    destruct (eval_spec e1 2 env) as [v|]; cbn [option_map obind]; [|reflexivity].
    rewrite swap_primal. destruct (Z.gtb (tprimal 2 v) 0); auto.
  - reflexivity.
  - apply andb_prop in H. destruct H as [H1 H2].
    rewrite IHe1 by assumption.
    destruct (eval_spec e1 2 env); cbn [option_map]; [reflexivity|]. now apply IHe2.
Qed.

(* the (x,y) entry of the Hessian: differentiate with respect to the variable
   bound innermost (position 0), then the one bound outside it (position 1) *)
Definition d2 (e : exp) (v0 v1 : T2) : option Z :=
  option_map (fun r => snd (snd r)) (eval_spec e 2 [v0; v1]).

Theorem mixed_partials_commute e x y :
  no_diff e = true ->
  d2 e ((x, 0), (1, 0)) ((y, 1), (0, 0)) = d2 e ((x, 1), (0, 0)) ((y, 0), (1, 0)).
Proof.
  intros H. unfold d2.
  change [((x, 1), (0, 0)); ((y, 0), (1, 0))]
    with (map swap [((x, 0), (1, 0)); ((y, 1), (0, 0))]).
  rewrite eval_spec_swap by assumption.
  destruct (eval_spec e 2 _) as [r|]; simpl; [|reflexivity].
  t2 r. reflexivity.
Qed.

(* what the nested operators of the language compute is that entry *)
Theorem nested_deriv_is_d2 e x y :
  eval_spec (Deriv (Deriv e (Const x)) (Const y)) 0%nat []
  = d2 e ((x, 0), (1, 0)) ((y, 1), (0, 0)).
Proof.
  unfold d2. simpl.
  destruct (eval_spec e 2 _) as [r|]; reflexivity.
Qed.
