(* L2 spec: the same object language evaluated in the tower of dual numbers
   T 0 = Z, T (n+1) = T n * T n.  No tags, no trace ids, no node store: each
   differential operator moves one level up the tower and reads off the
   tangent component.  Reverse and forward mode have the same meaning here. *)
From Coq Require Import List Arith Bool ZArith.
Import ListNotations.
From AG Require Import Tagged.
Local Open Scope Z_scope.

(* d^n/dx^n x^6 — the smooth unary function the generic F stands for when the
   model is executed *)
Fixpoint ffact (k n : nat) : Z :=   (* k (k-1) ... (k-n+1) *)
  match n with
  | O => 1
  | S n' => match k with O => 0 | S k' => Z.of_nat k * ffact k' n' end
  end.
Definition zF (n : nat) (x : Z) : Z := ffact 6 n * x ^ Z.of_nat (6 - n).

Fixpoint T (n : nat) : Type :=
  match n with O => Z | S m => (T m * T m)%type end.

Fixpoint tzero (n : nat) : T n :=
  match n with O => 0 | S m => (tzero m, tzero m) end.
Fixpoint tone (n : nat) : T n :=
  match n with O => 1 | S m => (tone m, tzero m) end.
Fixpoint tconst (n : nat) (k : Z) : T n :=
  match n with O => k | S m => (tconst m k, tzero m) end.
Fixpoint tprimal (n : nat) : T n -> Z :=
  match n with O => fun a => a | S m => fun a => tprimal m (fst a) end.
Fixpoint tadd (n : nat) : T n -> T n -> T n :=
  match n with
  | O => Z.add
  | S m => fun a b => (tadd m (fst a) (fst b), tadd m (snd a) (snd b))
  end.
Fixpoint tsub (n : nat) : T n -> T n -> T n :=
  match n with
  | O => Z.sub
  | S m => fun a b => (tsub m (fst a) (fst b), tsub m (snd a) (snd b))
  end.
Fixpoint tneg (n : nat) : T n -> T n :=
  match n with
  | O => Z.opp
  | S m => fun a => (tneg m (fst a), tneg m (snd a))
  end.
Fixpoint tmul (n : nat) : T n -> T n -> T n :=
  match n with
  | O => Z.mul
  | S m => fun a b => (tmul m (fst a) (fst b),
                       tadd m (tmul m (snd a) (fst b)) (tmul m (fst a) (snd b)))
  end.
Fixpoint tF (n : nat) : nat -> T n -> T n :=
  match n with
  | O => zF
  | S m => fun k a => (tF m k (fst a), tmul m (tF m (S k) (fst a)) (snd a))
  end.
Fixpoint tsign (n : nat) : T n -> T n :=
  match n with
  | O => Z.sgn
  | S m => fun a => (tsign m (fst a), tzero m)
  end.
Definition tlift (n : nat) (a : T n) : T (S n) := (a, tzero n).

Definition tprim1 (n : nat) (p : prim) (a : T n) : option (T n) :=
  match p with
  | PNeg => Some (tneg n a)
  | PF k => Some (tF n k a)
  | PSign => Some (tsign n a)
  | PNoVjp | PNoJvp => Some a
  | _ => None
  end.
Definition tprim2 (n : nat) (p : prim) (a b : T n) : option (T n) :=
  match p with
  | PAdd => Some (tadd n a b)
  | PSub => Some (tsub n a b)
  | PMul => Some (tmul n a b)
  | _ => None
  end.

Definition obind {A B} (o : option A) (f : A -> option B) : option B :=
  match o with Some a => f a | None => None end.

(* None = the program raises *)
Fixpoint eval_spec (e : exp) : forall n, list (T n) -> option (T n) :=
  match e with
  | Var i => fun n env => nth_error env i
  | Const k => fun n env => Some (tconst n k)
  | App1 p a => fun n env => obind (eval_spec a n env) (tprim1 n p)
  | App2 p a b => fun n env =>
      obind (eval_spec a n env) (fun va =>
      obind (eval_spec b n env) (fun vb => tprim2 n p va vb))
  | Let a b => fun n env =>
      obind (eval_spec a n env) (fun va => eval_spec b n (va :: env))
  | IfPos c a b => fun n env =>
      obind (eval_spec c n env) (fun vc =>
        if Z.gtb (tprimal n vc) 0 then eval_spec a n env else eval_spec b n env)
  | Fail => fun n env => None
  | Try a h => fun n env =>
      match eval_spec a n env with Some v => Some v | None => eval_spec h n env end
  | Grad body arg | Deriv body arg => fun n env =>
      obind (eval_spec arg n env) (fun x =>
      obind (eval_spec body (S n) ((x, tone n) :: map (tlift n) env))
            (fun r => Some (snd r)))
  end.
