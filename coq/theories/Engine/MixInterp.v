(* Interpretation of tagged values as elements of the tower of dual numbers, for
   arbitrary mixtures of forward (JVP) and reverse (VJP) levels.  A reverse
   box denotes (primal, tangent) where the tangent is the derivative of its node
   with respect to the root of its trace, read off the node store. *)
From Coq Require Import List Arith Bool ZArith Lia.
Import ListNotations.
From AG Require Import Toposort Tagged Tower TaggedProof TowerAlg FwdCorrect.
From AG Require Import TowerRing.
Local Open Scope Z_scope.

Inductive lmode := LF | LR (r : nat).
Definition level := (Z * lmode)%type.
Notation zstore := (list (vnode Z)).
Notation NVz := (NV Z).

Definition diffable (p : prim) : bool :=
  match p with PAdd | PSub | PMul | PNeg | PF _ => true | _ => false end.
Definition arity (p : prim) : nat :=
  match p with PAdd | PSub | PMul => 2%nat | _ => 1%nat end.

(* partial derivative of a primitive with respect to its k-th argument, in T n *)
Definition dprim (n : nat) (p : prim) (k : nat) (xs : list (T n)) : T n :=
  match p, k, xs with
  | PAdd, _, _ => tone n
  | PSub, O, _ => tone n
  | PSub, _, _ => tneg n (tone n)
  | PMul, O, [_; y] => y
  | PMul, _, [x; _] => x
  | PNeg, _, _ => tneg n (tone n)
  | PF j, _, [x] => tF n (S j) x
  | _, _, _ => tzero n
  end.

Fixpoint tsum (n : nat) (l : list (T n)) : T n :=
  match l with [] => tzero n | x :: r => tadd n x (tsum n r) end.

Section Node.
  Variable n : nat.
  Variable st : zstore.
  Variable rec : zvalue -> T n.          (* interpretation at the levels below *)
  Variable wfrec : zvalue -> Prop.       (* well-formedness at the levels below *)
  Variable r : nat.                      (* root of this trace *)

  (* derivative of node idx with respect to the root *)
  Fixpoint dnode (fuel idx : nat) : T n :=
    match fuel with
    | O => tzero n
    | S f =>
      match nth_error st idx with
      | None => tzero n
      | Some nd =>
        if n_root Z nd then tone n else
        tsum n (map (fun kp => tmul n (dprim n (n_prim Z nd) (fst kp) (map rec (n_args Z nd)))
                                    (dnode f (snd kp)))
                    (combine (n_argnums Z nd) (n_parents Z nd)))
      end
    end.

  (* idx is a node of this trace, all of whose ancestors are *)
  Fixpoint tnode (fuel idx : nat) : Prop :=
    match fuel with
    | O => False
    | S f =>
      match nth_error st idx with
      | None => False
      | Some nd =>
        if n_root Z nd then idx = r /\ n_parents Z nd = []
        else diffable (n_prim Z nd) = true
             /\ length (n_args Z nd) = arity (n_prim Z nd)
             /\ Forall wfrec (n_args Z nd)
             /\ length (n_argnums Z nd) = length (n_parents Z nd)
             /\ n_parents Z nd <> []
             /\ Forall (fun k => (k < length (n_args Z nd))%nat) (n_argnums Z nd)
             /\ Forall (fun p => (p < idx)%nat /\ tnode f p) (n_parents Z nd)
      end
    end.
End Node.

Fixpoint interp (st : zstore) (L : list level) : zvalue -> T (length L) :=
  match L with
  | [] => fun v => strip Z v
  | (t, m) :: L' =>
    let rec := interp st L' in
    fun v =>
      match v with
      | VNum _ _ => (rec v, tzero (length L'))
      | VBox _ t' i nd =>
        if Z.eqb t' t then
          match m, nd with
          | LF, NJ _ g => (rec i, rec g)
          | LR r, NV _ idx => (rec i, dnode (length L') st rec (S idx) idx)
          | _, _ => (rec v, tzero (length L'))
          end
        else (rec v, tzero (length L'))
      end
  end.

Fixpoint wf (st : zstore) (L : list level) : zvalue -> Prop :=
  match L with
  | [] => fun v => match v with VNum _ _ => True | VBox _ _ _ _ => False end
  | (t, m) :: L' =>
    let rec := wf st L' in
    fun v =>
      match v with
      | VNum _ _ => rec v
      | VBox _ t' i nd =>
        if Z.eqb t' t then
          match m, nd with
          | LF, NJ _ g => rec i /\ rec g
          | LR r, NV _ idx => rec i /\ tnode st rec r (S idx) idx
          | _, _ => False
          end
        else rec v
      end
  end.

Definition ids (L : list level) : list Z := map fst L.
Definition ldesc (L : list level) : Prop := desc (ids L).

Lemma wf_num st L k : wf st L (VN k).
Proof. induction L as [|[t m] L IH]; simpl; auto. Qed.

Lemma interp_num st L k : interp st L (VN k) = tconst (length L) k.
Proof. induction L as [|[t m] L IH]; simpl; [reflexivity|]. now rewrite IH. Qed.

Lemma wf_outer st L : forall t' i nd, wf st L (VB t' i nd) -> In t' (ids L).
Proof.
  induction L as [|[t m] L IH]; simpl; intros t' i nd H; [contradiction|].
  destruct (Z.eqb_spec t' t) as [->|Hne]; [now left|]. right. eapply IH; eauto.
Qed.

Lemma ldesc_notin t m L : ldesc ((t, m) :: L) -> ~ In t (ids L).
Proof. unfold ldesc. simpl. intros [H _] Hin. specialize (H _ Hin). lia. Qed.

Lemma wf_weaken st t m L v : ldesc ((t, m) :: L) -> wf st L v -> wf st ((t, m) :: L) v.
Proof.
  intros Hd H. simpl. destruct v as [k|t' i nd]; [assumption|].
  destruct (Z.eqb_spec t' t) as [->|Hne]; [|assumption].
  exfalso. apply (ldesc_notin _ _ _ Hd). eapply wf_outer; eauto.
Qed.

Lemma interp_weaken st t m L v :
  ldesc ((t, m) :: L) -> wf st L v -> interp st ((t, m) :: L) v = tlift (length L) (interp st L v).
Proof.
  intros Hd H. simpl. destruct v as [k|t' i nd]; [reflexivity|].
  destruct (Z.eqb_spec t' t) as [->|Hne]; [|reflexivity].
  exfalso. apply (ldesc_notin _ _ _ Hd). eapply wf_outer; eauto.
Qed.

Lemma wf_unbox st t m L v : wf st ((t, m) :: L) v -> wf st L (unbox_at Z t v).
Proof.
  simpl. destruct v as [k|t' i nd]; simpl; [tauto|].
  destruct (Z.eqb t' t); [|tauto]. destruct m, nd; tauto.
Qed.

Lemma fst_interp st t m L v :
  wf st ((t, m) :: L) v -> fst (interp st ((t, m) :: L) v) = interp st L (unbox_at Z t v).
Proof.
  simpl. destruct v as [k|t' i nd]; simpl; [reflexivity|].
  destruct (Z.eqb t' t); [|reflexivity]. destruct m, nd; simpl; tauto.
Qed.

Lemma tprimal_interp st L : forall v, tprimal (length L) (interp st L v) = strip Z v.
Proof.
  induction L as [|[t m] L IH]; intros v; simpl; [reflexivity|].
  destruct v as [k|t' i nd]; simpl; [apply (IH (VN k))|].
  destruct (Z.eqb t' t); [|apply (IH (VB t' i nd))].
  destruct m, nd; simpl; try apply IH; apply (IH (VB t' i _)).
Qed.

(* ---------- fuel irrelevance and stability under store extension ---------- *)
Section NodeLemmas.
  Variable n : nat.
  Variables (st st' : zstore) (rec rec' : zvalue -> T n) (wfrec wfrec' : zvalue -> Prop) (r : nat).
  Hypothesis Hst : exists e, st' = st ++ e.
  Hypothesis Hwf : forall v, wfrec v -> wfrec' v.
  Hypothesis Hrec : forall v, wfrec v -> rec' v = rec v.

  Lemma nth_ext idx nd : nth_error st idx = Some nd -> nth_error st' idx = Some nd.
  Proof.
    destruct Hst as [e ->]. intros H. rewrite nth_error_app1; [assumption|].
    apply nth_error_Some. congruence.
  Qed.

  Lemma tnode_mono : forall f idx, tnode st wfrec r f idx -> forall f', (idx < f')%nat -> tnode st' wfrec' r f' idx.
  Proof.
    induction f as [|f IH]; intros idx H f' Hlt; [contradiction|].
    destruct f' as [|f'']; [lia|]. simpl in *.
    destruct (nth_error st idx) as [nd|] eqn:E; [|contradiction].
    rewrite (nth_ext _ _ E). destruct (n_root Z nd); [assumption|].
    destruct H as (H1 & H2 & H3 & H4 & H5 & H6 & H7). repeat split; try assumption.
    - eapply Forall_impl; [|exact H3]. exact Hwf.
    - eapply Forall_impl; [|exact H7]. intros p [Hp Ht]. split; [assumption|]. apply (IH p Ht). lia.
  Qed.

  Lemma dnode_stable : forall f idx, tnode st wfrec r f idx ->
      forall f', (idx < f')%nat -> dnode n st' rec' f' idx = dnode n st rec f idx.
  Proof.
    induction f as [|f IH]; intros idx H f' Hlt; [contradiction|].
    destruct f' as [|f'']; [lia|]. simpl in *.
    destruct (nth_error st idx) as [nd|] eqn:E; [|contradiction].
    rewrite (nth_ext _ _ E). destruct (n_root Z nd); [reflexivity|].
    destruct H as (H1 & H2 & H3 & H4 & H5 & H6 & H7).
    assert (Hargs : map rec' (n_args Z nd) = map rec (n_args Z nd)).
    { apply map_ext_in. intros v Hv. apply Hrec. rewrite Forall_forall in H3. auto. }
    rewrite Hargs. f_equal. apply map_ext_in. intros [k p] Hkp. cbn [fst snd]. f_equal.
    apply in_combine_r in Hkp. rewrite Forall_forall in H7. destruct (H7 _ Hkp) as [Hp Ht].
    apply (IH p Ht). lia.
  Qed.
End NodeLemmas.

Lemma tnode_fuel st wfrec r f idx f' :
  tnode st wfrec r f idx -> (idx < f')%nat -> tnode st wfrec r f' idx.
Proof.
  intros H Hlt. apply (tnode_mono st st wfrec wfrec r) with (f := f); auto. exists []. now rewrite app_nil_r.
Qed.

Lemma dnode_fuel n st rec wfrec r f idx f' :
  tnode st wfrec r f idx -> (idx < f')%nat -> dnode n st rec f' idx = dnode n st rec f idx.
Proof.
  intros H Hlt. apply (dnode_stable n st st rec rec wfrec r); auto. exists []. now rewrite app_nil_r.
Qed.

Lemma tnode_lt st wfrec r f idx : tnode st wfrec r f idx -> (idx < length st)%nat.
Proof.
  destruct f as [|f]; [contradiction|]. simpl. destruct (nth_error st idx) eqn:E; [|contradiction].
  intros _. apply nth_error_Some. congruence.
Qed.

Arguments tnode : simpl never.
Arguments dnode : simpl never.

Lemma wf_interp_ext st e : forall L v,
    wf st L v -> wf (st ++ e) L v /\ interp (st ++ e) L v = interp st L v.
Proof.
  induction L as [|[t m] L IH]; intros v H; simpl in *; [auto|].
  destruct v as [k|t' i nd].
  - destruct (IH _ H) as [H1 H2]. split; [assumption|]. now rewrite H2.
  - destruct (Z.eqb t' t).
    + destruct m as [|r], nd as [g|idx]; try contradiction.
      * destruct H as [Hi Hg]. destruct (IH _ Hi) as [Hi1 Hi2], (IH _ Hg) as [Hg1 Hg2].
        split; [tauto|]. now rewrite Hi2, Hg2.
      * destruct H as [Hi Ht]. destruct (IH _ Hi) as [Hi1 Hi2]. split.
        -- split; [assumption|].
           apply (tnode_mono st (st ++ e) (wf st L) (wf (st ++ e) L) r) with (f := S idx); eauto.
           intros v Hv. apply IH; assumption.
        -- rewrite Hi2. f_equal.
           apply (dnode_stable (length L) st (st ++ e) (interp st L) (interp (st ++ e) L) (wf st L) r); eauto.
           intros v Hv. apply IH; assumption.
    + destruct (IH _ H) as [H1 H2]. split; [assumption|]. now rewrite H2.
Qed.

Corollary wf_ext st e L v : wf st L v -> wf (st ++ e) L v.
Proof. intros H. now apply wf_interp_ext. Qed.
Corollary interp_ext st e L v : wf st L v -> interp (st ++ e) L v = interp st L v.
Proof. intros H. now apply wf_interp_ext. Qed.

Lemma tnode_S st wfrec r f idx :
  tnode st wfrec r (S f) idx =
  match nth_error st idx with
  | None => False
  | Some nd =>
    if n_root Z nd then idx = r /\ n_parents Z nd = []
    else diffable (n_prim Z nd) = true
         /\ length (n_args Z nd) = arity (n_prim Z nd)
         /\ Forall wfrec (n_args Z nd)
         /\ length (n_argnums Z nd) = length (n_parents Z nd)
         /\ n_parents Z nd <> []
         /\ Forall (fun k => (k < length (n_args Z nd))%nat) (n_argnums Z nd)
         /\ Forall (fun p => (p < idx)%nat /\ tnode st wfrec r f p) (n_parents Z nd)
  end.
Proof. reflexivity. Qed.

Lemma dnode_S n st rec f idx :
  dnode n st rec (S f) idx =
  match nth_error st idx with
  | None => tzero n
  | Some nd =>
    if n_root Z nd then tone n else
    tsum n (map (fun kp => tmul n (dprim n (n_prim Z nd) (fst kp) (map rec (n_args Z nd)))
                                (dnode n st rec f (snd kp)))
                (combine (n_argnums Z nd) (n_parents Z nd)))
  end.
Proof. reflexivity. Qed.
