(* Executable Z instance of the tagged evaluator and the three-way check used
   by the correspondence runs of C06-C08, C14, C15, C19. *)
From Coq Require Import List Arith Bool ZArith.
Import ListNotations.
From AG Require Import Toposort Tagged Tower EngineTie.
Local Open Scope Z_scope.

Definition zvalue := value Z.
(* the id supply /repo implements, read off tracer.TraceStack.new_trace by the translator on this run *)
Definition SUPPLY : supply := EngineTie.supply_of_source.

Definition zeval_sup (sup : supply) (fuel : nat) (env : list zvalue) (e : exp) (s : state Z) :=
  eval Z 0 1 Z.add Z.sub Z.mul Z.opp zF Z.sgn (fun k => Z.gtb k 0) (fun k => k) sup
       fuel env e s.
Definition zeval := zeval_sup SUPPLY.

Definition FUEL : nat := 400.

(* result of a closed top-level program from a given trace-stack height:
   Some (Some k) value, Some None raised, None out of fuel *)
Definition run_tagged_from (top0 : Z) (e : exp) : option (option Z) * Z :=
  match zeval FUEL [] e {| top := top0; store := []; noise := [] |} with
  | (Val v, s) => (Some (Some (strip Z v)), top Z s)
  | (Err _, s) => (Some None, top Z s)
  | (OutOfFuel, s) => (None, top Z s)
  end.
Definition run_tagged (e : exp) : option (option Z) := fst (run_tagged_from (-1) e).
Definition run_spec (e : exp) : option Z := eval_spec e 0%nat [].

Definition oz_eqb (a b : option Z) : bool :=
  match a, b with
  | Some x, Some y => Z.eqb x y
  | None, None => true
  | _, _ => false
  end.

Record case08 := { p_exp : exp; i_res : option Z (* None = raised *) }.

(* 0 all three agree; 1 implementation = spec but model differs (tie broken);
   2 implementation differs from the spec (property fails on this program) *)
Definition check08 (c : case08) : nat :=
  if negb (oz_eqb c.(i_res) (run_spec c.(p_exp))) then 2%nat else
  match run_tagged c.(p_exp) with
  | Some r => if oz_eqb r c.(i_res) then 0%nat else 1%nat
  | None => 1%nat
  end.

(* C19: one call of a history, started from the counter the history left *)
Record case19 := { h_exp : exp; h_top : Z; h_res : option Z; h_top_after : Z }.
Definition check19 (c : case19) : nat :=
  if negb (oz_eqb c.(h_res) (run_spec c.(h_exp))) then 2%nat else
  match run_tagged_from c.(h_top) c.(h_exp) with
  | (Some r, t') =>
    if oz_eqb r c.(h_res) && Z.eqb t' c.(h_top_after) then 0%nat else 1%nat
  | (None, _) => 1%nat
  end.

(* C06: primal value of body(x) observed under reverse, forward and nested
   tracing; the implementation's observations must all equal the plain value *)
Record case06 := { b_body : exp; b_x : Z; b_vals : list (option Z) }.
Definition primal_under (env : list zvalue) (st : state Z) (body : exp) : option (option Z) :=
  match zeval FUEL env body st with
  | (Val v, _) => Some (Some (strip Z v))
  | (Err _, _) => Some None
  | (OutOfFuel, _) => None
  end.
Definition check06 (c : case06) : nat :=
  let spec := run_spec (Let (Const c.(b_x)) c.(b_body)) in
  if negb (forallb (fun v => oz_eqb v spec) c.(b_vals)) then 2%nat else
  let x := VNum Z c.(b_x) in
  let root := root_node Z 0 in
  let m1 := primal_under [VBox Z 0 x (NV Z 0%nat)] {| top := 0; store := [root]; noise := [] |} c.(b_body) in
  let m2 := primal_under [VBox Z 0 x (NJ Z (VNum Z 1))] {| top := 0; store := []; noise := [] |} c.(b_body) in
  let m3 := primal_under [VBox Z 1 (VBox Z 0 x (NV Z 0%nat)) (NV Z 1%nat)]
                         {| top := 1; store := [root; root]; noise := [] |} c.(b_body) in
  let okm m := match m with Some r => oz_eqb r spec | None => false end in
  if okm m1 && okm m2 && okm m3 then 0%nat else 1%nat.

(* C20: what one thread observes under a schedule.  For each of its trace
   entry/exit events, in order: (is_entry, traces entered by other threads,
   traces exited by other threads) since its previous event. *)
Record case20 := { s_exp : exp; s_gaps : list (bool * Z * Z); s_res : option Z }.

Definition noise_of (sup : supply) (gaps : list (bool * Z * Z)) : list Z :=
  match sup with
  | Depth => map (fun g => snd (fst g) - snd g) gaps
  | Mono => map (fun g => snd (fst g)) (filter (fun g => fst (fst g)) gaps)
  end.

Definition run_noisy (sup : supply) (e : exp) (gaps : list (bool * Z * Z)) : option (option Z) :=
  match zeval_sup sup FUEL [] e {| top := -1; store := []; noise := noise_of sup gaps |} with
  | (Val v, _) => Some (Some (strip Z v))
  | (Err _, _) => Some None
  | (OutOfFuel, _) => None
  end.

(* 2 = the thread's result differs from its solo result (the property fails on
   this schedule); 1 = property holds here but the model predicts otherwise *)
Definition check20 (c : case20) : nat :=
  if negb (oz_eqb c.(s_res) (run_spec c.(s_exp))) then 2%nat else
  match run_noisy SUPPLY c.(s_exp) c.(s_gaps) with
  | Some r => if oz_eqb r c.(s_res) then 0%nat else 1%nat
  | None => 1%nat
  end.
