(* The tagged evaluator uses trace ids only through order comparisons: it
   commutes with every strictly increasing renaming of trace ids that fixes the
   "no box" sentinel -1.  Consequence (increasing id supply): the result of a
   program does not depend on the counter it starts from nor on how far other
   threads move the counter between its trace entries. *)
From Coq Require Import List Arith Bool ZArith Lia.
Import ListNotations.
From AG Require Import Toposort Tagged.

Section Rename.
  Variable K : Type.
  Variables (k0 k1 : K) (kadd ksub kmul : K -> K -> K) (kopp : K -> K).
  Variable kF : nat -> K -> K.
  Variable ksign : K -> K.
  Variable kpos : K -> bool.
  Variable kofZ : Z -> K.

  Notation value := (value K).
  Notation nodek := (nodek K).
  Notation vnode := (vnode K).
  Notation state := (state K).
  Notation strip := (strip K).
  Notation apply_prim := (apply_prim K kadd ksub kmul kopp kF ksign).
  Notation find_top := (find_top K).
  Notation unbox_at := (unbox_at K).
  Notation boxed_at := (boxed_at K).
  Notation all_num := (all_num K).

  Variable phi : Z -> Z.
  Hypothesis phi_mono : forall a b, (a < b)%Z -> (phi a < phi b)%Z.
  Hypothesis phi_neg : phi (-1) = (-1)%Z.

  Lemma phi_inj a b : phi a = phi b -> a = b.
  Proof.
    intros H. destruct (Z.lt_trichotomy a b) as [L|[E|L]]; [|exact E|];
      apply phi_mono in L; lia.
  Qed.
  Lemma phi_gtb a b : Z.gtb (phi a) (phi b) = Z.gtb a b.
  Proof.
    destruct (Z.gtb_spec a b) as [L|L]; destruct (Z.gtb_spec (phi a) (phi b)) as [L'|L']; try reflexivity.
    - apply phi_mono in L. lia.
    - destruct (Z.eq_dec a b) as [->|N]; [lia|]. assert (a < b)%Z by lia. apply phi_mono in H. lia.
  Qed.
  Lemma phi_eqb a b : Z.eqb (phi a) (phi b) = Z.eqb a b.
  Proof.
    destruct (Z.eqb_spec a b) as [->|N]; [apply Z.eqb_refl|].
    apply Z.eqb_neq. intros E. apply N. now apply phi_inj.
  Qed.

  Fixpoint renv (v : value) : value :=
    match v with
    | VNum _ k => VNum K k
    | VBox _ t i n => VBox K (phi t) (renv i) (renn n)
    end
  with renn (n : nodek) : nodek :=
    match n with
    | NJ _ g => NJ K (renv g)
    | NV _ i => NV K i
    end.

  Definition rennode (nd : vnode) : vnode :=
    {| n_root := n_root K nd; n_prim := n_prim K nd; n_args := map renv (n_args K nd);
       n_ans := renv (n_ans K nd); n_argnums := n_argnums K nd; n_parents := n_parents K nd |}.
  (* the renamed run's counter and interference script are functions of the
     original run's counter (none of the functions below touches them) *)
  Variable ft : Z -> Z.
  Variable fn : Z -> list Z.
  Definition rens (s : state) : state :=
    {| top := ft (top K s); store := map rennode (store K s); noise := fn (top K s) |}.
  Definition reno {A} (f : A -> A) (o : outcome A) : outcome A :=
    match o with Val a => Val (f a) | Err c => Err c | OutOfFuel => OutOfFuel end.
  Definition renM {A} (f : A -> A) (m : M K A) : M K A := (reno f (fst m), rens (snd m)).

  Lemma strip_ren v : strip (renv v) = strip v.
  Proof. induction v as [k|t i IH n]; simpl; auto. Qed.

  Lemma kind_ren n : kind_of K (renn n) = kind_of K n.
  Proof. destruct n; reflexivity. Qed.

  Lemma find_top_ren : forall args tt k,
      find_top (map renv args) (phi tt) k
      = (phi (fst (find_top args tt k)), snd (find_top args tt k)).
  Proof.
    induction args as [|a args IH]; intros tt k; simpl; [reflexivity|].
    destruct a as [x|t i n]; simpl; [apply IH|].
    rewrite phi_gtb. destruct (Z.gtb t tt); [rewrite kind_ren|]; apply IH.
  Qed.

  Lemma unbox_ren t v : unbox_at (phi t) (renv v) = renv (unbox_at t v).
  Proof.
    destruct v as [x|t' i n]; simpl; [reflexivity|]. rewrite phi_eqb. destruct (Z.eqb t' t); reflexivity.
  Qed.

  Lemma boxed_ren t : forall args i,
      boxed_at (phi t) i (map renv args) = map (fun x => (fst x, renn (snd x))) (boxed_at t i args).
  Proof.
    induction args as [|a args IH]; intros i; simpl; [reflexivity|].
    destruct a as [x|t' j n]; simpl; [apply IH|].
    rewrite phi_eqb. destruct (Z.eqb t' t); simpl; now rewrite IH.
  Qed.

  Lemma all_num_ren args : all_num (map renv args) = all_num args.
  Proof.
    induction args as [|a args IH]; simpl; [reflexivity|].
    destruct a as [x|t i n]; simpl; [now rewrite IH|reflexivity].
  Qed.

  Lemma as_nv_ren l : as_nv K (map (fun x => (fst x, renn (snd x))) l) = as_nv K l.
  Proof.
    unfold as_nv. induction l as [|[i n] l IH]; simpl; [reflexivity|].
    rewrite IH. destruct n; reflexivity.
  Qed.

  Lemma as_nj_ren l :
    as_nj K (map (fun x => (fst x, renn (snd x))) l) = option_map (map renv) (as_nj K l).
  Proof.
    unfold as_nj. induction l as [|[i n] l IH]; simpl; [reflexivity|].
    rewrite IH. destruct n as [g|j]; simpl; [|reflexivity].
    destruct (fold_right _ _ l); reflexivity.
  Qed.

  Lemma map_fst_ren (l : list (nat * nodek)) : map fst (map (fun x => (fst x, renn (snd x))) l) = map fst l.
  Proof. rewrite map_map. reflexivity. Qed.

  (* commuting through bind *)
  Lemma bind_ren {A B} (fa : A -> A) (fb : B -> B) (m m' : M K A)
        (k k' : A -> state -> M K B) :
    m' = renM fa m -> (forall a s, k' (fa a) (rens s) = renM fb (k a s)) ->
    bind K m' k' = renM fb (bind K m k).
  Proof.
    intros -> Hk. destruct m as [[a|c|] s]; simpl; [apply Hk|reflexivity|reflexivity].
  Qed.

  Lemma ret_ren {A} (f : A -> A) a s : ret K (f a) (rens s) = renM f (ret K a s).
  Proof. reflexivity. Qed.

  Definition commutes (ap : prim -> list value -> state -> M K value) : Prop :=
    forall p args s, ap p (map renv args) (rens s) = renM renv (ap p args s).

  Section Rules.
    Variable ap : prim -> list value -> state -> M K value.
    Hypothesis Hap : commutes ap.

    Lemma ap1 p a s : ap p [renv a] (rens s) = renM renv (ap p [a] s).
    Proof. exact (Hap p [a] s). Qed.
    Lemma ap2 p a b s : ap p [renv a; renv b] (rens s) = renM renv (ap p [a; b] s).
    Proof. exact (Hap p [a; b] s). Qed.

    Lemma jvp_rule_ren p a g ans args s :
      jvp_rule K ap p a (renv g) (renv ans) (map renv args) (rens s)
      = renM renv (jvp_rule K ap p a g ans args s).
    Proof.
      unfold jvp_rule.
      destruct p; try reflexivity; try apply ap1; try apply ap2.
      - destruct a; [reflexivity|apply ap1].
      - destruct a.
        + destruct args as [|x [|y [|z r]]]; try reflexivity. apply ap2.
        + destruct args as [|x [|y [|z r]]]; try reflexivity. apply ap2.
      - destruct args as [|x [|y r]]; simpl; try (destruct a; reflexivity).
        + apply (bind_ren renv renv); [apply ap1|]. intros d s0. apply ap2.
    Qed.

    Lemma vjp_rule_ren p a g ans args s :
      vjp_rule K ap p a (renv g) (renv ans) (map renv args) (rens s)
      = renM renv (vjp_rule K ap p a g ans args s).
    Proof.
      unfold vjp_rule.
      destruct p; try reflexivity; try apply ap1; try apply ap2.
      - destruct a; [reflexivity|apply ap1].
      - destruct a.
        + destruct args as [|x [|y [|z r]]]; try reflexivity. apply ap2.
        + destruct args as [|x [|y [|z r]]]; try reflexivity. apply ap2.
      - destruct args as [|x [|y r]]; simpl; try (destruct a; reflexivity).
        + apply (bind_ren renv renv); [apply ap1|]. intros d s0. apply ap2.
    Qed.

    Lemma jvp_sum_ren p ans args : forall nums gs acc s,
        jvp_sum K ap p (renv ans) (map renv args) nums (map renv gs) (option_map renv acc) (rens s)
        = renM renv (jvp_sum K ap p ans args nums gs acc s).
    Proof.
      induction nums as [|a nums IH]; intros gs acc s; simpl.
      - destruct acc; reflexivity.
      - destruct gs as [|g gs]; simpl; [destruct acc; reflexivity|].
        apply (bind_ren renv renv); [apply jvp_rule_ren|]. intros c s1.
        destruct acc as [prev|]; simpl.
        + apply (bind_ren renv renv); [apply ap2|]. intros r s2. apply (IH gs (Some r)).
        + apply (IH gs (Some c)).
    Qed.
  End Rules.

  Lemma map_unbox_ren t args :
    map (unbox_at (phi t)) (map renv args) = map renv (map (unbox_at t) args).
  Proof. rewrite !map_map. apply map_ext. intros a. apply unbox_ren. Qed.

  Theorem apply_prim_ren : forall fuel, commutes (apply_prim fuel).
  Proof.
    induction fuel as [|f IH]; intros p args s; simpl; [reflexivity|].
    rewrite <- phi_neg at 1. rewrite find_top_ren.
    destruct (find_top args (-1) None) as [t [knd|]] eqn:Eft; simpl.
    - rewrite map_unbox_ren. destruct (is_notrace p); [apply IH|].
      apply (bind_ren renv renv); [apply IH|]. intros ans s1.
      rewrite boxed_ren. destruct knd.
      + rewrite as_nj_ren. destruct (as_nj K (boxed_at t 0 args)) as [gs|]; simpl; [|reflexivity].
        destruct (negb (has_jvp p)); [reflexivity|].
        apply (bind_ren renv renv).
        * rewrite map_fst_ren. apply (jvp_sum_ren (apply_prim f) (IH) p ans (map (unbox_at t) args)
                                                   (map fst (boxed_at t 0 args)) gs None s1).
        * intros tg s2. reflexivity.
      + destruct (negb (has_vjp p)); [reflexivity|].
        rewrite as_nv_ren. destruct (as_nv K (boxed_at t 0 args)) as [ps|]; [|reflexivity].
        unfold ret, renM, rens. simpl. rewrite map_length, map_app, map_fst_ren. reflexivity.
    - rewrite all_num_ren. destruct (all_num args) as [ks|]; [|reflexivity].
      destruct (raw K kadd ksub kmul kopp kF ksign p ks); reflexivity.
  Qed.

  (* ---- backward pass ---- *)
  Notation node_vjp := (node_vjp K kadd ksub kmul kopp kF ksign).
  Notation accumulate := (accumulate K kadd ksub kmul kopp kF ksign).
  Notation backward_loop := (backward_loop K kadd ksub kmul kopp kF ksign).
  Notation backward_pass := (backward_pass K kadd ksub kmul kopp kF ksign).

  Definition renog (og : list (nat * value)) : list (nat * value) :=
    map (fun x => (fst x, renv (snd x))) og.

  Lemma og_get_ren n og : og_get K n (renog og) = option_map renv (og_get K n og).
  Proof.
    induction og as [|[k v] og IH]; simpl; [reflexivity|]. destruct (Nat.eqb k n); [reflexivity|apply IH].
  Qed.
  Lemma og_remove_ren n og : og_remove K n (renog og) = renog (og_remove K n og).
  Proof.
    induction og as [|[k v] og IH]; simpl; [reflexivity|]. destruct (Nat.eqb k n); [reflexivity|].
    simpl. now rewrite IH.
  Qed.
  Lemma og_put_ren n v og : og_put K n (renv v) (renog og) = renog (og_put K n v og).
  Proof.
    induction og as [|[k w] og IH]; simpl; [reflexivity|]. destruct (Nat.eqb k n); [reflexivity|].
    simpl. now rewrite IH.
  Qed.

  Lemma node_vjp_ren fuel nd g : forall nums s,
      node_vjp fuel (rennode nd) nums (renv g) (rens s)
      = renM (map renv) (node_vjp fuel nd nums g s).
  Proof.
    induction nums as [|a nums IH]; intros s; simpl; [reflexivity|].
    apply (bind_ren renv (map renv)).
    - apply (vjp_rule_ren (apply_prim fuel) (apply_prim_ren fuel)).
    - intros c s1. apply (bind_ren (map renv) (map renv)); [apply IH|]. intros cs s2. reflexivity.
  Qed.

  Lemma accumulate_ren fuel : forall ps gs og s,
      accumulate fuel ps (map renv gs) (renog og) (rens s) = renM renog (accumulate fuel ps gs og s).
  Proof.
    induction ps as [|p ps IH]; intros gs og s; simpl; [reflexivity|].
    destruct gs as [|g gs]; simpl; [reflexivity|].
    rewrite og_get_ren. destruct (og_get K p og) as [prev|]; simpl.
    - apply (bind_ren renv renog).
      + exact (apply_prim_ren fuel PAdd [prev; g] s).
      + intros r s1. rewrite og_put_ren. apply IH.
    - rewrite og_put_ren. apply IH.
  Qed.

  Lemma nth_error_rens s n :
    nth_error (store K (rens s)) n = option_map rennode (nth_error (store K s) n).
  Proof. unfold rens. simpl. apply nth_error_map. Qed.

  Lemma backward_loop_ren fuel : forall order og last s,
      backward_loop fuel order (renog og) (renv last) (rens s)
      = renM renv (backward_loop fuel order og last s).
  Proof.
    induction order as [|n rest IH]; intros og last s; simpl; [reflexivity|].
    rewrite og_get_ren. destruct (og_get K n og) as [g|]; simpl; [|reflexivity].
    rewrite nth_error_map. destruct (nth_error (store K s) n) as [nd|]; simpl; [|reflexivity].
    destruct (n_root K nd).
    - rewrite og_remove_ren. apply IH.
    - apply (bind_ren (map renv) renv); [apply node_vjp_ren|]. intros ingrads s1.
      apply (bind_ren renog renv).
      + rewrite og_remove_ren. apply accumulate_ren.
      + intros og' s2. apply IH.
  Qed.

  Lemma node_parents_ren st n : node_parents K (map rennode st) n = node_parents K st n.
  Proof. unfold node_parents. rewrite nth_error_map. destruct (nth_error st n); reflexivity. Qed.

  (* toposort only looks at the values of the parent function *)
  Section TopoExt.
    Variables p q : nat -> list nat.
    Hypothesis Hpq : forall n, p n = q n.

    Lemma count_loop_ext : forall fuel stack cnt, count_loop p fuel stack cnt = count_loop q fuel stack cnt.
    Proof.
      induction fuel as [|f IH]; intros stack cnt; simpl; [reflexivity|].
      destruct stack as [|n st]; [reflexivity|]. rewrite Hpq. destruct (Nat.eqb (cnt n) 0); apply IH.
    Qed.
    Lemma emit_loop_ext : forall fuel cl cnt acc, emit_loop p fuel cl cnt acc = emit_loop q fuel cl cnt acc.
    Proof.
      induction fuel as [|f IH]; intros cl cnt acc; simpl; [reflexivity|].
      destruct cl as [|n cl0]; [reflexivity|]. rewrite Hpq. destruct (relax (q n) cl0 cnt). apply IH.
    Qed.
    Lemma toposort_ext e : toposort p e = toposort q e.
    Proof.
      unfold toposort, fuel1, edge_total.
      assert (E : map (fun c => length (p c)) (seq 0 (S e)) = map (fun c => length (q c)) (seq 0 (S e))).
      { apply map_ext. intros c. now rewrite Hpq. }
      rewrite E, count_loop_ext. destruct (count_loop q _ [e] (fun _ => 0)); [apply emit_loop_ext|reflexivity].
    Qed.
  End TopoExt.

  Lemma backward_pass_ren fuel g e s :
    backward_pass fuel (renv g) e (rens s) = renM renv (backward_pass fuel g e s).
  Proof.
    unfold Tagged.backward_pass.
    rewrite (toposort_ext (node_parents K (store K (rens s))) (node_parents K (store K s)))
      by (intros n; apply node_parents_ren).
    destruct (toposort (node_parents K (store K s)) e) as [ord|]; [|reflexivity].
    exact (backward_loop_ren fuel ord [(e, g)] g s).
  Qed.
End Rename.
