(* L1: model of autograd/util.py:toposort (both while-loops, per-edge
   child_counts, LIFO stacks).  Definitions only; proofs are in ToposortProof.v
   so that the model still evaluates when a proof breaks. *)
From Coq Require Import List Arith Bool.
Import ListNotations.

(* child_counts : dict node -> int.  A key is present iff its count is > 0
   (counts start at 1 and phase 1 only increments). *)
Definition upd (f : nat -> nat) (k v : nat) : nat -> nat :=
  fun x => if Nat.eqb x k then v else f x.

Section Topo.
  (* node identity = index on the tape; parents n = node.parents, in order *)
  Variable parents : nat -> list nat.

  (* while stack: node = stack.pop(); if node in cc: cc[node]+=1
     else: cc[node]=1; stack.extend(parents(node))          (head = top) *)
  Fixpoint count_loop (fuel : nat) (stack : list nat) (cnt : nat -> nat)
    : option (nat -> nat) :=
    match fuel with
    | 0 => None
    | S f =>
      match stack with
      | [] => Some cnt
      | n :: st =>
        if Nat.eqb (cnt n) 0
        then count_loop f (rev (parents n) ++ st) (upd cnt n 1)
        else count_loop f st (upd cnt n (S (cnt n)))
      end
    end.

  (* for parent in parents(node): if cc[parent]==1: childless.append(parent)
     else: cc[parent]-=1 *)
  Fixpoint relax (ps : list nat) (cl : list nat) (cnt : nat -> nat)
    : list nat * (nat -> nat) :=
    match ps with
    | [] => (cl, cnt)
    | p :: ps' =>
      if Nat.eqb (cnt p) 1 then relax ps' (p :: cl) cnt
      else relax ps' cl (upd cnt p (cnt p - 1))
    end.

  (* while childless: node = childless.pop(); yield node; relax *)
  Fixpoint emit_loop (fuel : nat) (cl : list nat) (cnt : nat -> nat)
           (acc : list nat) : option (list nat) :=
    match fuel with
    | 0 => None
    | S f =>
      match cl with
      | [] => Some (rev acc)
      | n :: cl0 =>
        let '(cl', cnt') := relax (parents n) cl0 cnt in
        emit_loop f cl' cnt' (n :: acc)
      end
    end.

  Definition edge_total (e : nat) : nat :=
    list_sum (map (fun c => length (parents c)) (seq 0 (S e))).

  Definition fuel1 (e : nat) : nat := 2 + edge_total e.
  Definition fuel2 (e : nat) : nat := 2 + e.

  Definition toposort (e : nat) : option (list nat) :=
    match count_loop (fuel1 e) [e] (fun _ => 0) with
    | None => None
    | Some cnt => emit_loop (fuel2 e) [e] cnt []
    end.
End Topo.

(* tapes as data: parents of node i = nth i tape [] *)
Definition tape_parents (tape : list (list nat)) (n : nat) : list nat :=
  nth n tape [].

Definition toposort_tape (tape : list (list nat)) (e : nat) :=
  toposort (tape_parents tape) e.
