(* Theorems about the tagged evaluator (model of tracer.py / core.py). *)
From Coq Require Import List Arith Bool ZArith Lia.
Import ListNotations.
From AG Require Import Toposort Tagged.

Section Proofs.
  Variable K : Type.
  Variables (k0 k1 : K) (kadd ksub kmul : K -> K -> K) (kopp : K -> K).
  Variable kF : nat -> K -> K.
  Variable ksign : K -> K.
  Variable kpos : K -> bool.
  Variable kofZ : Z -> K.
  Variable sup : supply.

  Notation value := (value K).
  Notation state := (state K).
  Notation strip := (strip K).
  Notation raw := (raw K kadd ksub kmul kopp kF ksign).
  Notation apply_prim := (apply_prim K kadd ksub kmul kopp kF ksign).
  Notation eval := (eval K k0 k1 kadd ksub kmul kopp kF ksign kpos kofZ sup).
  Notation unbox_at := (unbox_at K).
  Notation find_top := (find_top K).
  Notation all_num := (all_num K).

  (* ---------- value transparency of the primitive wrapper ---------- *)
  Lemma strip_unbox t v : strip (unbox_at t v) = strip v.
  Proof.
    destruct v as [k|t' i n]; simpl; [reflexivity|].
    destruct (Z.eqb t' t); reflexivity.
  Qed.

  Lemma map_strip_unbox t args :
    map strip (map (unbox_at t) args) = map strip args.
  Proof.
    rewrite map_map. apply map_ext. intros a. apply strip_unbox.
  Qed.

  Lemma all_num_strip args ks : all_num args = Some ks -> map strip args = ks.
  Proof.
    revert ks. induction args as [|a args IH]; simpl; intros ks H.
    - now inversion H.
    - destruct a as [k|t i n]; [|discriminate].
      destruct (all_num args) as [ks'|]; simpl in H; [|discriminate].
      inversion H; subst. simpl. f_equal. now apply IH.
  Qed.

  (* whatever the tags, trace kinds and nesting of the arguments, a value
     returned by the wrapper has as its underlying number the raw function
     applied to the underlying numbers of the arguments *)
  Theorem apply_prim_transparent : forall fuel p args s v s',
      apply_prim fuel p args s = (Val v, s') ->
      raw p (map strip args) = Val (strip v).
  Proof.
    induction fuel as [|f IH]; intros p args s v s' H; simpl in H; [discriminate|].
    destruct (find_top args (-1) None) as [t [knd|]] eqn:Eft.
    - destruct (is_notrace p) eqn:Ent.
      + apply IH in H. now rewrite map_strip_unbox in H.
      + destruct (apply_prim f p (map (unbox_at t) args) s) as [[ans|c|] s1] eqn:Eans;
          simpl in H; try discriminate.
        apply IH in Eans. rewrite map_strip_unbox in Eans.
        destruct knd.
        * destruct (as_nj K (boxed_at K t 0 args)) as [gs|]; [|discriminate].
          destruct (negb (has_jvp p)); [discriminate|].
          match type of H with
          | bind K ?m _ = _ => destruct m as [[tg|c|] s2]
          end; simpl in H; try discriminate.
          inversion H; subst. simpl. assumption.
        * destruct (negb (has_vjp p)); [discriminate|].
          destruct (as_nv K (boxed_at K t 0 args)) as [ps|]; [|discriminate].
          inversion H; subst. simpl. assumption.
    - destruct (all_num args) as [ks|] eqn:Ean; [|discriminate].
      apply all_num_strip in Ean. rewrite Ean.
      destruct (raw p ks) as [k|c|]; try discriminate.
      inversion H; subst. reflexivity.
  Qed.

  (* ---------- find_top_boxed_args selects exactly the outermost level ---------- *)
  Lemma find_top_spec : forall args t0 kd t k,
      find_top args t0 kd = (t, k) ->
      (t0 <= t)%Z
      /\ (forall t' i n, In (VBox K t' i n) args -> (t' <= t)%Z)
      /\ ((t = t0 /\ k = kd) \/
          (exists i n, In (VBox K t i n) args /\ k = Some (kind_of K n) /\ (t0 < t)%Z)).
  Proof.
    induction args as [|a args IH]; intros t0 kd t k H; simpl in H.
    - inversion H; subst. split; [lia|]. split; [intros ? ? ? []|]. left. auto.
    - destruct a as [x|ta ia na].
      + apply IH in H. destruct H as (H1 & H2 & H3). split; [assumption|]. split.
        * intros t' i n [Hd|Hin]; [discriminate|eauto].
        * destruct H3 as [H3|(i & n & Hin & Hk)]; [left; assumption|].
          right. exists i, n. split; [now right|assumption].
      + destruct (Z.gtb_spec ta t0) as [Hgt|Hle].
        * apply IH in H. destruct H as (H1 & H2 & H3). split; [lia|]. split.
          -- intros t' i n [Hd|Hin]; [inversion Hd; subst; lia|eauto].
          -- right. destruct H3 as [[-> ->]|(i & n & Hin & Hk & Hlt)].
             ++ exists ia, na. split; [now left|]. split; [reflexivity|lia].
             ++ exists i, n. split; [now right|]. split; [assumption|lia].
        * apply IH in H. destruct H as (H1 & H2 & H3). split; [assumption|]. split.
          -- intros t' i n [Hd|Hin]; [inversion Hd; subst; lia|eauto].
          -- destruct H3 as [H3|(i & n & Hin & Hk)]; [left; assumption|].
             right. exists i, n. split; [now right|assumption].
  Qed.

  (* ---------- the trace-depth counter ---------- *)
  Definition keeps_top (A : Type) (m : state -> M K A) : Prop :=
    forall s r s', m s = (r, s') -> top K s' = top K s /\ noise K s' = noise K s.

  Lemma keeps_ret A (a : A) : keeps_top A (ret K a).
  Proof. intros s r s' H. inversion H. auto. Qed.

  Lemma keeps_err A c : keeps_top A (fun s => (Err c, s)).
  Proof. intros s r s' H. inversion H. auto. Qed.

  Lemma keeps_bind A B (m : state -> M K A) (f : A -> state -> M K B) :
    keeps_top A m -> (forall a, keeps_top B (f a)) ->
    keeps_top B (fun s => bind K (m s) f).
  Proof.
    intros Hm Hf s r s' H. destruct (m s) as [[a|c|] s1] eqn:E; simpl in H.
    - apply Hf in H. apply Hm in E. destruct H, E. split; congruence.
    - inversion H; subst. now apply Hm in E.
    - inversion H; subst. now apply Hm in E.
  Qed.

  Section RulesKeep.
    Variable ap : prim -> list value -> state -> M K value.
    Hypothesis Hap : forall p args, keeps_top value (ap p args).

    Ltac keep_tac :=
      repeat first
        [ apply keeps_ret | apply keeps_err | apply Hap
        | apply keeps_bind; [|intros ?]
        | match goal with
          | |- keeps_top _ (match ?x with _ => _ end) => destruct x
          end ].

    Lemma keeps_jvp_rule p a g ans args :
      keeps_top value (jvp_rule K ap p a g ans args).
    Proof. unfold jvp_rule. keep_tac. Qed.

    Lemma keeps_vjp_rule p a g ans args :
      keeps_top value (vjp_rule K ap p a g ans args).
    Proof. unfold vjp_rule. keep_tac. Qed.

    Lemma keeps_jvp_sum p ans args : forall nums gs acc,
        keeps_top value (jvp_sum K ap p ans args nums gs acc).
    Proof.
      induction nums as [|a nums IH]; intros gs acc; simpl.
      - destruct acc; [apply keeps_ret|apply keeps_err].
      - destruct gs as [|g gs].
        + destruct acc; [apply keeps_ret|apply keeps_err].
        + apply keeps_bind; [apply keeps_jvp_rule|]. intros c.
          destruct acc as [prev|].
          * apply keeps_bind; [apply Hap|]. intros r. apply IH.
          * apply IH.
    Qed.
  End RulesKeep.

  Lemma keeps_apply_prim : forall fuel p args, keeps_top value (apply_prim fuel p args).
  Proof.
    induction fuel as [|f IH]; intros p args s r s' H; simpl in H.
    - inversion H. auto.
    - destruct (find_top args (-1) None) as [t [knd|]].
      + destruct (is_notrace p); [now apply IH in H|].
        revert H. apply (keeps_bind _ _ (apply_prim f p (map (unbox_at t) args))); [apply IH|].
        intros ans. destruct knd.
        * destruct (as_nj K (boxed_at K t 0 args)) as [gs|]; [|apply keeps_err].
          destruct (negb (has_jvp p)); [apply keeps_err|].
          apply keeps_bind; [apply keeps_jvp_sum; apply IH|]. intros; apply keeps_ret.
        * destruct (negb (has_vjp p)); [apply keeps_err|].
          destruct (as_nv K (boxed_at K t 0 args)) as [ps|]; [|apply keeps_err].
          intros s0 r0 s0' H0. inversion H0. auto.
      + destruct (all_num args) as [ks|]; [|inversion H; auto].
        destruct (raw p ks); inversion H; auto.
  Qed.

  Notation node_vjp := (node_vjp K kadd ksub kmul kopp kF ksign).
  Notation accumulate := (accumulate K kadd ksub kmul kopp kF ksign).
  Notation backward_loop := (backward_loop K kadd ksub kmul kopp kF ksign).
  Notation backward_pass := (backward_pass K kadd ksub kmul kopp kF ksign).

  Lemma keeps_node_vjp fuel nd g : forall nums, keeps_top _ (node_vjp fuel nd nums g).
  Proof.
    induction nums as [|a nums IH]; simpl; [apply keeps_ret|].
    apply keeps_bind; [apply keeps_vjp_rule; apply keeps_apply_prim|].
    intros c. apply keeps_bind; [apply IH|]. intros; apply keeps_ret.
  Qed.

  Lemma keeps_accumulate fuel : forall ps gs og, keeps_top _ (accumulate fuel ps gs og).
  Proof.
    induction ps as [|p ps IH]; intros gs og; simpl; [apply keeps_ret|].
    destruct gs as [|g gs]; [apply keeps_ret|].
    intros s. destruct (og_get K p og) as [prev|].
    - revert s. apply keeps_bind; [apply keeps_apply_prim|]. intros r. apply IH.
    - apply IH.
  Qed.

  Lemma keeps_backward_loop fuel : forall order og last,
      keeps_top _ (backward_loop fuel order og last).
  Proof.
    induction order as [|n rest IH]; intros og last; simpl; [apply keeps_ret|].
    intros s. destruct (og_get K n og) as [g|]; [|apply keeps_err].
    destruct (nth_error (store K s) n) as [nd|]; [|apply keeps_err].
    destruct (n_root K nd); [apply IH|].
    revert s. apply keeps_bind; [apply keeps_node_vjp|]. intros ingrads.
    apply keeps_bind; [apply keeps_accumulate|]. intros og'. apply IH.
  Qed.

  Lemma keeps_backward_pass fuel g e : keeps_top _ (backward_pass fuel g e).
  Proof.
    intros s r s' H. unfold Tagged.backward_pass in H.
    destruct (toposort (node_parents K (store K s)) e) as [ord|].
    - now apply keeps_backward_loop in H.
    - inversion H. auto.
  Qed.

  Fixpoint no_try (e : exp) : bool :=
    match e with
    | Var _ | Const _ | Fail => true
    | App1 _ a => no_try a
    | App2 _ a b | Let a b | Grad a b | Deriv a b => no_try a && no_try b
    | IfPos c a b => no_try c && no_try a && no_try b
    | Try _ _ => false
    end.

  (* ---- the id supply ---- *)
  Definition quiet (s : state) : Prop := noise K s = [].
  Definition calm (s : state) : Prop := Forall (fun d => (0 <= d)%Z) (noise K s).

  Lemma enter_quiet s t s' : quiet s -> enter K s = (t, s') ->
    t = (top K s + 1)%Z /\ top K s' = t /\ quiet s' /\ store K s' = store K s.
  Proof.
    unfold quiet, enter, draw. intros Hq. rewrite Hq. intros H. inversion H; subst.
    simpl. repeat split; auto; lia.
  Qed.

  Lemma enter_calm s t s' : calm s -> enter K s = (t, s') ->
    (top K s < t)%Z /\ top K s' = t /\ calm s'.
  Proof.
    unfold calm, enter, draw. intros Hc. destruct (noise K s) as [|d r] eqn:En.
    - intros H. inversion H; subst. simpl. rewrite En. repeat split; auto; lia.
    - intros H. inversion H; subst. simpl. inversion Hc; subst. repeat split; auto; lia.
  Qed.

  (* Common skeleton: every step other than trace entry/exit leaves counter and
     interference script untouched.  The two theorems below instantiate it. *)

  (* (a) the pinned design (shared depth counter), thread running alone: no
     call ever lowers the counter; a call that raises (or catches a failure
     inside) may leave it raised; a try-free call that returns normally leaves
     it exactly where it found it. *)
  Theorem eval_top_depth : sup = Depth -> forall fuel env e s r s',
      quiet s -> eval fuel env e s = (r, s') ->
      quiet s' /\ (top K s <= top K s')%Z
      /\ (no_try e = true -> forall v, r = Val v -> top K s' = top K s).
  Proof.
    intros Hsup. induction fuel as [|f IH]; intros env e s r s' Hq H; simpl in H.
    - inversion H; subst. repeat split; auto; try lia; discriminate.
    - destruct e; simpl no_try.
      + destruct (nth_error env n); inversion H; subst; repeat split; auto; try lia; discriminate.
      + inversion H; subst. repeat split; auto; lia.
      + destruct (eval f env e s) as [[va|c|] s1] eqn:E1; simpl in H.
        * apply IH in E1; [|assumption]. destruct E1 as (Q1 & L1 & R1).
          apply keeps_apply_prim in H. destruct H as [Ht Hn].
          repeat split; [unfold quiet in *; congruence|lia|].
          intros Hno v _. rewrite Ht. now apply (R1 Hno va).
        * inversion H; subst. apply IH in E1; [|assumption]. destruct E1 as (Q1 & L1 & R1).
          repeat split; auto; discriminate.
        * inversion H; subst. apply IH in E1; [|assumption]. destruct E1 as (Q1 & L1 & R1).
          repeat split; auto; discriminate.
      + destruct (eval f env e1 s) as [[va|c|] s1] eqn:E1; simpl in H.
        * apply IH in E1; [|assumption]. destruct E1 as (Q1 & L1 & R1).
          destruct (eval f env e2 s1) as [[vb|c|] s2] eqn:E2; simpl in H.
          -- apply IH in E2; [|assumption]. destruct E2 as (Q2 & L2 & R2).
             apply keeps_apply_prim in H. destruct H as [Ht Hn].
             repeat split; [unfold quiet in *; congruence|lia|].
             intros Hno v _. apply andb_prop in Hno. destruct Hno as [Hn1 Hn2].
             rewrite Ht, (R2 Hn2 vb eq_refl). now apply (R1 Hn1 va).
          -- inversion H; subst. apply IH in E2; [|assumption]. destruct E2 as (Q2 & L2 & R2).
             repeat split; auto; try lia; discriminate.
          -- inversion H; subst. apply IH in E2; [|assumption]. destruct E2 as (Q2 & L2 & R2).
             repeat split; auto; try lia; discriminate.
        * inversion H; subst. apply IH in E1; [|assumption]. destruct E1 as (Q1 & L1 & R1).
          repeat split; auto; discriminate.
        * inversion H; subst. apply IH in E1; [|assumption]. destruct E1 as (Q1 & L1 & R1).
          repeat split; auto; discriminate.
      + destruct (eval f env e1 s) as [[va|c|] s1] eqn:E1; simpl in H.
        * apply IH in E1; [|assumption]. destruct E1 as (Q1 & L1 & R1).
          apply IH in H; [|assumption]. destruct H as (Q2 & L2 & R2).
          repeat split; auto; try lia.
          intros Hno v Hv. apply andb_prop in Hno. destruct Hno as [Hn1 Hn2].
          rewrite (R2 Hn2 v Hv). now apply (R1 Hn1 va).
        * inversion H; subst. apply IH in E1; [|assumption]. destruct E1 as (Q1 & L1 & R1).
          repeat split; auto; discriminate.
        * inversion H; subst. apply IH in E1; [|assumption]. destruct E1 as (Q1 & L1 & R1).
          repeat split; auto; discriminate.
      + destruct (eval f env e1 s) as [[vc|c|] s1] eqn:E1; simpl in H.
        * apply IH in E1; [|assumption]. destruct E1 as (Q1 & L1 & R1).
          destruct (kpos (strip vc)); (apply IH in H; [|assumption]); destruct H as (Q2 & L2 & R2);
            (repeat split; auto; try lia;
             intros Hno v Hv;
             apply andb_prop in Hno; destruct Hno as [Hn12 Hn3];
             apply andb_prop in Hn12; destruct Hn12 as [Hn1 Hn2];
             rewrite (R2 ltac:(assumption) v Hv); now apply (R1 Hn1 vc)).
        * inversion H; subst. apply IH in E1; [|assumption]. destruct E1 as (Q1 & L1 & R1).
          repeat split; auto; discriminate.
        * inversion H; subst. apply IH in E1; [|assumption]. destruct E1 as (Q1 & L1 & R1).
          repeat split; auto; discriminate.
      + (* Grad *)
        destruct (eval f env e2 s) as [[x|c|] s1] eqn:E1; simpl in H.
        * apply IH in E1; [|assumption]. destruct E1 as (Q1 & L1 & R1).
          destruct (enter K s1) as [t se] eqn:Een.
          destruct (enter_quiet s1 t se Q1 Een) as (Ht & Hse & Qse & _).
          match type of H with
          | bind K (eval f ?env' e1 ?s2) _ = _ =>
            destruct (eval f env' e1 s2) as [[endv|c|] s3] eqn:E2
          end; simpl in H.
          -- apply IH in E2; [|exact Qse]. destruct E2 as (Q2 & L2 & R2). simpl in L2, R2.
             assert (Hlv : quiet (leave K sup s3) /\ top K (leave K sup s3) = (top K s3 - 1)%Z).
             { unfold leave, draw. rewrite Hsup. unfold quiet in Q2. rewrite Q2. simpl.
               split; [exact Q2|lia]. }
             destruct Hlv as [Ql Tl].
             assert (Hfin : quiet s' /\ top K s' = (top K s3 - 1)%Z).
             { destruct endv as [k|t' ev [tg|en]].
               - inversion H; subst. auto.
               - destruct (Z.eqb t' t); inversion H; subst; auto.
               - destruct (Z.eqb t' t).
                 + apply keeps_backward_pass in H. destruct H as [H1 H2].
                   split; [unfold quiet in *; congruence|congruence].
                 + inversion H; subst; auto. }
             destruct Hfin as [Qf Tf]. repeat split; auto; try lia.
             intros Hno v _. apply andb_prop in Hno. destruct Hno as [Hn1 Hn2].
             specialize (R1 Hn2 x eq_refl). specialize (R2 Hn1 endv eq_refl). lia.
          -- inversion H; subst. apply IH in E2; [|exact Qse]. destruct E2 as (Q2 & L2 & R2).
             simpl in L2. repeat split; auto; try lia; discriminate.
          -- inversion H; subst. apply IH in E2; [|exact Qse]. destruct E2 as (Q2 & L2 & R2).
             simpl in L2. repeat split; auto; try lia; discriminate.
        * inversion H; subst. apply IH in E1; [|assumption]. destruct E1 as (Q1 & L1 & R1).
          repeat split; auto; discriminate.
        * inversion H; subst. apply IH in E1; [|assumption]. destruct E1 as (Q1 & L1 & R1).
          repeat split; auto; discriminate.
      + (* Deriv *)
        destruct (eval f env e2 s) as [[x|c|] s1] eqn:E1; simpl in H.
        * apply IH in E1; [|assumption]. destruct E1 as (Q1 & L1 & R1).
          destruct (enter K s1) as [t se] eqn:Een.
          destruct (enter_quiet s1 t se Q1 Een) as (Ht & Hse & Qse & _).
          match type of H with
          | bind K (eval f ?env' e1 ?s2) _ = _ =>
            destruct (eval f env' e1 s2) as [[endv|c|] s3] eqn:E2
          end; simpl in H.
          -- apply IH in E2; [|exact Qse]. destruct E2 as (Q2 & L2 & R2).
             assert (Hlv : quiet (leave K sup s3) /\ top K (leave K sup s3) = (top K s3 - 1)%Z).
             { unfold leave, draw. rewrite Hsup. unfold quiet in Q2. rewrite Q2. simpl.
               split; [exact Q2|lia]. }
             destruct Hlv as [Ql Tl].
             assert (Hfin : quiet s' /\ top K s' = (top K s3 - 1)%Z).
             { destruct endv as [k|t' ev [tg|en]].
               - inversion H; subst. auto.
               - destruct (Z.eqb t' t); inversion H; subst; auto.
               - destruct (Z.eqb t' t); inversion H; subst; auto. }
             destruct Hfin as [Qf Tf]. repeat split; auto; try lia.
             intros Hno v _. apply andb_prop in Hno. destruct Hno as [Hn1 Hn2].
             specialize (R1 Hn2 x eq_refl). specialize (R2 Hn1 endv eq_refl). lia.
          -- inversion H; subst. apply IH in E2; [|exact Qse]. destruct E2 as (Q2 & L2 & R2).
             repeat split; auto; try lia; discriminate.
          -- inversion H; subst. apply IH in E2; [|exact Qse]. destruct E2 as (Q2 & L2 & R2).
             repeat split; auto; try lia; discriminate.
        * inversion H; subst. apply IH in E1; [|assumption]. destruct E1 as (Q1 & L1 & R1).
          repeat split; auto; discriminate.
        * inversion H; subst. apply IH in E1; [|assumption]. destruct E1 as (Q1 & L1 & R1).
          repeat split; auto; discriminate.
      + inversion H; subst. repeat split; auto; try lia; discriminate.
      + destruct (eval f env e1 s) as [[v|c|] s1] eqn:E1.
        * inversion H; subst. apply IH in E1; [|assumption]. destruct E1 as (Q1 & L1 & R1).
          repeat split; auto; discriminate.
        * apply IH in E1; [|assumption]. destruct E1 as (Q1 & L1 & R1).
          apply IH in H; [|assumption]. destruct H as (Q2 & L2 & R2).
          repeat split; auto; try lia; discriminate.
        * inversion H; subst. apply IH in E1; [|assumption]. destruct E1 as (Q1 & L1 & R1).
          repeat split; auto; discriminate.
  Qed.

  (* (b) a strictly increasing supply that is never decremented: whatever
     non-negative interference other threads cause, the counter never
     decreases, so (enter_calm) every new trace id exceeds every id handed out
     before it - in this thread or any other. *)
  Theorem eval_top_mono : sup = Mono -> forall fuel env e s r s',
      calm s -> eval fuel env e s = (r, s') -> calm s' /\ (top K s <= top K s')%Z.
  Proof.
    intros Hsup. induction fuel as [|f IH]; intros env e s r s' Hq H; simpl in H.
    - inversion H; subst. split; auto; lia.
    - destruct e.
      + destruct (nth_error env n); inversion H; subst; split; auto; lia.
      + inversion H; subst. split; auto; lia.
      + destruct (eval f env e s) as [[va|c|] s1] eqn:E1; simpl in H.
        * apply IH in E1; [|assumption]. destruct E1 as (Q1 & L1).
          apply keeps_apply_prim in H. destruct H as [Ht Hn].
          split; [unfold calm in *; congruence|lia].
        * inversion H; subst. now apply IH in E1.
        * inversion H; subst. now apply IH in E1.
      + destruct (eval f env e1 s) as [[va|c|] s1] eqn:E1; simpl in H.
        * apply IH in E1; [|assumption]. destruct E1 as (Q1 & L1).
          destruct (eval f env e2 s1) as [[vb|c|] s2] eqn:E2; simpl in H.
          -- apply IH in E2; [|assumption]. destruct E2 as (Q2 & L2).
             apply keeps_apply_prim in H. destruct H as [Ht Hn].
             split; [unfold calm in *; congruence|lia].
          -- inversion H; subst. apply IH in E2; [|assumption]. destruct E2. split; auto; lia.
          -- inversion H; subst. apply IH in E2; [|assumption]. destruct E2. split; auto; lia.
        * inversion H; subst. now apply IH in E1.
        * inversion H; subst. now apply IH in E1.
      + destruct (eval f env e1 s) as [[va|c|] s1] eqn:E1; simpl in H.
        * apply IH in E1; [|assumption]. destruct E1 as (Q1 & L1).
          apply IH in H; [|assumption]. destruct H. split; auto; lia.
        * inversion H; subst. now apply IH in E1.
        * inversion H; subst. now apply IH in E1.
      + destruct (eval f env e1 s) as [[vc|c|] s1] eqn:E1; simpl in H.
        * apply IH in E1; [|assumption]. destruct E1 as (Q1 & L1).
          destruct (kpos (strip vc)); (apply IH in H; [|assumption]); destruct H; split; auto; lia.
        * inversion H; subst. now apply IH in E1.
        * inversion H; subst. now apply IH in E1.
      + destruct (eval f env e2 s) as [[x|c|] s1] eqn:E1; simpl in H.
        * apply IH in E1; [|assumption]. destruct E1 as (Q1 & L1).
          destruct (enter K s1) as [t se] eqn:Een.
          destruct (enter_calm s1 t se Q1 Een) as (Ht & Hse & Qse).
          match type of H with
          | bind K (eval f ?env' e1 ?s2) _ = _ =>
            destruct (eval f env' e1 s2) as [[endv|c|] s3] eqn:E2
          end; simpl in H.
          -- apply IH in E2; [|exact Qse]. destruct E2 as (Q2 & L2). simpl in L2.
             assert (Hlv : leave K sup s3 = s3) by (unfold leave; now rewrite Hsup).
             rewrite Hlv in H.
             assert (Hfin : calm s' /\ top K s' = top K s3).
             { destruct endv as [k|t' ev [tg|en]].
               - inversion H; subst. auto.
               - destruct (Z.eqb t' t); inversion H; subst; auto.
               - destruct (Z.eqb t' t).
                 + apply keeps_backward_pass in H. destruct H as [H1 H2].
                   split; [unfold calm in *; congruence|congruence].
                 + inversion H; subst; auto. }
             destruct Hfin as [Qf Tf]. split; auto; lia.
          -- inversion H; subst. apply IH in E2; [|exact Qse]. destruct E2 as (Q2 & L2).
             simpl in L2. split; auto; lia.
          -- inversion H; subst. apply IH in E2; [|exact Qse]. destruct E2 as (Q2 & L2).
             simpl in L2. split; auto; lia.
        * inversion H; subst. now apply IH in E1.
        * inversion H; subst. now apply IH in E1.
      + destruct (eval f env e2 s) as [[x|c|] s1] eqn:E1; simpl in H.
        * apply IH in E1; [|assumption]. destruct E1 as (Q1 & L1).
          destruct (enter K s1) as [t se] eqn:Een.
          destruct (enter_calm s1 t se Q1 Een) as (Ht & Hse & Qse).
          match type of H with
          | bind K (eval f ?env' e1 ?s2) _ = _ =>
            destruct (eval f env' e1 s2) as [[endv|c|] s3] eqn:E2
          end; simpl in H.
          -- apply IH in E2; [|exact Qse]. destruct E2 as (Q2 & L2).
             assert (Hlv : leave K sup s3 = s3) by (unfold leave; now rewrite Hsup).
             rewrite Hlv in H.
             assert (Hfin : calm s' /\ top K s' = top K s3).
             { destruct endv as [k|t' ev [tg|en]].
               - inversion H; subst. auto.
               - destruct (Z.eqb t' t); inversion H; subst; auto.
               - destruct (Z.eqb t' t); inversion H; subst; auto. }
             destruct Hfin as [Qf Tf]. split; auto; lia.
          -- inversion H; subst. apply IH in E2; [|exact Qse]. destruct E2. split; auto; lia.
          -- inversion H; subst. apply IH in E2; [|exact Qse]. destruct E2. split; auto; lia.
        * inversion H; subst. now apply IH in E1.
        * inversion H; subst. now apply IH in E1.
      + inversion H; subst. split; auto; lia.
      + destruct (eval f env e1 s) as [[v|c|] s1] eqn:E1.
        * inversion H; subst. now apply IH in E1.
        * apply IH in E1; [|assumption]. destruct E1 as (Q1 & L1).
          apply IH in H; [|assumption]. destruct H. split; auto; lia.
        * inversion H; subst. now apply IH in E1.
  Qed.

  (* ---------- non-differentiable primitives return plain values ---------- *)
  Theorem notrace_plain : forall fuel p args s v s',
      is_notrace p = true ->
      apply_prim fuel p args s = (Val v, s') ->
      (exists k, v = VNum K k) /\ s' = s.
  Proof.
    induction fuel as [|f IH]; intros p args s v s' Hn H; simpl in H; [discriminate|].
    destruct (find_top args (-1) None) as [t [knd|]].
    - rewrite Hn in H. eapply IH; eauto.
    - destruct (all_num args) as [ks|]; [|discriminate].
      destruct (raw p ks) as [k|c|]; try discriminate.
      inversion H; subst. split; [eauto|reflexivity].
  Qed.

  (* ---------- a primitive without a rule for the requested mode raises ---------- *)
  Theorem no_vjp_raises : forall fuel p args s t r s',
      has_vjp p = false -> is_notrace p = false ->
      find_top args (-1) None = (t, Some KV) ->
      apply_prim fuel p args s = (r, s') ->
      forall v, r <> Val v.
  Proof.
    intros fuel p args s t r s' Hv Hn Hft H v ->.
    destruct fuel as [|f]; simpl in H; [discriminate|].
    rewrite Hft, Hn in H.
    destruct (apply_prim f p (map (unbox_at t) args) s) as [[ans|c|] s1]; simpl in H;
      try discriminate.
    rewrite Hv in H. simpl in H. discriminate.
  Qed.

  Theorem no_jvp_raises : forall fuel p args s t r s',
      has_jvp p = false -> is_notrace p = false ->
      find_top args (-1) None = (t, Some KJ) ->
      apply_prim fuel p args s = (r, s') ->
      forall v, r <> Val v.
  Proof.
    intros fuel p args s t r s' Hv Hn Hft H v ->.
    destruct fuel as [|f]; simpl in H; [discriminate|].
    rewrite Hft, Hn in H.
    destruct (apply_prim f p (map (unbox_at t) args) s) as [[ans|c|] s1]; simpl in H;
      try discriminate.
    destruct (as_nj K (boxed_at K t 0 args)); [|discriminate].
    rewrite Hv in H. simpl in H. discriminate.
  Qed.

  (* ---------- value transparency of whole (operator-free) programs ---------- *)
  Fixpoint eval_plain (e : exp) (env : list K) : option K :=
    match e with
    | Var n => nth_error env n
    | Const k => Some (kofZ k)
    | App1 p a =>
      match eval_plain a env with
      | Some x => match raw p [x] with Val k => Some k | _ => None end
      | None => None
      end
    | App2 p a b =>
      match eval_plain a env, eval_plain b env with
      | Some x, Some y => match raw p [x; y] with Val k => Some k | _ => None end
      | _, _ => None
      end
    | Let a b =>
      match eval_plain a env with
      | Some x => eval_plain b (x :: env)
      | None => None
      end
    | IfPos c a b =>
      match eval_plain c env with
      | Some x => if kpos x then eval_plain a env else eval_plain b env
      | None => None
      end
    | _ => None
    end.

  Fixpoint first_order (e : exp) : bool :=
    match e with
    | Var _ | Const _ => true
    | App1 _ a => first_order a
    | App2 _ a b | Let a b => first_order a && first_order b
    | IfPos c a b => first_order c && first_order a && first_order b
    | _ => false
    end.

  (* a function evaluated on traced inputs - boxed to any depth, in any mix of
     modes - returns a value whose underlying number is what the function
     returns on the plain inputs, and takes the same branches *)
  Theorem eval_transparent : forall fuel e env s v s',
      first_order e = true ->
      eval fuel env e s = (Val v, s') ->
      eval_plain e (map strip env) = Some (strip v).
  Proof.
    induction fuel as [|f IH]; intros e env s v s' Hfo H; simpl in H; [discriminate|].
    destruct e; simpl in Hfo; try discriminate; simpl.
    - rewrite nth_error_map. destruct (nth_error env n); inversion H; subst. reflexivity.
    - inversion H; subst. reflexivity.
    - destruct (eval f env e s) as [[va|c|] s1] eqn:E1; simpl in H; try discriminate.
      rewrite (IH _ _ _ _ _ Hfo E1).
      apply apply_prim_transparent in H. simpl in H. now rewrite H.
    - apply andb_prop in Hfo. destruct Hfo as [H1 H2].
      destruct (eval f env e1 s) as [[va|c|] s1] eqn:E1; simpl in H; try discriminate.
      destruct (eval f env e2 s1) as [[vb|c|] s2] eqn:E2; simpl in H; try discriminate.
      rewrite (IH _ _ _ _ _ H1 E1), (IH _ _ _ _ _ H2 E2).
      apply apply_prim_transparent in H. simpl in H. now rewrite H.
    - apply andb_prop in Hfo. destruct Hfo as [H1 H2].
      destruct (eval f env e1 s) as [[va|c|] s1] eqn:E1; simpl in H; try discriminate.
      rewrite (IH _ _ _ _ _ H1 E1).
      apply (IH _ _ _ _ _ H2) in H. simpl in H. assumption.
    - apply andb_prop in Hfo. destruct Hfo as [H12 H3].
      apply andb_prop in H12. destruct H12 as [H1 H2].
      destruct (eval f env e1 s) as [[vc|c|] s1] eqn:E1; simpl in H; try discriminate.
      rewrite (IH _ _ _ _ _ H1 E1).
      destruct (kpos (strip vc)); eapply IH; eauto.
  Qed.
End Proofs.
