(* C14: when is an output "independent of the input", and what do the operators answer then?  The model's test (the end
   value is a box of the very trace the operator opened) is the test tracer.trace makes (gen/GenNograd.v, regenerated on
   every run), and one step of the evaluator shows that Grad / Deriv then return the exact zero and leave the trace. *)
From Coq Require Import List ZArith Bool.
Import ListNotations.
From AG Require Import Toposort Tagged Extend.
From AGGen Require Import GenNograd.

Section Indep.
  Variable K : Type.
  Variables (k0 k1 : K) (kadd ksub kmul : K -> K -> K) (kopp : K -> K).
  Variable kF : nat -> K -> K.
  Variable ksign : K -> K.
  Variable kpos : K -> bool.
  Variable kofZ : Z -> K.
  Variable sup : supply.
  Notation value := (value K).
  Notation eval := (eval K k0 k1 kadd ksub kmul kopp kF ksign kpos kofZ sup).

  Definition is_box (v : value) : bool := match v with VBox _ _ _ _ => true | VNum _ _ => false end.
  Definition trace_of (v : value) : Z := match v with VBox _ t _ _ => t | VNum _ _ => (-1)%Z end.
  (* the test in the Grad / Deriv cases of Tagged.eval *)
  Definition model_depends (t : Z) (v : value) : bool :=
    match v with VBox _ t' _ _ => Z.eqb t' t | VNum _ _ => false end.

  Lemma model_depends_follows_source t v : model_depends t v = gen_output_depends (is_box v) (trace_of v) t.
  Proof. destruct v; reflexivity. Qed.

  (* reverse mode: an output that is not a box of the operator's own trace gives the exact zero, the trace is left *)
  Theorem grad_of_independent_output_is_zero f env body arg s x s1 t se endv s3 :
    eval f env arg s = (Val x, s1) ->
    enter K s1 = (t, se) ->
    eval f (VBox K t x (NV K (length (store K s1))) :: env) body
         {| top := top K se; store := store K se ++ [root_node K k0]; noise := noise K se |} = (Val endv, s3) ->
    model_depends t endv = false ->
    eval (S f) env (Grad body arg) s = (Val (VNum K k0), leave K sup s3).
  Proof.
    intros Ha He Hb Hd. cbn [Tagged.eval]. rewrite Ha. unfold bind at 1. rewrite He. rewrite Hb. unfold bind at 1.
    destruct endv as [k|t' ev [tg|en]]; simpl in Hd; try rewrite Hd; reflexivity.
  Qed.

  (* forward mode likewise *)
  Theorem deriv_of_independent_output_is_zero f env body arg s x s1 t s2 endv s3 :
    eval f env arg s = (Val x, s1) ->
    enter K s1 = (t, s2) ->
    eval f (VBox K t x (NJ K (VNum K k1)) :: env) body s2 = (Val endv, s3) ->
    model_depends t endv = false ->
    eval (S f) env (Deriv body arg) s = (Val (VNum K k0), leave K sup s3).
  Proof.
    intros Ha He Hb Hd. cbn [Tagged.eval]. rewrite Ha. unfold bind at 1. rewrite He. rewrite Hb. unfold bind at 1.
    destruct endv as [k|t' ev [tg|en]]; simpl in Hd; try rewrite Hd; reflexivity.
  Qed.
End Indep.

(* which zero that is in the array world: the source's make_vjp answers with the zero of the ARGUMENT's space, make_jvp
   with the zero of the OUTPUT's space - what the property states *)
Definition independent_vjp_zero : zero_space := ZOfArgument.
Definition independent_jvp_zero : zero_space := ZOfOutput.
Theorem independent_zero_spaces_follow_source :
  independent_vjp_zero = gen_independent_vjp_zero /\ independent_jvp_zero = gen_independent_jvp_zero.
Proof. split; reflexivity. Qed.
