From Coq Require Import List Arith Bool ZArith Lia.
Import ListNotations.
From AG Require Import Toposort Tagged Tower TaggedProof.
From AG Require Import TowerAlg FwdCorrect.
Local Open Scope Z_scope.

Lemma AP_step t L : desc (t :: L) -> AP L -> AP (t :: L).
Proof.
  intros Hd IH fuel p args s Hp Hw.
  destruct (existsb (is_top Z t) args) eqn:Etop.
  2:{ (* no argument lives at the new level: the call is a call at the older levels *)
    assert (HwL : Forall (wf L) args).
    { rewrite Forall_forall in *. intros a Ha. apply (not_top_wf t); [auto|].
      destruct (is_top Z t a) eqn:E; [|reflexivity].
      assert (existsb (is_top Z t) args = true) by (apply existsb_exists; eauto). congruence. }
    assert (Hi : map (interp (t :: L)) args = map (tlift (length L)) (map (interp L) args)).
    { rewrite map_map. apply map_ext_in. intros a Ha. apply not_top_interp.
      destruct (is_top Z t a) eqn:E; [|reflexivity].
      assert (existsb (is_top Z t) args = true) by (apply existsb_exists; eauto). congruence. }
    rewrite Hi. change (length (t :: L)) with (S (length L)). rewrite tprimN_lift.
    apply good_up; [assumption|]. now apply IH. }
  destruct fuel as [|f]; [split; simpl; auto|].
  cbn [apply_prim]. rewrite (find_top_at t L args Hd Hw Etop).
  set (argvals := map (unbox_at Z t) args).
  assert (HwA : Forall (wf L) argvals).
  { unfold argvals. rewrite Forall_forall in *. intros v Hv. apply in_map_iff in Hv.
    destruct Hv as (a & <- & Ha). apply wf_unbox. auto. }
  pose proof (IH f p argvals s Hp HwA) as IHans.
  assert (Hlen : length (map (interp L) argvals) = length (map (interp (t :: L)) args))
    by (unfold argvals; now rewrite !map_length).
  destruct (tprimN (length L) p (map (interp L) argvals)) as [r0|] eqn:Esp.
  2:{ (* arity mismatch: the call at the older levels already fails *)
    rewrite (tprimN_none_len _ _ _ _ _ Hlen Esp).
    destruct (is_notrace p).
    - apply (good_up t L s None); assumption.
    - apply good_fail_bind with (L := L). assumption. }
  destruct args as [|a [|b [|c rest]]].
  - discriminate.
  - (* one argument, necessarily at the new level *)
    simpl in Etop. rewrite orb_false_r in Etop.
    inversion Hw as [|? ? Hwa _]; subst.
    destruct (top_shape _ _ _ Hwa Etop) as (i & g & -> & Hwi & Hwg).
    unfold argvals in *. cbn [map] in *. rewrite unbox_top in *. rewrite boxed_at_top.
    cbn [boxed_at as_nj fold_right snd fst map]. rewrite interp_top.
    assert (IHq : forall q xs, allowed q = true -> Forall (wf L) xs ->
                         good L s (tprimN (length L) q (map (interp L) xs)) (zapply f q xs s))
      by (intros; now apply IH).
    cbn [tprimN] in Esp.
    destruct p; try discriminate; cbn [is_notrace has_jvp negb tprimN tprim1]; cbn [tprim1] in Esp;
      inversion Esp; subst r0; clear Esp.
    + (* PNeg *)
      eapply good_eq; [|eapply (good_box t L s _ (Some (tneg (length L) (interp L g)))); [exact IHans|]].
      * reflexivity.
      * intros ans Hwans Hans. cbn [jvp_sum jvp_rule]. apply good_bind_ret.
        apply (IHq PNeg [g]); [reflexivity|repeat constructor; assumption].
    + (* PF n *)
      eapply good_eq; [|eapply (good_box t L s _
          (Some (tmul (length L) (interp L g) (tF (length L) (S n) (interp L i))))); [exact IHans|]].
      * cbn [length tF fst snd]. now rewrite (tmul_comm (length L) (interp L g)).
      * intros ans Hwans Hans. cbn [jvp_sum jvp_rule]. apply good_bind_ret.
        eapply good_bind; [apply (IHq (PF (S n)) [i]); [reflexivity|repeat constructor; assumption]| |discriminate].
        intros d Hwd Hdd. cbn [map tprimN tprim1] in Hdd. inversion Hdd as [Hd'].
        eapply good_eq; [|apply (IHq PMul [g; d]); [reflexivity|repeat constructor; assumption]].
        cbn [map tprimN tprim2]. now rewrite Hd'.
    + (* PSign: notrace *)
      eapply good_eq; [|apply (good_up t L s _ _ Hd IHans)].
      reflexivity.
  - (* two arguments *)
    assert (IHq : forall q xs, allowed q = true -> Forall (wf L) xs ->
                         good L s (tprimN (length L) q (map (interp L) xs)) (zapply f q xs s))
      by (intros; now apply IH).
    inversion Hw as [|? ? Hwa Hw']; subst. inversion Hw' as [|? ? Hwb _]; subst. clear Hw'.
    simpl in Etop. rewrite orb_false_r in Etop.
    destruct (is_top Z t a) eqn:Ea, (is_top Z t b) eqn:Eb; try discriminate; clear Etop.
    + (* both at the new level *)
      destruct (top_shape _ _ _ Hwa Ea) as (ia & ga & -> & Hwia & Hwga).
      destruct (top_shape _ _ _ Hwb Eb) as (ib & gb & -> & Hwib & Hwgb).
      unfold argvals in *. cbn [map] in *. rewrite !unbox_top in *. rewrite !boxed_at_top.
      cbn [boxed_at as_nj fold_right snd fst map]. rewrite !interp_top.
      cbn [tprimN] in Esp.
      destruct p; try discriminate; cbn [is_notrace has_jvp negb tprimN tprim2]; cbn [tprim2] in Esp;
        inversion Esp; subst r0; clear Esp.
      * (* PAdd *)
        eapply good_eq; [|eapply (good_box t L s _ (Some (tadd (length L) (interp L ga) (interp L gb)))); [exact IHans|]].
        -- reflexivity.
        -- intros ans Hwans Hans. cbn [jvp_sum jvp_rule bind ret].
           eapply good_bind; [apply (IHq PAdd [ga; gb]); [reflexivity|repeat constructor; assumption]| |discriminate].
           intros r Hwr Hr. cbn [map tprimN tprim2] in Hr. rewrite Hr. now apply good_ret.
      * (* PSub *)
        eapply good_eq; [|eapply (good_box t L s _ (Some (tadd (length L) (interp L ga) (tneg (length L) (interp L gb))))); [exact IHans|]].
        -- cbn [length tsub fst snd]. now rewrite (tsub_def (length L) (interp L ga)).
        -- intros ans Hwans Hans. cbn [jvp_sum jvp_rule bind ret].
           eapply good_bind; [apply (IHq PNeg [gb]); [reflexivity|repeat constructor; assumption]| |discriminate].
           intros c1 Hwc1 Hc1. cbn [map tprimN tprim1] in Hc1. inversion Hc1 as [Hc1'].
           eapply good_bind; [apply (IHq PAdd [ga; c1]); [reflexivity|repeat constructor; assumption]| |discriminate].
           intros r Hwr Hr. cbn [map tprimN tprim2] in Hr. rewrite <- Hc1' in Hr. rewrite Hr. now apply good_ret.
      * (* PMul *)
        eapply good_eq; [|eapply (good_box t L s _
            (Some (tadd (length L) (tmul (length L) (interp L ga) (interp L ib))
                                   (tmul (length L) (interp L ia) (interp L gb))))); [exact IHans|]].
        -- reflexivity.
        -- intros ans Hwans Hans. cbn [jvp_sum jvp_rule bind ret].
           eapply good_bind; [apply (IHq PMul [ga; ib]); [reflexivity|repeat constructor; assumption]| |discriminate].
           intros c0 Hwc0 Hc0. cbn [map tprimN tprim2] in Hc0. inversion Hc0 as [Hc0'].
           eapply good_bind; [apply (IHq PMul [ia; gb]); [reflexivity|repeat constructor; assumption]| |discriminate].
           intros c1 Hwc1 Hc1. cbn [map tprimN tprim2] in Hc1. inversion Hc1 as [Hc1'].
           eapply good_bind; [apply (IHq PAdd [c0; c1]); [reflexivity|repeat constructor; assumption]| |discriminate].
           intros r Hwr Hr. cbn [map tprimN tprim2] in Hr. rewrite <- Hc0', <- Hc1' in Hr. rewrite Hr. now apply good_ret.
    + (* only the first argument at the new level *)
      destruct (top_shape _ _ _ Hwa Ea) as (ia & ga & -> & Hwia & Hwga).
      pose proof (not_top_wf _ _ _ Hwb Eb) as HwbL.
      unfold argvals in *. cbn [map] in *. rewrite unbox_top in *. rewrite (unbox_nottop _ _ Eb) in *.
      rewrite boxed_at_top, (boxed_at_nottop _ _ _ _ Eb).
      cbn [boxed_at as_nj fold_right snd fst map]. rewrite interp_top, (not_top_interp _ _ _ Eb).
      cbn [tprimN] in Esp. unfold tlift.
      destruct p; try discriminate; cbn [is_notrace has_jvp negb tprimN tprim2]; cbn [tprim2] in Esp;
        inversion Esp; subst r0; clear Esp.
      * (* PAdd *)
        eapply good_eq; [|eapply (good_box t L s _ (Some (interp L ga))); [exact IHans|]].
        -- cbn [length tadd fst snd]. now rewrite tadd_0_r.
        -- intros ans Hwans Hans. cbn [jvp_sum jvp_rule bind ret]. now apply good_ret.
      * (* PSub *)
        eapply good_eq; [|eapply (good_box t L s _ (Some (interp L ga))); [exact IHans|]].
        -- cbn [length tsub fst snd]. now rewrite tsub_0_r.
        -- intros ans Hwans Hans. cbn [jvp_sum jvp_rule bind ret]. now apply good_ret.
      * (* PMul *)
        eapply good_eq; [|eapply (good_box t L s _ (Some (tmul (length L) (interp L ga) (interp L b)))); [exact IHans|]].
        -- cbn [length tmul fst snd]. now rewrite tmul_0_r, tadd_0_r.
        -- intros ans Hwans Hans. cbn [jvp_sum jvp_rule bind ret]. apply good_bind_ret.
           apply (IHq PMul [ga; b]); [reflexivity|repeat constructor; assumption].
    + (* only the second argument at the new level *)
      destruct (top_shape _ _ _ Hwb Eb) as (ib & gb & -> & Hwib & Hwgb).
      pose proof (not_top_wf _ _ _ Hwa Ea) as HwaL.
      unfold argvals in *. cbn [map] in *. rewrite unbox_top in *. rewrite (unbox_nottop _ _ Ea) in *.
      rewrite (boxed_at_nottop _ _ _ _ Ea), boxed_at_top.
      cbn [boxed_at as_nj fold_right snd fst map]. rewrite interp_top, (not_top_interp _ _ _ Ea).
      cbn [tprimN] in Esp. unfold tlift.
      destruct p; try discriminate; cbn [is_notrace has_jvp negb tprimN tprim2]; cbn [tprim2] in Esp;
        inversion Esp; subst r0; clear Esp.
      * (* PAdd *)
        eapply good_eq; [|eapply (good_box t L s _ (Some (interp L gb))); [exact IHans|]].
        -- cbn [length tadd fst snd]. now rewrite tadd_0_l.
        -- intros ans Hwans Hans. cbn [jvp_sum jvp_rule bind ret]. now apply good_ret.
      * (* PSub *)
        eapply good_eq; [|eapply (good_box t L s _ (Some (tneg (length L) (interp L gb)))); [exact IHans|]].
        -- cbn [length tsub fst snd]. now rewrite tsub_0_l.
        -- intros ans Hwans Hans. cbn [jvp_sum jvp_rule bind ret]. apply good_bind_ret.
           apply (IHq PNeg [gb]); [reflexivity|repeat constructor; assumption].
      * (* PMul *)
        eapply good_eq; [|eapply (good_box t L s _ (Some (tmul (length L) (interp L a) (interp L gb)))); [exact IHans|]].
        -- cbn [length tmul fst snd]. now rewrite tmul_0_l, tadd_0_l.
        -- intros ans Hwans Hans. cbn [jvp_sum jvp_rule bind ret]. apply good_bind_ret.
           apply (IHq PMul [a; gb]); [reflexivity|repeat constructor; assumption].
  - (* three or more arguments: no primitive of this language accepts them *)
    cbn [tprimN map] in Esp. discriminate.
Qed.

Theorem AP_all L : desc L -> AP L.
Proof.
  induction L as [|t L IH]; intros Hd; [apply AP_nil|].
  apply AP_step; [assumption|]. apply IH. simpl in Hd. tauto.
Qed.
