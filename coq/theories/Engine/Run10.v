(* Executable Z instance of the heap model of add_outgrads, for C10. *)
From Coq Require Import List Arith Bool ZArith.
Import ListNotations.
From AG Require Import VSpace VSpaceProof Index Heap Run01.
Local Open Scope Z_scope.

Record case10 := {
  m_n : nat;
  m_bufs : list (list Z);            (* pre-existing buffers: rule outputs, constants, cotangents *)
  m_cs : list hcontrib;              (* contributions, referring to those buffers *)
  m_val : list Z;                    (* implementation: accumulated value *)
  m_flag : bool;                     (* implementation: the 'mutable' flag *)
  m_alias : option nat;              (* implementation: which pre-existing buffer the result IS (None: a new one) *)
  m_ok : bool                        (* implementation: all pre-existing buffers unchanged and value = dense sum *)
}.

Definition onat_eqb (a b : option nat) : bool :=
  match a, b with
  | Some x, Some y => Nat.eqb x y
  | None, None => true
  | _, _ => false
  end.

Definition check10 (c : case10) : nat :=
  if negb c.(m_ok) then 2%nat else
  match accumulate_h Z 0 Z.add c.(m_n) None c.(m_cs) c.(m_bufs) with
  | (Some (r, f), h') =>
    let alias := if Nat.ltb r (length c.(m_bufs)) then Some r else None in
    if zl_eqb (read Z h' r) c.(m_val) && Bool.eqb f c.(m_flag) && onat_eqb alias c.(m_alias)
    then 0%nat else 1%nat
  | (None, _) => 1%nat
  end.
