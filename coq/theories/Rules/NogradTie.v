(* C14: every function whose local constancy is proved in PiecewiseConst.v is on the list the source registers as
   non-differentiable (gen/GenNograd.v, regenerated from numpy_vjps.py / numpy_jvps.py on every run); and the real
   functions of PiecewiseConst.v, at rationals p/q, are computed by integer arithmetic (the executable side of the
   correspondence with NumPy's floor/ceil/trunc/sign/comparisons on floats, which are dyadic rationals). *)
From Coq Require Import Reals Lra Lia ZArith List String Bool.
From Coquelicot Require Import Coquelicot.
From AG Require Import RealPrelude PiecewiseConst.
From AGGen Require Import GenNograd.
Import ListNotations.
Local Open Scope R_scope.

Definition proved_names : list string :=
  ["floor"; "ceil"; "trunc"; "fix"; "rint"; "round"; "around"; "sign"; "greater"; "greater_equal"; "less"; "less_equal"; "equal"; "not_equal";
   "logical_not"; "isfinite"; "isnan"; "isinf"; "isposinf"; "isneginf"; "isreal"; "iscomplex"]%string.
Definition all_registered : bool := forallb (fun n => existsb (String.eqb n) gen_nograd) proved_names.

Lemma proved_members_are_registered : forall n, In n proved_names -> In n gen_nograd.
Proof.
  assert (E : all_registered = true) by (vm_compute; reflexivity).
  unfold all_registered in E. rewrite forallb_forall in E. intros n Hn.
  specialize (E n Hn). apply existsb_exists in E. destruct E as [m [Hm Em]].
  apply String.eqb_eq in Em. now subst m.
Qed.

(* name in the source, real function, its jump points *)
Inductive model_of : string -> (R -> R) -> (R -> Prop) -> Prop :=
| m_floor : model_of "floor" rfloor (fun x => exists z, x = IZR z)
| m_ceil : model_of "ceil" rceil (fun x => exists z, x = IZR z)
| m_trunc : model_of "trunc" rtrunc (fun x => exists z, x = IZR z)
| m_fix : model_of "fix" rtrunc (fun x => exists z, x = IZR z)
| m_rint : model_of "rint" rrint half_integer
| m_round : model_of "round" rrint half_integer
| m_around : model_of "around" rrint half_integer
| m_sign : model_of "sign" rsign (fun x => x = 0)
| m_greater c : model_of "greater" (rgt c) (fun x => x = c)
| m_greater_equal c : model_of "greater_equal" (rge c) (fun x => x = c)
| m_less c : model_of "less" (rlt c) (fun x => x = c)
| m_less_equal c : model_of "less_equal" (rle c) (fun x => x = c)
| m_equal c : model_of "equal" (req c) (fun x => x = c)
| m_not_equal c : model_of "not_equal" (rneq c) (fun x => x = c)
(* logical_not x is x == 0; on the reals (finite floats) the predicates below are constant *)
| m_logical_not : model_of "logical_not" (req 0) (fun x => x = 0)
| m_isfinite : model_of "isfinite" (fun _ => 1) (fun _ => False)
| m_isnan : model_of "isnan" (fun _ => 0) (fun _ => False)
| m_isinf : model_of "isinf" (fun _ => 0) (fun _ => False)
| m_isposinf : model_of "isposinf" (fun _ => 0) (fun _ => False)
| m_isneginf : model_of "isneginf" (fun _ => 0) (fun _ => False)
| m_isreal : model_of "isreal" (fun _ => 1) (fun _ => False)
| m_iscomplex : model_of "iscomplex" (fun _ => 0) (fun _ => False).

Lemma rneq_locally_const c x : x <> c -> locally_const (rneq c) x.
Proof.
  apply (cmp_locally_const rneq); intros y H; unfold rneq; repeat destruct (Req_EM_T _ _); try reflexivity; lra.
Qed.

Lemma not_jump_non_integer x : ~ (exists z, x = IZR z) -> non_integer x.
Proof. intros H z E. apply H. now exists z. Qed.

Lemma const_locally_const (k x : R) : locally_const (fun _ => k) x.
Proof. unfold locally_const. apply filter_forall. reflexivity. Qed.

Lemma model_locally_const name f J x : model_of name f J -> ~ J x -> locally_const f x.
Proof.
  intros [ ] H; auto using rfloor_locally_const, rceil_locally_const, rtrunc_locally_const, rrint_locally_const, not_jump_non_integer,
    rsign_locally_const, rgt_locally_const, rge_locally_const, rlt_locally_const, rle_locally_const, req_locally_const,
    rneq_locally_const, const_locally_const.
Qed.

Theorem registered_piecewise_constant_functions_block_flow name f J :
  model_of name f J ->
  In name gen_nograd
  /\ forall x, ~ J x ->
       is_derive f x 0
       /\ (forall h : R -> R, is_derive (fun y => h (f y)) x 0)
       /\ (forall (h : R -> R -> R) l, is_derive (fun y => h y (f x)) x l -> is_derive (fun y => h y (f y)) x l)
       /\ is_derive (fun y => y * f y) x (f x).
Proof.
  intros M. split.
  - apply proved_members_are_registered. destruct M; vm_compute; tauto.
  - intros x Hx. pose proof (model_locally_const name f J x M Hx) as H. split; [|split; [|split]].
    + now apply locally_const_derive.
    + intros h. apply locally_const_derive. now apply locally_const_comp.
    + intros h l. now apply derive_freezes_locally_const.
    + now apply derive_id_mul_locally_const.
Qed.

(* ---- executable side: the functions at a rational p/q (q > 0) ---- *)
Definition zfloor (p q : Z) : Z := (p / q)%Z.
Definition zceil (p q : Z) : Z := (- ((- p) / q))%Z.
Definition ztrunc (p q : Z) : Z := if (0 <=? p)%Z then zfloor p q else zceil p q.
Definition zsign (p : Z) : Z := Z.sgn p.
Definition zgt (pc qc p q : Z) : Z := if (pc * q <? p * qc)%Z then 1%Z else 0%Z.   (* p/q > pc/qc *)
Definition zis_int (p q : Z) : bool := (p mod q =? 0)%Z.

Lemma rfloor_Q p q : (0 < q)%Z -> rfloor (IZR p / IZR q) = IZR (zfloor p q).
Proof.
  intros Hq. unfold rfloor, zfloor. f_equal. apply Int_part_interval.
  assert (Hq' : 0 < IZR q) by (apply IZR_lt; exact Hq).
  pose proof (Z.div_mod p q ltac:(lia)) as E. pose proof (Z.mod_pos_bound p q Hq) as [B1 B2].
  assert (Er : IZR p = IZR q * IZR (p / q) + IZR (p mod q)) by (rewrite <- mult_IZR, <- plus_IZR; now f_equal).
  apply IZR_le in B1. apply IZR_lt in B2.
  split.
  - apply (Rmult_le_reg_l (IZR q)); [exact Hq'|]. replace (IZR q * (IZR p / IZR q)) with (IZR p) by (field; lra). lra.
  - apply (Rmult_lt_reg_l (IZR q)); [exact Hq'|]. replace (IZR q * (IZR p / IZR q)) with (IZR p) by (field; lra). lra.
Qed.

Lemma rceil_Q p q : (0 < q)%Z -> rceil (IZR p / IZR q) = IZR (zceil p q).
Proof.
  intros Hq. unfold rceil, zceil. rewrite opp_IZR. f_equal.
  replace (- (IZR p / IZR q)) with (IZR (- p) / IZR q).
  - now apply rfloor_Q.
  - rewrite opp_IZR. assert (0 < IZR q) by (apply IZR_lt; exact Hq). field; lra.
Qed.

Lemma rtrunc_Q p q : (0 < q)%Z -> rtrunc (IZR p / IZR q) = IZR (ztrunc p q).
Proof.
  intros Hq. assert (Hq' : 0 < IZR q) by (apply IZR_lt; exact Hq). unfold rtrunc, ztrunc.
  destruct (Z.leb_spec 0 p) as [Hp|Hp].
  - destruct (Rle_dec 0 (IZR p / IZR q)) as [_|Hn]; [now apply rfloor_Q|].
    exfalso. apply Hn. apply IZR_le in Hp. apply Rmult_le_pos; [exact Hp|]. left. now apply Rinv_0_lt_compat.
  - destruct (Rle_dec 0 (IZR p / IZR q)) as [Hn|_]; [|now apply rceil_Q].
    exfalso. apply IZR_lt in Hp. assert (IZR p / IZR q < 0); [|lra].
    unfold Rdiv. rewrite <- (Rmult_0_l (/ IZR q)). apply Rmult_lt_compat_r; [now apply Rinv_0_lt_compat | exact Hp].
Qed.

Lemma rsign_Q p q : (0 < q)%Z -> rsign (IZR p / IZR q) = IZR (zsign p).
Proof.
  intros Hq. assert (Hq' : 0 < IZR q) by (apply IZR_lt; exact Hq). assert (Hi : 0 < / IZR q) by now apply Rinv_0_lt_compat.
  unfold zsign. destruct (Z.lt_trichotomy p 0) as [H|[H|H]].
  - rewrite (Z.sgn_neg p H). apply IZR_lt in H. apply rsign_neg. unfold Rdiv. rewrite <- (Rmult_0_l (/ IZR q)).
    now apply Rmult_lt_compat_r.
  - subst p. simpl. unfold Rdiv. rewrite Rmult_0_l. unfold rsign.
    destruct (Rlt_dec 0 0); [lra|]. destruct (Rlt_dec 0 0); [lra|reflexivity].
  - rewrite (Z.sgn_pos p H). apply IZR_lt in H. apply rsign_pos. now apply Rmult_lt_0_compat.
Qed.

Lemma non_integer_Q p q : (0 < q)%Z -> zis_int p q = false -> non_integer (IZR p / IZR q).
Proof.
  intros Hq Hm z E. assert (Hq' : 0 < IZR q) by (apply IZR_lt; exact Hq).
  assert (Ez : IZR p = IZR (z * q)) by (rewrite mult_IZR, <- E; field; lra).
  apply eq_IZR in Ez. unfold zis_int in Hm. apply Z.eqb_neq in Hm. apply Hm. subst p. apply Z.mod_mul. lia.
Qed.

Definition zrint (p q : Z) : Z :=
  let a := (2 * p + q)%Z in let b := (2 * q)%Z in let n := (a / b)%Z in
  if (a mod b =? 0)%Z then (if Z.even n then n else n - 1)%Z else n.

Lemma rrint_Q p q : (0 < q)%Z -> rrint (IZR p / IZR q) = IZR (zrint p q).
Proof.
  intros Hq. assert (Hq' : 0 < IZR q) by (apply IZR_lt; exact Hq). assert (Hb : (0 < 2 * q)%Z) by lia.
  assert (E : IZR p / IZR q + / 2 = IZR (2 * p + q) / IZR (2 * q)) by (rewrite plus_IZR, !mult_IZR; field; lra).
  unfold rrint, zrint. rewrite E.
  assert (EI : Int_part (IZR (2 * p + q) / IZR (2 * q)) = ((2 * p + q) / (2 * q))%Z).
  { apply eq_IZR. exact (rfloor_Q (2 * p + q) (2 * q) Hb). }
  rewrite EI. destruct (Z.eqb_spec ((2 * p + q) mod (2 * q)) 0) as [M|M].
  - assert (Ed : IZR (2 * p + q) / IZR (2 * q) = IZR ((2 * p + q) / (2 * q))).
    { pose proof (Z.div_mod (2 * p + q) (2 * q) ltac:(lia)) as D. rewrite M, Z.add_0_r in D.
      rewrite D at 1. rewrite mult_IZR. assert (0 < IZR (2 * q)) by (apply IZR_lt; exact Hb). field; lra. }
    destruct (Req_EM_T _ _) as [_|N]; [|tauto].
    destruct (Z.even _); [reflexivity|]. now rewrite minus_IZR.
  - destruct (Req_EM_T _ _) as [Y|_]; [|reflexivity].
    exfalso. apply (non_integer_Q (2 * p + q) (2 * q) Hb) with (z := ((2 * p + q) / (2 * q))%Z); [|exact Y].
    unfold zis_int. now apply Z.eqb_neq.
Qed.

Lemma not_half_integer_Q p q : (0 < q)%Z -> zis_int (2 * p + q) (2 * q) = false -> ~ half_integer (IZR p / IZR q).
Proof.
  intros Hq Hm [z Ez]. assert (Hq' : 0 < IZR q) by (apply IZR_lt; exact Hq).
  assert (E : IZR p / IZR q + / 2 = IZR (2 * p + q) / IZR (2 * q)) by (rewrite plus_IZR, !mult_IZR; field; lra).
  rewrite E in Ez. exact (non_integer_Q (2 * p + q) (2 * q) ltac:(lia) Hm z Ez).
Qed.

(* at a non-integer rational the derivative of x * floor x is the integer computed by zfloor *)
Corollary x_floor_x_Q p q : (0 < q)%Z -> zis_int p q = false ->
  is_derive (fun y => y * rfloor y) (IZR p / IZR q) (IZR (zfloor p q)).
Proof.
  intros Hq Hm. rewrite <- rfloor_Q by exact Hq. apply x_floor_x_differentiates_to_floor. now apply non_integer_Q.
Qed.
