(* Real-number meaning of the NumPy helpers that occur in the scalar rules. *)
From Coq Require Import Reals.
Local Open Scope R_scope.

(* anp.where(c, a, b) with a numeric condition: c != 0 selects a *)
Definition rwhere (c a b : R) : R := if Req_EM_T c 0 then b else a.
(* x == y and x != y as 0/1 values *)
Definition req (x y : R) : R := if Req_EM_T x y then 1 else 0.
Definition rneq (x y : R) : R := if Req_EM_T x y then 0 else 1.
(* a | b on 0/1 values *)
Definition ror (a b : R) : R := if Req_EM_T a 0 then (if Req_EM_T b 0 then 0 else 1) else 1.
(* anp.sign *)
Definition rsign (x : R) : R :=
  if Rlt_dec 0 x then 1 else if Rlt_dec x 0 then -1 else 0.
(* anp.floor *)
Definition rfloor (x : R) : R := IZR (Int_part x).

Lemma rwhere_nz c a b : c <> 0 -> rwhere c a b = a.
Proof. unfold rwhere. destruct (Req_EM_T c 0); tauto. Qed.
Lemma rwhere_z a b : rwhere 0 a b = b.
Proof. unfold rwhere. destruct (Req_EM_T 0 0); tauto. Qed.
Lemma ror_r a b : b <> 0 -> ror a b <> 0.
Proof. unfold ror. intros H. destruct (Req_EM_T a 0); [destruct (Req_EM_T b 0); [tauto|]|]; apply R1_neq_R0. Qed.
Lemma req_refl x : req x x = 1.
Proof. unfold req. destruct (Req_EM_T x x); tauto. Qed.
Lemma req_neq x y : x <> y -> req x y = 0.
Proof. unfold req. destruct (Req_EM_T x y); tauto. Qed.
Lemma rneq_neq x y : x <> y -> rneq x y = 1.
Proof. unfold rneq. destruct (Req_EM_T x y); tauto. Qed.
Lemma rneq_refl x : rneq x x = 0.
Proof. unfold rneq. destruct (Req_EM_T x x); tauto. Qed.
Lemma rsign_pos x : 0 < x -> rsign x = 1.
Proof. unfold rsign. destruct (Rlt_dec 0 x); tauto. Qed.
Lemma rsign_neg x : x < 0 -> rsign x = -1.
Proof.
  unfold rsign. intros H. destruct (Rlt_dec 0 x) as [H0|_]; [exfalso; apply (Rlt_asym _ _ H H0)|].
  destruct (Rlt_dec x 0); tauto.
Qed.
