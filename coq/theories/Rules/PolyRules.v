(* C09 / C01 for the polynomial primitives (add, subtract, multiply, negative, square), over ANY commutative ring - in
   particular over K[i] (Rules/ComplexRing.v), where the convention gives a holomorphic map the VJP g * f'(z)
   (Complex.holomorphic_vjp): the rule the translator reads off the source on this run (coq/gen/GenRingRules.v) is
   g times D, where D is the coefficient of h in the EXACT expansion  f(x + h) = f(x) + D h + R h^2.  The same for the
   forward rules. *)
From Coq Require Import Ring.
From AGGen Require Import GenRingRules.

Section Poly.
  Variable K : Type.
  Variables (k0 k1 : K) (kadd kmul ksub : K -> K -> K) (kopp : K -> K).
  Hypothesis Kring : ring_theory k0 k1 kadd kmul ksub kopp eq.
  Add Ring KRpr : Kring.
  Notation "x + y" := (kadd x y). Notation "x * y" := (kmul x y).
  Notation "x - y" := (ksub x y). Notation "- x" := (kopp x).
  Notation two := (k1 + k1).

  Lemma knat2 : knat K k0 k1 kadd 2 = two.
  Proof. simpl. ring. Qed.

  (* a rule is g times the derivative D of the map t |-> f t at x, with remainder R h^2 *)
  Definition is_rule (f : K -> K) (x D R : K) (rule jrule : K -> K) : Prop :=
    (forall h, f (x + h) = f x + D * h + R * (h * h)) /\ (forall g, rule g = g * D) /\ (forall g, jrule g = g * D).

  Theorem add_rules x y :
    is_rule (fun t => t + y) x k1 k0 (ring_vjp_add_0 K (x + y) x y) (fun g => ring_jvp_add_0 K g (x + y) x y)
    /\ is_rule (fun t => x + t) y k1 k0 (ring_vjp_add_1 K (x + y) x y) (fun g => ring_jvp_add_1 K g (x + y) x y).
  Proof. unfold is_rule, ring_vjp_add_0, ring_vjp_add_1, ring_jvp_add_0, ring_jvp_add_1. repeat split; intros; ring. Qed.

  Theorem subtract_rules x y :
    is_rule (fun t => t - y) x k1 k0 (ring_vjp_subtract_0 K (x - y) x y) (fun g => ring_jvp_subtract_0 K g (x - y) x y)
    /\ is_rule (fun t => x - t) y (- k1) k0 (ring_vjp_subtract_1 K kopp (x - y) x y) (fun g => ring_jvp_subtract_1 K kopp g (x - y) x y).
  Proof.
    unfold is_rule, ring_vjp_subtract_0, ring_vjp_subtract_1, ring_jvp_subtract_0, ring_jvp_subtract_1. repeat split; intros; ring.
  Qed.

  (* multiply is registered linear in forward mode (def_linear): its forward rule is the map itself applied to the tangent *)
  Theorem multiply_rules x y :
    is_rule (fun t => t * y) x y k0 (ring_vjp_multiply_0 K kmul (x * y) x y) (fun g => g * y)
    /\ is_rule (fun t => x * t) y x k0 (ring_vjp_multiply_1 K kmul (x * y) x y) (fun g => x * g).
  Proof. unfold is_rule, ring_vjp_multiply_0, ring_vjp_multiply_1. repeat split; intros; ring. Qed.

  Theorem negative_rule x :
    (forall h, - (x + h) = - x + (- k1) * h + k0 * (h * h)) /\ (forall g, ring_vjp_negative_0 K kopp (- x) x g = g * (- k1)).
  Proof. unfold ring_vjp_negative_0. split; intros; ring. Qed.

  Theorem square_rules x :
    is_rule (fun t => t * t) x (two * x) k1 (ring_vjp_square_0 K k0 k1 kadd kmul (x * x) x)
            (fun g => ring_jvp_square_0 K k0 k1 kadd kmul g (x * x) x).
  Proof.
    unfold is_rule, ring_vjp_square_0, ring_jvp_square_0. repeat split; intros; rewrite ?knat2; ring.
  Qed.

  (* exp and expm1: the rules are g times the value (resp. the value plus one) - which is the derivative by analysis (over
     the reals: Rules/ScalarRules.v); over any ring this is the shape of the rule *)
  Theorem exp_rule_shape ans x g :
    ring_vjp_exp_0 K kmul ans x g = g * ans /\ ring_jvp_exp_0 K kmul g ans x = g * ans
    /\ ring_vjp_expm1_0 K k0 k1 kadd kmul ans x g = g * (ans + k1) /\ ring_jvp_expm1_0 K k0 k1 kadd kmul g ans x = g * (ans + k1).
  Proof. unfold ring_vjp_exp_0, ring_jvp_exp_0, ring_vjp_expm1_0, ring_jvp_expm1_0. simpl. repeat split; ring. Qed.
End Poly.
