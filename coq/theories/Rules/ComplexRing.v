(* K[i] is a commutative ring whenever K is: the ring-generic theorems about selection and bilinear primitives
   (Array/Select.v, Array/Bilinear.v) therefore hold verbatim for complex arrays, and by Complex.holomorphic_vjp the
   ring-level rule  g |-> g * m  is what autograd's convention conj(J_R^T conj(g)) prescribes for the C-linear map
   z |-> m * z. *)
From Coq Require Import Ring List.
Import ListNotations.
From AG Require Import Complex.

Section CR.
  Variable K : Type.
  Variables (k0 k1 : K) (kadd kmul ksub : K -> K -> K) (kopp : K -> K).
  Hypothesis Kring : ring_theory k0 k1 kadd kmul ksub kopp eq.
  Add Ring KRcr : Kring.
  Notation C := (K * K)%type.
  Notation cmul := (Complex.cmul K kadd kmul ksub).

  Definition c0 : C := (k0, k0).
  Definition c1 : C := (k1, k0).
  Definition cadd (z w : C) : C := (kadd (fst z) (fst w), kadd (snd z) (snd w)).
  Definition csub (z w : C) : C := (ksub (fst z) (fst w), ksub (snd z) (snd w)).
  Definition copp (z : C) : C := (kopp (fst z), kopp (snd z)).
  Definition cre (z : C) : K := fst z.

  Lemma C_ring : ring_theory c0 c1 cadd cmul csub copp eq.
  Proof.
    constructor; intros; repeat match goal with z : C |- _ => destruct z end;
      unfold c0, c1, cadd, csub, copp, Complex.cmul; simpl; f_equal; ring.
  Qed.
End CR.
