(* C14, executable side: the piecewise-constant members at rationals, by integer arithmetic; evaluated with vm_compute in
   the correspondence run against NumPy's values and autograd's gradients of x * f(x) at floats (dyadic rationals). *)
From Coq Require Import Reals Lra Lia ZArith List Bool.
From AG Require Import RealPrelude PiecewiseConst NogradTie.
Import ListNotations.
Local Open Scope R_scope.

Definition zge (pc qc p q : Z) : Z := if (pc * q <=? p * qc)%Z then 1%Z else 0%Z.   (* p/q >= pc/qc *)
Definition zlt (pc qc p q : Z) : Z := if (p * qc <? pc * q)%Z then 1%Z else 0%Z.
Definition zle (pc qc p q : Z) : Z := if (p * qc <=? pc * q)%Z then 1%Z else 0%Z.
Definition zeq (pc qc p q : Z) : Z := if (p * qc =? pc * q)%Z then 1%Z else 0%Z.
Definition zne (pc qc p q : Z) : Z := if (p * qc =? pc * q)%Z then 0%Z else 1%Z.

Lemma Q_lt pc qc p q : (0 < qc)%Z -> (0 < q)%Z -> (IZR pc / IZR qc < IZR p / IZR q <-> (pc * q < p * qc)%Z).
Proof.
  intros Hc Hq. assert (0 < IZR qc) by (apply IZR_lt; exact Hc). assert (0 < IZR q) by (apply IZR_lt; exact Hq).
  assert (E : IZR p / IZR q - IZR pc / IZR qc = (IZR (p * qc) - IZR (pc * q)) / (IZR q * IZR qc)) by (rewrite !mult_IZR; field; lra).
  assert (P : 0 < / (IZR q * IZR qc)) by (apply Rinv_0_lt_compat; apply Rmult_lt_0_compat; assumption).
  split.
  - intros L. apply lt_IZR. assert (0 < (IZR (p * qc) - IZR (pc * q)) / (IZR q * IZR qc)) as G by (rewrite <- E; lra).
    unfold Rdiv in G. destruct (Rlt_dec (IZR (pc * q)) (IZR (p * qc))) as [Y|N]; [exact Y|].
    exfalso. assert ((IZR (p * qc) - IZR (pc * q)) * / (IZR q * IZR qc) <= 0 * / (IZR q * IZR qc)); [|lra].
    apply Rmult_le_compat_r; lra.
  - intros L. apply IZR_lt in L. assert (0 < (IZR (p * qc) - IZR (pc * q)) / (IZR q * IZR qc)); [|lra].
    unfold Rdiv. apply Rmult_lt_0_compat; lra.
Qed.

Lemma Q_eq pc qc p q : (0 < qc)%Z -> (0 < q)%Z -> (IZR p / IZR q = IZR pc / IZR qc <-> (p * qc = pc * q)%Z).
Proof.
  intros Hc Hq. pose proof (Q_lt pc qc p q Hc Hq) as L1. pose proof (Q_lt p q pc qc Hq Hc) as L2. split.
  - intros E. destruct (Z.lt_trichotomy (p * qc) (pc * q)) as [H|[H|H]]; [|exact H|].
    + apply L2 in H. lra.
    + apply L1 in H. lra.
  - intros E. destruct (Rtotal_order (IZR p / IZR q) (IZR pc / IZR qc)) as [H|[H|H]]; [|exact H|].
    + apply L2 in H. lia.
    + apply L1 in H. lia.
Qed.

Section Cmp.
  Variables (pc qc p q : Z).
  Hypotheses (Hc : (0 < qc)%Z) (Hq : (0 < q)%Z).
  Let c := IZR pc / IZR qc.
  Let x := IZR p / IZR q.

  Lemma rgt_Q : rgt c x = IZR (zgt pc qc p q).
  Proof.
    unfold rgt, zgt, c, x. pose proof (Q_lt pc qc p q Hc Hq) as L.
    destruct (Rlt_dec _ _) as [H|H]; destruct (Z.ltb_spec (pc * q) (p * qc)) as [G|G]; try reflexivity.
    - apply L in H. lia.
    - apply L in G. tauto.
  Qed.
  Lemma rlt_Q : rlt c x = IZR (zlt pc qc p q).
  Proof.
    unfold rlt, zlt, c, x. pose proof (Q_lt p q pc qc Hq Hc) as L.
    destruct (Rlt_dec _ _) as [H|H]; destruct (Z.ltb_spec (p * qc) (pc * q)) as [G|G]; try reflexivity.
    - apply L in H. lia.
    - apply L in G. tauto.
  Qed.
  Lemma rge_Q : rge c x = IZR (zge pc qc p q).
  Proof.
    unfold rge, zge, c, x. pose proof (Q_lt p q pc qc Hq Hc) as L.
    destruct (Rle_dec _ _) as [H|H]; destruct (Z.leb_spec (pc * q) (p * qc)) as [G|G]; try reflexivity.
    - apply L in G. lra.
    - exfalso. apply H. destruct (Rle_dec (IZR pc / IZR qc) (IZR p / IZR q)) as [Y|N]; [exact Y|].
      assert (IZR p / IZR q < IZR pc / IZR qc) as W by lra. apply L in W. lia.
  Qed.
  Lemma rle_Q : rle c x = IZR (zle pc qc p q).
  Proof.
    unfold rle, zle, c, x. pose proof (Q_lt pc qc p q Hc Hq) as L.
    destruct (Rle_dec _ _) as [H|H]; destruct (Z.leb_spec (p * qc) (pc * q)) as [G|G]; try reflexivity.
    - apply L in G. lra.
    - exfalso. apply H. destruct (Rle_dec (IZR p / IZR q) (IZR pc / IZR qc)) as [Y|N]; [exact Y|].
      assert (IZR pc / IZR qc < IZR p / IZR q) as W by lra. apply L in W. lia.
  Qed.
  Lemma req_Q : req c x = IZR (zeq pc qc p q).
  Proof.
    unfold req, zeq, c, x. pose proof (Q_eq pc qc p q Hc Hq) as L.
    destruct (Req_EM_T _ _) as [H|H]; destruct (Z.eqb_spec (p * qc) (pc * q)) as [G|G]; try reflexivity.
    - symmetry in H. apply L in H. tauto.
    - apply L in G. exfalso. apply H. now symmetry.
  Qed.
  Lemma rneq_Q : rneq c x = IZR (zne pc qc p q).
  Proof.
    unfold rneq, zne, c, x. pose proof (Q_eq pc qc p q Hc Hq) as L.
    destruct (Req_EM_T _ _) as [H|H]; destruct (Z.eqb_spec (p * qc) (pc * q)) as [G|G]; try reflexivity.
    - symmetry in H. apply L in H. tauto.
    - apply L in G. exfalso. apply H. now symmetry.
  Qed.
End Cmp.

(* code: 0 floor 1 ceil 2 trunc/fix 3 sign 4 > 5 >= 6 < 7 <= 8 == 9 != (the comparisons against the constant pc/qc) 10 rint/round/around 11 logical_not 12 isfinite/isreal 13.. isnan/isinf/isposinf/isneginf/iscomplex *)
Definition zmodel (code : nat) (pc qc p q : Z) : Z :=
  match code with
  | 0%nat => zfloor p q | 1%nat => zceil p q | 2%nat => ztrunc p q | 3%nat => zsign p
  | 4%nat => zgt pc qc p q | 5%nat => zge pc qc p q | 6%nat => zlt pc qc p q | 7%nat => zle pc qc p q
  | 8%nat => zeq pc qc p q | 9%nat => zne pc qc p q | 10%nat => zrint p q
  | 11%nat => zeq 0 1 p q | 12%nat => 1%Z | _ => 0%Z
  end.
Definition rmodel (code : nat) (c : R) : R -> R :=
  match code with
  | 0%nat => rfloor | 1%nat => rceil | 2%nat => rtrunc | 3%nat => rsign
  | 4%nat => rgt c | 5%nat => rge c | 6%nat => rlt c | 7%nat => rle c | 8%nat => req c | 9%nat => rneq c | 10%nat => rrint
  | 11%nat => req 0 | 12%nat => (fun _ => 1) | _ => (fun _ => 0)
  end.

Theorem zmodel_computes_rmodel code pc qc p q : (0 < qc)%Z -> (0 < q)%Z ->
  rmodel code (IZR pc / IZR qc) (IZR p / IZR q) = IZR (zmodel code pc qc p q).
Proof.
  intros Hc Hq. do 10 (destruct code as [|code]; [simpl; auto using rfloor_Q, rceil_Q, rtrunc_Q, rsign_Q, rgt_Q, rge_Q, rlt_Q, rle_Q, req_Q, rneq_Q|]).
  destruct code as [|code]; [simpl; now apply rrint_Q|].
  destruct code as [|code]; [simpl; replace 0 with (IZR 0 / IZR 1) at 1 by (simpl; field); apply req_Q; lia|].
  destruct code as [|code]; reflexivity.
Qed.

(* a case: the function, the constant of a comparison, the point, and what the implementation returned: the value of
   f(x) under tracing and the gradient of x * f(x).  0: both are the model's number; 2: the gradient is not f(x) (the
   flow is not blocked / not the frozen value); 1: NumPy's value differs from the model's *)
Definition check14pc (cs : nat * (Z * Z) * (Z * Z) * (Z * Z)) : nat :=
  let '(code, (pc, qc), (p, q), (v, g)) := cs in
  if ((q <=? 0) || (qc <=? 0))%Z then 1%nat
  else let m := zmodel code pc qc p q in
       if (v =? m)%Z then (if (g =? m)%Z then 0%nat else 2%nat) else 1%nat.
