(* C14: the functions autograd registers as non-differentiable are piecewise constant, and "no derivative flows through
   them" is the TRUE derivative wherever they are locally constant: floor/ceil/trunc away from the integers, sign away
   from 0, comparisons away from equality.  Any function of them is then locally constant too, a product g(y) * f(y)
   differentiates to g'(x) * f(x) (x * floor x to floor x, the example of the property), and in general a program
   h(y, f y) differentiates as if f y were the constant f x. *)
From Coq Require Import Reals Lra Lia ZArith.
From Coquelicot Require Import Coquelicot.
From AG Require Import RealPrelude.
Local Open Scope R_scope.

Definition locally_const (f : R -> R) (x : R) : Prop := locally x (fun y => f y = f x).

Definition rceil (x : R) : R := - rfloor (- x).
Definition rtrunc (x : R) : R := if Rle_dec 0 x then rfloor x else rceil x.
(* x > c, x >= c, x < c, x <= c as 0/1 values *)
Definition rgt (c x : R) : R := if Rlt_dec c x then 1 else 0.
Definition rge (c x : R) : R := if Rle_dec c x then 1 else 0.
Definition rlt (c x : R) : R := if Rlt_dec x c then 1 else 0.
Definition rle (c x : R) : R := if Rle_dec x c then 1 else 0.

Lemma ball_R (x : R) (eps : posreal) (y : R) : ball x eps y <-> Rabs (y - x) < eps.
Proof. unfold ball; simpl; unfold AbsRing_ball, abs, minus, plus, opp; simpl. tauto. Qed.

Lemma locally_interval (P : R -> Prop) (a b x : R) :
  a < x < b -> (forall y, a < y < b -> P y) -> locally x P.
Proof.
  intros [Ha Hb] H.
  pose proof (Rmin_l (x - a) (b - x)) as Hl. pose proof (Rmin_r (x - a) (b - x)) as Hr.
  assert (He : 0 < Rmin (x - a) (b - x)) by (apply Rmin_pos; lra).
  set (m := Rmin (x - a) (b - x)) in *.
  exists (mkposreal m He). intros y Hy. apply ball_R in Hy. simpl in Hy.
  apply H. apply Rabs_def2 in Hy. destruct Hy as [Hy1 Hy2]. unfold minus, plus, opp in Hy1, Hy2; simpl in Hy1, Hy2. split; lra.
Qed.

(* ---- derivative through a locally constant function ---- *)
Lemma locally_const_derive f x : locally_const f x -> is_derive f x 0.
Proof.
  intros H. apply (is_derive_ext_loc (fun _ => f x)); [|apply @is_derive_const].
  unfold locally_const in *. revert H. apply filter_imp. intros y E. symmetry. exact E.
Qed.

Lemma locally_const_comp (h : R -> R) f x : locally_const f x -> locally_const (fun y => h (f y)) x.
Proof. unfold locally_const. apply filter_imp. intros y E. now rewrite E. Qed.

Lemma locally_const_comp2 (h : R -> R -> R) f1 f2 x :
  locally_const f1 x -> locally_const f2 x -> locally_const (fun y => h (f1 y) (f2 y)) x.
Proof. unfold locally_const. intros H1 H2. generalize (filter_and _ _ H1 H2). apply filter_imp. intros y [E1 E2]. now rewrite E1, E2. Qed.

(* a program that uses its argument both directly and through a locally constant function differentiates as if the
   latter were the constant it evaluates to *)
Theorem derive_freezes_locally_const (h : R -> R -> R) f x l :
  locally_const f x -> is_derive (fun y => h y (f x)) x l -> is_derive (fun y => h y (f y)) x l.
Proof.
  intros H D. apply (is_derive_ext_loc (fun y => h y (f x))); [|exact D].
  unfold locally_const in *. revert H. apply filter_imp. intros y E. now rewrite E.
Qed.

Corollary derive_mul_locally_const g f x g' :
  locally_const f x -> is_derive g x g' -> is_derive (fun y => g y * f y) x (g' * f x).
Proof.
  intros H D. apply (derive_freezes_locally_const (fun y c => g y * c) f x); [exact H|].
  simpl. evar_last.
  - apply (is_derive_mult g (fun _ => f x) x g' 0 D); [apply @is_derive_const | intros n m; apply Rmult_comm].
  - unfold plus, mult; simpl. ring.
Qed.

Corollary derive_id_mul_locally_const f x : locally_const f x -> is_derive (fun y => y * f y) x (f x).
Proof.
  intros H. evar_last.
  - apply (derive_mul_locally_const (fun y => y) f x 1 H). apply @is_derive_id.
  - ring.
Qed.

(* ---- the members ---- *)
Lemma Int_part_interval (n : Z) (y : R) : IZR n <= y < IZR n + 1 -> Int_part y = n.
Proof.
  intros [H1 H2]. unfold Int_part.
  assert (E : (n + 1)%Z = up y) by (apply tech_up; rewrite plus_IZR; simpl; lra).
  rewrite <- E. ring.
Qed.

Definition non_integer (x : R) : Prop := forall z : Z, x <> IZR z.

Lemma rfloor_locally_const x : non_integer x -> locally_const rfloor x.
Proof.
  intros Hx. destruct (base_Int_part x) as [H1 H2]. pose proof (Hx (Int_part x)) as Hne.
  apply (locally_interval _ (IZR (Int_part x)) (IZR (Int_part x) + 1)); [lra|].
  intros y Hy. unfold rfloor. f_equal. apply Int_part_interval. lra.
Qed.

Lemma non_integer_opp x : non_integer x -> non_integer (- x).
Proof. intros H z E. apply (H (- z)%Z). rewrite opp_IZR, <- E. ring. Qed.

Lemma locally_opp (P : R -> Prop) x : locally (- x) P -> locally x (fun y => P (- y)).
Proof.
  intros [eps H]. exists eps. intros y Hy. apply H. apply ball_R. apply ball_R in Hy.
  replace (- y - - x) with (- (y - x)) by ring. now rewrite Rabs_Ropp.
Qed.

Lemma rceil_locally_const x : non_integer x -> locally_const rceil x.
Proof.
  intros Hx. pose proof (rfloor_locally_const (- x) (non_integer_opp x Hx)) as H.
  apply locally_opp in H. unfold locally_const in *. revert H. apply filter_imp. intros y E. unfold rceil. now rewrite E.
Qed.

Lemma rsign_locally_const x : x <> 0 -> locally_const rsign x.
Proof.
  intros Hx. destruct (Rlt_dec 0 x) as [Hp|Hn].
  - apply (locally_interval _ 0 (x + 1)); [lra|]. intros y Hy. now rewrite !rsign_pos by lra.
  - apply (locally_interval _ (x - 1) 0); [lra|]. intros y Hy. now rewrite !rsign_neg by lra.
Qed.

Lemma rtrunc_locally_const x : non_integer x -> locally_const rtrunc x.
Proof.
  intros Hx. assert (x <> 0) as H0 by (apply (Hx 0%Z)).
  destruct (Rlt_dec 0 x) as [Hp|Hn].
  - unfold locally_const. generalize (filter_and _ _ (rfloor_locally_const x Hx) (locally_interval (fun y => 0 < y) 0 (x + 1) x ltac:(lra) ltac:(intros; lra))).
    apply filter_imp. intros y [E Hy]. unfold rtrunc.
    destruct (Rle_dec 0 y); [|lra]. destruct (Rle_dec 0 x); [|lra]. exact E.
  - unfold locally_const. generalize (filter_and _ _ (rceil_locally_const x Hx) (locally_interval (fun y => y < 0) (x - 1) 0 x ltac:(lra) ltac:(intros; lra))).
    apply filter_imp. intros y [E Hy]. unfold rtrunc.
    destruct (Rle_dec 0 y); [lra|]. destruct (Rle_dec 0 x); [lra|]. exact E.
Qed.

Lemma cmp_locally_const (f : R -> R -> R) c x :
  (forall y, y < c -> f c y = f c (c - 1)) -> (forall y, c < y -> f c y = f c (c + 1)) -> x <> c -> locally_const (f c) x.
Proof.
  intros Hl Hr Hx. destruct (Rlt_dec x c) as [H|H].
  - apply (locally_interval _ (x - 1) c); [lra|]. intros y Hy. rewrite (Hl y), (Hl x) by lra. reflexivity.
  - apply (locally_interval _ c (x + 1)); [lra|]. intros y Hy. rewrite (Hr y), (Hr x) by lra. reflexivity.
Qed.

Lemma rgt_locally_const c x : x <> c -> locally_const (rgt c) x.
Proof. apply cmp_locally_const; intros y H; unfold rgt; repeat destruct (Rlt_dec _ _); try reflexivity; lra. Qed.
Lemma rge_locally_const c x : x <> c -> locally_const (rge c) x.
Proof. apply cmp_locally_const; intros y H; unfold rge; repeat destruct (Rle_dec _ _); try reflexivity; lra. Qed.
Lemma rlt_locally_const c x : x <> c -> locally_const (rlt c) x.
Proof. apply cmp_locally_const; intros y H; unfold rlt; repeat destruct (Rlt_dec _ _); try reflexivity; lra. Qed.
Lemma rle_locally_const c x : x <> c -> locally_const (rle c) x.
Proof. apply cmp_locally_const; intros y H; unfold rle; repeat destruct (Rle_dec _ _); try reflexivity; lra. Qed.
Lemma req_locally_const c x : x <> c -> locally_const (req c) x.
Proof.
  apply (cmp_locally_const req); intros y H; unfold req; repeat destruct (Req_EM_T _ _); try reflexivity; lra.
Qed.

(* anp.rint / anp.round / anp.around (decimals = 0): the nearest integer, ties to the even one *)
Definition rrint (x : R) : R :=
  let n := Int_part (x + / 2) in
  if Req_EM_T (x + / 2) (IZR n) then (if Z.even n then IZR n else IZR n - 1) else IZR n.
Definition half_integer (x : R) : Prop := exists z : Z, x + / 2 = IZR z.

Lemma rrint_between (n : Z) (y : R) : IZR n < y + / 2 < IZR n + 1 -> rrint y = IZR n.
Proof.
  intros H. unfold rrint. rewrite (Int_part_interval n (y + / 2)) by lra.
  destruct (Req_EM_T (y + / 2) (IZR n)); [lra|reflexivity].
Qed.

Lemma rrint_locally_const x : ~ half_integer x -> locally_const rrint x.
Proof.
  intros Hx. destruct (base_Int_part (x + / 2)) as [H1 H2]. set (n := Int_part (x + / 2)) in *.
  assert (Hne : x + / 2 <> IZR n) by (intros E; apply Hx; now exists n).
  apply (locally_interval _ (IZR n - / 2) (IZR n + / 2)); [lra|].
  intros y Hy. rewrite (rrint_between n y), (rrint_between n x) by lra. reflexivity.
Qed.

(* the property's own example, and its relatives *)
Theorem x_floor_x_differentiates_to_floor x : non_integer x -> is_derive (fun y => y * rfloor y) x (rfloor x).
Proof. intros H. apply derive_id_mul_locally_const, rfloor_locally_const, H. Qed.
Theorem x_ceil_x_differentiates_to_ceil x : non_integer x -> is_derive (fun y => y * rceil y) x (rceil x).
Proof. intros H. apply derive_id_mul_locally_const, rceil_locally_const, H. Qed.
Theorem x_sign_x_differentiates_to_sign x : x <> 0 -> is_derive (fun y => y * rsign y) x (rsign x).
Proof. intros H. apply derive_id_mul_locally_const, rsign_locally_const, H. Qed.

(* all the members at once: zero derivative, and frozen inside any program *)
Inductive pc_member : (R -> R) -> R -> Prop :=
| pc_floor x : non_integer x -> pc_member rfloor x
| pc_ceil x : non_integer x -> pc_member rceil x
| pc_trunc x : non_integer x -> pc_member rtrunc x
| pc_rint x : ~ half_integer x -> pc_member rrint x
| pc_sign x : x <> 0 -> pc_member rsign x
| pc_gt c x : x <> c -> pc_member (rgt c) x
| pc_ge c x : x <> c -> pc_member (rge c) x
| pc_lt c x : x <> c -> pc_member (rlt c) x
| pc_le c x : x <> c -> pc_member (rle c) x
| pc_eq c x : x <> c -> pc_member (req c) x.

Lemma pc_member_locally_const f x : pc_member f x -> locally_const f x.
Proof.
  intros [ ]; auto using rfloor_locally_const, rceil_locally_const, rtrunc_locally_const, rrint_locally_const, rsign_locally_const,
    rgt_locally_const, rge_locally_const, rlt_locally_const, rle_locally_const, req_locally_const.
Qed.

Theorem piecewise_constant_blocks_flow f x :
  pc_member f x ->
  is_derive f x 0
  /\ (forall h : R -> R, is_derive (fun y => h (f y)) x 0)
  /\ (forall (h : R -> R -> R) l, is_derive (fun y => h y (f x)) x l -> is_derive (fun y => h y (f y)) x l)
  /\ is_derive (fun y => y * f y) x (f x).
Proof.
  intros M. pose proof (pc_member_locally_const f x M) as H. split; [|split; [|split]].
  - now apply locally_const_derive.
  - intros h. apply locally_const_derive. now apply locally_const_comp.
  - intros h l. now apply derive_freezes_locally_const.
  - now apply derive_id_mul_locally_const.
Qed.

(* non-vacuity: 2.5 is not an integer; the derivative of x * floor x there is 2 *)
Lemma non_integer_2_5 : non_integer (5 / 2).
Proof.
  intros z E. assert (H : IZR (2 * z) = 5) by (rewrite mult_IZR, <- E; simpl; field).
  apply eq_IZR in H. lia.
Qed.
Example x_floor_x_at_2_5 : is_derive (fun y => y * rfloor y) (5 / 2) 2.
Proof.
  replace 2 with (rfloor (5 / 2)) at 2.
  - apply x_floor_x_differentiates_to_floor, non_integer_2_5.
  - unfold rfloor. f_equal. apply (Int_part_interval 2). simpl. lra.
Qed.
