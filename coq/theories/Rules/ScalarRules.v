(* L3: every translated ufunc-style rule of numpy_vjps.py / numpy_jvps.py
   (coq/gen/GenRules.v, regenerated from /repo on every run) is the true
   derivative of the real function its primitive denotes, at every point of the
   stated (open) domain, and is linear in the cotangent / tangent. *)
From Coq Require Import Reals Lra Lia.
From Coquelicot Require Import Coquelicot.
From AG Require Import RealPrelude.
From AGGen Require Import GenRules.
Local Open Scope R_scope.

(* rule r (ans x g) for a unary primitive f on the open domain D:
   r (f x) x 1 is f'(x), and r is homogeneous in g *)
Definition exact1 (f : R -> R) (D : R -> Prop) (r : R -> R -> R -> R) : Prop :=
  forall x g, D x -> is_derive f x (r (f x) x 1) /\ r (f x) x g = g * r (f x) x 1.

(* rule r (ans x y g) for argument k of a binary primitive *)
Definition exact2_0 (f : R -> R -> R) (D : R -> R -> Prop) (r : R -> R -> R -> R -> R) : Prop :=
  forall x y g, D x y ->
    is_derive (fun t => f t y) x (r (f x y) x y 1) /\ r (f x y) x y g = g * r (f x y) x y 1.
Definition exact2_1 (f : R -> R -> R) (D : R -> R -> Prop) (r : R -> R -> R -> R -> R) : Prop :=
  forall x y g, D x y ->
    is_derive (fun t => f x t) y (r (f x y) x y 1) /\ r (f x y) x y g = g * r (f x y) x y 1.

(* forward-mode rules take (g ans x ...) *)
Definition flip1 (j : R -> R -> R -> R) : R -> R -> R -> R := fun ans x g => j g ans x.
Definition flip2 (j : R -> R -> R -> R -> R) : R -> R -> R -> R -> R := fun ans x y g => j g ans x y.

Definition all_R (x : R) : Prop := True.
Definition all_R2 (x y : R) : Prop := True.

(* ---- what the primitives denote ---- *)
Definition f_negative x := - x.
Definition f_reciprocal x := / x.
Definition f_exp2 x := exp (x * ln 2).
Definition f_expm1 x := exp x - 1.
Definition f_log2 x := ln x / ln 2.
Definition f_log10 x := ln x / ln 10.
Definition f_log1p x := ln (1 + x).
Definition f_tan x := sin x / cos x.
Definition f_sinh x := (exp x - exp (- x)) / 2.
Definition f_cosh x := (exp x + exp (- x)) / 2.
Definition f_tanh x := f_sinh x / f_cosh x.
Definition f_arcsinh x := ln (x + sqrt (x ^ 2 + 1)).
Definition f_arccosh x := ln (x + sqrt (x ^ 2 - 1)).
Definition f_arctanh x := / 2 * ln ((1 + x) / (1 - x)).
Definition f_rad2deg x := x * 180 / PI.
Definition f_deg2rad x := x * PI / 180.
Definition f_square x := x ^ 2.
Definition f_sinc x := sin (PI * x) / (PI * x).
Definition f_add (x y : R) := x + y.
Definition f_sub (x y : R) := x - y.
Definition f_mul (x y : R) := x * y.
Definition f_div (x y : R) := x / y.
Definition f_logaddexp x y := ln (exp x + exp y).
Definition f_logaddexp2 x y := ln (exp (x * ln 2) + exp (y * ln 2)) / ln 2.
Definition f_arctan2 x y := atan (x / y).          (* on the half plane y > 0 *)
Definition f_hypot x y := sqrt (x ^ 2 + y ^ 2).
Definition f_power x y := exp (y * ln x).          (* x > 0 *)

Lemma sinh_def x : sinh x = f_sinh x. Proof. reflexivity. Qed.
Lemma cosh_def x : cosh x = f_cosh x. Proof. reflexivity. Qed.

Lemma ln2_pos : 0 < ln 2.
Proof. rewrite <- ln_1. apply ln_increasing; lra. Qed.
Lemma ln10_pos : 0 < ln 10.
Proof. rewrite <- ln_1. apply ln_increasing; lra. Qed.
Lemma PI_nz : PI <> 0.
Proof. pose proof PI_RGT_0. lra. Qed.
Lemma cosh_pos x : 0 < f_cosh x.
Proof. unfold f_cosh. pose proof (exp_pos x). pose proof (exp_pos (- x)). lra. Qed.

Ltac unf := unfold exact1, exact2_0, exact2_1, flip1, flip2, all_R, all_R2;
            unfold f_negative, f_reciprocal, f_exp2, f_expm1, f_log2, f_log10, f_log1p, f_tan,
                   f_tanh, f_sinh, f_cosh, f_arcsinh, f_arccosh, f_arctanh, f_rad2deg, f_deg2rad,
                   f_square, f_sinc, f_add, f_sub, f_mul, f_div, f_logaddexp, f_logaddexp2,
                   f_arctan2, f_hypot, f_power.

Ltac side :=
  repeat split; trivial; try assumption; try lra;
  try (apply pow_nonzero; assumption); try nra.
Ltac lin := first [ring | field; side].
(* derivative goal after the rule has been unfolded *)
Ltac der := auto_derive; [side | first [ring | field; side | field_simplify_eq; [ring | side]]].

(* ======================= reverse mode, unary ======================= *)
Lemma r_negative : exact1 f_negative all_R vjp_negative_0.
Proof. unf. intros x g _. unfold vjp_negative_0. split; [der|lin]. Qed.
Lemma r_reciprocal : exact1 f_reciprocal (fun x => x <> 0) vjp_reciprocal_0.
Proof. unf. intros x g H. unfold vjp_reciprocal_0. split; [der|lin]. Qed.
Lemma r_exp : exact1 exp all_R vjp_exp_0.
Proof. unf. intros x g _. unfold vjp_exp_0. split; [der|lin]. Qed.
Lemma r_exp2 : exact1 f_exp2 all_R vjp_exp2_0.
Proof. unf. intros x g _. unfold vjp_exp2_0. split; [der|lin]. Qed.
Lemma r_expm1 : exact1 f_expm1 all_R vjp_expm1_0.
Proof. unf. intros x g _. unfold vjp_expm1_0. split; [der|lin]. Qed.
Lemma r_log : exact1 ln (fun x => 0 < x) vjp_log_0.
Proof. unf. intros x g H. unfold vjp_log_0. split; [der|lin]. Qed.
Lemma r_log2 : exact1 f_log2 (fun x => 0 < x) vjp_log2_0.
Proof.
  unf. intros x g H. unfold vjp_log2_0. pose proof ln2_pos.
  split; [der|lin].
Qed.
Lemma r_log10 : exact1 f_log10 (fun x => 0 < x) vjp_log10_0.
Proof.
  unf. intros x g H. unfold vjp_log10_0. pose proof ln10_pos.
  split; [der|lin].
Qed.
Lemma r_log1p : exact1 f_log1p (fun x => -1 < x) vjp_log1p_0.
Proof. unf. intros x g H. unfold vjp_log1p_0. split; [der|lin]. Qed.
Lemma r_sin : exact1 sin all_R vjp_sin_0.
Proof. unf. intros x g _. unfold vjp_sin_0. split; [der|lin]. Qed.
Lemma r_cos : exact1 cos all_R vjp_cos_0.
Proof. unf. intros x g _. unfold vjp_cos_0. split; [der|lin]. Qed.
Lemma r_tan : exact1 f_tan (fun x => cos x <> 0) vjp_tan_0.
Proof.
  unf. intros x g H. unfold vjp_tan_0. split; [|lin].
  auto_derive; [side|]. field_simplify_eq; [|side].
  pose proof (sin2_cos2 x) as E. unfold Rsqr in E. nra.
Qed.
Lemma r_arctan : exact1 atan all_R vjp_arctan_0.
Proof.
  unf. intros x g _. unfold vjp_arctan_0.
  assert (1 + x ^ 2 <> 0) by nra.
  split; [der|lin].
Qed.
Lemma r_sinh : exact1 f_sinh all_R vjp_sinh_0.
Proof.
  unf. intros x g _. unfold vjp_sinh_0. rewrite cosh_def. unfold f_cosh.
  split; [der|lin].
Qed.
Lemma r_cosh : exact1 f_cosh all_R vjp_cosh_0.
Proof.
  unf. intros x g _. unfold vjp_cosh_0. rewrite sinh_def. unfold f_sinh.
  split; [der|lin].
Qed.
Lemma r_tanh : exact1 f_tanh all_R vjp_tanh_0.
Proof.
  unf. intros x g _. unfold vjp_tanh_0. rewrite cosh_def. unfold f_cosh.
  pose proof (exp_pos x). pose proof (exp_pos (- x)).
  assert (Hn : exp x + exp (- x) <> 0) by lra.
  split; [|lin].
  auto_derive; [side|]. field_simplify_eq; [|side].
  assert (E : exp x * exp (- x) = 1) by (rewrite <- exp_plus; replace (x + - x) with 0 by ring; apply exp_0).
  nra.
Qed.
Lemma r_rad2deg : exact1 f_rad2deg all_R vjp_rad2deg_0.
Proof. unf. intros x g _. unfold vjp_rad2deg_0. pose proof PI_nz. split; [der|lin]. Qed.
Lemma r_degrees : exact1 f_rad2deg all_R vjp_degrees_0.
Proof. unf. intros x g _. unfold vjp_degrees_0. pose proof PI_nz. split; [der|lin]. Qed.
Lemma r_deg2rad : exact1 f_deg2rad all_R vjp_deg2rad_0.
Proof. unf. intros x g _. unfold vjp_deg2rad_0. split; [der|lin]. Qed.
Lemma r_radians : exact1 f_deg2rad all_R vjp_radians_0.
Proof. unf. intros x g _. unfold vjp_radians_0. split; [der|lin]. Qed.
Lemma r_square : exact1 f_square all_R vjp_square_0.
Proof. unf. intros x g _. unfold vjp_square_0. split; [der|lin]. Qed.
Lemma r_sqrt : exact1 sqrt (fun x => 0 < x) vjp_sqrt_0.
Proof.
  unf. intros x g H. unfold vjp_sqrt_0.
  assert (sqrt x <> 0) by (pose proof (sqrt_lt_R0 x H); lra).
  split; [der|lin].
Qed.
Lemma r_sinc : exact1 f_sinc (fun x => x <> 0) vjp_sinc_0.
Proof.
  unf. intros x g H. unfold vjp_sinc_0. rewrite (req_neq x 0 H), rwhere_z, (rwhere_nz x x 1 H). pose proof PI_nz.
  assert (PI * x <> 0) by (apply Rmult_integral_contrapositive_currified; assumption).
  split; [der|lin].
Qed.
Lemma r_arcsinh : exact1 f_arcsinh all_R vjp_arcsinh_0.
Proof.
  unf. intros x g _. unfold vjp_arcsinh_0.
  assert (Hp : 0 < x ^ 2 + 1) by nra.
  assert (Hs : 0 < sqrt (x ^ 2 + 1)) by now apply sqrt_lt_R0.
  assert (Hx : 0 < x + sqrt (x ^ 2 + 1)).
  { assert (Rabs x < sqrt (x ^ 2 + 1)).
    { rewrite <- sqrt_Rsqr_abs. apply sqrt_lt_1; unfold Rsqr; nra. }
    unfold Rabs in *. destruct (Rcase_abs x); lra. }
  split; [|field; lra].
  auto_derive.
  - replace (x * (x * 1)) with (x ^ 2) by ring. side.
  - replace (x * (x * 1)) with (x ^ 2) by ring. field_simplify_eq; [ring|side].
Qed.
Lemma r_abs : exact1 Rabs (fun x => x <> 0) vjp_abs_0.
Proof.
  unf. intros x g H. unfold vjp_abs_0.
  assert (Ha : Rabs x <> 0) by now apply Rabs_no_R0.
  rewrite !rwhere_nz by assumption. split; [|field; assumption].
  destruct (Rlt_dec 0 x) as [Hp|Hn].
  - apply (is_derive_ext_loc (fun t => t)).
    + exists (mkposreal x Hp). intros t Ht. unfold ball in Ht. simpl in Ht.
      unfold AbsRing_ball, abs, minus, plus, opp in Ht. simpl in Ht.
      symmetry. apply Rabs_pos_eq. unfold Rabs in Ht. destruct (Rcase_abs (t + - x)); lra.
    + rewrite Rabs_pos_eq by lra. auto_derive; [trivial|field; lra].
  - assert (Hneg : x < 0) by lra.
    assert (Hm : 0 < - x) by lra.
    apply (is_derive_ext_loc (fun t => - t)).
    + exists (mkposreal (- x) Hm). intros t Ht. unfold ball in Ht. simpl in Ht.
      unfold AbsRing_ball, abs, minus, plus, opp in Ht. simpl in Ht.
      symmetry. apply Rabs_left. unfold Rabs in Ht. destruct (Rcase_abs (t + - x)); lra.
    + rewrite (Rabs_left x) by lra. auto_derive; [trivial|field; lra].
Qed.

Lemma r_fabs : exact1 Rabs (fun x => x <> 0) vjp_fabs_0.
Proof.
  intros x g H. destruct (r_abs x g H) as [D _]. unfold vjp_fabs_0. unfold vjp_abs_0 in D.
  assert (Ha : Rabs x <> 0) by now apply Rabs_no_R0.
  rewrite !rwhere_nz in D by assumption.
  assert (E : rsign x * 1 = 1 * x / Rabs x).
  { destruct (Rlt_dec 0 x) as [Hp|Hn].
    - rewrite rsign_pos, Rabs_pos_eq by lra. field; lra.
    - assert (x < 0) by lra. rewrite rsign_neg, Rabs_left by lra. field; lra. }
  split; [now rewrite E|ring].
Qed.
Lemma r_absolute : exact1 Rabs (fun x => x <> 0) vjp_absolute_0.
Proof. intros x g H. exact (r_abs x g H). Qed.

Lemma is_derive_asin x : -1 < x < 1 -> is_derive asin x (1 / sqrt (1 - x ^ 2)).
Proof.
  intros H. apply is_derive_Reals. apply (derive_pt_eq_1 asin x _ (derivable_pt_asin x H)).
  rewrite derive_pt_asin. unfold Rsqr. replace (x * x) with (x ^ 2) by ring. reflexivity.
Qed.
Lemma r_arcsin : exact1 asin (fun x => -1 < x < 1) vjp_arcsin_0.
Proof.
  unf. intros x g H. unfold vjp_arcsin_0.
  assert (0 < 1 - x ^ 2) by nra. assert (sqrt (1 - x ^ 2) <> 0) by (pose proof (sqrt_lt_R0 _ H0); lra).
  split; [apply is_derive_asin; assumption|field; assumption].
Qed.
Lemma is_derive_acos x : -1 < x < 1 -> is_derive acos x (- 1 / sqrt (1 - x ^ 2)).
Proof.
  intros H. apply is_derive_Reals. apply (derive_pt_eq_1 acos x _ (derivable_pt_acos x H)).
  rewrite derive_pt_acos. unfold Rsqr. replace (x * x) with (x ^ 2) by ring.
  assert (0 < 1 - x ^ 2) by nra. pose proof (sqrt_lt_R0 _ H0). field; lra.
Qed.
Lemma r_arccos : exact1 acos (fun x => -1 < x < 1) vjp_arccos_0.
Proof.
  unf. intros x g H. unfold vjp_arccos_0.
  assert (0 < 1 - x ^ 2) by nra. assert (sqrt (1 - x ^ 2) <> 0) by (pose proof (sqrt_lt_R0 _ H0); lra).
  split; [apply is_derive_acos; assumption|field; assumption].
Qed.
Lemma r_arctanh : exact1 f_arctanh (fun x => -1 < x < 1) vjp_arctanh_0.
Proof.
  unf. intros x g H. unfold vjp_arctanh_0.
  assert (1 - x <> 0) by lra. assert (1 + x <> 0) by lra. assert (1 - x ^ 2 <> 0) by nra.
  assert (0 < (1 + x) / (1 - x)) by (apply Rdiv_lt_0_compat; lra).
  split; [|field; assumption].
  auto_derive; [side|]. field_simplify_eq; [ring|side].
Qed.
Lemma r_arccosh : exact1 f_arccosh (fun x => 1 < x) vjp_arccosh_0.
Proof.
  unf. intros x g H. unfold vjp_arccosh_0.
  assert (Hp : 0 < x ^ 2 - 1) by nra.
  assert (Hs : 0 < sqrt (x ^ 2 - 1)) by now apply sqrt_lt_R0.
  split; [|field; lra].
  auto_derive.
  - replace (x * (x * 1) + - (1)) with (x ^ 2 - 1) by ring. side.
  - replace (x * (x * 1) + - (1)) with (x ^ 2 - 1) by ring. field_simplify_eq; [ring|side].
Qed.

(* ======================= reverse mode, binary ======================= *)
Lemma r_add_0 : exact2_0 f_add all_R2 vjp_add_0.
Proof. unf. intros x y g _. unfold vjp_add_0. split; [der|lin]. Qed.
Lemma r_add_1 : exact2_1 f_add all_R2 vjp_add_1.
Proof. unf. intros x y g _. unfold vjp_add_1. split; [der|lin]. Qed.
Lemma r_subtract_0 : exact2_0 f_sub all_R2 vjp_subtract_0.
Proof. unf. intros x y g _. unfold vjp_subtract_0. split; [der|lin]. Qed.
Lemma r_subtract_1 : exact2_1 f_sub all_R2 vjp_subtract_1.
Proof. unf. intros x y g _. unfold vjp_subtract_1. split; [der|lin]. Qed.
Lemma r_multiply_0 : exact2_0 f_mul all_R2 vjp_multiply_0.
Proof. unf. intros x y g _. unfold vjp_multiply_0. split; [der|lin]. Qed.
Lemma r_multiply_1 : exact2_1 f_mul all_R2 vjp_multiply_1.
Proof. unf. intros x y g _. unfold vjp_multiply_1. split; [der|lin]. Qed.
Lemma r_divide_0 : exact2_0 f_div (fun x y => y <> 0) vjp_divide_0.
Proof. unf. intros x y g H. unfold vjp_divide_0. split; [der|lin]. Qed.
Lemma r_divide_1 : exact2_1 f_div (fun x y => y <> 0) vjp_divide_1.
Proof. unf. intros x y g H. unfold vjp_divide_1. split; [der|lin]. Qed.
Lemma r_true_divide_0 : exact2_0 f_div (fun x y => y <> 0) vjp_true_divide_0.
Proof. unf. intros x y g H. unfold vjp_true_divide_0. split; [der|lin]. Qed.
Lemma r_true_divide_1 : exact2_1 f_div (fun x y => y <> 0) vjp_true_divide_1.
Proof. unf. intros x y g H. unfold vjp_true_divide_1. split; [der|lin]. Qed.

Lemma exp_sum_pos a b : 0 < exp a + exp b.
Proof. pose proof (exp_pos a). pose proof (exp_pos b). lra. Qed.

Lemma r_logaddexp_0 : exact2_0 f_logaddexp all_R2 vjp_logaddexp_0.
Proof.
  unf. intros x y g _. unfold vjp_logaddexp_0. pose proof (exp_sum_pos x y) as Hs.
  split; [|lin]. auto_derive; [side|].
  unfold Rminus. rewrite exp_plus, exp_Ropp, exp_ln by assumption. field; lra.
Qed.
Lemma r_logaddexp_1 : exact2_1 f_logaddexp all_R2 vjp_logaddexp_1.
Proof.
  unf. intros x y g _. unfold vjp_logaddexp_1. pose proof (exp_sum_pos x y) as Hs.
  split; [|lin]. auto_derive; [side|].
  unfold Rminus. rewrite exp_plus, exp_Ropp, exp_ln by assumption. field; lra.
Qed.
Lemma r_arctan2_0 : exact2_0 f_arctan2 (fun x y => 0 < y) vjp_arctan2_0.
Proof.
  unf. intros x y g H. unfold vjp_arctan2_0. assert (x ^ 2 + y ^ 2 <> 0) by nra.
  split; [|lin]. auto_derive; [side|]. field; split; [nra|lra].
Qed.
Lemma r_arctan2_1 : exact2_1 f_arctan2 (fun x y => 0 < y) vjp_arctan2_1.
Proof.
  unf. intros x y g H. unfold vjp_arctan2_1. assert (x ^ 2 + y ^ 2 <> 0) by nra.
  split; [|lin]. auto_derive; [side|]. field; split; [nra|lra].
Qed.
Lemma r_hypot_0 : exact2_0 f_hypot (fun x y => 0 < x ^ 2 + y ^ 2) vjp_hypot_0.
Proof.
  unf. intros x y g H. unfold vjp_hypot_0.
  assert (Hs : 0 < sqrt (x ^ 2 + y ^ 2)) by now apply sqrt_lt_R0.
  split; [|field; lra]. auto_derive.
  - replace (x * (x * 1)) with (x ^ 2) by ring. replace (y * (y * 1)) with (y ^ 2) by ring. side.
  - replace (x * (x * 1)) with (x ^ 2) by ring. replace (y * (y * 1)) with (y ^ 2) by ring.
    field; lra.
Qed.
Lemma r_hypot_1 : exact2_1 f_hypot (fun x y => 0 < x ^ 2 + y ^ 2) vjp_hypot_1.
Proof.
  unf. intros x y g H. unfold vjp_hypot_1.
  assert (Hs : 0 < sqrt (x ^ 2 + y ^ 2)) by now apply sqrt_lt_R0.
  split; [|field; lra]. auto_derive.
  - replace (x * (x * 1)) with (x ^ 2) by ring. replace (y * (y * 1)) with (y ^ 2) by ring. side.
  - replace (x * (x * 1)) with (x ^ 2) by ring. replace (y * (y * 1)) with (y ^ 2) by ring.
    field; lra.
Qed.
(* x ** y on x > 0, every exponent (the rule swaps the exponent for a constant only at x = 0 = y) *)
Lemma r_power_0 : exact2_0 f_power (fun x y => 0 < x) vjp_power_0.
Proof.
  unf. intros x y g Hx. unfold vjp_power_0.
  rewrite rwhere_nz by (apply ror_r; rewrite rneq_neq by lra; apply R1_neq_R0).
  split; [|lin]. auto_derive; [side|]. unfold Rpower.
  replace ((y - 1) * ln x) with (y * ln x + - ln x) by ring.
  rewrite exp_plus, exp_Ropp, exp_ln by assumption. field; lra.
Qed.
Lemma r_power_1 : exact2_1 f_power (fun x y => 0 < x) vjp_power_1.
Proof.
  unf. intros x y g Hx. unfold vjp_power_1. rewrite rwhere_nz by lra.
  split; [der|lin].
Qed.
(* maximum / minimum away from ties, and the value at a tie *)
Lemma is_derive_loc_eq (f h : R -> R) x l (d : posreal) :
  (forall t, Rabs (t - x) < d -> h t = f t) -> is_derive h x l -> is_derive f x l.
Proof.
  intros He Hd. apply (is_derive_ext_loc h); [|assumption].
  exists d. intros t Ht. apply He. exact Ht.
Qed.
Lemma r_maximum_gt : forall x y, y < x ->
    is_derive (fun t => Rmax t y) x (vjp_maximum_0 (Rmax x y) x y 1)
    /\ is_derive (fun t => Rmax x t) y (vjp_maximum_1 (Rmax x y) x y 1).
Proof.
  intros x y H. unfold vjp_maximum_0, vjp_maximum_1.
  assert (Hd : 0 < (x - y) / 2) by lra.
  rewrite Rmax_left by lra. rewrite req_refl, !req_neq by lra. split.
  - apply (is_derive_loc_eq _ (fun t => t) x _ (mkposreal _ Hd)).
    + intros t Ht. simpl in Ht. rewrite Rmax_left; [reflexivity|].
      unfold Rabs in Ht. destruct (Rcase_abs (t - x)); lra.
    + auto_derive; [trivial|field].
  - apply (is_derive_loc_eq _ (fun t => x) y _ (mkposreal _ Hd)).
    + intros t Ht. simpl in Ht. rewrite Rmax_left; [reflexivity|].
      unfold Rabs in Ht. destruct (Rcase_abs (t - y)); lra.
    + auto_derive; [trivial|field].
Qed.
(* at a tie the rule gives 1/2 to each argument: a convex combination of the
   one-sided derivatives 0 and 1 *)
Lemma r_maximum_tie x g :
  vjp_maximum_0 (Rmax x x) x x g = g / 2 /\ vjp_maximum_1 (Rmax x x) x x g = g / 2.
Proof.
  unfold vjp_maximum_0, vjp_maximum_1. rewrite Rmax_left by lra. rewrite !req_refl. split; field.
Qed.

(* ======================= forward mode ======================= *)
Lemma exact1_ext f D (r r' : R -> R -> R -> R) :
  (forall a x g, r' a x g = r a x g) -> exact1 f D r -> exact1 f D r'.
Proof. intros E H x g Hd. destruct (H x g Hd) as [H1 H2]. rewrite !E. auto. Qed.
Lemma exact2_0_ext f D (r r' : R -> R -> R -> R -> R) :
  (forall a x y g, r' a x y g = r a x y g) -> exact2_0 f D r -> exact2_0 f D r'.
Proof. intros E H x y g Hd. destruct (H x y g Hd) as [H1 H2]. rewrite !E. auto. Qed.
Lemma exact2_1_ext f D (r r' : R -> R -> R -> R -> R) :
  (forall a x y g, r' a x y g = r a x y g) -> exact2_1 f D r -> exact2_1 f D r'.
Proof. intros E H x y g Hd. destruct (H x y g Hd) as [H1 H2]. rewrite !E. auto. Qed.

(* the forward rule has the same body as the reverse rule, up to ring / field rewriting of the generated expressions *)
Ltac same_body := intros; unfold flip1, flip2;
  first [reflexivity | ring | autounfold with genrules; first [reflexivity | ring | field; side]].

Lemma j_reciprocal : exact1 f_reciprocal (fun x => x <> 0) (flip1 jvp_reciprocal_0).
Proof. apply (exact1_ext _ _ vjp_reciprocal_0); [same_body|exact r_reciprocal]. Qed.
Lemma j_exp : exact1 exp all_R (flip1 jvp_exp_0).
Proof. apply (exact1_ext _ _ vjp_exp_0); [same_body|exact r_exp]. Qed.
Lemma j_exp2 : exact1 f_exp2 all_R (flip1 jvp_exp2_0).
Proof. apply (exact1_ext _ _ vjp_exp2_0); [same_body|exact r_exp2]. Qed.
Lemma j_expm1 : exact1 f_expm1 all_R (flip1 jvp_expm1_0).
Proof. apply (exact1_ext _ _ vjp_expm1_0); [same_body|exact r_expm1]. Qed.
Lemma j_log : exact1 ln (fun x => 0 < x) (flip1 jvp_log_0).
Proof. apply (exact1_ext _ _ vjp_log_0); [same_body|exact r_log]. Qed.
Lemma j_log2 : exact1 f_log2 (fun x => 0 < x) (flip1 jvp_log2_0).
Proof. apply (exact1_ext _ _ vjp_log2_0); [same_body|exact r_log2]. Qed.
Lemma j_log10 : exact1 f_log10 (fun x => 0 < x) (flip1 jvp_log10_0).
Proof. apply (exact1_ext _ _ vjp_log10_0); [same_body|exact r_log10]. Qed.
Lemma j_log1p : exact1 f_log1p (fun x => -1 < x) (flip1 jvp_log1p_0).
Proof. apply (exact1_ext _ _ vjp_log1p_0); [same_body|exact r_log1p]. Qed.
Lemma j_sin : exact1 sin all_R (flip1 jvp_sin_0).
Proof. apply (exact1_ext _ _ vjp_sin_0); [same_body|exact r_sin]. Qed.
Lemma j_cos : exact1 cos all_R (flip1 jvp_cos_0).
Proof. apply (exact1_ext _ _ vjp_cos_0); [same_body|exact r_cos]. Qed.
Lemma j_tan : exact1 f_tan (fun x => cos x <> 0) (flip1 jvp_tan_0).
Proof. apply (exact1_ext _ _ vjp_tan_0); [same_body|exact r_tan]. Qed.
Lemma j_arcsin : exact1 asin (fun x => -1 < x < 1) (flip1 jvp_arcsin_0).
Proof. apply (exact1_ext _ _ vjp_arcsin_0); [same_body|exact r_arcsin]. Qed.
Lemma j_arccos : exact1 acos (fun x => -1 < x < 1) (flip1 jvp_arccos_0).
Proof. apply (exact1_ext _ _ vjp_arccos_0); [same_body|exact r_arccos]. Qed.
Lemma j_arctan : exact1 atan all_R (flip1 jvp_arctan_0).
Proof. apply (exact1_ext _ _ vjp_arctan_0); [same_body|exact r_arctan]. Qed.
Lemma j_sinh : exact1 f_sinh all_R (flip1 jvp_sinh_0).
Proof. apply (exact1_ext _ _ vjp_sinh_0); [same_body|exact r_sinh]. Qed.
Lemma j_cosh : exact1 f_cosh all_R (flip1 jvp_cosh_0).
Proof. apply (exact1_ext _ _ vjp_cosh_0); [same_body|exact r_cosh]. Qed.
Lemma j_tanh : exact1 f_tanh all_R (flip1 jvp_tanh_0).
Proof. apply (exact1_ext _ _ vjp_tanh_0); [same_body|exact r_tanh]. Qed.
Lemma j_arcsinh : exact1 f_arcsinh all_R (flip1 jvp_arcsinh_0).
Proof. apply (exact1_ext _ _ vjp_arcsinh_0); [same_body|exact r_arcsinh]. Qed.
Lemma j_arccosh : exact1 f_arccosh (fun x => 1 < x) (flip1 jvp_arccosh_0).
Proof. apply (exact1_ext _ _ vjp_arccosh_0); [same_body|exact r_arccosh]. Qed.
Lemma j_arctanh : exact1 f_arctanh (fun x => -1 < x < 1) (flip1 jvp_arctanh_0).
Proof. apply (exact1_ext _ _ vjp_arctanh_0); [same_body|exact r_arctanh]. Qed.
Lemma j_square : exact1 f_square all_R (flip1 jvp_square_0).
Proof. apply (exact1_ext _ _ vjp_square_0); [same_body|exact r_square]. Qed.
Lemma j_sqrt : exact1 sqrt (fun x => 0 < x) (flip1 jvp_sqrt_0).
Proof. apply (exact1_ext _ _ vjp_sqrt_0); [same_body|exact r_sqrt]. Qed.
Lemma j_sinc : exact1 f_sinc (fun x => x <> 0) (flip1 jvp_sinc_0).
Proof. apply (exact1_ext _ _ vjp_sinc_0); [same_body|exact r_sinc]. Qed.
Lemma j_abs : exact1 Rabs (fun x => x <> 0) (flip1 jvp_abs_0).
Proof. apply (exact1_ext _ _ vjp_abs_0); [same_body|exact r_abs]. Qed.
Lemma j_fabs : exact1 Rabs (fun x => x <> 0) (flip1 jvp_fabs_0).
Proof. apply (exact1_ext _ _ vjp_fabs_0); [same_body|exact r_fabs]. Qed.
Lemma j_absolute : exact1 Rabs (fun x => x <> 0) (flip1 jvp_absolute_0).
Proof. apply (exact1_ext _ _ vjp_absolute_0); [same_body|exact r_absolute]. Qed.

Lemma j_add_0 : exact2_0 f_add all_R2 (flip2 jvp_add_0).
Proof. apply (exact2_0_ext _ _ vjp_add_0); [same_body|exact r_add_0]. Qed.
Lemma j_add_1 : exact2_1 f_add all_R2 (flip2 jvp_add_1).
Proof. apply (exact2_1_ext _ _ vjp_add_1); [same_body|exact r_add_1]. Qed.
Lemma j_subtract_0 : exact2_0 f_sub all_R2 (flip2 jvp_subtract_0).
Proof. apply (exact2_0_ext _ _ vjp_subtract_0); [same_body|exact r_subtract_0]. Qed.
Lemma j_subtract_1 : exact2_1 f_sub all_R2 (flip2 jvp_subtract_1).
Proof. apply (exact2_1_ext _ _ vjp_subtract_1); [same_body|exact r_subtract_1]. Qed.
Lemma j_divide_1 : exact2_1 f_div (fun x y => y <> 0) (flip2 jvp_divide_1).
Proof. apply (exact2_1_ext _ _ vjp_divide_1); [same_body|exact r_divide_1]. Qed.
Lemma j_true_divide_1 : exact2_1 f_div (fun x y => y <> 0) (flip2 jvp_true_divide_1).
Proof. apply (exact2_1_ext _ _ vjp_true_divide_1); [same_body|exact r_true_divide_1]. Qed.
Lemma j_logaddexp_0 : exact2_0 f_logaddexp all_R2 (flip2 jvp_logaddexp_0).
Proof. apply (exact2_0_ext _ _ vjp_logaddexp_0); [same_body|exact r_logaddexp_0]. Qed.
Lemma j_logaddexp_1 : exact2_1 f_logaddexp all_R2 (flip2 jvp_logaddexp_1).
Proof. apply (exact2_1_ext _ _ vjp_logaddexp_1); [same_body|exact r_logaddexp_1]. Qed.
Lemma j_arctan2_0 : exact2_0 f_arctan2 (fun x y => 0 < y) (flip2 jvp_arctan2_0).
Proof. apply (exact2_0_ext _ _ vjp_arctan2_0); [same_body|exact r_arctan2_0]. Qed.
Lemma j_arctan2_1 : exact2_1 f_arctan2 (fun x y => 0 < y) (flip2 jvp_arctan2_1).
Proof. apply (exact2_1_ext _ _ vjp_arctan2_1); [same_body|exact r_arctan2_1]. Qed.
Lemma j_power_0 : exact2_0 f_power (fun x y => 0 < x) (flip2 jvp_power_0).
Proof. apply (exact2_0_ext _ _ vjp_power_0); [same_body|exact r_power_0]. Qed.
Lemma j_power_1 : exact2_1 f_power (fun x y => 0 < x) (flip2 jvp_power_1).
Proof. apply (exact2_1_ext _ _ vjp_power_1); [same_body|exact r_power_1]. Qed.

(* 'same' and def_linear entries: the JVP is the primitive applied to the
   tangent, which is exact iff the primitive is linear in that argument *)
Definition linear1 (f : R -> R) : Prop :=
  forall x g, is_derive f x (f 1) /\ f g = g * f 1.
Lemma same_negative : linear1 f_negative.
Proof. unf. intros x g. split; [der|lin]. Qed.
Lemma same_rad2deg : linear1 f_rad2deg.
Proof. unf. intros x g. pose proof PI_nz. split; [der|lin]. Qed.
Lemma same_deg2rad : linear1 f_deg2rad.
Proof. unf. intros x g. split; [der|lin]. Qed.
Lemma same_divide_0 y : y <> 0 -> linear1 (fun x => f_div x y).
Proof. unf. intros H x g. split; [der|lin]. Qed.
Lemma linear_multiply_0 y : linear1 (fun x => f_mul x y).
Proof. unf. intros x g. split; [der|lin]. Qed.
Lemma linear_multiply_1 x : linear1 (fun y => f_mul x y).
Proof. unf. intros y g. split; [der|lin]. Qed.

(* C04, scalar level: for every rule pair above the reverse and the forward
   rule have the same coefficient, so <g, jvp v> = <vjp g, v> *)
Lemma adjoint1 f D (r j : R -> R -> R -> R) :
  exact1 f D r -> exact1 f D j -> forall x g v, D x -> g * j (f x) x v = r (f x) x g * v.
Proof.
  intros Hr Hj x g v Hd.
  destruct (Hr x g Hd) as [D1 L1]. destruct (Hj x v Hd) as [D2 L2].
  rewrite L1, L2.
  pose proof (is_derive_unique _ _ _ D1) as U1. pose proof (is_derive_unique _ _ _ D2) as U2.
  assert (E : r (f x) x 1 = j (f x) x 1) by congruence.
  rewrite E. ring.
Qed.
