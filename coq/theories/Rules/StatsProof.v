(* Theorems about the reduction rules of Stats.v over the reals (Coquelicot derivatives), and the cumsum adjoint
   over any commutative ring. *)
From Coq Require Import Reals List Lia Lra Ring Field.
From Coquelicot Require Import Coquelicot.
Import ListNotations.
From AG Require Import Stats.
Local Open Scope R_scope.

Notation rsum := (ksum R 0 Rplus).
Notation rprod := (kprod R 1 Rmult).
Notation rmap2 := (kmap2 R).
Notation rdot := (kdot R 0 Rplus Rmult).
Notation rmean := (mean R 0 Rplus Rdiv INR).
Notation rcentred := (centred R 0 Rplus Rminus Rdiv INR).
Notation rdenom := (denom R Rminus INR).
Notation rvar := (var R 0 Rplus Rmult Rminus Rdiv INR).
Notation rvar_vjp := (var_vjp R 0 1 Rplus Rmult Rminus Rdiv INR).
Notation rvar_jvp := (var_jvp R 0 1 Rplus Rmult Rminus Rdiv INR).
Notation rstd_vjp := (std_vjp R 0 Rplus Rmult Rminus Rdiv INR).
Notation rstd_jvp := (std_jvp R 0 Rplus Rmult Rminus Rdiv INR).
Notation rprod_vjp := (prod_vjp R Rmult Rdiv).
Notation rprod_jvp := (prod_jvp R 0 Rplus Rmult Rdiv).

(* the point x displaced by t in direction v *)
Definition line (x v : list R) (t : R) : list R := rmap2 (fun a b => a + t * b) x v.

Lemma line_length : forall x v t, length x = length v -> length (line x v t) = length x.
Proof. unfold line. induction x as [|a x IH]; intros [|b v] t H; simpl in *; try discriminate; auto. Qed.

Lemma line_0 : forall x v, length x = length v -> line x v 0 = x.
Proof. unfold line. induction x as [|a x IH]; intros [|b v] H; simpl in *; try discriminate; auto.
  rewrite (IH v) by lia. f_equal. ring. Qed.

Lemma rsum_line : forall x v t, length x = length v -> rsum (line x v t) = rsum x + t * rsum v.
Proof. unfold line. induction x as [|a x IH]; intros [|b v] t H; simpl in *; try discriminate; [ring|].
  rewrite IH by lia. ring. Qed.

Lemma mean_line x v t : length x = length v -> rmean (line x v t) = rmean x + t * rmean v.
Proof. intros H. unfold mean. rewrite line_length, rsum_line by assumption. rewrite <- H. unfold Rdiv. ring. Qed.

(* deviations from arbitrary constants a, b (instantiated with the means) *)
Definition ssq (a : R) (x : list R) : R := rsum (map (fun c => c * c) (map (fun y => y - a) x)).
Definition cross (a b : R) (x v : list R) : R := rsum (rmap2 (fun y w => (y - a) * (w - b)) x v).

Lemma ssq_line : forall x v t a b, length x = length v ->
    ssq (a + t * b) (line x v t) = ssq a x + 2 * t * cross a b x v + t * t * ssq b v.
Proof. unfold ssq, cross, line. induction x as [|y x IH]; intros [|w v] t a b H; simpl in *; try discriminate; [ring|].
  rewrite IH by lia. ring. Qed.

Lemma cross_split : forall x v a b, length x = length v ->
    cross a b x v = rdot v (map (fun y => y - a) x) - b * rsum (map (fun y => y - a) x).
Proof. unfold cross, kdot. induction x as [|y x IH]; intros [|w v] a b H; simpl in *; try discriminate; [ring|].
  rewrite IH by lia. ring. Qed.

Lemma rsum_shift : forall x a, rsum (map (fun y => y - a) x) = rsum x - INR (length x) * a.
Proof. induction x as [|y x IH]; intros a; [simpl; ring|].
  change (length (y :: x)) with (S (length x)). rewrite S_INR. simpl. rewrite IH. ring. Qed.

Lemma centred_sum_zero x : x <> [] -> rsum (rcentred x) = 0.
Proof. intros Hx. unfold centred. rewrite rsum_shift. unfold mean.
  assert (INR (length x) <> 0) by (apply not_0_INR; destruct x; [congruence|simpl; lia]). field. assumption. Qed.

Lemma var_closed x v t d : length x = length v -> x <> [] ->
    rvar d (line x v t) = (ssq (rmean x) x + 2 * t * rdot v (rcentred x) + t * t * ssq (rmean v) v) / rdenom d x.
Proof. intros H Hx. unfold var at 1, centred at 1, denom. rewrite line_length by assumption.
  rewrite mean_line by assumption.
  change (rsum (map (fun c => c * c) (map (fun y => y - (rmean x + t * rmean v)) (line x v t))))
    with (ssq (rmean x + t * rmean v) (line x v t)).
  rewrite ssq_line by assumption. rewrite cross_split by assumption.
  change (map (fun y => y - rmean x) x) with (rcentred x). rewrite centred_sum_zero by assumption.
  unfold denom. f_equal. ring. Qed.

Lemma var_at x d : rvar d x = ssq (rmean x) x / rdenom d x.
Proof. reflexivity. Qed.

(* forward rule of np.var: the derivative of t |-> var(x + t v) at 0 *)
Theorem var_jvp_exact x v d : length x = length v -> x <> [] -> rdenom d x <> 0 ->
    is_derive (fun t => rvar d (line x v t)) 0 (rvar_jvp d x v).
Proof. intros H Hx Hd.
  apply (is_derive_ext (fun t => (ssq (rmean x) x + 2 * t * rdot v (rcentred x) + t * t * ssq (rmean v) v) / rdenom d x)).
  - intros t. symmetry. apply var_closed; assumption.
  - unfold var_jvp, two. auto_derive; [exact I|]. field. exact Hd. Qed.

Lemma dot_scaled : forall (c v : list R) k, rdot (map (fun y => k * y) c) v = k * rdot v c.
Proof. unfold kdot. induction c as [|y c IH]; intros [|w v] k; simpl; try ring.
  rewrite IH. ring. Qed.

(* reverse rule of np.var: <var_vjp g, v> = g * (J v) for every direction v *)
Theorem var_vjp_exact x v d g : length x = length v -> x <> [] -> rdenom d x <> 0 ->
    rdot (rvar_vjp d x g) v = g * rvar_jvp d x v.
Proof. intros H Hx Hd. unfold var_vjp, var_jvp, two.
  rewrite (map_ext _ (fun y => ((1 + 1) * g / rdenom d x) * y)) by (intros; field; exact Hd).
  rewrite dot_scaled. field. exact Hd. Qed.

(* np.std = sqrt(var): forward and reverse rules, at points of positive variance *)
Theorem std_jvp_exact x v d : length x = length v -> x <> [] -> rdenom d x <> 0 -> 0 < rvar d x ->
    is_derive (fun t => sqrt (rvar d (line x v t))) 0 (rstd_jvp d x v (sqrt (rvar d x))).
Proof. intros H Hx Hd Hpos.
  apply (is_derive_ext (fun t => sqrt ((ssq (rmean x) x + 2 * t * rdot v (rcentred x) + t * t * ssq (rmean v) v) / rdenom d x))).
  - intros t. f_equal. symmetry. apply var_closed; assumption.
  - rewrite var_at in Hpos. unfold std_jvp. rewrite var_at.
    set (A := ssq (rmean x) x) in *. set (C := rdot v (rcentred x)). set (B := ssq (rmean v) v). set (D := rdenom d x) in *.
    assert (E : (A + 2 * 0 * C + 0 * 0 * B) * / D = A / D) by (unfold Rdiv; ring).
    auto_derive.
    + rewrite E. exact Hpos.
    + rewrite E.
      assert (Hs : sqrt (A / D) <> 0) by (apply Rgt_not_eq, sqrt_lt_R0; exact Hpos).
      field. split; assumption. Qed.

Theorem std_vjp_exact x v d g : length x = length v -> x <> [] -> rdenom d x <> 0 -> 0 < rvar d x ->
    rdot (rstd_vjp d x (sqrt (rvar d x)) g) v = g * rstd_jvp d x v (sqrt (rvar d x)).
Proof. intros H Hx Hd Hpos. unfold std_vjp, std_jvp.
  assert (Hs : sqrt (rvar d x) <> 0) by (apply Rgt_not_eq, sqrt_lt_R0; exact Hpos).
  rewrite (map_ext _ (fun y => (g / sqrt (rvar d x) / rdenom d x) * y)) by (intros; field; split; assumption).
  rewrite dot_scaled. field. split; assumption. Qed.

(* np.linalg.norm (2-norm of a vector, Frobenius norm of a matrix): at x <> 0 *)
Notation rsumsq := (sumsq R 0 Rplus Rmult).
Notation rnorm_vjp := (norm_vjp R Rmult Rdiv).
Notation rnorm_jvp := (norm_jvp R 0 Rplus Rmult Rdiv).

Lemma sumsq_ssq x : rsumsq x = ssq 0 x.
Proof. unfold sumsq, ssq. f_equal. rewrite map_map. apply map_ext. intros; ring. Qed.

Lemma cross0 : forall x v, length x = length v -> cross 0 0 x v = rdot v x.
Proof. unfold cross, kdot. induction x as [|y x IH]; intros [|w v] H; simpl in *; try discriminate; [reflexivity|].
  rewrite IH by lia. ring. Qed.

Theorem norm_jvp_exact x v : length x = length v -> 0 < rsumsq x ->
    is_derive (fun t => sqrt (rsumsq (line x v t))) 0 (rnorm_jvp x v (sqrt (rsumsq x))).
Proof. intros H Hpos.
  apply (is_derive_ext (fun t => sqrt (rsumsq x + 2 * t * rdot v x + t * t * rsumsq v))).
  - intros t. f_equal. rewrite !sumsq_ssq.
    replace (ssq 0 (line x v t)) with (ssq (0 + t * 0) (line x v t)) by (f_equal; ring).
    rewrite ssq_line by assumption. rewrite cross0 by assumption. reflexivity.
  - unfold norm_jvp. set (A := rsumsq x) in *. set (C := rdot v x). set (B := rsumsq v).
    assert (E : A + 2 * 0 * C + 0 * 0 * B = A) by ring.
    auto_derive.
    + rewrite E. exact Hpos.
    + rewrite E. assert (Hs : sqrt A <> 0) by (apply Rgt_not_eq, sqrt_lt_R0; exact Hpos). field. exact Hs. Qed.

Theorem norm_vjp_exact x v g : length x = length v -> 0 < rsumsq x ->
    rdot (rnorm_vjp x (sqrt (rsumsq x)) g) v = g * rnorm_jvp x v (sqrt (rsumsq x)).
Proof. intros H Hpos. unfold norm_vjp, norm_jvp.
  assert (Hs : sqrt (rsumsq x) <> 0) by (apply Rgt_not_eq, sqrt_lt_R0; exact Hpos).
  rewrite dot_scaled. field. exact Hs. Qed.

(* np.prod *)
Fixpoint dprod (x v : list R) : R :=
  match x, v with
  | a :: x', b :: v' => b * rprod x' + a * dprod x' v'
  | _, _ => 0
  end.

Lemma prod_line_derive : forall x v, length x = length v ->
    is_derive (fun t => rprod (line x v t)) 0 (dprod x v).
Proof. induction x as [|a x IH]; intros [|b v] H; try discriminate.
  - apply (is_derive_ext (fun _ => 1)); [reflexivity|]. simpl. auto_derive; [exact I|ring].
  - assert (Hl : length x = length v) by (simpl in H; lia). specialize (IH v Hl).
    apply (is_derive_ext (fun t => (a + t * b) * rprod (line x v t))); [intros t; reflexivity|].
    pose proof (is_derive_mult (fun t => a + t * b) (fun t => rprod (line x v t)) 0 b (dprod x v)) as Hm.
    assert (H1 : is_derive (fun t : R => a + t * b) 0 b) by (auto_derive; [exact I|ring]).
    specialize (Hm H1 IH (fun p q => Rmult_comm p q)).
    cbv beta in Hm. rewrite (line_0 x v Hl) in Hm.
    replace (dprod (a :: x) (b :: v)) with (plus (scal b (rprod x)) (scal (a + 0 * b) (dprod x v))); [exact Hm|].
    unfold plus, scal; simpl. unfold mult; simpl. ring. Qed.

Lemma dprod_quotients : forall x v, length x = length v -> List.Forall (fun a => a <> 0) x ->
    dprod x v = rprod x * rsum (rmap2 Rdiv v x).
Proof. induction x as [|a x IH]; intros [|b v] H Hnz; simpl in *; try discriminate; [ring|].
  pose proof (Forall_inv Hnz) as Ha. pose proof (Forall_inv_tail Hnz) as Hx.
  rewrite IH by (auto; lia). field. exact Ha. Qed.

Theorem prod_jvp_exact x v : length x = length v -> List.Forall (fun a => a <> 0) x ->
    is_derive (fun t => rprod (line x v t)) 0 (rprod_jvp x v (rprod x)).
Proof. intros H Hnz. unfold prod_jvp. rewrite <- dprod_quotients by assumption. apply prod_line_derive. exact H. Qed.

Theorem prod_vjp_exact : forall x v g, length x = length v -> List.Forall (fun a => a <> 0) x ->
    rdot (rprod_vjp x (rprod x) g) v = g * rprod_jvp x v (rprod x).
Proof. intros x v g H Hnz. unfold prod_jvp, prod_vjp. generalize (rprod x) as P. revert v H.
  unfold kdot. induction x as [|a x IH]; intros [|b v] H P; simpl in *; try discriminate; [ring|].
  pose proof (Forall_inv Hnz) as Ha. pose proof (Forall_inv_tail Hnz) as Hx.
  rewrite IH by (auto; lia). field. exact Ha. Qed.

(* np.cumsum over any commutative ring: reverse - cumsum - reverse is its adjoint *)
Section Cumsum.
  Variable K : Type.
  Variables (k0 k1 : K) (kadd kmul ksub : K -> K -> K) (kopp : K -> K).
  Hypothesis Kring : ring_theory k0 k1 kadd kmul ksub kopp eq.
  Add Ring KRc : Kring.
  Notation csum := (ksum K k0 kadd).
  Notation cdot := (kdot K k0 kadd kmul).
  Notation ccumsum_from := (cumsum_from K kadd).
  Notation ccumsum := (cumsum K k0 kadd).
  Notation ccumsum_vjp := (cumsum_vjp K k0 kadd).

  Fixpoint suffix_sums (g : list K) : list K :=
    match g with [] => [] | x :: r => kadd x (csum r) :: suffix_sums r end.

  Lemma csum_app a b : csum (a ++ b) = kadd (csum a) (csum b).
  Proof. induction a as [|x a IH]; simpl; [ring|]. rewrite IH. ring. Qed.
  Lemma csum_rev a : csum (rev a) = csum a.
  Proof. induction a as [|x a IH]; simpl; [reflexivity|]. rewrite csum_app, IH. simpl. ring. Qed.

  Lemma cumsum_from_snoc : forall l acc x,
      ccumsum_from acc (l ++ [x]) = ccumsum_from acc l ++ [kadd (kadd acc (csum l)) x].
  Proof. induction l as [|y l IH]; intros acc x; simpl.
    - f_equal. ring.
    - rewrite IH. f_equal. f_equal. f_equal. ring. Qed.

  Lemma cumsum_vjp_suffix : forall g, ccumsum_vjp g = suffix_sums g.
  Proof. unfold cumsum_vjp, cumsum. induction g as [|x g IH]; simpl; [reflexivity|].
    rewrite cumsum_from_snoc, rev_app_distr. simpl. rewrite IH, csum_rev. f_equal. ring. Qed.

  Lemma cumsum_from_pairing : forall g v acc, length g = length v ->
      cdot g (ccumsum_from acc v) = kadd (kmul acc (csum g)) (cdot (suffix_sums g) v).
  Proof. unfold kdot. induction g as [|x g IH]; intros [|w v] acc H; simpl in *; try discriminate; [ring|].
    rewrite IH by lia. ring. Qed.

  Theorem cumsum_adjoint g v : length g = length v ->
      cdot g (ccumsum v) = cdot (ccumsum_vjp g) v /\ length (ccumsum_vjp g) = length g.
  Proof. intros H. split.
    - unfold cumsum. rewrite cumsum_from_pairing by assumption. rewrite cumsum_vjp_suffix. ring.
    - rewrite cumsum_vjp_suffix. clear. induction g; simpl; auto. Qed.
End Cumsum.
