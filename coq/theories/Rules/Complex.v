(* C09: the documented complex convention, over K[i] for any commutative ring
   K: a complex number is a pair (re, im); J_R is the real 2x2 (or 2x1, 1x2)
   Jacobian; reverse mode returns conj(J_R^T conj(g)). *)
From Coq Require Import Ring.

Section Cx.
  Variable K : Type.
  Variables (k0 k1 : K) (kadd kmul ksub : K -> K -> K) (kopp : K -> K).
  Hypothesis Kring : ring_theory k0 k1 kadd kmul ksub kopp eq.
  Add Ring KRc : Kring.
  Notation "x + y" := (kadd x y). Notation "x * y" := (kmul x y).
  Notation "x - y" := (ksub x y). Notation "- x" := (kopp x).

  Definition C := (K * K)%type.
  Definition cconj (z : C) : C := (fst z, - snd z).
  Definition cmul (z w : C) : C := (fst z * fst w - snd z * snd w, fst z * snd w + snd z * fst w).

  (* J_R = [[j11 j12] [j21 j22]] acting on (re, im); its transpose applied to a pair *)
  Definition jt (j11 j12 j21 j22 : K) (g : C) : C :=
    (j11 * fst g + j21 * snd g, j12 * fst g + j22 * snd g).
  (* what reverse mode returns *)
  Definition vjp_conv (j11 j12 j21 j22 : K) (g : C) : C := cconj (jt j11 j12 j21 j22 (cconj g)).

  (* holomorphic map with derivative a + ib: J_R = [[a -b] [b a]]; the VJP is g * f'(z) *)
  Theorem holomorphic_vjp a b g : vjp_conv a (- b) b a g = cmul g (a, b).
  Proof. destruct g as [gr gi]. unfold vjp_conv, jt, cconj, cmul. simpl. f_equal; ring. Qed.

  (* real-valued loss L of a complex parameter, partials (Lx, Ly), cotangent 1:
     the gradient is Lx - i Ly, the conjugate of the steepest-ascent direction *)
  Theorem real_loss_gradient lx ly : vjp_conv lx ly k0 k0 (k1, k0) = cconj (lx, ly).
  Proof. unfold vjp_conv, jt, cconj. simpl. f_equal; ring. Qed.

  (* real -> complex -> real: f x = (u x, v x) with (a, b) = (u', v'), then a
     real loss h with partials (hx, hy).  Composing the two conventions gives
     the ordinary real derivative hx a + hy b, with zero imaginary part *)
  Theorem real_through_complex a b hx hy :
    vjp_conv a k0 b k0 (vjp_conv hx hy k0 k0 (k1, k0)) = (hx * a + hy * b, k0).
  Proof. unfold vjp_conv, jt, cconj. simpl. f_equal; ring. Qed.

  (* forward mode is J_R v, so <g, J_R v>_R = <vjp g, v>_R with the pairing
     <a, b>_R = Re(conj(a) b) used by ComplexArrayVSpace.inner_prod - after the
     covector (conj) that check_vjp and the engine apply *)
  Definition rpair (a b : C) : K := fst a * fst b + snd a * snd b.
  Definition jv (j11 j12 j21 j22 : K) (v : C) : C :=
    (j11 * fst v + j12 * snd v, j21 * fst v + j22 * snd v).
  Theorem complex_adjoint j11 j12 j21 j22 g v :
    rpair (cconj g) (jv j11 j12 j21 j22 v) = rpair (cconj (vjp_conv j11 j12 j21 j22 g)) v.
  Proof. destruct g, v. unfold rpair, jv, vjp_conv, jt, cconj. simpl. ring. Qed.
End Cx.
