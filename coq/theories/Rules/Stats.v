(* Statistics and cumulative reductions of a list (one fibre of an array along the reduced axes): np.var, np.std,
   np.prod, np.cumsum.  The definitions are generic in the scalar operations so that the same text is instantiated
   with R (theorems below) and with Q (Array/RunStats.v: evaluated on the implementation's cases).
   Rule bodies follow numpy_vjps.grad_np_var / grad_np_std / grad_np_prod / grad_np_cumsum and
   numpy_jvps.forward_grad_np_var / forward_grad_np_std / the prod and cumsum entries. *)
From Coq Require Import List Arith Lia.
Import ListNotations.

Section Generic.
  Variable K : Type.
  Variables (k0 k1 : K) (kadd kmul ksub kdiv : K -> K -> K).
  Variable kofnat : nat -> K.

  Fixpoint ksum (l : list K) : K := match l with [] => k0 | x :: r => kadd x (ksum r) end.
  Fixpoint kprod (l : list K) : K := match l with [] => k1 | x :: r => kmul x (kprod r) end.
  Fixpoint kmap2 (f : K -> K -> K) (a b : list K) : list K :=
    match a, b with x :: a', y :: b' => f x y :: kmap2 f a' b' | _, _ => [] end.
  Definition kdot (a b : list K) : K := ksum (kmap2 kmul a b).

  Definition mean (l : list K) : K := kdiv (ksum l) (kofnat (length l)).
  Definition centred (l : list K) : list K := map (fun x => ksub x (mean l)) l.
  (* np.var(l, ddof=d): sum of squared deviations over (N - d) *)
  Definition denom (d : nat) (l : list K) : K := ksub (kofnat (length l)) (kofnat d).
  Definition var (d : nat) (l : list K) : K :=
    kdiv (ksum (map (fun c => kmul c c) (centred l))) (denom d l).

  Definition two : K := kadd k1 k1.
  (* grad_np_var: 2 g (x - mean) / (N - ddof), g the (repeated) cotangent of this fibre *)
  Definition var_vjp (d : nat) (l : list K) (g : K) : list K :=
    map (fun c => kdiv (kmul (kmul two g) c) (denom d l)) (centred l).
  (* forward_grad_np_var: 2 sum(v (x - mean)) / (N - ddof) *)
  Definition var_jvp (d : nat) (l v : list K) : K :=
    kdiv (kmul two (kdot v (centred l))) (denom d l).
  (* grad_np_std (N > 1): (g / ans) (x - mean) / (N - ddof) *)
  Definition std_vjp (d : nat) (l : list K) (ans g : K) : list K :=
    map (fun c => kdiv (kmul (kdiv g ans) c) (denom d l)) (centred l).
  (* forward_grad_np_std: sum(v (x - mean)) / ((N - ddof) ans) *)
  Definition std_jvp (d : nat) (l v : list K) (ans : K) : K :=
    kdiv (kdot v (centred l)) (kmul (denom d l) ans).
  (* grad_np_prod: g ans / x ;  forward: ans sum(v / x) *)
  Definition prod_vjp (l : list K) (ans g : K) : list K := map (fun x => kdiv (kmul g ans) x) l.
  Definition prod_jvp (l v : list K) (ans : K) : K := kmul ans (ksum (kmap2 kdiv v l)).
  (* np.linalg.norm with ord None / 2 / 'fro' (the square root is supplied by the caller: `ans`):
     norm_vjp: (g / ans) x ;  norm_jvp: sum(v x) / ans *)
  Definition sumsq (l : list K) : K := ksum (map (fun x => kmul x x) l).
  Definition norm_vjp (l : list K) (ans g : K) : list K := map (fun x => kmul (kdiv g ans) x) l.
  Definition norm_jvp (l v : list K) (ans : K) : K := kdiv (kdot v l) ans.
  (* np.cumsum and grad_np_cumsum: reverse, cumsum, reverse *)
  Fixpoint cumsum_from (acc : K) (l : list K) : list K :=
    match l with [] => [] | x :: r => kadd acc x :: cumsum_from (kadd acc x) r end.
  Definition cumsum (l : list K) : list K := cumsum_from k0 l.
  Definition cumsum_vjp (g : list K) : list K := rev (cumsum (rev g)).
End Generic.
