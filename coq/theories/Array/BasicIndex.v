(* C11: a MODEL of NumPy's basic indexing - integers (negative allowed), slices with any bounds and any non-zero step,
   Ellipsis, newaxis - on an array of any shape: the flat (row-major) positions A[idx] reads, in the order of the result.
   (Index.v takes those positions from NumPy; here they are computed, and compared with NumPy's by the correspondence run.)
   Definitions only; proofs in BasicIndexProof.v. *)
From Coq Require Import List Arith Bool ZArith Lia.
Import ListNotations.

Inductive bitem := BInt (i : Z) | BSlice (a b : option Z) (st : Z) | BNew | BEll.

(* Python: i in [-len, len) *)
Definition norm_pos (len : nat) (i : Z) : option nat :=
  let l := Z.of_nat len in
  if (0 <=? i)%Z then (if (i <? l)%Z then Some (Z.to_nat i) else None)
  else if (- l <=? i)%Z then Some (Z.to_nat (l + i)) else None.

Definition zclamp (lo hi x : Z) : Z := Z.max lo (Z.min hi x).
(* slice(a, b, st).indices(len): PySlice_AdjustIndices *)
Definition slice_start_stop (len : Z) (a b : option Z) (st : Z) : Z * Z :=
  let adj := fun i => if (i <? 0)%Z then (i + len)%Z else i in
  if (0 <? st)%Z then
    (match a with None => 0%Z | Some i => zclamp 0 len (adj i) end,
     match b with None => len | Some i => zclamp 0 len (adj i) end)
  else
    (match a with None => (len - 1)%Z | Some i => zclamp (-1) (len - 1) (adj i) end,
     match b with None => (-1)%Z | Some i => zclamp (-1) (len - 1) (adj i) end).
Definition slice_count (start stop st : Z) : nat :=
  if (0 <? st)%Z then (if (start <? stop)%Z then Z.to_nat ((stop - start - 1) / st + 1) else O)
  else (if (stop <? start)%Z then Z.to_nat ((start - stop - 1) / (- st) + 1) else O).
Definition slice_positions (len : nat) (a b : option Z) (st : Z) : list nat :=
  let '(start, stop) := slice_start_stop (Z.of_nat len) a b st in
  map (fun k => Z.to_nat (start + Z.of_nat k * st)) (seq 0 (slice_count start stop st)).

Definition consuming (it : bitem) : bool := match it with BInt _ | BSlice _ _ _ => true | _ => false end.

(* per-axis position lists: an integer selects one position, a slice its progression, Ellipsis (covering `nell` axes) and
   the axes the expression does not mention are taken whole; newaxis consumes nothing.  None: an index out of range, a
   zero step, or more indices than axes *)
Fixpoint axes (dims : list nat) (items : list bitem) (nell : nat) : option (list (list nat)) :=
  match items with
  | [] => Some (map (fun d => seq 0 d) dims)
  | BNew :: r => axes dims r nell
  | BEll :: r => match axes (skipn nell dims) r O with
                 | Some rest => Some (map (fun d => seq 0 d) (firstn nell dims) ++ rest)
                 | None => None
                 end
  | BInt i :: r =>
    match dims with
    | d :: ds => match norm_pos d i, axes ds r nell with Some p, Some rest => Some ([p] :: rest) | _, _ => None end
    | [] => None
    end
  | BSlice a b st :: r =>
    match dims with
    | d :: ds => if (st =? 0)%Z then None else
                 match axes ds r nell with Some rest => Some (slice_positions d a b st :: rest) | None => None end
    | [] => None
    end
  end.

Definition prodn (l : list nat) : nat := fold_right Nat.mul 1 l.

(* row-major flattening of the selected grid *)
Fixpoint flat_positions (dims : list nat) (sel : list (list nat)) : list nat :=
  match dims, sel with
  | d :: ds, P :: Ps => let inner := flat_positions ds Ps in
                        flat_map (fun p => map (fun q => p * prodn ds + q) inner) P
  | _, _ => [0]
  end.

Definition basic_sigma (dims : list nat) (items : list bitem) : option (list nat) :=
  let used := length (filter consuming items) in
  if length dims <? used then None else
  match axes dims items (length dims - used) with
  | Some sel => Some (flat_positions dims sel)
  | None => None
  end.
