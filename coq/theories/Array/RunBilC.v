(* Gaussian-integer instance (Z[i]) of the bilinear-primitive model: complex operands, autograd's complex convention. *)
From Coq Require Import List Arith Bool ZArith.
Import ListNotations.
From AG Require Import VSpace VSpaceProof Index Run01 Complex Bilinear.
From AG Require Import ComplexRing.
Local Open Scope Z_scope.

Definition G := (Z * Z)%type.
Definition gadd := cadd Z Z.add.
Definition gmul := Complex.cmul Z Z.add Z.mul Z.sub.
Definition g0 : G := (0, 0).
Definition gterm := term G.
Definition mkc (a b o : nat) (c : G) : gterm := {| ia := a; ib := b; io := o; coef := c |}.
Definition gbil := bil G g0 gadd gmul.
Definition gvjpA := vjpA G g0 gadd gmul.
Definition gvjpB := vjpB G g0 gadd gmul.

Fixpoint gl_eqb (a b : list G) : bool :=
  match a, b with
  | [], [] => true
  | x :: a', y :: b' => Z.eqb (fst x) (fst y) && Z.eqb (snd x) (snd y) && gl_eqb a' b'
  | _, _ => false
  end.
(* the gradient of a REAL argument is the real part (match_complex / unbroadcast take it) *)
Definition realpart (on : bool) (l : list G) : list G := if on then map (fun z => (fst z, 0)) l else l.

Record caseBilC := {
  c_na : nat; c_nb : nat; c_no : nat; c_S : list gterm;
  c_A : list G; c_B : list G; c_g : list G; c_dA : list G; c_dB : list G;
  c_val : list G; c_vjpA : list G; c_vjpB : list G;
  c_jvpA : option (list G); c_jvpB : option (list G);
  c_realA : bool; c_realB : bool; c_ok : bool
}.
Definition goeq (m : list G) (o : option (list G)) : bool := match o with Some j => gl_eqb m j | None => true end.

Definition checkbilc (c : caseBilC) : nat :=
  if negb c.(c_ok) then 2%nat else
  if gl_eqb (gbil c.(c_no) c.(c_S) c.(c_A) c.(c_B)) c.(c_val)
     && gl_eqb (realpart c.(c_realA) (gvjpA c.(c_na) c.(c_S) c.(c_g) c.(c_B))) c.(c_vjpA)
     && gl_eqb (realpart c.(c_realB) (gvjpB c.(c_nb) c.(c_S) c.(c_g) c.(c_A))) c.(c_vjpB)
     && goeq (gbil c.(c_no) c.(c_S) c.(c_dA) c.(c_B)) c.(c_jvpA)
     && goeq (gbil c.(c_no) c.(c_S) c.(c_A) c.(c_dB)) c.(c_jvpB)
  then 0%nat else 1%nat.

(* (2+i) * (1-3i) = 5-5i ; cotangent 1+i : vjpA = g*B = (1+i)(1-3i) = 4-2i, vjpB = g*A = (1+i)(2+i) = 1+3i *)
Example checkbilc_ex :
  checkbilc {| c_na := 1; c_nb := 1; c_no := 1; c_S := [mkc 0 0 0 (1, 0)];
               c_A := [(2, 1)]; c_B := [(1, -3)]; c_g := [(1, 1)]; c_dA := [(1, 0)]; c_dB := [(0, 1)]; c_val := [(5, -5)];
               c_vjpA := [(4, -2)]; c_vjpB := [(1, 3)]; c_jvpA := Some [(1, -3)]; c_jvpB := Some [(-1, 2)];
               c_realA := false; c_realB := false; c_ok := true |} = 0%nat.
Proof. vm_compute. reflexivity. Qed.
