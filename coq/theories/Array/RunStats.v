(* Executable Q instance of Stats.v for the correspondence with autograd.numpy (one case = one fibre of an array along the
   reduced axes; the harness chooses data on which every float64 operation is exact, so rationals compare exactly). *)
From Coq Require Import List Arith Bool ZArith QArith.
Import ListNotations.
From AG Require Import Stats.
Local Open Scope Q_scope.

Definition qofnat (n : nat) : Q := inject_Z (Z.of_nat n).
Definition qvar := var Q 0 Qplus Qmult Qminus Qdiv qofnat.
Definition qvar_vjp := var_vjp Q 0 1 Qplus Qmult Qminus Qdiv qofnat.
Definition qvar_jvp := var_jvp Q 0 1 Qplus Qmult Qminus Qdiv qofnat.
Definition qstd_vjp := std_vjp Q 0 Qplus Qmult Qminus Qdiv qofnat.
Definition qstd_jvp := std_jvp Q 0 Qplus Qmult Qminus Qdiv qofnat.
Definition qprod := kprod Q 1 Qmult.
Definition qprod_vjp := prod_vjp Q Qmult Qdiv.
Definition qprod_jvp := prod_jvp Q 0 Qplus Qmult Qdiv.
Definition qsumsq := sumsq Q 0 Qplus Qmult.
Definition qnorm_vjp := norm_vjp Q Qmult Qdiv.
Definition qnorm_jvp := norm_jvp Q 0 Qplus Qmult Qdiv.
Definition qcumsum := cumsum Q 0 Qplus.
Definition qcumsum_vjp := cumsum_vjp Q 0 Qplus.

Fixpoint ql_eqb (a b : list Q) : bool :=
  match a, b with
  | [], [] => true
  | x :: a', y :: b' => Qeq_bool x y && ql_eqb a' b'
  | _, _ => false
  end.
Definition qo_eqb (m : Q) (o : option Q) : bool := match o with Some j => Qeq_bool m j | None => true end.

Record caseStat := {
  t_fn : nat;                 (* 0 var, 1 std, 2 prod, 4 norm (2 / Frobenius), otherwise cumsum *)
  t_d : nat;                  (* ddof *)
  t_x : list Q;               (* the fibre *)
  t_g : list Q;               (* cotangent of this fibre's result (one entry; the whole list for cumsum) *)
  t_v : list Q;               (* tangent restricted to the fibre *)
  t_val : list Q;             (* implementation: the primal value (one entry; the list for cumsum) *)
  t_vjp : list Q;             (* implementation: the VJP restricted to the fibre *)
  t_jvp : option (list Q);    (* implementation: the JVP entry (list for cumsum); None when forward mode raises *)
  t_ok : bool
}.

Definition hd0 (l : list Q) : Q := match l with x :: _ => x | [] => 0 end.
Definition jo (o : option (list Q)) : option Q := match o with Some l => Some (hd0 l) | None => None end.

Definition checkstat (c : caseStat) : nat :=
  if negb c.(t_ok) then 2%nat else
  let x := c.(t_x) in let g := hd0 c.(t_g) in let ans := hd0 c.(t_val) in
  let good :=
    match c.(t_fn) with
    | 0%nat => Qeq_bool (qvar c.(t_d) x) ans && ql_eqb (qvar_vjp c.(t_d) x g) c.(t_vjp)
               && qo_eqb (qvar_jvp c.(t_d) x c.(t_v)) (jo c.(t_jvp))
    | 1%nat => Qeq_bool (ans * ans) (qvar c.(t_d) x) && Qle_bool 0 ans && negb (Qeq_bool ans 0)
               && ql_eqb (qstd_vjp c.(t_d) x ans g) c.(t_vjp)
               && qo_eqb (qstd_jvp c.(t_d) x c.(t_v) ans) (jo c.(t_jvp))
    | 2%nat => Qeq_bool (qprod x) ans && ql_eqb (qprod_vjp x ans g) c.(t_vjp)
               && qo_eqb (qprod_jvp x c.(t_v) ans) (jo c.(t_jvp))
    | 4%nat => Qeq_bool (ans * ans) (qsumsq x) && Qle_bool 0 ans && negb (Qeq_bool ans 0)
               && ql_eqb (qnorm_vjp x ans g) c.(t_vjp)
               && qo_eqb (qnorm_jvp x c.(t_v) ans) (jo c.(t_jvp))
    | _ => ql_eqb (qcumsum x) c.(t_val) && ql_eqb (qcumsum_vjp c.(t_g)) c.(t_vjp)
           && match c.(t_jvp) with Some j => ql_eqb (qcumsum c.(t_v)) j | None => true end
    end in
  if good then 0%nat else 1%nat.

Example checkstat_var :
  checkstat {| t_fn := 0; t_d := 0; t_x := [1; 3; 1; 3]; t_g := [2]; t_v := [1; 0; 0; -1]; t_val := [1];
               t_vjp := [-1; 1; -1; 1]; t_jvp := Some [-1]; t_ok := true |} = 0%nat.
Proof. vm_compute. reflexivity. Qed.
Example checkstat_cumsum :
  checkstat {| t_fn := 3; t_d := 0; t_x := [1; 2; 3]; t_g := [1; 1; 2]; t_v := [1; 0; -1]; t_val := [1; 3; 6];
               t_vjp := [4; 3; 2]; t_jvp := Some [1; 1; 0]; t_ok := true |} = 0%nat.
Proof. vm_compute. reflexivity. Qed.
