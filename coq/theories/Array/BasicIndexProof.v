(* C11, basic indexing: the positions selected by any basic index expression (integers, slices with any bounds and step,
   Ellipsis, newaxis) on an array of any shape are DISTINCT and in range; hence the gradient of A[idx] - the scatter-add of
   Index.v - places each cotangent entry at exactly its position and leaves every other position zero: no accumulation
   happens for basic indices. *)
From Coq Require Import List Arith Bool ZArith Lia Ring.
Import ListNotations.
From AG Require Import VSpace VSpaceProof Index.
From AG Require Import BasicIndex.

Definition axis_ok (d : nat) (P : list nat) : Prop := NoDup P /\ Forall (fun p => p < d) P.

Lemma NoDup_map_in {A B} (f : A -> B) l :
  (forall x y, In x l -> In y l -> f x = f y -> x = y) -> NoDup l -> NoDup (map f l).
Proof.
  induction l as [|a l IH]; intros Hinj Hnd; simpl; [constructor|].
  inversion Hnd as [|? ? Hni Hnd']; subst. constructor.
  - intros Hin. apply in_map_iff in Hin. destruct Hin as (x & Hfx & Hx).
    assert (x = a) by (apply Hinj; [now right|now left|assumption]). subst. contradiction.
  - apply IH; [|assumption]. intros x y Hx Hy. apply Hinj; now right.
Qed.

Lemma NoDup_app_intro {A} (a b : list A) :
  NoDup a -> NoDup b -> (forall x, In x a -> ~ In x b) -> NoDup (a ++ b).
Proof.
  induction a as [|x a IH]; intros Ha Hb Hd; simpl; [assumption|].
  inversion Ha as [|? ? Hni Ha']; subst. constructor.
  - intros Hin. apply in_app_or in Hin. destruct Hin as [H|H]; [contradiction|]. apply (Hd x); [now left|assumption].
  - apply IH; auto. intros y Hy. apply Hd. now right.
Qed.

Lemma full_axis_ok d : axis_ok d (seq 0 d).
Proof. split; [apply seq_NoDup|]. apply Forall_forall. intros x Hx. apply in_seq in Hx. lia. Qed.

Lemma norm_pos_lt d i p : norm_pos d i = Some p -> p < d.
Proof.
  unfold norm_pos. destruct (0 <=? i)%Z eqn:E1.
  - destruct (i <? Z.of_nat d)%Z eqn:E2; [|discriminate]. intros H; injection H as <-. lia.
  - destruct (- Z.of_nat d <=? i)%Z eqn:E2; [|discriminate]. intros H; injection H as <-. lia.
Qed.

Lemma slice_bounds_pos len a b st start stop :
  (0 <= len)%Z -> (0 < st)%Z -> slice_start_stop len a b st = (start, stop) -> (0 <= start)%Z /\ (stop <= len)%Z.
Proof.
  intros Hl Hs H. unfold slice_start_stop in H. replace (0 <? st)%Z with true in H by (symmetry; apply Z.ltb_lt; lia).
  injection H as <- <-. unfold zclamp. split.
  - destruct a as [i|]; [|lia]. destruct (i <? 0)%Z; lia.
  - destruct b as [i|]; [|lia]. destruct (i <? 0)%Z; lia.
Qed.
Lemma slice_bounds_neg len a b st start stop :
  (0 <= len)%Z -> (st < 0)%Z -> slice_start_stop len a b st = (start, stop) -> (start <= len - 1)%Z /\ (-1 <= stop)%Z.
Proof.
  intros Hl Hs H. unfold slice_start_stop in H. replace (0 <? st)%Z with false in H by (symmetry; apply Z.ltb_ge; lia).
  injection H as <- <-. unfold zclamp. split.
  - destruct a as [i|]; [|lia]. destruct (i <? 0)%Z; lia.
  - destruct b as [i|]; [|lia]. destruct (i <? 0)%Z; lia.
Qed.

Theorem slice_positions_ok len a b st : st <> 0%Z -> axis_ok len (slice_positions len a b st).
Proof.
  intros Hst. unfold slice_positions.
  destruct (slice_start_stop (Z.of_nat len) a b st) as [start stop] eqn:E.
  assert (Hrange : forall k, k < slice_count start stop st ->
                             (0 <= start + Z.of_nat k * st < Z.of_nat len)%Z).
  { intros k Hk. unfold slice_count in Hk. destruct (0 <? st)%Z eqn:Es.
    - apply Z.ltb_lt in Es. destruct (slice_bounds_pos _ a b st start stop (Nat2Z.is_nonneg len) Es E) as [H0 H1].
      destruct (start <? stop)%Z eqn:Ec; [|lia]. apply Z.ltb_lt in Ec.
      assert (Hq : (0 <= (stop - start - 1) / st)%Z) by (apply Z.div_pos; lia).
      assert (Hk' : (Z.of_nat k <= (stop - start - 1) / st)%Z) by lia.
      assert (Hm : (st * ((stop - start - 1) / st) <= stop - start - 1)%Z) by (apply Z.mul_div_le; lia).
      nia.
    - apply Z.ltb_ge in Es. assert (Hneg : (st < 0)%Z) by lia.
      destruct (slice_bounds_neg _ a b st start stop (Nat2Z.is_nonneg len) Hneg E) as [H0 H1].
      destruct (stop <? start)%Z eqn:Ec; [|lia]. apply Z.ltb_lt in Ec.
      assert (Hq : (0 <= (start - stop - 1) / (- st))%Z) by (apply Z.div_pos; lia).
      assert (Hk' : (Z.of_nat k <= (start - stop - 1) / (- st))%Z) by lia.
      assert (Hm : ((- st) * ((start - stop - 1) / (- st)) <= start - stop - 1)%Z) by (apply Z.mul_div_le; lia).
      nia. }
  split.
  - apply NoDup_map_in; [|apply seq_NoDup].
    intros x y Hx Hy Hxy. apply in_seq in Hx. apply in_seq in Hy.
    pose proof (Hrange x ltac:(lia)) as Rx. pose proof (Hrange y ltac:(lia)) as Ry.
    assert (E2 : (start + Z.of_nat x * st = start + Z.of_nat y * st)%Z) by lia.
    assert (E3 : (Z.of_nat x * st = Z.of_nat y * st)%Z) by lia.
    apply Z.mul_cancel_r in E3; [lia|assumption].
  - apply Forall_forall. intros p Hp. apply in_map_iff in Hp. destruct Hp as (k & <- & Hk).
    apply in_seq in Hk. pose proof (Hrange k ltac:(lia)). lia.
Qed.

Theorem axes_ok : forall items dims nell sel,
    axes dims items nell = Some sel -> Forall2 axis_ok dims sel.
Proof.
  induction items as [|it r IH]; intros dims nell sel H; simpl in H.
  - injection H as <-. induction dims as [|d ds IHd]; simpl; constructor; [apply full_axis_ok|assumption].
  - destruct it as [i|a b st| |].
    + destruct dims as [|d ds]; [discriminate|].
      destruct (norm_pos d i) as [p|] eqn:Ep; [|discriminate].
      destruct (axes ds r nell) as [rest|] eqn:Er; [|discriminate]. injection H as <-.
      constructor; [|eapply IH; eassumption].
      split; [constructor; [intros []|constructor]|]. constructor; [eapply norm_pos_lt; eassumption|constructor].
    + destruct dims as [|d ds]; [discriminate|].
      destruct (st =? 0)%Z eqn:Es; [discriminate|]. apply Z.eqb_neq in Es.
      destruct (axes ds r nell) as [rest|] eqn:Er; [|discriminate]. injection H as <-.
      constructor; [now apply slice_positions_ok|eapply IH; eassumption].
    + eapply IH; eassumption.
    + destruct (axes (skipn nell dims) r 0) as [rest|] eqn:Er; [|discriminate]. injection H as <-.
      rewrite <- (firstn_skipn nell dims) at 1. apply Forall2_app; [|eapply IH; eassumption].
      induction (firstn nell dims) as [|d ds IHd]; simpl; constructor; [apply full_axis_ok|assumption].
Qed.

Lemma in_flat_block s inner p x : In x (map (fun q => p * s + q) inner) <-> exists q, In q inner /\ x = p * s + q.
Proof. rewrite in_map_iff. split; intros (q & A & B); exists q; [split; [assumption|now symmetry]|split; [now symmetry|assumption]]. Qed.

Theorem flat_positions_ok : forall dims sel,
    Forall2 axis_ok dims sel ->
    NoDup (flat_positions dims sel) /\ Forall (fun q => q < prodn dims) (flat_positions dims sel).
Proof.
  induction 1 as [|d P ds Ps [Hnd Hlt] Hrest [IHn IHl]]; simpl.
  - split; [constructor; [intros []|constructor]|]. constructor; [lia|constructor].
  - set (s := prodn ds) in *. set (inner := flat_positions ds Ps) in *.
    rewrite Forall_forall in IHl, Hlt.
    split.
    + clear Hlt. induction P as [|p P IHP]; simpl; [constructor|].
      inversion Hnd as [|? ? Hni Hnd']; subst. apply NoDup_app_intro.
      * apply NoDup_map_in; [|assumption]. intros x y _ _ E. lia.
      * apply IHP. assumption.
      * intros x Hx Hx'. apply in_flat_block in Hx. destruct Hx as (q & Hq & ->).
        apply in_flat_map in Hx'. destruct Hx' as (p' & Hp' & Hx'). apply in_flat_block in Hx'. destruct Hx' as (q' & Hq' & E).
        pose proof (IHl q Hq). pose proof (IHl q' Hq').
        assert (p = p') by nia. subst. contradiction.
    + apply Forall_forall. intros x Hx. apply in_flat_map in Hx. destruct Hx as (p & Hp & Hx).
      apply in_flat_block in Hx. destruct Hx as (q & Hq & ->).
      pose proof (IHl q Hq). pose proof (Hlt p Hp). fold s. nia.
Qed.

(* every basic index expression selects distinct positions of the array *)
Theorem basic_sigma_distinct dims items sigma :
  basic_sigma dims items = Some sigma -> NoDup sigma /\ Forall (fun q => q < prodn dims) sigma.
Proof.
  unfold basic_sigma. destruct (length dims <? length (filter consuming items)); [discriminate|].
  destruct (axes dims items (length dims - length (filter consuming items))) as [sel|] eqn:E; [|discriminate].
  intros H; injection H as <-. apply flat_positions_ok. eapply axes_ok; eassumption.
Qed.

(* ... so the gradient (Index.scatter) puts each cotangent entry at exactly its position, and zero elsewhere *)
Section Place.
  Variable K : Type.
  Variables (k0 k1 : K) (kadd kmul ksub : K -> K -> K) (kopp : K -> K).
  Hypothesis Kring : ring_theory k0 k1 kadd kmul ksub kopp eq.
  Add Ring KRbi : Kring.
  Notation add_at := (add_at K kadd).
  Notation scatter_into := (scatter_into K kadd).
  Notation scatter := (scatter K k0 kadd).

  Lemma nth_add_at_same : forall (a : list K) i x, i < length a -> nth i (add_at a i x) k0 = kadd (nth i a k0) x.
  Proof. induction a as [|y a IH]; intros [|i] x H; simpl in *; try lia; auto. apply IH. lia. Qed.
  Lemma nth_add_at_other : forall (a : list K) i j x, i <> j -> nth j (add_at a i x) k0 = nth j a k0.
  Proof. induction a as [|y a IH]; intros [|i] [|j] x H; simpl; auto; try congruence. Qed.

  Lemma scatter_into_untouched : forall sigma g (a : list K) j, ~ In j sigma -> nth j (scatter_into a sigma g) k0 = nth j a k0.
  Proof.
    induction sigma as [|i s IH]; intros [|x g] a j Hj; simpl; auto.
    rewrite IH by (intro; apply Hj; now right). apply nth_add_at_other. intro; apply Hj; now left.
  Qed.

  Lemma scatter_into_placed : forall sigma g (a : list K) k,
      NoDup sigma -> Forall (fun i => i < length a) sigma -> length g = length sigma -> k < length sigma ->
      nth (nth k sigma 0) (scatter_into a sigma g) k0 = kadd (nth (nth k sigma 0) a k0) (nth k g k0).
  Proof.
    induction sigma as [|i s IH]; intros [|x g] a k Hnd Hb Hl Hk; simpl in *; try lia.
    inversion Hnd as [|? ? Hni Hnd']; subst. inversion Hb as [|? ? Hi Hb']; subst.
    destruct k as [|k].
    - rewrite scatter_into_untouched by assumption. now apply nth_add_at_same.
    - rewrite IH; try assumption; try lia.
      + rewrite nth_add_at_other; [reflexivity|]. intro; subst. apply Hni. apply nth_In. lia.
      + rewrite (add_at_length K kadd). assumption.
  Qed.

  Theorem basic_index_gradient_places_exactly dims items sigma (g : list K) :
    basic_sigma dims items = Some sigma -> length g = length sigma ->
    (forall k, k < length sigma -> nth (nth k sigma 0) (scatter (prodn dims) sigma g) k0 = nth k g k0)
    /\ (forall j, ~ In j sigma -> nth j (scatter (prodn dims) sigma g) k0 = k0)
    /\ length (scatter (prodn dims) sigma g) = prodn dims.
  Proof.
    intros Hs Hl. destruct (basic_sigma_distinct dims items sigma Hs) as [Hnd Hb]. unfold Index.scatter.
    split; [|split].
    - intros k Hk. rewrite scatter_into_placed; try assumption.
      + rewrite nth_repeat. ring.
      + now rewrite repeat_length.
    - intros j Hj. rewrite scatter_into_untouched by assumption. apply nth_repeat.
    - now rewrite (scatter_into_length K kadd), repeat_length.
  Qed.
End Place.
