(* The step lists of the broadcasting model (Array/Run01.v: which sums numpy_vjps.unbroadcast performs for a target shape
   and an output shape; Broadcast.unbroadcast_adjoint is instantiated with them) are the loops the translator reads off the
   source of unbroadcast on this run (coq/gen/GenBroadcast.v). *)
From Coq Require Import List Arith Bool ZArith.
Import ListNotations.
From AG Require Import VSpace VSpaceProof Broadcast Run01.
From AGGen Require Import GenBroadcast.

Lemma nprod_follows l : nprod l = gen_nprod l.
Proof. reflexivity. Qed.

Theorem lead_steps_follow_source d os : lead_steps d os = gen_lead_steps d os.
Proof.
  revert os. induction d as [|d IH]; intros os; simpl; [reflexivity|].
  destruct os as [|n r]; [reflexivity|]. now rewrite IH.
Qed.

Theorem ax_steps_follow_source P ts cur : ax_steps P ts cur = gen_ax_steps P ts cur.
Proof.
  revert P cur. induction ts as [|t ts IH]; intros P cur; simpl; [reflexivity|].
  destruct cur as [|n cur]; [reflexivity|]. unfold gen_sum_axis_when.
  destruct (Nat.eqb t 1); simpl; now rewrite IH.
Qed.

Theorem steps_of_follow_source ts os :
  steps_of ts os = (let '(ss, s) := gen_lead_steps (length os - length ts) os in ss ++ gen_ax_steps 1 ts s).
Proof.
  unfold steps_of. rewrite lead_steps_follow_source.
  destruct (gen_lead_steps (length os - length ts) os) as [ss s]. now rewrite ax_steps_follow_source.
Qed.
