(* Bilinear primitives.  Every function of two arrays that is linear in each of them - np.dot / matmul / @ in all rank
   combinations (batched, broadcast), tensordot, inner, outer, kron, einsum with two operands (any subscripts: repeated,
   diagonal, broadcast, Ellipsis), convolve, correlate, cross, multiply - is described by its list of structure
   constants:  out[io] += c * A[ia] * B[ib]  for every term (ia, ib, io, c).  For every such list the reverse rules are
       vjpA g = scatter over ia of  c * g[io] * B[ib],      vjpB g = scatter over ib of  c * g[io] * A[ia],
   the adjoints of the two partial maps, each in its argument's space; the forward rules are the partial maps themselves.
   Proved over any commutative ring. *)
From Coq Require Import List Arith Bool Lia Ring.
Import ListNotations.
From AG Require Import VSpace VSpaceProof Index.

Section Bil.
  Variable K : Type.
  Variables (k0 k1 : K) (kadd kmul ksub : K -> K -> K) (kopp : K -> K).
  Hypothesis Kring : ring_theory k0 k1 kadd kmul ksub kopp eq.
  Add Ring KRb : Kring.
  Notation dot := (dot K k0 kadd kmul).
  Notation scatter := (scatter K k0 kadd).
  Notation gather := (gather K k0).

  Record term := { ia : nat; ib : nat; io : nat; coef : K }.

  Definition at_ (v : list K) (i : nat) : K := nth i v k0.

  Definition bil (no : nat) (S : list term) (A B : list K) : list K :=
    scatter no (map io S) (map (fun s => kmul (kmul (coef s) (at_ A (ia s))) (at_ B (ib s))) S).
  Definition vjpA (na : nat) (S : list term) (g B : list K) : list K :=
    scatter na (map ia S) (map (fun s => kmul (kmul (coef s) (at_ g (io s))) (at_ B (ib s))) S).
  Definition vjpB (nb : nat) (S : list term) (g A : list K) : list K :=
    scatter nb (map ib S) (map (fun s => kmul (kmul (coef s) (at_ g (io s))) (at_ A (ia s))) S).

  Definition in_bounds (na nb no : nat) (s : term) : Prop := ia s < na /\ ib s < nb /\ io s < no.

  (* S read as the map (g, B) |-> cotangent of A, and as the map (g, A) |-> cotangent of B (BilinearClosed.v) *)
  Definition permA (s : term) : term := {| ia := io s; ib := ib s; io := ia s; coef := coef s |}.
  Definition permB (s : term) : term := {| ia := io s; ib := ia s; io := ib s; coef := coef s |}.

  Fixpoint ksum (l : list K) : K := match l with [] => k0 | x :: r => kadd x (ksum r) end.

  Lemma dot_map_gather : forall (S : list term) (f : term -> K) (p : term -> nat) (v : list K),
      dot (map f S) (gather (map p S) v) = ksum (map (fun s => kmul (f s) (at_ v (p s))) S).
  Proof.
    unfold VSpaceProof.dot, Index.gather, at_. induction S as [|s S IH]; intros f p v; simpl; [reflexivity|].
    rewrite <- IH. reflexivity.
  Qed.

  Lemma ksum_ext (S : list term) (f h : term -> K) : (forall s, f s = h s) -> ksum (map f S) = ksum (map h S).
  Proof. intros E. induction S as [|s S IH]; simpl; [reflexivity|]. now rewrite E, IH. Qed.

  Lemma scatter_pairing n (S : list term) (p : term -> nat) (f : term -> K) (v : list K) :
      Forall (fun s => p s < n) S -> length v = n ->
      dot (scatter n (map p S) (map f S)) v = ksum (map (fun s => kmul (f s) (at_ v (p s))) S)
      /\ length (scatter n (map p S) (map f S)) = n.
  Proof.
    intros Hb Hv.
    assert (Hb' : Forall (fun i => i < n) (map p S)) by (rewrite Forall_map; exact Hb).
    destruct (getitem_untake_adjoint K k0 k1 kadd kmul ksub kopp Kring n (map p S) (map f S) v Hb')
      as [E L]; [now rewrite !map_length | exact Hv |].
    split; [|exact L]. rewrite E. apply dot_map_gather.
  Qed.

  Theorem bilinear_rules_adjoint na nb no S A B g :
    Forall (in_bounds na nb no) S -> length A = na -> length B = nb -> length g = no ->
    dot g (bil no S A B) = dot (vjpA na S g B) A
    /\ dot g (bil no S A B) = dot (vjpB nb S g A) B
    /\ length (vjpA na S g B) = na /\ length (vjpB nb S g A) = nb /\ length (bil no S A B) = no.
  Proof.
    intros Hb HA HB Hg.
    assert (Ha : Forall (fun s => ia s < na) S) by (eapply Forall_impl; [|exact Hb]; intros s (H & _); exact H).
    assert (Hbb : Forall (fun s => ib s < nb) S) by (eapply Forall_impl; [|exact Hb]; intros s (_ & H & _); exact H).
    assert (Ho : Forall (fun s => io s < no) S) by (eapply Forall_impl; [|exact Hb]; intros s (_ & _ & H); exact H).
    unfold bil, vjpA, vjpB.
    destruct (scatter_pairing no S io (fun s => kmul (kmul (coef s) (at_ A (ia s))) (at_ B (ib s))) g Ho Hg) as [E1 L1].
    destruct (scatter_pairing na S ia (fun s => kmul (kmul (coef s) (at_ g (io s))) (at_ B (ib s))) A Ha HA) as [E2 L2].
    destruct (scatter_pairing nb S ib (fun s => kmul (kmul (coef s) (at_ g (io s))) (at_ A (ia s))) B Hbb HB) as [E3 L3].
    rewrite (dot_comm K k0 k1 kadd kmul ksub kopp Kring g), E1, E2, E3.
    repeat split; try assumption; apply ksum_ext; intros s; ring.
  Qed.

  (* the partial maps are linear: the forward rules (the map applied to the tangent) are exact *)
  Lemma at_vadd : forall (x v : list K) i, length x = length v ->
      at_ (VSpaceProof.vadd K kadd x v) i = kadd (at_ x i) (at_ v i).
  Proof.
    unfold at_, VSpaceProof.vadd. induction x as [|a x IH]; intros [|b v] i Hl; simpl in *; try discriminate.
    - destruct i; ring.
    - destruct i; [reflexivity|]. apply IH. lia.
  Qed.

  Notation vadd := (VSpaceProof.vadd K kadd).
  Notation add_at := (add_at K kadd).
  Notation scatter_into := (scatter_into K kadd).

  Lemma add_at_vadd2 : forall (a b : list K) i x y, length a = length b ->
      add_at (vadd a b) i (kadd x y) = vadd (add_at a i x) (add_at b i y).
  Proof.
    unfold VSpaceProof.vadd. induction a as [|p a IH]; intros [|q b] i x y H; simpl in *; try discriminate; [reflexivity|].
    destruct i; simpl.
    - f_equal. ring.
    - f_equal. apply IH. lia.
  Qed.

  Lemma add_at_len (a : list K) i x : length (add_at a i x) = length a.
  Proof. apply add_at_length. Qed.

  Lemma scatter_into_vadd2 : forall sigma (g1 g2 a b : list K), length a = length b -> length g1 = length g2 ->
      scatter_into (vadd a b) sigma (vadd g1 g2) = vadd (scatter_into a sigma g1) (scatter_into b sigma g2).
  Proof.
    induction sigma as [|i s IH]; intros g1 g2 a b Hab Hg.
    - destruct g1, g2; reflexivity.
    - destruct g1 as [|x g1], g2 as [|y g2]; simpl in Hg; try discriminate; [reflexivity|].
      change (vadd (x :: g1) (y :: g2)) with (kadd x y :: vadd g1 g2). simpl.
      rewrite add_at_vadd2 by assumption. apply IH; [now rewrite !add_at_len | lia].
  Qed.

  Lemma vadd_zeros n : vadd (repeat k0 n) (repeat k0 n) = repeat k0 n.
  Proof. unfold VSpaceProof.vadd. induction n; simpl; [reflexivity|]. f_equal; [ring|assumption]. Qed.

  Lemma vadd_map (S : list term) (f h : term -> K) :
      vadd (map f S) (map h S) = map (fun s => kadd (f s) (h s)) S.
  Proof. unfold VSpaceProof.vadd. induction S as [|s S IH]; simpl; [reflexivity|]. now rewrite IH. Qed.

  Theorem bil_linear_A no S A dA B : length A = length dA ->
      bil no S (vadd A dA) B = vadd (bil no S A B) (bil no S dA B).
  Proof.
    intros H. unfold bil, Index.scatter.
    rewrite <- (vadd_zeros no) at 1.
    rewrite <- scatter_into_vadd2 by (now rewrite ?repeat_length, ?map_length).
    f_equal. rewrite vadd_map. apply map_ext. intros s.
    rewrite at_vadd by assumption. ring.
  Qed.

  Theorem bil_linear_B no S A B dB : length B = length dB ->
      bil no S A (vadd B dB) = vadd (bil no S A B) (bil no S A dB).
  Proof.
    intros H. unfold bil, Index.scatter.
    rewrite <- (vadd_zeros no) at 1.
    rewrite <- scatter_into_vadd2 by (now rewrite ?repeat_length, ?map_length).
    f_equal. rewrite vadd_map. apply map_ext. intros s.
    rewrite at_vadd by assumption. ring.
  Qed.
End Bil.
