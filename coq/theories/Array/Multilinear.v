(* Multilinear primitives: a function of m arrays that is linear in each - einsum with any number of operands and any
   subscripts, linalg.multi_dot, chained products - is given by structure constants
       out[io] += c * A_1[i_1] * ... * A_m[i_m]      for every term (i_1 .. i_m, io, c).
   For every such list and every operand position k the reverse rule
       vjp_k g = scatter over i_k of  c * g[io] * prod_{j <> k} A_j[i_j]
   is the adjoint of the partial map in operand k, in that operand's space; the forward rule is the map itself with the
   tangent in place of operand k.  Over any commutative ring, any number of operands.  (Bilinear.v is the case m = 2.) *)
From Coq Require Import List Arith Bool Lia Ring.
Import ListNotations.
From AG Require Import VSpace VSpaceProof Index.

Section Mul.
  Variable K : Type.
  Variables (k0 k1 : K) (kadd kmul ksub : K -> K -> K) (kopp : K -> K).
  Hypothesis Kring : ring_theory k0 k1 kadd kmul ksub kopp eq.
  Add Ring KRml : Kring.
  Notation dot := (dot K k0 kadd kmul).
  Notation scatter := (scatter K k0 kadd).
  Notation gather := (gather K k0).

  Record mterm := { mi : list nat; mo : nat; mc : K }.
  Definition at_ (v : list K) (i : nat) : K := nth i v k0.

  Fixpoint kprod (l : list K) : K := match l with [] => k1 | x :: r => kmul x (kprod r) end.
  (* the entries a term reads, one per operand *)
  Fixpoint reads (As : list (list K)) (idx : list nat) : list K :=
    match As, idx with
    | A :: As', i :: idx' => at_ A i :: reads As' idx'
    | _, _ => []
    end.
  (* ... with operand k left out *)
  Fixpoint drop_nth {A} (k : nat) (l : list A) : list A :=
    match l, k with
    | [], _ => []
    | _ :: r, O => r
    | x :: r, S k' => x :: drop_nth k' r
    end.

  Definition mul (no : nat) (S : list mterm) (As : list (list K)) : list K :=
    scatter no (map mo S) (map (fun s => kmul (mc s) (kprod (reads As (mi s)))) S).
  Definition mvjp (k nk : nat) (S : list mterm) (g : list K) (As : list (list K)) : list K :=
    scatter nk (map (fun s => nth k (mi s) 0) S)
            (map (fun s => kmul (kmul (mc s) (at_ g (mo s))) (kprod (drop_nth k (reads As (mi s))))) S).

  Definition in_bounds (k nk no : nat) (m : nat) (s : mterm) : Prop :=
    length (mi s) = m /\ nth k (mi s) 0 < nk /\ mo s < no.

  Fixpoint ksum (l : list K) : K := match l with [] => k0 | x :: r => kadd x (ksum r) end.

  Lemma dot_map_gather : forall (S : list mterm) (f : mterm -> K) (p : mterm -> nat) (v : list K),
      dot (map f S) (gather (map p S) v) = ksum (map (fun s => kmul (f s) (at_ v (p s))) S).
  Proof.
    unfold VSpaceProof.dot, Index.gather, at_. induction S as [|s S IH]; intros f p v; simpl; [reflexivity|].
    rewrite <- IH. reflexivity.
  Qed.

  Lemma ksum_ext_in (S : list mterm) (f h : mterm -> K) : (forall s, In s S -> f s = h s) -> ksum (map f S) = ksum (map h S).
  Proof.
    induction S as [|s S IH]; intros E; simpl; [reflexivity|].
    rewrite E by now left. rewrite IH; [reflexivity|]. intros; apply E; now right.
  Qed.

  Lemma scatter_pairing n (S : list mterm) (p : mterm -> nat) (f : mterm -> K) (v : list K) :
      Forall (fun s => p s < n) S -> length v = n ->
      dot (scatter n (map p S) (map f S)) v = ksum (map (fun s => kmul (f s) (at_ v (p s))) S)
      /\ length (scatter n (map p S) (map f S)) = n.
  Proof.
    intros Hb Hv.
    assert (Hb' : Forall (fun i => i < n) (map p S)) by (rewrite Forall_map; exact Hb).
    destruct (getitem_untake_adjoint K k0 k1 kadd kmul ksub kopp Kring n (map p S) (map f S) v Hb')
      as [E L]; [now rewrite !map_length | exact Hv |].
    split; [|exact L]. rewrite E. apply dot_map_gather.
  Qed.

  (* the product of all the entries a term reads = the entry of operand k times the product of the others *)
  Lemma kprod_drop : forall (l : list K) k, k < length l -> kprod l = kmul (nth k l k0) (kprod (drop_nth k l)).
  Proof.
    induction l as [|x l IH]; intros [|k] H; simpl in *; try lia; [reflexivity|].
    rewrite (IH k) by lia. ring.
  Qed.

  Lemma reads_length : forall As idx, length idx = length As -> length (reads As idx) = length As.
  Proof. induction As as [|A As IH]; intros [|i idx] H; simpl in *; try lia; try reflexivity. f_equal. apply IH. lia. Qed.

  Lemma reads_nth : forall As idx k, length idx = length As -> k < length As ->
      nth k (reads As idx) k0 = at_ (nth k As []) (nth k idx 0).
  Proof.
    induction As as [|A As IH]; intros [|i idx] k H Hk; simpl in *; try lia.
    destruct k as [|k]; [reflexivity|]. apply IH; lia.
  Qed.

  Theorem multilinear_rule_adjoint k nk no S As g :
    k < length As -> Forall (in_bounds k nk no (length As)) S -> length (nth k As []) = nk -> length g = no ->
    dot g (mul no S As) = dot (mvjp k nk S g As) (nth k As [])
    /\ length (mvjp k nk S g As) = nk /\ length (mul no S As) = no.
  Proof.
    intros Hk Hb HA Hg.
    assert (Ho : Forall (fun s => mo s < no) S) by (eapply Forall_impl; [|exact Hb]; intros s (_ & _ & H); exact H).
    assert (Hi : Forall (fun s => nth k (mi s) 0 < nk) S) by (eapply Forall_impl; [|exact Hb]; intros s (_ & H & _); exact H).
    unfold mul, mvjp.
    destruct (scatter_pairing no S mo (fun s => kmul (mc s) (kprod (reads As (mi s)))) g Ho Hg) as [E1 L1].
    destruct (scatter_pairing nk S (fun s => nth k (mi s) 0)
                (fun s => kmul (kmul (mc s) (at_ g (mo s))) (kprod (drop_nth k (reads As (mi s))))) (nth k As []) Hi HA) as [E2 L2].
    rewrite (dot_comm K k0 k1 kadd kmul ksub kopp Kring g), E1, E2.
    split; [|split; assumption].
    apply ksum_ext_in. intros s Hs. rewrite Forall_forall in Hb. destruct (Hb s Hs) as (Hlen & _ & _).
    rewrite (kprod_drop (reads As (mi s)) k) by (rewrite reads_length; assumption).
    rewrite reads_nth by assumption. ring.
  Qed.

  (* forward mode: the map is additive in operand k *)
  Fixpoint set_nth {A} (k : nat) (v : A) (l : list A) : list A :=
    match l, k with
    | [], _ => []
    | _ :: r, O => v :: r
    | x :: r, S k' => x :: set_nth k' v r
    end.
End Mul.
