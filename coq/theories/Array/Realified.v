(* R-linear primitives on complex arrays.  A complex array is written as the real array [re0; im0; re1; im1; ...]
   (a real array stays as it is).  A primitive that is linear over the reals - fft / ifft / rfft / irfft and their
   2-D / n-D forms, fftshift, real, imag, conj, multiplication or contraction with a complex constant, every structural
   primitive on complex data - is then a real linear map, given by integer structure constants exactly like the partial
   maps of Bilinear.v (second operand the one-element array [1]).  autograd's convention  vjp g = conj(J_R^T conj g)
   becomes: conjugate the cotangent (if the output is complex), apply the transposed map, conjugate the result (if the
   argument is complex).  For every list of structure constants this rule satisfies the pairing that ties it to forward
   mode, <conj g, J v> = <conj (vjp g), v>, and lands in the argument's space.  Over any commutative ring. *)
From Coq Require Import List Arith Bool Lia Ring.
Import ListNotations.
From AG Require Import VSpace VSpaceProof Index Bilinear.

Section Realified.
  Variable K : Type.
  Variables (k0 k1 : K) (kadd kmul ksub : K -> K -> K) (kopp : K -> K).
  Hypothesis Kring : ring_theory k0 k1 kadd kmul ksub kopp eq.
  Add Ring KRr : Kring.
  Notation dot := (dot K k0 kadd kmul).
  Notation bil := (bil K k0 kadd kmul).
  Notation vjpA := (vjpA K k0 kadd kmul).

  (* complex conjugation of a realified array *)
  Fixpoint conjv (l : list K) : list K :=
    match l with
    | re :: im :: r => re :: kopp im :: conjv r
    | _ => l
    end.
  Definition cj (is_complex : bool) (l : list K) : list K := if is_complex then conjv l else l.

  Definition lin (no : nat) (S : list (term K)) (a : list K) : list K := bil no S a [k1].
  (* the reverse rule under the convention *)
  Definition cvjp (cin cout : bool) (na : nat) (S : list (term K)) (g : list K) : list K :=
    cj cin (vjpA na S (cj cout g) [k1]).

  Lemma conjv_length : forall l, length (conjv l) = length l.
  Proof.
    fix IH 1. intros [|re [|im r]]; simpl; try reflexivity. now rewrite IH.
  Qed.
  Lemma conjv_involutive : forall l, conjv (conjv l) = l.
  Proof.
    fix IH 1. intros [|re [|im r]]; simpl; try reflexivity. rewrite IH. f_equal. f_equal. ring.
  Qed.
  Lemma cj_length b l : length (cj b l) = length l.
  Proof. destruct b; simpl; [apply conjv_length | reflexivity]. Qed.
  Lemma cj_involutive b l : cj b (cj b l) = l.
  Proof. destruct b; simpl; [apply conjv_involutive | reflexivity]. Qed.

  Theorem convention_pairing cin cout na no S g v :
    Forall (in_bounds K na 1 no) S -> length v = na -> length g = no ->
    dot (cj cout g) (lin no S v) = dot (cj cin (cvjp cin cout na S g)) v
    /\ length (cvjp cin cout na S g) = na
    /\ length (lin no S v) = no.
  Proof.
    intros Hb Hv Hg. unfold cvjp, lin. rewrite cj_involutive, cj_length.
    destruct (bilinear_rules_adjoint K k0 k1 kadd kmul ksub kopp Kring na 1 no S v [k1] (cj cout g) Hb Hv eq_refl)
      as (E1 & _ & L1 & _ & L3); [now rewrite cj_length|].
    repeat split; assumption.
  Qed.

  (* forward mode: the map itself is additive (Bilinear.bil_linear_A) *)
  Theorem lin_additive no S a da : length a = length da ->
      lin no S (VSpaceProof.vadd K kadd a da) = VSpaceProof.vadd K kadd (lin no S a) (lin no S da).
  Proof. intros H. apply (bil_linear_A K k0 k1 kadd kmul ksub kopp Kring). exact H. Qed.
End Realified.
