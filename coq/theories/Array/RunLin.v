(* Executable instance for LinAlg.v over Z: unimodular integer matrices A (so that inv(A) = B is an integer matrix, which
   Coq VERIFIES: A B = I) - the model's rules for linalg.inv and linalg.solve against autograd's, entry by entry. *)
From Coq Require Import List Arith Bool ZArith.
Import ListNotations.
From AG Require Import MatMul LinAlg.
Local Open Scope Z_scope.

Definition zneg (F : nat -> nat -> Z) : nat -> nat -> Z := mneg Z Z.opp F.
Definition zid_list (n : nat) : list (list Z) := zto_list n n (mid Z 0 1).

Inductive linkind := InvVjp | InvJvp | SolveVjpA | SolveVjpB | SolveJvpA | SolveJvpB | SolveValue | DetValue | DetVjp.

(* the determinant by Laplace expansion along the first row (sizes up to 4 in the correspondence) *)
Fixpoint drop_col (j : nat) (row : list Z) : list Z :=
  match row, j with [], _ => [] | _ :: r, O => r | x :: r, S j' => x :: drop_col j' r end.
Fixpoint zdet_fuel (fuel : nat) (M : list (list Z)) : Z :=
  match fuel with
  | O => 1
  | S f =>
    match M with
    | [] => 1
    | row :: rest =>
      fold_left Z.add
        (map (fun j => (if Nat.even j then 1 else -1) * nth j row 0 * zdet_fuel f (map (drop_col j) rest)) (seq 0 (length row))) 0
    end
  end.
Definition zdet (M : list (list Z)) : Z := zdet_fuel (S (length M)) M.
Record caselin := {
  l_n : nat; l_p : nat;
  l_A : list (list Z); l_B : list (list Z);          (* B is claimed to be the inverse of A *)
  l_b : list (list Z);                               (* right-hand side (n x p) for solve *)
  l_T : list (list Z);                               (* the cotangent G or the tangent dA / db *)
  l_kind : linkind;
  l_impl : list (list Z);                            (* autograd's answer (rounded; exact up to rounding by construction) *)
  l_ok : bool }.                                     (* shape and kind of autograd's answer are right, rounding was harmless *)

Definition model_lin (c : caselin) : list (list Z) :=
  let n := c.(l_n) in let p := c.(l_p) in
  let B := zmat_of c.(l_B) in let T := zmat_of c.(l_T) in let b := zmat_of c.(l_b) in
  let X := zmm n B b in
  match c.(l_kind) with
  | InvVjp => zto_list n n (zneg (zmm n (zmm n (tr Z B) T) (tr Z B)))            (* -(B^T G) B^T *)
  | InvJvp => zto_list n n (zneg (zmm n (zmm n B T) B))                          (* -(B dA) B *)
  | SolveVjpA => zto_list n n (zneg (zmm p (zmm n (tr Z B) T) (tr Z X)))         (* -(B^T G) x^T *)
  | SolveVjpB => zto_list n p (zmm n (tr Z B) T)                                 (* B^T G *)
  | SolveJvpA => zto_list n p (zneg (zmm n B (zmm n T X)))                       (* -B (dA x) *)
  | SolveJvpB => zto_list n p (zmm n B T)                                        (* B db *)
  | SolveValue => zto_list n p X
  | DetValue => [[zdet c.(l_A)]]
  | DetVjp => zto_list n n (fun i j => nth 0 (nth 0 c.(l_T) []) 0 * zdet c.(l_A) * tr Z B i j)        (* g * det(x) * inv(x)^T *)
  end.

(* 0: model = implementation; 1: the claimed inverse is not one, or model and implementation differ (tie broken);
   2: the implementation's answer has the wrong shape or kind *)
Definition checklin (c : caselin) : nat :=
  if negb c.(l_ok) then 2%nat else
  if zll_eqb (zdot c.(l_n) c.(l_n) c.(l_n) c.(l_A) c.(l_B)) (zid_list c.(l_n))
     && zll_eqb (zdot c.(l_n) c.(l_n) c.(l_n) c.(l_B) c.(l_A)) (zid_list c.(l_n))
     && zll_eqb (model_lin c) c.(l_impl)
  then 0%nat else 1%nat.
