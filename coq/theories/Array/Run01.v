(* Executable Z instance of the broadcasting model: the step list induced by a
   target shape and an output shape, as numpy_vjps.unbroadcast walks them. *)
From Coq Require Import List Arith Bool ZArith.
Import ListNotations.
From AG Require Import VSpace VSpaceProof Broadcast.
Local Open Scope Z_scope.

Definition nprod (l : list nat) : nat := fold_right Nat.mul 1%nat l.

(* while ndim(x) > target_ndim: x = sum(x, axis=0) *)
Fixpoint lead_steps (d : nat) (os : list nat) : list step * list nat :=
  match d, os with
  | S d', n :: r => let '(ss, s) := lead_steps d' r in (Lead n (nprod r) :: ss, s)
  | _, _ => ([], os)
  end.
(* for axis, size in enumerate(target_shape): if size == 1: x = sum(x, axis, keepdims=True) *)
Fixpoint ax_steps (P : nat) (ts cur : list nat) : list step :=
  match ts, cur with
  | t :: ts', n :: cur' =>
    if Nat.eqb t 1 then Ax P n (nprod cur') :: ax_steps P ts' cur'
    else ax_steps (P * n)%nat ts' cur'
  | _, _ => []
  end.
Definition steps_of (ts os : list nat) : list step :=
  let '(ss, s) := lead_steps (length os - length ts) os in ss ++ ax_steps 1 ts s.

Definition zunbroadcast (ts os : list nat) (g : list Z) : list Z :=
  unbroadcast_steps Z 0 Z.add (steps_of ts os) g.
Definition zbroadcast (ts os : list nat) (v : list Z) : list Z :=
  broadcast_steps Z (steps_of ts os) v.

Fixpoint zl_eqb (a b : list Z) : bool :=
  match a, b with
  | [], [] => true
  | x :: a', y :: b' => Z.eqb x y && zl_eqb a' b'
  | _, _ => false
  end.

Record case01b := {
  b_ts : list nat; b_os : list nat; b_g : list Z; b_v : list Z;
  b_impl_unb : list Z;        (* numpy_vjps.unbroadcast(g, metadata(target)), flattened *)
  b_impl_bc : list Z;         (* numpy.broadcast_to(v, os), flattened *)
  b_adjoint_ok : bool         (* <g, broadcast v> = <unbroadcast g, v> and shape = target shape, on the implementation *)
}.

Definition check01b (c : case01b) : nat :=
  if negb c.(b_adjoint_ok) then 2%nat else
  if zl_eqb (zunbroadcast c.(b_ts) c.(b_os) c.(b_g)) c.(b_impl_unb)
     && zl_eqb (zbroadcast c.(b_ts) c.(b_os) c.(b_v)) c.(b_impl_bc)
  then 0%nat else 1%nat.

(* ---- reductions: np.sum(x, axes, keepdims) and its VJP ---- *)
Fixpoint keep_shape_from (i : nat) (sh axes : list nat) : list nat :=
  match sh with
  | [] => []
  | n :: r => (if existsb (Nat.eqb i) axes then 1%nat else n) :: keep_shape_from (S i) r axes
  end.
Definition keep_shape (sh axes : list nat) : list nat := keep_shape_from 0 sh axes.
Definition zsum_axes (sh axes : list nat) (x : list Z) : list Z := zunbroadcast (keep_shape sh axes) sh x.
Definition zsum_vjp (sh axes : list nat) (g : list Z) : list Z := zbroadcast (keep_shape sh axes) sh g.

Record case01s := {
  r_sh : list nat; r_axes : list nat; r_x : list Z; r_g : list Z;
  r_impl_sum : list Z;        (* numpy.sum(x, axis=axes, keepdims=...), flattened *)
  r_impl_vjp : list Z;        (* autograd's VJP of that call applied to g, flattened *)
  r_impl_jvp : list Z;        (* autograd's JVP of that call applied to x itself, flattened *)
  r_adjoint_ok : bool         (* <g, sum x> = <vjp g, x> and shape(vjp g) = shape(x), on the implementation *)
}.
Definition check01s (c : case01s) : nat :=
  if negb c.(r_adjoint_ok) then 2%nat else
  if zl_eqb (zsum_axes c.(r_sh) c.(r_axes) c.(r_x)) c.(r_impl_sum)
     && zl_eqb (zsum_vjp c.(r_sh) c.(r_axes) c.(r_g)) c.(r_impl_vjp)
     && zl_eqb (zsum_axes c.(r_sh) c.(r_axes) c.(r_x)) c.(r_impl_jvp)
  then 0%nat else 1%nat.
