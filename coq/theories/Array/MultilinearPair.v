(* Multilinear primitives, forward against reverse (C04/C02): the partial map in operand k, dA |-> mul(.., dA at k, ..), and
   the reverse rule for operand k are adjoint for EVERY tangent dA (the rule does not look at operand k), and the partial
   map is additive. *)
From Coq Require Import List Arith Bool Lia Ring.
Import ListNotations.
From AG Require Import VSpace VSpaceProof Index Multilinear.

Section Pair.
  Variable K : Type.
  Variables (k0 k1 : K) (kadd kmul ksub : K -> K -> K) (kopp : K -> K).
  Hypothesis Kring : ring_theory k0 k1 kadd kmul ksub kopp eq.
  Add Ring KRmp : Kring.
  Notation dot := (dot K k0 kadd kmul).
  Notation mul := (mul K k0 k1 kadd kmul).
  Notation mvjp := (mvjp K k0 k1 kadd kmul).
  Notation reads := (reads K k0).

  Fixpoint setn {A} (k : nat) (v : A) (l : list A) : list A :=
    match l, k with
    | [], _ => []
    | _ :: r, O => v :: r
    | x :: r, S k' => x :: setn k' v r
    end.

  Lemma setn_length {A} : forall (l : list A) k v, length (setn k v l) = length l.
  Proof. induction l as [|x l IH]; intros [|k] v; simpl; auto. Qed.
  Lemma setn_nth {A} (d : A) : forall (l : list A) k v, k < length l -> nth k (setn k v l) d = v.
  Proof. induction l as [|x l IH]; intros [|k] v H; simpl in *; try lia; auto. apply IH. lia. Qed.

  Lemma drop_reads_setn : forall As idx k dA,
      drop_nth k (reads (setn k dA As) idx) = drop_nth k (reads As idx).
  Proof.
    induction As as [|A As IH]; intros [|i idx] [|k] dA; simpl; try reflexivity.
    now rewrite IH.
  Qed.

  Lemma mvjp_ignores_operand k nk S g As dA : mvjp k nk S g (setn k dA As) = mvjp k nk S g As.
  Proof.
    unfold Multilinear.mvjp. f_equal. apply map_ext. intros s. now rewrite drop_reads_setn.
  Qed.

  Theorem multilinear_pairing k nk no S As g dA :
    k < length As -> Forall (in_bounds K k nk no (length As)) S -> length dA = nk -> length g = no ->
    dot g (mul no S (setn k dA As)) = dot (mvjp k nk S g As) dA.
  Proof.
    intros Hk Hb HdA Hg.
    destruct (multilinear_rule_adjoint K k0 k1 kadd kmul ksub kopp Kring k nk no S (setn k dA As) g) as (E & _ & _).
    - now rewrite setn_length.
    - now rewrite setn_length.
    - now rewrite (setn_nth []).
    - assumption.
    - rewrite E, mvjp_ignores_operand. now rewrite (setn_nth []).
  Qed.
End Pair.
