(* Executable Z instance of the selection-primitive model, for the correspondence with autograd.numpy. *)
From Coq Require Import List Arith Bool ZArith.
Import ListNotations.
From AG Require Import VSpace VSpaceProof Index Run01.
From AG Require Import Select.
Local Open Scope Z_scope.

Definition zsgather := sgather Z 0 Z.mul.
Definition zsscatter := sscatter Z 0 Z.add Z.mul.
Definition zsapply := sapply Z 0 Z.mul.

Record caseSel := {
  q_n : nat;                            (* size of the argument *)
  q_sel : list (option (nat * Z));      (* read off NumPy's own result at the point x (distinct entries) *)
  q_consts : list Z;                    (* the output entries that do not read the argument *)
  q_x : list Z;  q_y : list Z;          (* the point and NumPy's value there *)
  q_v : list Z;  q_y2 : list Z;         (* a displacement and NumPy's value at x + v *)
  q_g : list Z;
  q_vjp : list Z;                       (* implementation: make_vjp(f)(x)[0](g), flattened *)
  q_jvp : option (list Z);              (* implementation: make_jvp(f)(x)(v)[1]; None when forward mode raises *)
  q_ok : bool                           (* implementation: shapes right *)
}.

Definition checksel (c : caseSel) : nat :=
  if negb c.(q_ok) then 2%nat else
  if zl_eqb (zsapply c.(q_sel) c.(q_consts) c.(q_x)) c.(q_y)
     && zl_eqb (zsapply c.(q_sel) c.(q_consts) (map2 Z.add c.(q_x) c.(q_v))) c.(q_y2)
     && zl_eqb (zsscatter c.(q_n) c.(q_sel) c.(q_g)) c.(q_vjp)
     && match c.(q_jvp) with Some j => zl_eqb (zsgather c.(q_sel) c.(q_v)) j | None => true end
  then 0%nat else 1%nat.

(* np.flip of [10;20;30], cotangent [1;2;3] *)
Example checksel_ex :
  checksel {| q_n := 3; q_sel := [Some (2%nat, 1); Some (1%nat, 1); Some (0%nat, 1)]; q_consts := [0; 0; 0];
              q_x := [10; 20; 30]; q_y := [30; 20; 10]; q_v := [1; -1; 2]; q_y2 := [32; 19; 11];
              q_g := [1; 2; 3]; q_vjp := [3; 2; 1]; q_jvp := Some [2; -1; 1]; q_ok := true |} = 0%nat.
Proof. vm_compute. reflexivity. Qed.
