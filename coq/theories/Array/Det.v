(* linalg.det for 2 x 2 and 3 x 3 matrices over any commutative ring: the EXACT expansion
       det(A + H) = det A + < cof A, H > + (terms of degree >= 2 in H)
   (cof A the cofactor matrix, < , > the Euclidean pairing), and: if B is an inverse of A then det(A) * B^T = cof A.
   Hence the registered rule  g |-> g * det(x) * inv(x)^T  is g times the gradient cof A of det - the adjoint of the linear
   part.  (General n needs the Leibniz formula; the correspondence run covers n <= 4.) *)
From Coq Require Import Ring.

Section Det.
  Variable K : Type.
  Variables (k0 k1 : K) (kadd kmul ksub : K -> K -> K) (kopp : K -> K).
  Hypothesis Kring : ring_theory k0 k1 kadd kmul ksub kopp eq.
  Add Ring KRdet : Kring.
  Notation "x + y" := (kadd x y). Notation "x * y" := (kmul x y).
  Notation "x - y" := (ksub x y). Notation "- x" := (kopp x).

  (* ---- 2 x 2: [[a b] [c d]] ---- *)
  Definition det2 (a b c d : K) : K := a * d - b * c.

  Theorem det2_expansion a b c d ha hb hc hd :
    det2 (a + ha) (b + hb) (c + hc) (d + hd)
    = det2 a b c d + (d * ha + (- c) * hb + (- b) * hc + a * hd) + det2 ha hb hc hd.
  Proof. unfold det2. ring. Qed.

  (* B = [[p q] [r s]] with A B = I: det(A) B^T is the cofactor matrix [[d -c] [-b a]] *)
  Theorem det2_times_inverse a b c d p q r s :
    a * p + b * r = k1 -> a * q + b * s = k0 -> c * p + d * r = k0 -> c * q + d * s = k1 ->
    det2 a b c d * p = d /\ det2 a b c d * r = - c /\ det2 a b c d * q = - b /\ det2 a b c d * s = a.
  Proof.
    intros E1 E2 E3 E4. unfold det2. repeat split.
    - transitivity (d * (a * p + b * r) - b * (c * p + d * r)); [ring|rewrite E1, E3; ring].
    - transitivity (a * (c * p + d * r) - c * (a * p + b * r)); [ring|rewrite E1, E3; ring].
    - transitivity (d * (a * q + b * s) - b * (c * q + d * s)); [ring|rewrite E2, E4; ring].
    - transitivity (a * (c * q + d * s) - c * (a * q + b * s)); [ring|rewrite E2, E4; ring].
  Qed.

  (* ---- 3 x 3: rows (a1 a2 a3) (b1 b2 b3) (c1 c2 c3) ---- *)
  Definition det3 (a1 a2 a3 b1 b2 b3 c1 c2 c3 : K) : K :=
    a1 * (b2 * c3 - b3 * c2) - a2 * (b1 * c3 - b3 * c1) + a3 * (b1 * c2 - b2 * c1).

  (* the cofactors *)
  Definition cof11 (a1 a2 a3 b1 b2 b3 c1 c2 c3 : K) := b2 * c3 - b3 * c2.
  Definition cof12 (a1 a2 a3 b1 b2 b3 c1 c2 c3 : K) := - (b1 * c3 - b3 * c1).
  Definition cof13 (a1 a2 a3 b1 b2 b3 c1 c2 c3 : K) := b1 * c2 - b2 * c1.
  Definition cof21 (a1 a2 a3 b1 b2 b3 c1 c2 c3 : K) := - (a2 * c3 - a3 * c2).
  Definition cof22 (a1 a2 a3 b1 b2 b3 c1 c2 c3 : K) := a1 * c3 - a3 * c1.
  Definition cof23 (a1 a2 a3 b1 b2 b3 c1 c2 c3 : K) := - (a1 * c2 - a2 * c1).
  Definition cof31 (a1 a2 a3 b1 b2 b3 c1 c2 c3 : K) := a2 * b3 - a3 * b2.
  Definition cof32 (a1 a2 a3 b1 b2 b3 c1 c2 c3 : K) := - (a1 * b3 - a3 * b1).
  Definition cof33 (a1 a2 a3 b1 b2 b3 c1 c2 c3 : K) := a1 * b2 - a2 * b1.

  (* first-order part of det(A + tH) in t: < cof A, H >; the t^2 part is < cof H, A >, the t^3 part det H *)
  Theorem det3_expansion a1 a2 a3 b1 b2 b3 c1 c2 c3 h1 h2 h3 i1 i2 i3 j1 j2 j3 t :
    det3 (a1 + t * h1) (a2 + t * h2) (a3 + t * h3) (b1 + t * i1) (b2 + t * i2) (b3 + t * i3) (c1 + t * j1) (c2 + t * j2) (c3 + t * j3)
    = det3 a1 a2 a3 b1 b2 b3 c1 c2 c3
      + t * (cof11 a1 a2 a3 b1 b2 b3 c1 c2 c3 * h1 + cof12 a1 a2 a3 b1 b2 b3 c1 c2 c3 * h2 + cof13 a1 a2 a3 b1 b2 b3 c1 c2 c3 * h3
             + cof21 a1 a2 a3 b1 b2 b3 c1 c2 c3 * i1 + cof22 a1 a2 a3 b1 b2 b3 c1 c2 c3 * i2 + cof23 a1 a2 a3 b1 b2 b3 c1 c2 c3 * i3
             + cof31 a1 a2 a3 b1 b2 b3 c1 c2 c3 * j1 + cof32 a1 a2 a3 b1 b2 b3 c1 c2 c3 * j2 + cof33 a1 a2 a3 b1 b2 b3 c1 c2 c3 * j3)
      + t * t * (cof11 h1 h2 h3 i1 i2 i3 j1 j2 j3 * a1 + cof12 h1 h2 h3 i1 i2 i3 j1 j2 j3 * a2 + cof13 h1 h2 h3 i1 i2 i3 j1 j2 j3 * a3
                 + cof21 h1 h2 h3 i1 i2 i3 j1 j2 j3 * b1 + cof22 h1 h2 h3 i1 i2 i3 j1 j2 j3 * b2 + cof23 h1 h2 h3 i1 i2 i3 j1 j2 j3 * b3
                 + cof31 h1 h2 h3 i1 i2 i3 j1 j2 j3 * c1 + cof32 h1 h2 h3 i1 i2 i3 j1 j2 j3 * c2 + cof33 h1 h2 h3 i1 i2 i3 j1 j2 j3 * c3)
      + t * t * t * det3 h1 h2 h3 i1 i2 i3 j1 j2 j3.
  Proof. unfold det3, cof11, cof12, cof13, cof21, cof22, cof23, cof31, cof32, cof33. ring. Qed.

  (* Laplace: a row times its own cofactors is det, times another row's cofactors is 0; hence if B (rows p, q, r) satisfies
     B A = I, the first row of det(A) * B^T ... stated for the entries of the first column of B^T: det * B_{k1} = cof_{1k} *)
  Theorem det3_times_inverse_first_row a1 a2 a3 b1 b2 b3 c1 c2 c3 p1 p2 p3 :
    (* (p1 p2 p3) is the first COLUMN of an inverse B of A: A (p1 p2 p3)^T = e1 *)
    a1 * p1 + a2 * p2 + a3 * p3 = k1 -> b1 * p1 + b2 * p2 + b3 * p3 = k0 -> c1 * p1 + c2 * p2 + c3 * p3 = k0 ->
    det3 a1 a2 a3 b1 b2 b3 c1 c2 c3 * p1 = cof11 a1 a2 a3 b1 b2 b3 c1 c2 c3
    /\ det3 a1 a2 a3 b1 b2 b3 c1 c2 c3 * p2 = cof12 a1 a2 a3 b1 b2 b3 c1 c2 c3
    /\ det3 a1 a2 a3 b1 b2 b3 c1 c2 c3 * p3 = cof13 a1 a2 a3 b1 b2 b3 c1 c2 c3.
  Proof.
    intros E1 E2 E3. unfold det3, cof11, cof12, cof13. repeat split.
    - transitivity ((b2 * c3 - b3 * c2) * (a1 * p1 + a2 * p2 + a3 * p3) - (a2 * c3 - a3 * c2) * (b1 * p1 + b2 * p2 + b3 * p3)
                    + (a2 * b3 - a3 * b2) * (c1 * p1 + c2 * p2 + c3 * p3)); [ring|rewrite E1, E2, E3; ring].
    - transitivity (- (b1 * c3 - b3 * c1) * (a1 * p1 + a2 * p2 + a3 * p3) + (a1 * c3 - a3 * c1) * (b1 * p1 + b2 * p2 + b3 * p3)
                    - (a1 * b3 - a3 * b1) * (c1 * p1 + c2 * p2 + c3 * p3)); [ring|rewrite E1, E2, E3; ring].
    - transitivity ((b1 * c2 - b2 * c1) * (a1 * p1 + a2 * p2 + a3 * p3) - (a1 * c2 - a2 * c1) * (b1 * p1 + b2 * p2 + b3 * p3)
                    + (a1 * b2 - a2 * b1) * (c1 * p1 + c2 * p2 + c3 * p3)); [ring|rewrite E1, E2, E3; ring].
  Qed.
End Det.
