(* L4: NumPy broadcasting and autograd's unbroadcast (numpy_vjps.py:879-888)
   on flat row-major arrays, as compositions of two elementary pairs:
     Lead n m : stretch a new/size-1 LEADING axis to n      <->  sum over axis 0
     Ax P n m : stretch the size-1 axis after P outer blocks <->  sum(axis, keepdims=True)
   Each pair is adjoint for the Euclidean pairing, hence so are the
   compositions - for every rank, shape and broadcast pattern, over any
   commutative ring.  This is the array half of the exactness of every
   ufunc rule wrapped in unbroadcast_f (C01) and of the shape claim of C05. *)
From Coq Require Import List Arith Bool Lia Ring.
Import ListNotations.
From AG Require Import VSpace VSpaceProof.

Section Bcast.
  Variable K : Type.
  Variables (k0 k1 : K) (kadd kmul ksub : K -> K -> K) (kopp : K -> K).
  Hypothesis Kring : ring_theory k0 k1 kadd kmul ksub kopp eq.
  Add Ring KRb : Kring.

  Notation vadd := (vadd K kadd).
  Notation dot := (dot K k0 kadd kmul).

  (* n blocks of size m *)
  Fixpoint chunks (n m : nat) (l : list K) : list (list K) :=
    match n with
    | O => []
    | S n' => firstn m l :: chunks n' m (skipn m l)
    end.

  (* np.sum(x, axis=0) on shape (n, ...) with m = prod(...) *)
  Definition sum0 (n m : nat) (l : list K) : list K :=
    fold_right vadd (repeat k0 m) (chunks n m l).
  (* broadcasting a leading axis: n copies *)
  Definition rep0 (n : nat) (v : list K) : list K := concat (repeat v n).

  (* the same inside each of P outer blocks *)
  Definition sum_ax (P n m : nat) (l : list K) : list K :=
    concat (map (sum0 n m) (chunks P (n * m) l)).
  Definition rep_ax (P n m : nat) (v : list K) : list K :=
    concat (map (rep0 n) (chunks P m v)).

  Inductive step := Lead (n m : nat) | Ax (P n m : nat).
  Definition size_in (s : step) : nat :=
    match s with Lead n m => n * m | Ax P n m => P * (n * m) end.
  Definition size_out (s : step) : nat :=
    match s with Lead n m => m | Ax P n m => P * m end.
  Definition do_sum (s : step) (l : list K) : list K :=
    match s with Lead n m => sum0 n m l | Ax P n m => sum_ax P n m l end.
  Definition do_rep (s : step) (v : list K) : list K :=
    match s with Lead n m => rep0 n v | Ax P n m => rep_ax P n m v end.

  (* unbroadcast = the sums in order; broadcasting = the stretches in reverse *)
  Definition unbroadcast_steps (ss : list step) (g : list K) : list K :=
    fold_left (fun acc s => do_sum s acc) ss g.
  Definition broadcast_steps (ss : list step) (v : list K) : list K :=
    fold_right do_rep v ss.

  (* sizes chain: the output of each sum feeds the next *)
  Fixpoint chained (sz : nat) (ss : list step) : Prop :=
    match ss with
    | [] => True
    | s :: r => size_in s = sz /\ chained (size_out s) r
    end.
  Fixpoint final_size (sz : nat) (ss : list step) : nat :=
    match ss with [] => sz | s :: r => final_size (size_out s) r end.

  (* ---------------- lengths ---------------- *)
  Lemma vadd_length a b : length a = length b -> length (vadd a b) = length a.
  Proof. apply map2_length. Qed.

  Lemma chunks_length : forall n m l, length (chunks n m l) = n.
  Proof. induction n as [|n IH]; intros m l; simpl; [reflexivity|]. now rewrite IH. Qed.

  Lemma chunks_block : forall n m l, length l = n * m -> Forall (fun b => length b = m) (chunks n m l).
  Proof.
    induction n as [|n IH]; intros m l Hl; simpl; [constructor|]. constructor.
    - rewrite firstn_length. simpl in Hl. lia.
    - apply IH. rewrite skipn_length. simpl in Hl. lia.
  Qed.

  Lemma sum0_length n m l : length l = n * m -> length (sum0 n m l) = m.
  Proof.
    intros Hl. unfold sum0. pose proof (chunks_block n m l Hl) as Hb.
    induction Hb as [|b r Hb1 Hr IH]; simpl; [apply repeat_length|].
    rewrite vadd_length; [assumption|]. now rewrite IH.
  Qed.

  Lemma rep0_length n v : length (rep0 n v) = n * length v.
  Proof. unfold rep0. induction n as [|n IH]; simpl; [reflexivity|]. rewrite app_length, IH. lia. Qed.

  Lemma concat_uniform_length {A} (ls : list (list A)) m :
    Forall (fun b => length b = m) ls -> length (concat ls) = length ls * m.
  Proof. induction 1 as [|b r Hb Hr IH]; simpl; [reflexivity|]. rewrite app_length, IH. lia. Qed.

  Lemma sum_ax_length P n m l : length l = P * (n * m) -> length (sum_ax P n m l) = P * m.
  Proof.
    intros Hl. unfold sum_ax. rewrite (concat_uniform_length _ m).
    - now rewrite map_length, chunks_length.
    - apply Forall_map. eapply Forall_impl; [|apply (chunks_block P (n * m) l Hl)].
      intros b Hb. now apply sum0_length.
  Qed.

  Lemma rep_ax_length P n m v : length v = P * m -> length (rep_ax P n m v) = P * (n * m).
  Proof.
    intros Hl. unfold rep_ax. rewrite (concat_uniform_length _ (n * m)).
    - now rewrite map_length, chunks_length.
    - apply Forall_map. eapply Forall_impl; [|apply (chunks_block P m v Hl)].
      intros b Hb. rewrite rep0_length. now rewrite Hb.
  Qed.

  Lemma do_sum_length s l : length l = size_in s -> length (do_sum s l) = size_out s.
  Proof. destruct s; simpl; intros H; [now apply sum0_length|now apply sum_ax_length]. Qed.
  Lemma do_rep_length s v : length v = size_out s -> length (do_rep s v) = size_in s.
  Proof.
    destruct s; simpl; intros H; [rewrite rep0_length; now rewrite H|now apply rep_ax_length].
  Qed.

  (* ---------------- the two elementary adjunctions ---------------- *)
  Lemma chunks_concat : forall n m l, length l = n * m -> concat (chunks n m l) = l.
  Proof.
    induction n as [|n IH]; intros m l Hl; simpl.
    - destruct l; [reflexivity|simpl in Hl; discriminate].
    - rewrite IH; [apply firstn_skipn|]. rewrite skipn_length. simpl in Hl. lia.
  Qed.

  Lemma dot_zero_l n l : dot (repeat k0 n) l = k0.
  Proof.
    rewrite (dot_comm K k0 k1 kadd kmul ksub kopp Kring (repeat k0 n) l).
    exact (dot_zero_r K k0 k1 kadd kmul ksub kopp Kring l n).
  Qed.

  (* <g, v repeated n times> = <sum of the n blocks of g, v> *)
  Theorem lead_adjoint : forall n m g v,
      length g = n * m -> length v = m -> dot g (rep0 n v) = dot (sum0 n m g) v.
  Proof.
    induction n as [|n IH]; intros m g v Hg Hv.
    - destruct g; [|simpl in Hg; discriminate]. unfold rep0, sum0. simpl.
      now rewrite dot_zero_l.
    - unfold rep0, sum0. simpl. fold (rep0 n v). fold (sum0 n m (skipn m g)).
      rewrite <- (firstn_skipn m g) at 1.
      rewrite (dot_app K k0 k1 kadd kmul ksub kopp Kring) by (rewrite firstn_length; simpl in Hg; lia).
      rewrite (IH m (skipn m g) v) by (try rewrite skipn_length; simpl in Hg; lia).
      rewrite (dot_add_l K k0 k1 kadd kmul ksub kopp Kring); [reflexivity|].
      rewrite firstn_length, sum0_length by (rewrite skipn_length; simpl in Hg; lia).
      simpl in Hg. lia.
  Qed.

  Theorem ax_adjoint : forall P n m g v,
      length g = P * (n * m) -> length v = P * m ->
      dot g (rep_ax P n m v) = dot (sum_ax P n m g) v.
  Proof.
    induction P as [|P IH]; intros n m g v Hg Hv.
    - destruct g; [|simpl in Hg; discriminate]. destruct v; [|simpl in Hv; discriminate]. reflexivity.
    - unfold rep_ax, sum_ax. simpl.
      fold (rep_ax P n m (skipn m v)). fold (sum_ax P n m (skipn (n * m) g)).
      rewrite <- (firstn_skipn (n * m) g) at 1. rewrite <- (firstn_skipn m v) at 3.
      assert (L1 : length (firstn (n * m) g) = n * m) by (rewrite firstn_length; simpl in Hg; lia).
      assert (L2 : length (firstn m v) = m) by (rewrite firstn_length; simpl in Hv; lia).
      rewrite (dot_app K k0 k1 kadd kmul ksub kopp Kring) by (rewrite rep0_length; lia).
      rewrite (dot_app K k0 k1 kadd kmul ksub kopp Kring) by (rewrite sum0_length; lia).
      rewrite (lead_adjoint n m) by assumption.
      rewrite (IH n m (skipn (n * m) g) (skipn m v)) by (rewrite skipn_length; simpl in Hg, Hv; lia).
      reflexivity.
  Qed.

  Lemma step_adjoint s g v :
    length g = size_in s -> length v = size_out s -> dot g (do_rep s v) = dot (do_sum s g) v.
  Proof. destruct s; simpl; intros; [now apply lead_adjoint|now apply ax_adjoint]. Qed.

  (* ---------------- compositions ---------------- *)
  Lemma unbroadcast_length : forall ss sz g,
      chained sz ss -> length g = sz -> length (unbroadcast_steps ss g) = final_size sz ss.
  Proof.
    induction ss as [|s r IH]; intros sz g Hc Hg; simpl; [assumption|].
    destruct Hc as [Hs Hr]. apply IH; [assumption|]. apply do_sum_length. congruence.
  Qed.

  Lemma broadcast_length : forall ss sz v,
      chained sz ss -> length v = final_size sz ss -> length (broadcast_steps ss v) = sz.
  Proof.
    induction ss as [|s r IH]; intros sz v Hc Hv; simpl; [assumption|].
    destruct Hc as [Hs Hr]. rewrite do_rep_length; [assumption|]. now apply IH.
  Qed.

  (* unbroadcast is the adjoint of broadcasting, and lands in the target's space *)
  Theorem unbroadcast_adjoint : forall ss sz g v,
      chained sz ss -> length g = sz -> length v = final_size sz ss ->
      dot g (broadcast_steps ss v) = dot (unbroadcast_steps ss g) v
      /\ length (unbroadcast_steps ss g) = length v.
  Proof.
    induction ss as [|s r IH]; intros sz g v Hc Hg Hv; simpl.
    - simpl in Hv. split; [reflexivity|congruence].
    - destruct Hc as [Hs Hr]. simpl in Hv.
      assert (Hl : length (do_sum s g) = size_out s) by (apply do_sum_length; congruence).
      destruct (IH (size_out s) (do_sum s g) v Hr Hl Hv) as [E L]. split; [|assumption].
      rewrite <- E. apply step_adjoint; [congruence|].
      now apply (broadcast_length r (size_out s)).
  Qed.
  (* reductions: np.sum over axes is a chain of the same sums, and its VJP
     (numpy_vjps.repeat_to_match_shape: reshape to the keepdims shape, then
     broadcast) is the chain of stretches - the adjoint, and in the input's space *)
  Theorem sum_rule_adjoint : forall ss sz x g,
      chained sz ss -> length x = sz -> length g = final_size sz ss ->
      dot g (unbroadcast_steps ss x) = dot (broadcast_steps ss g) x
      /\ length (broadcast_steps ss g) = length x.
  Proof.
    intros ss sz x g Hc Hx Hg.
    destruct (unbroadcast_adjoint ss sz x g Hc Hx Hg) as [E _]. split.
    - rewrite (dot_comm K k0 k1 kadd kmul ksub kopp Kring g), <- E.
      apply (dot_comm K k0 k1 kadd kmul ksub kopp Kring).
    - rewrite (broadcast_length ss sz g Hc Hg). now symmetry.
  Qed.
End Bcast.
