(* linalg.inv and linalg.solve (square matrices of any size, over any commutative ring).
   (1) ALGEBRA: if B is the inverse of A and B' the inverse of A + dA, then  B' - B = - B dA B'  exactly (the resolvent
       identity), hence  inv(A + dA) = inv(A) - B dA B + B dA B dA B' : the linear map dA |-> - B dA B is the derivative
       (JVP) of inv, with an explicit second-order remainder; likewise for solve, x' - x = B' (db - dA x).
   (2) ADJOINTS: the registered VJPs  g |-> -(B^T g) B^T  (inv),  g |-> B^T g  and  g |-> -(B^T g) x^T  (solve) are the
       adjoints of those linear maps under the Euclidean pairing. *)
From Coq Require Import List Arith Bool Lia Ring.
Import ListNotations.
From AG Require Import MatMul.

Section LA.
  Variable K : Type.
  Variables (k0 k1 : K) (kadd kmul ksub : K -> K -> K) (kopp : K -> K).
  Hypothesis Kring : ring_theory k0 k1 kadd kmul ksub kopp eq.
  Add Ring KRla : Kring.
  Notation mat := (mat K).
  Notation mm := (mm K k0 kadd kmul).
  Notation tr := (tr K).
  Notation madd := (madd K kadd).
  Notation pair := (pair K k0 kadd kmul).
  Notation sumn := (sumn K k0 kadd).

  Definition mneg (A : mat) : mat := fun i j => kopp (A i j).
  Definition mid : mat := fun i j => if Nat.eqb i j then k1 else k0.
  (* equality of the n x p blocks *)
  Definition meq (n p : nat) (A B : mat) : Prop := forall i k, i < n -> k < p -> A i k = B i k.

  Lemma sumn_ext' n f g : (forall i, i < n -> f i = g i) -> sumn n f = sumn n g.
  Proof. apply (sumn_ext K k0 kadd). Qed.

  Lemma sumn_add n f g : sumn n (fun i => kadd (f i) (g i)) = kadd (sumn n f) (sumn n g).
  Proof. apply (ksum_add K k0 k1 kadd kmul ksub kopp Kring). Qed.

  Lemma sumn_zero n : sumn n (fun _ => k0) = k0.
  Proof. apply (ksum_zero K k0 k1 kadd kmul ksub kopp Kring). Qed.

  Lemma sumn_delta_l n (f : nat -> K) i : i < n -> sumn n (fun j => kmul (if Nat.eqb i j then k1 else k0) (f j)) = f i.
  Proof.
    intros Hi. unfold MatMul.sumn.
    assert (G : forall m off, off <= i < off + m ->
              MatMul.ksum K k0 kadd (map (fun j => kmul (if Nat.eqb i j then k1 else k0) (f j)) (seq off m)) = f i).
    { induction m as [|m IH]; intros off Ho; [lia|]. simpl. destruct (Nat.eqb_spec i off) as [->|Hne].
      - rewrite (ksum_ext K k0 kadd _ (fun _ => k0)).
        + rewrite (ksum_zero K k0 k1 kadd kmul ksub kopp Kring). ring.
        + intros x Hx. apply in_seq in Hx. destruct (Nat.eqb_spec off x); [lia|ring].
      - rewrite IH by lia. ring. }
    apply G. lia.
  Qed.

  Lemma mm_id_l n (A : mat) i k : i < n -> mm n mid A i k = A i k.
  Proof. intros Hi. unfold MatMul.mm, mid. now apply (sumn_delta_l n (fun j => A j k) i). Qed.

  Lemma sumn_delta_r n (f : nat -> K) k : k < n -> sumn n (fun j => kmul (f j) (if Nat.eqb j k then k1 else k0)) = f k.
  Proof.
    intros Hk. rewrite (sumn_ext' n _ (fun j => kmul (if Nat.eqb k j then k1 else k0) (f j))).
    - now apply sumn_delta_l.
    - intros j _. rewrite (Nat.eqb_sym j k). ring.
  Qed.

  Lemma mm_id_r n (A : mat) i k : k < n -> mm n A mid i k = A i k.
  Proof. intros Hk. unfold MatMul.mm, mid. now apply (sumn_delta_r n (fun j => A i j) k). Qed.

  Lemma mm_assoc n (A B C : mat) i k : mm n (mm n A B) C i k = mm n A (mm n B C) i k.
  Proof.
    unfold MatMul.mm.
    rewrite (sumn_ext' n _ (fun j => sumn n (fun l => kmul (kmul (A i l) (B l j)) (C j k)))).
    2:{ intros j _. now rewrite (sumn_scale_r K k0 k1 kadd kmul ksub kopp Kring). }
    rewrite (sumn_swap K k0 k1 kadd kmul ksub kopp Kring). apply sumn_ext'. intros l _.
    rewrite <- (sumn_scale K k0 k1 kadd kmul ksub kopp Kring). apply sumn_ext'. intros j _. ring.
  Qed.

  Lemma mm_ext_l n (A A' B : mat) i k : (forall j, j < n -> A i j = A' i j) -> mm n A B i k = mm n A' B i k.
  Proof. intros H. unfold MatMul.mm. apply sumn_ext'. intros j Hj. now rewrite H. Qed.
  Lemma mm_ext_r n (A B B' : mat) i k : (forall j, j < n -> B j k = B' j k) -> mm n A B i k = mm n A B' i k.
  Proof. intros H. unfold MatMul.mm. apply sumn_ext'. intros j Hj. now rewrite H. Qed.

  Lemma mm_add_l n (A A' B : mat) i k : mm n (madd A A') B i k = kadd (mm n A B i k) (mm n A' B i k).
  Proof. unfold MatMul.mm, MatMul.madd. rewrite <- sumn_add. apply sumn_ext'. intros; ring. Qed.
  Lemma mm_add_r n (A B B' : mat) i k : mm n A (madd B B') i k = kadd (mm n A B i k) (mm n A B' i k).
  Proof. unfold MatMul.mm, MatMul.madd. rewrite <- sumn_add. apply sumn_ext'. intros; ring. Qed.
  Lemma mm_neg_l n (A B : mat) i k : mm n (mneg A) B i k = kopp (mm n A B i k).
  Proof.
    unfold MatMul.mm, mneg.
    rewrite (sumn_ext' n _ (fun j => kmul (kopp k1) (kmul (A i j) (B j k)))) by (intros; ring).
    rewrite (sumn_scale K k0 k1 kadd kmul ksub kopp Kring). ring.
  Qed.

  (* ---- (1) the resolvent identity: B' - B = - B dA B' ---- *)
  Theorem inverse_displacement n (A dA B B' : mat) :
    meq n n (mm n B A) mid ->                       (* B is a left inverse of A *)
    meq n n (mm n (madd A dA) B') mid ->            (* B' is a right inverse of A + dA *)
    forall i k, i < n -> k < n ->
      B' i k = kadd (B i k) (kopp (mm n (mm n B dA) B' i k)).
  Proof.
    intros HBA HAB' i k Hi Hk.
    (* B' = (B A) B'  and  B = B ((A + dA) B') = B A B' + B dA B' *)
    assert (E1 : B' i k = mm n (mm n B A) B' i k).
    { rewrite (mm_ext_l n (mm n B A) mid B' i k) by (intros j Hj; now apply HBA). now rewrite mm_id_l. }
    assert (E2 : B i k = mm n B (mm n (madd A dA) B') i k).
    { rewrite (mm_ext_r n B (mm n (madd A dA) B') mid i k) by (intros j Hj; now apply HAB'). now rewrite mm_id_r. }
    assert (E3 : mm n B (mm n (madd A dA) B') i k = kadd (mm n (mm n B A) B' i k) (mm n (mm n B dA) B' i k)).
    { rewrite <- mm_assoc. rewrite (mm_ext_l n (mm n B (madd A dA)) (madd (mm n B A) (mm n B dA)) B' i k).
      - apply mm_add_l.
      - intros j _. apply mm_add_r. }
    rewrite E2, E3, <- E1. ring.
  Qed.

  (* ... so the linear map dA |-> - B dA B is the derivative of inv, with the second-order remainder B dA B dA B' *)
  Theorem inverse_second_order n (A dA B B' : mat) :
    meq n n (mm n B A) mid -> meq n n (mm n (madd A dA) B') mid ->
    forall i k, i < n -> k < n ->
      B' i k = kadd (kadd (B i k) (kopp (mm n (mm n B dA) B i k))) (mm n (mm n B dA) (mm n (mm n B dA) B') i k).
  Proof.
    intros HBA HAB' i k Hi Hk.
    rewrite (inverse_displacement n A dA B B' HBA HAB' i k Hi Hk) at 1.
    rewrite (mm_ext_r n (mm n B dA) B' (madd B (mneg (mm n (mm n B dA) B'))) i k).
    2:{ intros j Hj. unfold MatMul.madd, mneg. now apply inverse_displacement with (A := A). }
    rewrite mm_add_r.
    assert (E : mm n (mm n B dA) (mneg (mm n (mm n B dA) B')) i k = kopp (mm n (mm n B dA) (mm n (mm n B dA) B') i k)).
    { unfold MatMul.mm, mneg.
      rewrite (sumn_ext' n _ (fun j => kmul (kopp k1) (kmul (sumn n (fun j0 => kmul (B i j0) (dA j0 j))) (sumn n (fun j0 => kmul (sumn n (fun j1 => kmul (B j j1) (dA j1 j0))) (B' j0 k))))))
        by (intros; ring).
      rewrite (sumn_scale K k0 k1 kadd kmul ksub kopp Kring). ring. }
    rewrite E. ring.
  Qed.

  (* solve: x = B b, x' = B' (b + db):  x' - x = B' (db - dA x)  when B, B' are the inverses *)
  Theorem solve_displacement n p (A dA B B' b db : mat) :
    meq n n (mm n B' (madd A dA)) mid ->      (* B' is a left inverse of A + dA *)
    meq n n (mm n A B) mid ->                 (* B is a right inverse of A *)
    forall i k, i < n -> k < p ->
      mm n B' (madd b db) i k
      = kadd (mm n B b i k) (mm n B' (madd db (mneg (mm n dA (mm n B b)))) i k).
  Proof.
    intros HB'A HAB i k Hi Hk.
    (* B b = B' (A + dA) (B b) = B' (A B b) + B' dA (B b) = B' b + B' dA x *)
    assert (E1 : mm n B b i k = mm n (mm n B' (madd A dA)) (mm n B b) i k).
    { rewrite (mm_ext_l n (mm n B' (madd A dA)) mid (mm n B b) i k) by (intros j Hj; now apply HB'A). now rewrite mm_id_l. }
    assert (E2 : mm n (mm n B' (madd A dA)) (mm n B b) i k
                 = kadd (mm n B' b i k) (mm n B' (mm n dA (mm n B b)) i k)).
    { rewrite mm_assoc.
      rewrite (mm_ext_r n B' (mm n (madd A dA) (mm n B b)) (madd b (mm n dA (mm n B b))) i k).
      - apply mm_add_r.
      - intros j Hj. rewrite mm_add_l. unfold MatMul.madd. f_equal.
        rewrite <- mm_assoc. rewrite (mm_ext_l n (mm n A B) mid b j k) by (intros l Hl; now apply HAB). now rewrite mm_id_l. }
    rewrite !mm_add_r.
    assert (E3 : mm n B' (mneg (mm n dA (mm n B b))) i k = kopp (mm n B' (mm n dA (mm n B b)) i k)).
    { unfold MatMul.mm at 1. unfold mneg.
      rewrite (sumn_ext' n _ (fun j => kmul (kopp k1) (kmul (B' i j) (mm n dA (mm n B b) j k)))) by (intros; ring).
      rewrite (sumn_scale K k0 k1 kadd kmul ksub kopp Kring). unfold MatMul.mm. ring. }
    rewrite E3, E1, E2. ring.
  Qed.

  (* ---- (2) the registered VJPs are the adjoints of the linear parts ---- *)
  Lemma pair_ext m p (X X' Y Y' : mat) : meq m p X X' -> meq m p Y Y' -> pair m p X Y = pair m p X' Y'.
  Proof.
    intros HX HY. unfold MatMul.pair. apply sumn_ext'. intros i Hi. apply sumn_ext'. intros k Hk.
    now rewrite HX, HY.
  Qed.
  Lemma pair_neg_r m p (X Y : mat) : pair m p X (mneg Y) = kopp (pair m p X Y).
  Proof.
    unfold MatMul.pair, mneg.
    rewrite (sumn_ext' m _ (fun i => kmul (kopp k1) (sumn p (fun k => kmul (X i k) (Y i k))))).
    - rewrite (sumn_scale K k0 k1 kadd kmul ksub kopp Kring). ring.
    - intros i _. rewrite <- (sumn_scale K k0 k1 kadd kmul ksub kopp Kring). apply sumn_ext'. intros; ring.
  Qed.
  Lemma pair_neg_l m p (X Y : mat) : pair m p (mneg X) Y = kopp (pair m p X Y).
  Proof.
    unfold MatMul.pair, mneg.
    rewrite (sumn_ext' m _ (fun i => kmul (kopp k1) (sumn p (fun k => kmul (X i k) (Y i k))))).
    - rewrite (sumn_scale K k0 k1 kadd kmul ksub kopp Kring). ring.
    - intros i _. rewrite <- (sumn_scale K k0 k1 kadd kmul ksub kopp Kring). apply sumn_ext'. intros; ring.
  Qed.

  (* grad_inv: g |-> -dot(dot(T(ans), g), T(ans))  is the adjoint of  dA |-> - ans dA ans *)
  Theorem inv_rule_adjoint n (G B dA : mat) :
    pair n n G (mneg (mm n (mm n B dA) B)) = pair n n (mneg (mm n (mm n (tr B) G) (tr B))) dA.
  Proof.
    rewrite pair_neg_r, pair_neg_l. f_equal.
    rewrite (dot_adjoint_first K k0 k1 kadd kmul ksub kopp Kring n n n G (mm n B dA) B).
    rewrite (dot_adjoint_second K k0 k1 kadd kmul ksub kopp Kring n n n (mm n G (tr B)) B dA).
    apply pair_ext; [|intros ? ? ? ?; reflexivity].
    intros i k Hi Hk. symmetry. apply mm_assoc.
  Qed.

  (* grad_solve wrt b: g |-> solve(T(a), g) = B^T g  is the adjoint of  db |-> B db *)
  Theorem solve_rule_adjoint_b n p (G B db : mat) :
    pair n p G (mm n B db) = pair n p (mm n (tr B) G) db.
  Proof. apply (dot_adjoint_second K k0 k1 kadd kmul ksub kopp Kring). Qed.

  (* grad_solve wrt a: g |-> -dot(solve(T(a), g), T(ans)) = -(B^T g) x^T  is the adjoint of  dA |-> - B dA x *)
  Theorem solve_rule_adjoint_a n p (G B dA X : mat) :
    pair n p G (mneg (mm n B (mm n dA X))) = pair n n (mneg (mm p (mm n (tr B) G) (tr X))) dA.
  Proof.
    rewrite pair_neg_r, pair_neg_l. f_equal.
    rewrite (dot_adjoint_second K k0 k1 kadd kmul ksub kopp Kring n n p G B (mm n dA X)).
    apply (dot_adjoint_first K k0 k1 kadd kmul ksub kopp Kring).
  Qed.
End LA.
