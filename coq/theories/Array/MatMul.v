(* The rules of dot / matmul on matrices: the registered VJPs (dot_adjoint_0:
   G B^T, dot_adjoint_1: A^T G) are the adjoints of the two partial maps, and the
   JVP (def_linear: dA B + A dB) is their sum - for all sizes, over any
   commutative ring.  Matrices are functions of (row, column). *)
From Coq Require Import List Arith Bool Lia Ring.
Import ListNotations.

Section MM.
  Variable K : Type.
  Variables (k0 k1 : K) (kadd kmul ksub : K -> K -> K) (kopp : K -> K).
  Hypothesis Kring : ring_theory k0 k1 kadd kmul ksub kopp eq.
  Add Ring KRmm : Kring.

  Fixpoint ksum (l : list K) : K := match l with [] => k0 | x :: r => kadd x (ksum r) end.
  Definition sumn (n : nat) (f : nat -> K) : K := ksum (map f (seq 0 n)).
  Definition mat := nat -> nat -> K.

  Definition mm (n : nat) (A B : mat) : mat := fun i k => sumn n (fun j => kmul (A i j) (B j k)).
  Definition tr (A : mat) : mat := fun i j => A j i.
  Definition madd (A B : mat) : mat := fun i j => kadd (A i j) (B i j).
  (* the Euclidean pairing of two m x p matrices *)
  Definition pair (m p : nat) (X Y : mat) : K := sumn m (fun i => sumn p (fun k => kmul (X i k) (Y i k))).

  Lemma ksum_ext {A} (f g : A -> K) l : (forall x, In x l -> f x = g x) -> ksum (map f l) = ksum (map g l).
  Proof. induction l as [|a l IH]; simpl; intros H; [reflexivity|]. rewrite H by now left. rewrite IH; [reflexivity|]. intros; apply H; now right. Qed.
  Lemma sumn_ext n f g : (forall i, i < n -> f i = g i) -> sumn n f = sumn n g.
  Proof. intros H. apply ksum_ext. intros x Hx. apply in_seq in Hx. apply H. lia. Qed.
  Lemma ksum_add {A} (f g : A -> K) l : ksum (map (fun x => kadd (f x) (g x)) l) = kadd (ksum (map f l)) (ksum (map g l)).
  Proof. induction l as [|a l IH]; simpl; [ring|]. rewrite IH. ring. Qed.
  Lemma ksum_scale {A} c (f : A -> K) l : ksum (map (fun x => kmul c (f x)) l) = kmul c (ksum (map f l)).
  Proof. induction l as [|a l IH]; simpl; [ring|]. rewrite IH. ring. Qed.
  Lemma ksum_zero {A} (l : list A) : ksum (map (fun _ => k0) l) = k0.
  Proof. induction l as [|a l IH]; simpl; [reflexivity|]. rewrite IH. ring. Qed.
  (* exchange of two finite sums *)
  Lemma ksum_swap {A B} (f : A -> B -> K) la lb :
    ksum (map (fun a => ksum (map (fun b => f a b) lb)) la) = ksum (map (fun b => ksum (map (fun a => f a b) la)) lb).
  Proof.
    induction la as [|a la IH]; simpl.
    - now rewrite ksum_zero.
    - rewrite IH, <- ksum_add. reflexivity.
  Qed.
  Lemma sumn_swap n m (f : nat -> nat -> K) :
    sumn n (fun i => sumn m (fun j => f i j)) = sumn m (fun j => sumn n (fun i => f i j)).
  Proof. apply ksum_swap. Qed.
  Lemma sumn_scale n c f : sumn n (fun i => kmul c (f i)) = kmul c (sumn n f).
  Proof. apply ksum_scale. Qed.
  Lemma sumn_scale_r n c f : sumn n (fun i => kmul (f i) c) = kmul (sumn n f) c.
  Proof. unfold sumn. rewrite (ksum_ext _ (fun i => kmul c (f i))) by (intros; ring). rewrite ksum_scale. ring. Qed.

  (* <G, dA B> = <G B^T, dA> : the VJP with respect to the first factor *)
  Theorem dot_adjoint_first m n p (G dA B : mat) :
    pair m p G (mm n dA B) = pair m n (mm p G (tr B)) dA.
  Proof.
    unfold pair, mm, tr. apply sumn_ext. intros i _.
    rewrite (sumn_ext p _ (fun k => sumn n (fun j => kmul (kmul (G i k) (B j k)) (dA i j)))).
    2:{ intros k _. rewrite <- sumn_scale. apply sumn_ext. intros j _. ring. }
    rewrite sumn_swap. apply sumn_ext. intros j _. now rewrite sumn_scale_r.
  Qed.

  (* <G, A dB> = <A^T G, dB> : the VJP with respect to the second factor *)
  Theorem dot_adjoint_second m n p (G A dB : mat) :
    pair m p G (mm n A dB) = pair n p (mm m (tr A) G) dB.
  Proof.
    unfold pair, mm, tr.
    rewrite (sumn_ext m _ (fun i => sumn n (fun j => sumn p (fun k => kmul (kmul (A i j) (G i k)) (dB j k))))).
    2:{ intros i _. rewrite (sumn_ext p _ (fun k => sumn n (fun j => kmul (kmul (A i j) (G i k)) (dB j k)))).
        - apply sumn_swap.
        - intros k _. rewrite <- sumn_scale. apply sumn_ext. intros j _. ring. }
    rewrite sumn_swap. apply sumn_ext. intros j _.
    rewrite sumn_swap. apply sumn_ext. intros k _. now rewrite sumn_scale_r.
  Qed.

  (* the product is bilinear: its JVP is dA B + A dB *)
  Theorem dot_jvp n (A B dA dB : mat) i k :
    mm n (madd A dA) (madd B dB) i k
    = kadd (kadd (mm n A B i k) (kadd (mm n dA B i k) (mm n A dB i k))) (mm n dA dB i k).
  Proof.
    unfold mm, madd. unfold sumn. rewrite <- !ksum_add. apply ksum_ext. intros j _. ring.
  Qed.
End MM.

(* ---- executable Z instance for the correspondence run ---- *)
From Coq Require Import ZArith.
Definition zmat_of (l : list (list Z)) : nat -> nat -> Z := fun i j => nth j (nth i l []) 0%Z.
Definition zto_list (m p : nat) (F : nat -> nat -> Z) : list (list Z) :=
  map (fun i => map (fun k => F i k) (seq 0 p)) (seq 0 m).
Definition zmm := mm Z 0%Z Z.add Z.mul.
Definition zdot (m n p : nat) (A B : list (list Z)) := zto_list m p (zmm n (zmat_of A) (zmat_of B)).
Definition zvjp_first (m n p : nat) (G B : list (list Z)) := zto_list m n (zmm p (zmat_of G) (tr Z (zmat_of B))).
Definition zvjp_second (m n p : nat) (G A : list (list Z)) := zto_list n p (zmm m (tr Z (zmat_of A)) (zmat_of G)).

Fixpoint zll_eqb (a b : list (list Z)) : bool :=
  match a, b with
  | [], [] => true
  | x :: a', y :: b' =>
    (fix leq (u v : list Z) : bool :=
       match u, v with
       | [], [] => true
       | p :: u', q :: v' => Z.eqb p q && leq u' v'
       | _, _ => false
       end) x y && zll_eqb a' b'
  | _, _ => false
  end.

Record casemm := {
  mm_m : nat; mm_n : nat; mm_p : nat;
  mm_A : list (list Z); mm_B : list (list Z); mm_G : list (list Z);
  mm_impl_dot : list (list Z);      (* numpy.dot(A, B) *)
  mm_impl_vjpA : list (list Z);     (* autograd's VJP of dot with respect to A, applied to G *)
  mm_impl_vjpB : list (list Z);     (* ... with respect to B *)
  mm_impl_jvp : list (list Z);      (* autograd's JVP with respect to A in direction G B^T-shaped dA = mm_impl_vjpA: dA B *)
  mm_adjoint_ok : bool              (* <G, dA B> = <vjpA, dA> and <G, A dB> = <vjpB, dB> for basis dA, dB, on the implementation *)
}.
Definition checkmm (c : casemm) : nat :=
  if negb c.(mm_adjoint_ok) then 2%nat else
  if zll_eqb (zdot c.(mm_m) c.(mm_n) c.(mm_p) c.(mm_A) c.(mm_B)) c.(mm_impl_dot)
     && zll_eqb (zvjp_first c.(mm_m) c.(mm_n) c.(mm_p) c.(mm_G) c.(mm_B)) c.(mm_impl_vjpA)
     && zll_eqb (zvjp_second c.(mm_m) c.(mm_n) c.(mm_p) c.(mm_G) c.(mm_A)) c.(mm_impl_vjpB)
     && zll_eqb (zdot c.(mm_m) c.(mm_n) c.(mm_p) c.(mm_impl_vjpA) c.(mm_B)) c.(mm_impl_jvp)
  then 0%nat else 1%nat.
