(* Selection primitives.  A large family of NumPy functions only MOVE entries of their argument (possibly several
   times, possibly with a constant weight such as a sign), filling the remaining output positions with values that do not
   depend on the argument: reshape, ravel, transpose, swapaxes, moveaxis, squeeze, expand_dims, flip*, roll, rot90,
   repeat, tile, take, diag, diagonal, tril, triu, pad(constant), broadcast_to, atleast_nd, concatenate / stack /
   append (per block), split pieces, where / select (per branch), and - at points without ties - sort, partition,
   max / min, maximum / minimum / fmax / fmin, clip, abs.  Such a function is described by one list
       sel : list (option (nat * K))
   (output position j reads  w * x[i]  for  sel[j] = Some (i, w),  a constant for None).  Its Jacobian is the matrix
   with one weighted unit entry per row, so J v = sgather sel v  and  J^T g = sscatter n sel g: the scatter-add of the
   weighted cotangent entries, repeated source positions accumulating.  Proved over any commutative ring, for every
   such list. *)
From Coq Require Import List Arith Bool Lia Ring.
Import ListNotations.
From AG Require Import VSpace VSpaceProof Index.

Section Sel.
  Variable K : Type.
  Variables (k0 k1 : K) (kadd kmul ksub : K -> K -> K) (kopp : K -> K).
  Hypothesis Kring : ring_theory k0 k1 kadd kmul ksub kopp eq.
  Add Ring KRs : Kring.
  Notation dot := (dot K k0 kadd kmul).
  Notation add_at := (add_at K kadd).

  Definition entry := option (nat * K).

  (* the linear part of the function: J v *)
  Definition sgather (sel : list entry) (v : list K) : list K :=
    map (fun o => match o with Some (i, w) => kmul w (nth i v k0) | None => k0 end) sel.

  (* the function itself, given the constants at the positions that do not read the argument *)
  Definition sapply (sel : list entry) (consts : list K) (x : list K) : list K :=
    map (fun oc => match fst oc with Some (i, w) => kmul w (nth i x k0) | None => snd oc end) (combine sel consts).

  (* the reverse rule: scatter-add of the weighted cotangent *)
  Fixpoint sscatter_into (a : list K) (sel : list entry) (g : list K) : list K :=
    match sel, g with
    | o :: s', x :: g' =>
        sscatter_into (match o with Some (i, w) => add_at a i (kmul w x) | None => a end) s' g'
    | _, _ => a
    end.
  Definition sscatter (n : nat) (sel : list entry) (g : list K) : list K := sscatter_into (repeat k0 n) sel g.

  Definition in_bounds (n : nat) (o : entry) : Prop := match o with Some (i, _) => i < n | None => True end.

  Lemma sscatter_into_length : forall sel g a, length (sscatter_into a sel g) = length a.
  Proof.
    induction sel as [|o s IH]; intros [|x g] a; simpl; auto.
    destruct o as [[i w]|]; rewrite IH; auto. apply add_at_length.
  Qed.

  Lemma dot_cons x g y u : dot (x :: g) (y :: u) = kadd (kmul x y) (dot g u).
  Proof. unfold VSpaceProof.dot. simpl. reflexivity. Qed.

  Theorem sscatter_into_adjoint : forall sel g a v,
      Forall (in_bounds (length a)) sel -> length g = length sel -> length v = length a ->
      dot (sscatter_into a sel g) v = kadd (dot a v) (dot g (sgather sel v)).
  Proof.
    induction sel as [|o s IH]; intros g a v Hs Hg Hv.
    - destruct g; [|simpl in Hg; discriminate]. simpl. unfold VSpaceProof.dot. simpl. ring.
    - destruct g as [|x g]; [simpl in Hg; discriminate|]. simpl.
      pose proof (Forall_inv Hs) as Hi. pose proof (Forall_inv_tail Hs) as Hs'. simpl in Hg.
      destruct o as [[i w]|].
      + rewrite IH.
        * rewrite (dot_add_at K k0 k1 kadd kmul ksub kopp Kring) by assumption.
          change (sgather (Some (i, w) :: s) v) with (kmul w (nth i v k0) :: sgather s v).
          rewrite dot_cons. ring.
        * rewrite add_at_length. exact Hs'.
        * lia.
        * now rewrite add_at_length.
      + rewrite IH by (auto; lia).
        change (sgather (None :: s) v) with (k0 :: sgather s v).
        rewrite dot_cons. ring.
  Qed.

  (* J^T g = sscatter: the adjoint identity against J v = sgather, in the argument's space *)
  Theorem selection_rule_adjoint n sel g v :
    Forall (in_bounds n) sel -> length g = length sel -> length v = n ->
    dot (sscatter n sel g) v = dot g (sgather sel v)
    /\ length (sscatter n sel g) = n
    /\ length (sgather sel v) = length sel.
  Proof.
    intros Hs Hg Hv. unfold sscatter. split; [|split].
    - assert (Hs' : Forall (in_bounds (length (repeat k0 n))) sel) by (rewrite repeat_length; exact Hs).
      rewrite (sscatter_into_adjoint sel g (repeat k0 n) v Hs' Hg) by (now rewrite repeat_length).
      rewrite (dot_comm K k0 k1 kadd kmul ksub kopp Kring (repeat k0 n) v).
      rewrite (dot_zero_r K k0 k1 kadd kmul ksub kopp Kring v n). ring.
    - now rewrite sscatter_into_length, repeat_length.
    - unfold sgather. now rewrite map_length.
  Qed.

  (* sgather IS the linear part of the function: f(x + v) - f(x) = J v, exactly, whatever the constants *)
  Lemma nth_vadd : forall (x v : list K) i, length x = length v ->
      nth i (VSpaceProof.vadd K kadd x v) k0 = kadd (nth i x k0) (nth i v k0).
  Proof.
    unfold VSpaceProof.vadd.
    induction x as [|a x IH]; intros [|b v] i Hl; simpl in *; try discriminate.
    - destruct i; ring.
    - destruct i; [reflexivity|]. apply IH. lia.
  Qed.

  Theorem sapply_affine : forall sel consts x v,
      length x = length v -> length consts = length sel ->
      sapply sel consts (VSpaceProof.vadd K kadd x v)
      = VSpaceProof.vadd K kadd (sapply sel consts x) (sgather sel v).
  Proof.
    unfold sapply, sgather.
    induction sel as [|o s IH]; intros [|c cs] x v Hl Hc; simpl in *; try discriminate; auto.
    match goal with |- _ = VSpaceProof.vadd K kadd (?a :: ?l) (?b :: ?m) =>
      change (VSpaceProof.vadd K kadd (a :: l) (b :: m)) with (kadd a b :: VSpaceProof.vadd K kadd l m) end.
    f_equal.
    - destruct o as [[i w]|]; simpl; [rewrite nth_vadd by assumption|]; ring.
    - apply IH; auto.
  Qed.
End Sel.
