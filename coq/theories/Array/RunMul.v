(* Executable Z instance of the multilinear-primitive model (Multilinear.v) for the correspondence with autograd.numpy. *)
From Coq Require Import List Arith Bool ZArith.
Import ListNotations.
From AG Require Import VSpace VSpaceProof Index Run01.
From AG Require Import Multilinear.
Local Open Scope Z_scope.

Definition zmterm := mterm Z.
Definition mkm (idx : list nat) (o : nat) (c : Z) : zmterm := {| mi := idx; mo := o; mc := c |}.
Definition zmul := mul Z 0 1 Z.add Z.mul.
Definition zmvjp := mvjp Z 0 1 Z.add Z.mul.

Fixpoint setn {A} (k : nat) (v : A) (l : list A) : list A :=
  match l, k with
  | [], _ => []
  | _ :: r, O => v :: r
  | x :: r, S k' => x :: setn k' v r
  end.

Record caseMul := {
  u_no : nat; u_S : list zmterm; u_As : list (list Z); u_g : list Z; u_dAs : list (list Z);
  u_val : list Z;                          (* NumPy's value *)
  u_vjps : list (list Z);                  (* implementation: make_vjp with respect to each operand, applied to g *)
  u_jvps : list (option (list Z));         (* implementation: make_jvp with respect to each operand; None when forward mode raises *)
  u_ok : bool }.

Definition oeqm (m : list Z) (o : option (list Z)) : bool := match o with Some j => zl_eqb m j | None => true end.

Definition checkmul (c : caseMul) : nat :=
  if negb c.(u_ok) then 2%nat else
  let m := length c.(u_As) in
  if zl_eqb (zmul c.(u_no) c.(u_S) c.(u_As)) c.(u_val)
     && forallb (fun k => zl_eqb (zmvjp k (length (nth k c.(u_As) [])) c.(u_S) c.(u_g) c.(u_As)) (nth k c.(u_vjps) [])) (seq 0 m)
     && forallb (fun k => oeqm (zmul c.(u_no) c.(u_S) (setn k (nth k c.(u_dAs) []) c.(u_As))) (nth k c.(u_jvps) None)) (seq 0 m)
  then 0%nat else 1%nat.

(* sum_i a_i b_i c_i *)
Example checkmul_ex :
  checkmul {| u_no := 1; u_S := [mkm [0; 0; 0]%nat 0 1; mkm [1; 1; 1]%nat 0 1];
              u_As := [[2; 3]; [5; 7]; [1; -1]]; u_g := [2]; u_dAs := [[1; 0]; [0; 1]; [1; 1]]; u_val := [-11];
              u_vjps := [[10; -14]; [4; -6]; [20; 42]]; u_jvps := [Some [5]; Some [-3]; None]; u_ok := true |} = 0%nat.
Proof. vm_compute. reflexivity. Qed.
