(* Executable Z instance of the realified R-linear model for the correspondence with autograd.numpy. *)
From Coq Require Import List Arith Bool ZArith.
Import ListNotations.
From AG Require Import VSpace VSpaceProof Index Run01 Bilinear RunBil.
From AG Require Import Realified.
Local Open Scope Z_scope.

Definition zlin := lin Z 0 1 Z.add Z.mul.
Definition zcvjp := cvjp Z 0 1 Z.add Z.mul Z.opp.

Record caseReal := {
  e_na : nat; e_no : nat;               (* lengths of the (realified) argument and result *)
  e_cin : bool; e_cout : bool;          (* argument / result complex? *)
  e_S : list zterm;                     (* structure constants of the realified linear part, read off NumPy *)
  e_a : list Z; e_da : list Z;          (* a point and a displacement (realified) *)
  e_dy : list Z;                        (* NumPy: f(a + da) - f(a), realified *)
  e_g : list Z;                         (* cotangent (realified) *)
  e_vjp : list Z;                       (* implementation: make_vjp(f)(a)[0](g), realified *)
  e_jvp : option (list Z);              (* implementation: make_jvp(f)(a)(da)[1]; None when forward mode raises *)
  e_ok : bool
}.

Definition checkreal (c : caseReal) : nat :=
  if negb c.(e_ok) then 2%nat else
  if zl_eqb (zlin c.(e_no) c.(e_S) c.(e_da)) c.(e_dy)
     && zl_eqb (zcvjp c.(e_cin) c.(e_cout) c.(e_na) c.(e_S) c.(e_g)) c.(e_vjp)
     && oeq (zlin c.(e_no) c.(e_S) c.(e_da)) c.(e_jvp)
  then 0%nat else 1%nat.

(* z |-> (2+3i) z on one complex number: J_R = [[2,-3],[3,2]]; g = 1+i: vjp = g*(2+3i) = -1+5i *)
Example checkreal_ex :
  checkreal {| e_na := 2; e_no := 2; e_cin := true; e_cout := true;
               e_S := [mk 0 0 0 2; mk 1 0 0 (-3); mk 0 0 1 3; mk 1 0 1 2];
               e_a := [1; 1]; e_da := [1; 0]; e_dy := [2; 3]; e_g := [1; 1]; e_vjp := [-1; 5]; e_jvp := Some [2; 3]; e_ok := true |} = 0%nat.
Proof. vm_compute. reflexivity. Qed.
(* z |-> conj z: J_R = [[1,0],[0,-1]]; g = 1+i: vjp = conj(J^T conj g) = conj((1, 1)) ... = 1 - i  (autograd: conj(g)) *)
Example checkreal_conj :
  checkreal {| e_na := 2; e_no := 2; e_cin := true; e_cout := true; e_S := [mk 0 0 0 1; mk 1 0 1 (-1)];
               e_a := [1; 1]; e_da := [0; 1]; e_dy := [0; -1]; e_g := [1; 1]; e_vjp := [1; -1]; e_jvp := Some [0; -1]; e_ok := true |} = 0%nat.
Proof. vm_compute. reflexivity. Qed.
