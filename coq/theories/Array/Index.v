(* L4/L1: indexing gradients.  Whatever the index expression (integers,
   negative indices, stepped slices, ellipsis, newaxis, integer arrays with
   repeated entries, boolean masks, mixtures), A[idx] reads a list sigma of flat
   source positions; ArrayBox.__getitem__'s VJP `untake` scatter-adds the
   cotangent at those positions (np.add.at); core.add_outgrads combines sparse
   and dense contributions.  Over any commutative ring. *)
From Coq Require Import List Arith Bool Lia Ring Permutation.
Import ListNotations.
From AG Require Import VSpace VSpaceProof.

Section Idx.
  Variable K : Type.
  Variables (k0 k1 : K) (kadd kmul ksub : K -> K -> K) (kopp : K -> K).
  Hypothesis Kring : ring_theory k0 k1 kadd kmul ksub kopp eq.
  Add Ring KRi : Kring.
  Notation vadd := (vadd K kadd).
  Notation dot := (dot K k0 kadd kmul).

  (* A[idx] *)
  Definition gather (sigma : list nat) (v : list K) : list K := map (fun i => nth i v k0) sigma.

  (* np.add.at(A, idx, g): unbuffered, so repeated positions accumulate *)
  Fixpoint add_at (a : list K) (i : nat) (x : K) : list K :=
    match a, i with
    | [], _ => []
    | y :: r, O => kadd y x :: r
    | y :: r, S i' => y :: add_at r i' x
    end.
  Fixpoint scatter_into (a : list K) (sigma : list nat) (g : list K) : list K :=
    match sigma, g with
    | i :: s', x :: g' => scatter_into (add_at a i x) s' g'
    | _, _ => a
    end.
  (* the dense value of untake(g, idx, vs): SparseObject.mut_add applied to vs.zeros() *)
  Definition scatter (n : nat) (sigma : list nat) (g : list K) : list K :=
    scatter_into (repeat k0 n) sigma g.

  (* ---- add_outgrads: contributions are dense arrays or sparse objects ---- *)
  Inductive contrib := Dense (v : list K) | Sparse (sigma : list nat) (g : list K).
  Definition dense_of (n : nat) (c : contrib) : list K :=
    match c with Dense v => v | Sparse s g => scatter n s g end.

  (* core.add_outgrads(prev_g_flagged, g) -> (value, mutable) ; all six branches *)
  Definition add_outgrads (n : nat) (prev : option (list K * bool)) (c : contrib) : list K * bool :=
    match prev, c with
    | None, Sparse s g => (scatter_into (repeat k0 n) s g, true)          (* sparse_add(vs, None, g) *)
    | None, Dense v => (v, false)                                          (* g, False *)
    | Some (p, true), Sparse s g => (scatter_into p s g, true)             (* sparse_add(vs, prev, g): in place *)
    | Some (p, true), Dense v => (vadd p v, true)                          (* vs.mut_add(prev, g) *)
    | Some (p, false), Sparse s g => (scatter_into (vadd (repeat k0 n) p) s g, true)   (* copy, then sparse_add *)
    | Some (p, false), Dense v => (vadd p v, true)                         (* vs.add(prev, g) *)
    end.

  Definition accumulate (n : nat) (cs : list contrib) : option (list K * bool) :=
    fold_left (fun acc c => Some (add_outgrads n acc c)) cs None.

  (* ---------------- theorems ---------------- *)
  Lemma add_at_length a i x : length (add_at a i x) = length a.
  Proof. revert i. induction a as [|y r IH]; intros [|i]; simpl; auto. Qed.

  Lemma scatter_into_length : forall sigma g a, length (scatter_into a sigma g) = length a.
  Proof.
    induction sigma as [|i s IH]; intros [|x g] a; simpl; auto. now rewrite IH, add_at_length.
  Qed.

  Lemma dot_add_at : forall a i x v, i < length a -> length v = length a ->
      dot (add_at a i x) v = kadd (dot a v) (kmul x (nth i v k0)).
  Proof.
    unfold VSpaceProof.dot.
    induction a as [|y r IH]; intros i x v Hi Hv; simpl in Hi; [lia|].
    destruct v as [|w v]; [simpl in Hv; lia|]. destruct i as [|i]; simpl.
    - ring.
    - rewrite IH by (simpl in *; lia). ring.
  Qed.

  (* scatter-add is the adjoint of the gather: <scatter g, v> = <g, A[idx] of v>,
     also when positions repeat (their contributions add) *)
  Theorem scatter_into_adjoint : forall sigma g a v,
      Forall (fun i => i < length a) sigma -> length g = length sigma -> length v = length a ->
      dot (scatter_into a sigma g) v = kadd (dot a v) (dot g (gather sigma v)).
  Proof.
    induction sigma as [|i s IH]; intros g a v Hs Hg Hv.
    - destruct g; [|simpl in Hg; discriminate]. simpl. unfold VSpaceProof.dot. simpl. ring.
    - destruct g as [|x g]; [simpl in Hg; discriminate|]. simpl.
      pose proof (Forall_inv Hs) as Hi. pose proof (Forall_inv_tail Hs) as Hs'.
      rewrite IH.
      + rewrite dot_add_at by assumption. unfold VSpaceProof.dot at 4. simpl.
        fold (dot g (gather s v)). ring.
      + rewrite add_at_length. assumption.
      + simpl in Hg. lia.
      + now rewrite add_at_length.
  Qed.

  Theorem getitem_untake_adjoint n sigma g v :
    Forall (fun i => i < n) sigma -> length g = length sigma -> length v = n ->
    dot (scatter n sigma g) v = dot g (gather sigma v)
    /\ length (scatter n sigma g) = n.
  Proof.
    intros Hs Hg Hv. unfold scatter. split.
    - assert (Hs' : Forall (fun i => i < length (repeat k0 n)) sigma) by (rewrite repeat_length; exact Hs).
      rewrite (scatter_into_adjoint sigma g (repeat k0 n) v Hs' Hg) by (now rewrite repeat_length).
      rewrite (dot_comm K k0 k1 kadd kmul ksub kopp Kring (repeat k0 n) v).
      rewrite (dot_zero_r K k0 k1 kadd kmul ksub kopp Kring v n). ring.
    - now rewrite scatter_into_length, repeat_length.
  Qed.

  (* scatter commutes with adding a dense array *)
  Lemma add_at_vadd : forall a b i x, length a = length b ->
      add_at (vadd a b) i x = vadd (add_at a i x) b.
  Proof.
    unfold VSpaceProof.vadd.
    induction a as [|y r IH]; intros [|w b] i x Hl; simpl in *; try reflexivity; try lia.
    destruct i as [|i]; simpl.
    - f_equal. ring.
    - f_equal. apply IH. lia.
  Qed.

  Lemma scatter_into_vadd : forall sigma g a b, length a = length b ->
      scatter_into (vadd a b) sigma g = vadd (scatter_into a sigma g) b.
  Proof.
    induction sigma as [|i s IH]; intros [|x g] a b Hl; simpl; try reflexivity.
    rewrite add_at_vadd by assumption. apply IH. now rewrite add_at_length.
  Qed.

  Lemma scatter_into_zeros n sigma g a : length a = n ->
      scatter_into a sigma g = vadd a (scatter n sigma g).
  Proof.
    intros Hl. unfold scatter.
    rewrite <- (vadd_zero_l K k0 k1 kadd kmul ksub kopp Kring n a Hl) at 1.
    rewrite scatter_into_vadd by (now rewrite repeat_length).
    apply (vadd_comm K k0 k1 kadd kmul ksub kopp Kring).
  Qed.

  (* every branch of add_outgrads returns prev + dense(g), and an owned
     ("mutable") value except for a first dense contribution *)
  Theorem add_outgrads_value n prev c :
    (forall p b, prev = Some (p, b) -> length p = n) ->
    fst (add_outgrads n prev c)
    = match prev with None => dense_of n c | Some (p, _) => vadd p (dense_of n c) end
    /\ snd (add_outgrads n prev c)
       = match prev, c with None, Dense _ => false | _, _ => true end.
  Proof.
    intros Hp. destruct prev as [[p [|]]|]; destruct c as [v|s g]; simpl; split; try reflexivity.
    - apply scatter_into_zeros. eapply Hp; eauto.
    - rewrite (vadd_zero_l K k0 k1 kadd kmul ksub kopp Kring n p) by (eapply Hp; eauto).
      apply scatter_into_zeros. eapply Hp; eauto.
  Qed.

  (* ---- any number of sparse and dense contributions, in any order ---- *)
  Definition well_sized (n : nat) (c : contrib) : Prop :=
    match c with
    | Dense v => length v = n
    | Sparse s g => length g = length s
    end.

  Lemma dense_of_length n c : well_sized n c -> length (dense_of n c) = n.
  Proof.
    destruct c as [v|s g]; simpl; intros H; [assumption|].
    unfold scatter. now rewrite scatter_into_length, repeat_length.
  Qed.

  Definition total_from (n : nat) (p : list K) (cs : list contrib) : list K :=
    fold_left (fun a c => vadd a (dense_of n c)) cs p.

  Lemma total_from_length n : forall cs p, Forall (well_sized n) cs -> length p = n ->
      length (total_from n p cs) = n.
  Proof.
    induction cs as [|c cs IH]; intros p Hw Hp; simpl; [assumption|].
    apply IH; [now inversion Hw|].
    unfold VSpaceProof.vadd. rewrite map2_length; [assumption|].
    rewrite dense_of_length; [assumption|now inversion Hw].
  Qed.

  Lemma accumulate_from n : forall cs p b,
      Forall (well_sized n) cs -> length p = n ->
      exists b', fold_left (fun acc c => Some (add_outgrads n acc c)) cs (Some (p, b))
                 = Some (total_from n p cs, b') /\ (cs <> [] -> b' = true) /\ (cs = [] -> b' = b).
  Proof.
    induction cs as [|c cs IH]; intros p b Hw Hp; cbn [fold_left].
    - exists b. repeat split; congruence.
    - pose proof (Forall_inv Hw) as Hc. pose proof (Forall_inv_tail Hw) as Hw'.
      destruct (add_outgrads_value n (Some (p, b)) c) as [Ev Ef].
      { intros p0 b0 E. assert (p0 = p) by congruence. subst p0. exact Hp. }
      destruct (add_outgrads n (Some (p, b)) c) as [v f] eqn:Ea. simpl in Ev, Ef. subst v f.
      destruct (IH (vadd p (dense_of n c)) true Hw') as (b' & E & H1 & H2).
      { unfold VSpaceProof.vadd. rewrite map2_length; [assumption|]. now rewrite dense_of_length. }
      exists b'. split; [exact E|]. split; [|discriminate].
      intros _. destruct cs as [|c2 cs2]; [now apply H2|apply H1; discriminate].
  Qed.

  (* the accumulated gradient is the sum of the dense equivalents, and it is an
     owned buffer as soon as a sparse contribution or a second contribution arrived *)
  Theorem accumulate_mixed n c cs :
    Forall (well_sized n) (c :: cs) ->
    exists b, accumulate n (c :: cs) = Some (total_from n (repeat k0 n) (c :: cs), b)
              /\ (b = true <-> (cs <> [] \/ exists s g, c = Sparse s g)).
  Proof.
    intros Hw. pose proof (Forall_inv Hw) as Hc. pose proof (Forall_inv_tail Hw) as Hw'.
    unfold accumulate. cbn [fold_left].
    destruct (add_outgrads_value n None c) as [Ev Ef]; [intros; discriminate|].
    destruct (add_outgrads n None c) as [v f] eqn:Ea. simpl in Ev, Ef. subst v.
    destruct (accumulate_from n cs (dense_of n c) f Hw') as (b' & E & H1 & H2).
    { now apply dense_of_length. }
    exists b'. split.
    - rewrite E. unfold total_from. cbn [fold_left].
      rewrite (vadd_zero_l K k0 k1 kadd kmul ksub kopp Kring n (dense_of n c)) by (now apply dense_of_length).
      reflexivity.
    - destruct cs as [|c2 cs2].
      + rewrite (H2 eq_refl). subst f. destruct c as [v|s g]; split.
        * discriminate.
        * intros [H|(s & g & H)]; [congruence|discriminate].
        * intros _. right. eauto.
        * reflexivity.
      + rewrite H1 by discriminate. split; [intros _; left; discriminate|reflexivity].
  Qed.

  (* ... and does not depend on the order in which the contributions arrive *)
  Lemma total_from_perm n : forall cs cs', Permutation cs cs' ->
      forall p, total_from n p cs = total_from n p cs'.
  Proof.
    induction 1 as [|c l l' Hp IH|c1 c2 l|l1 l2 l3 H1 IH1 H2 IH2]; intros p; simpl.
    - reflexivity.
    - apply IH.
    - f_equal.
      rewrite <- !(vadd_assoc K k0 k1 kadd kmul ksub kopp Kring).
      f_equal. apply (vadd_comm K k0 k1 kadd kmul ksub kopp Kring).
    - now rewrite IH1, IH2.
  Qed.

  Theorem accumulate_order_irrelevant n cs cs' :
    Permutation cs cs' ->
    total_from n (repeat k0 n) cs = total_from n (repeat k0 n) cs'.
  Proof. intros H. now apply total_from_perm. Qed.
End Idx.
