(* Executable Z instance for C11. *)
From Coq Require Import List Arith Bool ZArith.
Import ListNotations.
From AG Require Import VSpace VSpaceProof Index Run01.
Local Open Scope Z_scope.

Definition zgather := gather Z 0.
Definition zscatter := scatter Z 0 Z.add.

Record case11 := {
  x_n : nat;                 (* size of the indexed array *)
  x_sigma : list nat;        (* flat positions read by A[idx], from NumPy on a position-labelled array *)
  x_g : list Z;              (* cotangent, flattened *)
  x_v : list Z;              (* tangent / array values, flattened *)
  x_vjp : list Z;            (* implementation: make_vjp(lambda A: A[idx])(A)[0](g), flattened *)
  x_jvp : list Z;            (* implementation: forward mode on v *)
  x_ok : bool                (* implementation equals np.add.at on zeros / v[idx] *)
}.

Definition check11 (c : case11) : nat :=
  if negb c.(x_ok) then 2%nat else
  if zl_eqb (zscatter c.(x_n) c.(x_sigma) c.(x_g)) c.(x_vjp)
     && zl_eqb (zgather c.(x_sigma) c.(x_v)) c.(x_jvp)
  then 0%nat else 1%nat.

(* programs: the gradient of a sum of dense and indexed uses of one array *)
Inductive use := UDense (w : list Z) | USparse (sigma : list nat) (w : list Z).
Definition contrib_of (u : use) : contrib Z :=
  match u with UDense w => Dense Z w | USparse s w => Sparse Z s w end.

Record case11p := { y_n : nat; y_uses : list use; y_grad : list Z; y_ok : bool }.

Definition check11p (c : case11p) : nat :=
  if negb c.(y_ok) then 2%nat else
  match accumulate Z 0 Z.add c.(y_n) (map contrib_of c.(y_uses)) with
  | Some (v, _) => if zl_eqb v c.(y_grad) then 0%nat else 1%nat
  | None => if zl_eqb (repeat 0 c.(y_n)) c.(y_grad) then 0%nat else 1%nat
  end.

(* basic index expressions: the model of NumPy's resolution (BasicIndex.v) against the positions NumPy reads *)
From AG Require Import BasicIndex.
Record case11b := { b_dims : list nat; b_items : list bitem; b_sigma : list nat }.
Fixpoint nl_eqb (a b : list nat) : bool :=
  match a, b with
  | [], [] => true
  | x :: a', y :: b' => Nat.eqb x y && nl_eqb a' b'
  | _, _ => false
  end.
(* 0: the model computes the positions NumPy reads; 1: it does not (the model of NumPy's indexing is wrong or NumPy changed) *)
Definition check11b (c : case11b) : nat :=
  match basic_sigma c.(b_dims) c.(b_items) with
  | Some s => if nl_eqb s c.(b_sigma) then 0%nat else 1%nat
  | None => 1%nat
  end.
