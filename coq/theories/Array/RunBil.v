(* Executable Z instance of the bilinear-primitive model for the correspondence with autograd.numpy. *)
From Coq Require Import List Arith Bool ZArith.
Import ListNotations.
From AG Require Import VSpace VSpaceProof Index Run01.
From AG Require Import Bilinear.
Local Open Scope Z_scope.

Definition zterm := term Z.
Definition mk (a b o : nat) (c : Z) : zterm := {| ia := a; ib := b; io := o; coef := c |}.
Definition zbil := bil Z 0 Z.add Z.mul.
Definition zvjpA := vjpA Z 0 Z.add Z.mul.
Definition zvjpB := vjpB Z 0 Z.add Z.mul.

Record caseBil := {
  l_na : nat; l_nb : nat; l_no : nat;
  l_S : list zterm;                     (* structure constants, read off NumPy on pairs of basis vectors *)
  l_A : list Z; l_B : list Z; l_g : list Z; l_dA : list Z; l_dB : list Z;
  l_val : list Z;                       (* NumPy's value at (A, B) *)
  l_vjpA : list Z; l_vjpB : list Z;     (* implementation: make_vjp w.r.t. each argument, applied to g *)
  l_jvpA : option (list Z); l_jvpB : option (list Z);   (* implementation: make_jvp; None when forward mode raises *)
  (* second order: u a cotangent for the A-cotangent;  the VJP of g |-> vjpA(g, B) and of B |-> vjpA(g, B) applied to u, and
     the JVP of B |-> vjpA(g, B) in direction dB;  None when the implementation raises *)
  l_u : list Z; l_vvg : option (list Z); l_vvB : option (list Z); l_fvB : option (list Z);
  l_ok : bool
}.

Definition oeq (m : list Z) (o : option (list Z)) : bool := match o with Some j => zl_eqb m j | None => true end.

Definition checkbil (c : caseBil) : nat :=
  if negb c.(l_ok) then 2%nat else
  if zl_eqb (zbil c.(l_no) c.(l_S) c.(l_A) c.(l_B)) c.(l_val)
     && zl_eqb (zvjpA c.(l_na) c.(l_S) c.(l_g) c.(l_B)) c.(l_vjpA)
     && zl_eqb (zvjpB c.(l_nb) c.(l_S) c.(l_g) c.(l_A)) c.(l_vjpB)
     && oeq (zbil c.(l_no) c.(l_S) c.(l_dA) c.(l_B)) c.(l_jvpA)
     && oeq (zbil c.(l_no) c.(l_S) c.(l_A) c.(l_dB)) c.(l_jvpB)
     && oeq (zbil c.(l_no) c.(l_S) c.(l_u) c.(l_B)) c.(l_vvg)
     && oeq (zvjpB c.(l_nb) (map (permA Z) c.(l_S)) c.(l_u) c.(l_g)) c.(l_vvB)
     && oeq (zvjpA c.(l_na) c.(l_S) c.(l_g) c.(l_dB)) c.(l_fvB)
  then 0%nat else 1%nat.

(* the dot product of two 2-vectors *)
Example checkbil_ex :
  checkbil {| l_na := 2; l_nb := 2; l_no := 1; l_S := [mk 0 0 0 1; mk 1 1 0 1];
              l_A := [2; 3]; l_B := [5; 7]; l_g := [2]; l_dA := [1; -1]; l_dB := [0; 1]; l_val := [31];
              l_vjpA := [10; 14]; l_vjpB := [4; 6]; l_jvpA := Some [-2]; l_jvpB := Some [3];
              l_u := [1; 2]; l_vvg := Some [19]; l_vvB := Some [2; 4]; l_fvB := Some [0; 2]; l_ok := true |} = 0%nat.
Proof. vm_compute. reflexivity. Qed.
