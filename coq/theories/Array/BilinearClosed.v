(* C07 for the bilinear primitives: the family is CLOSED under differentiation.  The reverse rules of a bilinear primitive
   with structure constants S are themselves bilinear primitives (in the cotangent and the other operand) whose structure
   constants are S with the index roles permuted, and the forward rules are the primitive itself applied to the tangent.
   Hence the rules of the rules (what reverse-over-reverse, forward-over-reverse and reverse-over-forward differentiate:
   autograd's adjoint helper primitives dot_adjoint_0/1, tensordot_adjoint_0/1) are instances of Bilinear.bilinear_rules_adjoint
   again: every derivative of every order of a bilinear primitive is exact, in both modes. *)
From Coq Require Import List Arith Bool Lia Ring.
Import ListNotations.
From AG Require Import VSpace VSpaceProof Index Bilinear.

Section Closed.
  Variable K : Type.
  Variables (k0 k1 : K) (kadd kmul ksub : K -> K -> K) (kopp : K -> K).
  Hypothesis Kring : ring_theory k0 k1 kadd kmul ksub kopp eq.
  Add Ring KRbc : Kring.
  Notation term := (term K).
  Notation bil := (bil K k0 kadd kmul).
  Notation vjpA := (vjpA K k0 kadd kmul).
  Notation vjpB := (vjpB K k0 kadd kmul).
  Notation dot := (dot K k0 kadd kmul).

  (* S read as a map (g, B) |-> A-cotangent, and as a map (g, A) |-> B-cotangent *)
  Notation permA := (permA K).
  Notation permB := (permB K).

  Theorem vjpA_is_bilinear na S g B : vjpA na S g B = bil na (map permA S) g B.
  Proof. unfold Bilinear.vjpA, Bilinear.bil. rewrite !map_map. reflexivity. Qed.

  Theorem vjpB_is_bilinear nb S g A : vjpB nb S g A = bil nb (map permB S) g A.
  Proof. unfold Bilinear.vjpB, Bilinear.bil. rewrite !map_map. reflexivity. Qed.

  Lemma permA_bounds na nb no S : Forall (in_bounds K na nb no) S -> Forall (in_bounds K no nb na) (map permA S).
  Proof. intros H. rewrite Forall_map. eapply Forall_impl; [|exact H]. intros s (H1 & H2 & H3). repeat split; assumption. Qed.
  Lemma permB_bounds na nb no S : Forall (in_bounds K na nb no) S -> Forall (in_bounds K no na nb) (map permB S).
  Proof. intros H. rewrite Forall_map. eapply Forall_impl; [|exact H]. intros s (H1 & H2 & H3). repeat split; assumption. Qed.

  (* second order: the rules OF the reverse rule for A - with respect to the cotangent g (which gives back the forward
     map: the rule is an involution on the family) and with respect to the other operand B - are adjoints again *)
  Theorem second_order_rules_adjoint na nb no S B g u :
    Forall (in_bounds K na nb no) S -> length B = nb -> length g = no -> length u = na ->
    (* u is a cotangent for the A-cotangent vjpA(g, B) *)
    dot u (vjpA na S g B) = dot (Bilinear.vjpA K k0 kadd kmul no (map permA S) u B) g
    /\ dot u (vjpA na S g B) = dot (Bilinear.vjpB K k0 kadd kmul nb (map permA S) u g) B
    /\ Bilinear.vjpA K k0 kadd kmul no (map permA S) u B = bil no S u B.
  Proof.
    intros Hb HB Hg Hu. rewrite vjpA_is_bilinear.
    destruct (bilinear_rules_adjoint K k0 k1 kadd kmul ksub kopp Kring no nb na (map permA S) g B u
                (permA_bounds na nb no S Hb) Hg HB Hu) as (E1 & E2 & _).
    split; [exact E1|]. split; [exact E2|].
    rewrite vjpA_is_bilinear. rewrite map_map. unfold Bilinear.bil. f_equal.
    - rewrite map_map. reflexivity.
    - rewrite map_map. reflexivity.
  Qed.

  Theorem second_order_rules_adjoint_B na nb no S A g u :
    Forall (in_bounds K na nb no) S -> length A = na -> length g = no -> length u = nb ->
    dot u (vjpB nb S g A) = dot (Bilinear.vjpA K k0 kadd kmul no (map permB S) u A) g
    /\ dot u (vjpB nb S g A) = dot (Bilinear.vjpB K k0 kadd kmul na (map permB S) u g) A.
  Proof.
    intros Hb HA Hg Hu. rewrite vjpB_is_bilinear.
    destruct (bilinear_rules_adjoint K k0 k1 kadd kmul ksub kopp Kring no na nb (map permB S) g A u
                (permB_bounds na nb no S Hb) Hg HA Hu) as (E1 & E2 & _).
    split; [exact E1|exact E2].
  Qed.
End Closed.
