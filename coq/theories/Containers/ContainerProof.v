(* The container primitives are linear maps on value trees and their
   registered VJPs are the adjoints with respect to the inner product of the
   value spaces; unflatten's adjoint is flatten. *)
From Coq Require Import List Arith Bool ZArith Lia Ring.
Import ListNotations.
From AG Require Import VSpace VSpaceProof ContainerOps.

Section Proofs.
  Variable K : Type.
  Variables (k0 k1 : K) (kadd kmul ksub : K -> K -> K) (kopp : K -> K).
  Hypothesis Kring : ring_theory k0 k1 kadd kmul ksub kopp eq.
  Add Ring KR2 : Kring.

  Notation tree := (tree K).
  Notation vspace := (vspace K).
  Notation zeros := (zeros K k0).
  Notation tadd := (tadd K kadd).
  Notation inner := (inner K k0 kadd kmul).
  Notation inner_list := (inner_list K k0 kadd kmul).
  Notation flat := (flat K).
  Notation wf := (wf K).
  Notation take := (take K).
  Notation untake := (untake K k0).
  Notation dot := (dot K k0 kadd kmul).

  Lemma inner_zeros_r x : wf x -> inner x (zeros (vspace x)) = k0.
  Proof.
    intros Hx. destruct (zeros_spec K k0 (vspace x)) as (Z1 & Z2 & Z3).
    rewrite (inner_flat K k0 k1 kadd kmul ksub kopp Kring x _ Hx Z2) by (unfold same; congruence).
    rewrite Z3. apply (dot_zero_r K k0 k1 kadd kmul ksub kopp Kring).
  Qed.

  Lemma inner_list_zeros l : Forall wf l -> inner_list l (map zeros (map vspace l)) = k0.
  Proof.
    induction 1 as [|x r Hx Hr IH]; simpl; [reflexivity|].
    rewrite inner_zeros_r by assumption. rewrite IH. ring.
  Qed.

  (* <l, zeros with g at position n> = <l[n], g> *)
  Lemma inner_list_replace : forall l n c g,
      Forall wf l -> nth_error l n = Some c ->
      inner_list l (replace_nth n g (map zeros (map vspace l))) = inner c g.
  Proof.
    induction l as [|x r IH]; intros n c g Hw Hn; [destruct n; discriminate|].
    pose proof (Forall_inv Hw) as W1. pose proof (Forall_inv_tail Hw) as W2.
    destruct n as [|n]; simpl in *.
    - injection Hn as ->. rewrite inner_list_zeros by assumption. ring.
    - rewrite inner_zeros_r by assumption. rewrite (IH n c g W2 Hn). ring.
  Qed.

  Lemma zeros_vspace_list (vl : list vs) : map vspace (map zeros vl) = vl.
  Proof.
    induction vl as [|v r IH]; simpl; [reflexivity|].
    destruct (zeros_spec K k0 v) as (Z1 & _). now rewrite Z1, IH.
  Qed.

  Lemma replace_nth_vspace : forall (l : list tree) n c g,
      nth_error l n = Some c -> vspace g = vspace c ->
      map vspace (replace_nth n g (map zeros (map vspace l))) = map vspace l.
  Proof.
    induction l as [|x r IH]; intros n c g Hn Hg; [destruct n; discriminate|].
    destruct n as [|n]; simpl in *.
    - injection Hn as ->. rewrite Hg. f_equal. apply zeros_vspace_list.
    - destruct (zeros_spec K k0 (vspace x)) as (Z1 & _). rewrite Z1. f_equal. eapply IH; eauto.
  Qed.

  (* C12: indexing a sequence with an integer (negative allowed) — the
     registered VJP container_untake is the adjoint of container_take *)
  Theorem take_untake_adjoint_int t l i c g :
    wf (Seq t l) -> take (Seq t l) (IInt i) = Some c -> vspace g = vspace c ->
    exists u, untake g (IInt i) (vspace (Seq t l)) = Some u
              /\ vspace u = vspace (Seq t l)
              /\ inner (Seq t l) u = inner c g.
  Proof.
    intros Hw Ht Hg. apply wf_seq in Hw. simpl in Ht.
    destruct (norm_index (length l) i) as [n|] eqn:En; [|discriminate].
    unfold ContainerOps.untake. cbn [VSpace.vspace]. rewrite map_length, En.
    eexists. split; [reflexivity|]. split.
    - simpl. f_equal. eapply replace_nth_vspace; eauto.
    - rewrite (inner_seq K k0 kadd kmul). now apply inner_list_replace.
  Qed.

  (* dict access by key *)
  Lemma inner_dlist_replace : forall (l : list (nat * tree)) k c g,
      Forall (fun kv => wf (snd kv)) l -> assoc k l = Some c ->
      inner_list (map snd l)
                 (map snd (replace_key k g (map (fun kv => (fst kv, zeros (snd kv)))
                                                (map (fun kv => (fst kv, vspace (snd kv))) l))))
      = inner c g.
  Proof.
    induction l as [|[k' x] r IH]; intros k c g Hw Hn; [discriminate|].
    pose proof (Forall_inv Hw) as W1. pose proof (Forall_inv_tail Hw) as W2.
    simpl in *. destruct (Nat.eqb k' k).
    - injection Hn as ->. simpl.
      assert (E : map snd (map (fun kv => (fst kv, zeros (snd kv)))
                               (map (fun kv : nat * tree => (fst kv, vspace (snd kv))) r))
                  = map zeros (map vspace (map snd r))).
      { rewrite !map_map. reflexivity. }
      rewrite E, inner_list_zeros; [ring|]. now apply Forall_map.
    - simpl. rewrite inner_zeros_r by assumption. rewrite (IH k c g W2 Hn). ring.
  Qed.

  Theorem take_untake_adjoint_key l k c g :
    wf (Dct l) -> take (Dct l) (IKey k) = Some c ->
    exists u, untake g (IKey k) (vspace (Dct l)) = Some u
              /\ inner (Dct l) u = inner c g.
  Proof.
    intros Hw Ht. apply wf_dct in Hw. simpl in Ht.
    unfold ContainerOps.untake. cbn [VSpace.vspace].
    assert (Ha : exists w, assoc k (map (fun kv : nat * tree => (fst kv, vspace (snd kv))) l) = Some w).
    { clear Hw. induction l as [|[k' x] r IH]; [discriminate|]. simpl in *.
      destruct (Nat.eqb k' k); [eauto|auto]. }
    destruct Ha as [w ->]. eexists. split; [reflexivity|].
    rewrite (inner_dct K k0 kadd kmul). now apply inner_dlist_replace.
  Qed.

  (* sequence + elements: the registered VJPs split the cotangent *)
  Lemma inner_list_app : forall l elts gl,
      inner_list (l ++ elts) gl
      = kadd (inner_list l (firstn (length l) gl)) (inner_list elts (skipn (length l) gl)).
  Proof.
    induction l as [|x r IH]; intros elts gl; simpl.
    - ring.
    - destruct gl as [|g gl]; simpl.
      + destruct elts; simpl; ring.
      + rewrite IH. ring.
  Qed.

  Theorem extend_right_adjoint t l elts t' gl :
    inner (Seq t (l ++ elts)) (Seq t' gl)
    = kadd (inner (Seq t l) (Seq t' (firstn (length l) gl)))
           (inner_list elts (skipn (length l) gl)).
  Proof. rewrite !(inner_seq K k0 kadd kmul). apply inner_list_app. Qed.

  Theorem extend_left_adjoint t l elts t' gl :
    length elts <= length gl ->
    inner (Seq t (elts ++ l)) (Seq t' gl)
    = kadd (inner_list elts (firstn (length elts) gl))
           (inner (Seq t l) (Seq t' (skipn (length elts) gl))).
  Proof. intros _. rewrite !(inner_seq K k0 kadd kmul). apply inner_list_app. Qed.

  Lemma nth_error_skipn {A} : forall n k (l : list A),
      nth_error (skipn n l) k = nth_error l (n + k).
  Proof.
    induction n as [|n IH]; intros k l; simpl; [reflexivity|].
    destruct l; [now destruct k|]. apply IH.
  Qed.

  (* the cotangent routed to the k-th appended element is g[len(seq)+k] *)
  Theorem extend_right_vjp_elt t gl len k :
    extend_right_vjp K (S k) len (Seq t gl) = nth_error (skipn len gl) k.
  Proof. simpl. now rewrite nth_error_skipn. Qed.

  (* indexing is linear *)
  Theorem take_int_linear t l t' l' i a b :
    length l = length l' ->
    take (Seq t l) (IInt i) = Some a -> take (Seq t' l') (IInt i) = Some b ->
    take (tadd (Seq t l) (Seq t' l')) (IInt i) = Some (tadd a b).
  Proof.
    intros Hlen Ha Hb. rewrite (tadd_seq K kadd). simpl in *.
    rewrite <- Hlen in Hb.
    assert (Hl : length (map2 tadd l l') = length l) by now apply map2_length.
    rewrite Hl. destruct (norm_index (length l) i) as [n|]; [|discriminate].
    clear Hl. revert l' n Hlen Ha Hb.
    induction l as [|x r IH]; intros [|y r'] n Hlen Ha Hb; simpl in *; try lia.
    - destruct n; discriminate.
    - destruct n as [|n]; simpl in *.
      + now inversion Ha; inversion Hb.
      + apply IH; auto.
  Qed.

  (* flatten is the adjoint (and inverse) of unflatten: the gradient of
     f o unflatten is flatten of the gradient of f *)
  Theorem unflat_adjoint v l c :
    length l = size v -> wf c -> vspace c = v ->
    inner (unflat K v l) c = dot l (flat c).
  Proof.
    intros Hl Hc Hv.
    destruct (flat_unflat K v l) as (A1 & A2 & A3); [lia|].
    rewrite (inner_flat K k0 k1 kadd kmul ksub kopp Kring _ _ A2 Hc) by (unfold same; congruence).
    rewrite A3. rewrite <- Hl. now rewrite firstn_all.
  Qed.
End Proofs.
