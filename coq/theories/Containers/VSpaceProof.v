(* Every value space of the model is, through flatten / unflatten, the
   coordinate space K^size; all vector-space operations are the coordinate
   operations.  From this the vector-space axioms, the isometry of flatten and
   the basis properties follow for every nesting, shape and both leaf kinds,
   over any commutative ring K. *)
From Coq Require Import List Arith Bool Lia Ring.
Import ListNotations.
From AG Require Import VSpace.

Section Proofs.
  Variable K : Type.
  Variables (k0 k1 : K) (kadd kmul ksub : K -> K -> K) (kopp : K -> K).
  Hypothesis Kring : ring_theory k0 k1 kadd kmul ksub kopp eq.
  Add Ring KR : Kring.

  Notation tree := (tree K).
  Notation vspace := (vspace K).
  Notation zeros := (zeros K k0).
  Notation tadd := (tadd K kadd).
  Notation smul := (smul K kmul).
  Notation covector := (covector K kopp).
  Notation inner := (inner K k0 kadd kmul).
  Notation flat := (flat K).
  Notation unflat := (unflat K).
  Notation wf := (wf K).
  Notation ksum := (ksum K k0 kadd).
  Notation cadd := (cadd K kadd).

  (* ---------------- induction principles ---------------- *)
  Section TreeInd.
    Variable P : tree -> Prop.
    Hypothesis HR : forall dt sh d, P (RLeaf dt sh d).
    Hypothesis HC : forall dt sh d, P (CLeaf dt sh d).
    Hypothesis HS : forall b l, Forall P l -> P (Seq b l).
    Hypothesis HD : forall l, Forall (fun kv => P (snd kv)) l -> P (Dct l).
    Fixpoint tree_ind2 (t : tree) : P t :=
      match t with
      | RLeaf dt sh d => HR dt sh d
      | CLeaf dt sh d => HC dt sh d
      | Seq b l =>
        HS b l ((fix go (l : list tree) : Forall P l :=
                   match l with
                   | [] => Forall_nil _
                   | x :: r => Forall_cons x (tree_ind2 x) (go r)
                   end) l)
      | Dct l =>
        HD l ((fix go (l : list (nat * tree)) : Forall (fun kv => P (snd kv)) l :=
                 match l with
                 | [] => Forall_nil _
                 | kv :: r => Forall_cons kv (tree_ind2 (snd kv)) (go r)
                 end) l)
      end.
  End TreeInd.

  Section VsInd.
    Variable P : vs -> Prop.
    Hypothesis HR : forall dt sh, P (VR dt sh).
    Hypothesis HC : forall dt sh, P (VC dt sh).
    Hypothesis HS : forall b l, Forall P l -> P (VSeq b l).
    Hypothesis HD : forall l, Forall (fun kv => P (snd kv)) l -> P (VDct l).
    Fixpoint vs_ind2 (v : vs) : P v :=
      match v with
      | VR dt sh => HR dt sh
      | VC dt sh => HC dt sh
      | VSeq b l =>
        HS b l ((fix go (l : list vs) : Forall P l :=
                   match l with
                   | [] => Forall_nil _
                   | x :: r => Forall_cons x (vs_ind2 x) (go r)
                   end) l)
      | VDct l =>
        HD l ((fix go (l : list (nat * vs)) : Forall (fun kv => P (snd kv)) l :=
                 match l with
                 | [] => Forall_nil _
                 | kv :: r => Forall_cons kv (vs_ind2 (snd kv)) (go r)
                 end) l)
      end.
  End VsInd.

  (* ---------------- unfolding the nested fixpoints ---------------- *)
  Definition dadd (p q : nat * tree) : nat * tree := (fst p, tadd (snd p) (snd q)).

  Lemma tadd_seq b b' l1 l2 : tadd (Seq b l1) (Seq b' l2) = Seq b (map2 tadd l1 l2).
  Proof.
    try reflexivity.
    all: simpl.
    all: f_equal.
    all: revert l2.
    all: induction l1 as [|x r IH]; intros [|y r2]; simpl; try reflexivity.
    all: try (now rewrite IH).
  Qed.

  Lemma tadd_dct l1 l2 : tadd (Dct l1) (Dct l2) = Dct (map2 dadd l1 l2).
  Proof.
    try reflexivity.
    all: simpl.
    all: f_equal.
    all: revert l2.
    all: induction l1 as [|[k x] r IH]; intros [|[k' y] r2]; simpl; try reflexivity.
    all: try (now rewrite IH).
  Qed.

  Fixpoint inner_list (l1 l2 : list tree) : K :=
    match l1, l2 with
    | x :: r1, y :: r2 => kadd (inner x y) (inner_list r1 r2)
    | _, _ => k0
    end.

  Lemma inner_seq b b' l1 l2 : inner (Seq b l1) (Seq b' l2) = inner_list l1 l2.
  Proof.
    try reflexivity.
    all: simpl.
    all: revert l2.
    all: induction l1 as [|x r IH]; intros [|y r2]; simpl; try reflexivity.
    all: try (now rewrite IH).
  Qed.

  Lemma inner_dct l1 l2 :
    inner (Dct l1) (Dct l2) = inner_list (map snd l1) (map snd l2).
  Proof.
    try reflexivity.
    all: simpl.
    all: revert l2.
    all: induction l1 as [|[k x] r IH]; intros [|[k' y] r2]; simpl; try reflexivity.
    all: try (now rewrite IH).
  Qed.

  Lemma wf_seq b l : wf (Seq b l) <-> Forall wf l.
  Proof.
    simpl. induction l as [|x r IH]; simpl.
    - split; auto.
    - rewrite IH. split; [intros [H1 H2]; now constructor|intros H; now inversion H].
  Qed.

  Lemma wf_dct l : wf (Dct l) <-> Forall (fun kv => wf (snd kv)) l.
  Proof.
    simpl. induction l as [|[k x] r IH]; simpl.
    - split; auto.
    - rewrite IH. split; [intros [H1 H2]; now constructor|intros H; now inversion H].
  Qed.

  Fixpoint unflat_list (vl : list vs) (l : list K) : list tree :=
    match vl with
    | [] => []
    | v1 :: r => unflat v1 l :: unflat_list r (skipn (size v1) l)
    end.
  Fixpoint unflat_dlist (vl : list (nat * vs)) (l : list K) : list (nat * tree) :=
    match vl with
    | [] => []
    | (k, v1) :: r => (k, unflat v1 l) :: unflat_dlist r (skipn (size v1) l)
    end.

  Lemma unflat_seq b vl l : unflat (VSeq b vl) l = Seq b (unflat_list vl l).
  Proof.
    try reflexivity.
    all: simpl.
    all: f_equal.
    all: revert l.
    all: induction vl as [|v r IH]; intros l; simpl; [reflexivity|].
    all: try (now rewrite IH).
  Qed.

  Lemma unflat_dct vl l : unflat (VDct vl) l = Dct (unflat_dlist vl l).
  Proof.
    try reflexivity.
    all: simpl.
    all: f_equal.
    all: revert l.
    all: induction vl as [|[k v] r IH]; intros l; simpl; [reflexivity|].
    all: try (now rewrite IH).
  Qed.

  (* ---------------- coordinate vectors ---------------- *)
  Definition vadd (a b : list K) := map2 kadd a b.
  Definition vscale (a : list K) (s : K) := map (fun v => kmul v s) a.
  Definition dot (a b : list K) : K := ksum (map2 kmul a b).

  Lemma map2_length {A B C} (f : A -> B -> C) : forall a b,
      length a = length b -> length (map2 f a b) = length a.
  Proof.
    induction a as [|x a IH]; intros [|y b] H; simpl in *; try lia. rewrite IH; lia.
  Qed.

  Lemma map2_app {A B C} (f : A -> B -> C) : forall a c b d,
      length a = length c -> map2 f (a ++ b) (c ++ d) = map2 f a c ++ map2 f b d.
  Proof.
    induction a as [|x a IH]; intros [|y c] b d H; simpl in *; try lia; [reflexivity|].
    rewrite IH by lia. reflexivity.
  Qed.

  Lemma vadd_comm a b : vadd a b = vadd b a.
  Proof. unfold vadd, vscale in *.
    revert b. induction a as [|x a IH]; intros [|y b]; simpl; try reflexivity.
    rewrite IH. f_equal. ring.
  Qed.

  Lemma vadd_assoc a b c : vadd a (vadd b c) = vadd (vadd a b) c.
  Proof. unfold vadd, vscale in *.
    revert b c. induction a as [|x a IH]; intros [|y b] [|z c]; simpl; try reflexivity.
    rewrite IH. f_equal. ring.
  Qed.

  Lemma vadd_zero_l n a : length a = n -> vadd (repeat k0 n) a = a.
  Proof. unfold vadd, vscale in *.
    revert a. induction n as [|n IH]; intros [|x a] H; simpl in *; try lia; [reflexivity|].
    rewrite IH by lia. f_equal. ring.
  Qed.

  Lemma vscale_add a b s : vscale (vadd a b) s = vadd (vscale a s) (vscale b s).
  Proof. unfold vadd, vscale in *.
    revert b. induction a as [|x a IH]; intros [|y b]; simpl; try reflexivity.
    rewrite IH. f_equal. ring.
  Qed.

  Lemma vscale_plus a s t : vscale a (kadd s t) = vadd (vscale a s) (vscale a t).
  Proof. unfold vadd, vscale in *. induction a as [|x a IH]; simpl; [reflexivity|]. rewrite IH. f_equal. ring. Qed.

  Lemma vscale_mul a s t : vscale (vscale a s) t = vscale a (kmul s t).
  Proof. unfold vadd, vscale in *. induction a as [|x a IH]; simpl; [reflexivity|]. rewrite IH. f_equal. ring. Qed.

  Lemma vscale_one a : vscale a k1 = a.
  Proof. unfold vadd, vscale in *. induction a as [|x a IH]; simpl; [reflexivity|]. rewrite IH. f_equal. ring. Qed.

  Lemma dot_comm a b : dot a b = dot b a.
  Proof.
    unfold dot. revert b. induction a as [|x a IH]; intros [|y b]; simpl; try reflexivity.
    rewrite IH. ring.
  Qed.

  Lemma dot_app a c b d : length a = length c -> dot (a ++ b) (c ++ d) = kadd (dot a c) (dot b d).
  Proof.
    unfold dot. intros H. rewrite map2_app by assumption.
    induction (map2 kmul a c) as [|x l IH]; simpl; [ring|]. rewrite IH. ring.
  Qed.

  Lemma dot_add_l a b c : length a = length b ->
                          dot (vadd a b) c = kadd (dot a c) (dot b c).
  Proof. unfold vadd, vscale in *.
    unfold dot. revert b c.
    induction a as [|x a IH]; intros [|y b] [|z c] H; simpl in *; try lia; try ring.
    rewrite IH by lia. ring.
  Qed.

  Lemma dot_scale_l a b s : dot (vscale a s) b = kmul s (dot a b).
  Proof. unfold vadd, vscale in *.
    unfold dot. revert b. induction a as [|x a IH]; intros [|y b]; simpl; try ring.
    rewrite IH. ring.
  Qed.

  (* ---------------- complex leaves as real coordinate pairs ---------------- *)
  Definition cflat (d : list (K * K)) : list K := flat_map (fun p => [fst p; snd p]) d.

  Lemma cflat_cons p d : cflat (p :: d) = fst p :: snd p :: cflat d.
  Proof. reflexivity. Qed.

  Lemma cflat_length d : length (cflat d) = 2 * length d.
  Proof.
    induction d as [|p d IH]; [reflexivity|].
    rewrite cflat_cons. cbn [length]. rewrite IH. lia.
  Qed.

  Lemma cflat_add a b : cflat (map2 cadd a b) = vadd (cflat a) (cflat b).
  Proof.
    revert b. induction a as [|p a IH]; intros [|q b]; try reflexivity.
    cbn [map2]. rewrite !cflat_cons, IH. reflexivity.
  Qed.

  Lemma cflat_scale d s :
    cflat (map (fun p => (kmul (fst p) s, kmul (snd p) s)) d) = vscale (cflat d) s.
  Proof.
    induction d as [|p d IH]; [reflexivity|].
    cbn [map]. rewrite !cflat_cons, IH. reflexivity.
  Qed.

  Lemma cflat_dot a b :
    ksum (map2 (fun p q => kadd (kmul (fst p) (fst q)) (kmul (snd p) (snd q))) a b)
    = dot (cflat a) (cflat b).
  Proof.
    revert b. induction a as [|p a IH]; intros [|q b]; try reflexivity.
    cbn [map2 VSpace.ksum]. rewrite IH, !cflat_cons. unfold dot. cbn [map2 VSpace.ksum]. ring.
  Qed.

  Lemma pairs_cflat d : pairs K (cflat d) = d.
  Proof.
    induction d as [|[a b] d IH]; [reflexivity|].
    rewrite cflat_cons. cbn [pairs fst snd]. now rewrite IH.
  Qed.

  Lemma cflat_pairs : forall n l, length l = 2 * n -> cflat (pairs K l) = l.
  Proof.
    induction n as [|n IH]; intros l H.
    - destruct l; [reflexivity|simpl in H; lia].
    - destruct l as [|a [|b l]]; simpl in H; try lia.
      cbn [pairs]. rewrite cflat_cons. cbn [fst snd]. rewrite IH by lia. reflexivity.
  Qed.

  Lemma pairs_length : forall n l, length l = 2 * n -> length (pairs K l) = n.
  Proof.
    induction n as [|n IH]; intros l H.
    - destruct l; [reflexivity|simpl in H; lia].
    - destruct l as [|a [|b l]]; simpl in H; try lia. simpl. rewrite IH; lia.
  Qed.

  (* ---------------- flatten: length, and the operations in coordinates ---------------- *)
  Definition same (x y : tree) : Prop := vspace x = vspace y.

  Lemma flat_seq b l : flat (Seq b l) = flat_map flat l.
  Proof. reflexivity. Qed.
  Lemma flat_dct l : flat (Dct l) = flat_map (fun kv => flat (snd kv)) l.
  Proof. reflexivity. Qed.

  Lemma flat_map_map_snd (l : list (nat * tree)) :
    flat_map flat (map snd l) = flat_map (fun kv => flat (snd kv)) l.
  Proof. induction l as [|kv r IH]; simpl; [reflexivity|]. now rewrite IH. Qed.

  Ltac split_forall H x r :=
    let Hx := fresh H x in let Hr := fresh H r in
    pose proof (Forall_inv H) as Hx; pose proof (Forall_inv_tail H) as Hr; clear H.

  Theorem flat_length : forall x, wf x -> length (flat x) = size (vspace x).
  Proof.
    induction x as [dt sh d|dt sh d|b l IH|l IH] using tree_ind2; intros Hwf.
    - simpl in *. assumption.
    - simpl in *. fold (cflat d). rewrite cflat_length. lia.
    - apply wf_seq in Hwf. rewrite flat_seq. simpl vspace. simpl size.
      induction l as [|x r IHr]; simpl; [reflexivity|].
      pose proof (Forall_inv IH) as IH1. pose proof (Forall_inv_tail IH) as IH2.
      pose proof (Forall_inv Hwf) as W1. pose proof (Forall_inv_tail Hwf) as W2.
      rewrite app_length. f_equal; auto.
    - apply wf_dct in Hwf. rewrite flat_dct. simpl vspace. simpl size.
      induction l as [|[k x] r IHr]; simpl; [reflexivity|].
      pose proof (Forall_inv IH) as IH1. pose proof (Forall_inv_tail IH) as IH2.
      pose proof (Forall_inv Hwf) as W1. pose proof (Forall_inv_tail Hwf) as W2.
      simpl in *. rewrite app_length. f_equal; auto.
  Qed.

  Lemma same_length x y : wf x -> wf y -> same x y -> length (flat x) = length (flat y).
  Proof. intros Hx Hy Hs. rewrite !flat_length by assumption. now rewrite Hs. Qed.

  Definition add_ok (x y : tree) : Prop :=
    vspace (tadd x y) = vspace x /\ wf (tadd x y)
    /\ flat (tadd x y) = vadd (flat x) (flat y).

  Lemma add_ok_list l : 
    Forall (fun x => forall y, wf x -> wf y -> same x y -> add_ok x y) l ->
    forall l', Forall wf l -> Forall wf l' -> map vspace l = map vspace l' ->
      map vspace (map2 tadd l l') = map vspace l
      /\ Forall wf (map2 tadd l l')
      /\ flat_map flat (map2 tadd l l') = vadd (flat_map flat l) (flat_map flat l').
  Proof.
    induction l as [|x r IHr]; intros IH [|y r'] Hw Hw' Hm; simpl in Hm; try discriminate.
    - simpl. repeat split; constructor.
    - injection Hm as Hxy Hrr.
      pose proof (Forall_inv IH) as IH1. pose proof (Forall_inv_tail IH) as IH2.
      pose proof (Forall_inv Hw) as W1. pose proof (Forall_inv_tail Hw) as W2.
      pose proof (Forall_inv Hw') as V1. pose proof (Forall_inv_tail Hw') as V2.
      destruct (IH1 y W1 V1 Hxy) as (E1 & E2 & E3).
      destruct (IHr IH2 r' W2 V2 Hrr) as (F1 & F2 & F3).
      cbn [map2 map flat_map]. repeat split.
      + now rewrite E1, F1.
      + now constructor.
      + rewrite E3, F3. unfold vadd. rewrite map2_app; [reflexivity|].
        now apply same_length.
  Qed.

  Lemma add_ok_dlist l : 
    Forall (fun kv => forall y, wf (snd kv) -> wf y -> same (snd kv) y -> add_ok (snd kv) y) l ->
    forall l', Forall (fun kv => wf (snd kv)) l -> Forall (fun kv => wf (snd kv)) l' ->
      map (fun kv => (fst kv, vspace (snd kv))) l = map (fun kv => (fst kv, vspace (snd kv))) l' ->
      map (fun kv => (fst kv, vspace (snd kv))) (map2 dadd l l')
      = map (fun kv => (fst kv, vspace (snd kv))) l
      /\ Forall (fun kv => wf (snd kv)) (map2 dadd l l')
      /\ flat_map (fun kv => flat (snd kv)) (map2 dadd l l')
         = vadd (flat_map (fun kv => flat (snd kv)) l) (flat_map (fun kv => flat (snd kv)) l').
  Proof.
    induction l as [|[k x] r IHr]; intros IH [|[k' y] r'] Hw Hw' Hm; simpl in Hm; try discriminate.
    - simpl. repeat split; constructor.
    - injection Hm as Hk Hxy Hrr.
      pose proof (Forall_inv IH) as IH1. pose proof (Forall_inv_tail IH) as IH2.
      pose proof (Forall_inv Hw) as W1. pose proof (Forall_inv_tail Hw) as W2.
      pose proof (Forall_inv Hw') as V1. pose proof (Forall_inv_tail Hw') as V2.
      simpl in IH1, W1, V1.
      destruct (IH1 y W1 V1 Hxy) as (E1 & E2 & E3).
      destruct (IHr IH2 r' W2 V2 Hrr) as (F1 & F2 & F3).
      cbn [map2 map flat_map dadd fst snd]. repeat split.
      + now rewrite E1, F1.
      + now constructor.
      + rewrite E3, F3. unfold vadd. rewrite map2_app; [reflexivity|].
        now apply same_length.
  Qed.

  (* addition: result stays in the space, is well-formed, and adds coordinates *)
  Theorem tadd_spec : forall x y, wf x -> wf y -> same x y -> add_ok x y.
  Proof.
    induction x as [dt sh d|dt sh d|b l IH|l IH] using tree_ind2; intros y Hx Hy Hs;
      destruct y as [dt' sh' d'|dt' sh' d'|b' l'|l']; unfold same in Hs; simpl in Hs;
        try discriminate; unfold add_ok.
    - injection Hs as Hdt Hsh. subst. simpl in *. repeat split.
      rewrite map2_length; congruence.
    - injection Hs as Hdt Hsh. subst. simpl in *. repeat split.
      + rewrite map2_length; congruence.
      + apply cflat_add.
    - injection Hs as Hb Hm. rewrite tadd_seq.
      apply wf_seq in Hx. apply wf_seq in Hy.
      destruct (add_ok_list l IH l' Hx Hy Hm) as (G1 & G2 & G3). repeat split.
      + simpl. now rewrite G1.
      + now apply wf_seq.
      + rewrite !flat_seq. assumption.
    - injection Hs as Hm. rewrite tadd_dct.
      apply wf_dct in Hx. apply wf_dct in Hy.
      destruct (add_ok_dlist l IH l' Hx Hy Hm) as (G1 & G2 & G3). repeat split.
      + simpl. now rewrite G1.
      + now apply wf_dct.
      + rewrite !flat_dct. assumption.
  Qed.

  Theorem smul_spec : forall x a, wf x ->
      vspace (smul x a) = vspace x /\ wf (smul x a)
      /\ flat (smul x a) = vscale (flat x) a.
  Proof.
    induction x as [dt sh d|dt sh d|b l IH|l IH] using tree_ind2; intros a Hx.
    - simpl in *. repeat split. now rewrite map_length.
    - simpl in *. repeat split; [now rewrite map_length|apply cflat_scale].
    - apply wf_seq in Hx.
      assert (Hg : map vspace (map (fun t => smul t a) l) = map vspace l
                   /\ Forall wf (map (fun t => smul t a) l)
                   /\ flat_map flat (map (fun t => smul t a) l) = vscale (flat_map flat l) a).
      { induction l as [|x r IHr]; [simpl; repeat split; constructor|].
        pose proof (Forall_inv IH) as IH1. pose proof (Forall_inv_tail IH) as IH2.
        pose proof (Forall_inv Hx) as W1. pose proof (Forall_inv_tail Hx) as W2.
        destruct (IH1 a W1) as (E1 & E2 & E3). destruct (IHr IH2 W2) as (F1 & F2 & F3).
        cbn [map flat_map]. repeat split.
        - now rewrite E1, F1.
        - now constructor.
        - rewrite E3, F3. unfold vscale. now rewrite map_app. }
      destruct Hg as (G1 & G2 & G3). simpl smul. repeat split.
      + simpl. now rewrite G1.
      + now apply wf_seq.
      + rewrite !flat_seq. assumption.
    - apply wf_dct in Hx.
      assert (Hg : map (fun kv => (fst kv, vspace (snd kv)))
                       (map (fun kv => (fst kv, smul (snd kv) a)) l)
                   = map (fun kv => (fst kv, vspace (snd kv))) l
                   /\ Forall (fun kv => wf (snd kv)) (map (fun kv => (fst kv, smul (snd kv) a)) l)
                   /\ flat_map (fun kv => flat (snd kv)) (map (fun kv => (fst kv, smul (snd kv) a)) l)
                      = vscale (flat_map (fun kv => flat (snd kv)) l) a).
      { induction l as [|[k x] r IHr]; [simpl; repeat split; constructor|].
        pose proof (Forall_inv IH) as IH1. pose proof (Forall_inv_tail IH) as IH2.
        pose proof (Forall_inv Hx) as W1. pose proof (Forall_inv_tail Hx) as W2.
        simpl in IH1, W1.
        destruct (IH1 a W1) as (E1 & E2 & E3). destruct (IHr IH2 W2) as (F1 & F2 & F3).
        cbn [map flat_map fst snd]. repeat split.
        - now rewrite E1, F1.
        - now constructor.
        - rewrite E3, F3. unfold vscale. now rewrite map_app. }
      destruct Hg as (G1 & G2 & G3). simpl smul. repeat split.
      + simpl. now rewrite G1.
      + now apply wf_dct.
      + rewrite !flat_dct. assumption.
  Qed.

  Theorem zeros_spec : forall v,
      vspace (zeros v) = v /\ wf (zeros v) /\ flat (zeros v) = repeat k0 (size v).
  Proof.
    induction v as [dt sh|dt sh|b l IH|l IH] using vs_ind2.
    - simpl. repeat split. apply repeat_length.
    - simpl. repeat split; [apply repeat_length|].
      generalize (prod sh). intros n. induction n as [|n IHn]; simpl; [reflexivity|].
      rewrite IHn. replace (n + S (n + 0)) with (S (n + (n + 0))) by lia. reflexivity.
    - assert (Hg : map vspace (map zeros l) = l /\ Forall wf (map zeros l)
                   /\ flat_map flat (map zeros l) = repeat k0 (list_sum (map size l))).
      { induction l as [|x r IHr]; [simpl; repeat split; constructor|].
        pose proof (Forall_inv IH) as IH1. pose proof (Forall_inv_tail IH) as IH2.
        destruct IH1 as (E1 & E2 & E3). destruct (IHr IH2) as (F1 & F2 & F3).
        cbn [map flat_map list_sum fold_right]. repeat split.
        - now rewrite E1, F1.
        - now constructor.
        - rewrite E3, F3. now rewrite repeat_app. }
      destruct Hg as (G1 & G2 & G3). simpl zeros. repeat split.
      + simpl. now rewrite G1.
      + now apply wf_seq.
      + rewrite flat_seq. assumption.
    - assert (Hg : map (fun kv => (fst kv, vspace (snd kv))) (map (fun kv => (fst kv, zeros (snd kv))) l) = l
                   /\ Forall (fun kv => wf (snd kv)) (map (fun kv => (fst kv, zeros (snd kv))) l)
                   /\ flat_map (fun kv => flat (snd kv)) (map (fun kv => (fst kv, zeros (snd kv))) l)
                      = repeat k0 (list_sum (map (fun kv => size (snd kv)) l))).
      { induction l as [|[k x] r IHr]; [simpl; repeat split; constructor|].
        pose proof (Forall_inv IH) as IH1. pose proof (Forall_inv_tail IH) as IH2.
        simpl in IH1.
        destruct IH1 as (E1 & E2 & E3). destruct (IHr IH2) as (F1 & F2 & F3).
        cbn [map flat_map list_sum fold_right fst snd]. repeat split.
        - now rewrite E1, F1.
        - now constructor.
        - rewrite E3, F3. now rewrite repeat_app. }
      destruct Hg as (G1 & G2 & G3). simpl zeros. repeat split.
      + simpl. now rewrite G1.
      + now apply wf_dct.
      + rewrite flat_dct. assumption.
  Qed.

  Lemma inner_list_flat l :
    Forall (fun x => forall y, wf x -> wf y -> same x y -> inner x y = dot (flat x) (flat y)) l ->
    forall l', Forall wf l -> Forall wf l' -> map vspace l = map vspace l' ->
      inner_list l l' = dot (flat_map flat l) (flat_map flat l').
  Proof.
    induction l as [|x r IHr]; intros IH [|y r'] Hw Hw' Hm; simpl in Hm; try discriminate.
    - reflexivity.
    - injection Hm as Hxy Hrr.
      pose proof (Forall_inv IH) as IH1. pose proof (Forall_inv_tail IH) as IH2.
      pose proof (Forall_inv Hw) as W1. pose proof (Forall_inv_tail Hw) as W2.
      pose proof (Forall_inv Hw') as V1. pose proof (Forall_inv_tail Hw') as V2.
      cbn [inner_list flat_map]. rewrite (IH1 y W1 V1 Hxy), (IHr IH2 r' W2 V2 Hrr).
      rewrite dot_app; [reflexivity|]. now apply same_length.
  Qed.

  Theorem inner_flat : forall x y, wf x -> wf y -> same x y ->
      inner x y = dot (flat x) (flat y).
  Proof.
    induction x as [dt sh d|dt sh d|b l IH|l IH] using tree_ind2; intros y Hx Hy Hs;
      destruct y as [dt' sh' d'|dt' sh' d'|b' l'|l']; unfold same in Hs; simpl in Hs;
        try discriminate.
    - reflexivity.
    - simpl. apply cflat_dot.
    - injection Hs as Hb Hm. rewrite inner_seq, !flat_seq.
      apply wf_seq in Hx. apply wf_seq in Hy. now apply inner_list_flat.
    - injection Hs as Hm. rewrite inner_dct, !flat_dct.
      apply wf_dct in Hx. apply wf_dct in Hy.
      rewrite <- !flat_map_map_snd.
      apply inner_list_flat.
      + apply Forall_map. assumption.
      + now apply Forall_map.
      + now apply Forall_map.
      + rewrite !map_map.
        assert (E : forall ll : list (nat * tree),
                   map (fun x => vspace (snd x)) ll
                   = map snd (map (fun kv => (fst kv, vspace (snd kv))) ll)).
        { intros ll. rewrite map_map. reflexivity. }
        rewrite !E. now rewrite Hm.
  Qed.

  (* ---------------- flatten / unflatten are mutually inverse ---------------- *)
  Theorem unflat_flat : forall x, wf x -> forall rest,
      unflat (vspace x) (flat x ++ rest) = x.
  Proof.
    induction x as [dt sh d|dt sh d|b l IH|l IH] using tree_ind2; intros Hx rest.
    - simpl in *. f_equal. rewrite <- Hx. rewrite firstn_app, firstn_all, Nat.sub_diag. simpl.
      now rewrite app_nil_r.
    - simpl in Hx. cbn [VSpace.vspace VSpace.unflat VSpace.flat]. f_equal. fold (cflat d).
      replace (2 * prod sh) with (length (cflat d)) by (rewrite cflat_length; lia).
      rewrite firstn_app, firstn_all, Nat.sub_diag. simpl. rewrite app_nil_r. apply pairs_cflat.
    - apply wf_seq in Hx. simpl vspace. rewrite unflat_seq, flat_seq. f_equal.
      revert rest. induction l as [|x r IHr]; intros rest; [reflexivity|].
      pose proof (Forall_inv IH) as IH1. pose proof (Forall_inv_tail IH) as IH2.
      pose proof (Forall_inv Hx) as W1. pose proof (Forall_inv_tail Hx) as W2.
      cbn [map unflat_list flat_map].
      rewrite <- app_assoc. rewrite IH1 by assumption. f_equal.
      rewrite <- (flat_length x) by assumption.
      rewrite skipn_app, skipn_all, Nat.sub_diag. simpl. now apply IHr.
    - apply wf_dct in Hx. simpl vspace. rewrite unflat_dct, flat_dct. f_equal.
      revert rest. induction l as [|[k x] r IHr]; intros rest; [reflexivity|].
      pose proof (Forall_inv IH) as IH1. pose proof (Forall_inv_tail IH) as IH2.
      pose proof (Forall_inv Hx) as W1. pose proof (Forall_inv_tail Hx) as W2.
      simpl in IH1, W1.
      cbn [map unflat_dlist flat_map fst snd].
      rewrite <- app_assoc. rewrite IH1 by assumption. f_equal.
      rewrite <- (flat_length x) by assumption.
      rewrite skipn_app, skipn_all, Nat.sub_diag. simpl. now apply IHr.
  Qed.

  Lemma firstn_split : forall n m (l : list K),
      firstn n l ++ firstn m (skipn n l) = firstn (n + m) l.
  Proof.
    induction n as [|n IHn]; intros m l; simpl; [reflexivity|].
    destruct l as [|x l]; simpl; [now rewrite firstn_nil|]. now rewrite IHn.
  Qed.

  Theorem flat_unflat : forall v l, size v <= length l ->
      vspace (unflat v l) = v /\ wf (unflat v l)
      /\ flat (unflat v l) = firstn (size v) l.
  Proof.
    induction v as [dt sh|dt sh|b vl IH|vl IH] using vs_ind2; intros l Hl.
    - simpl in *. repeat split. rewrite firstn_length. lia.
    - cbn [VSpace.size] in Hl. cbn [VSpace.unflat VSpace.vspace VSpace.wf VSpace.flat VSpace.size].
      repeat split.
      + apply pairs_length. rewrite firstn_length. lia.
      + fold (cflat (pairs K (firstn (2 * prod sh) l))).
        apply (cflat_pairs (prod sh)). rewrite firstn_length. lia.
    - rewrite unflat_seq.
      assert (Hg : map vspace (unflat_list vl l) = vl /\ Forall wf (unflat_list vl l)
                   /\ flat_map flat (unflat_list vl l) = firstn (list_sum (map size vl)) l).
      { simpl in Hl. revert l Hl. induction vl as [|v r IHr]; intros l Hl.
        - simpl. repeat split; constructor.
        - pose proof (Forall_inv IH) as IH1. pose proof (Forall_inv_tail IH) as IH2.
          simpl in Hl.
          destruct (IH1 l) as (E1 & E2 & E3); [lia|].
          destruct (IHr IH2 (skipn (size v) l)) as (F1 & F2 & F3).
          { rewrite skipn_length. lia. }
          cbn [unflat_list map flat_map list_sum fold_right]. repeat split.
          + now rewrite E1, F1.
          + now constructor.
          + rewrite E3, F3. apply firstn_split. }
      destruct Hg as (G1 & G2 & G3). repeat split.
      + simpl. now rewrite G1.
      + now apply wf_seq.
      + rewrite flat_seq. assumption.
    - rewrite unflat_dct.
      assert (Hg : map (fun kv => (fst kv, vspace (snd kv))) (unflat_dlist vl l) = vl
                   /\ Forall (fun kv => wf (snd kv)) (unflat_dlist vl l)
                   /\ flat_map (fun kv => flat (snd kv)) (unflat_dlist vl l)
                      = firstn (list_sum (map (fun kv => size (snd kv)) vl)) l).
      { simpl in Hl. revert l Hl. induction vl as [|[k v] r IHr]; intros l Hl.
        - simpl. repeat split; constructor.
        - pose proof (Forall_inv IH) as IH1. pose proof (Forall_inv_tail IH) as IH2.
          simpl in Hl, IH1.
          destruct (IH1 l) as (E1 & E2 & E3); [lia|].
          destruct (IHr IH2 (skipn (size v) l)) as (F1 & F2 & F3).
          { rewrite skipn_length. lia. }
          cbn [unflat_dlist map flat_map list_sum fold_right fst snd]. repeat split.
          + now rewrite E1, F1.
          + now constructor.
          + rewrite E3, F3. apply firstn_split. }
      destruct Hg as (G1 & G2 & G3). repeat split.
      + simpl. now rewrite G1.
      + now apply wf_dct.
      + rewrite flat_dct. assumption.
  Qed.

  (* two well-formed values of one space with the same coordinates are equal *)
  Corollary flat_injective x y :
    wf x -> wf y -> same x y -> flat x = flat y -> x = y.
  Proof.
    intros Hx Hy Hs Hf.
    rewrite <- (unflat_flat x Hx []), <- (unflat_flat y Hy []). now rewrite Hs, Hf.
  Qed.

  (* ---------------- the vector-space axioms ---------------- *)
  Theorem add_comm x y : wf x -> wf y -> same x y -> tadd x y = tadd y x.
  Proof.
    intros Hx Hy Hs.
    destruct (tadd_spec x y Hx Hy Hs) as (A1 & A2 & A3).
    destruct (tadd_spec y x Hy Hx (eq_sym Hs)) as (B1 & B2 & B3).
    apply flat_injective; auto.
    - unfold same. congruence.
    - rewrite A3, B3. apply vadd_comm.
  Qed.

  Theorem add_assoc x y z : wf x -> wf y -> wf z -> same x y -> same y z ->
                            tadd x (tadd y z) = tadd (tadd x y) z.
  Proof.
    intros Hx Hy Hz Hxy Hyz.
    destruct (tadd_spec y z Hy Hz Hyz) as (A1 & A2 & A3).
    destruct (tadd_spec x y Hx Hy Hxy) as (B1 & B2 & B3).
    assert (S1 : same x (tadd y z)) by (unfold same in *; congruence).
    assert (S2 : same (tadd x y) z) by (unfold same in *; congruence).
    destruct (tadd_spec x (tadd y z) Hx A2 S1) as (C1 & C2 & C3).
    destruct (tadd_spec (tadd x y) z B2 Hz S2) as (D1 & D2 & D3).
    apply flat_injective; auto.
    - unfold same in *. congruence.
    - rewrite C3, D3, A3, B3. apply vadd_assoc.
  Qed.

  Theorem add_zeros_l x : wf x -> tadd (zeros (vspace x)) x = x.
  Proof.
    intros Hx. destruct (zeros_spec (vspace x)) as (Z1 & Z2 & Z3).
    destruct (tadd_spec (zeros (vspace x)) x Z2 Hx Z1) as (A1 & A2 & A3).
    apply flat_injective; auto.
    - unfold same. congruence.
    - rewrite A3, Z3. apply vadd_zero_l. now apply flat_length.
  Qed.

  Theorem add_zeros_r x : wf x -> tadd x (zeros (vspace x)) = x.
  Proof.
    intros Hx. destruct (zeros_spec (vspace x)) as (Z1 & Z2 & Z3).
    rewrite add_comm by (auto; unfold same; congruence). now apply add_zeros_l.
  Qed.

  Theorem smul_add_distr x y a : wf x -> wf y -> same x y ->
      smul (tadd x y) a = tadd (smul x a) (smul y a).
  Proof.
    intros Hx Hy Hs.
    destruct (tadd_spec x y Hx Hy Hs) as (A1 & A2 & A3).
    destruct (smul_spec x a Hx) as (B1 & B2 & B3).
    destruct (smul_spec y a Hy) as (C1 & C2 & C3).
    destruct (smul_spec (tadd x y) a A2) as (D1 & D2 & D3).
    assert (S1 : same (smul x a) (smul y a)) by (unfold same in *; congruence).
    destruct (tadd_spec _ _ B2 C2 S1) as (E1 & E2 & E3).
    apply flat_injective; auto.
    - unfold same in *. congruence.
    - rewrite D3, E3, A3, B3, C3. apply vscale_add.
  Qed.

  Theorem smul_plus_distr x a b : wf x ->
      smul x (kadd a b) = tadd (smul x a) (smul x b).
  Proof.
    intros Hx.
    destruct (smul_spec x a Hx) as (B1 & B2 & B3).
    destruct (smul_spec x b Hx) as (C1 & C2 & C3).
    destruct (smul_spec x (kadd a b) Hx) as (D1 & D2 & D3).
    assert (S1 : same (smul x a) (smul x b)) by (unfold same in *; congruence).
    destruct (tadd_spec _ _ B2 C2 S1) as (E1 & E2 & E3).
    apply flat_injective; auto.
    - unfold same in *. congruence.
    - rewrite D3, E3, B3, C3. apply vscale_plus.
  Qed.

  Theorem smul_smul x a b : wf x -> smul (smul x a) b = smul x (kmul a b).
  Proof.
    intros Hx.
    destruct (smul_spec x a Hx) as (B1 & B2 & B3).
    destruct (smul_spec (smul x a) b B2) as (C1 & C2 & C3).
    destruct (smul_spec x (kmul a b) Hx) as (D1 & D2 & D3).
    apply flat_injective; auto.
    - unfold same in *. congruence.
    - rewrite C3, B3, D3. apply vscale_mul.
  Qed.

  Theorem smul_one x : wf x -> smul x k1 = x.
  Proof.
    intros Hx. destruct (smul_spec x k1 Hx) as (B1 & B2 & B3).
    apply flat_injective; auto. rewrite B3. apply vscale_one.
  Qed.

  Theorem inner_sym x y : wf x -> wf y -> same x y -> inner x y = inner y x.
  Proof.
    intros Hx Hy Hs. rewrite (inner_flat x y), (inner_flat y x); auto.
    - apply dot_comm.
    - now symmetry.
  Qed.

  Theorem inner_add_l x y z : wf x -> wf y -> wf z -> same x y -> same y z ->
      inner (tadd x y) z = kadd (inner x z) (inner y z).
  Proof.
    intros Hx Hy Hz Hxy Hyz.
    destruct (tadd_spec x y Hx Hy Hxy) as (A1 & A2 & A3).
    assert (S1 : same (tadd x y) z) by (unfold same in *; congruence).
    assert (S2 : same x z) by (unfold same in *; congruence).
    rewrite (inner_flat _ _ A2 Hz S1), (inner_flat _ _ Hx Hz S2), (inner_flat _ _ Hy Hz Hyz), A3.
    apply dot_add_l. now apply same_length.
  Qed.

  Theorem inner_smul_l x y a : wf x -> wf y -> same x y ->
      inner (smul x a) y = kmul a (inner x y).
  Proof.
    intros Hx Hy Hs. destruct (smul_spec x a Hx) as (B1 & B2 & B3).
    assert (S1 : same (smul x a) y) by (unfold same in *; congruence).
    rewrite (inner_flat _ _ B2 Hy S1), (inner_flat _ _ Hx Hy Hs), B3. apply dot_scale_l.
  Qed.

  (* flatten is an isometry onto K^size *)
  Theorem flatten_isometry x y : wf x -> wf y -> same x y ->
      inner x y = dot (flat x) (flat y).
  Proof. exact (inner_flat x y). Qed.

  Theorem covector_involutive : forall x, covector (covector x) = x.
  Proof.
    induction x as [dt sh d|dt sh d|b l IH|l IH] using tree_ind2; simpl.
    - reflexivity.
    - f_equal. rewrite map_map. rewrite <- (map_id d) at 2. apply map_ext.
      intros [a b]. simpl. f_equal. ring.
    - f_equal. rewrite map_map. rewrite <- (map_id l) at 2.
      apply map_ext_Forall. assumption.
    - f_equal. rewrite map_map. rewrite <- (map_id l) at 2.
      apply map_ext_Forall. eapply Forall_impl; [|exact IH].
      intros [k x] H. simpl in *. now rewrite H.
  Qed.

  (* ---------------- the standard basis ---------------- *)
  Notation unit_vec := (unit_vec K k0 k1).
  Notation standard_basis := (standard_basis K k0 k1).

  Lemma unit_vec_length n i : length (unit_vec n i) = n.
  Proof. unfold VSpace.unit_vec. now rewrite map_length, seq_length. Qed.

  Theorem basis_length v : length (standard_basis v) = size v.
  Proof. unfold VSpace.standard_basis. now rewrite map_length, seq_length. Qed.

  Theorem basis_member v i : i < size v ->
      let b := unflat v (unit_vec (size v) i) in
      vspace b = v /\ wf b /\ flat b = unit_vec (size v) i.
  Proof.
    intros Hi b. destruct (flat_unflat v (unit_vec (size v) i)) as (A1 & A2 & A3).
    - rewrite unit_vec_length. lia.
    - repeat split; auto. subst b. rewrite A3.
      rewrite <- (unit_vec_length (size v) i) at 1. apply firstn_all.
  Qed.

  Lemma unit_vec_0 n : unit_vec (S n) 0 = k1 :: repeat k0 n.
  Proof.
    unfold VSpace.unit_vec. cbn [seq map Nat.eqb]. f_equal.
    rewrite <- seq_shift, map_map.
    rewrite <- (seq_length n 0) at 2.
    induction (seq 0 n) as [|j r IH]; [reflexivity|].
    cbn [map length repeat Nat.eqb]. f_equal. exact IH.
  Qed.

  Lemma unit_vec_S n i : unit_vec (S n) (S i) = k0 :: unit_vec n i.
  Proof.
    unfold VSpace.unit_vec. cbn [seq map Nat.eqb]. f_equal.
    rewrite <- seq_shift, map_map. apply map_ext. intros j. reflexivity.
  Qed.

  Lemma dot_zero_r l n : dot l (repeat k0 n) = k0.
  Proof.
    unfold dot. revert n. induction l as [|x l IH]; intros [|n]; simpl; try reflexivity.
    rewrite IH. ring.
  Qed.

  Lemma dot_unit : forall l n i, length l = n -> i < n -> dot l (unit_vec n i) = nth i l k0.
  Proof.
    induction l as [|x l IH]; intros n i Hl Hi; simpl in Hl; [lia|].
    destruct n as [|n]; [lia|]. destruct i as [|i].
    - rewrite unit_vec_0. unfold dot. cbn [map2 VSpace.ksum nth].
      fold (dot l (repeat k0 n)). rewrite dot_zero_r. ring.
    - rewrite unit_vec_S. unfold dot. cbn [map2 VSpace.ksum nth].
      fold (dot l (unit_vec n i)). rewrite IH by lia. ring.
  Qed.

  Lemma nth_unit : forall n i j, i < n -> j < n ->
      nth j (unit_vec n i) k0 = if Nat.eqb j i then k1 else k0.
  Proof.
    induction n as [|n IH]; intros i j Hi Hj; [lia|].
    destruct i as [|i].
    - rewrite unit_vec_0. destruct j as [|j]; [reflexivity|].
      cbn [nth Nat.eqb]. apply nth_repeat.
    - rewrite unit_vec_S. destruct j as [|j]; [reflexivity|].
      cbn [nth Nat.eqb]. apply IH; lia.
  Qed.

  (* orthonormal: <b_i, b_j> = [i = j] *)
  Theorem basis_orthonormal v i j : i < size v -> j < size v ->
      inner (unflat v (unit_vec (size v) i)) (unflat v (unit_vec (size v) j))
      = if Nat.eqb i j then k1 else k0.
  Proof.
    intros Hi Hj.
    destruct (basis_member v i Hi) as (A1 & A2 & A3).
    destruct (basis_member v j Hj) as (B1 & B2 & B3).
    rewrite inner_flat; auto; [|unfold same; congruence].
    rewrite A3, B3. rewrite (dot_unit _ (size v)); [|apply unit_vec_length|assumption].
    rewrite nth_unit by assumption. now rewrite Nat.eqb_sym.
  Qed.

  (* the i-th coordinate of x is its inner product with the i-th basis vector *)
  Theorem basis_coordinates x i : wf x -> i < size (vspace x) ->
      inner x (unflat (vspace x) (unit_vec (size (vspace x)) i)) = nth i (flat x) k0.
  Proof.
    intros Hx Hi. destruct (basis_member (vspace x) i Hi) as (A1 & A2 & A3).
    rewrite inner_flat; auto; [|unfold same; congruence].
    rewrite A3. apply dot_unit; [now apply flat_length|assumption].
  Qed.
End Proofs.
