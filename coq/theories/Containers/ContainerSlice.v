(* C12: slicing a sequence container (seq[a:b], any Python bounds incl. negative, None, out of range) - the registered
   VJP container_untake is the adjoint of container_take and lands in the container's space. *)
From Coq Require Import List Arith Bool ZArith Lia Ring.
Import ListNotations.
From AG Require Import VSpace VSpaceProof ContainerOps ContainerProof.

Section SliceProof.
  Variable K : Type.
  Variables (k0 k1 : K) (kadd kmul ksub : K -> K -> K) (kopp : K -> K).
  Hypothesis Kring : ring_theory k0 k1 kadd kmul ksub kopp eq.
  Add Ring KR3 : Kring.

  Notation tree := (tree K).
  Notation vspace := (vspace K).
  Notation zeros := (zeros K k0).
  Notation inner := (inner K k0 kadd kmul).
  Notation inner_list := (inner_list K k0 kadd kmul).
  Notation wf := (wf K).
  Notation take := (take K).
  Notation untake := (untake K k0).

  Lemma map2_snd_id : forall (A : Type) (c : list A) (gl : list tree),
      length gl = length c -> map2 (fun (_ : A) (gi : tree) => gi) c gl = gl.
  Proof. induction c as [|x c IH]; intros [|g gl] H; simpl in *; try discriminate; auto. f_equal. apply IH. lia. Qed.

  Lemma skipn_add {A} : forall (l : list A) p q, skipn p (skipn q l) = skipn (q + p) l.
  Proof. induction l as [|x l IH]; intros p [|q]; simpl; auto; destruct p; reflexivity || apply IH. Qed.

  Lemma split3 {A} (l : list A) lo m : lo <= m ->
      l = firstn lo l ++ firstn (m - lo) (skipn lo l) ++ skipn m l.
  Proof.
    intros H. rewrite <- (firstn_skipn lo l) at 1. f_equal.
    rewrite <- (firstn_skipn (m - lo) (skipn lo l)) at 1. f_equal.
    rewrite skipn_add. f_equal. lia.
  Qed.

  Lemma inner_list_app2 : forall a b ga gb, length a = length ga ->
      inner_list (a ++ b) (ga ++ gb) = kadd (inner_list a ga) (inner_list b gb).
  Proof.
    induction a as [|x a IH]; intros b [|g ga] gb H; simpl in *; try discriminate; [ring|].
    rewrite IH by lia. ring.
  Qed.

  Lemma inner_list_zeros' l : Forall wf l -> inner_list l (map zeros (map vspace l)) = k0.
  Proof. apply (inner_list_zeros K k0 k1 kadd kmul ksub kopp Kring). Qed.

  Lemma Forall_firstn {A} (P : A -> Prop) n l : Forall P l -> Forall P (firstn n l).
  Proof. revert n. induction l as [|x l IH]; intros [|n] H; simpl; auto. inversion H; subst. constructor; auto. Qed.
  Lemma Forall_skipn {A} (P : A -> Prop) n l : Forall P l -> Forall P (skipn n l).
  Proof. revert n. induction l as [|x l IH]; intros [|n] H; simpl; auto. inversion H; subst. auto. Qed.

  Lemma slice_bounds_ok len a b lo hi : slice_bounds len a b = (lo, hi) -> lo <= hi.
  Proof. unfold slice_bounds. intros H. injection H as <- <-. lia. Qed.

  Theorem take_untake_adjoint_slice t l a b c t' gl :
    wf (Seq t l) -> take (Seq t l) (ISlice a b) = Some (Seq t c) -> map vspace gl = map vspace c ->
    exists u, untake (Seq t' gl) (ISlice a b) (vspace (Seq t l)) = Some u
              /\ vspace u = vspace (Seq t l)
              /\ inner (Seq t l) u = inner (Seq t c) (Seq t' gl).
  Proof.
    intros Hw Ht Hg. apply wf_seq in Hw. unfold ContainerOps.take in Ht.
    destruct (slice_bounds (length l) a b) as [lo hi] eqn:Eb.
    pose proof (slice_bounds_ok _ _ _ _ _ Eb) as Hle.
    injection Ht as <-.
    unfold ContainerOps.untake. cbn [VSpace.vspace]. rewrite map_length, Eb.
    assert (Hlen : length gl = length (firstn (hi - lo) (skipn lo l))).
    { rewrite <- (map_length vspace gl), Hg, map_length. reflexivity. }
    eexists. split; [reflexivity|].
    rewrite (map2_snd_id _ (firstn (hi - lo) (skipn lo (map vspace l))) gl)
      by (rewrite skipn_map, firstn_map, map_length; exact Hlen).
    rewrite !skipn_map, !firstn_map.
    split.
    - simpl. f_equal. rewrite !map_app. rewrite !(zeros_vspace_list K k0).
      rewrite Hg. rewrite <- !map_app. f_equal. symmetry. apply split3. exact Hle.
    - rewrite !(inner_seq K k0 kadd kmul).
      rewrite (split3 l lo hi Hle) at 1.
      rewrite inner_list_app2 by (now rewrite !map_length).
      rewrite inner_list_app2 by (symmetry; exact Hlen).
      rewrite !inner_list_zeros' by (auto using Forall_firstn, Forall_skipn).
      ring.
  Qed.
End SliceProof.
