(* L5: model of autograd/builtins.py container primitives and their
   registered VJPs, on the value trees of VSpace.v. *)
From Coq Require Import List Arith Bool ZArith Lia.
Import ListNotations.
From AG Require Import VSpace.

Section Ops.
  Variable K : Type.
  Variables (k0 k1 : K) (kadd kmul : K -> K -> K).
  Notation tree := (tree K).
  Notation zeros := (zeros K k0).
  Notation tadd := (tadd K kadd).

  (* Python index normalisation for sequences: i in [-len, len) *)
  Definition norm_index (len : nat) (i : Z) : option nat :=
    if (0 <=? i)%Z then (if (i <? Z.of_nat len)%Z then Some (Z.to_nat i) else None)
    else if (- Z.of_nat len <=? i)%Z then Some (Z.to_nat (Z.of_nat len + i)) else None.

  (* slice(a, b).indices(len) with step 1; None bounds are passed as Python does *)
  Definition clampZ (len : nat) (i : Z) : nat :=
    let l := Z.of_nat len in
    let j := if (i <? 0)%Z then (i + l)%Z else i in
    Z.to_nat (Z.max 0 (Z.min l j)).
  Definition slice_bounds (len : nat) (a b : option Z) : nat * nat :=
    let lo := match a with None => 0 | Some i => clampZ len i end in
    let hi := match b with None => len | Some i => clampZ len i end in
    (lo, Nat.max lo hi).

  Fixpoint assoc {A} (k : nat) (l : list (nat * A)) : option A :=
    match l with
    | [] => None
    | (k', v) :: r => if Nat.eqb k' k then Some v else assoc k r
    end.

  Fixpoint replace_nth {A} (n : nat) (v : A) (l : list A) : list A :=
    match l, n with
    | [], _ => []
    | _ :: r, O => v :: r
    | x :: r, S n' => x :: replace_nth n' v r
    end.

  Fixpoint replace_key {A} (k : nat) (v : A) (l : list (nat * A)) : list (nat * A) :=
    match l with
    | [] => []
    | (k', w) :: r => if Nat.eqb k' k then (k', v) :: r else (k', w) :: replace_key k v r
    end.

  Inductive index := IInt (i : Z) | ISlice (a b : option Z) | IKey (k : nat).

  (* container_take(A, idx) = A[idx] *)
  Definition take (x : tree) (idx : index) : option tree :=
    match x, idx with
    | Seq t l, IInt i =>
      match norm_index (length l) i with Some n => nth_error l n | None => None end
    | Seq t l, ISlice a b =>
      let '(lo, hi) := slice_bounds (length l) a b in
      Some (Seq t (firstn (hi - lo) (skipn lo l)))
    | Dct l, IKey k => assoc k l
    | _, _ => None
    end.

  (* the dense value of container_untake(g, idx, vs): zeros of the space with
     g added at idx (SparseObject.mut_add applied to vs.zeros()) *)
  Definition untake (g : tree) (idx : index) (v : vs) : option tree :=
    match v, idx with
    | VSeq t vl, IInt i =>
      match norm_index (length vl) i with
      | Some n => Some (Seq t (replace_nth n g (map zeros vl)))
      | None => None
      end
    | VSeq t vl, ISlice a b =>
      let '(lo, hi) := slice_bounds (length vl) a b in
      match g with
      | Seq _ gl =>
        Some (Seq t (map zeros (firstn lo vl)
                         ++ map2 (fun _ gi => gi) (firstn (hi - lo) (skipn lo vl)) gl
                         ++ map zeros (skipn hi vl)))
      | _ => None
      end
    | VDct vl, IKey k =>
      match assoc k vl with
      | Some _ => Some (Dct (replace_key k g (map (fun kv => (fst kv, zeros (snd kv))) vl)))
      | None => None
      end
    | _, _ => None
    end.

  (* sequence_extend_right(seq, *elts) = seq + type(seq)(elts) and its VJPs *)
  Definition extend_right (s : tree) (elts : list tree) : option tree :=
    match s with Seq t l => Some (Seq t (l ++ elts)) | _ => None end.
  Definition extend_right_vjp (argnum : nat) (len_seq : nat) (g : tree) : option tree :=
    match g with
    | Seq t gl =>
      match argnum with
      | O => Some (Seq t (firstn len_seq gl))                (* g[:len(seq)] *)
      | S k => nth_error gl (len_seq + k)                    (* g[len(seq)+argnum-1] *)
      end
    | _ => None
    end.

  (* sequence_extend_left(seq, *elts) = type(seq)(elts) + seq *)
  Definition extend_left (s : tree) (elts : list tree) : option tree :=
    match s with Seq t l => Some (Seq t (elts ++ l)) | _ => None end.
  Definition extend_left_vjp (argnum : nat) (n_elts : nat) (g : tree) : option tree :=
    match g with
    | Seq t gl =>
      match argnum with
      | O => Some (Seq t (skipn n_elts gl))                  (* g[len(elts):] *)
      | S k => nth_error gl k                                (* g[argnum-1] *)
      end
    | _ => None
    end.

  (* make_sequence(seq_type, *args) and its VJP g[argnum-1] *)
  Definition make_sequence (tup : bool) (args : list tree) : tree := Seq tup args.
  Definition make_sequence_vjp (argnum : nat) (g : tree) : option tree :=
    match g, argnum with
    | Seq _ gl, S k => nth_error gl k
    | _, _ => None
    end.

  (* _make_dict(keys, vals) and its VJP [g[key] for key in keys] *)
  Definition make_dict (keys : list nat) (vals : list tree) : tree := Dct (combine keys vals).
  Definition make_dict_vjp (keys : list nat) (g : tree) : option (list tree) :=
    match g with
    | Dct gl => Some (flat_map (fun k => match assoc k gl with Some v => [v] | None => [] end) keys)
    | _ => None
    end.

  (* seq[a:b:s] with any step: the slice selects the DISTINCT positions sigma = range( *slice(a,b,s).indices(len))
     (read off Python); container_take gathers those children, container_untake stores the cotangent's children at
     those positions of zeros of the container's space *)
  Fixpoint gather_sel (l : list tree) (sigma : list nat) : option (list tree) :=
    match sigma with
    | [] => Some []
    | i :: s => match nth_error l i, gather_sel l s with
                | Some c, Some cs => Some (c :: cs)
                | _, _ => None
                end
    end.
  Fixpoint store_sel (u : list tree) (sigma : list nat) (gl : list tree) : list tree :=
    match sigma, gl with
    | i :: s, g :: gs => store_sel (replace_nth i g u) s gs
    | _, _ => u
    end.
  Definition take_sel (x : tree) (sigma : list nat) : option tree :=
    match x with Seq t l => option_map (Seq t) (gather_sel l sigma) | _ => None end.
  Definition untake_sel (g : tree) (sigma : list nat) (v : vs) : option tree :=
    match v, g with
    | VSeq t vl, Seq _ gl => Some (Seq t (store_sel (map zeros vl) sigma gl))
    | _, _ => None
    end.
End Ops.
