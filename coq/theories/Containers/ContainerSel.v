(* C12: a sequence container indexed by ANY Python slice - stepped, reversed, negative or missing bounds: seq[a:b:s].
   The slice selects the positions sigma = range( *slice(a, b, s).indices(len(seq))), all distinct (read off Python by the
   harness, as NumPy's index resolution is for arrays).  container_take gathers those children; container_untake builds
   zeros of the container's space and stores the cotangent's children at those positions.  For every list of distinct
   positions: the result lies in the container's space and is the adjoint of the gather. *)
From Coq Require Import List Arith Bool Lia Ring.
Import ListNotations.
From AG Require Import VSpace VSpaceProof ContainerOps ContainerProof.

Section Sel.
  Variable K : Type.
  Variables (k0 k1 : K) (kadd kmul ksub : K -> K -> K) (kopp : K -> K).
  Hypothesis Kring : ring_theory k0 k1 kadd kmul ksub kopp eq.
  Add Ring KRsel : Kring.
  Notation tree := (tree K).
  Notation vspace := (vspace K).
  Notation zeros := (zeros K k0).
  Notation inner := (inner K k0 kadd kmul).
  Notation inner_list := (inner_list K k0 kadd kmul).
  Notation wf := (wf K).

  Notation gather_sel := (gather_sel K).
  Notation store_sel := (store_sel K).
  Notation take_sel := (take_sel K).
  Notation untake_sel := (untake_sel K k0).

  Lemma nth_error_replace_other {A} : forall (u : list A) i j g, i <> j -> nth_error (replace_nth i g u) j = nth_error u j.
  Proof. induction u as [|x u IH]; intros [|i] [|j] g H; simpl; auto; try congruence. Qed.

  Lemma replace_vspace : forall (u l : list tree) i ci g,
      map vspace u = map vspace l -> nth_error l i = Some ci -> vspace g = vspace ci ->
      map vspace (replace_nth i g u) = map vspace l.
  Proof.
    induction u as [|x u IH]; intros [|y l] i ci g Hm Hn Hg; simpl in *; try discriminate; [destruct i; discriminate|].
    injection Hm as Hx Hu. destruct i as [|i]; simpl in *.
    - injection Hn as ->. now rewrite Hg, Hu.
    - rewrite Hx. f_equal. eapply IH; eauto.
  Qed.

  (* replacing one child moves the pairing by the difference of the two children's pairings *)
  Lemma inner_replace : forall (l u : list tree) i ci z g,
      length u = length l -> nth_error l i = Some ci -> nth_error u i = Some z ->
      kadd (inner_list l (replace_nth i g u)) (inner ci z) = kadd (inner_list l u) (inner ci g).
  Proof.
    induction l as [|y l IH]; intros [|x u] i ci z g Hl Hn Hu; simpl in *; try discriminate; [destruct i; discriminate|].
    destruct i as [|i]; simpl in *.
    - injection Hn as ->. injection Hu as ->. ring.
    - assert (E := IH u i ci z g ltac:(lia) Hn Hu).
      transitivity (kadd (inner y x) (kadd (inner_list l (replace_nth i g u)) (inner ci z))); [ring|]. rewrite E. ring.
  Qed.

  Lemma store_gen : forall sigma l c gl u,
      Forall wf l -> gather_sel l sigma = Some c -> NoDup sigma -> map vspace gl = map vspace c ->
      map vspace u = map vspace l ->
      (forall i x, In i sigma -> nth_error l i = Some x -> nth_error u i = Some (zeros (vspace x))) ->
      map vspace (store_sel u sigma gl) = map vspace l
      /\ inner_list l (store_sel u sigma gl) = kadd (inner_list l u) (inner_list c gl).
  Proof.
    induction sigma as [|i s IH]; intros l c gl u Hw Hg Hnd Hv Hu Hz; simpl in *.
    - injection Hg as <-. destruct gl; [|discriminate]. simpl. split; [assumption|ring].
    - destruct (nth_error l i) as [ci|] eqn:Ei; [|discriminate].
      destruct (gather_sel l s) as [cs|] eqn:Es; [|discriminate]. injection Hg as <-.
      destruct gl as [|g gs]; [discriminate|]. simpl in Hv. injection Hv as Hg1 Hgs.
      inversion Hnd as [|? ? Hni Hnd']; subst.
      assert (Hzi : nth_error u i = Some (zeros (vspace ci))) by (apply Hz; [now left|assumption]).
      destruct (IH l cs gs (replace_nth i g u) Hw Es Hnd' Hgs) as [V I].
      + eapply replace_vspace; eauto.
      + intros j x Hj Hx. rewrite nth_error_replace_other by (intro; subst; contradiction). apply Hz; [now right|assumption].
      + split; [exact V|]. rewrite I. simpl.
        assert (Hlen : length u = length l) by (rewrite <- (map_length vspace u), Hu, map_length; reflexivity).
        pose proof (inner_replace l u i ci _ g Hlen Ei Hzi) as E.
        assert (Hwi : wf ci).
        { rewrite Forall_forall in Hw. apply Hw. eapply nth_error_In; eassumption. }
        rewrite (inner_zeros_r K k0 k1 kadd kmul ksub kopp Kring ci Hwi) in E.
        transitivity (kadd (kadd (inner_list l (replace_nth i g u)) k0) (inner_list cs gs)); [ring|].
        rewrite E. ring.
  Qed.

  Theorem take_untake_adjoint_sel t l sigma c t' gl :
    wf (Seq t l) -> NoDup sigma -> take_sel (Seq t l) sigma = Some (Seq t c) -> map vspace gl = map vspace c ->
    exists u, untake_sel (Seq t' gl) sigma (vspace (Seq t l)) = Some u
              /\ vspace u = vspace (Seq t l)
              /\ inner (Seq t l) u = inner (Seq t c) (Seq t' gl).
  Proof.
    intros Hw Hnd Ht Hg. apply (wf_seq K) in Hw. simpl in Ht.
    destruct (gather_sel l sigma) as [c'|] eqn:Eg; [|discriminate]. simpl in Ht. injection Ht as <-.
    unfold untake_sel. cbn [VSpace.vspace]. eexists. split; [reflexivity|].
    destruct (store_gen sigma l c' gl (map zeros (map vspace l)) Hw Eg Hnd Hg) as [V I].
    - apply (zeros_vspace_list K k0).
    - intros i x _ Hx. rewrite nth_error_map. rewrite nth_error_map, Hx. reflexivity.
    - split.
      + cbn [VSpace.vspace]. f_equal. exact V.
      + rewrite !(inner_seq K k0 kadd kmul). rewrite I.
        rewrite (inner_list_zeros K k0 k1 kadd kmul ksub kopp Kring l Hw). ring.
  Qed.
End Sel.
