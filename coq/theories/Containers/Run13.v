(* Executable Z instance of the vector-space model, positive definiteness over
   Z, and the correspondence checkers for C13 / C12. *)
From Coq Require Import List Arith Bool ZArith Lia Ring.
Import ListNotations.
From AG Require Import VSpace VSpaceProof.
Local Open Scope Z_scope.

Definition ztree := tree Z.
Definition zzeros := zeros Z 0.
Definition zones := ones Z 1.
Definition zadd := tadd Z Z.add.
Definition zsmul := smul Z Z.mul.
Definition zcov := covector Z Z.opp.
Definition zinner := inner Z 0 Z.add Z.mul.
Definition zflat := flat Z.
Definition zbasis := standard_basis Z 0 1.
Definition zvspace := vspace Z.

Definition Zring : ring_theory 0 1 Z.add Z.mul Z.sub Z.opp eq.
Proof. constructor; intros; ring. Qed.

(* ---- positive definiteness (needs an order: stated over Z) ---- *)
Lemma dot_self_nonneg (l : list Z) : 0 <= dot Z 0 Z.add Z.mul l l.
Proof.
  unfold dot. induction l as [|x l IH]; simpl; [lia|]. nia.
Qed.

Lemma dot_self_zero (l : list Z) : dot Z 0 Z.add Z.mul l l = 0 -> l = repeat 0 (length l).
Proof.
  unfold dot. induction l as [|x l IH]; simpl; intros H; [reflexivity|].
  pose proof (dot_self_nonneg l) as Hn. unfold dot in Hn.
  assert (x = 0) by nia. subst. f_equal. apply IH. nia.
Qed.

Theorem inner_pos_def (x : ztree) :
  wf Z x -> 0 <= zinner x x /\ (zinner x x = 0 -> x = zzeros (zvspace x)).
Proof.
  intros Hx. unfold zinner.
  rewrite (inner_flat Z 0 1 Z.add Z.mul Z.sub Z.opp Zring x x Hx Hx eq_refl).
  split; [apply dot_self_nonneg|]. intros H. apply dot_self_zero in H.
  destruct (zeros_spec Z 0 (zvspace x)) as (Z1 & Z2 & Z3).
  apply (flat_injective Z x (zzeros (zvspace x)) Hx Z2).
  - unfold same, zzeros, zvspace in *. now rewrite Z1.
  - unfold zzeros, zvspace in *. rewrite Z3, H. f_equal. now apply flat_length.
Qed.

(* ---- decidable equality of values (for the correspondence) ---- *)
Fixpoint list_eqb {A} (f : A -> A -> bool) (a b : list A) : bool :=
  match a, b with
  | [], [] => true
  | x :: a', y :: b' => f x y && list_eqb f a' b'
  | _, _ => false
  end.

Fixpoint tree_eqb (x y : ztree) : bool :=
  match x, y with
  | RLeaf d1 s1 a, RLeaf d2 s2 b =>
    Nat.eqb d1 d2 && list_eqb Nat.eqb s1 s2 && list_eqb Z.eqb a b
  | CLeaf d1 s1 a, CLeaf d2 s2 b =>
    Nat.eqb d1 d2 && list_eqb Nat.eqb s1 s2
    && list_eqb (fun p q => Z.eqb (fst p) (fst q) && Z.eqb (snd p) (snd q)) a b
  | Seq b1 l1, Seq b2 l2 =>
    Bool.eqb b1 b2 &&
    (fix go (l1 l2 : list ztree) : bool :=
       match l1, l2 with
       | [], [] => true
       | x1 :: r1, y1 :: r2 => tree_eqb x1 y1 && go r1 r2
       | _, _ => false
       end) l1 l2
  | Dct l1, Dct l2 =>
    (fix go (l1 l2 : list (nat * ztree)) : bool :=
       match l1, l2 with
       | [], [] => true
       | (k1, x1) :: r1, (k2, y1) :: r2 => Nat.eqb k1 k2 && tree_eqb x1 y1 && go r1 r2
       | _, _ => false
       end) l1 l2
  | _, _ => false
  end.

Record case13 := {
  v_x : ztree; v_y : ztree; v_a : Z;
  i_add : ztree; i_smul : ztree; i_cov : ztree; i_inner : Z;
  i_zeros : ztree; i_ones : ztree; i_size : nat; i_basis : list ztree;
  i_flat : option (list Z);      (* misc.flatten, real values only *)
  i_axioms_ok : bool             (* the axioms, evaluated on the implementation's own results *)
}.

Definition check13 (c : case13) : nat :=
  if negb c.(i_axioms_ok) then 2%nat else
  let v := zvspace c.(v_x) in
  if tree_eqb (zadd c.(v_x) c.(v_y)) c.(i_add)
     && tree_eqb (zsmul c.(v_x) c.(v_a)) c.(i_smul)
     && tree_eqb (zcov c.(v_x)) c.(i_cov)
     && Z.eqb (zinner c.(v_x) c.(v_y)) c.(i_inner)
     && tree_eqb (zzeros v) c.(i_zeros)
     && tree_eqb (zones v) c.(i_ones)
     && Nat.eqb (size v) c.(i_size)
     && list_eqb tree_eqb (zbasis v) c.(i_basis)
     && match c.(i_flat) with
        | Some l => list_eqb Z.eqb (zflat c.(v_x)) l
        | None => true
        end
  then 0%nat else 1%nat.

(* ---- C12: container primitives ---- *)
From AG Require Import ContainerOps.

Inductive cop :=
| OTake (idx : index)
| OSel (sigma : list nat)         (* x[a:b:s], sigma = range( *slice(a,b,s).indices(len x)) read off Python *)
| OExtR (elts : list ztree)      (* x + elts, differentiated with respect to x *)
| OExtL (elts : list ztree).     (* elts + x *)

Definition cop_apply (o : cop) (x : ztree) : option ztree :=
  match o with
  | OTake idx => take Z x idx
  | OSel sigma => take_sel Z x sigma
  | OExtR elts => extend_right Z x elts
  | OExtL elts => extend_left Z x elts
  end.

Definition seq_len (x : ztree) : nat := match x with Seq _ l => length l | _ => 0%nat end.

Definition cop_vjp (o : cop) (x g : ztree) : option ztree :=
  match o with
  | OTake idx => untake Z 0 g idx (zvspace x)
  | OSel sigma => untake_sel Z 0 g sigma (zvspace x)
  | OExtR elts => extend_right_vjp Z 0 (seq_len x) g
  | OExtL elts => extend_left_vjp Z 0 (length elts) g
  end.

Definition otree_eqb (a b : option ztree) : bool :=
  match a, b with
  | Some x, Some y => tree_eqb x y
  | None, None => true
  | _, _ => false
  end.

Record case12 := {
  k_x : ztree; k_op : cop; k_g : ztree;
  j_out : option ztree;     (* implementation f(x); None = raised *)
  j_vjp : option ztree;     (* implementation make_vjp(f)(x)[0](g), densified *)
  j_adjoint_ok : bool       (* <g, f(b)> = <vjp(g), b> for every basis vector b, on the implementation *)
}.

Definition check12 (c : case12) : nat :=
  if negb c.(j_adjoint_ok) then 2%nat else
  if otree_eqb (cop_apply c.(k_op) c.(k_x)) c.(j_out)
     && match c.(j_out) with
        | Some _ => otree_eqb (cop_vjp c.(k_op) c.(k_x) c.(k_g)) c.(j_vjp)
        | None => true
        end
  then 0%nat else 1%nat.
