(* The leaf operations of the vector-space model (Containers/VSpace.v) are the ones the translator reads off core.VSpace and
   numpy_vspaces.ArrayVSpace / ComplexArrayVSpace on this run (coq/gen/GenVSpace.v): entrywise addition and scaling, the
   two inner products, conjugation as the complex covector, the sizes, the ones, the basis units. *)
From Coq Require Import List Arith Bool Ring.
Import ListNotations.
From AG Require Import VSpace.
From AGGen Require Import GenVSpace.

Section Tie.
  Variable K : Type.
  Variables (k0 k1 : K) (kadd kmul ksub : K -> K -> K) (kopp : K -> K).
  Hypothesis Kring : ring_theory k0 k1 kadd kmul ksub kopp eq.
  Add Ring KRvt : Kring.

  Theorem sizes_follow_source dt sh :
    size (VR dt sh) = gen_real_size (VSpace.prod sh) /\ size (VC dt sh) = gen_complex_size (VSpace.prod sh).
  Proof. split; [reflexivity|]. unfold gen_complex_size. simpl. ring. Qed.

  Theorem ones_follow_source dt sh :
    ones K k1 (VR dt sh) = RLeaf dt sh (repeat (gen_real_one K k1) (VSpace.prod sh))
    /\ ones K k1 (VC dt sh) = CLeaf dt sh (repeat (gen_complex_one K k1) (VSpace.prod sh)).
  Proof. split; reflexivity. Qed.

  Theorem add_follows_source dt sh a b dt' sh' :
    tadd K kadd (RLeaf dt sh a) (RLeaf dt' sh' b) = RLeaf dt sh (map2 (gen_add K kadd) a b).
  Proof. reflexivity. Qed.

  Theorem complex_add_follows_source dt sh a b dt' sh' :
    tadd K kadd (CLeaf dt sh a) (CLeaf dt' sh' b)
    = CLeaf dt sh (map2 (fun p q => (gen_add K kadd (fst p) (fst q), gen_add K kadd (snd p) (snd q))) a b).
  Proof. reflexivity. Qed.

  Theorem scalar_mul_follows_source dt sh d a :
    smul K kmul (RLeaf dt sh d) a = RLeaf dt sh (map (fun v => gen_scalar_mul K kmul v a) d)
    /\ smul K kmul (CLeaf dt sh (map (fun v => (v, v)) d)) a
       = CLeaf dt sh (map (fun p => (gen_scalar_mul K kmul (fst p) a, gen_scalar_mul K kmul (snd p) a)) (map (fun v => (v, v)) d)).
  Proof. split; reflexivity. Qed.

  Theorem covector_follows_source dt sh (d : list K) (c : list (K * K)) :
    covector K kopp (RLeaf dt sh d) = RLeaf dt sh (map (gen_covector K) d)
    /\ covector K kopp (CLeaf dt sh c) = CLeaf dt sh (map (gen_complex_covector K kopp) c).
  Proof. split; simpl; [now rewrite map_id|reflexivity]. Qed.

  Lemma complex_term p q :
    gen_complex_inner_term K kadd kmul ksub kopp p q = kadd (kmul (fst p) (fst q)) (kmul (snd p) (snd q)).
  Proof. unfold gen_complex_inner_term, gen_re, gen_cmul, gen_cconj. simpl. ring. Qed.

  Lemma map2_ext {A B C} (f g : A -> B -> C) : (forall a b, f a b = g a b) -> forall l1 l2, map2 f l1 l2 = map2 g l1 l2.
  Proof. intros H. induction l1 as [|x l1 IH]; intros [|y l2]; simpl; auto. now rewrite H, IH. Qed.

  Theorem inner_follows_source dt sh a b dt' sh' (c e : list (K * K)) :
    inner K k0 kadd kmul (RLeaf dt sh a) (RLeaf dt' sh' b) = ksum K k0 kadd (map2 (gen_real_inner_term K kmul) a b)
    /\ inner K k0 kadd kmul (CLeaf dt sh c) (CLeaf dt' sh' e)
       = ksum K k0 kadd (map2 (gen_complex_inner_term K kadd kmul ksub kopp) c e).
  Proof.
    split; [reflexivity|]. simpl. f_equal. apply map2_ext. intros p q. symmetry. apply complex_term.
  Qed.

  (* the basis of a scalar leaf: the units, in the order of the source's loop *)
  Theorem basis_units_follow_source dt :
    standard_basis K k0 k1 (VR dt []) = map (fun u => RLeaf dt [] [u]) (gen_real_units K k1)
    /\ standard_basis K k0 k1 (VC dt []) = map (fun u => CLeaf dt [] [u]) (gen_complex_units K k0 k1).
  Proof. split; reflexivity. Qed.
End Tie.
