(* L5: values autograd differentiates with respect to (real / complex arrays of
   any shape, Python and NumPy scalars as 0-d arrays, nested tuples / lists /
   dicts) and their vector spaces: a model of core.VSpace,
   numpy_vspaces.ArrayVSpace / ComplexArrayVSpace and
   builtins.ContainerVSpace (Sequence / Dict).  Dicts are kept in canonical
   (key-sorted) order: every dict operation of autograd is a key lookup and
   Python dict equality ignores order.  Definitions only. *)
From Coq Require Import List Arith Bool.
Import ListNotations.

Section VSpace.
  Variable K : Type.
  Variables (k0 k1 : K) (kadd kmul : K -> K -> K) (kopp : K -> K).

  Inductive tree :=
  | RLeaf (dt : nat) (shape : list nat) (data : list K)          (* real array, row-major *)
  | CLeaf (dt : nat) (shape : list nat) (data : list (K * K))    (* complex array (re, im) *)
  | Seq (tup : bool) (l : list tree)                             (* tuple (true) / list (false) *)
  | Dct (l : list (nat * tree)).                                 (* dict, keys ascending *)

  Inductive vs :=
  | VR (dt : nat) (shape : list nat)
  | VC (dt : nat) (shape : list nat)
  | VSeq (tup : bool) (l : list vs)
  | VDct (l : list (nat * vs)).

  Definition prod (sh : list nat) : nat := fold_right Nat.mul 1 sh.

  Fixpoint vspace (t : tree) : vs :=
    match t with
    | RLeaf dt sh _ => VR dt sh
    | CLeaf dt sh _ => VC dt sh
    | Seq b l => VSeq b (map vspace l)
    | Dct l => VDct (map (fun kv => (fst kv, vspace (snd kv))) l)
    end.

  (* ArrayVSpace.size = prod(shape); complex: twice; containers: sum *)
  Fixpoint size (v : vs) : nat :=
    match v with
    | VR _ sh => prod sh
    | VC _ sh => 2 * prod sh
    | VSeq _ l => list_sum (map size l)
    | VDct l => list_sum (map (fun kv => size (snd kv)) l)
    end.

  Fixpoint zeros (v : vs) : tree :=
    match v with
    | VR dt sh => RLeaf dt sh (repeat k0 (prod sh))
    | VC dt sh => CLeaf dt sh (repeat (k0, k0) (prod sh))
    | VSeq b l => Seq b (map zeros l)
    | VDct l => Dct (map (fun kv => (fst kv, zeros (snd kv))) l)
    end.

  (* ComplexArrayVSpace.ones = 1 + 1j *)
  Fixpoint ones (v : vs) : tree :=
    match v with
    | VR dt sh => RLeaf dt sh (repeat k1 (prod sh))
    | VC dt sh => CLeaf dt sh (repeat (k1, k1) (prod sh))
    | VSeq b l => Seq b (map ones l)
    | VDct l => Dct (map (fun kv => (fst kv, ones (snd kv))) l)
    end.

  Fixpoint map2 {A B C} (f : A -> B -> C) (a : list A) (b : list B) : list C :=
    match a, b with
    | x :: a', y :: b' => f x y :: map2 f a' b'
    | _, _ => []
    end.

  Definition cadd (p q : K * K) : K * K := (kadd (fst p) (fst q), kadd (snd p) (snd q)).

  (* _add = x + y leafwise; _mut_add computes the same value (aliasing: Heap.v) *)
  Fixpoint tadd (x y : tree) : tree :=
    match x, y with
    | RLeaf dt sh a, RLeaf _ _ b => RLeaf dt sh (map2 kadd a b)
    | CLeaf dt sh a, CLeaf _ _ b => CLeaf dt sh (map2 cadd a b)
    | Seq b l1, Seq _ l2 =>
      Seq b ((fix go (l1 l2 : list tree) : list tree :=
                match l1, l2 with
                | x1 :: r1, y1 :: r2 => tadd x1 y1 :: go r1 r2
                | _, _ => []
                end) l1 l2)
    | Dct l1, Dct l2 =>
      Dct ((fix go (l1 l2 : list (nat * tree)) : list (nat * tree) :=
              match l1, l2 with
              | (k, x1) :: r1, (_, y1) :: r2 => (k, tadd x1 y1) :: go r1 r2
              | _, _ => []
              end) l1 l2)
    | _, _ => x
    end.

  (* _scalar_mul = x * a, a a real scalar *)
  Fixpoint smul (x : tree) (a : K) : tree :=
    match x with
    | RLeaf dt sh d => RLeaf dt sh (map (fun v => kmul v a) d)
    | CLeaf dt sh d => CLeaf dt sh (map (fun p => (kmul (fst p) a, kmul (snd p) a)) d)
    | Seq b l => Seq b (map (fun t => smul t a) l)
    | Dct l => Dct (map (fun kv => (fst kv, smul (snd kv) a)) l)
    end.

  (* _covector: identity on reals, conj on complex *)
  Fixpoint covector (x : tree) : tree :=
    match x with
    | RLeaf dt sh d => RLeaf dt sh d
    | CLeaf dt sh d => CLeaf dt sh (map (fun p => (fst p, kopp (snd p))) d)
    | Seq b l => Seq b (map covector l)
    | Dct l => Dct (map (fun kv => (fst kv, covector (snd kv))) l)
    end.

  Fixpoint ksum (l : list K) : K :=
    match l with [] => k0 | x :: l' => kadd x (ksum l') end.

  (* _inner_prod: dot(ravel x, ravel y); complex: real(dot(conj x, y)); containers: sum *)
  Fixpoint inner (x y : tree) : K :=
    match x, y with
    | RLeaf _ _ a, RLeaf _ _ b => ksum (map2 kmul a b)
    | CLeaf _ _ a, CLeaf _ _ b =>
      ksum (map2 (fun p q => kadd (kmul (fst p) (fst q)) (kmul (snd p) (snd q))) a b)
    | Seq _ l1, Seq _ l2 =>
      (fix go (l1 l2 : list tree) : K :=
         match l1, l2 with
         | x1 :: r1, y1 :: r2 => kadd (inner x1 y1) (go r1 r2)
         | _, _ => k0
         end) l1 l2
    | Dct l1, Dct l2 =>
      (fix go (l1 l2 : list (nat * tree)) : K :=
         match l1, l2 with
         | (_, x1) :: r1, (_, y1) :: r2 => kadd (inner x1 y1) (go r1 r2)
         | _, _ => k0
         end) l1 l2
    | _, _ => k0
    end.

  (* misc.flatten: leaves ravelled and concatenated (dict in key order);
     a complex entry contributes (re, im) - the real coordinates in which the
     inner product above is the Euclidean one *)
  Fixpoint flat (t : tree) : list K :=
    match t with
    | RLeaf _ _ d => d
    | CLeaf _ _ d => flat_map (fun p => [fst p; snd p]) d
    | Seq _ l => flat_map flat l
    | Dct l => flat_map (fun kv => flat (snd kv)) l
    end.

  Fixpoint pairs (l : list K) : list (K * K) :=
    match l with
    | a :: b :: r => (a, b) :: pairs r
    | _ => []
    end.

  (* the unflatten returned by misc.flatten: rebuild a value of space v from a
     coordinate vector *)
  Fixpoint unflat (v : vs) (l : list K) : tree :=
    match v with
    | VR dt sh => RLeaf dt sh (firstn (prod sh) l)
    | VC dt sh => CLeaf dt sh (pairs (firstn (2 * prod sh) l))
    | VSeq b vl =>
      Seq b ((fix go (vl : list vs) (l : list K) : list tree :=
                match vl with
                | [] => []
                | v1 :: r => unflat v1 l :: go r (skipn (size v1) l)
                end) vl l)
    | VDct vl =>
      Dct ((fix go (vl : list (nat * vs)) (l : list K) : list (nat * tree) :=
              match vl with
              | [] => []
              | (k, v1) :: r => (k, unflat v1 l) :: go r (skipn (size v1) l)
              end) vl l)
    end.

  Definition unit_vec (n i : nat) : list K :=
    map (fun j => if Nat.eqb j i then k1 else k0) (seq 0 n).

  (* standard_basis: one vector per real coordinate, in flatten order
     (arrays: ndindex order; complex: 1 then 1j; containers: leaf by leaf) *)
  Definition standard_basis (v : vs) : list tree :=
    map (fun i => unflat v (unit_vec (size v) i)) (seq 0 (size v)).

  (* well-formed: leaf data has prod(shape) entries *)
  Fixpoint wf (t : tree) : Prop :=
    match t with
    | RLeaf _ sh d => length d = prod sh
    | CLeaf _ sh d => length d = prod sh
    | Seq _ l => (fix go (l : list tree) : Prop :=
                    match l with [] => True | x :: r => wf x /\ go r end) l
    | Dct l => (fix go (l : list (nat * tree)) : Prop :=
                  match l with [] => True | (_, x) :: r => wf x /\ go r end) l
    end.
End VSpace.

Arguments RLeaf {K}.
Arguments CLeaf {K}.
Arguments Seq {K}.
Arguments Dct {K}.
