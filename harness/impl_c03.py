"""Implementation side of the C03 correspondence: runs the real autograd on
generated dataflow graphs / programs and reports the executed tape, the
gradient, the rule-invocation log and the forward-mode tangent."""
import json
import numpy as onp
import random
import sys

import autograd  # noqa: F401
from autograd.core import make_vjp, make_jvp, defvjp_argnums, defjvp_argnums
from autograd.extend import primitive
from autograd.tracer import isbox, getval
from autograd.util import toposort

LOG = []
BOMB = {"armed": False, "node": None}      # fault injection for C19: this node's rule raises while armed


@primitive
def op(nid, kind, consts, *args):
    if kind == "lin":
        return float(sum(c * a for c, a in zip(consts, args)))
    r = 1.0
    for a in args:
        r = r * a
    return float(r) * consts[0]


def partial(kind, consts, args, k):
    if kind == "lin":
        return consts[k]
    r = consts[0]
    for j, a in enumerate(args):
        if j != k:
            r = r * a
    return r


def op_vjpmaker(argnums, ans, args, kwargs):
    nid, kind, consts = args[0], args[1], args[2]
    vals = args[3:]
    coefs = [partial(kind, consts, vals, a - 3) for a in argnums]

    def vjp(g):
        if BOMB["armed"] and BOMB["node"] == nid:
            raise RuntimeError("planted fault in the derivative rule of node %d" % nid)
        LOG.append(nid)
        return tuple(g * c for c in coefs)

    return vjp


def op_jvpmaker(argnums, gs, ans, args, kwargs):
    kind, consts = args[1], args[2]
    vals = args[3:]
    return sum(partial(kind, consts, vals, a - 3) * g for a, g in zip(argnums, gs))


defvjp_argnums(op, op_vjpmaker)
defjvp_argnums(op, op_jvpmaker)


# the same operation registered through the per-argument API (defvjp / defjvp): one rule per position
@primitive
def op2(nid, kind, consts, *args):
    return op(nid, kind, consts, *args)


LOG2 = []                                   # (node, argument position) of every per-argument rule call


def _vjp_rule(k):
    def maker(ans, nid, kind, consts, *vals):
        c = partial(kind, consts, vals, k)

        def vjp(g):
            if BOMB["armed"] and BOMB["node"] == nid:
                raise RuntimeError("planted fault in the derivative rule of node %d" % nid)
            LOG2.append((nid, k))
            if not LOG or LOG[-1] != nid:
                LOG.append(nid)
            return g * c
        return vjp
    return maker


def _jvp_rule(k):
    return lambda g, ans, nid, kind, consts, *vals: partial(kind, consts, vals, k) * g


from autograd.extend import defvjp as _defvjp, defjvp as _defjvp  # noqa: E402
_defvjp(op2, None, None, None, *[_vjp_rule(k) for k in range(4)])
_defjvp(op2, None, None, None, *[_jvp_rule(k) for k in range(4)])
API = {"fn": op}


class SecondPullback(Exception):
    pass


class Recorder:
    """Numbers the nodes of the executed trace in creation order and records,
    per node, (parent index, local partial) for the traced arguments only."""

    def __init__(self):
        self.ids = {}
        self.keep = []
        self.tape = [[]]

    def root(self, box):
        self.ids[id(box._node)] = 0
        self.keep.append(box._node)

    def call(self, kind, consts, *args):
        nid = len(self.tape)
        entry = []
        vals = [getval(a) for a in args]
        for k, a in enumerate(args):
            if isbox(a):
                entry.append((self.ids[id(a._node)], int(partial(kind, consts, vals, k))))
        out = API["fn"](nid, kind, consts, *args)
        if isbox(out):
            self.ids[id(out._node)] = nid
            self.keep.append(out._node)
            self.tape.append(entry)
        return out


# ---------------------------------------------------------------- tapes ----
def gen_tape(rng, size):
    n = rng.randint(1, size)
    nodes = []
    for i in range(1, n + 1):
        style = rng.random()
        k = rng.choice([1, 1, 2, 2, 3, 3, 4])
        args = []
        for _ in range(k):
            r = rng.random()
            if r < 0.15:
                args.append(("c", rng.randint(-2, 2)))
            elif r < 0.55:
                args.append(("n", i - 1))
            elif style < 0.3:
                args.append(("n", 0))
            else:
                args.append(("n", rng.randint(0, i - 1)))
        if rng.random() < 0.2 and k >= 2:  # f(x, x) multi-edge
            args[1] = args[0]
        if all(a[0] == "c" for a in args):
            args[0] = ("n", rng.randint(0, i - 1))
        kind = "mul" if rng.random() < 0.2 else "lin"
        consts = [rng.choice([-2, -1, 1, 1, 2, 3]) for _ in range(k)]
        nodes.append((kind, consts, args))
    e = n if rng.random() < 0.6 else rng.randint(0, n)
    return nodes, e


def run_tape(nodes, e, x0, g, mode):
    rec = Recorder()
    created = {}

    def f(x):
        rec.root(x)
        vals = [x]
        for i, (kind, consts, args) in enumerate(nodes, 1):
            a = [vals[j] if t == "n" else float(j) for t, j in args]
            vals.append(rec.call(kind, tuple(consts), *a))
        created["out"] = vals[e]
        return vals[e]

    if mode == "vjp":
        del LOG[:]
        del LOG2[:]
        vjp, val = make_vjp(f, x0)
        out = created["out"]
        if not isbox(out):
            return None
        grad = vjp(float(g))
        log1, pairs1 = list(LOG), list(LOG2)
        # the pull-back is a function: a second call over the same trace gives the same answer, invoking the
        # same rules once each
        del LOG[:]
        del LOG2[:]
        grad2 = vjp(float(g))
        if grad2 != grad or list(LOG) != log1 or len(set(pairs1)) != len(pairs1) or sorted(LOG2) != sorted(pairs1):
            raise SecondPullback("second pull-back over the same trace: gradient %r then %r; rule log %r then %r"
                                 % (grad, grad2, log1[:12], list(LOG)[:12]))
        return rec, rec.ids[id(out._node)], grad, log1, val
    else:
        val, tan = make_jvp(f, x0)(float(g))
        return tan


# ------------------------------------------------------------- programs ----
def gen_block(rng, depth, nvars_hint):
    stmts = []
    for _ in range(rng.randint(1, 4)):
        r = rng.random()
        if r < 0.55 or depth == 0:
            k = rng.choice([1, 2, 2, 3])
            stmts.append(("op", "mul" if rng.random() < 0.15 else "lin",
                          [rng.choice([-1, 1, 1, 2]) for _ in range(k)],
                          [rng.randint(-4, -1) if rng.random() < 0.8 else None for _ in range(k)],
                          rng.randint(-2, 2)))
        elif r < 0.75:
            stmts.append(("if", rng.randint(-3, -1), rng.randint(-3, 3),
                          gen_block(rng, depth - 1, 0), gen_block(rng, depth - 1, 0)))
        elif r < 0.9:
            stmts.append(("loop", rng.randint(-3, -1), rng.randint(2, 4), gen_block(rng, depth - 1, 0)))
        else:
            stmts.append(("rec", rng.randint(-3, -1), rng.randint(2, 3), gen_block(rng, depth - 1, 0)))
    return stmts


def run_program(prog, x0, g, mode):
    rec = Recorder()
    created = {}
    budget = [60]

    def pick(vs, i):
        return vs[max(i, -len(vs))]

    def block(stmts, vs):
        for s in stmts:
            if budget[0] <= 0:
                return
            if s[0] == "op":
                _, kind, consts, idxs, cst = s
                a = [pick(vs, i) if i is not None else float(cst) for i in idxs]
                if not any(isbox(z) for z in a):
                    a[0] = vs[0]
                budget[0] -= 1
                vs.append(rec.call(kind, tuple(consts), *a))
            elif s[0] == "if":
                # branch steered by a traced value
                if pick(vs, s[1]) > s[2]:
                    block(s[3], vs)
                else:
                    block(s[4], vs)
            elif s[0] == "loop":
                cnt = int(abs(getval(pick(vs, s[1])))) % s[2]
                for _ in range(cnt):
                    block(s[3], vs)
            elif s[0] == "rec":
                def r(d):
                    if d <= 0:
                        return
                    block(s[3], vs)   # closure over vs
                    r(d - 1)
                r(int(abs(getval(pick(vs, s[1])))) % s[2])

    def f(x):
        rec.root(x)
        vs = [x]
        block(prog, vs)
        out = rec.call("lin", (1, 1), vs[-1], x) if len(vs) > 1 else vs[-1]
        created["out"] = out
        return out

    if mode == "vjp":
        del LOG[:]
        del LOG2[:]
        vjp, val = make_vjp(f, x0)
        out = created["out"]
        if not isbox(out):
            return None
        grad = vjp(float(g))
        log1, pairs1 = list(LOG), list(LOG2)
        # the pull-back is a function: a second call over the same trace gives the same answer, invoking the
        # same rules once each
        del LOG[:]
        del LOG2[:]
        grad2 = vjp(float(g))
        if grad2 != grad or list(LOG) != log1 or len(set(pairs1)) != len(pairs1) or sorted(LOG2) != sorted(pairs1):
            raise SecondPullback("second pull-back over the same trace: gradient %r then %r; rule log %r then %r"
                                 % (grad, grad2, log1[:12], list(LOG)[:12]))
        return rec, rec.ids[id(out._node)], grad, log1, val
    else:
        val, tan = make_jvp(f, x0)(float(g))
        return tan


def exact(v):
    return abs(v) < 2 ** 50 and float(v) == int(v)


def bound_ok(tape):
    # sum over paths of |products| must stay exactly representable
    tot = [0] * len(tape)
    for n in range(len(tape) - 1, -1, -1):
        pass
    up = [1] * len(tape)
    for n, entry in enumerate(tape):
        if entry:
            up[n] = sum(abs(c) * up[p] for p, c in entry)
    return max(up) < 2 ** 45


def main():
    cfg = json.load(sys.stdin)
    rng = random.Random(cfg["seed"])
    out = {"cases": [], "topo": [], "skipped": 0, "dist": {}, "errors": []}

    def dist(k):
        out["dist"][k] = out["dist"].get(k, 0) + 1

    for i in range(cfg["n_tapes"] + cfg["n_programs"]):
        is_prog = i >= cfg["n_tapes"]
        x0 = float(rng.choice([1, 2, 3, -1, -2]))
        g = rng.choice([-3, -2, -1, 1, 2, 3])
        API["fn"] = op if rng.random() < 0.5 else op2      # registration API of this case's primitives
        dist("api=defvjp_argnums" if API["fn"] is op else "api=defvjp-per-argument")
        try:
            if is_prog:
                prog = gen_block(rng, 2, 0)
                src = {"program": prog}
                r = run_program(prog, x0, g, "vjp")
            else:
                nodes, e = gen_tape(rng, cfg["size"])
                src = {"nodes": nodes, "end": e}
                r = run_tape(nodes, e, x0, g, "vjp")
        except OverflowError:
            out["skipped"] += 1
            continue
        except Exception as ex:  # the engine itself failed on a valid program
            out["errors"].append({"src": src if "src" in dir() else None, "x": x0, "g": g,
                                  "error": repr(ex), "kind": "program" if is_prog else "tape",
                                  "size": 0})
            continue
        if r is None:
            out["skipped"] += 1
            dist("independent-output")
            continue
        rec, e_idx, grad, log, val = r
        if not bound_ok(rec.tape) or not exact(grad) or not exact(val):
            out["skipped"] += 1
            dist("inexact-skipped")
            continue
        try:
            tan = run_program(prog, x0, g, "jvp") if is_prog else run_tape(nodes, e, x0, g, "jvp")
        except Exception as ex:
            out["errors"].append({"src": src, "x": x0, "g": g, "error": "forward mode: " + repr(ex),
                                  "kind": "program" if is_prog else "tape"})
            continue
        dist("program" if is_prog else "tape")
        dist("nodes<=5" if len(rec.tape) <= 5 else "nodes<=15" if len(rec.tape) <= 15 else "nodes>15")
        if any(len(set(p for p, _ in en)) < len(en) for en in rec.tape):
            dist("has-multi-edge")
        if len(log) < len(rec.tape):
            dist("has-dead-nodes")
        out["cases"].append({"tape": rec.tape, "end": e_idx, "g": g, "x": x0, "grad": int(grad),
                             "log": log, "jvp": int(tan) if exact(tan) else None, "src": src,
                             "kind": "program" if is_prog else "tape"})
    # a path through an argument position that has NO rule must raise; it is never dropped from the sum
    from autograd.extend import primitive as _p3, defvjp as _dv3
    from autograd.core import make_vjp as _mv3

    @_p3
    def part(a, b, c, d):
        return 2.0 * a + 3.0 * b + 5.0 * c + 7.0 * d
    _dv3(part, lambda ans, a, b, c, d: lambda g: 2.0 * g, None, lambda ans, a, b, c, d: lambda g: 5.0 * g)   # no rule for d
    for traced in ([0, 1, 2, 3], [0, 2, 3], [3], [2, 3], [0, 3], [0, 1, 2], [0, 2], [1]):
        def f(x, traced=traced):
            a = [x * (i + 1.0) if i in traced else float(i + 1) for i in range(4)]
            return part(*a) + x
        dist("partial-rules traced=%s" % traced)
        want = 1.0 + sum({0: 2.0, 1: 0.0, 2: 5.0}[i] * (i + 1.0) for i in traced if i != 3)
        try:
            vjp, _ = _mv3(f, 1.5)
            got = vjp(1.0)
            ok = (3 not in traced) and float(got) == want
            if not ok:
                out["errors"].append({"kind": "partial-rules", "traced": traced, "got": float(got),
                                      "error": "a traced argument in a position without a rule did not raise: gradient %r returned%s"
                                               % (float(got), "" if 3 in traced else " (expected %r)" % want)})
        except Exception as ex:
            if 3 not in traced:
                out["errors"].append({"kind": "partial-rules", "traced": traced, "error": "raised although every traced position has a rule: %r" % (ex,)})
    # primitives registered through the older method API (autograd.core.primitive: .defvjp / .defgrad / .defvjp_is_zero with
    # argnum=), for position sets that do not start at 0: inside a graph every rule reaches its own parent, a traced
    # position without a rule raises
    import warnings as _w3
    from autograd.core import primitive as _legacy
    with _w3.catch_warnings():
        _w3.simplefilter("ignore")

        @_legacy
        def leg1(c, x):
            return c * x
        leg1.defgrad(lambda ans, c, x: lambda g: g * c * 1.0, argnum=1)

        @_legacy
        def leg2(a, b, c):
            return 2.0 * a + 3.0 * b + 5.0 * c
        leg2.defvjp(lambda g, ans, vs, gvs, a, b, c: 5.0 * g, argnum=2)
        leg2.defvjp(lambda g, ans, vs, gvs, a, b, c: 3.0 * g, argnum=1)

        @_legacy
        def leg3(a, b):
            return 2.0 * a + 7.0 * b
        leg3.defvjp_is_zero(argnums=(0,))       # (registering further rules after this one replaces it: loud, not used here)
    legacy_progs = [
        ("defgrad(argnum=1) inside sin(.) + x**2", lambda x: leg1(3.0, x) * 2.0 + x * x, 0.5, 3.0 * 2.0 + 1.0, False),
        ("defgrad(argnum=1), traced position 0 has no rule", lambda x: leg1(x, 2.0), 0.5, None, True),
        ("defvjp(argnum=2) and defvjp(argnum=1), both traced", lambda x: leg2(1.0, x, x * 2.0) + x, 1.5, 3.0 + 10.0 + 1.0, False),
        ("defvjp(argnum=2) only traced", lambda x: leg2(1.0, 4.0, x), 1.5, 5.0, False),
        ("defvjp(argnum=1, 2) registered, position 0 traced", lambda x: leg2(x, 1.0, 2.0), 1.5, None, True),
        ("defvjp_is_zero(0) only, position 0 traced", lambda x: leg3(x, 3.0) + x, 1.5, 1.0, False),
    ]
    for nm, f, x0_, want, must_raise in legacy_progs:
        dist("legacy-registration-api")
        try:
            with _w3.catch_warnings():
                _w3.simplefilter("ignore")
                got = float(_mv3(f, x0_)[0](1.0))
            if must_raise or got != want:
                out["errors"].append({"kind": "legacy-registration", "program": nm,
                                      "error": "gradient %r returned%s" % (got, " for a traced position without a rule" if must_raise else " (expected %r)" % want)})
        except NotImplementedError as ex:
            if not must_raise:
                out["errors"].append({"kind": "legacy-registration", "program": nm, "error": "raised although the traced positions have rules: %r" % (ex,)})
        except Exception as ex:
            out["errors"].append({"kind": "legacy-registration", "program": nm, "error": "raised %r" % (ex,)})
    # graphs with CONTAINER nodes: a tuple / list / dict used whole (dense container cotangent) and through entries (sparse
    # ones), the pull-back called several times with the same cotangent object (what jacobian-style drivers do): every
    # call returns the path sum, and the caller's cotangent is untouched
    from autograd.builtins import tuple as _atup, list as _alist, dict as _adict
    a3, b3 = onp.array([1.0, 2.0]), onp.array([3.0, 4.0])
    cgraphs = [
        ("t + (2*t[0],)", lambda t: t + (2.0 * t[0],), (a3, b3),
         lambda g: (g[0] + 2.0 * g[2], g[1] * 1.0), lambda: (onp.array([1.0, 1.0]), onp.array([10.0, 10.0]), onp.array([100.0, 100.0]))),
        ("(3*t[1],) + t, then the first entry again", lambda t: _atup(((3.0 * t[1],) + t)) + (t[0] * t[0],), (a3, b3),
         lambda g: (g[1] + 2.0 * a3 * g[3], g[2] + 3.0 * g[0]), lambda: tuple(onp.array([float(10 ** k_), float(10 ** k_)]) for k_ in range(4))),
        ("list: l + [l[1] * l[0]]", lambda l: l + [l[1] * l[0]], [a3, b3],
         lambda g: [g[0] + b3 * g[2], g[1] + a3 * g[2]], lambda: [onp.array([1.0, 2.0]), onp.array([10.0, 20.0]), onp.array([100.0, 200.0])]),
        ("dict rebuilt from entries and used whole", lambda d: _adict({"p": d["a"] * 2.0, "q": d, "r": d["a"] + d["b"]}), {"a": a3, "b": b3},
         lambda g: {"a": 2.0 * g["p"] + g["q"]["a"] + g["r"], "b": g["q"]["b"] + g["r"]},
         lambda: {"p": onp.array([1.0, 1.0]), "q": {"a": onp.array([10.0, 10.0]), "b": onp.array([100.0, 100.0])}, "r": onp.array([1000.0, 1000.0])}),
    ]

    def _same_c(u, v):
        if isinstance(u, dict):
            return isinstance(v, dict) and set(u) == set(v) and all(_same_c(u[k_], v[k_]) for k_ in u)
        if isinstance(u, (tuple, list)):
            return type(u) is type(v) and len(u) == len(v) and all(_same_c(p_, q_) for p_, q_ in zip(u, v))
        return onp.shape(u) == onp.shape(v) and bool(onp.all(onp.asarray(u) == onp.asarray(v)))

    def _copy_c(u):
        if isinstance(u, dict):
            return {k_: _copy_c(v_) for k_, v_ in u.items()}
        if isinstance(u, (tuple, list)):
            return type(u)(_copy_c(v_) for v_ in u)
        return onp.array(u)
    for nm, fc, xc, wantf, mkg in cgraphs:
        dist("container-graph")
        try:
            vjp_c, _ = _mv3(fc, xc)
            gc = mkg()
            g_before = _copy_c(gc)
            want = wantf(g_before)
            for rep in range(3):
                got = vjp_c(gc)
                if not _same_c(got, want):
                    out["errors"].append({"kind": "container-graph", "program": nm, "error": "call %d of the same pull-back with the same cotangent returned %r, expected %r" % (rep + 1, got, want)})
                    break
            if not _same_c(gc, g_before):
                out["errors"].append({"kind": "container-graph", "program": nm, "error": "the caller's cotangent was modified: %r" % (gc,)})
        except Exception as ex:
            out["errors"].append({"kind": "container-graph", "program": nm, "error": "raised %r" % (ex,)})
    # direct calls of autograd.util.toposort on explicit parent lists
    for i in range(cfg["n_topo"]):
        n = rng.randint(1, cfg["size"])
        P = [[]]
        for j in range(1, n + 1):
            k = rng.choice([1, 1, 2, 2, 3, 4])
            ps = [rng.randint(max(0, j - 4), j - 1) if rng.random() < 0.6 else rng.randint(0, j - 1)
                  for _ in range(k)]
            if rng.random() < 0.2:
                ps.append(ps[0])
            P.append(ps)
        e = n if rng.random() < 0.7 else rng.randint(0, n)
        try:
            order = list(toposort(e, parents=lambda m: P[m]))
        except Exception as ex:
            out["errors"].append({"parents": P, "end": e, "error": "toposort: " + repr(ex)})
            continue
        out["topo"].append({"parents": P, "end": e, "order": order})
    # a traced value handed to an operation BY KEYWORD is a dependency like any other: the derivative through it is right,
    # or the call raises - the path never silently disappears
    import autograd.numpy as _anp
    from autograd import grad as _g2, make_jvp as _mj2
    from autograd.extend import primitive as _prim2, defvjp as _dv2, defjvp as _dj2

    @_prim2
    def _scale(v, factor=1.0):
        return v * factor
    _dv2(_scale, lambda ans, v, factor=1.0: lambda g: g * factor)
    _dj2(_scale, lambda g, ans, v, factor=1.0: g * factor)
    c3 = onp.array([1.0, 2.0, 3.0])
    kwprogs = [("user primitive, factor=x", lambda x: _anp.sum(_scale(c3, factor=x)), 6.0),
               ("user primitive, traced argument and factor=x", lambda x: _anp.sum(_scale(c3 * x, factor=x)), 30.0),
               ("full(fill_value=x)", lambda x: _anp.sum(_anp.full((2, 3), fill_value=x)), 6.0),
               ("tensordot(a, b=...)", lambda x: _anp.sum(_anp.tensordot(c3, b=c3 * x, axes=1)), 14.0),
               ("dot(a, b=...)", lambda x: _anp.dot(c3, b=c3 * x), 14.0),
               ("where(c, a, y=...)", lambda x: _anp.sum(_anp.where(c3 > 1.5, c3, y=x * c3)), 1.0),
               ("clip(a, a_min=, a_max=x)", lambda x: _anp.sum(_anp.clip(c3, a_min=0.0, a_max=x)), 1.0),
               ("linspace(0, stop=x)", lambda x: _anp.sum(_anp.linspace(0.0, stop=x, num=3)), 1.5),
               ("pad(constant_values=x)", lambda x: _anp.sum(_anp.pad(c3, 1, mode="constant", constant_values=x)), 2.0),
               ("maximum(x1, x2=...)", lambda x: _anp.sum(_anp.maximum(c3, x2=x * c3)), 6.0),
               ("power(x1, x2=x)", lambda x: _anp.sum(_anp.power(c3, x2=x)), float(onp.sum(c3 ** 2.5 * onp.log(c3)))),
               ("array(object=[x, 2x])", lambda x: _anp.sum(_anp.array(object=[x, 2.0 * x])), 3.0),
               ("concatenate(arrays=..)", lambda x: _anp.sum(_anp.concatenate([c3 * x, c3], axis=0)), 6.0)]
    for name, fk, want in kwprogs:
        for mode in ("rev", "fwd"):
            out["dist"]["keyword-dependency"] = out["dist"].get("keyword-dependency", 0) + 1
            try:
                got = float(_g2(fk)(2.5)) if mode == "rev" else float(_mj2(fk)(2.5)(1.0)[1])
            except Exception:
                continue                                  # refused loudly
            if abs(got - want) > 1e-9 * (1 + abs(want)):
                out["errors"].append({"kind": "keyword-dependency", "program": name, "mode": mode,
                                      "error": "d/dx = %r, true %r: the dependency through the keyword argument was dropped or mangled" % (got, want)})
    # a sub-function wrapped by checkpoint (several arguments, keyword constants other than the defaults) composes like the
    # plain sub-function
    from autograd import checkpoint as _ckpt
    def sub(u, w, scale=1.0, shift=0.0):
        return _anp.sum(u * w) * scale + shift * _anp.sum(u)
    csub = _ckpt(sub)
    for kw in ({}, {"scale": 3.0}, {"scale": 2.0, "shift": 5.0}, {"shift": -1.0}):
        for nm, prog in (("u and w traced", lambda x, s_: s_(x * 2.0, x * x, **kw) * x[0]), ("only w traced", lambda x, s_: s_(c3, x * x, **kw)),
                         ("twice", lambda x, s_: s_(x, x, **kw) + s_(x * x, c3, **kw))):
            out["dist"]["checkpointed-subfunction"] = out["dist"].get("checkpointed-subfunction", 0) + 1
            try:
                want = onp.asarray(_g2(lambda x: prog(x, sub))(c3))
                got = onp.asarray(_g2(lambda x: prog(x, csub))(c3))
                if not onp.all(got == want):
                    out["errors"].append({"kind": "checkpointed-subfunction", "program": nm, "kwargs": kw,
                                          "error": "gradient %s with the sub-function checkpointed, %s without" % (got.tolist(), want.tolist())})
            except Exception as ex:
                out["errors"].append({"kind": "checkpointed-subfunction", "program": nm, "kwargs": kw, "error": "raised %r" % (ex,)})
    # a user rule that answers None instead of a cotangent: refused (or treated as no contribution) - never a gradient made of
    # some other node's cotangent
    @_prim2
    def _mute(v):
        return v * 2.0
    _dv2(_mute, lambda ans, v: lambda g: None)
    for nm, fn_, want in (("every path through the mute rule", lambda x: _anp.sum(_mute(x * 3.0) * c3), onp.zeros(3)),
                          ("one path through the mute rule", lambda x: _anp.sum(_mute(x * 3.0) * c3) + _anp.sum(x * c3), c3),
                          ("mute rule behind a fan-out", lambda x: _anp.sum(_mute(x) + _mute(x * x)) + 2.0 * _anp.sum(x), 2.0 * onp.ones(3))):
        out["dist"]["none-answering-rule"] = out["dist"].get("none-answering-rule", 0) + 1
        try:
            got = onp.asarray(_g2(fn_)(c3))
        except Exception:
            continue
        if got.shape != (3,) or not onp.all(got == want):
            out["errors"].append({"kind": "none-answering-rule", "program": nm, "error": "gradient %s; a rule answering None contributes nothing: %s" % (got.tolist(), want.tolist())})
    # graphs far deeper than Python's recursion limit (a loop of several thousand steps, a deep chain with skip
    # edges): the passes are iterative, so depth is only a matter of memory
    import sys as _sys
    for depth in (_sys.getrecursionlimit() * 3, _sys.getrecursionlimit() * 5 + 7):
        out["dist"]["deep-graph"] = out["dist"].get("deep-graph", 0) + 1
        P = [[]] + [[j - 1] + ([j - 2] if j >= 2 and j % 3 == 0 else []) for j in range(1, depth + 1)]
        try:
            order = list(toposort(depth, parents=lambda m: P[m]))
            if order != list(range(depth, -1, -1)):
                out["errors"].append({"kind": "deep-chain", "depth": depth, "error": "toposort of a chain with skip edges is not the reversed chain"})
        except Exception as ex:
            out["errors"].append({"kind": "deep-chain", "depth": depth, "error": "toposort: " + repr(ex)[:200]})
        try:
            from autograd import grad as _grad, make_jvp as _mj

            def loop(x, depth=depth):
                y = x
                for k in range(depth):
                    y = y + x if k % 2 else y * 1.0
                return y
            got = float(_grad(loop)(2.0))
            want = float(1 + depth // 2)
            fw = float(_mj(loop)(2.0)(1.0)[1])
            if got != want or fw != want:
                out["errors"].append({"kind": "deep-loop", "depth": depth, "error": "gradient of a %d-step loop: reverse %r, forward %r, expected %r" % (depth, got, fw, want)})
        except Exception as ex:
            out["errors"].append({"kind": "deep-loop", "depth": depth, "error": "a %d-step loop: %s" % (depth, repr(ex)[:200])})
    print(json.dumps(out))


if __name__ == "__main__":
    main()
