"""Implementation side of the C13 correspondence: real VSpace objects on random
nested values holding small integers (so every float dtype is exact)."""
import json
import random
import sys
import warnings
import copy

import numpy as onp
import autograd.numpy as anp  # noqa: F401  (registers the array vspaces)
from autograd.core import vspace
from autograd.misc.flatten import flatten

warnings.simplefilter("ignore")

RD = [onp.float16, onp.float32, onp.float64, onp.longdouble]
CD = [onp.complex64, onp.complex128, onp.clongdouble]
DT = {onp.dtype(d): i for i, d in enumerate(RD)}
DT.update({onp.dtype(onp.complex64): 4, onp.dtype(onp.complex128): 5, onp.dtype(onp.clongdouble): 6})


def gen_struct(rng, depth, allow_complex=True):
    r = rng.random()
    if depth == 0 or r < 0.5:
        k = rng.random()
        cplx = allow_complex and rng.random() < 0.3
        if k < 0.2:
            return ("pyscalar", cplx)
        if k < 0.35:
            return ("npscalar", cplx, rng.randrange(3 if cplx else 4))
        shape = tuple(rng.choice([0, 1, 1, 2, 2, 3]) for _ in range(rng.randint(0, 3)))
        return ("array", cplx, rng.randrange(3 if cplx else 4), shape)
    n = rng.randint(0, 3)
    if r < 0.7:
        return ("list", [gen_struct(rng, depth - 1, allow_complex) for _ in range(n)])
    if r < 0.85:
        return ("tuple", [gen_struct(rng, depth - 1, allow_complex) for _ in range(n)])
    keys = sorted(rng.sample(range(10), n))
    return ("dict", [(k, gen_struct(rng, depth - 1, allow_complex)) for k in keys])


def inst(rng, st):
    t = st[0]
    if t == "pyscalar":
        return complex(rng.randint(-3, 3), rng.randint(-3, 3)) if st[1] else float(rng.randint(-3, 3))
    if t == "npscalar":
        if st[1]:
            return CD[st[2]](complex(rng.randint(-3, 3), rng.randint(-3, 3)))
        return RD[st[2]](rng.randint(-3, 3))
    if t == "array":
        n = int(onp.prod(st[3])) if st[3] else 1
        if st[1]:
            a = onp.array([complex(rng.randint(-3, 3), rng.randint(-3, 3)) for _ in range(n)], dtype=CD[st[2]])
        else:
            a = onp.array([rng.randint(-3, 3) for _ in range(n)], dtype=RD[st[2]])
        return a.reshape(st[3])
    if t == "list":
        return [inst(rng, s) for s in st[1]]
    if t == "tuple":
        return tuple(inst(rng, s) for s in st[1])
    return {k: inst(rng, s) for k, s in st[1]}


def enc(v):
    if isinstance(v, list):
        return {"l": [enc(x) for x in v]}
    if isinstance(v, tuple):
        return {"t": [enc(x) for x in v]}
    if isinstance(v, dict):
        return {"d": [[int(k), enc(v[k])] for k in sorted(v)]}
    a = onp.asarray(v)
    dt = DT[a.dtype]
    if onp.iscomplexobj(a):
        return {"c": [dt, list(a.shape), [[int(z.real), int(z.imag)] for z in a.ravel().tolist()]]}
    return {"r": [dt, list(a.shape), [int(z) for z in a.ravel().tolist()]]}


def deq(a, b):
    if isinstance(a, (list, tuple)):
        return type(a) is type(b) and len(a) == len(b) and all(deq(x, y) for x, y in zip(a, b))
    if isinstance(a, dict):
        return isinstance(b, dict) and set(a) == set(b) and all(deq(a[k], b[k]) for k in a)
    x, y = onp.asarray(a), onp.asarray(b)
    return x.shape == y.shape and x.dtype == y.dtype and bool(onp.all(x == y))


def veq(a, b):
    """same structure and values, ignoring dtype"""
    if isinstance(a, (list, tuple)):
        return type(a) is type(b) and len(a) == len(b) and all(veq(x, y) for x, y in zip(a, b))
    if isinstance(a, dict):
        return isinstance(b, dict) and set(a) == set(b) and all(veq(a[k], b[k]) for k in a)
    x, y = onp.asarray(a), onp.asarray(b)
    return x.shape == y.shape and bool(onp.all(x == y))


def leaves(v):
    if isinstance(v, (list, tuple)):
        return [l for x in v for l in leaves(x)]
    if isinstance(v, dict):
        return [l for k in v for l in leaves(v[k])]
    return [v]


def has_complex(st):
    if st[0] in ("pyscalar", "npscalar", "array"):
        return st[1]
    if st[0] == "dict":
        return any(has_complex(s) for _, s in st[1])
    return any(has_complex(s) for s in st[1])


def relayout(rng, v):
    """an equal vector presented differently: dicts built in the opposite key order, array leaves in another
    memory layout (Fortran order, transposed view, strided view)"""
    if isinstance(v, dict):
        return {k: relayout(rng, v[k]) for k in reversed(list(v))}
    if isinstance(v, list):
        return [relayout(rng, t) for t in v]
    if isinstance(v, tuple):
        return tuple(relayout(rng, t) for t in v)
    if isinstance(v, onp.ndarray) and v.ndim >= 1 and v.size:
        r = rng.random()
        if v.ndim >= 2 and r < 0.4:
            return onp.asfortranarray(v)
        if v.ndim >= 2 and r < 0.7:
            return onp.ascontiguousarray(onp.swapaxes(v, 0, -1)).swapaxes(0, -1)
        big = onp.zeros(tuple(2 * d for d in v.shape), dtype=v.dtype)
        sl = tuple(slice(None, None, 2) for _ in v.shape)
        big[sl] = v
        return big[sl]
    return v


def main():
    cfg = json.load(sys.stdin)
    rng = random.Random(cfg["seed"])
    out = {"cases": [], "dist": {}}

    def dist(k):
        out["dist"][k] = out["dist"].get(k, 0) + 1

    for i in range(cfg["n"]):
        st = gen_struct(rng, rng.randint(0, 3))
        x, y, z = inst(rng, st), inst(rng, st), inst(rng, st)
        a, b = rng.randint(-2, 3), rng.randint(-2, 3)
        vs = vspace(x)
        x0, y0 = copy.deepcopy(x), copy.deepcopy(y)
        probs = []
        try:
            add = vs.add(x, y)
            smul = vs.scalar_mul(x, float(a))
            cov = vs.covector(x)
            ip = vs.inner_prod(x, y)
            zeros, ones, size = vs.zeros(), vs.ones(), int(vs.size)
            basis = list(vs.standard_basis())
            fresh = vs.mut_add(None, x)
            mut = vs.mut_add(copy.deepcopy(x), y)

            def A(name, cond):
                if not cond:
                    probs.append(name)
            A("add zeros left identity", deq(vs.add(zeros, x), x))
            A("add zeros right identity", deq(vs.add(x, zeros), x))
            A("add commutative", deq(add, vs.add(y, x)))
            A("add associative", deq(vs.add(x, vs.add(y, z)), vs.add(add, z)))
            A("mut_add agrees with add", deq(mut, add))
            A("mut_add(None, x) equals x", deq(fresh, x))
            A("mut_add(None, x) is fresh", not any(
                isinstance(p, onp.ndarray) and isinstance(q, onp.ndarray) and p.size and onp.shares_memory(p, q)
                for p, q in zip(leaves(fresh), leaves(x))))
            A("scalar_mul distributes over add", deq(vs.scalar_mul(add, float(a)),
                                                     vs.add(smul, vs.scalar_mul(y, float(a)))))
            A("scalar_mul distributes over scalars", deq(vs.scalar_mul(x, float(a + b)),
                                                         vs.add(smul, vs.scalar_mul(x, float(b)))))
            A("inner symmetric", ip == vs.inner_prod(y, x))
            A("inner additive", vs.inner_prod(add, z) == vs.inner_prod(x, z) + vs.inner_prod(y, z))
            A("inner homogeneous", vs.inner_prod(smul, y) == a * ip)
            xx = vs.inner_prod(x, x)
            A("inner positive definite", xx >= 0 and ((xx == 0) == deq(x, zeros)))
            A("inner real", not onp.iscomplexobj(ip))
            A("covector involution", deq(vs.covector(cov), x))
            A("basis size", len(basis) == size)
            A("basis orthonormal", all(vs.inner_prod(p, q) == (1 if i1 == i2 else 0)
                                       for i1, p in enumerate(basis) for i2, q in enumerate(basis)))
            recon = zeros
            for bvec in basis:
                recon = vs.add(recon, vs.scalar_mul(bvec, float(vs.inner_prod(x, bvec))))
            A("basis complete", deq(recon, x))
            # the operations are functions of the vector, not of how it is laid out in memory or keyed
            yl, xl = relayout(rng, y), relayout(rng, x)
            A("relayout: equal value and same space", deq(yl, y) and vspace(yl) == vs)
            A("relayout: add", deq(vs.add(x, yl), add) and deq(vs.add(xl, y), add) and deq(vs.add(zeros, yl), y))
            A("relayout: inner_prod", vs.inner_prod(x, yl) == ip and vs.inner_prod(xl, y) == ip
              and vs.inner_prod(xl, xl) == xx and vs.inner_prod(x, xl) == xx)
            A("relayout: mut_add", deq(vs.mut_add(None, yl), y) and deq(vs.mut_add(copy.deepcopy(x), yl), add))
            A("relayout: scalar_mul / covector", deq(vs.scalar_mul(xl, float(a)), smul) and deq(vs.covector(xl), cov))
            A("relayout: basis orthonormal against re-laid-out copies",
              all(vs.inner_prod(p, relayout(rng, q)) == (1 if i1 == i2 else 0)
                  for i1, p in enumerate(basis) for i2, q in enumerate(basis)))
            A("vspace equal for same structure", vspace(y) == vs and vspace(add) == vs)
            A("inputs unmodified", deq(x, x0) and deq(y, y0))
            other = inst(rng, gen_struct(rng, rng.randint(0, 2)))
            A("vspace equality iff same structure",
              (vspace(other) == vs) == (json.dumps(enc(vs.zeros())) == json.dumps(enc(vspace(other).zeros()))))
            flat = None
            if not has_complex(st):
                fv, unflatten = flatten(x)
                flat = [int(t) for t in fv.tolist()]
                A("unflatten(flatten(x)) == x (values and structure)", veq(unflatten(fv), x))
                A("flatten(unflatten(v)) == v", bool(onp.all(flatten(unflatten(fv))[0] == fv)))
                A("flatten isometry", float(onp.dot(fv, flatten(y)[0])) == float(ip))
        except Exception as ex:
            probs.append("raised: %r" % (ex,))
            out["cases"].append({"x": enc(x0), "y": enc(y0), "a": a, "problems": probs, "error": True})
            continue
        dist("depth=%d" % (0 if st[0] in ("pyscalar", "npscalar", "array") else 1))
        dist("complex" if has_complex(st) else "real")
        dist("size=0" if size == 0 else "size<=4" if size <= 4 else "size>4")
        out["cases"].append({"x": enc(x0), "y": enc(y0), "a": a, "add": enc(add), "smul": enc(smul),
                             "cov": enc(cov), "inner": int(ip), "zeros": enc(zeros), "ones": enc(ones),
                             "size": size, "basis": [enc(bv) for bv in basis], "flat": flat,
                             "problems": probs})
    # ---- extended precision at magnitudes only it can hold: entries m * 2^e in longdouble leaves.  The operations are
    #      exact there (products m1*m2 * 2^(2e) are representable), so the axioms hold exactly; the case is handed to the
    #      model in units of 2^e (the model is exact arithmetic, the axioms are homogeneous). ----
    if onp.finfo(onp.longdouble).maxexp > 2048:
        for i in range(max(4, cfg["n"] // 10)):
            e = rng.choice([600, -600, 520, -530])
            u = onp.longdouble(2) ** e
            shape = tuple(rng.choice([1, 2, 3]) for _ in range(rng.randint(0, 2)))
            n = int(onp.prod(shape)) if shape else 1
            mk = lambda: (onp.array([rng.randint(-3, 3) for _ in range(n)], dtype=onp.longdouble).reshape(shape) * u)  # noqa: E731
            wrapk = rng.choice(["array", "list", "dict"])
            wrap = (lambda a_: a_) if wrapk == "array" else (lambda a_: [a_, a_[()] * 1]) if wrapk == "list" else (lambda a_: {3: a_})
            x, y, z = wrap(mk()), wrap(mk()), wrap(mk())
            a = rng.randint(-2, 3)
            vs = vspace(x)
            probs = []
            unit = lambda v: vs.scalar_mul(v, 1 / u)  # noqa: E731
            try:
                add, smul, cov, ip = vs.add(x, y), vs.scalar_mul(x, float(a)), vs.covector(x), vs.inner_prod(x, y)
                zeros, ones, size, basis = vs.zeros(), vs.ones(), int(vs.size), list(vs.standard_basis())
                xx = vs.inner_prod(x, x)

                def A(name, cond):
                    if not cond:
                        probs.append(name + " (longdouble entries m*2^%d)" % e)
                A("inner symmetric", ip == vs.inner_prod(y, x))
                A("inner additive", vs.inner_prod(add, z) == vs.inner_prod(x, z) + vs.inner_prod(y, z))
                A("inner homogeneous", vs.inner_prod(smul, y) == a * ip)
                A("inner finite", bool(onp.isfinite(xx)) and bool(onp.isfinite(ip)))
                A("inner positive definite", xx >= 0 and ((xx == 0) == deq(x, zeros)))
                A("inner product exact", ip / u / u == vs.inner_prod(unit(x), unit(y)) and xx / u / u == vs.inner_prod(unit(x), unit(x)))
                A("inner against basis reads the coordinate", all(
                    vs.inner_prod(x, bv) / u == vs.inner_prod(unit(x), bv) for bv in basis))
                dist("longdouble-extreme e=%d" % e)
                out["cases"].append({"x": enc(unit(x)), "y": enc(unit(y)), "a": a, "add": enc(unit(add)), "smul": enc(unit(smul)),
                                     "cov": enc(unit(cov)), "inner": int(ip / u / u), "zeros": enc(zeros), "ones": enc(ones),
                                     "size": size, "basis": [enc(bv) for bv in basis], "flat": None, "problems": probs})
            except Exception as ex:
                probs.append("raised: %r" % (ex,))
                out["cases"].append({"x": enc(unit(x)), "y": enc(unit(y)), "a": a, "problems": probs, "error": True})
    print(json.dumps(out))


if __name__ == "__main__":
    main()
