"""Regenerate seeded/README.md from the meta.json files."""
import glob
import json
import os

out = ["# Seeded changes\n",
       "Each directory holds `patch.diff` (apply with `git -C /repo apply`, undo with `git -C /repo checkout -- .`),",
       "`demo.py` (exits 1 with the change, 0 without) and `meta.json`.  Every change was written by a sub-agent that",
       "was given only the text of one property and a scratch worktree of /repo, and was confirmed here: it applies,",
       "the 496-test suite still passes with it, the demo fails with it and passes without it.  None is committed to /repo.",
       "`harness/run_all_seeds.sh` re-applies each one and expects `VIOLATION property=<id>` from that property's check.",
       "Fourteen batches were produced (two changes per property and batch, numbered consecutively); a `note` records when a",
       "patch had to be rebased because a genuine defect in the same lines was repaired in /repo in the meantime.\n",
       "| change | files | what it needs to manifest | reported by | note |", "|---|---|---|---|---|"]


def cell(x):
    return str(x).replace("|", "\\|").replace("\n", " ")


missed = []
for d in sorted(glob.glob("/verif/seeded/*/")):
    n = os.path.basename(d.rstrip("/"))
    m = json.load(open(d + "meta.json"))
    files = m.get("files_changed")
    files = ", ".join(os.path.basename(f) for f in files) if isinstance(files, list) else str(files)
    if "initially missed" in str(m.get("caught_by", "")) + str(m.get("note", "")) or "missed by the first version" in str(m.get("note", "")) \
            or "missed by the check as it stood" in str(m.get("note", "")):
        missed.append(n)
    out.append("| %s | %s | %s | %s | %s |" % (n, cell(files), cell(m.get("what_it_needs_to_manifest", ""))[:420],
                                               cell(m.get("caught_by", "")),
                                               cell(m.get("note", "")) + (" RETIRED: " + cell(m["retired"]) if m.get("retired") else "")))
out.append("\nMissed at first and caught after the check was strengthened (%d of %d): %s." % (
    len(missed), len(glob.glob("/verif/seeded/*/")), ", ".join(missed)))
out.append("\nOne produced change is not kept (C04, batch 3: `unbroadcast` reducing all surplus axes in one `sum` call, wrong only "
           "for `broadcast_idx = -1`): the only caller passing `-1` was itself a genuine defect found while examining the change "
           "(trailing-Ellipsis operand-form einsum); its repair removed that call, after which the change no longer breaks anything.")
open("/verif/seeded/README.md", "w").write("\n".join(out) + "\n")
print(len(missed), "initially missed")
