"""Multilinear primitives (coq/theories/Array/Multilinear.v): functions of three or four arrays that are linear in each
- einsum with several operands (repeated, summed-out, broadcast and Ellipsis subscripts, both calling forms), chained
matrix products, element-wise triple products, multi_dot-style chains.  The structure constants are read off NumPy on
tuples of basis vectors; the model's value and rules are compared with autograd on small-integer data."""
import itertools
import json
import random
import sys
import warnings

import numpy as onp
import autograd.numpy as anp
from autograd import make_vjp, make_jvp

warnings.simplefilter("ignore")
LOUD = (NotImplementedError, TypeError, ValueError, AssertionError, IndexError, KeyError, NameError, AttributeError)


def table():
    T = []

    def add(prim, tag, f, shapes):
        T.append((prim, tag, f, shapes))
    for sub, shapes in (("ij,jk,kl->il", [(2, 3), (3, 2), (2, 2)]), ("i,i,i->", [(3,), (3,), (3,)]), ("i,i,i->i", [(3,), (3,), (3,)]),
                        ("ij,j,i->", [(2, 3), (3,), (2,)]), ("ii,i,j->j", [(2, 2), (2,), (3,)]), ("ij,jk,ki->", [(2, 2), (2, 3), (3, 2)]),
                        ("...i,i,i->...", [(2, 3), (3,), (3,)]), ("i...,i...,i->...", [(2, 2), (2, 1), (2,)]), ("ij,ij,ij->ij", [(2, 3), (1, 3), (2, 1)]),
                        ("ij,jk,kl", [(2, 2), (2, 2), (2, 2)]), ("a,b,c->abc", [(2,), (2,), (2,)]), ("ij,kj,lj->ikl", [(2, 2), (1, 2), (2, 2)]),
                        ("i,j,k,l->", [(2,), (2,), (2,), (2,)]), ("ij,jk,kl,lm->im", [(1, 2), (2, 2), (2, 1), (1, 2)]), ("ab,b,b,a->", [(2, 2), (2,), (2,), (2,)])):
        add("einsum", "'%s' shapes %s" % (sub, shapes), (lambda m, *a, sub=sub: m.einsum(sub, *a)), shapes)
    add("einsum", "interleaved form, three operands", (lambda m, a, b, c: m.einsum(a, [0, 1], b, [1, 2], c, [2, 0], [])), [(2, 3), (3, 2), (2, 2)])
    add("einsum", "interleaved form with an output list", (lambda m, a, b, c: m.einsum(a, [0, 1], b, [1], c, [0], [0])), [(2, 3), (3,), (2,)])
    add("matmul chain", "(A @ B) @ C", (lambda m, a, b, c: m.matmul(m.matmul(a, b), c)), [(2, 3), (3, 2), (2, 2)])
    add("matmul chain", "A @ (B @ c), vector last", (lambda m, a, b, c: m.matmul(a, m.matmul(b, c))), [(2, 3), (3, 2), (2,)])
    add("dot chain", "dot(dot(a, B), c)", (lambda m, a, b, c: m.dot(m.dot(a, b), c)), [(3,), (3, 2), (2,)])
    add("multiply chain", "a * b * c with broadcasting", (lambda m, a, b, c: a * b * c), [(2, 3), (3,), (2, 1)])
    add("tensordot chain", "tensordot(tensordot(A, B, 1), C, 2)", (lambda m, a, b, c: m.tensordot(m.tensordot(a, b, 1), c, 2)), [(2, 2), (2, 2, 2), (2, 2)])
    add("outer/inner", "inner(outer(a, b), c)", (lambda m, a, b, c: m.inner(m.outer(a, b), c)), [(2,), (3,), (3,)])
    add("kron", "kron(kron(a, b), c)", (lambda m, a, b, c: m.kron(m.kron(a, b), c)), [(2,), (2,), (2,)])
    add("where-free trace", "trace(A @ B @ C)", (lambda m, a, b, c: m.trace(m.matmul(m.matmul(a, b), c))), [(2, 2), (2, 2), (2, 2)])
    return T


def main():
    cfg = json.load(sys.stdin)
    rng = random.Random(cfg["seed"])
    out = {"cases": [], "dist": {}, "skipped": []}

    def dist(k):
        out["dist"][k] = out["dist"].get(k, 0) + 1
    for prim, tag, f, shapes in table():
        sizes = [int(onp.prod(s)) for s in shapes]

        def basis(k, i):
            e = onp.zeros(sizes[k])
            e[i] = 1.0
            return e.reshape(shapes[k])
        try:
            y0 = onp.asarray(f(onp, *[onp.zeros(s) for s in shapes]))
            no = int(y0.size)
            S = []
            for idx in itertools.product(*[range(n) for n in sizes]):
                col = onp.asarray(f(onp, *[basis(k, i) for k, i in enumerate(idx)])).ravel()
                for o, c in enumerate(col):
                    if c != 0:
                        if abs(c - round(c)) > 1e-9:
                            raise ArithmeticError
                        S.append([list(idx), o, int(round(c))])
        except Exception as ex:
            out["skipped"].append("%s %s: %r" % (prim, tag, ex))
            continue
        As = [onp.array([float(rng.randint(-3, 3)) for _ in range(n)]).reshape(s) for n, s in zip(sizes, shapes)]
        dAs = [onp.array([float(rng.randint(-2, 2)) for _ in range(n)]).reshape(s) for n, s in zip(sizes, shapes)]
        y = onp.asarray(f(onp, *As))
        g = onp.array([float(rng.randint(-3, 3)) for _ in range(no)]).reshape(y.shape)
        gs = g if y.shape else float(g)
        case = {"prim": prim, "tag": tag, "no": no, "S": S, "As": [[int(t) for t in a.ravel()] for a in As], "dAs": [[int(t) for t in a.ravel()] for a in dAs],
                "g": [int(t) for t in g.ravel()], "val": [int(t) for t in y.ravel()], "vjps": [], "jvps": []}
        ok = True
        try:
            for k in range(len(As)):
                fk = lambda z, k=k: f(anp, *[z if j == k else a for j, a in enumerate(As)])   # noqa: E731
                vj = onp.asarray(make_vjp(fk)(As[k])[0](gs))
                ok = ok and vj.shape == tuple(shapes[k])
                case["vjps"].append([int(t) for t in vj.ravel()] if vj.shape == tuple(shapes[k]) else [])
                try:
                    jv = onp.asarray(make_jvp(fk)(As[k])(dAs[k])[1])
                    ok = ok and jv.shape == y.shape
                    case["jvps"].append([int(t) for t in jv.ravel()] if jv.shape == y.shape else [])
                except LOUD:
                    case["jvps"].append(None)
                    dist("forward-mode-raises (allowed)")
        except LOUD as ex:
            dist("reverse-mode-raises (allowed)")
            out["skipped"].append("%s %s: %r" % (prim, tag, ex))
            continue
        case["ok"] = bool(ok)
        dist("multilinear:%s (%d operands)" % (prim, len(As)))
        out["cases"].append(case)
    print(json.dumps(out))


if __name__ == "__main__":
    main()
