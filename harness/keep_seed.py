"""Archive a confirmed seeded change: harness/keep_seed.py <src dir> <name> <caught_by text> [note]"""
import json, os, shutil, sys
src, name, caught = sys.argv[1], sys.argv[2], sys.argv[3]
note = sys.argv[4] if len(sys.argv) > 4 else ""
dst = os.path.join("/verif/seeded", name)
os.makedirs(dst, exist_ok=True)
for f in ("patch.diff", "demo.py"):
    shutil.copy(os.path.join(src, f), os.path.join(dst, f))
meta = json.load(open(os.path.join(src, "meta.json")))
meta["confirmed"] = ("applied with `git apply` (in /repo or a scratch worktree of it); full suite: 496 passed; demo fails with the change and passes "
                     "without it; checks run with harness/try_seed.sh or harness/try_batch_par.sh (scratch copies)")
meta["caught_by"] = caught
if note:
    meta["note"] = note
json.dump(meta, open(os.path.join(dst, "meta.json"), "w"), indent=1)
print("kept", dst)
