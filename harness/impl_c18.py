"""Implementation side of C18: (A) test_util.scalar_close on pairs of floats
(exactly representable as rationals) vs the proved decision procedure;
(B) check_grads accepts correct primitives at well-scaled regular points and
rejects planted rule defects (factor, sign, transpose, dropped reduction, one
wrong entry) in the requested mode and order, for scalar, array, complex and
container arguments."""
import json
import random
import sys
import warnings

import numpy as onp
import autograd.numpy as anp
from autograd.extend import primitive, defvjp, defjvp
from autograd.test_util import scalar_close, check_grads

warnings.simplefilter("ignore")
onp.seterr(all="ignore")


def reject_threshold(n, p=0.01, alpha=1e-7):
    """smallest k with P[Binomial(n, p) >= k] < alpha: the property allows a wrong rule to pass with probability
    up to 0.01 per run, so a handful of passes in n runs is not evidence against it"""
    from math import comb
    tail = 1.0
    k = 0
    while True:
        # tail = P[X >= k]
        if tail < alpha:
            return max(k, 2)
        tail -= comb(n, k) * p ** k * (1 - p) ** (n - k)
        k += 1


def frac(x):
    n, d = float(x).as_integer_ratio()
    return [n, d]


def planted(kind, mode):
    """a primitive computing a smooth map with one derivative rule defective"""
    A = onp.array([[1.5, -0.7, 0.3], [0.2, 1.1, -0.9]])

    if kind in ("factor", "sign", "ok-scalar"):
        @primitive
        def f(x):
            return anp.sin(x) * 2.0 + x
        true = lambda x: 2.0 * anp.cos(x) + 1.0  # noqa: E731
        m = {"factor": 1.05, "sign": -1.0, "ok-scalar": 1.0}[kind]
        defvjp(f, lambda ans, x: lambda g: g * true(x) * (m if mode == "rev" else 1.0))
        defjvp(f, lambda g, ans, x: g * true(x) * (m if mode == "fwd" else 1.0))
        return f, (lambda rng: rng.uniform(0.3, 1.2)), None
    if kind in ("transpose", "entry", "ok-matrix"):
        B = onp.array([[1.5, -0.7, 0.3], [0.2, 1.1, -0.9], [0.6, 0.4, 1.3]])
        W = B.copy()
        if kind == "transpose":
            W = B.T.copy()
        if kind == "entry":
            W[1, 2] += 0.5

        @primitive
        def f(x):
            return onp.dot(B, x)
        defvjp(f, lambda ans, x: lambda g: anp.dot((W if mode == "rev" else B).T, g))
        defjvp(f, lambda g, ans, x: anp.dot((W if mode == "fwd" else B), g))
        return f, (lambda rng: onp.array([rng.uniform(0.3, 1.2) for _ in range(3)])), None
    if kind in ("zero-sum-transpose", "zero-sum-permutation", "ok-zero-sum"):
        # the defect moves entries around without changing their sum (a missing transpose, a missing roll): invisible
        # to a projection onto a constant vector, visible to a random one
        if kind == "zero-sum-permutation":
            @primitive
            def f(x):
                return onp.roll(x, 1) * 3.0
            defvjp(f, lambda ans, x: lambda g: (g if mode == "rev" else anp.roll(g, -1)) * 3.0)
            defjvp(f, lambda g, ans, x: (g if mode == "fwd" else anp.roll(g, 1)) * 3.0)
            return f, (lambda rng: onp.array([rng.uniform(0.3, 1.2) for _ in range(4)])), None
        bad = kind == "zero-sum-transpose"

        @primitive
        def f(x):
            return x.T * 3.0
        defvjp(f, lambda ans, x: lambda g: (g if (bad and mode == "rev") else g.T) * 3.0)
        defjvp(f, lambda g, ans, x: (g if (bad and mode == "fwd") else g.T) * 3.0)
        return f, (lambda rng: onp.array([[rng.uniform(0.3, 1.2) for _ in range(3)] for _ in range(3)])), None
    if kind in ("tuple-output-sign", "tuple-output-factor", "ok-tuple-output"):
        # a primitive whose OUTPUT is a tuple; the defect sits in one member of the forward (resp. reverse) rule
        sg = -1.0 if kind == "tuple-output-sign" else 1.0
        fc = 1.5 if kind == "tuple-output-factor" else 1.0

        @primitive
        def f(x):
            return (onp.sin(x), onp.cos(x))
        defvjp(f, lambda ans, x: lambda g: (fc if mode == "rev" else 1.0) * g[0] * anp.cos(x) - (sg if mode == "rev" else 1.0) * g[1] * anp.sin(x))
        from autograd.builtins import tuple as _atuple       # (a traced tuple, so that the rule can be differentiated again)
        defjvp(f, lambda g, ans, x: _atuple(((fc if mode == "fwd" else 1.0) * g * anp.cos(x), -(sg if mode == "fwd" else 1.0) * g * anp.sin(x))))
        return f, (lambda rng: onp.array([rng.uniform(0.3, 1.2) for _ in range(3)])), None
    if kind in ("dropped-reduction", "ok-reduction"):
        @primitive
        def f(x):
            return onp.sum(x * x, axis=0)
        bad = kind == "dropped-reduction"
        # true VJP: 2 x * g (g broadcast over axis 0); defect: forgets the factor on all but the first row
        def vj(ans, x):
            mask = onp.array([[1.0], [0.0]]) if (bad and mode == "rev") else 1.0

            def r(g):
                return 2.0 * x * g * mask
            return r

        def jv(g, ans, x):
            t = 2.0 * x * g
            if bad and mode == "fwd":
                t = t[:1]
            return anp.sum(t, axis=0)
        defvjp(f, vj)
        defjvp(f, jv)
        return f, (lambda rng: onp.array([[rng.uniform(0.3, 1.2) for _ in range(3)] for _ in range(2)])), None
    if kind in ("complex-conj", "ok-complex"):
        @primitive
        def f(z):
            return z * z
        bad = kind == "complex-conj"
        # holomorphic: by the convention the VJP is g * f'(z) (no conjugate); the defect conjugates
        defvjp(f, lambda ans, z: lambda g: g * 2 * (anp.conj(z) if (bad and mode == "rev") else z))
        defjvp(f, lambda g, ans, z: g * 2 * (anp.conj(z) if (bad and mode == "fwd") else z))
        return f, (lambda rng: onp.array([complex(rng.uniform(0.3, 1.2), rng.uniform(0.3, 1.2)) for _ in range(2)])), None
    if kind in ("second-order-factor", "second-order-sign", "second-order-zero", "ok-second-order"):
        # cube's own rules are right; the helper primitive their bodies call (3x^2) has a defective rule,
        # so only the second derivative is wrong: order 1 must accept, order 2 must reject
        m = {"second-order-factor": 7.0 / 6.0, "second-order-sign": -1.0, "second-order-zero": 0.0, "ok-second-order": 1.0}[kind]

        @primitive
        def dcube(x):
            return 3.0 * x * x
        defvjp(dcube, lambda ans, x: lambda g: g * 6.0 * x * (m if mode == "rev" else 1.0))
        defjvp(dcube, lambda g, ans, x: g * 6.0 * x * (m if mode == "fwd" else 1.0))

        @primitive
        def f(x):
            return x * x * x
        defvjp(f, lambda ans, x: lambda g: g * dcube(x))
        defjvp(f, lambda g, ans, x: g * dcube(x))
        return f, (lambda rng: onp.array([rng.uniform(0.5, 1.2) for _ in range(3)])), None
    if kind in ("cross-mode-factor", "cross-mode-sign", "ok-cross-mode"):
        # the helper the VJP body calls has a right VJP but a wrong JVP, the helper the JVP body calls a right JVP
        # but a wrong VJP: only forward-over-reverse and reverse-over-forward see it, so a check_grads run with
        # BOTH modes at order 2 must reject it (and order 1 must accept)
        m = {"cross-mode-factor": 1.5, "cross-mode-sign": -1.0, "ok-cross-mode": 1.0}[kind]

        @primitive
        def dr(x):
            return 3.0 * x * x
        defvjp(dr, lambda ans, x: lambda g: g * 6.0 * x)
        defjvp(dr, lambda g, ans, x: g * 6.0 * x * m)

        @primitive
        def df(x):
            return 3.0 * x * x
        defvjp(df, lambda ans, x: lambda g: g * 6.0 * x * m)
        defjvp(df, lambda g, ans, x: g * 6.0 * x)

        @primitive
        def f(x):
            return x * x * x
        defvjp(f, lambda ans, x: lambda g: g * dr(x))
        defjvp(f, lambda g, ans, x: g * df(x))
        return f, (lambda rng: onp.array([rng.uniform(0.5, 1.2) for _ in range(3)])), "both"
    if kind in ("cross-mode-helper-vjp-factor", "cross-mode-helper-jvp-factor", "ok-cross-mode-helper"):
        # the rule of ONE mode is written with a helper primitive whose rule for the OTHER mode is defective: only the mixed
        # second derivatives (reverse over forward, forward over reverse) pass through the defect
        mv = 1.5 if kind == "cross-mode-helper-vjp-factor" else 1.0
        mj = 1.5 if kind == "cross-mode-helper-jvp-factor" else 1.0

        @primitive
        def scale(t, x):
            return t * x
        defjvp(scale, lambda g, ans, t, x: g * x, lambda g, ans, t, x: t * g * mj)
        defvjp(scale, lambda ans, t, x: lambda c: c * x, lambda ans, t, x: lambda c: mv * c * t)

        @primitive
        def f(x):
            return 0.5 * x ** 2
        if kind == "cross-mode-helper-jvp-factor":
            defvjp(f, lambda ans, x: lambda g: scale(g, x))
            defjvp(f, lambda g, ans, x: g * x)
        else:
            defvjp(f, lambda ans, x: lambda g: g * x)
            defjvp(f, lambda g, ans, x: scale(g, x))
        return f, (lambda rng: onp.array([rng.uniform(0.5, 1.2) for _ in range(3)]) + 1.0), "both"
    if kind in ("tangent-helper-factor", "tangent-helper-sign", "ok-tangent-helper"):
        # the rule routes its (co)tangent through a helper primitive whose VALUE is right and whose own derivative is
        # defective: the first-order derivative is right, and so is its dependence on x - only its dependence on the
        # (co)tangent is wrong, which an order-2 check must look at too
        m = {"tangent-helper-factor": 1.25, "tangent-helper-sign": -1.0, "ok-tangent-helper": 1.0}[kind]

        @primitive
        def helper(t):
            return t * 1.0
        defvjp(helper, lambda ans, t: lambda g: g * (m if mode == "rev" else 1.0))
        defjvp(helper, lambda g, ans, t: g * (m if mode == "fwd" else 1.0))

        @primitive
        def f(x):
            return x * 2.0
        defvjp(f, lambda ans, x: lambda g: helper(g) * 2.0)
        defjvp(f, lambda g, ans, x: helper(g) * 2.0)
        return f, (lambda rng: onp.array([rng.uniform(0.5, 1.2) for _ in range(3)])), None
    if kind in ("nan-entry", "nan-scalar"):
        # a rule that returns a non-finite number at a regular point
        @primitive
        def f(x):
            return anp.sin(x) * 2.0 + x
        true = lambda x: 2.0 * anp.cos(x) + 1.0  # noqa: E731

        def poison(v):
            v = onp.array(v, dtype=float, copy=True)
            v.reshape(-1)[0] = onp.nan
            return v if v.shape else float(v)
        defvjp(f, lambda ans, x: lambda g: poison(g * true(x)) if mode == "rev" else g * true(x))
        defjvp(f, lambda g, ans, x: poison(g * true(x)) if mode == "fwd" else g * true(x))
        if kind == "nan-scalar":
            return f, (lambda rng: rng.uniform(0.3, 1.2)), None
        return f, (lambda rng: onp.array([rng.uniform(0.3, 1.2) for _ in range(3)])), None
    raise ValueError(kind)


def main():
    cfg = json.load(sys.stdin)
    rng = random.Random(cfg["seed"])
    out = {"pairs": [], "oracle_bad": [], "oracle_n": 0, "oracle_keys": [], "dist": {}}

    def dist(k):
        out["dist"][k] = out["dist"].get(k, 0) + 1
    # ---- (A) scalar_close ----
    for _ in range(cfg["n"]):
        r = rng.random()
        a = rng.choice([1.0, -1.0]) * 10 ** rng.uniform(-8, 3)
        if r < 0.3:
            b = a + rng.choice([1, -1]) * 10 ** rng.uniform(-9, -4)
        elif r < 0.6:
            b = a * (1 + rng.choice([1, -1]) * 10 ** rng.uniform(-8, -4))
        elif r < 0.7:
            b = -a
        elif r < 0.8:
            b = a
        else:
            b = rng.choice([1.0, -1.0]) * 10 ** rng.uniform(-8, 3)
        a, b = onp.float64(a), onp.float64(b)
        d = abs(float(a) - float(b))
        s = abs(float(a) + float(b))
        # stay away from the thresholds by more than float rounding
        if abs(d - 1e-6) < 1e-12 or (s > 0 and abs(d / s - 1e-6) < 1e-12):
            continue
        try:
            res = bool(scalar_close(a, b))
        except ZeroDivisionError:
            res = bool(d < 1e-6)
        dist("close" if res else "not-close")
        out["pairs"].append({"a": frac(a), "b": frac(b), "impl": res})
    # non-finite operands: never close (decided on the implementation; floats outside the rational model)
    for a, b in ((onp.nan, 1.0), (1.0, onp.nan), (onp.nan, onp.nan), (onp.inf, 1.0), (1.0, -onp.inf), (onp.inf, onp.inf),
                 (onp.nan, 0.0), (0.0, onp.nan), (onp.inf, -onp.inf)):
        out["oracle_n"] += 1
        out["oracle_keys"].append("scalar_close-nonfinite/%r/%r" % (a, b))
        try:
            r = bool(scalar_close(onp.float64(a), onp.float64(b)))
        except Exception:
            r = False
        if r:
            out["oracle_bad"].append({"oracle": "scalar_close", "a": repr(a), "b": repr(b),
                                      "what": "scalar_close(%r, %r) is True: a non-finite derivative would be accepted" % (a, b),
                                      "site": {"oracle": "scalar_close-nonfinite"}})
    # ---- (B) check_grads on correct and planted-defect primitives ----
    trials = cfg["trials"]
    for kind in ("ok-scalar", "ok-matrix", "ok-reduction", "ok-complex", "factor", "sign", "transpose", "entry",
                 "dropped-reduction", "complex-conj", "ok-second-order", "second-order-factor", "second-order-sign",
                 "second-order-zero", "ok-cross-mode", "cross-mode-factor", "cross-mode-sign", "ok-cross-mode-helper",
                 "cross-mode-helper-vjp-factor", "cross-mode-helper-jvp-factor", "ok-tangent-helper",
                 "tangent-helper-factor", "tangent-helper-sign", "nan-entry", "nan-scalar", "ok-zero-sum", "zero-sum-transpose", "zero-sum-permutation",
                 "ok-tuple-output", "tuple-output-sign", "tuple-output-factor"):
        for mode in ("rev", "fwd"):
            for order in (1, 2):
                f, point, both = planted(kind, mode)
                if both == "both" and mode == "fwd":
                    continue                      # cross-mode kinds are run once, with both modes requested
                modes_req = ["fwd", "rev"] if both == "both" else [mode]
                passes = 0
                for t in range(trials):
                    onp.random.seed((cfg["seed"] * 1000 + t) % (2 ** 31))
                    x = point(rng)
                    try:
                        check_grads(f, modes=modes_req, order=order)(x)
                        passes += 1
                    except AssertionError:
                        pass
                    except Exception as ex:
                        out["oracle_bad"].append({"oracle": "check_grads", "kind": kind, "mode": mode, "order": order,
                                                  "what": "unexpected %r" % (ex,), "site": {"oracle": "check_grads"}})
                        break
                out["oracle_n"] += trials
                out["oracle_keys"].append("%s/%s/order%d" % (kind, mode, order))
                dist("%s:%s:order%d" % ("correct" if (kind.startswith("ok") or ((kind.startswith("second-order") or kind.startswith("cross-mode") or kind.startswith("tangent-helper")) and order == 1)) else "defect", "+".join(modes_req), order))
                correct_here = kind.startswith("ok") or ((kind.startswith("second-order") or kind.startswith("cross-mode") or kind.startswith("tangent-helper")) and order == 1)
                if correct_here and passes < trials:
                    out["oracle_bad"].append({"oracle": "check_grads", "kind": kind, "mode": mode, "order": order,
                                              "what": "a correct rule was rejected in %d of %d runs" % (trials - passes, trials),
                                              "site": {"oracle": "check_grads-accept"}})
                if (not correct_here) and passes >= reject_threshold(trials):
                    out["oracle_bad"].append({"oracle": "check_grads", "kind": kind, "mode": mode, "order": order,
                                              "what": "a defective %s rule passed in %d of %d runs" % (mode, passes, trials),
                                              "site": {"oracle": "check_grads-reject"}})
    # ---- combo_check (the suite's own driver around check_grads): EVERY combination of the listed positional values and
    #      keyword values is checked - a rule that is wrong for one combination only is rejected, whichever it is ----
    from autograd.test_util import combo_check

    def planted_combo(bad_arg_index, bad_kw):
        @primitive
        def pc(x, y, flag=0):
            return x * y * (1.0 + flag)

        def wrong_here(x, y, flag):
            return (bad_arg_index is not None and float(onp.ravel(y)[0]) == ys[bad_arg_index][0]) or (bad_kw is not None and flag == bad_kw)
        defvjp(pc, lambda ans, x, y, flag=0: lambda g: g * y * (1.0 + flag) * (1.5 if wrong_here(x, y, flag) else 1.0),
               lambda ans, x, y, flag=0: lambda g: g * x * (1.0 + flag))
        defjvp(pc, lambda g, ans, x, y, flag=0: g * y * (1.0 + flag) * (1.5 if wrong_here(x, y, flag) else 1.0),
               lambda g, ans, x, y, flag=0: g * x * (1.0 + flag))
        return pc
    xs_ = [onp.array([0.7, 1.3]), onp.array([1.1, 0.4])]
    ys = [onp.array([2.0, 0.9]), onp.array([3.0, 1.2]), onp.array([4.0, 0.6])]
    for which, bad_i, bad_kw in (("none", None, None), ("first y", 0, None), ("second y", 1, None), ("last y", 2, None),
                                 ("keyword flag=0", None, 0), ("keyword flag=2", None, 2)):
        out["oracle_n"] += 1
        out["oracle_keys"].append("combo_check/" + which)
        dist("combo_check")
        try:
            onp.random.seed(cfg["seed"] % (2 ** 31))
            combo_check(planted_combo(bad_i, bad_kw), (0, 1), modes=["rev", "fwd"], order=1)(xs_, ys, flag=[0, 1, 2])
            rejected = False
        except AssertionError:
            rejected = True
        except Exception as ex:
            out["oracle_bad"].append({"oracle": "combo_check", "kind": which, "what": "unexpected %r" % (ex,), "site": {"oracle": "combo_check"}})
            continue
        if rejected != (which != "none"):
            out["oracle_bad"].append({"oracle": "combo_check", "kind": which,
                                      "what": ("a rule wrong only for the combination with %s was accepted" % which) if which != "none"
                                      else "a correct rule was rejected", "site": {"oracle": "combo_check"}})
    # combo_check with several argnums: the arguments are differentiated JOINTLY, so a defect that only shows in a mixed
    # second derivative (the rule for a treats b as a constant) is rejected at order 2
    from autograd.tracer import getval as _gv

    def mixed_defect(bad):
        @primitive
        def pm(a_, b_):
            return a_ * b_ * b_
        defvjp(pm, lambda ans, a_, b_: lambda g: g * ((_gv(b_) * _gv(b_)) if bad else (b_ * b_)), lambda ans, a_, b_: lambda g: g * 2.0 * a_ * b_)
        defjvp(pm, lambda g, ans, a_, b_: g * ((_gv(b_) * _gv(b_)) if bad else (b_ * b_)), lambda g, ans, a_, b_: g * 2.0 * a_ * b_)
        return pm
    for bad in (False, True):
        out["oracle_n"] += 1
        out["oracle_keys"].append("combo_check/mixed-second-order/%s" % bad)
        dist("combo_check")
        try:
            onp.random.seed(cfg["seed"] % (2 ** 31))
            combo_check(mixed_defect(bad), (0, 1), modes=["rev"], order=2)([onp.array([0.7, 1.3])], [onp.array([2.0, 0.9])])
            rejected = False
        except AssertionError:
            rejected = True
        except Exception as ex:
            out["oracle_bad"].append({"oracle": "combo_check", "kind": "mixed", "what": "unexpected %r" % (ex,), "site": {"oracle": "combo_check"}})
            continue
        if rejected != bad:
            out["oracle_bad"].append({"oracle": "combo_check", "kind": "mixed second-order defect" if bad else "correct",
                                      "what": "a rule whose mixed second derivative is wrong was accepted by combo_check with argnums (0, 1), order 2" if bad
                                      else "a correct rule was rejected", "site": {"oracle": "combo_check"}})
    # correct built-in primitives at regular well-scaled points, containers included
    builtin = [("tanh", lambda x: anp.tanh(x), lambda: onp.array([0.3, -0.8, 1.1])),
               ("dot-sum", lambda x: anp.sum(anp.dot(x, x.T)), lambda: onp.array([[0.5, 1.2], [-0.7, 0.9]])),
               ("container", lambda d: anp.sum(d["a"] * d["b"][0]) + d["b"][1] ** 2,
                lambda: {"a": onp.array([0.4, 1.3]), "b": [onp.array([1.1, -0.6]), 0.8]}),
               ("complex", lambda z: anp.real(anp.sum(z * anp.conj(z) * z)), lambda: onp.array([0.5 + 1.1j, -0.7 + 0.3j])),
               ("logsumexp", lambda x: anp.log(anp.sum(anp.exp(x))), lambda: onp.array([0.2, -0.4, 0.9]))]
    for name, f, pt in builtin:
        for t in range(max(3, trials // 10)):
            onp.random.seed((cfg["seed"] * 77 + t) % (2 ** 31))
            out["oracle_n"] += 1
            try:
                check_grads(f, modes=["fwd", "rev"], order=2)(pt())
            except Exception as ex:
                out["oracle_bad"].append({"oracle": "check_grads", "kind": "builtin:" + name, "what": "rejected: %s" % (str(ex)[:120],),
                                          "site": {"oracle": "check_grads-accept"}})
                break
        out["oracle_keys"].append("builtin/" + name)
    print(json.dumps(out, default=str))


if __name__ == "__main__":
    main()
