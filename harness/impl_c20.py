"""Implementation side of C20: a controlled scheduler interleaves the trace
entry/exit events of a thread A (running a nested-differentiation program) with
those of other threads B (running their own differentiations), at hook points
placed immediately around every trace entry and exit."""
import itertools
import json
import random
import sys
import threading
import warnings

sys.path.insert(0, __file__.rsplit("/", 1)[0])
import impl_l2  # noqa: E402
from impl_l2 import ev, gen, ddepth_of, size_of  # noqa: E402

warnings.simplefilter("ignore")
TLS = threading.local()


class Worker:
    """Runs prog in its own thread, pausing at every hook until stepped."""

    def __init__(self, name, prog):
        self.name, self.prog = name, prog
        self.go, self.ack = threading.Event(), threading.Event()
        self.kind, self.done, self.result = None, False, None
        self.hooks = 0
        self.thread = threading.Thread(target=self._run, daemon=True)

    def _hook(self, kind):
        self.kind = kind
        self.hooks += 1
        self.ack.set()
        self.go.wait()
        self.go.clear()

    def _run(self):
        TLS.worker = self
        self.go.wait()
        self.go.clear()
        try:
            v = ev(self.prog, [])
            self.result = {"val": int(float(v))} if float(v) == int(float(v)) and abs(float(v)) < 2 ** 50 \
                else {"inexact": True}
        except Exception as ex:
            self.result = {"raised": type(ex).__name__ + ": " + str(ex)[:100]}
        self.done = True
        self.kind = "done"
        self.ack.set()

    def start(self):
        self.thread.start()

    def step(self):
        """let the worker run to its next hook (or to completion); returns the hook kind"""
        if self.done:
            return "done"
        self.ack.clear()
        self.go.set()
        if not self.ack.wait(8):
            raise RuntimeError("worker %s stuck" % self.name)
        return self.kind


def dispatch_hook(kind):
    w = getattr(TLS, "worker", None)
    if w is not None:
        w._hook(kind)


impl_l2.HOOK[0] = dispatch_hook


def solo(prog):
    w = Worker("solo", prog)
    w.start()
    n = 0
    while w.step() != "done":
        n += 1
    return w.result, n


def run_schedule(progA, progBs, plan):
    """plan: for A's hook index h (0 = before A starts) a list of B indices to step once each."""
    A = Worker("A", progA)
    Bs = [Worker("B%d" % i, p) for i, p in enumerate(progBs)]
    for w in [A] + Bs:
        w.start()
    gaps = []
    pend = [0, 0]

    def b_steps(h):
        for bi in plan.get(str(h), []):
            k = Bs[bi].step()
            if k == "in":
                pend[0] += 1
            elif k == "post":
                pend[1] += 1

    h = 0
    b_steps(0)
    while True:
        k = A.step()
        if k == "done":
            break
        h += 1
        if k == "in":
            gaps.append([True, pend[0], pend[1]])
            pend[0] = pend[1] = 0
        elif k == "post":
            gaps.append([False, pend[0], pend[1]])
            pend[0] = pend[1] = 0
        b_steps(h)
    for w in Bs:                      # let the others finish
        while w.step() != "done":
            pass
    return A.result, gaps, [w.result for w in Bs]


WITNESS = ["grad", ["app2", "mul", ["var", 0],
                    ["grad", ["app2", "mul", ["app2", "mul", ["var", 1], ["var", 0]], ["var", 0]], ["const", 3]]],
           ["const", 2]]
B1 = ["grad", ["app2", "mul", ["var", 0], ["var", 0]], ["const", 1]]
B2 = ["grad", ["app2", "mul", ["var", 0], ["deriv", ["app2", "mul", ["var", 0], ["var", 1]], ["const", 2]]],
      ["const", 3]]


# other threads whose differentiation FAILS while A's traces are open (escaping, and caught inside B)
B3 = ["grad", ["app2", "mul", ["var", 0], ["fail"]], ["const", 1]]
B4 = ["grad", ["app2", "mul", ["var", 0],
               ["try", ["grad", ["app2", "mul", ["fail"], ["var", 0]], ["const", 1]],
                ["deriv", ["app2", "mul", ["var", 0], ["var", 1]], ["const", 2]]]], ["const", 3]]


def plans(nA, nB, rng, limit):
    """all (or a sample of) ways to place B's nB steps at A's hook indices 0..nA, in order"""
    allp = list(itertools.combinations_with_replacement(range(nA + 1), nB))
    if len(allp) > limit:
        allp = rng.sample(allp, limit)
    for pos in allp:
        plan = {}
        for p in pos:
            plan.setdefault(str(p), []).append(0)
        yield plan


def main():
    cfg = json.load(sys.stdin)
    rng = random.Random(cfg["seed"])
    out = {"cases": [], "dist": {}, "skipped": 0}

    def dist(k):
        out["dist"][k] = out["dist"].get(k, 0) + 1

    progsA = [WITNESS]
    stuck = [0]
    tries = 0
    while len(progsA) < cfg["n_progs"] and tries < 2000:
        tries += 1
        e = gen(rng, rng.randint(3, 5), 0, {"maxd": 3})
        if ddepth_of(e) >= 1 and size_of(e) <= 25 and str(e).count("grad") + str(e).count("deriv") <= 4:
            progsA.append(e)
    for pa in progsA:
        sres, nA = solo(pa)
        if sres.get("inexact"):
            out["skipped"] += 1
            continue
        for pb in (B1, B2, B3, B4):
            sb, nB = solo(pb)
            for plan in plans(nA, nB, rng, cfg["per_prog"]):
                try:
                    ra, gaps, rbs = run_schedule(pa, [pb], plan)
                except RuntimeError as ex:
                    # a thread cannot get on while another one is paused inside its differentiation: a deadlock under
                    # this schedule (the paused thread holds something the other needs).  Two such schedules are enough.
                    out["cases"].append({"exp": pa, "plan": plan, "gaps": [], "res": {"raised": "deadlock: " + repr(ex)},
                                         "solo": sres, "b_ok": False, "b": pb, "deadlock": True})
                    stuck[0] += 1
                    if stuck[0] >= 2:
                        print(json.dumps(out))
                        sys.stdout.flush()
                        import os
                        os._exit(0)          # blocked worker threads would keep the interpreter alive
                    continue
                dist("A-events=%d" % len(gaps))
                dist("interfering" if any(g[1] or g[2] for g in gaps) else "no-overlap")
                out["cases"].append({"exp": pa, "b": pb, "plan": plan, "gaps": gaps, "res": ra, "solo": sres,
                                     "b_ok": rbs[0] == sb, "b_res": rbs[0], "b_solo": sb})
    # ---- forward-mode differentiations with DIFFERENT tangents open at the same time in two threads (the model's Deriv
    #      always seeds 1, so a tangent travelling from one thread to the other is invisible there) ----
    import autograd.numpy as anp
    from autograd import make_jvp as _mj, grad as _gr
    out["extra_bad"] = []
    progs2 = [("cube", lambda z: z * z * z, 2.0, lambda x, v: 3 * x * x * v), ("square", lambda z: z * z, 5.0, lambda x, v: 2 * x * v),
              ("hvp", lambda z: _gr(lambda w: w * w * w * w)(z), 3.0, lambda x, v: 12 * x * x * v),
              ("nested", lambda z: z * _mj(lambda w: w * w * z)(z)(2.0)[1], 2.0, lambda x, v: 12 * x * x * v)]
    for (na_, fa, xa, ta), (nb_, fb, xb, tb) in itertools.permutations(progs2, 2):
        for va, vb in ((3.0, 0.5), (1.0, -2.0), (4.0, 4.0)):
            in_a, in_b = threading.Event(), threading.Event()
            res = {}

            def run(tag, f, x, v, mine, other):
                def g(z):
                    mine.set()
                    other.wait(5)            # both differentiations are open now
                    return f(z)
                try:
                    res[tag] = float(_mj(g)(x)(v)[1])
                except Exception as ex:
                    res[tag] = "raised " + repr(ex)
            th1 = threading.Thread(target=run, args=("A", fa, xa, va, in_a, in_b), daemon=True)
            th2 = threading.Thread(target=run, args=("B", fb, xb, vb, in_b, in_a), daemon=True)
            th1.start(); th2.start(); th1.join(20); th2.join(20)
            dist("two-threads-forward-tangents")
            want = {"A": float(ta(xa, va)), "B": float(tb(xb, vb))}
            if res != want:
                out["extra_bad"].append({"exp": "A: make_jvp(%s)(%r)(%r), B: make_jvp(%s)(%r)(%r), both open at once" % (na_, xa, va, nb_, xb, vb),
                                         "plan": {}, "gaps": [], "res": res, "solo": want, "b_ok": False, "b": nb_})
    # ---- ONE operator object shared by two threads: thread A is suspended inside the user's function (or between obtaining
    #      a linearisation and using it) while thread B uses the same object on other arguments from start to end; each
    #      thread gets what it gets alone ----
    import numpy as onp
    from autograd import (make_vjp as _mv, jacobian as _jac, value_and_grad as _vag, hessian_vector_product as _hvp, make_hvp as _mhvp,
                          tensor_jacobian_product as _tjp, elementwise_grad as _eg, hessian as _hes, make_ggnvp as _ggn, holomorphic_grad as _hg)
    hooks = threading.local()

    def yielding(f):
        def g(*a, **k):
            r = f(*a, **k)
            h = getattr(hooks, "hook", None)
            if h is not None:
                h()
            return r
        return g
    energy = yielding(lambda x, c=1.0: anp.sum(x ** 4) * c + anp.prod(x))
    vecf = yielding(lambda x, c=1.0: anp.tanh(x * c) * x[::-1])
    xa_, xb_ = onp.array([1.0, 2.0, -1.5]), onp.array([0.5, -0.7, 2.0])
    va_, vb_ = onp.array([1.0, 0.0, 2.0]), onp.array([-3.0, 1.0, 0.5])
    shared = {
        "grad": (_gr(energy), lambda op, x, v, c: op(x, c)),
        "grad argnum by keyword args": (_gr(energy), lambda op, x, v, c: op(x, c=c)),
        "value_and_grad": (_vag(energy), lambda op, x, v, c: op(x, c)[1]),
        "jacobian": (_jac(vecf), lambda op, x, v, c: op(x, c)),
        "elementwise_grad": (_eg(vecf), lambda op, x, v, c: op(x, c)),
        "hessian": (_hes(energy), lambda op, x, v, c: op(x, c)),
        "hessian_vector_product": (_hvp(energy), lambda op, x, v, c: op(x, c, v)),
        "tensor_jacobian_product": (_tjp(vecf), lambda op, x, v, c: op(x, c, v)),
        "make_jvp (linearise, then push)": (_mj(vecf), lambda op, x, v, c: op(x, c)(v)[1]),
        "make_vjp (linearise, then pull)": (_mv(vecf), lambda op, x, v, c: op(x, c)[0](v)),
        "make_hvp": (_mhvp(energy), lambda op, x, v, c: op(x, c)[0](v)),
        "make_ggnvp": (_ggn(vecf), lambda op, x, v, c: op(x, c)(v)),
    }
    for oname, (op, use) in shared.items():
        try:
            want = {"A": onp.asarray(use(op, xa_, va_, 2.0)).tolist(), "B": onp.asarray(use(op, xb_, vb_, 3.0)).tolist()}
        except Exception as ex:
            out["extra_bad"].append({"exp": "shared operator %s fails alone: %r" % (oname, ex), "plan": {}, "gaps": [], "res": {}, "solo": {}, "b_ok": False, "b": oname})
            continue
        for lazy_split in (False, True):
            a_in, b_done = threading.Event(), threading.Event()
            res = {}

            def wa():
                fired = []

                def hook():
                    if not fired:
                        fired.append(1)
                        a_in.set()
                        b_done.wait(10)
                try:
                    if lazy_split and oname.startswith("make_"):
                        lin = op(xa_, 2.0)               # linearise ...
                        a_in.set()
                        b_done.wait(10)                  # ... B works with the same operator object ...
                        r = lin(va_) if oname.startswith(("make_ggnvp",)) else (lin(va_)[1] if oname.startswith("make_jvp") else lin[0](va_))
                    else:
                        hooks.hook = hook
                        r = use(op, xa_, va_, 2.0)
                    res["A"] = onp.asarray(r).tolist()
                except Exception as ex:
                    res["A"] = "raised " + repr(ex)
                finally:
                    a_in.set()

            def wb():
                a_in.wait(10)
                try:
                    res["B"] = onp.asarray(use(op, xb_, vb_, 3.0)).tolist()
                except Exception as ex:
                    res["B"] = "raised " + repr(ex)
                finally:
                    b_done.set()
            t1, t2 = threading.Thread(target=wa, daemon=True), threading.Thread(target=wb, daemon=True)
            t1.start(); t2.start(); t1.join(30); t2.join(30)
            dist("shared-operator-object")
            if res != want:
                out["extra_bad"].append({"exp": "one %s object used by two threads (A suspended %s while B runs)" % (oname, "between linearising and using" if lazy_split else "inside the function"),
                                         "plan": {}, "gaps": [], "res": res, "solo": want, "b_ok": False, "b": oname})
                break
    # ---- ONE linearisation (the pull-back of make_vjp, the product function of make_hvp / make_ggnvp) shared by two threads
    #      (rows of a Jacobian computed in parallel): thread A is suspended inside a user-defined reverse rule DURING its
    #      backward pass while thread B pulls another cotangent back through the same object from start to end ----
    from autograd.extend import primitive as _prim, defvjp as _defvjp, defjvp as _defjvp
    rule_hooks = threading.local()

    @_prim
    def scaled_tanh(y):
        return 2.0 * onp.tanh(y)

    def _st_vjp(ans, y):
        def vjp(g):
            h = getattr(rule_hooks, "hook", None)
            if h is not None:
                h()
            return g * 2.0 / onp.cosh(y) ** 2
        return vjp
    _defvjp(scaled_tanh, _st_vjp)
    _defjvp(scaled_tanh, lambda g, ans, y: g * 2.0 / onp.cosh(y) ** 2)

    def chain(x):
        y = anp.sin(x)
        z = scaled_tanh(y) * x
        return anp.cos(z) + y + scaled_tanh(z * 0.5)
    lins = {
        "make_vjp pull-back": lambda: _mv(chain)(xa_)[0],
        "make_vjp pull-back after one complete use": lambda: (lambda pb: (pb(va_), pb)[1])(_mv(chain)(xa_)[0]),
        "make_ggnvp product": lambda: _ggn(chain)(xa_),
    }
    for lname, mk in lins.items():
        try:
            want = {"A": onp.asarray(mk()(va_)).tolist(), "B": onp.asarray(mk()(vb_)).tolist()}
        except Exception as ex:
            out["extra_bad"].append({"exp": "shared linearisation %s fails alone: %r" % (lname, ex), "plan": {}, "gaps": [], "res": {}, "solo": {}, "b_ok": False, "b": lname})
            continue
        for pause_at in (1, 2):
            lin = mk()
            a_in, b_done = threading.Event(), threading.Event()
            res = {}

            def wa():
                calls = []

                def hook():
                    calls.append(1)
                    if len(calls) == pause_at:
                        a_in.set()
                        b_done.wait(10)
                rule_hooks.hook = hook
                try:
                    res["A"] = onp.asarray(lin(va_)).tolist()
                except Exception as ex:
                    res["A"] = "raised " + repr(ex)
                finally:
                    a_in.set()

            def wb():
                a_in.wait(10)
                try:
                    res["B"] = onp.asarray(lin(vb_)).tolist()
                except Exception as ex:
                    res["B"] = "raised " + repr(ex)
                finally:
                    b_done.set()
            t1, t2 = threading.Thread(target=wa, daemon=True), threading.Thread(target=wb, daemon=True)
            t1.start(); t2.start(); t1.join(30); t2.join(30)
            dist("shared-linearisation")
            if res != want:
                out["extra_bad"].append({"exp": "one %s used by two threads (A suspended inside a reverse rule, call %d of its backward pass, while B runs)" % (lname, pause_at),
                                         "plan": {}, "gaps": [], "res": res, "solo": want, "b_ok": False, "b": lname})
                break
    print(json.dumps(out))


if __name__ == "__main__":
    main()
