#!/bin/sh
# False-alarm battery: semantically neutral edits of /repo (docstrings in the functions the translators read, a new and
# CORRECT forward rule, a comment, a blank line) on a scratch worktree; every check must still exit 0 on it.
#   harness/harmless_battery.sh [check ids...]      (default: all twenty)
W=/tmp/harmless_$$
git -C /repo worktree add --detach $W HEAD -f >/dev/null 2>&1 || exit 2
/venv/bin/python - "$W" <<'PY'
import sys
W = sys.argv[1]
edits = (
 ("autograd/util.py", 'def toposort(end_node, parents=operator.attrgetter("parents")):\n', '    """Yield the nodes reachable from end_node, consumers before producers."""\n'),
 ("autograd/util.py", "def subvals(x, ivs):\n", '    """Return a copy of x with the values of ivs substituted."""\n'),
 ("autograd/core.py", "def backward_pass(g, end_node):\n", '    """Propagate the cotangent g from end_node back to the root."""\n'),
 ("autograd/core.py", "def defvjp(fun, *vjpmakers, **kwargs):\n", '    """Register one VJP maker per positional argument."""\n'),
 ("autograd/core.py", "def add_outgrads(prev_g_flagged, g):\n", '    """Accumulate one more contribution."""\n'),
 ("autograd/test_util.py", "def scalar_close(a, b):\n", '    """Absolute or relative closeness."""\n'),
 ("autograd/numpy/numpy_vjps.py", "def unbroadcast(x, target_meta, broadcast_idx=0):\n", '    """Sum x back to the shape described by target_meta."""\n'),
 ("autograd/numpy/numpy_vspaces.py", "    def zeros(self):\n", '        """The zero vector."""\n'),
 ("autograd/wrap_util.py", "def unary_to_nary(unary_operator):\n", '    """Lift an operator on unary functions to n-ary functions."""\n'),
 ("autograd/tracer.py", "def find_top_boxed_args(args):\n", '    """The boxes of the innermost trace among args."""\n'),
 ("autograd/core.py", "def translate_jvp(jvpfun, fun, argnum):\n", '    """Turn None / the string same / a callable into a forward rule."""\n'),
 ("autograd/core.py", "def defjvp(fun, *jvpfuns, **kwargs):\n", '    """Register one forward rule per positional argument."""\n'),
 ("autograd/tracer.py", "def register_notrace(trace_type, primitive_fun):\n", '    """Calls of primitive_fun are not recorded for this kind of node."""\n'),
 ("autograd/numpy/numpy_vjps.py", "nograd_functions = [\n", '    # rounding functions first\n'),
)
for path, anchor, doc in edits:
    p = W + "/" + path
    s = open(p).read()
    assert s.count(anchor) == 1, (path, anchor)
    open(p, "w").write(s.replace(anchor, anchor + doc))
p = W + "/autograd/numpy/numpy_jvps.py"
s = open(p).read()
anchor = "defjvp(anp.arctan2,"
assert s.count(anchor) == 1
s = s.replace(anchor, "# (a new, correct rule)\ndefjvp(\n    anp.hypot,\n    lambda g, ans, x, y: broadcast(g * x / ans, ans),\n    lambda g, ans, x, y: broadcast(g * y / ans, ans),\n)\n\n" + anchor)
open(p, "w").write(s)
PY
[ $? -eq 0 ] || { echo "could not apply the harmless edits"; git -C /repo worktree remove --force $W; exit 2; }
t=$(cd $W && PYTHONPATH=$W timeout 900 /venv/bin/python -m pytest -q -p no:cacheprovider 2>&1 | grep -c "496 passed")
echo "suite on the edited tree: $([ "$t" -ge 1 ] && echo '496 passed' || echo FAILED)"
ids=${*:-C01 C02 C03 C04 C05 C06 C07 C08 C09 C10 C11 C12 C13 C14 C15 C16 C17 C18 C19 C20}
bad=0
for p in $ids; do
  out=$(cd /verif && VERIF_REPO=$W timeout 1500 ./check $p 2>&1); rc=$?
  v=$(echo "$out" | grep -c "^VIOLATION")
  echo "$p exit=$rc violations=$v $(echo "$out" | grep '^VIOLATION' | head -1 | cut -c1-120)"
  [ $rc -ne 0 ] && bad=1
done
git -C /repo worktree remove --force $W; git -C /repo worktree prune
# regenerate the translated files from the real tree again
(cd /verif && PYTHONPATH=/repo /venv/bin/python harness/translate.py coq/gen >/dev/null 2>&1)
exit $bad
