"""C19, operator-level histories: every public differential operator is called on functions that fail (in the forward
evaluation, or in a derivative rule during the backward pass), in random order; after every failure a fixed set of
canary differentiations must return exactly what they returned in the pristine process, and the process-global state
autograd may touch (warning filters, NumPy error state, registries, recursion limit) must be what it was.  Also: a
tracer object that leaked out of a finished differentiation, used later as a constant."""
import json
import random
import sys
import warnings

import numpy as onp
import autograd.numpy as anp
from autograd import (grad, jacobian, hessian, value_and_grad, grad_and_aux, make_vjp, make_jvp, deriv, elementwise_grad,
                      hessian_vector_product, make_hvp, tensor_jacobian_product, make_ggnvp, holomorphic_grad, checkpoint)
from autograd.extend import primitive, defvjp, defjvp
from autograd.test_util import check_grads
from autograd import core, tracer


class Planted(Exception):
    pass


@primitive
def touchy(x, fail):
    return x * 3.0


def _touchy_vjp(ans, x, fail):
    def vjp(g):
        if fail[0]:
            raise Planted("rule fault")
        return g * 3.0
    return vjp


defvjp(touchy, _touchy_vjp, None)
defjvp(touchy, lambda g, ans, x, fail: g * 3.0, None)


def snapshot():
    return {"warnings.filters": [(f[0], str(f[1]), f[2].__name__ if f[2] else None, str(f[3]), f[4]) for f in warnings.filters],
            "np.geterr": dict(onp.geterr()), "recursionlimit": sys.getrecursionlimit(),
            # (primitive_vjps / primitive_jvps grow by design whenever checkpoint wraps a new function)
            "notrace": sorted((k.__name__, len(v)) for k, v in tracer.notrace_primitives.items()),
            "box_types": len(tracer.Box.type_mappings), "vspaces": len(core.VSpace.mappings)}


def canaries():
    x = onp.array([1.0, 2.0, -1.0])
    f = lambda z: anp.sum(anp.sin(z) * z ** 2)  # noqa: E731
    out = [
        grad(f)(x), jacobian(lambda z: z * anp.cos(z))(x), hessian(f)(x), value_and_grad(f)(x)[1],
        grad(lambda z: grad(lambda y: anp.sum(y * y * z))(z)[0])(x), deriv(lambda t: t ** 3 + touchy(t, [False]))(2.0),
        make_jvp(lambda z: z * z)(x)(x)[1], hessian_vector_product(f)(x, x), grad(lambda z: 5.0)(x),       # independent output
        make_vjp(lambda z: onp.ones(2))(x)[0](onp.ones(2)), grad(lambda z: anp.sum(touchy(z, [False])))(x),
        grad(checkpoint(lambda z: anp.sum(z ** 3)))(x), elementwise_grad(anp.tanh)(x),
        grad(lambda d: d["a"] * anp.sum(d["b"]))({"a": 2.0, "b": x})["b"],
    ]
    return [onp.asarray(o).tolist() for o in out]


def main():
    cfg = json.load(sys.stdin)
    rng = random.Random(cfg["seed"])
    warnings.simplefilter("ignore")
    out = {"n": 0, "keys": [], "bad": [], "dist": {}, "samples": []}
    # ---- the same call gives the same outcome the first, second and third time - also its diagnostics: under the
    #      "error" filter (a warning is an exception) and under "always" (the warnings are counted) ----
    const = lambda z: 3.0  # noqa: E731
    pristine = {}

    def guarded(z):
        try:
            return grad(const)(z)
        except UserWarning:
            return 10.0 * z
    thunks = [("grad of a constant", lambda: grad(const)(1.0)), ("jacobian of a constant", lambda: jacobian(lambda z: onp.ones(2))(onp.array([1.0, 2.0]))),
              ("make_jvp of a constant", lambda: make_jvp(const)(1.0)(1.0)[1]), ("ordinary gradient", lambda: grad(lambda z: anp.sum(z * z))(onp.array([1.0, 2.0]))),
              ("enclosing differentiation catching the inner diagnostic", lambda: grad(lambda z: z * z + guarded(z))(2.0)),
              ("hessian of a linear function", lambda: hessian(lambda z: anp.sum(z * 2.0))(onp.array([1.0, 2.0]))),
              ("value_and_grad of a constant", lambda: value_and_grad(const)(1.0)[1])]

    def outcome(th, mode):
        with warnings.catch_warnings(record=(mode == "always")) as rec:
            warnings.simplefilter(mode)
            try:
                r = ("ok", onp.asarray(th()).tolist())
            except Exception as ex:
                r = ("raised", type(ex).__name__)
            return r + ((len(rec),) if mode == "always" else ())
    def repeat_outcomes(when):
        for mode in ("error", "always"):
            rounds = [[outcome(th, mode) for _, th in thunks] for _ in range(3)]
            for i, (name, _) in enumerate(thunks):
                out["n"] += 1
                out["keys"].append("repeat-%s|%s|%s" % (mode, name, when))
                seen = [rnd[i] for rnd in rounds]
                first = pristine.setdefault((mode, name), seen[0])      # the very first call in this process
                if not (seen[0] == seen[1] == seen[2] == first):
                    out["bad"].append({"operator": name, "fault": "repeat under warnings filter %r" % mode,
                                       "problems": ["%s: the very first call in the process gave %r, later calls %r" % (when, first, seen)],
                                       "site": {"oracle": "operator-history"}})
        warnings.simplefilter("ignore")
    repeat_outcomes("first thing in the process")
    base = canaries()
    snap0 = snapshot()
    x = onp.array([0.5, -1.5, 2.0])
    flag = [True]

    def fwd_fail(z):
        y = anp.sum(z * z)
        raise Planted("forward fault after %r" % (type(y).__name__,))

    def bwd_fail(z):
        return anp.sum(touchy(z * z, flag) * z)

    def nested_fwd_fail(z):
        return anp.sum(grad(lambda y: fwd_fail(y * z))(z))

    def nested_bwd_fail(z):
        return anp.sum(grad(bwd_fail)(z) * z)
    faulty = {"forward": fwd_fail, "backward-rule": bwd_fail, "nested-forward": nested_fwd_fail, "nested-backward-rule": nested_bwd_fail}
    ops = {
        "grad": lambda f: grad(f)(x), "jacobian": lambda f: jacobian(f)(x), "hessian": lambda f: hessian(f)(x),
        "value_and_grad": lambda f: value_and_grad(f)(x), "grad_and_aux": lambda f: grad_and_aux(lambda z: (f(z), 1.0))(x),
        "make_vjp": lambda f: make_vjp(f)(x)[0](1.0), "make_jvp": lambda f: make_jvp(f)(x)(x),
        "deriv": lambda f: deriv(lambda t: f(x * t))(1.0), "elementwise_grad": lambda f: elementwise_grad(lambda z: z * f(z))(x),
        "hessian_vector_product": lambda f: hessian_vector_product(f)(x, x), "make_hvp": lambda f: make_hvp(f)(x)[0](x),
        "tensor_jacobian_product": lambda f: tensor_jacobian_product(lambda z: z * f(z))(x, x),
        "make_ggnvp": lambda f: make_ggnvp(lambda z: z * f(z))(x)(x), "checkpoint": lambda f: grad(checkpoint(f))(x),
        "check_grads": lambda f: check_grads(f, modes=["rev"], order=2)(x), "grad-of-grad": lambda f: grad(lambda z: anp.sum(grad(f)(z)))(x),
    }
    plan = [(o, k) for o in ops for k in faulty]
    rng.shuffle(plan)
    for oname, kind in plan[:cfg["n"]]:
        out["n"] += 1
        out["keys"].append("%s|%s" % (oname, kind))
        out["dist"]["fault=" + kind] = out["dist"].get("fault=" + kind, 0) + 1
        flag[0] = True
        raised = False
        try:
            ops[oname](faulty[kind])
        except Planted:
            raised = True
        except Exception as ex:           # another exception type escaping is still a loud failure: fine
            raised = True
            out["dist"]["other-exception"] = out["dist"].get("other-exception", 0) + 1
        probs = []
        if not raised and not (kind == "backward-rule" and oname in ("deriv", "make_jvp")):   # forward mode runs no VJP rule
            probs.append("the planted fault did not propagate out of %s" % oname)
        flag[0] = False
        try:
            now = canaries()
            if now != base:
                i = [a != b for a, b in zip(now, base)].index(True)
                probs.append("after the failed %s call, canary differentiation #%d returns %r instead of %r" % (oname, i, now[i], base[i]))
        except Exception as ex:
            probs.append("after the failed %s call a canary differentiation raised %r" % (oname, ex))
        s1 = snapshot()
        if s1 != snap0:
            diff = [k for k in snap0 if snap0[k] != s1[k]]
            probs.append("process-global state changed by the failed %s call: %s" % (oname, diff))
            snap0 = s1                          # report each change once
        if probs:
            out["bad"].append({"operator": oname, "fault": kind, "problems": probs, "site": {"oracle": "operator-history"}})
    # ---- one operator OBJECT applied several times: what an earlier application returned does not depend on the
    #      later applications (nor on failed ones in between) ----
    def f2(z, a, b=0.0):
        return anp.sum(a * z * z * z) + b * z[0]
    x1, x2, vv = onp.array([0.5, -1.0, 2.0]), onp.array([1.5, 0.25, -0.5]), onp.array([1.0, 0.5, -2.0])
    for oname, mk, use in (("make_jvp", lambda: make_jvp(f2), lambda r: r(vv)[1]),
                           ("make_vjp", lambda: make_vjp(f2), lambda r: r[0](2.0)),
                           ("make_hvp", lambda: make_hvp(f2), lambda r: r[0](vv)),
                           ("make_ggnvp", lambda: make_ggnvp(lambda z, a, b=0.0: z * a + b), lambda r: r(vv))):
        out["n"] += 1
        out["keys"].append("operator-reuse|" + oname)
        try:
            op = mk()
            first = op(x1, 2.0)
            fresh = onp.asarray(use(mk()(x1, 2.0))).tolist()
            before = onp.asarray(use(first)).tolist()
            op(x2, 5.0, b=3.0)
            try:
                op(x2, "not a number")
            except Exception:
                pass
            after = onp.asarray(use(first)).tolist()
            probs = []
            if before != fresh:
                probs.append("%s: result %r differs from that of a fresh operator %r" % (oname, before, fresh))
            if after != fresh:
                probs.append("%s applied at (x1, 2.0), then at (x2, 5.0, b=3.0): the FIRST result now gives %r instead of %r" % (oname, after, fresh))
            if probs:
                out["bad"].append({"operator": oname, "fault": "operator-reuse", "problems": probs, "site": {"oracle": "operator-history"}})
        except Exception as ex:
            out["bad"].append({"operator": oname, "fault": "operator-reuse", "problems": ["raised %r" % (ex,)], "site": {"oracle": "operator-history"}})
    # ---- floating-point faults promoted to errors inside derivative rules: whether or not the rule fails, NumPy's error
    #      state is what the user set, and later differentiations report the same faults ----
    xs_fp = onp.array([0.1, 0.2, 0.4])
    rules_fp = {"std": lambda v: anp.std(v), "var": lambda v: anp.var(v), "mean": lambda v: anp.mean(v), "prod": lambda v: anp.prod(v),
                "linalg.norm": lambda v: anp.linalg.norm(v), "sum of squares": lambda v: anp.sum(v * v), "log": lambda v: anp.sum(anp.log(v)),
                "sqrt": lambda v: anp.sum(anp.sqrt(v)), "divide": lambda v: anp.sum(1.0 / v), "power": lambda v: anp.sum(v ** 2.5),
                "tanh": lambda v: anp.sum(anp.tanh(v)), "max": lambda v: anp.max(v), "sort": lambda v: anp.sum(anp.sort(v) * xs_fp),
                "std axis": lambda v: anp.sum(anp.std(anp.outer(v, v), axis=1)), "logaddexp": lambda v: anp.sum(anp.logaddexp(v, 2.0 * v)),
                "arctan2": lambda v: anp.sum(anp.arctan2(v, 1.0 + v)), "hypot-free norm": lambda v: anp.sqrt(anp.sum(v * v)),
                "sinc": lambda v: anp.sum(anp.sinc(v)), "cumsum": lambda v: anp.sum(anp.cumsum(v) ** 2), "dot": lambda v: anp.dot(v, v)}

    def fp_canary():
        try:
            r = grad(lambda v: anp.sum(anp.log(v + 1.0)))(onp.array([1.0, -1.0]))
        except FloatingPointError:
            return "raised"
        return repr(onp.asarray(r).tolist())
    old_err = onp.seterr(all="raise")
    try:
        want_state = dict(onp.geterr())
        canary0 = fp_canary()
        for rname, fr in rules_fp.items():
            for cot in (1e308, -1e308, 1e-320, float("inf")):
                out["n"] += 1
                out["keys"].append("fp-fault|%s|%r" % (rname, cot))
                try:
                    vjp_, _v = make_vjp(fr)(xs_fp)
                except FloatingPointError:
                    continue
                try:
                    vjp_(cot)
                    out["dist"]["fp-fault:no-fault"] = out["dist"].get("fp-fault:no-fault", 0) + 1
                except FloatingPointError:
                    out["dist"]["fp-fault:raised"] = out["dist"].get("fp-fault:raised", 0) + 1
                except Exception:
                    out["dist"]["fp-fault:other-exception"] = out["dist"].get("fp-fault:other-exception", 0) + 1
                probs = []
                if dict(onp.geterr()) != want_state:
                    probs.append("NumPy's error state is %r after the call, the user had set %r" % (dict(onp.geterr()), want_state))
                    onp.seterr(all="raise")
                c1 = fp_canary()
                if c1 != canary0:
                    probs.append("a later differentiation that divides by zero gives %s, in a fresh process %s" % (c1, canary0))
                if probs:
                    out["bad"].append({"operator": "make_vjp of " + rname, "fault": "floating-point fault in a rule (cotangent %r)" % cot,
                                       "problems": probs, "site": {"oracle": "operator-history"}})
    finally:
        onp.seterr(**old_err)
    # ---- values of user-defined subclasses of the supported types (array classes, float / tuple / list / dict
    #      subclasses): the outcome of a call - value or refusal - is the one a FRESH interpreter gives, whatever
    #      instances of the same class were seen earlier in this process (registries must not learn from values) ----
    import subprocess
    SUBPROG = r"""
import sys, json, warnings
warnings.simplefilter("ignore")
import numpy as onp
import autograd.numpy as anp
from autograd import grad, deriv, elementwise_grad, make_jvp
from collections import namedtuple
class Signal(onp.ndarray): pass
class Money(float): pass
Pt = namedtuple("Pt", "a b")
class Cfg(dict): pass
class Vec(list): pass
def mk(kind):
    if kind == "array-real": return onp.array([1.0, 2.0, 3.0]).view(Signal)
    if kind == "array-complex": return (onp.array([0.3, -1.2, 0.5]) + 1j * onp.array([1.0, 0.2, -0.7])).view(Signal)
    if kind == "array-2d": return onp.arange(4.0).reshape(2, 2).view(Signal)
    if kind == "float-sub": return Money(2.5)
    if kind == "namedtuple": return Pt(onp.array([1.0, 2.0]), 3.0)
    if kind == "dict-sub": return Cfg(a=onp.array([1.0, 2.0]), b=3.0)
    if kind == "list-sub": return Vec([onp.array([1.0, 2.0]), 3.0])
def call(kind):
    x = mk(kind)
    outs = []
    fs = {"array-real": [lambda: grad(lambda z: anp.sum(z * z))(x), lambda: elementwise_grad(lambda z: z * 2.0)(x)],
          "array-complex": [lambda: deriv(lambda z: z * z)(x), lambda: elementwise_grad(lambda z: z * 2.0)(x), lambda: make_jvp(lambda z: anp.real(z * z))(x)(x)[1]],
          "array-2d": [lambda: grad(lambda z: anp.sum(z @ z))(x)],
          "float-sub": [lambda: grad(lambda z: z * z)(x)],
          "namedtuple": [lambda: grad(lambda p: anp.sum(p[0]) * p[1])(x)],
          "dict-sub": [lambda: grad(lambda p: anp.sum(p["a"]) * p["b"])(x)],
          "list-sub": [lambda: grad(lambda p: anp.sum(p[0]) * p[1])(x)]}[kind]
    for f in fs:
        try:
            r = f()
            outs.append(json.dumps(r, default=lambda a: [type(a).__name__, str(onp.asarray(a).dtype), onp.asarray(a).tolist() if not onp.iscomplexobj(a) else str(onp.asarray(a).tolist())]))
        except Exception as e:
            outs.append("raised " + type(e).__name__)
    return outs
hist = sys.argv[1].split(",") if sys.argv[1] else []
for h in hist:
    call(h)
print(json.dumps(call(sys.argv[2])))
"""
    kinds = ["array-real", "array-complex", "array-2d", "float-sub", "namedtuple", "dict-sub", "list-sub"]

    def sub(hist, kind):
        r = subprocess.run([sys.executable, "-c", SUBPROG, ",".join(hist), kind], capture_output=True, text=True, timeout=120)
        return r.stdout.strip().splitlines()[-1] if r.returncode == 0 and r.stdout.strip() else "process failed: " + r.stderr[-300:]
    fresh = {k: sub([], k) for k in kinds}
    for k in kinds:
        for hist in ([k2 for k2 in kinds if k2 != k], [k2 for k2 in reversed(kinds) if k2 != k][:2], ["array-real", "array-real"]):
            out["n"] += 1
            out["keys"].append("subclass-history|%s|%s" % (k, "+".join(hist)))
            got = sub(hist, k)
            if got != fresh[k]:
                out["bad"].append({"operator": "differentiating a value of a user subclass (%s)" % k, "fault": "after earlier calls on %s" % hist,
                                   "problems": ["fresh interpreter: %s ; after the history: %s" % (fresh[k][:300], got[:300])], "site": {"oracle": "operator-history"}})
                break
    # ---- rule-level histories: the same primitive differentiated with the same shapes but other options (axis, norm,
    #      lengths, subscripts) earlier in the process - in one order, in the reverse order, and each configuration alone in
    #      a fresh interpreter: every configuration gives the same gradient in all three ----
    RULEPROG = r"""
import sys, json, warnings
warnings.simplefilter("ignore")
import numpy as onp, autograd.numpy as anp
from autograd import grad, make_jvp
rs = onp.random.RandomState(3)
xc = rs.randn(5, 5) + 1j * rs.randn(5, 5)
xr = rs.randn(6, 6)
w85, w58, w66, w64, w46 = rs.randn(8, 5), rs.randn(5, 8), rs.randn(6, 6), rs.randn(6, 4), rs.randn(4, 6)
C = {
 "irfft axis=0": lambda: grad(lambda x: anp.sum(w85 * anp.fft.irfft(x, axis=0)))(xc),
 "irfft axis=-1": lambda: grad(lambda x: anp.sum(w58 * anp.fft.irfft(x, axis=-1)))(xc),
 "irfft axis=0 norm=ortho": lambda: grad(lambda x: anp.sum(w85 * anp.fft.irfft(x, axis=0, norm="ortho")))(xc),
 "rfft axis=0": lambda: grad(lambda x: anp.sum(w46 * anp.real(anp.fft.rfft(x, axis=0))))(xr),
 "rfft axis=1": lambda: grad(lambda x: anp.sum(w64 * anp.real(anp.fft.rfft(x, axis=1))))(xr),
 "rfft2 axes=(0,1)": lambda: grad(lambda x: anp.sum(w64 * anp.imag(anp.fft.rfft2(x, axes=(0, 1)))))(xr),
 "rfft2 axes=(1,0)": lambda: grad(lambda x: anp.sum(w46 * anp.imag(anp.fft.rfft2(x, axes=(1, 0)))))(xr),
 "fft axis=0": lambda: grad(lambda x: anp.sum(w66 * anp.real(anp.fft.fft(x, axis=0))))(xr),
 "fft axis=1": lambda: grad(lambda x: anp.sum(w66 * anp.real(anp.fft.fft(x, axis=1))))(xr),
 "cumsum axis=0": lambda: grad(lambda x: anp.sum(w66 * anp.cumsum(x, axis=0)))(xr),
 "cumsum axis=1": lambda: grad(lambda x: anp.sum(w66 * anp.cumsum(x, axis=1)))(xr),
 "sort axis=0": lambda: grad(lambda x: anp.sum(w66 * anp.sort(x, axis=0)))(xr),
 "sort axis=1": lambda: grad(lambda x: anp.sum(w66 * anp.sort(x, axis=1)))(xr),
 "norm axis=0": lambda: grad(lambda x: anp.sum(w66[0] * anp.linalg.norm(x, axis=0)))(xr),
 "norm axis=1": lambda: grad(lambda x: anp.sum(w66[0] * anp.linalg.norm(x, axis=1)))(xr),
 "repeat axis=0": lambda: grad(lambda x: anp.sum(anp.repeat(x, 2, axis=0)[::2] * w66))(xr),
 "repeat axis=1": lambda: grad(lambda x: anp.sum(anp.repeat(x, 2, axis=1)[:, ::2] * w66))(xr),
 "einsum ij,jk": lambda: grad(lambda x: anp.sum(anp.einsum("ij,jk->ik", x, w66)))(xr),
 "einsum ij,kj": lambda: grad(lambda x: anp.sum(anp.einsum("ij,kj->ik", x, w66)))(xr),
 "tensordot axes=1": lambda: grad(lambda x: anp.sum(anp.tensordot(x, w66, 1)))(xr),
 "tensordot axes=([0],[0])": lambda: grad(lambda x: anp.sum(anp.tensordot(x, w66, ([0], [0])) * w66))(xr),
 "max axis=0 (fwd)": lambda: make_jvp(lambda x: anp.max(x, axis=0))(xr)(w66)[1],
 "max axis=1 (fwd)": lambda: make_jvp(lambda x: anp.max(x, axis=1))(xr)(w66)[1],
 "pad mode=constant": lambda: grad(lambda x: anp.sum(anp.pad(x, 1, mode="constant")[1:-1, 1:-1] * w66))(xr),
 "roll axis=0": lambda: grad(lambda x: anp.sum(anp.roll(x, 1, axis=0) * w66))(xr),
 "roll axis=1": lambda: grad(lambda x: anp.sum(anp.roll(x, 1, axis=1) * w66))(xr),
}
names = sys.argv[1].split("|")
res = {}
for n_ in names:
    try:
        r = onp.asarray(C[n_]())
        res[n_] = [str(r.dtype), list(r.shape), [repr(complex(t)) for t in r.ravel()]]
    except Exception as e:
        res[n_] = "raised " + type(e).__name__
print(json.dumps(res))
"""
    import re as _re
    rule_names = _re.findall(r'^ "([^"]+)": lambda', RULEPROG, _re.M)

    def runrules(names):
        r = subprocess.run([sys.executable, "-c", RULEPROG, "|".join(names)], capture_output=True, text=True, timeout=300)
        try:
            return json.loads(r.stdout.strip().splitlines()[-1])
        except Exception:
            return {"process": "failed: " + r.stderr[-300:]}
    fwd_order, rev_order = runrules(rule_names), runrules(list(reversed(rule_names)))
    alone = {n_: runrules([n_]).get(n_) for n_ in rule_names[:: (1 if cfg.get("tier") == "thorough" else 3)]}
    out["n"] += len(rule_names)
    for n_ in rule_names:
        out["keys"].append("rule-history|" + n_)
        variants = {"in listed order": fwd_order.get(n_), "in reverse order": rev_order.get(n_)}
        if n_ in alone:
            variants["alone in a fresh interpreter"] = alone[n_]
        vals = list(variants.values())
        if any(v != vals[0] for v in vals[1:]) or vals[0] is None:
            out["bad"].append({"operator": "gradient of %s" % n_, "fault": "other configurations of the same primitive differentiated earlier in the process",
                               "problems": ["%s: %s" % (k_, str(v_)[:160]) for k_, v_ in variants.items()], "site": {"oracle": "operator-history"}})
    # ---- one pull-back (and one push-forward) object, called again after other differentiations: the same answer ----
    from autograd import make_vjp as _mv9, make_jvp as _mj9
    x66 = onp.arange(36.0).reshape(6, 6) / 7.0 + onp.eye(6)
    w66_ = onp.cos(onp.arange(36.0)).reshape(6, 6)
    reuse = {"gradient": lambda z: anp.gradient(z)[0] * w66_, "gradient axis=1": lambda z: anp.gradient(z, axis=1) * w66_,
             "pad": lambda z: anp.pad(z, 1, mode="constant"), "sort": lambda z: anp.sort(z, axis=0), "cumsum": lambda z: anp.cumsum(z, axis=1),
             "einsum": lambda z: anp.einsum("ij,jk->ik", z, w66_), "tensordot": lambda z: anp.tensordot(z, w66_, ([0], [1])),
             "fft": lambda z: anp.real(anp.fft.fft(z, axis=0)), "rfft": lambda z: anp.real(anp.fft.rfft(z, axis=1)), "roll": lambda z: anp.roll(z, 2, axis=1),
             "repeat": lambda z: anp.repeat(z, 2, axis=0), "max": lambda z: anp.max(z, axis=1), "concatenate": lambda z: anp.concatenate([z, 2.0 * z], axis=1),
             "diff": lambda z: anp.diff(z, axis=0), "norm": lambda z: anp.linalg.norm(z, axis=0), "solve": lambda z: anp.linalg.solve(z, w66_)}
    for nm_, f_ in reuse.items():
        out["n"] += 1
        out["keys"].append("pullback-reuse|" + nm_)
        try:
            pull, y_ = _mv9(f_)(x66)
            g_ = onp.sin(onp.arange(onp.size(y_), dtype=float)).reshape(onp.shape(y_))
            r1 = onp.array(pull(g_))
            _mv9(lambda z: anp.sum(f_(z * 2.0)))(x66)[0](1.0)          # an unrelated differentiation through the same primitive
            r2 = onp.array(pull(g_))
            r3 = onp.array(pull(2.0 * g_)) / 2.0
            push = _mj9(f_)(x66)
            t1 = onp.array(push(w66_)[1])
            t2 = onp.array(push(w66_)[1])
            if not (onp.array_equal(r1, r2) and onp.allclose(r1, r3, rtol=1e-12, atol=1e-12) and onp.array_equal(t1, t2)):
                out["bad"].append({"operator": "pull-back / push-forward of %s called again" % nm_, "fault": "second call after another differentiation",
                                   "problems": ["first call %s..., second %s..., half of the call with 2g %s..." % (r1.ravel()[:3].tolist(), r2.ravel()[:3].tolist(), r3.ravel()[:3].tolist())],
                                   "site": {"oracle": "operator-history"}})
        except NotImplementedError:
            pass
        except Exception as ex:
            out["bad"].append({"operator": "pull-back / push-forward of %s called again" % nm_, "fault": "repeated call", "problems": ["raised %r" % (ex,)], "site": {"oracle": "operator-history"}})
    # ---- short-lived function objects: an operator applied to a function that is garbage-collected right away, many
    #      times over, with functions of other signatures in between (object ids are reused): every answer is the one a
    #      fresh interpreter gives ----
    from autograd.differential_operators import grad_named as _gn, value_and_grad as _vg, jacobian as _jac2
    canaries2 = {
        "grad_named(lambda y, x: x*y**3, 'y')": (lambda: float(_gn(lambda y, x: x * y ** 3, "y")(3.0, 2.0)), 54.0),
        "grad_named(lambda x, y: x*y**3, 'y')": (lambda: float(_gn(lambda x, y: x * y ** 3, "y")(2.0, 3.0)), 54.0),
        "grad(lambda y, x: x*y**3, 1)": (lambda: float(grad(lambda y, x: x * y ** 3, 1)(3.0, 2.0)), 27.0),
        "value_and_grad(lambda a, b, c: a*b*c, 2)": (lambda: [float(t) for t in _vg(lambda a, b, c: a * b * c, 2)(2.0, 3.0, 5.0)], [30.0, 6.0]),
        "jacobian(lambda u, v: u*v, 1)": (lambda: onp.asarray(_jac2(lambda u, v: u * v, 1)(onp.array([1.0, 2.0]), onp.array([3.0, 4.0]))).tolist(), [[1.0, 0.0], [0.0, 2.0]]),
    }
    out["n"] += 1
    out["keys"].append("short-lived-functions-history")
    probs2 = []
    for k_ in range(120):
        for unrelated in (lambda: _gn(lambda x, y, k=k_: x * y ** 3 + k, "x")(2.0, 3.0), lambda: _gn(lambda p, q, r, k=k_: p * q + r * k, "r")(1.0, 2.0, 3.0),
                          lambda: grad(lambda s, t, k=k_: s * t + k, 1)(2.0, 3.0)):
            try:
                unrelated()
            except Exception:
                pass
        for nm_, (th_, want_) in canaries2.items():
            try:
                got_ = th_()
            except Exception as ex:
                got_ = "raised %r" % (ex,)
            if got_ != want_:
                probs2.append("%s after %d rounds of unrelated calls on short-lived functions: %r, a fresh interpreter gives %r" % (nm_, k_ + 1, got_, want_))
        if probs2:
            break
    if probs2:
        out["bad"].append({"operator": "operators applied to short-lived function objects", "fault": "history of unrelated calls", "problems": probs2[:3],
                           "site": {"oracle": "operator-history"}})
    repeat_outcomes("at the end, after every history above")
    # ---- a tracer that outlived its differentiation, used later as a plain constant ----
    for mode in ("rev", "fwd"):
        leak = []

        def leaky(z):
            leak.append(z)
            return anp.sum(z * z)
        (grad(leaky) if mode == "rev" else (lambda a: make_jvp(leaky)(a)(a)))(onp.array([1.0, 2.0]))
        stale = leak[0]
        out["n"] += 1
        out["keys"].append("stale-tracer|" + mode)
        try:
            r1 = grad(lambda y: anp.sum(y * y))(onp.array([3.0, 4.0]))            # an unrelated later differentiation
            probs = []
            if onp.asarray(r1).tolist() != [6.0, 8.0]:
                probs.append("a differentiation after a leaked tracer returns %r" % (onp.asarray(r1).tolist(),))
            try:
                r2 = grad(lambda y: anp.sum(y * 2.0) + 0.0 * anp.sum(tracer.getval(stale)))(onp.array([3.0, 4.0]))
                if onp.asarray(r2).tolist() != [2.0, 2.0]:
                    probs.append("using the VALUE of a leaked tracer changed a later gradient: %r" % (onp.asarray(r2).tolist(),))
                r3 = grad(lambda y: anp.sum(y * stale))(onp.array([3.0, 4.0]))             # the stale box itself as a constant
                while tracer.isbox(r3):
                    r3 = r3._value
                if onp.asarray(r3).tolist() != [1.0, 2.0]:
                    probs.append("a leaked tracer used as a constant: gradient %r, expected its value [1.0, 2.0]" % (r3,))
            except Exception:
                pass                                     # refusing a stale tracer loudly is fine
            if probs:
                out["bad"].append({"operator": "stale tracer (%s)" % mode, "fault": "none", "problems": probs,
                                   "site": {"oracle": "operator-history"}})
        except Exception as ex:
            out["bad"].append({"operator": "stale tracer (%s)" % mode, "fault": "none", "problems": ["raised %r" % (ex,)],
                               "site": {"oracle": "operator-history"}})
    print(json.dumps(out, default=str))


if __name__ == "__main__":
    main()
