#!/bin/sh
# Re-run every archived seeded change against its property's check, W workers in parallel, each on its own scratch copy
# of /verif and its own scratch worktree of /repo (nothing is applied to /repo itself):
#   harness/run_all_seeds_par.sh [W] > log
W=${1:-5}
names=${SEEDS:-$(ls /verif/seeded | grep -v README)}
names=$(echo $names | tr " " "\n")
for k in $(seq 1 $W); do
  rm -rf /tmp/sr_$k; mkdir -p /tmp/sr_$k
  rsync -a --exclude .git --exclude build/cases --exclude replays /verif/ /tmp/sr_$k/verif/
  git -C /repo worktree add --detach /tmp/sr_$k/repo HEAD -f >/dev/null 2>&1
done
worker() {
  k=$1; shift
  for n in "$@"; do
    d=/verif/seeded/$n
    [ -f "$d/patch.diff" ] || continue
    if grep -q '"retired"' "$d/meta.json"; then echo "$n: retired (no longer a defect)"; continue; fi
    pid=${n%%-*}
    git -C /tmp/sr_$k/repo apply "$d/patch.diff" 2>/dev/null || { echo "$n: PATCH DOES NOT APPLY"; continue; }
    out=$(cd /tmp/sr_$k/verif && VERIF_REPO=/tmp/sr_$k/repo timeout 1500 ./check "$pid" 2>&1 | grep -c "^VIOLATION property=$pid")
    git -C /tmp/sr_$k/repo checkout -- .
    if [ "$out" -ge 1 ]; then echo "$n: caught by $pid"; else echo "$n: NOT caught by $pid"; fi
  done
}
for k in $(seq 1 $W); do
  mine=$(echo "$names" | awk -v k=$k -v w=$W 'NR % w == k % w')
  worker $k $mine &
done
wait
for k in $(seq 1 $W); do git -C /repo worktree remove --force /tmp/sr_$k/repo 2>/dev/null; rm -rf /tmp/sr_$k; done
git -C /repo worktree prune
