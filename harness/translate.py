"""Translators: regenerate coq/gen/*.v from /repo's working tree.  (Each
translator is added with the property that needs it.)"""
import os
import sys

sys.path.insert(0, os.path.dirname(os.path.dirname(os.path.abspath(__file__))))


def main():
    gen = sys.argv[1]
    os.makedirs(gen, exist_ok=True)
    from harness import translators
    translators.run_all(gen)


if __name__ == "__main__":
    main()
