#!/bin/sh
# usage: harness/try_seed.sh <seed dir containing patch.diff, demo.py> <check ids...>
# applies the change to /repo, confirms tests + demo, runs the checks, and reverts.
d="$1"; shift
cd /repo || exit 2
git apply --check "$d/patch.diff" || { echo "PATCH DOES NOT APPLY"; exit 2; }
git apply "$d/patch.diff"
echo "--- tests with the change:"
timeout 900 /venv/bin/python -m pytest -q -p no:cacheprovider 2>&1 | grep -E "passed|failed" | tail -1
git checkout -q -- coverage.xml 2>/dev/null
echo "--- demo with the change (expect failure):"
( cd /repo && PYTHONPATH=/repo timeout 300 /venv/bin/python "$d/demo.py" >/dev/null 2>&1; echo "demo exit=$?" )
for c in "$@"; do
  echo "--- ./check $c"
  ( cd /verif && timeout 1200 ./check "$c" 2>&1 | cut -c1-260 | tail -4; echo "exit=$?" )
done
cd /repo && git checkout -- . && git status --short | head -3
echo "--- demo without the change (expect success):"
( cd /repo && PYTHONPATH=/repo timeout 300 /venv/bin/python "$d/demo.py" >/dev/null 2>&1; echo "demo exit=$?" )
