"""Implementation side of C10: (A) core.add_outgrads on explicit buffers, with
aliasing, compared with the heap model; (B) whole programs with every input,
constant and cotangent read-only, VJP/JVP functions called repeatedly and in
permuted order, earlier results snapshotted."""
import copy
import json
import random
import sys
import warnings

import numpy as onp
import autograd.numpy as anp
from autograd import make_vjp, make_jvp
from autograd.core import add_outgrads, vspace
from autograd.numpy.numpy_vjps import untake

warnings.simplefilter("ignore")


from autograd.extend import primitive as _prim, defvjp as _defvjp, defjvp as _defjvp  # noqa: E402


@_prim
def fma(a, b, c):
    return a * b + c


_defvjp(fma, lambda ans, a, b, c: lambda g: g * b, lambda ans, a, b, c: lambda g: g * a, lambda ans, a, b, c: lambda g: g)
_defjvp(fma, lambda g, ans, a, b, c: g * b, lambda g, ans, a, b, c: g * a, lambda g, ans, a, b, c: g)


def main():
    cfg = json.load(sys.stdin)
    rng = random.Random(cfg["seed"])
    out = {"cases": [], "oracle_bad": [], "oracle_n": 0, "oracle_keys": [], "dist": {}}

    def dist(k):
        out["dist"][k] = out["dist"].get(k, 0) + 1

    # ---- (A) add_outgrads with explicit buffers ----
    for _ in range(cfg["n"]):
        n = rng.randint(1, 4)
        nb = rng.randint(1, 3)
        bufs = [onp.array([float(rng.randint(-3, 3)) for _ in range(n)]) for _ in range(nb)]
        data_bufs = []
        cs, enc = [], []
        for _k in range(rng.randint(1, 5)):
            if rng.random() < 0.55:
                r = rng.randrange(nb)
                cs.append(bufs[r])
                enc.append(["d", r])
            else:
                m = rng.randint(1, 3)
                sigma = [rng.randrange(n) for _ in range(m)]
                gdat = onp.array([float(rng.randint(-3, 3)) for _ in range(m)])
                data_bufs.append(gdat)
                cs.append(untake(gdat, onp.array(sigma), vspace(bufs[0])))
                enc.append(["s", sigma, nb + len(data_bufs) - 1])
        allbufs = bufs + data_bufs
        before = [b.copy() for b in allbufs]
        prev = None
        for c in cs:
            prev = add_outgrads(prev, c)
        val, flag = prev
        alias = None
        for i, b in enumerate(allbufs):
            if val is b:
                alias = i
        dense_sum = onp.zeros(n)
        for e in enc:
            if e[0] == "d":
                dense_sum = dense_sum + before[e[1]]
            else:
                onp.add.at(dense_sum, onp.array(e[1]), before[e[2]])
        unchanged = all(bool(onp.all(b == b0)) for b, b0 in zip(allbufs, before)) if alias is None else \
            all(bool(onp.all(b == b0)) for b, b0 in zip(allbufs, before))
        ok = unchanged and bool(onp.all(onp.asarray(val) == dense_sum)) and \
            (alias is None or not flag)            # a value flagged mutable must not be someone else's buffer
        dist("contribs=%d" % len(cs))
        dist("first=" + enc[0][0])
        out["cases"].append({"n": n, "bufs": [[int(t) for t in b] for b in before], "cs": enc,
                             "val": [int(t) for t in onp.asarray(val)], "flag": bool(flag), "alias": alias, "ok": bool(ok)})

    # ---- (B) programs: nothing the caller owns is written; vjp/jvp functions are pure ----
    def ro(a):
        a = onp.array(a, float)
        a.setflags(write=False)
        return a
    progs = [
        ("fanout-add", lambda x, c: x + x + c * x),
        ("diamond", lambda x, c: anp.sum((x * c + x) * (x - c)) * x),
        ("indexing-mix", lambda x, c: x[::-1] * c + anp.sum(x[[0, 0, 1]]) + x),
        ("reduce-broadcast", lambda x, c: anp.sum(x, axis=0) * c[0] + anp.mean(x) + x[0]),
        ("matmul", lambda x, c: anp.dot(x, c.T) + anp.dot(x, x.T)),
        ("identity-chain", lambda x, c: (x + 0.0) + x),
        ("where-clip", lambda x, c: anp.where(c > 0, x, c) + anp.clip(x, -1.0, 1.0)),
        ("concat-split", lambda x, c: anp.concatenate([x, c, x]) [1:-1]),
        ("container", lambda x, c: sum([x, c * x][i] for i in range(2)) + x),
        # one primitive call with three traced arguments (the general branch of defvjp)
        ("where-3-traced", lambda x, c: anp.where(x, x * c, x + c) + x),
        ("fma-3-traced", lambda x, c: fma(x, x * c, x + c) + fma(x, x, x)),
        ("fma-chain", lambda x, c: fma(fma(x, c, x), x, fma(x, x, c)) * x),
        # 0-d arrays (mutable, unlike Python scalars): dense and indexed uses of one value, in both orders
        ("zero-d dense-then-indexed", lambda x, c: (x + c) + 3.0 * x[None][0] + x[...]),
        ("zero-d indexed-then-dense", lambda x, c: 3.0 * x[None][0] + x[()] + (x * c + x)),
        ("zero-d fan-out", lambda x, c: (x + x) + x[None, None][0, 0] * c + (x + 0.0)),
        ("zero-d complex dense-dense-indexed", lambda x, c: ((x * (1 + 2j) + c) + (x * 1j)) + 3.0 * (x * (2 - 1j))[()] + (x * (1 + 1j))[None][0]),
    ]
    for rep in range(cfg["n_progs"]):
        name, f = progs[rep % len(progs)]
        shape = () if name.startswith("zero-d") else rng.choice([(3,), (2, 3)]) if name not in ("matmul",) else (2, 3)
        x = ro(float(rng.randint(-3, 3))) if shape == () else \
            ro([[rng.randint(-3, 3) for _ in range(shape[-1])] for _ in range(shape[0])] if len(shape) == 2
               else [rng.randint(-3, 3) for _ in range(shape[0])])
        c = ro(onp.array([rng.randint(1, 3) for _ in range(int(onp.prod(shape)))]).reshape(shape))
        out["oracle_n"] += 1
        out["oracle_keys"].append(name + str(shape) + str(x.tolist()))
        dist("program:" + name)
        try:
            x0, c0 = x.copy(), c.copy()
            vjp, y = make_vjp(lambda z: f(z, c))(x)
            gs = [ro(onp.array([rng.randint(-2, 2) for _ in range(onp.size(y))]).reshape(onp.shape(y))) for _ in range(3)]
            alone = [make_vjp(lambda z: f(z, c))(x)[0](g) for g in gs]
            order = [0, 1, 2, 1, 0, 0, 2]
            rng.shuffle(order)
            results, snaps = [], []
            for i in order:
                r = vjp(gs[i])
                results.append((i, r))
                snaps.append(onp.array(r, copy=True))
            probs = []
            for (i, r), s in zip(results, snaps):
                if not onp.all(onp.asarray(r) == alone[i]):
                    probs.append("a repeated / reordered vjp call returned a different answer")
                if not onp.all(onp.asarray(r) == s):
                    probs.append("a result returned earlier was modified by a later call")
            if not (onp.all(x == x0) and onp.all(c == c0)):
                probs.append("an input or captured constant was modified")
            jvpf = make_jvp(lambda z: f(z, c))(x)
            vs = [ro(onp.array([rng.randint(-2, 2) for _ in range(x.size)]).reshape(x.shape)) for _ in range(2)]
            j_alone = [make_jvp(lambda z: f(z, c))(x)(v)[1] for v in vs]
            for i in (0, 1, 0, 1, 1):
                if not onp.all(onp.asarray(jvpf(vs[i])[1]) == j_alone[i]):
                    probs.append("a repeated jvp call returned a different answer")
            if probs:
                out["oracle_bad"].append({"oracle": "program:" + name, "x": x.tolist(), "problems": sorted(set(probs)),
                                          "site": {"oracle": "purity"}})
        except Exception as ex:
            out["oracle_bad"].append({"oracle": "program:" + name, "x": x.tolist(),
                                      "problems": ["raised (a write into read-only memory raises ValueError): %r" % (ex,)],
                                      "site": {"oracle": "purity"}})
    # ---- (B0) functions obtained once and used later: a JVP / VJP function keeps belonging to the call that made it, whatever
    #      the same operator object is applied to afterwards; results handed back earlier are the caller's to overwrite ----
    try:
        from autograd import make_jvp as _mjo, make_vjp as _mvo, grad as _gro
        fside = lambda z, a_, b_=0.0: anp.sum(a_ * z * z * z) + b_ * z[0]     # noqa: E731
        xa_, va_ = onp.array([0.5, -1.0, 2.0]), onp.array([1.0, 0.5, -2.0])
        for oname, mk, use in (("make_jvp", lambda: _mjo(fside), lambda r: onp.asarray(r(va_)[1])), ("make_vjp", lambda: _mvo(fside), lambda r: onp.asarray(r[0](2.0)))):
            out["oracle_n"] += 1
            out["oracle_keys"].append("operator-object-reuse:" + oname)
            dist("program:operator-object-reuse")
            op = mk()
            params = [2.0, 5.0, -1.0]
            fresh = [use(mk()(xa_, a_)) for a_ in params]
            held = [op(xa_, a_) for a_ in params]
            op(xa_ * 2.0, 7.0, b_=3.0)
            later = [use(h_) for h_ in held]
            again = [use(h_) for h_ in held[::-1]][::-1]
            if not all(onp.all(l_ == f_) and onp.all(g_ == f_) for l_, g_, f_ in zip(later, again, fresh)):
                out["oracle_bad"].append({"oracle": "operator-object-reuse:" + oname, "problems": ["a function returned by %s(f)(x, a) gives %s after the operator was applied elsewhere; a fresh one gives %s" % (
                    oname, [l_.tolist() for l_ in later], [f_.tolist() for f_ in fresh])], "site": {"oracle": "purity"}})
        for nm, fz, x0_, g0_ in (("independent of the input", lambda z: onp.ones(2) * 3.0, onp.array([1.0, 2.0, 3.0]), onp.ones(2)),
                                 ("independent, container argument", lambda z: 5.0, {"a": onp.array([1.0, 2.0]), "b": 2.0}, 1.0),
                                 ("dependent", lambda z: z * 2.0, onp.array([1.0, 2.0, 3.0]), onp.ones(3))):
            out["oracle_n"] += 1
            out["oracle_keys"].append("returned-result-is-the-callers:" + nm)
            dist("program:returned-results")
            vj_, _ = _mvo(fz)(x0_)
            first = vj_(g0_)
            snap1 = json.dumps(first, default=lambda a: onp.asarray(a).tolist())
            leaves_ = list(first.values()) if isinstance(first, dict) else [first]
            for lf in leaves_:
                if isinstance(lf, onp.ndarray) and lf.flags.writeable:
                    lf += 7.0                                  # the caller accumulates into what it was given
            second = vj_(g0_)
            if json.dumps(second, default=lambda a: onp.asarray(a).tolist()) != snap1:
                out["oracle_bad"].append({"oracle": "returned-result-is-the-callers:" + nm, "problems": ["after the caller wrote into an earlier result the same VJP function returns %s instead of %s" % (
                    json.dumps(second, default=lambda a: onp.asarray(a).tolist()), snap1)], "site": {"oracle": "purity"}})
    except Exception as ex:
        out["oracle_bad"].append({"oracle": "operator-object-reuse", "problems": ["raised %r" % (ex,)], "site": {"oracle": "purity"}})
    # ---- (B') the optimisers built on grad: the caller's starting point and the parameters handed to earlier callbacks
    #      are not written later ----
    try:
        from autograd.misc.optimizers import sgd, rmsprop, adam
        from autograd import grad as _gr
        for oname, opt in (("sgd", sgd), ("rmsprop", rmsprop), ("adam", adam)):
            for x0 in (onp.array([1.0, -2.0, 0.5]), [onp.array([1.0, -2.0]), onp.array([[0.5]])], {"a": onp.array([1.0, -2.0]), "b": 0.5}):
                out["oracle_n"] += 1
                out["oracle_keys"].append("optimizer:%s:%s" % (oname, type(x0).__name__))
                dist("program:optimizer")
                snap = json.dumps(x0, default=lambda a: onp.asarray(a).tolist())
                seen = []

                def loss(p_, i_):
                    leaves = [p_] if isinstance(p_, onp.ndarray) or hasattr(p_, "_value") and not isinstance(p_._value, (list, dict)) else                         (list(p_.values()) if isinstance(getattr(p_, "_value", p_), dict) else list(p_))
                    return sum(anp.sum(l_ * l_) for l_ in leaves)

                def cb(p_, i_, g_):
                    seen.append((p_, json.dumps(p_, default=lambda a: onp.asarray(a).tolist())))
                opt(_gr(loss), x0, callback=cb, num_iters=4, step_size=0.1)
                probs = []
                if json.dumps(x0, default=lambda a: onp.asarray(a).tolist()) != snap:
                    probs.append("%s modified the starting point it was given" % oname)
                if any(json.dumps(p_, default=lambda a: onp.asarray(a).tolist()) != s_ for p_, s_ in seen):
                    probs.append("%s later modified parameters it had handed to a callback" % oname)
                if probs:
                    out["oracle_bad"].append({"oracle": "optimizer:" + oname, "x": snap, "problems": probs, "site": {"oracle": "purity"}})
    except Exception as ex:
        out["oracle_bad"].append({"oracle": "optimizer", "problems": ["raised %r" % (ex,)], "site": {"oracle": "purity"}})
    # ---- (C) random polynomial DAGs over arrays: every accumulation order and sharing pattern ----
    from autograd.builtins import tuple as atuple, list as alist
    for rep in range(cfg.get("n_dags", 0)):
        n_leaf = 3
        x = ro([rng.randint(-2, 2) for _ in range(n_leaf)])
        consts = [ro([rng.randint(1, 3) for _ in range(n_leaf)]) for _ in range(2)]
        plan = []
        n_nodes = rng.randint(4, 9)
        for i in range(n_nodes):
            kind = rng.choice(["add", "add", "mul", "sq", "cube", "scale", "fma", "fma", "zero", "inactive", "masked", "pass", "index", "index", "pick"])
            a = rng.randrange(-1, i) if i else -1          # -1 = the input itself
            b = rng.randrange(-1, i) if i else -1
            plan.append((kind, a, b, rng.randrange(2)))
        terms = [rng.randrange(n_nodes) for _ in range(rng.randint(2, 5))]
        assoc_left = rng.random() < 0.5

        def f(z, plan=plan, terms=terms, assoc_left=assoc_left, consts=consts):
            vals = []
            get = lambda j: z if j < 0 else vals[j]  # noqa: E731
            for kind, a, b, c in plan:
                if kind == "add":
                    vals.append(get(a) + get(b))
                elif kind == "mul":
                    vals.append(get(a) * get(b))
                elif kind == "fma":
                    vals.append(fma(get(a), get(b), get(a if c else b)))
                elif kind == "zero":            # consumers whose cotangent contribution is zero in every entry
                    vals.append(get(a) * 0.0 + get(b))
                elif kind == "inactive":
                    vals.append(anp.maximum(get(a), 2.0 ** 45) - 2.0 ** 45 + get(b))
                elif kind == "masked":
                    vals.append(anp.where(onp.array([c == 1, False, False]), get(a), get(b)))
                elif kind == "pass":            # consumers that hand their cotangent on unchanged (the same array object)
                    vals.append(anp.reshape(get(a), (3,)) + 0.0)
                elif kind == "index":           # a sparse (indexed) contribution next to dense ones for the same value
                    vals.append(get(b) + 3.0 * get(a)[c + 1])
                elif kind == "pick":
                    vals.append(get(a)[onp.array([0, 0, 2])] + get(b)[::-1])
                elif kind == "sq":
                    vals.append(get(a) ** 2)
                elif kind == "cube":
                    vals.append(get(a) ** 3)
                else:
                    vals.append(get(a) * consts[c])
            ts = [vals[t] for t in terms]
            acc = ts[0]
            for t in (ts[1:] if assoc_left else ts[1:][::-1]):
                acc = (acc + t) if assoc_left else (t + acc)
            return acc
        out["oracle_n"] += 1
        out["oracle_keys"].append("dag" + str(plan) + str(terms))
        dist("program:random-dag")
        try:
            y = f(x)
            if not onp.all(onp.abs(y) < 2 ** 40):
                continue
            g = ro([rng.randint(-2, 2) for _ in range(n_leaf)])
            if cfg.get("writable"):
                g = onp.array(g)              # an ordinary array: an illegal write goes through silently and must show in the results
            g0 = onp.array(g)
            v = ro([rng.randint(-2, 2) for _ in range(n_leaf)])
            vjp, _ = make_vjp(f)(x)
            r1 = vjp(g)
            jt = make_jvp(f)(x)(v)[1]
            probs = []
            if not onp.all(g == g0):
                probs.append("the cotangent passed to the VJP function was modified: %r -> %r" % (g0.tolist(), g.tolist()))
                g = onp.array(g0)
            for bi in range(n_leaf):        # the whole gradient, not one direction of it: <g, J e_i> for every basis vector
                e = onp.zeros(n_leaf)
                e[bi] = 1.0
                if float(onp.sum(g0 * make_jvp(f)(x)(e)[1])) != float(onp.asarray(r1)[bi]):
                    probs.append("gradient entry %d is %r, forward mode gives %r" % (bi, float(onp.asarray(r1)[bi]),
                                                                                      float(onp.sum(g0 * make_jvp(f)(x)(e)[1]))))
            if float(onp.sum(g * jt)) != float(onp.sum(onp.asarray(r1) * v)):
                probs.append("<g, jvp v> = %r but <vjp g, v> = %r: the backward accumulation is wrong"
                             % (float(onp.sum(g * jt)), float(onp.sum(onp.asarray(r1) * v))))
            for _ in range(2):
                if not onp.all(onp.asarray(vjp(g)) == onp.asarray(r1)):
                    probs.append("a later call of the same vjp returned a different answer")
            if probs:
                out["oracle_bad"].append({"oracle": "random-dag", "plan": plan, "terms": terms, "x": x.tolist(),
                                          "g": g.tolist(), "problems": probs, "site": {"oracle": "purity"}})
        except Exception as ex:
            out["oracle_bad"].append({"oracle": "random-dag", "plan": plan, "terms": terms, "x": x.tolist(),
                                      "problems": ["raised %r" % (ex,)], "site": {"oracle": "purity"}})
    # ---- (D) container-valued arguments and results: dense and indexed contributions to one container ----
    for rep in range(cfg.get("n_cont", 0)):
        k = rng.randint(2, 3)
        xt = tuple(ro([rng.randint(-2, 2) for _ in range(2)]) for _ in range(k))
        cst = ro([rng.randint(1, 3) for _ in range(2)])
        uses = [rng.choice(["take", "take", "extend", "rextend", "whole", "self", "self"]) for _ in range(rng.randint(2, 5))]
        idxs = [rng.randrange(k) for _ in uses]

        def f(t, uses=uses, idxs=idxs, cst=cst, k=k):
            outs = []
            for u, i in zip(uses, idxs):
                if u == "take":
                    outs.append(t[i] * cst)
                elif u == "extend":
                    outs.append((t + (cst,))[i])
                elif u == "rextend":
                    outs.append(((cst,) + t)[i + 1])
                elif u == "self":
                    outs.append(t)              # the whole container is part of the result
                else:
                    outs.append(atuple([t[j] for j in range(k)])[i])
            return alist(outs)
        out["oracle_n"] += 1
        out["oracle_keys"].append("cont" + str(uses) + str(idxs))
        dist("program:container-mixed")
        try:
            vjp, y = make_vjp(f)(xt)
            g = [tuple(ro([rng.randint(-2, 2) for _ in range(2)]) for _ in range(k)) if u == "self"
                 else ro([rng.randint(-2, 2) for _ in range(2)]) for u in uses]
            g0 = copy.deepcopy(g)
            exp = [onp.zeros(2) for _ in range(k)]
            for u, i, gg in zip(uses, idxs, g0):
                if u == "self":
                    for j in range(k):
                        exp[j] = exp[j] + gg[j]
                else:
                    exp[i] = exp[i] + (gg * cst if u == "take" else gg)
            r1 = vjp(g)
            r2 = vjp(g)
            probs = []
            if not all(onp.all(a == b) for a, b in zip(r1, exp)):
                probs.append("container gradient differs from the leaf-wise sum")
            if not all(onp.all(a == b) for a, b in zip(r1, r2)):
                probs.append("a second call of the same vjp returned a different answer")
            flat = lambda q: [a for e in q for a in (e if isinstance(e, tuple) else (e,))]  # noqa: E731
            if not all(onp.all(a == b) for a, b in zip(flat(g), flat(g0))):
                probs.append("the caller's cotangent was modified")
            if probs:
                out["oracle_bad"].append({"oracle": "container-mixed", "uses": uses, "idxs": idxs, "problems": probs,
                                          "site": {"oracle": "purity"}})
        except Exception as ex:
            out["oracle_bad"].append({"oracle": "container-mixed", "uses": uses, "idxs": idxs,
                                      "problems": ["raised (a write into read-only memory raises ValueError): %r" % (ex,)],
                                      "site": {"oracle": "purity"}})
    print(json.dumps(out))


if __name__ == "__main__":
    main()
