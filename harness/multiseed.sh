#!/bin/sh
# False-alarm guard: quick runs of every check under other seeds, on scratch copies (nothing touches /repo or /verif):
#   harness/multiseed.sh <seed> [<seed> ...]      (one worker per seed)   > log
rm -rf /tmp/ms; mkdir -p /tmp/ms
worker() {
  sd=$1
  mkdir -p /tmp/ms/$sd
  rsync -a --exclude .git --exclude build/cases --exclude replays /verif/ /tmp/ms/$sd/verif/
  git -C /repo worktree add --detach /tmp/ms/$sd/repo HEAD -f >/dev/null 2>&1
  for p in C01 C02 C03 C04 C05 C06 C07 C08 C09 C10 C11 C12 C13 C14 C15 C16 C17 C18 C19 C20; do
    out=$(cd /tmp/ms/$sd/verif && VERIF_REPO=/tmp/ms/$sd/repo VERIF_SEED=$sd timeout 1500 ./check $p 2>&1)
    rc=$?
    echo "seed=$sd $p exit=$rc violations=$(echo "$out" | grep -c '^VIOLATION') $(echo "$out" | grep '^VIOLATION' | head -1 | cut -c1-120)"
  done
  git -C /repo worktree remove --force /tmp/ms/$sd/repo 2>/dev/null; rm -rf /tmp/ms/$sd
}
for sd in "$@"; do worker $sd & done
wait
git -C /repo worktree prune
