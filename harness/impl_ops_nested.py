"""Nested use of every differential operator: an inner operator inside an outer differentiation, the inner function
closing over the outer variable, must give what plain nested grad gives (settled by C08's model correspondence);
values an operator hands back alongside the derivative (value, aux) still carry the outer dependence."""
import json
import random
import sys
import warnings

import numpy as onp
import autograd.numpy as anp
from autograd import (grad, value_and_grad, grad_and_aux, make_vjp, make_jvp, jacobian, elementwise_grad, deriv,
                      hessian, holomorphic_grad, make_hvp, hessian_vector_product, tensor_jacobian_product,
                      vector_jacobian_product, make_ggnvp, grad_named)
from autograd.core import make_vjp as core_vjp, make_jvp as core_jvp

warnings.simplefilter("ignore")


from autograd.extend import primitive as _primitive, defvjp as _defvjp, defjvp as _defjvp  # noqa: E402


@_primitive
def fma3(a, b, c):
    return a * b + c


_defvjp(fma3, lambda ans, a, b, c: lambda g: g * b, lambda ans, a, b, c: lambda g: g * a, lambda ans, a, b, c: lambda g: g)
_defjvp(fma3, lambda g, ans, a, b, c: g * b, lambda g, ans, a, b, c: g * a, lambda g, ans, a, b, c: g)


def poly(rng):
    """p(x, y) = sum c_ij x^i y^j with small integer coefficients"""
    cs = {(i, j): rng.randint(-2, 2) for i in range(3) for j in range(3)}
    cs[(1, 2)] = rng.choice([1, 2, 3])
    f = lambda x, y: sum(c * x ** i * y ** j for (i, j), c in cs.items() if c)  # noqa: E731
    dy = lambda x, y: sum(c * j * x ** i * y ** (j - 1) for (i, j), c in cs.items() if c and j)  # noqa: E731
    dxdy = lambda x, y: sum(c * i * j * x ** (i - 1) * y ** (j - 1) for (i, j), c in cs.items() if c and i and j)  # noqa: E731
    dx = lambda x, y: sum(c * i * x ** (i - 1) * y ** j for (i, j), c in cs.items() if c and i)  # noqa: E731
    return f, dx, dy, dxdy


def main():
    cfg = json.load(sys.stdin)
    rng = random.Random(cfg["seed"])
    out = {"n": 0, "keys": [], "bad": [], "dist": {}}
    outers = {"grad": lambda h, x0: grad(h)(x0), "deriv": lambda h, x0: deriv(h)(x0),
              "value_and_grad": lambda h, x0: value_and_grad(h)(x0)[1], "make_vjp": lambda h, x0: make_vjp(h)(x0)[0](onp.array(1.0)),
              "make_jvp": lambda h, x0: make_jvp(h)(x0)(1.0)[1], "jacobian": lambda h, x0: jacobian(h)(x0),
              "elementwise_grad": lambda h, x0: elementwise_grad(h)(x0)}
    for rep in range(cfg["n"]):
        f, dx, dy, dxdy = poly(rng)
        x0, y0 = float(rng.choice([-2, -1, 1, 2])), float(rng.choice([-2, -1, 1, 2, 3]))
        inners = {
            # name -> (function of x giving d/dy f(x, y) at y0 through that operator, what it equals)
            "grad": (lambda x: grad(lambda y: f(x, y))(y0), dy),
            "deriv": (lambda x: deriv(lambda y: f(x, y))(y0), dy),
            "value_and_grad[1]": (lambda x: value_and_grad(lambda y: f(x, y))(y0)[1], dy),
            "value_and_grad[0]": (lambda x: value_and_grad(lambda y: f(x, y))(y0)[0], f),
            "grad_and_aux[0]": (lambda x: grad_and_aux(lambda y: (f(x, y), x * x))(y0)[0], dy),
            "grad_and_aux[1] aux=f": (lambda x: grad_and_aux(lambda y: (y * x, f(x, y)))(y0)[1], f),
            "grad_and_aux[1] aux=x*x*y0": (lambda x: grad_and_aux(lambda y: (y * x, x * x * y0))(y0)[1], lambda x, y: x * x * y0),
            "make_vjp": (lambda x: make_vjp(lambda y: f(x, y))(y0)[0](1.0), dy),
            "make_vjp value": (lambda x: make_vjp(lambda y: f(x, y))(y0)[1], f),
            "make_jvp": (lambda x: make_jvp(lambda y: f(x, y))(y0)(1.0)[1], dy),
            "make_jvp value": (lambda x: make_jvp(lambda y: f(x, y))(y0)(1.0)[0], f),
            "jacobian": (lambda x: jacobian(lambda y: f(x, y))(y0), dy),
            "elementwise_grad": (lambda x: elementwise_grad(lambda y: f(x, y))(y0), dy),
            "grad argnum=1": (lambda x: grad(f, 1)(x, y0), dy),
            "grad_named": (lambda x: grad_named(lambda a, b: f(a, b), "b")(x, y0), dy),
            "hessian_vector_product": (lambda x: hessian_vector_product(lambda y: f(x, y) * y)(y0, 1.0), None),
            "core make_vjp": (lambda x: core_vjp(lambda y: f(x, y), y0)[0](1.0), dy),
            "core make_jvp": (lambda x: core_jvp(lambda y: f(x, y), y0)(1.0)[1], dy),
            "vector_jacobian_product": (lambda x: vector_jacobian_product(lambda y: f(x, y))(y0, 1.0), dy),
        }
        # an inner function that ignores its own variable but uses the enclosing one: its value still carries the outer dependence
        indep = lambda x, y: 3.0 * x * x + x    # noqa: E731
        inners.update({
            "value_and_grad[0] of a y-independent function": (lambda x: value_and_grad(lambda y: indep(x, 0.0))(y0)[0], indep),
            "make_vjp value of a y-independent function": (lambda x: make_vjp(lambda y: indep(x, 0.0))(y0)[1], indep),
            "make_jvp value of a y-independent function": (lambda x: make_jvp(lambda y: indep(x, 0.0))(y0)(1.0)[0], indep),
            "core make_vjp value of a y-independent function": (lambda x: core_vjp(lambda y: indep(x, 0.0), y0)[1], indep),
            "grad_and_aux aux of a y-independent function": (lambda x: grad_and_aux(lambda y: (y * 1.0, indep(x, 0.0)))(y0)[1], indep),
            "grad of a y-independent function (zero), plus x": (lambda x: grad(lambda y: indep(x, 0.0))(y0) + x * x, lambda x, y: x * x),
            "deriv of a y-independent function (zero), plus x": (lambda x: deriv(lambda y: indep(x, 0.0))(y0) + x * x, lambda x, y: x * x),
        })
        # the outer variable reaches the inner call BY KEYWORD (raise-or-right: a refusal is loud, a dropped dependence is not)
        xs3 = onp.array([1.0, 2.0, 3.0])
        kwcases = {
            # name -> (function of the outer x giving the inner derivative w.r.t. y at y0, d/dx of that in closed form)
            "clip(y*c, a_min=0, a_max=1.25*x*x) in grad": (lambda x: grad(lambda y: anp.sum(anp.clip(y * xs3, a_min=0.0, a_max=1.25 * x * x) * y))(y0),
                                                            lambda x, y: float(onp.sum(onp.where(y * xs3 > 1.25 * x * x, 2.5 * x, 0.0)))),
            "full(fill_value=x*x) in grad": (lambda x: grad(lambda y: anp.sum(anp.full(3, fill_value=x * x) * y * y))(y0), lambda x, y: 12.0 * x * y),
            "full(fill_value=x*x) in deriv": (lambda x: deriv(lambda y: anp.sum(anp.full(3, fill_value=x * x) * y * y))(y0), lambda x, y: 12.0 * x * y),
            "tensordot(b=x*c) in grad": (lambda x: grad(lambda y: anp.tensordot(xs3 * y, b=x * xs3, axes=1) * y)(y0), lambda x, y: 2.0 * y * 14.0),
            "where(c, x=.., y=x*x) in grad": (lambda x: grad(lambda y: anp.sum(anp.where(xs3 > 1.5, xs3 * y, x * x) * y))(y0), lambda x, y: 2.0 * x),
        }
        # a checkpointed function inside the inner differentiation, one of its arguments boxed by the OUTER level
        # (raise-or-right: checkpoint has no forward rule; a silently dropped outer dependence is not allowed)
        from autograd import checkpoint as _ckpt
        cf = _ckpt(f)
        kwcases.update({
            "checkpoint(f)(x, y) in grad": (lambda x: grad(lambda y: cf(x, y))(y0), dxdy),
            "checkpoint(f) with argnum=1": (lambda x: grad(cf, 1)(x, y0), dxdy),
            "checkpoint(f)(x, y) in make_vjp": (lambda x: make_vjp(lambda y: cf(x, y))(y0)[0](1.0), dxdy),
            "checkpoint(f)(x, y) value in value_and_grad": (lambda x: value_and_grad(lambda y: cf(x, y))(y0)[0], dx),
            "checkpoint(f)(x*x, y) in grad": (lambda x: grad(lambda y: cf(x * x, y))(y0), lambda x, y: 2.0 * x * dxdy(x * x, y)),
        })
        for kname, (hk, dk) in kwcases.items():
            for oname, op in outers.items():
                out["n"] += 1
                out["keys"].append("%s in %s" % (kname, oname))
                try:
                    got = float(op(hk, x0))
                except Exception:
                    continue
                want = float(dk(x0, y0))
                if abs(got - want) > 1e-9 * (1 + abs(want)):
                    out["bad"].append({"inner": kname, "outer": oname, "x0": x0, "y0": y0, "got": got, "want": want,
                                       "what": "%s used inside %s: got %r, the derivative is %r" % (kname, oname, got, want),
                                       "site": {"oracle": "nested-operators", "inner": kname}})
        # one primitive call that sees three or more traced arguments of DIFFERENT nesting levels, in every order
        one = onp.ones(1)
        builders = {"array": lambda a, b, c: anp.prod(anp.array([a, b, c])), "stack": lambda a, b, c: anp.prod(anp.stack([a, b, c])),
                    "hstack": lambda a, b, c: anp.prod(anp.hstack([a, b, c])), "concatenate": lambda a, b, c: anp.prod(anp.concatenate([a * one, b * one, c * one])),
                    "einsum": lambda a, b, c: anp.einsum("i,i,i->", a * one, b * one, c * one), "fma": lambda a, b, c: fma3(a, b, c) * c - c * c,
                    "where": lambda a, b, c: anp.where(onp.array(True), a * c, b) * b, "array nested": lambda a, b, c: anp.prod(anp.array([[a, b], [c, 1.0]])),
                    "vstack": lambda a, b, c: anp.prod(anp.vstack([a, b, c]))}
        for bname, bld in builders.items():
            for pat, arrange, tr in (("y,x,y", lambda x, y: (y, x, y), lambda x, y: 2.0 * y * x), ("x,y,x", lambda x, y: (x, y, x), lambda x, y: x * x),
                                     ("y,y,x", lambda x, y: (y, y, x), lambda x, y: 2.0 * y * x), ("x,y,y", lambda x, y: (x, y, y), lambda x, y: 2.0 * y * x)):
                inners["%s(%s) in grad" % (bname, pat)] = ((lambda x, bld=bld, arrange=arrange: grad(lambda y: bld(*arrange(x, y)))(y0)), tr)
                inners["%s(%s) in deriv" % (bname, pat)] = ((lambda x, bld=bld, arrange=arrange: deriv(lambda y: bld(*arrange(x, y)))(y0)), tr)
        for iname, (h, truth) in inners.items():
            for oname, op in outers.items():
                out["n"] += 1
                out["keys"].append("%s in %s" % (iname, oname))
                out["dist"]["nested-operator-pairs"] = out["dist"].get("nested-operator-pairs", 0) + 1
                try:
                    got = float(op(h, x0))
                    if truth is None:
                        want = float(grad(lambda x: grad(grad(lambda y: f(x, y) * y))(y0))(x0))
                    else:
                        # d/dx of the closed form of what the inner expression computes
                        want = float(grad(lambda x: truth(x, y0))(x0))
                    if got != want:
                        out["bad"].append({"inner": iname, "outer": oname, "x0": x0, "y0": y0, "got": got, "want": want,
                                           "what": "%s used inside %s: got %r, the derivative is %r" % (iname, oname, got, want),
                                           "site": {"oracle": "nested-operators", "inner": iname}})
                except Exception as ex:
                    out["bad"].append({"inner": iname, "outer": oname, "x0": x0, "y0": y0,
                                       "what": "%s used inside %s raised %r" % (iname, oname, ex),
                                       "site": {"oracle": "nested-operators", "inner": iname}})
    out["keys"] = sorted(set(out["keys"]))
    print(json.dumps(out))


if __name__ == "__main__":
    main()
