"""Nested use of every differential operator: an inner operator inside an outer differentiation, the inner function
closing over the outer variable, must give what plain nested grad gives (settled by C08's model correspondence);
values an operator hands back alongside the derivative (value, aux) still carry the outer dependence."""
import json
import random
import sys
import warnings

import numpy as onp
import autograd.numpy as anp
from autograd import (grad, value_and_grad, grad_and_aux, make_vjp, make_jvp, jacobian, elementwise_grad, deriv,
                      hessian, holomorphic_grad, make_hvp, hessian_vector_product, tensor_jacobian_product,
                      vector_jacobian_product, make_ggnvp, grad_named)
from autograd.core import make_vjp as core_vjp, make_jvp as core_jvp

warnings.simplefilter("ignore")


def poly(rng):
    """p(x, y) = sum c_ij x^i y^j with small integer coefficients"""
    cs = {(i, j): rng.randint(-2, 2) for i in range(3) for j in range(3)}
    cs[(1, 2)] = rng.choice([1, 2, 3])
    f = lambda x, y: sum(c * x ** i * y ** j for (i, j), c in cs.items() if c)  # noqa: E731
    dy = lambda x, y: sum(c * j * x ** i * y ** (j - 1) for (i, j), c in cs.items() if c and j)  # noqa: E731
    dxdy = lambda x, y: sum(c * i * j * x ** (i - 1) * y ** (j - 1) for (i, j), c in cs.items() if c and i and j)  # noqa: E731
    dx = lambda x, y: sum(c * i * x ** (i - 1) * y ** j for (i, j), c in cs.items() if c and i)  # noqa: E731
    return f, dx, dy, dxdy


def main():
    cfg = json.load(sys.stdin)
    rng = random.Random(cfg["seed"])
    out = {"n": 0, "keys": [], "bad": [], "dist": {}}
    outers = {"grad": lambda h, x0: grad(h)(x0), "deriv": lambda h, x0: deriv(h)(x0),
              "value_and_grad": lambda h, x0: value_and_grad(h)(x0)[1], "make_vjp": lambda h, x0: make_vjp(h)(x0)[0](1.0),
              "make_jvp": lambda h, x0: make_jvp(h)(x0)(1.0)[1], "jacobian": lambda h, x0: jacobian(h)(x0),
              "elementwise_grad": lambda h, x0: elementwise_grad(h)(x0)}
    for rep in range(cfg["n"]):
        f, dx, dy, dxdy = poly(rng)
        x0, y0 = float(rng.choice([-2, -1, 1, 2])), float(rng.choice([-2, -1, 1, 2, 3]))
        inners = {
            # name -> (function of x giving d/dy f(x, y) at y0 through that operator, what it equals)
            "grad": (lambda x: grad(lambda y: f(x, y))(y0), dy),
            "deriv": (lambda x: deriv(lambda y: f(x, y))(y0), dy),
            "value_and_grad[1]": (lambda x: value_and_grad(lambda y: f(x, y))(y0)[1], dy),
            "value_and_grad[0]": (lambda x: value_and_grad(lambda y: f(x, y))(y0)[0], f),
            "grad_and_aux[0]": (lambda x: grad_and_aux(lambda y: (f(x, y), x * x))(y0)[0], dy),
            "grad_and_aux[1] aux=f": (lambda x: grad_and_aux(lambda y: (y * x, f(x, y)))(y0)[1], f),
            "grad_and_aux[1] aux=x*x*y0": (lambda x: grad_and_aux(lambda y: (y * x, x * x * y0))(y0)[1], lambda x, y: x * x * y0),
            "make_vjp": (lambda x: make_vjp(lambda y: f(x, y))(y0)[0](1.0), dy),
            "make_vjp value": (lambda x: make_vjp(lambda y: f(x, y))(y0)[1], f),
            "make_jvp": (lambda x: make_jvp(lambda y: f(x, y))(y0)(1.0)[1], dy),
            "make_jvp value": (lambda x: make_jvp(lambda y: f(x, y))(y0)(1.0)[0], f),
            "jacobian": (lambda x: jacobian(lambda y: f(x, y))(y0), dy),
            "elementwise_grad": (lambda x: elementwise_grad(lambda y: f(x, y))(y0), dy),
            "grad argnum=1": (lambda x: grad(f, 1)(x, y0), dy),
            "grad_named": (lambda x: grad_named(lambda a, b: f(a, b), "b")(x, y0), dy),
            "hessian_vector_product": (lambda x: hessian_vector_product(lambda y: f(x, y) * y)(y0, 1.0), None),
            "core make_vjp": (lambda x: core_vjp(lambda y: f(x, y), y0)[0](1.0), dy),
            "core make_jvp": (lambda x: core_jvp(lambda y: f(x, y), y0)(1.0)[1], dy),
            "vector_jacobian_product": (lambda x: vector_jacobian_product(lambda y: f(x, y))(y0, 1.0), dy),
        }
        for iname, (h, truth) in inners.items():
            for oname, op in outers.items():
                out["n"] += 1
                out["keys"].append("%s in %s" % (iname, oname))
                out["dist"]["nested-operator-pairs"] = out["dist"].get("nested-operator-pairs", 0) + 1
                try:
                    got = float(op(h, x0))
                    if truth is None:
                        want = float(grad(lambda x: grad(grad(lambda y: f(x, y) * y))(y0))(x0))
                    else:
                        # d/dx of the closed form of what the inner expression computes
                        want = float(grad(lambda x: truth(x, y0))(x0))
                    if got != want:
                        out["bad"].append({"inner": iname, "outer": oname, "x0": x0, "y0": y0, "got": got, "want": want,
                                           "what": "%s used inside %s: got %r, the derivative is %r" % (iname, oname, got, want),
                                           "site": {"oracle": "nested-operators", "inner": iname}})
                except Exception as ex:
                    out["bad"].append({"inner": iname, "outer": oname, "x0": x0, "y0": y0,
                                       "what": "%s used inside %s raised %r" % (iname, oname, ex),
                                       "site": {"oracle": "nested-operators", "inner": iname}})
    out["keys"] = sorted(set(out["keys"]))
    print(json.dumps(out))


if __name__ == "__main__":
    main()
