"""Regenerates MANIFEST.json from the per-property modules (single source)."""
import importlib
import json
import os
import sys

ROOT = os.path.dirname(os.path.dirname(os.path.abspath(__file__)))
sys.path.insert(0, ROOT)
ALL = ["C%02d" % i for i in range(1, 21)]


def main():
    checks, na = [], []
    for pid in ALL:
        try:
            mod = importlib.import_module("harness.props." + pid.lower())
        except ModuleNotFoundError:
            na.append({"property_id": pid, "reason": "check not built yet (machine-checked proof is applicable; see DESIGN.md section 4); not claimed"})
            continue
        if getattr(mod, "NOT_APPLICABLE", None):
            na.append({"property_id": pid, "reason": mod.NOT_APPLICABLE})
            continue
        checks.append({
            "property_id": pid,
            "quick_cmd": "./check %s --tier quick" % pid,
            "thorough_cmd": "./check %s --tier thorough" % pid,
            "evidence_file": "/verif/evidence/%s.json" % pid,
            "replay_cmd_template": "./check %s --replay {path}" % pid,
            "engine": "coq-model+correspondence",
            "level_claimed": {"category": "proof", "text": mod.LEVEL_TEXT, "design_ref": mod.DESIGN_REF},
            "level_note": mod.LEVEL_NOTE,
            "technique": mod.TECHNIQUE,
        })
    man = {
        "version": 1,
        "setup_cmd": "./setup.sh",
        "hooks": {"guard": "HIPS_AUTOGRAD_VERIF", "enable": "no source hooks are needed: every observation goes through public API (autograd.extend, util.toposort(parents=...), Box attributes); checks export HIPS_AUTOGRAD_VERIF=1 for uniformity",
                  "baseline_off_cmd": "cd /repo && /venv/bin/python -m pytest -ra -q -p no:cacheprovider --timeout=900 --continue-on-collection-errors",
                  "source_commits": [], "add_only": True},
        "engines": [{"name": "coq-model+correspondence", "path": "/verif/coq",
                     "serves_properties": [c["property_id"] for c in checks],
                     "kind_free_text": "Coq 8.16.1 development (models + theorems) tied to /repo by ast/introspection translators (coq/gen, regenerated every run) and by differential correspondence runs (model evaluated with vm_compute inside coqc vs the real autograd)"}],
        "checks": checks,
        "not_applicable": na,
        "notes": "See DESIGN.md. Every check: regenerate coq/gen from /repo, incremental make, recompile Props/<id>.v capturing Print Assumptions, audit (no Admitted/Axiom/...), correspondence run, hunt on breakage, known_findings.json, evidence.",
    }
    with open(os.path.join(ROOT, "MANIFEST.json"), "w") as f:
        json.dump(man, f, indent=1)
    print("checks:", [c["property_id"] for c in checks])


if __name__ == "__main__":
    main()
