"""Translator for three small pieces of the engine whose shape the hand-written model depends on:

  * core.add_outgrads        -> its decision table (previous? mutable? sparse?) -> (action, owned flag)
  * tracer.find_top_boxed_args -> the initial top trace and the two comparisons that decide which boxes are on top
  * tracer.TraceStack.new_trace -> which id supply it implements (an increasing supply / a depth counter)

Fail-closed: the AST has to match the expected skeleton exactly; anything else raises, which the check reports as a broken
tie (and then hunts for a failing input).  Output: coq/gen/GenEngine.v; Engine/EngineTie.v proves the model equal to it."""
import ast
import os


class Mismatch(Exception):
    pass


def need(cond, what):
    if not cond:
        raise Mismatch(what)


def fun_def(tree, name, cls=None):
    body = tree.body
    if cls:
        cs = [n for n in body if isinstance(n, ast.ClassDef) and n.name == cls]
        need(len(cs) == 1, "class %s not found" % cls)
        body = cs[0].body
    fs = [n for n in body if isinstance(n, ast.FunctionDef) and n.name == name]
    need(len(fs) == 1, "function %s not found" % name)
    return fs[0]


def src(node):
    return ast.unparse(node)


def code(body):
    """the statements of a function body without its docstring (comments are not in the AST anyway)"""
    return [n for n in body if not (isinstance(n, ast.Expr) and isinstance(n.value, ast.Constant) and isinstance(n.value.value, str))]


# ------------------------------------------------------------------------------------------------ add_outgrads ----
def leaf_action(stmts, env):
    """normalise the statements of one leaf of the decision tree to (action, flag)"""
    stmts = list(stmts)
    copied = False
    if len(stmts) == 2:
        a = stmts[0]
        need(isinstance(a, ast.Assign) and src(a) == "prev_g_mutable = vs.mut_add(None, prev_g)", "unexpected statement %r" % src(a))
        copied = True
        stmts = stmts[1:]
    need(len(stmts) == 1 and isinstance(stmts[0], ast.Return), "leaf is not a single return")
    r = stmts[0].value
    need(isinstance(r, ast.Tuple) and len(r.elts) == 2 and isinstance(r.elts[1], ast.Constant) and isinstance(r.elts[1].value, bool),
         "leaf does not return (value, flag)")
    val, flag = src(r.elts[0]), r.elts[1].value
    table = {
        "sparse_add(vs, prev_g, g)": "AoSparseInto",
        "vs.mut_add(prev_g, g)": "AoMutAdd",
        "sparse_add(vs, prev_g_mutable, g)": "AoSparseIntoCopy",
        "vs.add(prev_g, g)": "AoAdd",
        "sparse_add(vspace(g), None, g)": "AoSparseIntoZeros",
        "g": "AoPass",
    }
    need(val in table, "unknown leaf expression %r" % val)
    act = table[val]
    need((act == "AoSparseIntoCopy") == copied, "the fresh copy and its use do not go together")
    return act, flag


def if_else(node, cond):
    need(isinstance(node, ast.If) and src(node.test) == cond and node.orelse, "expected `if %s: ... else: ...`" % cond)
    return node.body, node.orelse


def tr_add_outgrads(tree):
    f = fun_def(tree, "add_outgrads")
    need([a.arg for a in f.args.args] == ["prev_g_flagged", "g"], "add_outgrads signature")
    body = [n for n in f.body if not (isinstance(n, ast.Expr) and isinstance(n.value, ast.Constant))]
    need(len(body) == 2 and src(body[0]) == "sparse = type(g) in sparse_object_types", "first statement of add_outgrads")
    yes, no = if_else(body[1], "prev_g_flagged")
    need(len(yes) == 3 and src(yes[0]) == "vs = vspace(g)" and src(yes[1]) == "(prev_g, mutable) = prev_g_flagged"
         or len(yes) == 3 and src(yes[0]) == "vs = vspace(g)" and src(yes[1]) == "prev_g, mutable = prev_g_flagged", "prologue of the `previous` branch")
    mut, nomut = if_else(yes[2], "mutable")
    rows = {}
    for (mname, stm) in (("true", mut), ("false", nomut)):
        need(len(stm) == 1, "branch on `mutable` has extra statements")
        sp, de = if_else(stm[0], "sparse")
        rows[("true", mname, "true")] = leaf_action(sp, None)
        rows[("true", mname, "false")] = leaf_action(de, None)
    need(len(no) == 1, "the `no previous` branch has extra statements")
    sp, de = if_else(no[0], "sparse")
    for mname in ("true", "false"):
        rows[("false", mname, "true")] = leaf_action(sp, None)
        rows[("false", mname, "false")] = leaf_action(de, None)
    return rows


# ----------------------------------------------------------------------------------------- find_top_boxed_args ----
def tr_find_top(tree):
    f = fun_def(tree, "find_top_boxed_args")
    fb = code(f.body)
    text = [src(n) for n in fb]
    need(len(fb) == 5, "find_top_boxed_args has %d statements" % len(fb))
    need(isinstance(fb[0], ast.Assign) and src(fb[0].targets[0]) == "top_trace", "first statement initialises top_trace")
    init = ast.literal_eval(fb[0].value)
    need(isinstance(init, int), "top_trace initial value")
    need(text[1] == "top_boxes = []" and text[2] == "top_node_type = None", "initialisation of top_boxes / top_node_type")
    loop = fb[3]
    need(isinstance(loop, ast.For) and src(loop.target) == "(argnum, arg)" and src(loop.iter) == "enumerate(args)" and len(loop.body) == 1, "the loop over the arguments")
    g = loop.body[0]
    need(isinstance(g, ast.If) and src(g.test) == "isbox(arg)" and not g.orelse and len(g.body) == 2, "the isbox guard")
    need(src(g.body[0]) == "trace = arg._trace", "trace = arg._trace")
    c = g.body[1]
    need(isinstance(c, ast.If) and isinstance(c.test, ast.Compare) and src(c.test.left) == "trace" and src(c.test.comparators[0]) == "top_trace", "first comparison")
    op1 = type(c.test.ops[0]).__name__
    need([src(n) for n in c.body] == ["top_boxes = [(argnum, arg)]", "top_trace = trace", "top_node_type = type(arg._node)"], "body of the `new top` branch")
    need(len(c.orelse) == 1 and isinstance(c.orelse[0], ast.If) and not c.orelse[0].orelse, "the elif")
    e = c.orelse[0]
    need(isinstance(e.test, ast.Compare) and src(e.test.left) == "trace" and src(e.test.comparators[0]) == "top_trace", "second comparison")
    op2 = type(e.test.ops[0]).__name__
    need([src(n) for n in e.body] == ["top_boxes.append((argnum, arg))"], "body of the `same trace` branch")
    need(text[4] == "return (top_boxes, top_trace, top_node_type)", "return statement")
    return init, op1, op2


# --------------------------------------------------------------------------------------------------- new_trace ----
def tr_supply(tree):
    f = fun_def(tree, "new_trace", cls="TraceStack")
    body = [n for n in f.body if not (isinstance(n, ast.Expr) and isinstance(n.value, ast.Constant))]
    text = [src(n) for n in body]
    if text == ["t = next(self._ids)", "self.top = t", "yield t"]:
        init = fun_def(tree, "__init__", cls="TraceStack")
        need("self._ids = count()" in [src(n) for n in init.body] and "self.top = -1" in [src(n) for n in init.body], "TraceStack.__init__")
        return "GenMono"
    if text == ["self.top += 1", "yield self.top", "self.top -= 1"]:
        return "GenDepth"
    raise Mismatch("TraceStack.new_trace is neither of the two known id supplies: %r" % (text,))


def run(repo, gen):
    core = ast.parse(open(os.path.join(repo, "autograd", "core.py")).read())
    tracer = ast.parse(open(os.path.join(repo, "autograd", "tracer.py")).read())
    rows = tr_add_outgrads(core)
    init, op1, op2 = tr_find_top(tracer)
    supply = tr_supply(tracer)
    cmpname = {"Gt": "CmpGt", "GtE": "CmpGe", "Eq": "CmpEq", "Lt": "CmpLt", "LtE": "CmpLe", "NotEq": "CmpNe"}
    need(op1 in cmpname and op2 in cmpname, "comparison operators")
    lines = ["(* GENERATED by harness/translators/engine.py from autograd/core.py and autograd/tracer.py - do not edit. *)",
             "From Coq Require Import ZArith Bool.", "",
             "Inductive ao_action := AoSparseInto | AoMutAdd | AoSparseIntoCopy | AoAdd | AoSparseIntoZeros | AoPass.",
             "(* core.add_outgrads: (is there a previous contribution, is it owned, is the new one sparse) -> (what is returned, owned flag) *)",
             "Definition gen_add_outgrads (has_prev mutable sparse : bool) : ao_action * bool :=",
             "  match has_prev, mutable, sparse with"]
    for hp in ("true", "false"):
        for mu in ("true", "false"):
            for sp in ("true", "false"):
                act, flag = rows[(hp, mu, sp)]
                lines.append("  | %s, %s, %s => (%s, %s)" % (hp, mu, sp, act, "true" if flag else "false"))
    lines += ["  end.", "",
              "Inductive gen_cmp := CmpGt | CmpGe | CmpEq | CmpLt | CmpLe | CmpNe.",
              "(* tracer.find_top_boxed_args *)",
              "Definition gen_find_top_init : Z := (%d)%%Z." % init,
              "Definition gen_find_top_new_top_when : gen_cmp := %s." % cmpname[op1],
              "Definition gen_find_top_join_when : gen_cmp := %s." % cmpname[op2], "",
              "Inductive gen_supply_kind := GenDepth | GenMono.",
              "(* tracer.TraceStack.new_trace *)",
              "Definition gen_supply : gen_supply_kind := %s." % supply, ""]
    path = os.path.join(gen, "GenEngine.v")
    text = "\n".join(lines)
    try:
        if open(path).read() == text:
            return {"rows": len(rows), "supply": supply}
    except OSError:
        pass
    with open(path, "w") as f:
        f.write(text)
    return {"rows": len(rows), "supply": supply}
