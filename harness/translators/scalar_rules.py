"""Translator (T): the ufunc-style derivative rules of numpy_vjps.py / numpy_jvps.py
(lambdas over arithmetic, anp.<ufunc>, where, replace_zero, balanced_eq, comparisons,
literals) -> Coq definitions over R in coq/gen/GenRules.v, regenerated on every run.
Fail-closed: a rule outside the grammar gets no definition and is listed in
gen/untranslated.json."""
import ast
import json
import os

REAL_FUNS = {"cos": "cos", "sin": "sin", "exp": "exp", "log": "ln", "sqrt": "sqrt", "cosh": "cosh",
             "sinh": "sinh", "abs": "Rabs", "sign": "rsign", "floor": "rfloor", "conj": "", "real": "",
             "conjugate": ""}


class Untranslatable(Exception):
    pass


def lit(v):
    if isinstance(v, bool):
        raise Untranslatable("bool literal")
    if isinstance(v, int):
        return "(%d)" % v if v >= 0 else "(- %d)" % (-v)
    if isinstance(v, float):
        if v == int(v):
            return lit(int(v))
        # decimal literal as an exact fraction
        s = repr(abs(v))
        if "e" in s or "E" in s:
            raise Untranslatable("float literal %r" % v)
        ip, fp = s.split(".")
        num, den = int(ip + fp), 10 ** len(fp)
        t = "(%d / %d)" % (num, den)
        return t if v > 0 else "(- %s)" % t
    raise Untranslatable("literal %r" % (v,))


def const_value(node):
    if isinstance(node, ast.Constant) and isinstance(node.value, (int, float)) and not isinstance(node.value, bool):
        return node.value
    if isinstance(node, ast.UnaryOp) and isinstance(node.op, ast.USub):
        v = const_value(node.operand)
        return None if v is None else -v
    return None


def tr(node, env):
    if isinstance(node, ast.Name):
        if node.id in env:
            return node.id
        raise Untranslatable("free name %s" % node.id)
    if isinstance(node, ast.Constant):
        if isinstance(node.value, complex):
            raise Untranslatable("complex literal")
        return lit(node.value)
    if isinstance(node, ast.UnaryOp) and isinstance(node.op, ast.USub):
        return "(- %s)" % tr(node.operand, env)
    if isinstance(node, ast.BinOp):
        if isinstance(node.op, ast.Pow):
            base = tr(node.left, env)
            e = const_value(node.right)
            if e is not None and float(e) == int(e) and 0 <= int(e) <= 8:
                return "(%s ^ %d)" % (base, int(e))
            if e is not None and float(e) == int(e) and -8 <= int(e) < 0:
                return "(/ (%s ^ %d))" % (base, -int(e))
            if e == -0.5:
                return "(/ sqrt %s)" % base
            if e == 0.5:
                return "(sqrt %s)" % base
            return "(Rpower %s %s)" % (base, tr(node.right, env))
        if isinstance(node.op, ast.BitOr):      # `|` of two 0/1-valued comparisons
            return "(ror %s %s)" % (tr(node.left, env), tr(node.right, env))
        op = {ast.Add: "+", ast.Sub: "-", ast.Mult: "*", ast.Div: "/"}.get(type(node.op))
        if op is None:
            raise Untranslatable("operator %s" % type(node.op).__name__)
        return "(%s %s %s)" % (tr(node.left, env), op, tr(node.right, env))
    if isinstance(node, ast.Compare) and len(node.ops) == 1:
        a, b = tr(node.left, env), tr(node.comparators[0], env)
        if isinstance(node.ops[0], ast.Eq):
            return "(req %s %s)" % (a, b)
        if isinstance(node.ops[0], ast.NotEq):
            return "(rneq %s %s)" % (a, b)
        raise Untranslatable("comparison")
    if isinstance(node, ast.Attribute) and isinstance(node.value, ast.Name) and node.value.id == "anp":
        if node.attr == "pi":
            return "PI"
        raise Untranslatable("anp.%s" % node.attr)
    if isinstance(node, ast.Call):
        f = node.func
        args = node.args
        if node.keywords:
            raise Untranslatable("keyword arguments")
        if isinstance(f, ast.Name):
            if f.id == "replace_zero" and len(args) == 2:
                x = tr(args[0], env)
                return "(rwhere %s %s %s)" % (x, x, tr(args[1], env))
            if f.id == "balanced_eq" and len(args) == 3:
                x, z, y = (tr(a, env) for a in args)
                return "(req %s %s / (1 + req %s %s))" % (x, z, x, y)
            if f.id == "match_complex" and len(args) == 2:
                return tr(args[1], env)
            if f.id == "broadcast" and len(args) == 2:
                return tr(args[0], env)
            raise Untranslatable("call %s" % f.id)
        if isinstance(f, ast.Attribute) and isinstance(f.value, ast.Name) and f.value.id == "anp":
            n = f.attr
            if n == "where" and len(args) == 3:
                return "(rwhere %s %s %s)" % tuple(tr(a, env) for a in args)
            if n == "isfinite" and len(args) == 1:
                tr(args[0], env)
                return "1"
            if n == "logical_and" and len(args) == 2:
                return "(%s * %s)" % (tr(args[0], env), tr(args[1], env))
            if n in REAL_FUNS and len(args) == 1:
                fn = REAL_FUNS[n]
                a = tr(args[0], env)
                return "(%s %s)" % (fn, a) if fn else a
            raise Untranslatable("anp.%s" % n)
    raise Untranslatable(type(node).__name__)


def prim_name(node):
    if isinstance(node, ast.Attribute) and isinstance(node.value, ast.Name) and node.value.id == "anp":
        return node.attr
    return None


def lambda_params(lam):
    a = lam.args
    if a.vararg or a.kwarg or a.kwonlyargs:
        raise Untranslatable("star args")
    if a.defaults:
        raise Untranslatable("default arguments")
    return [x.arg for x in a.args]


def translate_vjp(rule):
    """lambda ans, x[, y...]: (unbroadcast_f(t, lambda g: E) | lambda g: E)  ->  (params, wrapper, expr)"""
    if not isinstance(rule, ast.Lambda):
        raise Untranslatable("not a lambda")
    params = lambda_params(rule)
    body = rule.body
    wrapper = "Plain"
    if isinstance(body, ast.Call) and isinstance(body.func, ast.Name) and body.func.id == "unbroadcast_f":
        tgt, inner = body.args
        if not (isinstance(tgt, ast.Name) and tgt.id in params):
            raise Untranslatable("unbroadcast_f target")
        wrapper = "UnbroadcastF %d" % (params.index(tgt.id) - 1)
        body = inner
    if not isinstance(body, ast.Lambda):
        raise Untranslatable("rule does not return a lambda")
    gp = lambda_params(body)
    if len(gp) != 1:
        raise Untranslatable("inner lambda arity")
    return params + gp, wrapper, tr(body.body, set(params + gp))


def translate_jvp(rule):
    if not isinstance(rule, ast.Lambda):
        raise Untranslatable("not a lambda")
    params = lambda_params(rule)
    body = rule.body
    wrapper = "Plain"
    if isinstance(body, ast.Call) and isinstance(body.func, ast.Name) and body.func.id == "broadcast":
        wrapper = "Broadcast"
    return params, wrapper, tr(body, set(params))


def tr_ring(node, env):
    """the sub-grammar that makes sense over any commutative ring: names, natural-number literals, + - * and unary minus"""
    if isinstance(node, ast.Name):
        if node.id in env:
            return node.id
        raise Untranslatable("free name %s" % node.id)
    if isinstance(node, ast.Constant) and not isinstance(node.value, (bool, complex)) and isinstance(node.value, (int, float)) \
            and node.value == int(node.value) and 0 <= node.value <= 16:
        return "(knat %d)" % int(node.value)
    if isinstance(node, ast.UnaryOp) and isinstance(node.op, ast.USub):
        return "(kopp %s)" % tr_ring(node.operand, env)
    if isinstance(node, ast.BinOp) and isinstance(node.op, (ast.Add, ast.Sub, ast.Mult)):
        op = {ast.Add: "kadd", ast.Sub: "ksub", ast.Mult: "kmul"}[type(node.op)]
        return "(%s %s %s)" % (op, tr_ring(node.left, env), tr_ring(node.right, env))
    raise Untranslatable("not a ring expression")


def ring_version(kind, rule):
    """(params, expr) of a rule whose body is a ring expression (possibly inside unbroadcast_f / broadcast), else None"""
    try:
        if kind == "vjp":
            if not isinstance(rule, ast.Lambda):
                return None
            params = lambda_params(rule)
            body = rule.body
            if isinstance(body, ast.Call) and isinstance(body.func, ast.Name) and body.func.id == "unbroadcast_f" and len(body.args) == 2:
                body = body.args[1]
            if not isinstance(body, ast.Lambda):
                return None
            gp = lambda_params(body)
            return params + gp, tr_ring(body.body, set(params + gp))
        if not isinstance(rule, ast.Lambda):
            return None
        params = lambda_params(rule)
        body = rule.body
        if isinstance(body, ast.Call) and isinstance(body.func, ast.Name) and body.func.id == "broadcast" and len(body.args) == 2:
            body = body.args[0]
        return params, tr_ring(body, set(params))
    except Untranslatable:
        return None


def run(repo, gen):
    ring_out = ["(* GENERATED on every run by harness/translators/scalar_rules.py: the derivative rules whose body is a ring",
                "   expression (names, small natural literals, + - * and unary minus), over ANY commutative ring - do not edit. *)",
                "Section GenRingRules.", "  Variable K : Type.", "  Variables (k0 k1 : K) (kadd kmul ksub : K -> K -> K) (kopp : K -> K).",
                "  Fixpoint knat (n : nat) : K := match n with O => k0 | S m => kadd k1 (knat m) end."]
    out = ["(* GENERATED on every run by harness/translators/scalar_rules.py from",
           "   autograd/numpy/numpy_vjps.py and numpy_jvps.py - do not edit. *)",
           "From Coq Require Import Reals.", "From AG Require Import RealPrelude.", "Local Open Scope R_scope.", ""]
    table, untranslated = [], []
    for fname, kind, call in (("numpy_vjps.py", "vjp", "defvjp"), ("numpy_jvps.py", "jvp", "defjvp")):
        tree = ast.parse(open(os.path.join(repo, "autograd", "numpy", fname)).read())
        for node in tree.body:
            if not (isinstance(node, ast.Expr) and isinstance(node.value, ast.Call)):
                continue
            c = node.value
            if not (isinstance(c.func, ast.Name) and c.func.id in (call, "def_linear")):
                continue
            name = prim_name(c.args[0]) if c.args else None
            if name is None:
                continue
            if c.func.id == "def_linear":
                table.append((kind, name, -1, "Linear"))
                continue
            argnums = None
            for kw in c.keywords:
                if kw.arg == "argnums":
                    argnums = [const_value(e) for e in kw.value.elts]
            for i, rule in enumerate(c.args[1:]):
                k = argnums[i] if argnums else i
                ident = "%s_%s_%d" % (kind, name, k)
                if isinstance(rule, ast.Constant) and rule.value is None:
                    table.append((kind, name, k, "NoneRule"))
                    continue
                if isinstance(rule, ast.Constant) and rule.value == "same":
                    table.append((kind, name, k, "Same"))
                    continue
                try:
                    params, wrapper, expr = (translate_vjp if kind == "vjp" else translate_jvp)(rule)
                except Untranslatable as ex:
                    untranslated.append({"rule": ident, "why": str(ex)})
                    table.append((kind, name, k, "Opaque"))
                    continue
                out.append("Definition %s (%s : R) : R := %s." % (ident, " ".join(params), expr))
                table.append((kind, name, k, wrapper))
                rv = ring_version(kind, rule)
                if rv is not None:
                    ring_out.append("  Definition ring_%s (%s : K) : K := %s." % (ident, " ".join(rv[0]), rv[1]))
    out.append("")
    names = [l.split()[1] for l in out if l.startswith("Definition ")]
    out.append("(* every generated rule, for `autounfold with genrules` *)")
    out.append("Create HintDb genrules.")
    for i in range(0, len(names), 8):
        out.append("#[global] Hint Unfold %s : genrules." % " ".join(names[i:i + 8]))
    out.append("")
    out.append("(* the rule table: (mode, primitive, argnum, how the rule is wrapped) *)")
    out.append("Definition rule_table : list (string * string * Z * string) := [")
    out.append(";\n".join('  ("%s", "%s", (%d)%%Z, "%s")' % t for t in table))
    out.append("]%string.")
    text = "\n".join(out) + "\n"
    text = text.replace("From Coq Require Import Reals.", "From Coq Require Import Reals String ZArith List.\nImport ListNotations.")
    from harness.common import write_if_changed
    write_if_changed(os.path.join(gen, "GenRules.v"), text)
    ring_out.append("End GenRingRules.")
    write_if_changed(os.path.join(gen, "GenRingRules.v"), "\n".join(ring_out) + "\n")
    write_if_changed(os.path.join(gen, "untranslated.json"), json.dumps(untranslated, indent=1))
    return {"translated": sum(1 for t in table if t[3] not in ("Opaque",)), "untranslated": untranslated}
