"""Translator (T) by introspection: classify every callable exported by
autograd.numpy, .linalg, .fft, .random into the classes the engine theorems
speak about -> coq/gen/GenExports.v (regenerated on every run)."""
import os


def classify():
    import autograd.numpy as anp
    from autograd.core import primitive_vjps, primitive_jvps
    from autograd.tracer import notrace_primitives
    nt = set()
    for v in notrace_primitives.values():
        nt |= set(v)
    rows = []
    for ns, mod in (("", anp), ("linalg.", anp.linalg), ("fft.", anp.fft), ("random.", anp.random)):
        for name in sorted(dir(mod)):
            if name.startswith("_"):
                continue
            o = getattr(mod, name)
            if not callable(o):
                continue
            if isinstance(o, type):
                c = "CType"
            elif getattr(o, "_is_autograd_primitive", False):
                if o in nt:
                    c = "CNoTrace"
                elif o in primitive_vjps:
                    c = "CPrimVjpJvp" if o in primitive_jvps else "CPrimVjp"
                elif o in primitive_jvps:
                    c = "CPrimJvp"
                else:
                    c = "CPrimNoRule"
            else:
                c = "CRaw"
            rows.append((ns + name, c))
    return rows


def run(repo, gen):
    rows = classify()
    out = ["(* GENERATED on every run by harness/translators/exports.py (introspection of the",
           "   imported package) - do not edit. *)",
           "From Coq Require Import String List.", "Import ListNotations.", "Local Open Scope string_scope.", "",
           "Inductive eclass := CPrimVjpJvp | CPrimVjp | CPrimJvp | CPrimNoRule | CNoTrace | CRaw | CType.", "",
           "Definition exports : list (string * eclass) := ["]
    out.append(";\n".join('  ("%s", %s)' % r for r in rows))
    out.append("].")
    from harness.common import write_if_changed
    write_if_changed(os.path.join(gen, "GenExports.v"), "\n".join(out) + "\n")
    return rows
