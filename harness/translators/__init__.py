def run_all(gen):
    return
