import os


def run_all(gen):
    repo = os.environ.get("VERIF_REPO", "/repo")
    from harness.translators import scalar_rules, exports
    info = scalar_rules.run(repo, gen)
    print("scalar_rules: %d table entries translated, %d outside the grammar" % (
        info["translated"], len(info["untranslated"])))
    rows = exports.run(repo, gen)
    print("exports: %d callables classified" % len(rows))
