"""Translator for core.defvjp (C17): the dictionary it builds (argnums zipped with the rule makers, `count()` by default)
and the three branches of its vjp_argnums (one, two, any number of differentiated arguments): for each branch, WHICH
dictionary entry produces WHICH position of the returned tuple is followed symbolically through the assignments.
Forward mode: core.defjvp (the dictionary; one contribution per (argnum, g) of zip(argnums, gs), in order, summed),
core.defjvp_argnum, core.def_linear, and what a `None` entry becomes in translate_vjp / translate_jvp - the zero of WHICH
space (the argument's or the output's) - and the 'same' entry (the primitive itself with g substituted at argnum).
Output: coq/gen/GenExtend.v; Operators/ExtendTie.v proves Extend.make_dict / defvjp_route / the forward-mode tables equal
to it.  Fail-closed."""
import ast
import os

from .engine import Mismatch, need, fun_def, src, code


def run(repo, gen):
    core = ast.parse(open(os.path.join(repo, "autograd", "core.py")).read())
    f = fun_def(core, "defvjp")
    need([a.arg for a in f.args.args] == ["fun"] and f.args.vararg.arg == "vjpmakers" and f.args.kwarg.arg == "kwargs", "defvjp signature")
    b = code(f.body)
    need(len(b) == 4, "defvjp has %d statements" % len(b))
    need(src(b[0]) == "argnums = kwargs.get('argnums', count())", "argnums default to count()")
    need(src(b[1]) == "vjps_dict = {argnum: translate_vjp(vjpmaker, fun, argnum) for argnum, vjpmaker in zip(argnums, vjpmakers)}",
         "vjps_dict = {argnum: translate_vjp(vjpmaker, fun, argnum) for argnum, vjpmaker in zip(argnums, vjpmakers)}")
    need(src(b[3]) == "defvjp_argnums(fun, vjp_argnums)", "registration through defvjp_argnums")
    va = b[2]
    need(isinstance(va, ast.FunctionDef) and va.name == "vjp_argnums" and [a.arg for a in va.args.args] == ["argnums", "ans", "args", "kwargs"], "vjp_argnums signature")
    vb = code(va.body)
    need(len(vb) == 2 and src(vb[0]) == "L = len(argnums)" and isinstance(vb[1], ast.If), "L = len(argnums); if/elif/else")
    br1 = vb[1]
    need(src(br1.test) == "L == 1" and len(br1.orelse) == 1 and isinstance(br1.orelse[0], ast.If) and src(br1.orelse[0].test) == "L == 2", "branches L == 1 / L == 2 / else")
    br2 = br1.orelse[0]
    generic = br2.orelse

    def follow(stmts, nargs):
        """names -> symbolic values: ('argnum', k) | ('entry', k) [vjps_dict[argnums[k]]] | ('vjp', k) [entry applied to (ans, *args, **kwargs)]"""
        env = {}
        ret = None
        for s in stmts:
            if isinstance(s, ast.Try):
                need(len(s.handlers) == 1 and src(s.handlers[0].type) == "KeyError" and len(s.handlers[0].body) == 1
                     and isinstance(s.handlers[0].body[0], ast.Raise) and src(s.handlers[0].body[0].exc).startswith("NotImplementedError("),
                     "a missing entry raises NotImplementedError")
                inner = s.body
            else:
                inner = [s]
            for t in inner:
                if isinstance(t, ast.Return):
                    ret = t.value
                    continue
                need(isinstance(t, ast.Assign) and len(t.targets) == 1, "statement %r" % src(t))
                tgt, val = t.targets[0], t.value
                if isinstance(tgt, ast.Tuple) and src(val) == "argnums":
                    need(len(tgt.elts) == nargs, "unpacking of argnums")
                    for k, e in enumerate(tgt.elts):
                        env[e.id] = ("argnum", k)
                elif isinstance(tgt, ast.Name) and isinstance(val, ast.Subscript) and src(val.value) == "argnums" and isinstance(val.slice, ast.Constant):
                    env[tgt.id] = ("argnum", val.slice.value)
                elif isinstance(tgt, ast.Name) and isinstance(val, ast.Subscript) and src(val.value) == "vjps_dict" and isinstance(val.slice, ast.Name):
                    need(env.get(val.slice.id, (None,))[0] == "argnum", "vjps_dict[%s]" % val.slice.id)
                    env[tgt.id] = ("entry", env[val.slice.id][1])
                elif isinstance(tgt, ast.Name) and isinstance(val, ast.Call) and isinstance(val.func, ast.Name) and src(val).endswith("(ans, *args, **kwargs)"):
                    need(env.get(val.func.id, (None,))[0] == "entry", "call of %s" % val.func.id)
                    env[tgt.id] = ("vjp", env[val.func.id][1])
                else:
                    raise Mismatch("statement %r" % src(t))
        need(isinstance(ret, ast.Lambda) and [a.arg for a in ret.args.args] == ["g"] and isinstance(ret.body, ast.Tuple), "the branch returns lambda g: (...)")
        outs = []
        for e in ret.body.elts:
            need(isinstance(e, ast.Call) and isinstance(e.func, ast.Name) and src(e.args[0]) == "g" and len(e.args) == 1 and env.get(e.func.id, (None,))[0] == "vjp",
                 "tuple element %r" % src(e))
            outs.append(env[e.func.id][1])
        return outs
    o1 = follow(br1.body, 1)
    o2 = follow(br2.body, 2)
    need(len(o1) == 1 and len(o2) == 2, "arity of the returned tuples")
    need(len(generic) == 2 and src(generic[0]) == "vjps = [vjps_dict[argnum](ans, *args, **kwargs) for argnum in argnums]"
         and src(generic[1]) == "return lambda g: (vjp(g) for vjp in vjps)", "the generic branch: one entry per argnum, in order")
    # ---- forward mode ----
    fj = fun_def(core, "defjvp")
    need([a.arg for a in fj.args.args] == ["fun"] and fj.args.vararg.arg == "jvpfuns" and fj.args.kwarg.arg == "kwargs", "defjvp signature")
    jb = code(fj.body)
    need(len(jb) == 4, "defjvp has %d statements" % len(jb))
    need(src(jb[0]) == "argnums = kwargs.get('argnums', count())", "defjvp: argnums default to count()")
    need(src(jb[1]) == "jvps_dict = {argnum: translate_jvp(jvpfun, fun, argnum) for argnum, jvpfun in zip(argnums, jvpfuns)}", "defjvp: the dictionary")
    need(src(jb[3]) == "defjvp_argnums(fun, jvp_argnums)", "defjvp: registration through defjvp_argnums")
    ja = jb[2]
    need(isinstance(ja, ast.FunctionDef) and [a.arg for a in ja.args.args] == ["argnums", "gs", "ans", "args", "kwargs"] and
         [src(t) for t in code(ja.body)] == ["return sum_outgrads((jvps_dict[argnum](g, ans, *args, **kwargs) for argnum, g in zip(argnums, gs)))"],
         "defjvp.jvp_argnums: the sum over zip(argnums, gs) of jvps_dict[argnum](g, ans, *args, **kwargs); found %r" % [src(t) for t in code(ja.body)])
    fa = fun_def(core, "defjvp_argnum")
    ab = code(fa.body)
    need([a.arg for a in fa.args.args] == ["fun", "jvpmaker"] and len(ab) == 2 and isinstance(ab[0], ast.FunctionDef)
         and [a.arg for a in ab[0].args.args] == ["argnums", "gs", "ans", "args", "kwargs"]
         and [src(t) for t in code(ab[0].body)] == ["return sum_outgrads((jvpmaker(argnum, g, ans, args, kwargs) for argnum, g in zip(argnums, gs)))"]
         and src(ab[1]) == "defjvp_argnums(fun, %s)" % ab[0].name, "defjvp_argnum: the sum over zip(argnums, gs) of jvpmaker(argnum, g, ans, args, kwargs)")
    fl = fun_def(core, "def_linear")
    need([a.arg for a in fl.args.args] == ["fun"] and [src(t) for t in code(fl.body)] ==
         ["defjvp_argnum(fun, lambda argnum, g, ans, args, kwargs: fun(*subval(args, argnum, g), **kwargs))"], "def_linear: the primitive itself with g substituted at argnum")

    def zero_of(lam, what):
        """lam: the lambda a None entry is translated into; returns 'ZOfOutput' / 'ZOfArgument'"""
        need(isinstance(lam, ast.Lambda), "%s: a None entry becomes a lambda" % what)
        names = [a.arg for a in lam.args.args]
        var = lam.args.vararg.arg if lam.args.vararg else None
        body = lam.body
        if isinstance(body, ast.Lambda):            # reverse mode: lambda ans, *args, **kwargs: lambda g: ...
            need([a.arg for a in body.args.args] == ["g"] and names[:1] == ["ans"], "%s: lambda ans, *args, **kwargs: lambda g: ..." % what)
            body = body.body
        else:                                       # forward mode: lambda g, ans, *args, **kwargs: ...
            need(names[:2] == ["g", "ans"], "%s: lambda g, ans, *args, **kwargs: ..." % what)
        need(isinstance(body, ast.Call) and not body.args and not body.keywords and isinstance(body.func, ast.Attribute) and body.func.attr == "zeros"
             and isinstance(body.func.value, ast.Call) and src(body.func.value.func) == "vspace" and len(body.func.value.args) == 1,
             "%s: the None entry is vspace(<value>).zeros(); found %r" % (what, src(body)))
        x = src(body.func.value.args[0])
        if x == "ans":
            return "ZOfOutput"
        need(var is not None and x == "%s[argnum]" % var, "%s: zeros of vspace(%s) is neither the output's nor the argument's space" % (what, x))
        return "ZOfArgument"

    def branches(f):
        b_ = code(f.body)
        need(len(b_) == 1 and isinstance(b_[0], ast.If), "%s is one if/elif chain" % f.name)
        out_, node = [], b_[0]
        while True:
            out_.append((src(node.test), code(node.body)))
            if len(node.orelse) == 1 and isinstance(node.orelse[0], ast.If):
                node = node.orelse[0]
            else:
                out_.append(("else", code(node.orelse)))
                return out_
    tv = fun_def(core, "translate_vjp")
    need([a.arg for a in tv.args.args] == ["vjpfun", "fun", "argnum"], "translate_vjp signature")
    bv = branches(tv)
    need([t for t, _ in bv] == ["vjpfun is None", "callable(vjpfun)", "else"] and all(len(b_) == 1 for _, b_ in bv), "translate_vjp: None / callable / else")
    need(isinstance(bv[0][1][0], ast.Return) and src(bv[1][1][0]) == "return vjpfun" and isinstance(bv[2][1][0], ast.Raise), "translate_vjp: a callable is used as it is, anything else raises")
    zv = zero_of(bv[0][1][0].value, "translate_vjp")
    tj = fun_def(core, "translate_jvp")
    need([a.arg for a in tj.args.args] == ["jvpfun", "fun", "argnum"], "translate_jvp signature")
    bj = branches(tj)
    need([t for t, _ in bj] == ["jvpfun is None", "jvpfun == 'same'", "callable(jvpfun)", "else"] and all(len(b_) == 1 for _, b_ in bj), "translate_jvp: None / 'same' / callable / else")
    need(isinstance(bj[0][1][0], ast.Return) and src(bj[2][1][0]) == "return jvpfun" and isinstance(bj[3][1][0], ast.Raise), "translate_jvp: a callable is used as it is, anything else raises")
    need(src(bj[1][1][0]) == "return lambda g, ans, *args, **kwargs: fun(*subval(args, argnum, g), **kwargs)", "translate_jvp: 'same' is the primitive itself with g substituted at argnum")
    zj = zero_of(bj[0][1][0].value, "translate_jvp")
    text = """(* GENERATED by harness/translators/extend.py from autograd/core.py (defvjp) - do not edit. *)
From Coq Require Import List Arith.
Import ListNotations.
From AG Require Import Extend.

(* vjps_dict = {argnum: translate_vjp(vjpmaker, fun, argnum) for argnum, vjpmaker in zip(argnums, vjpmakers)},
   argnums = kwargs.get("argnums", count()) *)
Definition gen_make_dict (argnums : option (list nat)) (makers : list entry) : rdict :=
  combine (match argnums with Some l => l | None => seq 0 (length makers) end) makers.

(* vjp_argnums: position k of the returned tuple comes from the dictionary entry of argnums[<index>] *)
Definition gen_route_one : list nat := %s.
Definition gen_route_two : list nat := %s.
Definition gen_pick (d : rdict) (argnums : list nat) (k : nat) : option out :=
  match nth_error argnums k with Some a => option_map (mk a) (dget a d) | None => None end.
Definition gen_defvjp_route (d : rdict) (argnums : list nat) : option (list out) :=
  match length argnums with
  | 1 => mapM (gen_pick d argnums) gen_route_one
  | 2 => mapM (gen_pick d argnums) gen_route_two
  | _ => mapM (fun a => option_map (mk a) (dget a d)) argnums
  end.

(* ---- forward mode ---- *)
(* jvps_dict = {argnum: translate_jvp(jvpfun, fun, argnum) for argnum, jvpfun in zip(argnums, jvpfuns)} *)
Definition gen_jmake_dict (argnums : option (list nat)) (makers : list jentry) : jdict :=
  combine (match argnums with Some l => l | None => seq 0 (length makers) end) makers.
(* sum_outgrads(jvps_dict[argnum](g, ans, *args, **kwargs) for argnum, g in zip(argnums, gs)) *)
Definition gen_defjvp_route (d : jdict) (argnums : list nat) : option (list jout) :=
  mapM (fun a => option_map (jmk a) (jget a d)) argnums.
(* sum_outgrads(jvpmaker(argnum, g, ans, args, kwargs) for argnum, g in zip(argnums, gs)) *)
Definition gen_defjvp_argnum_route (rid : nat) (argnums : list nat) : option (list jout) :=
  Some (map (fun a => JORule rid a) argnums).
(* def_linear: defjvp_argnum with the primitive itself, g substituted at position argnum *)
Definition gen_def_linear_route (argnums : list nat) : option (list jout) := Some (map JOSame argnums).
(* a None entry: translate_vjp gives vspace(<this>).zeros(), translate_jvp gives vspace(<this>).zeros() *)
Definition gen_none_vjp_zero : zero_space := %s.
Definition gen_none_jvp_zero : zero_space := %s.
""" % ("[" + "; ".join(str(k) for k in o1) + "]", "[" + "; ".join(str(k) for k in o2) + "]", zv, zj)
    path = os.path.join(gen, "GenExtend.v")
    try:
        if open(path).read() == text:
            return {"routes": [o1, o2], "zeros": [zv, zj]}
    except OSError:
        pass
    with open(path, "w") as fh:
        fh.write(text)
    return {"routes": [o1, o2], "zeros": [zv, zj]}
